SPECIFICATION Spec
CONSTANTS Quick = TRUE
CHECK_DEADLOCK FALSE
