----------------------------- MODULE ParamRing -----------------------------
(* C07 pass M.  Design spec (code-shaped) of Parser.scan - parameter substitution at READ
   time - on top of the 3-slot token ring of bufScanner (the ring itself, New / Scan / Unscan /
   Curr / TokAt, is spec/c04/ExprParse.tla's), and of the expression core of parser.go reading
   through it: parseUnaryExpr (IDENT-then-`(` probe with two Unscans, sign handling with an
   Unscan and a recursive call, the REGEX and BOUNDPARAM arms), parseCall / parseRegex (the
   `$` branch: Scan, Unscan, test for REGEX, then ScanRegex re-reads the ring) and the
   ParseExpr loop.

   The ring stores what the LEXER produced: for `$p` always the raw BOUNDPARAM.  Parser.scan
   looks the name up in the parameter map after every delivery, fresh or re-delivered:
        tok, pos, lit = fn();  if tok == BOUNDPARAM { if v, ok := p.params[k]; ok { tok, lit = v.TokenType(), v.Value() } }
   A placeholder is a token class "BP:<kind>": STR INT DUR ID RE BOOL (bound to a value of that
   kind), ERR (bound to an ErrorValue: stays BOUNDPARAM), UNB (not bound).

   Mode = "read"  is the code.   Mode = "first" is the design error this pass exists to refute:
   substitute only when the token is scanned fresh, deliver the cached raw token on a re-scan.

   Invariants (over every token-class sequence up to length N with at most two placeholders):
     RescanSame   every delivery of placeholder k - first scan and every re-scan after Unscan -
                  is the same substituted token
     InlineSame   when every placeholder is bound to a kind that is one lexer token, the result
                  (ok / error and the tree) equals the result for the sequence with the
                  literal class written in its place
     RingOKp      the ring discipline of C04 still holds with substitution in place            *)
EXTENDS ExprParse, FiniteSets

CONSTANTS N, Mode, Base
VARIABLES seq
vars == <<seq>>

BPKinds == {"STR", "INT", "DUR", "ID", "RE", "BOOL", "ERR", "UNB"}
BPClass(k) == "BP:" \o k
BPClasses == {BPClass(k) : k \in BPKinds}
IsBPc(t) == t \in BPClasses
\* Value.TokenType() of the bound value; ErrorValue and an unbound name leave BOUNDPARAM
Sub(t) == CASE t = "BP:STR" -> "STR" [] t = "BP:INT" -> "INT" [] t = "BP:DUR" -> "DUR" [] t = "BP:ID" -> "IDENT"
            [] t = "BP:RE" -> "REGEX" [] t = "BP:BOOL" -> "BOOL" [] t \in {"BP:ERR", "BP:UNB"} -> "BP" [] OTHER -> t
PFirst(t) == IF IsBPc(t) THEN "$" ELSE First(t)

\* parser state = ring state + cur (token class Parser.scan returned last) + log (deliveries of placeholders)
PNew(toks) == New(toks) @@ [cur |-> "", log |-> <<>>]
\* Parser.scan(fn): fn() is the ring's Scan; then the substitution
PScan(st) ==
  LET fresh == st.n = 0
      s1 == Scan(st)
      raw == Curr(s1)
      k == s1.buf[(s1.i - s1.n + 3) % 3]
      tok == IF Mode = "read" \/ fresh THEN Sub(raw) ELSE raw
  IN [s1 EXCEPT !.cur = tok, !.log = IF IsBPc(raw) THEN Append(s1.log, <<k, tok>>) ELSE s1.log]
RECURSIVE PScanIWS(_)
PScanIWS(st) == LET s1 == PScan(st) IN IF s1.cur \in {"WS", "CM"} THEN PScanIWS(s1) ELSE s1
PPeek(st) == PFirst(TokAt(st, IF st.pos > Len(st.toks) THEN 0 ELSE st.pos))
PConsumeWS(st) == LET s1 == PScan(st) IN IF s1.cur = "WS" THEN s1 ELSE Unscan(s1)

\* parseRegex
PParseRegex(st) ==
  LET s0 == IF PPeek(st) = "ws" THEN PConsumeWS(st) ELSE st
      pk == PPeek(s0)
  IN IF pk = "$" THEN
        LET s1 == PScan(s0) tok == s1.cur s2 == Unscan(s1) IN
        IF tok # "REGEX" THEN Ok(s2, [k |-> "none"])
        ELSE LET s3 == PScan(s2) IN                       \* ScanRegex: n > 0, the ring re-delivers
             IF s3.cur = "REGEX" THEN Ok(s3, [k |-> "regex"]) ELSE Err(s3)
     ELSE Ok(s0, [k |-> "none"])                          \* literal regexes ( / ... / ) are C04's business

RECURSIVE PParseExpr(_), PParseUnary(_), PCallArgs(_, _), PExprLoop(_, _)
PParseVarRef(st) == LET s1 == PScanIWS(st) IN IF s1.cur # "IDENT" THEN Err(s1) ELSE Ok(s1, [k |-> "ref"])
PCallArgs(st, cnt) ==
  LET s1 == PScanIWS(st) IN
  IF s1.cur # "COMMA" THEN
     LET s2 == PScan(Unscan(s1)) IN IF s2.cur = "RPAREN" THEN Ok(s2, [k |-> "call", n |-> cnt]) ELSE Err(s2)
  ELSE LET re == PParseRegex(s1) IN
       IF ~re.ok THEN re
       ELSE IF re.e.k = "regex" THEN PCallArgs(re.st, cnt + 1)
       ELSE LET a == PParseExpr(re.st) IN IF ~a.ok THEN a ELSE PCallArgs(a.st, cnt + 1)
PParseCall(st) ==
  LET re == PParseRegex(st) IN
  IF ~re.ok THEN re
  ELSE IF re.e.k = "regex" THEN PCallArgs(re.st, 1)
  ELSE LET s1 == PScan(re.st) IN
       IF s1.cur = "RPAREN" THEN Ok(s1, [k |-> "call", n |-> 0])
       ELSE LET a == PParseExpr(Unscan(s1)) IN IF ~a.ok THEN a ELSE PCallArgs(a.st, 1)
PParseUnary(st) ==
  LET s1 == PScanIWS(st) IN
  IF s1.cur = "LPAREN" THEN
     LET e == PParseExpr(s1) IN
     IF ~e.ok THEN e ELSE LET s2 == PScanIWS(e.st) IN IF s2.cur = "RPAREN" THEN Ok(s2, [k |-> "paren", e |-> e.e]) ELSE Err(s2)
  ELSE LET s2 == PScanIWS(Unscan(s1)) t == s2.cur IN
     IF t = "IDENT" THEN
        LET s3 == PScan(s2) IN
        IF s3.cur = "LPAREN" THEN PParseCall(s3)
        ELSE PParseVarRef(Unscan(Unscan(s3)))
     ELSE IF t \in {"INT", "STR", "DUR", "BOOL"} THEN Ok(s2, [k |-> "lit", t |-> t])
     ELSE IF t = "REGEX" THEN Ok(s2, [k |-> "regex"])
     ELSE IF t = "SUB" THEN
        LET s3 == PScanIWS(s2) t0 == s3.cur IN
        IF t0 \in {"INT", "DUR", "LPAREN", "IDENT"} THEN
           LET u == PParseUnary(Unscan(s3)) IN
           IF ~u.ok THEN u
           ELSE IF u.e.k = "lit" THEN u
           ELSE IF u.e.k \in {"ref", "call", "paren"} THEN Ok(u.st, [k |-> "bin", op |-> "MUL", l |-> [k |-> "lit", t |-> "INT"], r |-> u.e])
           ELSE [st |-> [u.st EXCEPT !.bad = TRUE], ok |-> FALSE, e |-> [k |-> "PANIC"]]
        ELSE Err(s3)
     ELSE Err(s2)                            \* BP (ErrorValue / unbound), operators, punctuation, EOF
PExprLoop(st, root) ==
  LET s1 == PScanIWS(st) op == s1.cur IN
  IF ~IsOp(op) THEN Ok(Unscan(s1), root)
  ELSE IF op = "EQREGEX" THEN
       LET re == PParseRegex(s1) IN
       IF ~re.ok THEN re ELSE IF re.e.k = "none" THEN Err(PScanIWS(re.st)) ELSE PExprLoop(re.st, Insert(root, op, re.e))
  ELSE LET u == PParseUnary(s1) IN IF ~u.ok THEN u ELSE PExprLoop(u.st, Insert(root, op, u.e))
PParseExpr(st) == LET u == PParseUnary(st) IN IF ~u.ok THEN u ELSE PExprLoop(u.st, u.e)

PRun(toks) == PParseExpr(PNew(toks))
Res(r) == [ok |-> r.ok, e |-> r.e]

\* ------------------------------------------------------------------ sequences
BaseFull == {"WS", "IDENT", "INT", "STR", "DUR", "BOOL", "SUB", "MUL", "EQ", "AND", "EQREGEX", "LPAREN", "RPAREN", "COMMA"}
BaseSmall == {"WS", "IDENT", "INT", "STR", "SUB", "EQ", "EQREGEX", "LPAREN", "RPAREN", "COMMA"}
NBP(s) == Cardinality({i \in 1..Len(s) : IsBPc(s[i])})
Init == seq = <<>>
Step == /\ Len(seq) < N
        /\ \E c \in Base \cup BPClasses :
             /\ (IsBPc(c) => NBP(seq) < 2)
             /\ seq' = Append(seq, c)
Next == Step
Spec == Init /\ [][Next]_vars

RescanSameR(r) == \A a \in 1..Len(r.st.log) :
                    /\ r.st.log[a][2] = Sub(seq[r.st.log[a][1]])
                    /\ \A b \in 1..Len(r.st.log) : r.st.log[a][1] = r.st.log[b][1] => r.st.log[a][2] = r.st.log[b][2]
InlinableBP(t) == t \in {"BP:STR", "BP:INT", "BP:DUR", "BP:ID", "BP:BOOL"}
Inlined(s) == [i \in 1..Len(s) |-> Sub(s[i])]
InlineSameR(r) == (NBP(seq) > 0 /\ \A i \in 1..Len(seq) : IsBPc(seq[i]) => InlinableBP(seq[i])) => Res(r) = Res(PRun(Inlined(seq)))
RingOKR(r) == ~r.st.bad /\ r.e.k # "PANIC" /\ r.st.maxn <= 2

\* one evaluation of the parser per state for all three
AllOK == LET r == PRun(seq) IN RescanSameR(r) /\ InlineSameR(r) /\ RingOKR(r)
RescanSame == RescanSameR(PRun(seq))
InlineSame == InlineSameR(PRun(seq))
RingOKp == RingOKR(PRun(seq))
=============================================================================
