------------------------------ MODULE Gen_c07 ------------------------------
(* C07 pass G: every template of Params.tla with every admissible choice of bindings for its
   holes.  A behaviour picks a template, then one binding per hole; the step that binds the
   last hole writes the case: the template's tokens, the bindings (how to build the Go values
   and what they denote), the marker spelling of the template and, when every bound value is
   Inlinable, the spelling with the literals written out.                                    *)
EXTENDS Params, Json, CSV, IOUtils

CONSTANT Quick
VARIABLES tpl, ids
vars == <<tpl, ids>>

NHoles(n) == Len(HoleNames(TplToks(n)))
\* bindings offered to hole j of template n
Offered(n, j) ==
  IF NHoles(n) = 1 THEN (IF Quick THEN {b \in AllBinds : b.id \in QuickIds} ELSE AllBinds)
  ELSE IF j = 1 THEN {b \in AllBinds : b.id \in (IF Quick THEN SecondIds ELSE QuickIds)}
  ELSE {b \in AllBinds : b.id \in SecondIds}

\* the name under which the value is put into the parameter map
BindName(n, spelling) == IF TplWrongName(n) THEN "p" ELSE ParamName(spelling)
RECURSIVE BindsFrom(_, _, _, _, _)
BindsFrom(n, names, hb, j, acc) ==
  IF j > Len(hb) THEN acc
  ELSE IF "absent" \in DOMAIN hb[j] THEN BindsFrom(n, names, hb, j + 1, acc)
  ELSE BindsFrom(n, names, hb, j + 1, Append(acc, [name |-> BindName(n, names[j]), go |-> hb[j].go]))

Case(n, chosen) ==
  LET toks == TplToks(n)
      names == HoleNames(toks)
      hb == [j \in 1..Len(chosen) |-> BindById(chosen[j])]
      anyErr == \E j \in 1..Len(hb) : hb[j].kind = "error"
      base == [tpl |-> n, toks |-> toks, hb |-> hb,
               holes |-> [j \in 1..Len(names) |-> [name |-> names[j], sg |-> HoleSigned(toks, names[j]), opnd |-> HoleOperand(toks, names[j])]],
               binds |-> BindsFrom(n, names, hb, 1, <<>>),
               noset |-> \E j \in 1..Len(hb) : "noset" \in DOMAIN hb[j]]
      mark == IF anyErr THEN <<>> ELSE [x \in {"mark"} |-> MarkToks(toks, hb)]
      inl == IF \A j \in 1..Len(hb) : Inlinable(hb[j], HoleOperand(toks, names[j])) THEN [x \in {"inl"} |-> InlToks(toks, hb)] ELSE <<>>
  IN base @@ mark @@ inl

Init == tpl = "" /\ ids = <<>>
PickT == /\ tpl = ""
         /\ \E n \in TplNames : tpl' = n /\ ids' = <<>>
PickB == /\ tpl # "" /\ Len(ids) < NHoles(tpl)
         /\ \E b \in Offered(tpl, Len(ids) + 1) :
              /\ ~(Len(ids) = 1 /\ b.kind = "boolean" /\ BindById(ids[1]).kind = "boolean")   \* both markers would be `true`
              /\ ids' = Append(ids, b.id)
              /\ IF Len(ids') = NHoles(tpl) THEN CSVWrite("%1$s", <<ToJson(Case(tpl, ids'))>>, IOEnv.CASE_FILE) ELSE TRUE
              /\ UNCHANGED tpl
Next == PickT \/ PickB
Spec == Init /\ [][Next]_vars

\* side conditions on the tables themselves (an ASSUME: constant-level): binding ids are
\* unique, Inlinable durations are exactly the well-formed ones of the table
TablesOK == /\ \A a, b \in AllBinds : a.id = b.id => a = b
            /\ QuickIds \subseteq {b.id : b \in AllBinds} /\ SecondIds \subseteq QuickIds
            /\ \A b \in DurBinds : (b.inl # "") => (WellFormedDuration(b.inl) /\ b.v # "" /\ SubSeq(b.v, 1, 1) # "-")
            /\ \A b \in DurBinds : (b.go.e[1].v.ty = "string" /\ WellFormedDuration(b.go.e[1].v.v)) => b.inl = b.go.e[1].v.v
ASSUME TablesOK
=============================================================================
