----------------------------- MODULE Judge_c07 -----------------------------
(* Pass V for C07.  Record (one per template x bindings, spec/c07/Gen_c07.tla):
     [id, tpl, toks, holes, hb, binds, noset, mark?, inl?,
      obs |-> [text, got, mark?, inl?]]     each outcome: [err] or [ast] (tagged tree)
   got = ParseQuery of the template with SetParams(binds); mark / inl = ParseQuery of the
   marker and inlined spellings, without parameters.
   Classes
     error-accepted        (E) unbound / empty / unbindable / malformed parameter, invalid duration
                           text or uncompilable regex, yet the statement parsed
     structure-changed     (S) the AST is not the template's AST with the bound value in the hole
     value-altered         (S) it is the template's AST, but the hole does not carry the bound value
     accepted-where-literal-rejected
                           (S) the statement parsed although the template with a literal of that
                           kind in the hole does not parse (no template AST to compare with)
     inline-mismatch       (I) the bound values are Inlinable and the outcome differs from parsing
                           the text with the literals written out
     Dev_RegexParamAfterDot  known finding: (I) fails in exactly this way - a regex parameter right
                           after the `.` of a segmented measurement name is rejected (ParseIdent)
                           although the regex literal is accepted there
     (error-accepted is also the class of the history `parse T with bindings ; SetParams(none) ; parse T again`
      on one parser when the second parse succeeds: obs.rebind)
     panic                                                                                     *)
EXTENDS Params, Json, CSV, IOUtils

VARIABLES l, nt, ns, ni, ne
vars == <<l, nt, ns, ni, ne>>

Trace == ndJsonDeserialize(IOEnv.OBS_FILE)
Has(r, f) == f \in DOMAIN r
V(c, s) == [class |-> c, sig |-> s]

OK(o, k) == Has(o, k) /\ Has(o[k], "ast")
Panicked(o) == \E k \in {"got", "mark", "inl"} : Has(o, k) /\ (Has(o[k], "panic") \/ Has(o[k], "harness_panic"))

MustFail(r) == \/ TplEmptyName(r.tpl) \/ TplWrongName(r.tpl)
               \/ \E j \in 1..Len(r.hb) : r.hb[j].kind = "error" \/ Invalid(r.hb[j])
\* coarse signature: the kind bound to a single hole, "two-holes" otherwise
Kinds(r) == IF Len(r.hb) = 1 THEN r.hb[1].kind ELSE "two-holes"

\* TemplateAst(t)[hole_j |-> node_j]
RECURSIVE SubstAll(_, _, _, _)
SubstAll(tree, hb, holes, j) ==
  IF j > Len(hb) THEN tree
  ELSE LET b == hb[j] h == holes[j] IN
       SubstAll(Subst(tree, MarkNode(b.kind, j, h.sg, h.opnd), ExpectedNode(b, h.sg, h.opnd)), hb, holes, j + 1)
HasTemplate(o) == OK(o, "mark")
Expected(r) == SubstAll(r.obs.mark.ast, r.hb, r.holes, 1)

\* (S) is judged unless the hole's value is interpreted (tz) or negated without a representable result
SJudged(r) == /\ ~TplSemantic(r.tpl)
              /\ \A j \in 1..Len(r.hb) : ~NoNegation(r.hb[j], r.holes[j].sg)

\* the mismatch is confined to the hole (single-hole templates): some other node there gives equality
ValueOnly(r) == LET o == r.obs b == r.hb[1] h == r.holes[1] m == MarkNode(b.kind, 1, h.sg, h.opnd) IN
  /\ Len(r.hb) = 1 /\ OK(o, "mark")
  /\ \E c \in TFind(o.mark.ast, o.got.ast, m) : NormZ(o.got.ast) = NormZ(Subst(o.mark.ast, m, c))

\* the known deviation: one regex hole, written tight after a `.`, parameter rejected, literal accepted
RegexAfterDot(r) ==
  /\ Len(r.hb) = 1 /\ r.hb[1].kind = "regex"
  /\ \E i \in 2..Len(r.toks) : /\ IsBp(r.toks[i]) /\ r.toks[i].g = "T"
                               /\ r.toks[i - 1].t = "p" /\ r.toks[i - 1].s = "."

Verdicts(r) ==
  LET o == r.obs IN
  IF Has(o, "harness_panic") \/ Panicked(o) THEN {V("panic", r.tpl)}
  ELSE IF MustFail(r) THEN (IF OK(o, "got") THEN {V("error-accepted", Kinds(r))} ELSE {})
  ELSE
  LET sv == IF ~OK(o, "got") \/ ~SJudged(r) THEN {}
            ELSE IF ~HasTemplate(o) THEN {V("accepted-where-literal-rejected", Kinds(r))}
            ELSE IF NormZ(o.got.ast) = NormZ(Expected(r)) THEN {}
            ELSE IF ValueOnly(r) THEN {V("value-altered", Kinds(r))}
            ELSE {V("structure-changed", Kinds(r))}
      iv == IF ~Has(o, "inl") THEN {}
            ELSE IF OK(o, "got") /\ OK(o, "inl") THEN
                 (IF NormZ(o.got.ast) = NormZ(o.inl.ast) THEN {} ELSE {V("inline-mismatch", "ast-differs:" \o Kinds(r))})
            ELSE IF OK(o, "got") THEN {V("inline-mismatch", "param-ok-literal-error:" \o Kinds(r))}
            ELSE IF OK(o, "inl") THEN
                 (IF RegexAfterDot(r) THEN {V("Dev_RegexParamAfterDot", "")} ELSE {V("inline-mismatch", "param-error-literal-ok:" \o Kinds(r))})
            ELSE {}
      \* history on one parser: bindings replaced by none - the placeholder is unbound again and must be an error
      rv == IF ~Has(o, "rebind") THEN {}
            ELSE IF Has(o.rebind, "panic") THEN {V("panic", "rebind " \o r.tpl)}
            ELSE IF Has(o.rebind, "second") /\ o.rebind.second = "ok" THEN {V("error-accepted", "stale bindings after SetParams")}
            ELSE {}
      \* the caller changed its map right after SetParams: the outcome must be that of the values that were bound
      av == IF ~Has(o, "alias") THEN {}
            ELSE IF Has(o.alias, "panic") THEN {V("panic", "aliased map " \o r.tpl)}
            ELSE IF OK(o, "got") /\ OK(o, "alias") THEN (IF NormZ(o.got.ast) = NormZ(o.alias.ast) THEN {} ELSE {V("value-altered", "caller's map changed after SetParams")})
            ELSE IF OK(o, "got") # OK(o, "alias") THEN {V("value-altered", "caller's map changed after SetParams: outcome differs")}
            ELSE {}
  IN sv \cup iv \cup rv \cup av

\* non-trivial: a bound value arrived in an AST; ns / ni / ne count the records on which (S), (I)
\* and (E) were actually evaluated
NonTrivial(r) == ~MustFail(r) /\ OK(r.obs, "got")
SEval(r) == ~MustFail(r) /\ OK(r.obs, "got") /\ SJudged(r) /\ HasTemplate(r.obs)
IEval(r) == ~MustFail(r) /\ Has(r.obs, "inl")

Init == l = 1 /\ nt = 0 /\ ns = 0 /\ ni = 0 /\ ne = 0
Step == /\ l <= Len(Trace)
        /\ LET r == Trace[l] IN
             /\ \A v \in Verdicts(r) : CSVWrite("%1$s", <<ToJson([id |-> r.id, class |-> v.class, sig |-> v.sig])>>, IOEnv.VERDICT_FILE)
             /\ nt' = nt + (IF NonTrivial(r) THEN 1 ELSE 0)
             /\ ns' = ns + (IF SEval(r) THEN 1 ELSE 0)
             /\ ni' = ni + (IF IEval(r) THEN 1 ELSE 0)
             /\ ne' = ne + (IF MustFail(r) THEN 1 ELSE 0)
        /\ l' = l + 1
Finish == /\ l = Len(Trace) + 1
          /\ CSVWrite("%1$s", <<ToJson([judged |-> Len(Trace), nontrivial |-> nt, subst_checked |-> ns, inline_compared |-> ni, must_fail |-> ne])>>, IOEnv.STATS_FILE)
          /\ l' = l + 1 /\ UNCHANGED <<nt, ns, ni, ne>>
Next == Step \/ Finish
Spec == Init /\ [][Next]_vars
Accepted == TLCGet("stats").diameter = Len(Trace) + 2
=============================================================================
