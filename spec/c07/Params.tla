------------------------------- MODULE Params -------------------------------
(* C07 property spec: statement templates with typed holes, the table of parameter
   bindings, and what a parse with bound parameters must yield.

   A TEMPLATE is a token list (spec/common/Tok.tla) in which `$name` placeholders (bp tokens)
   stand where a literal, name, regex, duration or count can stand.  Its HOLES are the
   distinct placeholder names in order of appearance; hole j has the markers of index j.

   A BINDING describes one entry of the parameter map handed to Parser.SetParams:
     go     how the harness builds the Go value (type + text; maps for the object forms)
     kind   what the value denotes: string | number | integer | boolean | duration | regex |
            ident | error (unbound, unbindable, malformed object, bad json.Number)
     plus, per kind, the exact value as it must appear in the projected AST.

   The property (properties.jsonl C07), for a template t and bindings b:
     (E)  a binding of kind error, an empty placeholder name, an invalid duration text or a
          regex that does not compile  =>  the parse fails;
     (S)  otherwise the parse fails, or its AST is TemplateAst(t)[hole_j |-> node_j]:
          TemplateAst(t) is obtained from the real parser by parsing t with a MARKER literal
          of the binding's kind written in each hole; the observed AST must equal it with
          each marker replaced by the bound value (Subst, spec/c06/TTree.tla);
     (I)  if every bound value can be written as a literal at its position (Inlinable), the
          outcome equals the outcome of parsing the text with the literals written out:
          both fail, or both succeed with equal ASTs.                                      *)
EXTENDS TTree, Tok, QStr

\* ------------------------------------------------------------------ Go values
GoS(v) == [ty |-> "string", v |-> v]
GoF(v) == [ty |-> "float64", v |-> v]          \* v: text for strconv.ParseFloat
GoI(v) == [ty |-> "int64", v |-> v]
GoB(v) == [ty |-> "bool", v |-> v]             \* "true" / "false"
GoJ(v) == [ty |-> "json.Number", v |-> v]
GoX(ty) == [ty |-> ty, v |-> ""]               \* a Go type BindValue does not know
GoO(k, inner) == [ty |-> "map", e |-> <<[k |-> k, v |-> inner]>>]
GoO2(k1, i1, k2, i2) == [ty |-> "map", e |-> <<[k |-> k1, v |-> i1], [k |-> k2, v |-> i2]>>]
GoO0 == [ty |-> "map0", v |-> ""]

\* ------------------------------------------------------------------ bindings
BStr(id, go, v)            == [id |-> id, go |-> go, kind |-> "string", v |-> v]
\* want: strconv 'g' text of the float (the projection's format); neg: of its negation;
\* inl: a spelling with a '.' for finite non-negative floats ("" = not writable as one token)
BNum(id, go, want, neg, inl) == [id |-> id, go |-> go, kind |-> "number", v |-> want, neg |-> neg, inl |-> inl]
BInt(id, go, dec, neg)     == [id |-> id, go |-> go, kind |-> "integer", v |-> dec, neg |-> neg]
BBool(id, go, b)           == [id |-> id, go |-> go, kind |-> "boolean", b |-> b]
\* ns: nanoseconds ("" = the text is not a duration: the parse must fail); inl: duration text
BDur(id, go, ns, neg, inl) == [id |-> id, go |-> go, kind |-> "duration", v |-> ns, neg |-> neg, inl |-> inl]
BRe(id, go, pat, bad)      == [id |-> id, go |-> go, kind |-> "regex", v |-> pat, bad |-> bad]
BId(id, go, name)          == [id |-> id, go |-> go, kind |-> "ident", v |-> name]
BErr(id, go)               == [id |-> id, go |-> go, kind |-> "error"]
\* the placeholder's name is not in the map / SetParams is never called
BUnbound == [id |-> "unbound", kind |-> "error", absent |-> TRUE]
BNoSet   == [id |-> "noset", kind |-> "error", absent |-> TRUE, noset |-> TRUE]

Inject == "'; DROP DATABASE x; --"
StringContents == <<
  <<"hello", "hello">>, <<"empty", "">>, <<"inject", Inject>>, <<"cm_open", "/*">>, <<"cm_close", "*/">>, <<"dq", "\"">>,
  <<"bs", "\\">>, <<"lf", "a\nb">>, <<"kw", "select">>, <<"kws", "FROM m">>, <<"dollar_p", "$p">>, <<"dollar_q", "$q">>,
  <<"sq", "a'b">>, <<"bs_sq", "\\'">>, <<"or11", "' OR '1'='1">>, <<"semi", "x; y">>, <<"dashes", "--">>, <<"cr", "a\rb">>,
  <<"utf8", "é日">>, <<"digit", "1">>, <<"durtext", "10s">>, <<"booltext", "true">>, <<"retext", "/re/">>, <<"marker", "MARK1">>,
  <<"tzname", "UTC">>, <<"date", "2000-01-01">> >>
StrBinds == {BStr("str_" \o StringContents[i][1], GoS(StringContents[i][2]), StringContents[i][2]) : i \in 1..Len(StringContents)}
ObjStrBinds == {BStr("ostr_" \o StringContents[i][1], GoO("string", GoS(StringContents[i][2])), StringContents[i][2]) : i \in {1, 2, 3, 8, 11}}

NumBinds == {
  BNum("f_1_5", GoF("1.5"), "1.5", "-1.5", "1.5"),
  BNum("f_3", GoF("3"), "3", "-3", "3.0"),
  BNum("f_0", GoF("0"), "0", "-0", "0.0"),
  BNum("f_1e21", GoF("1e21"), "1e+21", "-1e+21", "1000000000000000000000.0"),
  BNum("f_1e_7", GoF("1e-7"), "1e-07", "-1e-07", "0.0000001"),
  BNum("f_neg", GoF("-2.5"), "-2.5", "2.5", ""),
  BNum("f_inf", GoF("+Inf"), "+Inf", "-Inf", ""),
  BNum("f_nan", GoF("NaN"), "NaN", "NaN", ""),
  BNum("of_float", GoO("float", GoF("2.25")), "2.25", "-2.25", "2.25"),
  BNum("of_number_int", GoO("number", GoI("3")), "3", "-3", "3.0"),
  BNum("of_float_json", GoO("float", GoJ("3")), "3", "-3", "3.0"),
  BNum("j_float", GoJ("4.50"), "4.5", "-4.5", "4.5"),
  BNum("oj_number", GoO("number", GoJ("2.5")), "2.5", "-2.5", "2.5") }

IntBinds == {
  BInt("i_7", GoI("7"), "7", "-7"),
  BInt("i_0", GoI("0"), "0", "0"),
  BInt("i_1", GoI("1"), "1", "-1"),
  BInt("i_neg", GoI("-5"), "-5", "5"),
  BInt("i_max", GoI("9223372036854775807"), "9223372036854775807", "-9223372036854775807"),
  BInt("i_min", GoI("-9223372036854775808"), "-9223372036854775808", ""),
  BInt("i_big32", GoI("2147483648"), "2147483648", "-2147483648"),
  BInt("oi_int", GoO("int", GoI("3")), "3", "-3"),
  BInt("oi_integer", GoO("integer", GoI("12")), "12", "-12"),
  BInt("j_int", GoJ("42"), "42", "-42"),
  BInt("j_negint", GoJ("-3"), "-3", "3"),
  BInt("oj_int", GoO("integer", GoJ("8")), "8", "-8") }

BoolBinds == { BBool("b_true", GoB("true"), TRUE), BBool("b_false", GoB("false"), FALSE) }

DurBinds == {
  BDur("d_10s", GoO("duration", GoS("10s")), "10000000000", "-10000000000", "10s"),
  BDur("d_2h", GoO("duration", GoS("2h")), "7200000000000", "-7200000000000", "2h"),
  BDur("d_1h30m", GoO("duration", GoS("1h30m")), "5400000000000", "-5400000000000", "1h30m"),
  BDur("d_500ms", GoO("duration", GoS("500ms")), "500000000", "-500000000", "500ms"),
  BDur("d_7u", GoO("duration", GoS("7u")), "7000", "-7000", "7u"),
  BDur("d_7mu", GoO("duration", GoS("7µ")), "7000", "-7000", "7µ"),
  BDur("d_3w", GoO("duration", GoS("3w")), "1814400000000000", "-1814400000000000", "3w"),
  BDur("d_0s", GoO("duration", GoS("0s")), "0", "0", "0s"),
  BDur("d_neg", GoO("duration", GoS("-5s")), "-5000000000", "5000000000", ""),
  BDur("d_frac", GoO("duration", GoS("1.5h")), "", "", ""),
  BDur("d_xx", GoO("duration", GoS("xx")), "", "", ""),
  BDur("d_empty", GoO("duration", GoS("")), "", "", ""),
  BDur("d_nounit", GoO("duration", GoS("5")), "", "", ""),
  BDur("d_exp", GoO("duration", GoS("1e5")), "", "", ""),
  BDur("d_space", GoO("duration", GoS("10s ")), "", "", ""),
  BDur("d_upper", GoO("duration", GoS("10S")), "", "", ""),
  BDur("d_inject", GoO("duration", GoS("1h; DROP DATABASE x")), "", "", ""),
  BDur("di_1500ms", GoO("duration", GoI("1500000000")), "1500000000", "-1500000000", "1500ms"),
  BDur("di_0", GoO("duration", GoI("0")), "0", "0", "0s"),
  BDur("di_1h", GoO("duration", GoI("3600000000000")), "3600000000000", "-3600000000000", "1h"),
  BDur("di_neg", GoO("duration", GoI("-5000000000")), "-5000000000", "5000000000", ""),
  \* FormatDuration(MinInt64) = "-9223372036854775808ns": rejected by the old ParseDuration, parsed exactly since
  \* its overflow repair (/repo 7063cd7); either way the property holds (error, or exactly the bound value)
  BDur("di_min", GoO("duration", GoI("-9223372036854775808")), "-9223372036854775808", "", ""),
  BDur("dj_90s", GoO("duration", GoJ("90000000000")), "90000000000", "-90000000000", "90s") }

ReBinds == {
  BRe("re_a", GoO("regex", GoS("a.*")), "a.*", FALSE),
  BRe("re_anch", GoO("regex", GoS("^x$")), "^x$", FALSE),
  BRe("re_slash", GoO("regex", GoS("a/b")), "a/b", FALSE),
  BRe("re_empty", GoO("regex", GoS("")), "", FALSE),
  BRe("re_lf", GoO("regex", GoS("a\nb")), "a\nb", FALSE),
  BRe("re_class", GoO("regex", GoS("a\\d")), "a\\d", FALSE),
  \* a backslash before a slash: the lexer's escape for the delimiter must NOT be applied to a bound pattern
  BRe("re_bs_slash", GoO("regex", GoS("a\\/b")), "a\\/b", FALSE),
  BRe("re_bsbs_slash", GoO("regex", GoS("^a\\\\/b$")), "^a\\\\/b$", FALSE),
  BRe("re_only_bs_slash", GoO("regex", GoS("\\/")), "\\/", FALSE),
  BRe("re_slashes", GoO("regex", GoS("//")), "//", FALSE),
  BRe("re_trailing_bs", GoO("regex", GoS("a\\")), "a\\", TRUE),
  BRe("re_quote", GoO("regex", GoS("'; DROP")), "'; DROP", FALSE),
  BRe("re_marker", GoO("regex", GoS("MARK1")), "MARK1", FALSE),
  BRe("re_bad", GoO("regex", GoS("(")), "(", TRUE),
  BRe("re_bad2", GoO("regex", GoS("[")), "[", TRUE) }

IdBinds == {
  BId("id_x", GoO("ident", GoS("y")), "y"),
  BId("id_sp", GoO("identifier", GoS("x y")), "x y"),
  BId("id_kw", GoO("ident", GoS("from")), "from"),
  BId("id_empty", GoO("ident", GoS("")), ""),
  BId("id_dot", GoO("identifier", GoS("a.b")), "a.b"),
  BId("id_dq", GoO("ident", GoS("a\"b")), "a\"b"),
  \* names that START with a double quote and contain another one: a bound name is a value, not InfluxQL text to unquote
  BId("id_quoted", GoO("ident", GoS("\"cpu\"")), "\"cpu\""),
  BId("id_quoted_tail", GoO("identifier", GoS("\"cpu\" where host = 'a'")), "\"cpu\" where host = 'a'"),
  BId("id_quoted_path", GoO("ident", GoS("\"db\".\"rp\".\"m\"")), "\"db\".\"rp\".\"m\""),
  BId("id_sq", GoO("ident", GoS("'x'")), "'x'"),
  BId("id_fn", GoO("ident", GoS("mean")), "mean"),
  BId("id_utf8", GoO("ident", GoS("é")), "é"),
  BId("id_time", GoO("ident", GoS("time")), "time"),
  BId("id_digit", GoO("ident", GoS("1a")), "1a"),
  BId("id_inject", GoO("ident", GoS("m; drop database x")), "m; drop database x") }

ErrBinds == {
  BUnbound, BNoSet,
  BErr("x_int", GoX("int")), BErr("x_int32", GoX("int32")), BErr("x_uint64", GoX("uint64")), BErr("x_float32", GoX("float32")),
  BErr("x_nil", GoX("nil")), BErr("x_slice", GoX("slice")), BErr("x_bytes", GoX("bytes")), BErr("x_value", GoX("influxql.StringValue")),
  BErr("x_duration", GoX("time.Duration")), BErr("x_struct", GoX("struct")), BErr("x_strptr", GoX("*string")),
  BErr("o_two", GoO2("string", GoS("s"), "regex", GoS("r"))), BErr("o_zero", GoO0), BErr("o_unknown", GoO("wat", GoS("s"))),
  BErr("o_ident_int", GoO("ident", GoI("5"))), BErr("o_regex_bool", GoO("regex", GoB("true"))), BErr("o_string_float", GoO("string", GoF("1.5"))),
  BErr("o_float_str", GoO("float", GoS("x"))), BErr("o_int_float", GoO("int", GoF("1.5"))), BErr("o_int_str", GoO("integer", GoS("3"))),
  BErr("o_dur_float", GoO("duration", GoF("1.5"))), BErr("o_dur_bool", GoO("duration", GoB("true"))), BErr("o_nested", GoO("string", GoO("string", GoS("s")))),
  BErr("j_exp", GoJ("1e3")), BErr("j_big", GoJ("99999999999999999999")), BErr("j_text", GoJ("abc")), BErr("j_hugefloat", GoJ("1.5e400")),
  BErr("oj_int_float", GoO("int", GoJ("4.5"))), BErr("oj_bad", GoO("float", GoJ("x.y"))) }

AllBinds == StrBinds \cup ObjStrBinds \cup NumBinds \cup IntBinds \cup BoolBinds \cup DurBinds \cup ReBinds \cup IdBinds \cup ErrBinds
BindById(id) == CHOOSE b \in AllBinds : b.id = id
\* the smaller sets used for quick runs and for the second hole of two-hole templates
QuickIds == {"str_hello", "str_empty", "str_inject", "str_cm_open", "str_cm_close", "str_dq", "str_bs", "str_lf", "str_kw", "str_dollar_p",
  "str_bs_sq", "str_cr", "str_semi", "str_dashes", "str_tzname", "ostr_inject", "f_1_5", "f_3", "f_1e21", "f_1e_7", "f_neg", "f_inf", "of_number_int", "j_float",
  "i_7", "i_0", "i_neg", "i_max", "i_min", "oi_integer", "j_int", "b_true", "b_false", "d_10s", "d_2h", "d_1h30m", "d_neg", "d_frac", "d_xx",
  "d_empty", "d_nounit", "d_inject", "di_1500ms", "di_min", "dj_90s", "re_a", "re_slash", "re_bs_slash", "re_bsbs_slash", "re_empty", "re_lf", "re_quote", "re_bad", "id_x", "id_sp",
  "id_kw", "id_empty", "id_dq", "id_quoted", "id_quoted_tail", "id_inject", "unbound", "noset", "x_int", "x_nil", "x_slice", "x_value", "o_two", "o_zero", "o_unknown", "o_ident_int",
  "o_int_str", "o_dur_bool", "j_exp", "j_big", "oj_int_float"}
SecondIds == {"str_inject", "str_hello", "i_7", "i_neg", "f_1_5", "b_true", "d_2h", "re_a", "id_x", "id_kw", "unbound", "x_int"}

\* ------------------------------------------------------------------ holes
Bq(s)   == [t |-> "bp", s |-> s, g |-> "L"]
BqT(s)  == [t |-> "bp", s |-> s, g |-> "T"]
\* a placeholder right after a unary sign (the parser folds the sign into a numeric literal)
SBqT(s) == [t |-> "bp", s |-> s, g |-> "T", sg |-> TRUE, opnd |-> TRUE]
SBq(s)  == [t |-> "bp", s |-> s, g |-> "L", sg |-> TRUE, opnd |-> TRUE]
\* a placeholder that is an operand of a binary operator other than =~ / !~ (or of a sign): the
\* grammar has no regex literal there - a `/` would be the division operator
Oq(s)   == [t |-> "bp", s |-> s, g |-> "L", opnd |-> TRUE]
OqT(s)  == [t |-> "bp", s |-> s, g |-> "T", opnd |-> TRUE]
IsBp(tk) == tk.t = "bp"
Operand(tk) == "opnd" \in DOMAIN tk
Signed(tk) == "sg" \in DOMAIN tk
\* the parameter name a placeholder spelling refers to:  $"a b" names `a b`
ParamName(s) == IF Len(s) >= 2 /\ SubSeq(s, 1, 1) = "\"" THEN SubSeq(s, 2, Len(s) - 1) ELSE s

RECURSIVE HoleNamesFrom(_, _, _)
HoleNamesFrom(toks, i, acc) ==
  IF i > Len(toks) THEN acc
  ELSE IF IsBp(toks[i]) /\ ~(\E k \in 1..Len(acc) : acc[k] = toks[i].s) THEN HoleNamesFrom(toks, i + 1, Append(acc, toks[i].s))
  ELSE HoleNamesFrom(toks, i + 1, acc)
HoleNames(toks) == HoleNamesFrom(toks, 1, <<>>)          \* placeholder spellings, in order of appearance
HoleIndex(toks, s) == CHOOSE j \in 1..Len(HoleNames(toks)) : HoleNames(toks)[j] = s
HoleSigned(toks, s) == \E i \in 1..Len(toks) : IsBp(toks[i]) /\ toks[i].s = s /\ Signed(toks[i])
HoleOperand(toks, s) == \E i \in 1..Len(toks) : IsBp(toks[i]) /\ toks[i].s = s /\ Operand(toks[i])

\* ------------------------------------------------------------------ markers
Digit(j) == IF j = 1 THEN "1" ELSE "2"
\* (a regex bound to an operand hole: the template's shape is taken with a STRING marker, whose
\* node becomes a RegexLiteral - there is no regex literal to write at that position)
MarkTok(kind, j, g, opnd) ==
  CASE kind = "string" \/ (kind = "regex" /\ opnd) -> [t |-> "str", s |-> "MARK" \o Digit(j), g |-> g]
    [] kind = "regex"    -> [t |-> "re", s |-> "MARK" \o Digit(j), g |-> g]
    [] kind = "ident"    -> [t |-> "id", s |-> "mark" \o Digit(j), g |-> g]
    [] kind = "integer"  -> [t |-> "int", s |-> "7777" \o Digit(j), g |-> g]
    [] kind = "number"   -> [t |-> "num", s |-> "7777" \o Digit(j) \o ".5", g |-> g]
    [] kind = "duration" -> [t |-> "dur", s |-> "7777" \o Digit(j) \o "s", g |-> g]
    [] kind = "boolean"  -> [t |-> "kw", s |-> "true", g |-> g]
\* the node the marker leaves in the projected AST (sg: after a unary minus)
MarkNode(kind, j, sg, opnd) ==
  LET m == IF sg THEN "-" ELSE "" IN
  CASE kind = "regex" /\ opnd -> TStrL("MARK" \o Digit(j))
    [] kind \in {"string", "regex"} -> S("MARK" \o Digit(j))
    [] kind = "ident"    -> S("mark" \o Digit(j))
    [] kind = "integer"  -> S(m \o "7777" \o Digit(j))
    [] kind = "number"   -> S(m \o "7777" \o Digit(j) \o ".5")
    [] kind = "duration" -> S(m \o "7777" \o Digit(j) \o "000000000")
    [] kind = "boolean"  -> TBoolL(TRUE)
\* ExpectedNode: what must stand there instead - exactly the bound value
ExpectedNode(b, sg, opnd) ==
  CASE b.kind = "regex" /\ opnd -> TReL(b.v)
    [] b.kind \in {"string", "regex", "ident"} -> S(b.v)
    [] b.kind \in {"integer", "number", "duration"} -> S(IF sg THEN b.neg ELSE b.v)
    [] b.kind = "boolean" -> TBoolL(b.b)
\* the value cannot be carried by any node: the parse has to fail
Invalid(b) == \/ (b.kind = "duration" /\ b.v = "")
              \/ (b.kind = "regex" /\ b.bad)
\* after a unary minus the parser negates the literal: no exact expectation for MinInt64
NoNegation(b, sg) == sg /\ b.kind \in {"integer", "number", "duration"} /\ b.neg = ""

\* ------------------------------------------------------------------ Inlinable
HasChar(str, cs) == \E i \in 1..Len(str) : SubSeq(str, i, i) \in cs
Digits10 == {"0", "1", "2", "3", "4", "5", "6", "7", "8", "9"}
\* (digit+ unit)+ with unit in ns u µ ms s m h d w, as the scanner and ParseDuration agree on
RECURSIVE DurFrom(_, _, _)
DurFrom(str, i, seenDigit) ==
  IF i > Len(str) THEN FALSE
  ELSE LET c == SubSeq(str, i, i) IN
       IF c \in Digits10 THEN DurFrom(str, i + 1, TRUE)
       ELSE IF ~seenDigit THEN FALSE
       ELSE LET two == IF i + 1 <= Len(str) THEN SubSeq(str, i, i + 1) ELSE "" IN
            IF two \in {"ns", "ms"} THEN (i + 1 = Len(str) \/ DurFrom(str, i + 2, FALSE))
            ELSE IF c \in {"u", "µ", "s", "m", "h", "d", "w"} THEN (i = Len(str) \/ DurFrom(str, i + 1, FALSE))
            ELSE FALSE
WellFormedDuration(str) == DurFrom(str, 1, FALSE)

\* the bound value can be written as ONE literal token at the placeholder's position
Inlinable(b, opnd) ==
  CASE b.kind = "string"   -> ~HasChar(b.v, {"\r"})                 \* CR cannot be expressed inside quotes (C06)
    [] b.kind = "integer"  -> SubSeq(b.v, 1, 1) # "-"                \* a sign is a token of its own
    [] b.kind = "number"   -> b.inl # ""                             \* finite, non-negative, spelled with a '.'
    [] b.kind = "boolean"  -> TRUE
    [] b.kind = "duration" -> b.inl # "" /\ WellFormedDuration(b.inl)
    [] b.kind = "regex"    -> ~opnd /\ b.v # "" /\ ~HasChar(b.v, {"\n", "\\"})   \* the renderer only escapes '/'
    [] b.kind = "ident"    -> TRUE                                   \* written quoted
    [] b.kind = "error"    -> FALSE
InlTok(b, g) ==
  CASE b.kind = "string"   -> [t |-> "str", s |-> b.v, g |-> g]
    [] b.kind = "integer"  -> [t |-> "int", s |-> b.v, g |-> g]
    [] b.kind = "number"   -> [t |-> "num", s |-> b.inl, g |-> g]
    [] b.kind = "boolean"  -> [t |-> "kw", s |-> IF b.b THEN "true" ELSE "false", g |-> g]
    [] b.kind = "duration" -> [t |-> "dur", s |-> b.inl, g |-> g]
    [] b.kind = "regex"    -> [t |-> "re", s |-> b.v, g |-> g]
    [] b.kind = "ident"    -> [t |-> "id", s |-> b.v, g |-> g, q |-> TRUE]

\* token lists derived from a template: hb[j] is the binding of hole j
MarkToks(toks, hb) == [i \in 1..Len(toks) |-> IF IsBp(toks[i]) THEN MarkTok(hb[HoleIndex(toks, toks[i].s)].kind, HoleIndex(toks, toks[i].s), toks[i].g, HoleOperand(toks, toks[i].s)) ELSE toks[i]]
InlToks(toks, hb) == [i \in 1..Len(toks) |-> IF IsBp(toks[i]) THEN InlTok(hb[HoleIndex(toks, toks[i].s)], toks[i].g) ELSE toks[i]]

\* ------------------------------------------------------------------ templates
Sel == <<Kw("SELECT"), Id("x"), Kw("FROM"), Id("m")>>
SelW == Sel \o <<Kw("WHERE"), Id("k")>>
MeanSel == <<Kw("SELECT"), Id("mean"), PT("("), IdT("x"), PT(")"), Kw("FROM"), Id("m"), Kw("GROUP"), Kw("BY")>>
Time1m == <<Id("time"), PT("("), DurT("1m"), PT(")")>>
CRP == <<Kw("CREATE"), Kw("RETENTION"), Kw("POLICY")>>
Sentinel == <<PT(";"), Kw("DROP"), Kw("DATABASE"), Id("sentinel")>>

TplNames == {
  "sel_field", "sel_field2", "sel_alias", "sel_callarg", "sel_callarg1", "sel_callarg1sp", "sel_callname", "sel_distinct", "sel_arith",
  "from_name", "from_db", "from_rp", "from_m3", "from_m3f", "from_m2", "from_two", "into_name",
  "where_rhs", "where_rhs_q", "where_rhs_and", "where_lhs", "where_neq", "where_lt", "where_regex", "where_nregex", "where_regex_and",
  "where_signed", "where_signed_sp", "where_plus", "where_arith", "where_paren", "where_time", "where_quoted", "where_twice", "where_two",
  "group_time", "group_time_off", "group_tag", "group_tag2", "fill", "limit", "offset", "slimit", "soffset", "limit_two", "tz", "subquery",
  "percentile", "quoted_name", "digit_name", "kw_name", "upper_name", "dollar_name", "dollar_wrong", "empty_name", "empty_name_limit",
  "show_key_eq", "show_key_in", "show_key_in2", "show_key_re", "show_key_where", "show_meas_on", "show_meas_eq", "show_meas_re",
  "show_meas_where", "show_tagkeys", "show_series", "show_fieldkeys", "show_stats", "show_rps", "show_grants",
  "crp_name", "crp_db", "crp_dur", "crp_repl", "crp_shard", "crp_two", "arp_dur", "arp_repl", "cdb_name", "cdb_with", "cdb_with_name",
  "drop_db", "drop_meas", "drop_user", "drop_series", "drop_shard", "create_user", "create_user_pw", "set_pw", "delete_where",
  "delete_from", "delete_time", "kill", "kill_on", "sub_dest", "sub_name", "grant", "cq_every"}

TplToks(n) ==
  CASE n = "sel_field"      -> <<Kw("SELECT"), Bq("p"), Kw("FROM"), Id("m")>>
    [] n = "sel_field2"     -> <<Kw("SELECT"), Id("x"), PT(","), Bq("p"), Kw("FROM"), Id("m")>>
    [] n = "sel_alias"      -> <<Kw("SELECT"), Id("x"), Kw("AS"), Bq("p"), Kw("FROM"), Id("m")>>
    [] n = "sel_callarg"    -> <<Kw("SELECT"), Id("f"), PT("("), IdT("x"), PT(","), Bq("p"), PT(")"), Kw("FROM"), Id("m")>>
    [] n = "sel_callarg1"   -> <<Kw("SELECT"), Id("f"), PT("("), BqT("p"), PT(")"), Kw("FROM"), Id("m")>>
    [] n = "sel_callarg1sp" -> <<Kw("SELECT"), Id("f"), PT("("), Bq("p"), P(")"), Kw("FROM"), Id("m")>>
    [] n = "sel_callname"   -> <<Kw("SELECT"), Bq("p"), PT("("), IdT("x"), PT(")"), Kw("FROM"), Id("m")>>
    [] n = "sel_distinct"   -> <<Kw("SELECT"), Kw("DISTINCT"), Bq("p"), Kw("FROM"), Id("m")>>
    [] n = "sel_arith"      -> <<Kw("SELECT"), Id("x"), P("+"), Oq("p"), P("*"), Int("2"), Kw("FROM"), Id("m")>>
    [] n = "from_name"      -> <<Kw("SELECT"), Id("x"), Kw("FROM"), Bq("p")>>
    [] n = "from_db"        -> <<Kw("SELECT"), Id("x"), Kw("FROM"), Bq("p"), PT("."), PT("."), IdT("m")>>
    [] n = "from_rp"        -> <<Kw("SELECT"), Id("x"), Kw("FROM"), Id("d"), PT("."), BqT("p"), PT("."), IdT("m")>>
    [] n = "from_m3"        -> <<Kw("SELECT"), Id("x"), Kw("FROM"), Id("d"), PT("."), PT("."), BqT("p")>>
    [] n = "from_m3f"       -> <<Kw("SELECT"), Id("x"), Kw("FROM"), Id("d"), PT("."), IdT("r"), PT("."), BqT("p")>>
    [] n = "from_m2"        -> <<Kw("SELECT"), Id("x"), Kw("FROM"), Id("r"), PT("."), BqT("p")>>
    [] n = "from_two"       -> Sel \o <<PT(","), Bq("p")>>
    [] n = "into_name"      -> <<Kw("SELECT"), Id("x"), Kw("INTO"), Bq("p"), Kw("FROM"), Id("m")>>
    [] n = "where_rhs"      -> SelW \o <<P("="), Oq("p")>>
    [] n = "where_rhs_q"    -> SelW \o <<P("="), Oq("p")>> \o Sentinel
    [] n = "where_rhs_and"  -> SelW \o <<P("="), Oq("p"), Kw("AND"), Id("z"), P("="), Int("2")>>
    [] n = "where_lhs"      -> Sel \o <<Kw("WHERE"), Oq("p"), P("="), Int("1")>>
    [] n = "where_neq"      -> SelW \o <<P("!="), Oq("p")>>
    [] n = "where_lt"       -> SelW \o <<P("<"), Oq("p")>>
    [] n = "where_regex"    -> SelW \o <<P("=~"), Bq("p")>>
    [] n = "where_nregex"   -> SelW \o <<P("!~"), Bq("p")>>
    [] n = "where_regex_and" -> SelW \o <<P("=~"), Bq("p"), Kw("AND"), Id("z"), P("="), Int("2")>>
    [] n = "where_signed"   -> SelW \o <<P("="), P("-"), SBqT("p")>>
    [] n = "where_signed_sp" -> SelW \o <<P("="), P("-"), SBq("p")>>
    [] n = "where_plus"     -> SelW \o <<P("="), P("+"), OqT("p")>>
    [] n = "where_arith"    -> SelW \o <<P("="), Int("1"), P("+"), Oq("p"), P("*"), Int("2")>>
    [] n = "where_paren"    -> Sel \o <<Kw("WHERE"), P("("), IdT("k"), P("="), Oq("p"), PT(")")>>
    [] n = "where_time"     -> Sel \o <<Kw("WHERE"), Id("time"), P(">"), Id("now"), PT("("), PT(")"), P("-"), Oq("p")>>
    [] n = "where_quoted"   -> SelW \o <<P("="), Str("$p"), Kw("AND"), Id("z"), P("="), Oq("p")>>
    [] n = "where_twice"    -> SelW \o <<P("="), Oq("p"), Kw("OR"), Id("z"), P("="), Oq("p")>>
    [] n = "where_two"      -> SelW \o <<P("="), Oq("p"), Kw("AND"), Id("z"), P("="), Oq("q")>>
    [] n = "group_time"     -> MeanSel \o <<Id("time"), PT("("), BqT("p"), PT(")")>>
    [] n = "group_time_off" -> MeanSel \o <<Id("time"), PT("("), DurT("1m"), PT(","), Bq("p"), PT(")")>>
    [] n = "group_tag"      -> Sel \o <<Kw("GROUP"), Kw("BY"), Bq("p")>>
    [] n = "group_tag2"     -> MeanSel \o Time1m \o <<PT(","), Bq("p")>>
    [] n = "fill"           -> MeanSel \o Time1m \o <<Id("fill"), PT("("), BqT("p"), PT(")")>>
    [] n = "limit"          -> Sel \o <<Kw("LIMIT"), Bq("p")>>
    [] n = "offset"         -> Sel \o <<Kw("LIMIT"), Int("3"), Kw("OFFSET"), Bq("p")>>
    [] n = "slimit"         -> Sel \o <<Kw("GROUP"), Kw("BY"), Id("h"), Kw("SLIMIT"), Bq("p")>>
    [] n = "soffset"        -> Sel \o <<Kw("GROUP"), Kw("BY"), Id("h"), Kw("SLIMIT"), Int("2"), Kw("SOFFSET"), Bq("p")>>
    [] n = "limit_two"      -> SelW \o <<P("="), Oq("p"), Kw("LIMIT"), Bq("q")>>
    [] n = "tz"             -> Sel \o <<Id("tz"), PT("("), BqT("p"), PT(")")>>
    [] n = "subquery"       -> <<Kw("SELECT"), Id("x"), Kw("FROM"), P("("), KwT("SELECT"), Id("y"), Kw("FROM"), Bq("p"), Kw("WHERE"), Id("k"), P("="), Oq("q"), PT(")")>>
    [] n = "percentile"     -> <<Kw("SELECT"), Id("percentile"), PT("("), IdT("x"), PT(","), Bq("p"), PT(")"), Kw("FROM"), Id("m")>>
    [] n = "quoted_name"    -> SelW \o <<P("="), Oq("\"a b\"")>>
    [] n = "digit_name"     -> SelW \o <<P("="), Oq("1")>>
    [] n = "kw_name"        -> SelW \o <<P("="), Oq("select")>>
    [] n = "upper_name"     -> SelW \o <<P("="), Oq("P")>>
    [] n = "dollar_name"    -> SelW \o <<P("="), Oq("\"$p\"")>>        \* the parameter is called `$p`
    [] n = "dollar_wrong"   -> SelW \o <<P("="), Oq("\"$p\"")>>        \* ... and only `p` is bound
    [] n = "empty_name"     -> SelW \o <<P("="), Oq("")>>
    [] n = "empty_name_limit" -> Sel \o <<Kw("LIMIT"), Bq("")>>
    [] n = "show_key_eq"    -> <<Kw("SHOW"), Kw("TAG"), Kw("VALUES"), Kw("WITH"), Kw("KEY"), P("="), Bq("p")>>
    [] n = "show_key_in"    -> <<Kw("SHOW"), Kw("TAG"), Kw("VALUES"), Kw("WITH"), Kw("KEY"), Kw("IN"), P("("), BqT("p"), PT(","), Id("k2"), PT(")")>>
    [] n = "show_key_in2"   -> <<Kw("SHOW"), Kw("TAG"), Kw("VALUES"), Kw("WITH"), Kw("KEY"), Kw("IN"), P("("), IdT("k1"), PT(","), Bq("p"), PT(")")>>
    [] n = "show_key_re"    -> <<Kw("SHOW"), Kw("TAG"), Kw("VALUES"), Kw("WITH"), Kw("KEY"), P("=~"), Bq("p")>>
    [] n = "show_key_where" -> <<Kw("SHOW"), Kw("TAG"), Kw("VALUES"), Kw("WITH"), Kw("KEY"), P("="), Id("k"), Kw("WHERE"), Id("h"), P("="), Oq("p")>>
    [] n = "show_meas_on"   -> <<Kw("SHOW"), Kw("MEASUREMENTS"), Kw("ON"), Bq("p")>>
    [] n = "show_meas_eq"   -> <<Kw("SHOW"), Kw("MEASUREMENTS"), Kw("WITH"), Kw("MEASUREMENT"), P("="), Bq("p")>>
    [] n = "show_meas_re"   -> <<Kw("SHOW"), Kw("MEASUREMENTS"), Kw("WITH"), Kw("MEASUREMENT"), P("=~"), Bq("p")>>
    [] n = "show_meas_where" -> <<Kw("SHOW"), Kw("MEASUREMENTS"), Kw("WHERE"), Id("k"), P("="), Oq("p"), Kw("LIMIT"), Bq("q")>>
    [] n = "show_tagkeys"   -> <<Kw("SHOW"), Kw("TAG"), Kw("KEYS"), Kw("FROM"), Bq("p")>>
    [] n = "show_series"    -> <<Kw("SHOW"), Kw("SERIES"), Kw("FROM"), Id("m"), Kw("WHERE"), Id("k"), P("="), Oq("p")>>
    [] n = "show_fieldkeys" -> <<Kw("SHOW"), Kw("FIELD"), Kw("KEYS"), Kw("ON"), Bq("p"), Kw("FROM"), Id("m")>>
    [] n = "show_stats"     -> <<Kw("SHOW"), Kw("STATS"), Kw("FOR"), Bq("p")>>
    [] n = "show_rps"       -> <<Kw("SHOW"), Kw("RETENTION"), Kw("POLICIES"), Kw("ON"), Bq("p")>>
    [] n = "show_grants"    -> <<Kw("SHOW"), Kw("GRANTS"), Kw("FOR"), Bq("p")>>
    [] n = "crp_name"       -> CRP \o <<Bq("p"), Kw("ON"), Id("d"), Kw("DURATION"), Dur("2h"), Kw("REPLICATION"), Int("1")>>
    [] n = "crp_db"         -> CRP \o <<Id("r"), Kw("ON"), Bq("p"), Kw("DURATION"), Dur("2h"), Kw("REPLICATION"), Int("1")>>
    [] n = "crp_dur"        -> CRP \o <<Id("r"), Kw("ON"), Id("d"), Kw("DURATION"), Bq("p"), Kw("REPLICATION"), Int("1")>>
    [] n = "crp_repl"       -> CRP \o <<Id("r"), Kw("ON"), Id("d"), Kw("DURATION"), Dur("2h"), Kw("REPLICATION"), Bq("p")>>
    [] n = "crp_shard"      -> CRP \o <<Id("r"), Kw("ON"), Id("d"), Kw("DURATION"), Dur("2h"), Kw("REPLICATION"), Int("1"), Kw("SHARD"), Kw("DURATION"), Bq("p")>>
    [] n = "crp_two"        -> CRP \o <<Id("r"), Kw("ON"), Id("d"), Kw("DURATION"), Bq("p"), Kw("REPLICATION"), Bq("q")>>
    [] n = "arp_dur"        -> <<Kw("ALTER"), Kw("RETENTION"), Kw("POLICY"), Id("r"), Kw("ON"), Id("d"), Kw("DURATION"), Bq("p")>>
    [] n = "arp_repl"       -> <<Kw("ALTER"), Kw("RETENTION"), Kw("POLICY"), Id("r"), Kw("ON"), Id("d"), Kw("REPLICATION"), Bq("p")>>
    [] n = "cdb_name"       -> <<Kw("CREATE"), Kw("DATABASE"), Bq("p")>>
    [] n = "cdb_with"       -> <<Kw("CREATE"), Kw("DATABASE"), Id("d"), Kw("WITH"), Kw("DURATION"), Bq("p"), Kw("REPLICATION"), Int("2"), Kw("NAME"), Id("r")>>
    [] n = "cdb_with_name"  -> <<Kw("CREATE"), Kw("DATABASE"), Id("d"), Kw("WITH"), Kw("DURATION"), Dur("2h"), Kw("NAME"), Bq("p")>>
    [] n = "drop_db"        -> <<Kw("DROP"), Kw("DATABASE"), Bq("p")>>
    [] n = "drop_meas"      -> <<Kw("DROP"), Kw("MEASUREMENT"), Bq("p")>>
    [] n = "drop_user"      -> <<Kw("DROP"), Kw("USER"), Bq("p")>>
    [] n = "drop_series"    -> <<Kw("DROP"), Kw("SERIES"), Kw("FROM"), Id("m"), Kw("WHERE"), Id("k"), P("="), Oq("p")>>
    [] n = "drop_shard"     -> <<Kw("DROP"), Kw("SHARD"), Bq("p")>>
    [] n = "create_user"    -> <<Kw("CREATE"), Kw("USER"), Bq("p"), Kw("WITH"), Kw("PASSWORD"), Str("pw")>>
    [] n = "create_user_pw" -> <<Kw("CREATE"), Kw("USER"), Id("u"), Kw("WITH"), Kw("PASSWORD"), Bq("p")>>
    [] n = "set_pw"         -> <<Kw("SET"), Kw("PASSWORD"), Kw("FOR"), Id("u"), P("="), Bq("p")>>
    [] n = "delete_where"   -> <<Kw("DELETE"), Kw("FROM"), Id("m"), Kw("WHERE"), Id("k"), P("="), Oq("p")>> \o Sentinel
    [] n = "delete_from"    -> <<Kw("DELETE"), Kw("FROM"), Bq("p")>>
    [] n = "delete_time"    -> <<Kw("DELETE"), Kw("WHERE"), Id("time"), P("<"), Oq("p")>>
    [] n = "kill"           -> <<Kw("KILL"), Kw("QUERY"), Bq("p")>>
    [] n = "kill_on"        -> <<Kw("KILL"), Kw("QUERY"), Int("3"), Kw("ON"), Bq("p")>>
    [] n = "sub_dest"       -> <<Kw("CREATE"), Kw("SUBSCRIPTION"), Id("s"), Kw("ON"), Id("d"), PT("."), IdT("r"), Kw("DESTINATIONS"), Kw("ALL"), Bq("p")>>
    [] n = "sub_name"       -> <<Kw("CREATE"), Kw("SUBSCRIPTION"), Bq("p"), Kw("ON"), Id("d"), PT("."), IdT("r"), Kw("DESTINATIONS"), Kw("ALL"), Str("x")>>
    [] n = "grant"          -> <<Kw("GRANT"), Kw("READ"), Kw("ON"), Bq("p"), Kw("TO"), Bq("q")>>
    [] n = "cq_every"       -> <<Kw("CREATE"), Kw("CONTINUOUS"), Kw("QUERY"), Id("c"), Kw("ON"), Id("d"), Kw("RESAMPLE"), Kw("EVERY"), Bq("p"), Kw("BEGIN"),
                                 Kw("SELECT"), Id("mean"), PT("("), IdT("x"), PT(")"), Kw("INTO"), Id("t"), Kw("FROM"), Id("m"), Kw("GROUP"), Kw("BY")>>
                                 \o Time1m \o <<Kw("END")>>

\* the hole's value is interpreted by the parser (time.LoadLocation): (S) is not applied
TplSemantic(n) == n = "tz"
\* the placeholder has no name: every parse must fail
TplEmptyName(n) == n \in {"empty_name", "empty_name_limit"}
\* `$P` is not `$p`: with only p bound the parse must fail
TplWrongName(n) == n \in {"upper_name", "dollar_wrong"}
=============================================================================
