SPECIFICATION Spec
CONSTANTS
  N = 4
  Sigma <- SigmaOps
INVARIANTS MTiles MPos MPosStrict MRing MSteps MTerm MSticky
CHECK_DEADLOCK FALSE
