----------------------------- MODULE Judge_c05 -----------------------------
(* Pass V for C05: every recorded scan of an input by the real Scanner is judged here.
   Record: [id, inp, obs |-> [toks, after, maxn, steps, panic?, budget?]].
   Classes
     tiling           tokens do not partition the input (LexProps!Tiles)
     pos-wrong        a token's position is not the line/column of its first rune
     Dev_EOFPosLate / Dev_StringPosPrevRune / Dev_BadEscapePosAtEscape
                      the position has exactly the shape of a named deviation AND equals
                      what the design spec (Lexer) predicts for this input (known findings)
     eof-not-sticky   scanning past EOF does not keep returning EOF in place
     ring-overflow    more than 2 runes were pushed back
     panic / budget   the scanner crashed or did not terminate within the step budget
     drift:tokens     tokens differ from the design spec's but satisfy the property      *)
EXTENDS Lexer, LexProps, Json, CSV, IOUtils

VARIABLES l, nt
vars == <<l, nt>>

Trace == ndJsonDeserialize(IOEnv.OBS_FILE)
Has(r, f) == f \in DOMAIN r

V(c, s) == [class |-> c, sig |-> s]

Key(t) == <<t.tok, t.s, t.e, t.line, t.char>>

Verdicts(r) ==
  LET o == r.obs inp == r.inp IN
  IF Has(o, "panic") \/ Has(o, "harness_panic") THEN {V("panic", "scan")}
  ELSE IF Has(o, "budget") THEN {V("budget", "scan")}
  ELSE
  LET T == o.toks
      ML == Lex(inp).toks
      mapped == \A j \in 1..Len(T) : T[j].s >= 0 /\ T[j].e >= 0
  IN
  IF ~mapped \/ ~Tiles(inp, T) THEN {V("tiling", IF Len(T) = 0 THEN "none" ELSE T[Len(T)].tok)}
  ELSE
  LET Agrees(j) == j <= Len(ML) /\ Key(ML[j]) = Key(T[j])
      PosV(j) == LET t == T[j] IN
         IF PosExact(inp, t) THEN {}
         ELSE IF ShapeEOFLate(inp, t) /\ Agrees(j) THEN {V("Dev_EOFPosLate", "")}
         ELSE IF ShapeStringEarly(inp, t) /\ Agrees(j) THEN {V("Dev_StringPosPrevRune", "")}
         ELSE IF ShapeBadEscapeInside(inp, t) /\ Agrees(j) THEN {V("Dev_BadEscapePosAtEscape", "")}
         ELSE {V("pos-wrong", t.tok)}
      last == T[Len(T)]
      sticky == /\ Has(o, "after")
                /\ \A k \in 1..Len(o.after) : /\ o.after[k].tok = "EOF" /\ o.after[k].e = Len(inp)
                                              /\ o.after[k].line = o.after[1].line /\ o.after[k].char = o.after[1].char
                /\ \/ [l |-> o.after[1].line, c |-> o.after[1].char] = LineCol(inp, Len(inp))
                   \/ [l |-> o.after[1].line, c |-> o.after[1].char] = [LineCol(inp, Len(inp)) EXCEPT !.c = @ + 1]
      drift == IF Len(ML) = Len(T) /\ \A j \in 1..Len(T) : Key(ML[j]) = Key(T[j]) THEN {} ELSE {V("drift:tokens", "")}
      all == UNION {PosV(j) : j \in 1..Len(T)}
             \cup (IF sticky THEN {} ELSE {V("eof-not-sticky", "")})
             \cup (IF o.maxn <= 2 THEN {} ELSE {V("ring-overflow", "")})
  IN IF all = {} THEN drift ELSE all

NonTrivial(r) == Has(r.obs, "toks") /\ Len(r.obs.toks) >= 3

Init == l = 1 /\ nt = 0
Step == /\ l <= Len(Trace)
        /\ LET r == Trace[l] IN
             /\ \A v \in Verdicts(r) : CSVWrite("%1$s", <<ToJson([id |-> r.id, class |-> v.class, sig |-> v.sig])>>, IOEnv.VERDICT_FILE)
             /\ nt' = nt + (IF NonTrivial(r) THEN 1 ELSE 0)
        /\ l' = l + 1
Finish == /\ l = Len(Trace) + 1
          /\ CSVWrite("%1$s", <<ToJson([judged |-> Len(Trace), nontrivial |-> nt])>>, IOEnv.STATS_FILE)
          /\ l' = l + 1 /\ UNCHANGED nt
Next == Step \/ Finish
Spec == Init /\ [][Next]_vars
Accepted == TLCGet("stats").diameter = Len(Trace) + 2
=============================================================================
