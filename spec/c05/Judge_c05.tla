----------------------------- MODULE Judge_c05 -----------------------------
(* Pass V for C05: every recorded scan of an input by the real Scanner is judged here.
   Record: [id, inp, obs |-> [toks, after, maxn, steps, panic?, budget?]].
   Classes
     tiling           tokens do not partition the input (LexProps!Tiles)
     pos-wrong        a token's position is not the line/column of its first rune
     Dev_EOFPosLate / Dev_StringPosPrevRune / Dev_BadEscapePosAtEscape
                      the position has exactly the shape of a named deviation AND equals
                      what the design spec (Lexer) predicts for this input (known findings)
     eof-not-sticky   scanning past EOF does not keep returning EOF in place
     ring-overflow    more than 2 runes were pushed back
     panic / budget   the scanner crashed or did not terminate within the step budget
     drift:tokens     tokens differ from the design spec's but satisfy the property      *)
EXTENDS Lexer, LexProps, Json, CSV, IOUtils

VARIABLES l, nt
vars == <<l, nt>>

Trace == ndJsonDeserialize(IOEnv.OBS_FILE)
Has(r, f) == f \in DOMAIN r

V(c, s) == [class |-> c, sig |-> s]

Key(t) == <<t.tok, t.s, t.e, t.line, t.char>>

Verdicts(r) ==
  LET o == r.obs inp == r.inp IN
  IF Has(o, "panic") \/ Has(o, "harness_panic") THEN {V("panic", "scan")}
  ELSE IF Has(o, "budget") THEN {V("budget", "scan")}
  ELSE
  LET T == o.toks
      \* inputs of several KB (Gen_c05b, marked long): the design spec is not run on them (it is exercised on the short inputs);
      \* a named position deviation is then recognised by its shape alone
      long == Has(r, "long")
      ML == IF long THEN <<>> ELSE Lex(inp).toks
      mapped == \A j \in 1..Len(T) : T[j].s >= 0 /\ T[j].e >= 0
  IN
  IF ~mapped \/ ~Tiles(inp, T) THEN {V("tiling", IF Len(T) = 0 THEN "none" ELSE T[Len(T)].tok)}
  ELSE
  LET Agrees(j) == long \/ (j <= Len(ML) /\ Key(ML[j]) = Key(T[j]))
      PosV(j) == LET t == T[j] IN
         IF PosExact(inp, t) THEN {}
         ELSE IF ShapeEOFLate(inp, t) /\ Agrees(j) THEN {V("Dev_EOFPosLate", "")}
         ELSE IF ShapeStringEarly(inp, t) /\ Agrees(j) THEN {V("Dev_StringPosPrevRune", "")}
         ELSE IF ShapeBadEscapeInside(inp, t) /\ Agrees(j) THEN {V("Dev_BadEscapePosAtEscape", "")}
         ELSE {V("pos-wrong", t.tok)}
      last == T[Len(T)]
      sticky == /\ Has(o, "after")
                /\ \A k \in 1..Len(o.after) : /\ o.after[k].tok = "EOF" /\ o.after[k].e = Len(inp)
                                              /\ o.after[k].line = o.after[1].line /\ o.after[k].char = o.after[1].char
                /\ \/ [l |-> o.after[1].line, c |-> o.after[1].char] = LineCol(inp, Len(inp))
                   \/ [l |-> o.after[1].line, c |-> o.after[1].char] = [LineCol(inp, Len(inp)) EXCEPT !.c = @ + 1]
      drift == IF long \/ (Len(ML) = Len(T) /\ \A j \in 1..Len(T) : Key(ML[j]) = Key(T[j])) THEN {} ELSE {V("drift:tokens", "")}
      all == UNION {PosV(j) : j \in 1..Len(T)}
             \cup (IF sticky THEN {} ELSE {V("eof-not-sticky", "")})
             \cup (IF o.maxn <= 2 THEN {} ELSE {V("ring-overflow", "")})
  IN IF all = {} THEN drift ELSE all

\* ---- padded inputs (Gen_c05b): every long scan is the short scan shifted
LongVerdicts(r) ==
  LET o == r.obs IN
  IF ~Has(o, "longs") \/ ~Has(o, "toks") THEN {}
  ELSE
  LET T == o.toks
      pad == LineCol(r.inp, r.padat)
      Sh(x, D) == IF x <= r.padat THEN x ELSE x + D
      ShC(line, char, D) == IF line = pad.l /\ char > pad.c THEN char + D ELSE char
      Covers(t) == t.s <= r.padat /\ r.padat < t.e
      LitLen(t) == Len(t.lit)
      OneOK(L) ==
        LET D == L.k - 1 U == L.toks IN
        /\ ~Has(L, "panic") /\ ~Has(L, "budget")
        /\ Len(U) = Len(T)
        /\ \A j \in 1..Len(T) :
             /\ U[j].tok = T[j].tok
             /\ U[j].s = Sh(T[j].s, D) /\ U[j].e = Sh(T[j].e, D)
             /\ U[j].line = T[j].line /\ U[j].char = ShC(T[j].line, T[j].char, D)
             /\ U[j].n = LitLen(T[j]) + (IF Covers(T[j]) /\ LitLen(T[j]) > 0 THEN D ELSE 0)
        /\ (Has(o, "after") /\ Has(L, "after")) =>
             /\ Len(L.after) = Len(o.after)
             /\ \A k \in 1..Len(o.after) : /\ L.after[k].tok = o.after[k].tok /\ L.after[k].e = Sh(o.after[k].e, D)
                                            /\ L.after[k].line = o.after[k].line
                                            /\ L.after[k].char = ShC(o.after[k].line, o.after[k].char, D)
        /\ L.maxn <= 2
  IN {V("long-input-differs", "run of " \o ToString(L.k)) : L \in {o.longs[i] : i \in {j \in 1..Len(o.longs) : ~OneOK(o.longs[j])}}}

NonTrivial(r) == Has(r.obs, "toks") /\ Len(r.obs.toks) >= 3

Init == l = 1 /\ nt = 0
Step == /\ l <= Len(Trace)
        /\ LET r == Trace[l] IN
             /\ \A v \in Verdicts(r) \cup LongVerdicts(r) : CSVWrite("%1$s", <<ToJson([id |-> r.id, class |-> v.class, sig |-> v.sig])>>, IOEnv.VERDICT_FILE)
             /\ nt' = nt + (IF NonTrivial(r) THEN 1 ELSE 0)
        /\ l' = l + 1
Finish == /\ l = Len(Trace) + 1
          /\ CSVWrite("%1$s", <<ToJson([judged |-> Len(Trace), nontrivial |-> nt])>>, IOEnv.STATS_FILE)
          /\ l' = l + 1 /\ UNCHANGED nt
Next == Step \/ Finish
Spec == Init /\ [][Next]_vars
Accepted == TLCGet("stats").diameter = Len(Trace) + 2
=============================================================================
