------------------------------- MODULE Lexer -------------------------------
(* Design spec (code-shaped) of scanner.go: the rune reader with its 3-slot push-back
   ring and Scanner.Scan with every read / unread it performs.

   A reader state is a record
     inp    input as a sequence of 1-character strings
     off    index of the next source rune (1-based)
     i, n   ring index and number of pushed-back runes          (reader.i, reader.n)
     pos    position the NEXT delivered rune will get           (reader.pos)
     buf    ring 0..2 of [ch, pos, w]  (w = source runes the slot stands for: 2 for CRLF, 0 for EOF)
     eof    reader has delivered EOF before                     (reader.eof)
     maxn   high-water mark of n   (observation variable for C04)
     steps  number of read/unread calls (observation variable for C04)
   Every operator takes a reader state and returns the new one: one operator per function
   of the code, one Read/Unread per r.read()/r.unread() call, in the order of the code.   *)
EXTENDS Naturals, Integers, Sequences, TLC, Chars

Pos0 == [l |-> 0, c |-> 0]
Slot0 == [ch |-> EOFCH, pos |-> Pos0, w |-> 0]
NewReader(inp) == [inp |-> inp, off |-> 1, i |-> 0, n |-> 0, pos |-> Pos0,
                   buf |-> [k \in 0..2 |-> Slot0], eof |-> FALSE, maxn |-> 0, steps |-> 0]

Curr(r) == r.buf[(r.i - r.n + 3) % 3]
Ch(r) == Curr(r).ch
PosOf(r) == Curr(r).pos

\* the underlying bufio reader with the CR / CRLF folding of reader.read
Raw(r) == IF r.off > Len(r.inp) THEN [ch |-> EOFCH, off |-> r.off, w |-> 0]
          ELSE LET c == r.inp[r.off] IN
               IF c = "\r" THEN
                  IF r.off + 1 <= Len(r.inp) /\ r.inp[r.off + 1] = "\n"
                  THEN [ch |-> "\n", off |-> r.off + 2, w |-> 2]
                  ELSE [ch |-> "\n", off |-> r.off + 1, w |-> 1]
               ELSE [ch |-> c, off |-> r.off + 1, w |-> 1]

Read(r) ==
  IF r.n > 0 THEN [r EXCEPT !.n = r.n - 1, !.steps = r.steps + 1]
  ELSE LET raw == Raw(r)
           i2 == (r.i + 1) % 3
           pos2 == IF raw.ch = "\n" THEN [l |-> r.pos.l + 1, c |-> 0]
                   ELSE IF ~r.eof THEN [r.pos EXCEPT !.c = r.pos.c + 1] ELSE r.pos
       IN [r EXCEPT !.off = raw.off, !.i = i2, !.buf[i2] = [ch |-> raw.ch, pos |-> r.pos, w |-> raw.w],
                    !.pos = pos2, !.eof = r.eof \/ raw.ch = EOFCH, !.steps = r.steps + 1]
Unread(r) == [r EXCEPT !.n = r.n + 1, !.maxn = IF r.n + 1 > r.maxn THEN r.n + 1 ELSE r.maxn, !.steps = r.steps + 1]

\* source runes consumed, net of what is pushed back
Consumed(r) == (r.off - 1) - (IF r.n >= 1 THEN r.buf[r.i].w ELSE 0)
                           - (IF r.n >= 2 THEN r.buf[(r.i + 2) % 3].w ELSE 0)
                           - (IF r.n >= 3 THEN r.buf[(r.i + 1) % 3].w ELSE 0)

Tok(r, tok, pos, lit) == [r |-> r, tok |-> tok, pos |-> pos, lit |-> lit]

\* ------------------------------------------------------------ helper loops
RECURSIVE WSLoop(_)                       \* scanWhitespace's loop
WSLoop(r) == LET r1 == Read(r) IN
             IF Ch(r1) = EOFCH THEN r1
             ELSE IF ~IsWhitespace(Ch(r1)) THEN Unread(r1)
             ELSE WSLoop(r1)

RECURSIVE SkipNL(_)                       \* skipUntilNewline
SkipNL(r) == LET r1 == Read(r) IN IF Ch(r1) = "\n" \/ Ch(r1) = EOFCH THEN r1 ELSE SkipNL(r1)

\* skipUntilEndComment: returns [r, ok]
RECURSIVE SkipComment(_), SkipStar(_)
SkipStar(r) == LET r2 == Read(r) IN
               IF Ch(r2) = "/" THEN [r |-> r2, ok |-> TRUE]
               ELSE IF Ch(r2) = "*" THEN SkipStar(r2)
               ELSE IF Ch(r2) = EOFCH THEN [r |-> r2, ok |-> FALSE]
               ELSE SkipComment(r2)
SkipComment(r) == LET r1 == Read(r) IN
                  IF Ch(r1) = "*" THEN SkipStar(r1)
                  ELSE IF Ch(r1) = EOFCH THEN [r |-> r1, ok |-> FALSE]
                  ELSE SkipComment(r1)

\* ScanBareIdent: returns [r, lit, low]  (low = lower-cased lit, for Lookup)
RECURSIVE BareIdent(_, _, _)
BareIdent(r, lit, low) ==
  LET r1 == Read(r) IN
  IF Ch(r1) = EOFCH THEN [r |-> r1, lit |-> lit, low |-> low]          \* err: no unread
  ELSE IF ~IsIdentChar(Ch(r1)) THEN [r |-> Unread(r1), lit |-> lit, low |-> low]
  ELSE BareIdent(r1, lit \o Ch(r1), low \o ToLowerCh(Ch(r1)))

\* ScanString (the free function): the opening quote is the next rune.
\* returns [r, lit, st] with st in {"ok", "badstring", "badescape"}
RECURSIVE StrLoop(_, _, _)
StrLoop(r, q, lit) ==
  LET r1 == Read(r) c == Ch(r1) IN
  IF c = q THEN [r |-> r1, lit |-> lit, st |-> "ok"]
  ELSE IF c = EOFCH \/ c = "\n" THEN [r |-> r1, lit |-> lit, st |-> "badstring"]
  ELSE IF c = "\\" THEN
       LET r2 == Read(r1) c1 == Ch(r2) IN
       IF c1 = "n" THEN StrLoop(r2, q, lit \o "\n")
       ELSE IF c1 = "\\" THEN StrLoop(r2, q, lit \o "\\")
       ELSE IF c1 = "\"" THEN StrLoop(r2, q, lit \o "\"")
       ELSE IF c1 = "'" THEN StrLoop(r2, q, lit \o "'")
       ELSE [r |-> r2, lit |-> "\\" \o (IF c1 = EOFCH THEN "" ELSE c1), st |-> "badescape"]
  ELSE StrLoop(r1, q, lit \o c)
ScanStringFn(r) == LET r0 == Read(r) IN StrLoop(r0, Ch(r0), "")

\* Scanner.scanString: the quote has just been read
ScanString(r) ==
  LET r1 == Unread(r)
      pos == PosOf(r1)                     \* curr() after the unread: the rune BEFORE the quote
      x == ScanStringFn(r1)
  IN IF x.st = "badstring" THEN Tok(x.r, "BADSTRING", pos, x.lit)
     ELSE IF x.st = "badescape" THEN Tok(x.r, "BADESCAPE", PosOf(x.r), x.lit)
     ELSE Tok(x.r, "STRING", pos, x.lit)

\* Scanner.scanIdent
RECURSIVE IdentLoop(_, _, _, _, _)
IdentLoop(r, pos, lit, low, lookup) ==
  LET r1 == Read(r) c == Ch(r1) IN
  IF c = EOFCH THEN [r |-> r1, done |-> FALSE, lit |-> lit, low |-> low]
  ELSE IF c = "\"" THEN
       LET s == ScanString(r1) IN
       IF s.tok \in {"BADSTRING", "BADESCAPE"} THEN [r |-> s.r, done |-> TRUE, t |-> s]
       ELSE [r |-> s.r, done |-> TRUE, t |-> Tok(s.r, "IDENT", pos, s.lit)]
  ELSE IF IsIdentChar(c) THEN
       LET b == BareIdent(Unread(r1), lit, low) IN IdentLoop(b.r, pos, b.lit, b.low, lookup)
  ELSE [r |-> Unread(r1), done |-> FALSE, lit |-> lit, low |-> low]
ScanIdent(r, lookup) ==
  LET r1 == Read(r) pos == PosOf(r1) r2 == Unread(r1)
      x == IdentLoop(r2, pos, "", "", lookup)
  IN IF x.done THEN x.t
     ELSE IF lookup /\ Lookup(x.low) # "IDENT" THEN Tok(x.r, Lookup(x.low), pos, "")
     ELSE Tok(x.r, "IDENT", pos, x.lit)

RECURSIVE Digits(_, _)                    \* scanDigits: returns [r, lit]
Digits(r, lit) == LET r1 == Read(r) IN
                  IF ~IsDigit(Ch(r1)) THEN [r |-> Unread(r1), lit |-> lit] ELSE Digits(r1, lit \o Ch(r1))

IsDurCh(c) == IsLetter(c) \/ c = "µ"
RECURSIVE DurLetters(_, _), DurTail(_, _)
DurLetters(r, lit) == LET r1 == Read(r) IN
                      IF ~IsDurCh(Ch(r1)) THEN [r |-> Unread(r1), lit |-> lit] ELSE DurLetters(r1, lit \o Ch(r1))
DurTail(r, lit) == LET r1 == Read(r) IN
                   IF IsDurCh(Ch(r1)) \/ IsDigit(Ch(r1)) THEN DurTail(r1, lit \o Ch(r1)) ELSE [r |-> Unread(r1), lit |-> lit]

\* Scanner.scanNumber: the first rune (digit or ".") has just been read
ScanNumber(r) ==
  LET c0 == Ch(r) pos == PosOf(r) IN
  LET start == IF c0 = "."
               THEN LET r1 == Unread(Read(r)) IN            \* peek the rune after "."
                    IF ~IsDigit(Ch(Read(r))) THEN [r |-> r1, ill |-> TRUE] ELSE [r |-> Unread(r1), ill |-> FALSE]
               ELSE [r |-> Unread(r), ill |-> FALSE]
  IN IF start.ill THEN Tok(start.r, "ILLEGAL", pos, ".")
     ELSE
     LET d1 == Digits(start.r, "")
         r2 == Read(d1.r)
         frac == IF Ch(r2) = "."
                 THEN LET r3 == Read(r2) IN
                      IF IsDigit(Ch(r3)) THEN LET d2 == Digits(r3, d1.lit \o "." \o Ch(r3)) IN [r |-> d2.r, lit |-> d2.lit, dec |-> TRUE]
                      ELSE [r |-> Unread(r3), lit |-> d1.lit, dec |-> TRUE]
                 ELSE [r |-> Unread(r2), lit |-> d1.lit, dec |-> FALSE]
     IN IF frac.dec THEN Tok(frac.r, "NUMBER", pos, frac.lit)
        ELSE LET r4 == Read(frac.r) IN
             IF IsDurCh(Ch(r4))
             THEN LET a == DurLetters(r4, frac.lit \o Ch(r4)) b == DurTail(a.r, a.lit) IN Tok(b.r, "DURATIONVAL", pos, b.lit)
             ELSE Tok(Unread(r4), "INTEGER", pos, frac.lit)

\* one-rune lookahead operators:  c then `nxt` gives t2, otherwise unread and t1
Two(r1, pos, nxt, t2, t1) == LET r2 == Read(r1) IN
                             IF Ch(r2) = nxt THEN Tok(r2, t2, pos, "") ELSE Tok(Unread(r2), t1, pos, "")

\* ------------------------------------------------------------ Scanner.Scan
Scan(r) ==
  LET r1 == Read(r) c == Ch(r1) p == PosOf(r1) IN
  IF IsWhitespace(c) THEN Tok(WSLoop(r1), "WS", p, "")
  ELSE IF IsLetter(c) \/ c = "_" THEN ScanIdent(Unread(r1), TRUE)
  ELSE IF IsDigit(c) THEN ScanNumber(r1)
  ELSE CASE c = EOFCH -> Tok(r1, "EOF", p, "")
    [] c = "\"" -> ScanIdent(Unread(r1), TRUE)
    [] c = "'" -> ScanString(r1)
    [] c = "." -> LET r2 == Read(r1) r3 == Unread(r2) IN
                  IF IsDigit(Ch(r2)) THEN ScanNumber(r3) ELSE Tok(r3, ".", p, "")
    [] c = "$" -> LET t == ScanIdent(r1, FALSE) IN
                  IF t.tok # "IDENT" THEN Tok(t.r, t.tok, p, "$" \o t.lit) ELSE Tok(t.r, "BOUNDPARAM", p, "$" \o t.lit)
    [] c = "+" -> Tok(r1, "+", p, "")
    [] c = "-" -> LET r2 == Read(r1) IN
                  IF Ch(r2) = "-" THEN Tok(SkipNL(r2), "COMMENT", p, "") ELSE Tok(Unread(r2), "-", p, "")
    [] c = "*" -> Tok(r1, "*", p, "")
    [] c = "/" -> LET r2 == Read(r1) IN
                  IF Ch(r2) = "*" THEN LET k == SkipComment(r2) IN
                                       IF k.ok THEN Tok(k.r, "COMMENT", p, "") ELSE Tok(k.r, "ILLEGAL", p, "")
                  ELSE Tok(Unread(r2), "/", p, "")
    [] c = "%" -> Tok(r1, "%", p, "")
    [] c = "&" -> Tok(r1, "&", p, "")
    [] c = "|" -> Tok(r1, "|", p, "")
    [] c = "^" -> Tok(r1, "^", p, "")
    [] c = "=" -> Two(r1, p, "~", "=~", "=")
    [] c = "!" -> LET r2 == Read(r1) IN
                  IF Ch(r2) = "=" THEN Tok(r2, "!=", p, "")
                  ELSE IF Ch(r2) = "~" THEN Tok(r2, "!~", p, "")
                  ELSE Tok(Unread(r2), "ILLEGAL", p, "!")
    [] c = ">" -> Two(r1, p, "=", ">=", ">")
    [] c = "<" -> LET r2 == Read(r1) IN
                  IF Ch(r2) = "=" THEN Tok(r2, "<=", p, "")
                  ELSE IF Ch(r2) = ">" THEN Tok(r2, "!=", p, "")
                  ELSE Tok(Unread(r2), "<", p, "")
    [] c = "(" -> Tok(r1, "(", p, "")
    [] c = ")" -> Tok(r1, ")", p, "")
    [] c = "," -> Tok(r1, ",", p, "")
    [] c = ";" -> Tok(r1, ";", p, "")
    [] c = ":" -> Two(r1, p, ":", "::", ":")
    [] OTHER -> Tok(r1, "ILLEGAL", p, c)

\* ------------------------------------------------------------ whole inputs
\* token list of an input: [tok, line, char, lit, s, e] with s/e = source extent in runes (0-based, e exclusive)
RECURSIVE LexFrom(_, _, _)
LexFrom(r, acc, fuel) ==
  LET t == Scan(r)
      s == IF acc = <<>> THEN 0 ELSE acc[Len(acc)].e
      rec == [tok |-> t.tok, line |-> t.pos.l, char |-> t.pos.c, lit |-> t.lit, s |-> s, e |-> Consumed(t.r)]
  IN IF t.tok = "EOF" \/ fuel = 0 THEN [toks |-> Append(acc, rec), r |-> t.r]
     ELSE LexFrom(t.r, Append(acc, rec), fuel - 1)
Lex(inp) == LexFrom(NewReader(inp), <<>>, Len(inp) + 1)
=============================================================================
