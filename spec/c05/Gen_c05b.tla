------------------------------ MODULE Gen_c05b ------------------------------
(* C05 pass G, buffer boundaries.  The scanner reads through a 4096-byte buffer; the alphabets of Gen_c05 stop at 5
   characters and the random texts at a few hundred.  A case is a SHORT input with one letter marked {PAD} and a list of pad
   lengths: the driver scans the short input (pad = one letter; judged like every other input) and, for every length k, the
   input with the marked letter replaced by a run of k letters.  What stands behind the run - a two-byte character, a
   three-byte one ({EUR}), CRLF, a lone CR, LF, the end of a line comment - then lies at every offset around the multiples
   of the buffer size.  Judge_c05 requires the long scan to be the short scan SHIFTED: same token kinds, extents and
   columns behind the run moved by k - 1, nothing else changed (tokens tile and positions are exact in both, so they can
   differ in nothing else).  No operator of the judge touches the long text itself.                                      *)
EXTENDS Naturals, Sequences, FiniteSets, SequencesExt, Json, CSV, IOUtils

CONSTANTS Bufs,     \* buffer sizes whose multiples are visited, e.g. {4096}
          Mults,    \* multiples, e.g. {1, 2}
          Around    \* offsets visited: m * b - Around .. m * b + 2
VARIABLES done
vars == <<done>>
Pieces == {<<"é">>, <<"{EUR}">>, <<"\r", "\n">>, <<"\r">>, <<"\n">>, <<"\r", "\r", "\n">>, <<" ", "-", "-", " ", "c", "\r", "\n">>, <<" ", "'", "s", "'">>, <<" ", "1", "0", "µ">>}
\* (a string directly behind the run is left out: its position is reported at the rune before its quote - the known
\*  deviation Dev_StringPosPrevRune - which is the LAST letter of the run, so the shift rule would have to special-case it)
Offsets == UNION {{m * b - d : d \in 0..Around} \cup {m * b + 1, m * b + 2} : b \in Bufs, m \in Mults}
OffSeq == SetToSortSeq(Offsets, LAMBDA a, b : a < b)
\* the run starts at offset `lead`; what follows it starts at byte offset lead + k: k = target - lead
Pads(lead) == [i \in 1..Len(OffSeq) |-> OffSeq[i] - lead]
Emit(pre, post) == CSVWrite("%1$s", <<ToJson([inp |-> pre \o <<"{PAD}">> \o post, padat |-> Len(pre), pads |-> Pads(Len(pre))])>>, IOEnv.CASE_FILE)
Init == done = FALSE
Step == /\ ~done /\ done' = TRUE
        /\ \A p \in Pieces :
             /\ Emit(<<>>, p \o <<"x", " ", "1">>)                              \* after one long identifier
             /\ Emit(<<"'">>, p \o <<"z", "'", " ", "y">>)                       \* inside a string literal
             /\ Emit(<<"\"", "q">>, p \o <<"z", "\"", ".", "y">>)                \* inside a quoted identifier
             /\ Emit(<<"-", "-">>, p \o <<"x", "\n", "y">>)                      \* inside / at the end of a line comment
             /\ Emit(<<"/", "*">>, p \o <<"*", "/", " ", "y">>)                  \* inside a block comment
             /\ Emit(<<"v", " ", "=", "~", " ", "/">>, p \o <<"/", " ", "y">>)   \* text that the parser would scan as a regex
Spec == Init /\ [][Step]_vars
=============================================================================
