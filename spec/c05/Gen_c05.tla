------------------------------ MODULE Gen_c05 ------------------------------
(* Pass M + G for C05 / C04(1).  TLC enumerates every input over Sigma up to length N.
   In every state the design spec (Lexer) is checked against the property spec (LexProps):
   tokens tile the input, positions are exact up to the three named deviations, the
   push-back ring never holds more than 2 runes, scanning terminates within a linear
   number of reader steps, EOF is sticky.  Every input is emitted as a case.            *)
EXTENDS Lexer, LexProps, Json, CSV, IOUtils

CONSTANTS Sigma, N
VARIABLES inp
vars == <<inp>>

\* alphabets (defined here, not in the .cfg: the cfg parser does not process escapes)
SigmaStr == {"a", "s", "1", " ", "\n", "\r", "'", "\"", "\\", "n", "-", "."}      \* strings, escapes, line breaks
SigmaOps == {"a", "1", " ", "\n", "-", "/", "*", "=", "!", "<", ">", "~"}          \* operators and comments
SigmaNum == {"1", ".", "a", "s", "µ", " ", "$", "_", ":", ",", "\"", "\r"}          \* numbers, durations, parameters
SigmaMix == {"a", "1", " ", "\r", "\n", "'", "-", "*", "/", "é", "#", ";", "(", "\t"}

Init == inp = <<>>
Step == /\ Len(inp) < N
        /\ \E c \in Sigma :
             /\ inp' = Append(inp, c)
             /\ CSVWrite("%1$s", <<ToJson([inp |-> inp'])>>, IOEnv.CASE_FILE)
Next == Step
Spec == Init /\ [][Next]_vars

L == Lex(inp)

MTiles == Tiles(inp, L.toks)
MPos == \A j \in 1..Len(L.toks) : LET t == L.toks[j] IN
           \/ PosExact(inp, t)
           \/ ShapeEOFLate(inp, t) \/ ShapeStringEarly(inp, t) \/ ShapeBadEscapeInside(inp, t)
\* positions of every other token kind are exact in the design
MPosStrict == \A j \in 1..Len(L.toks) : LET t == L.toks[j] IN
           t.tok \notin {"EOF", "STRING", "BADSTRING", "BADESCAPE"} => PosExact(inp, t)
MRing == L.r.maxn <= 2 /\ L.r.n <= 2
MSteps == L.r.steps <= 8 * Len(inp) + 12
MTerm == Len(L.toks) <= Len(inp) + 1
\* scanning again after EOF yields EOF again, consumes nothing, reports the same position
MSticky == LET t1 == Scan(L.r) t2 == Scan(t1.r) last == L.toks[Len(L.toks)] IN
             /\ t1.tok = "EOF" /\ t2.tok = "EOF"
             /\ Consumed(t1.r) = Len(inp) /\ Consumed(t2.r) = Len(inp)
             /\ t1.pos = t2.pos
=============================================================================
