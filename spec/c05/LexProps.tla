------------------------------ MODULE LexProps ------------------------------
(* Property spec for C05 (declarative; says nothing about how the lexer works).
   A token observation is [tok, line, char, lit, s, e]: kind, reported position, literal,
   and the source extent in runes (s inclusive, e exclusive, 0-based), measured by the
   harness from how much source text the scanner had consumed, independently of the
   positions under test.                                                               *)
EXTENDS Naturals, Integers, Sequences, TLC

\* zero-based (line, column) of the source rune with 0-based index k;
\* LF, CR and CRLF are each one line break
RECURSIVE LineColFrom(_, _, _, _)
LineColFrom(inp, j, k, acc) ==             \* j: 1-based index of the next rune to account for
  IF j > k THEN acc
  ELSE IF inp[j] = "\r" /\ j + 1 <= Len(inp) /\ inp[j + 1] = "\n"
       THEN (IF j + 1 > k THEN acc          \* k points between CR and LF: cannot start a token
             ELSE LineColFrom(inp, j + 2, k, [l |-> acc.l + 1, c |-> 0]))
  ELSE IF inp[j] \in {"\r", "\n"} THEN LineColFrom(inp, j + 1, k, [l |-> acc.l + 1, c |-> 0])
  ELSE LineColFrom(inp, j + 1, k, [acc EXCEPT !.c = acc.c + 1])
LineCol(inp, k) == LineColFrom(inp, 1, k, [l |-> 0, c |-> 0])

PosOfTok(t) == [l |-> t.line, c |-> t.char]

\* the tokens tile the text: consecutive, non-empty except EOF, ending with EOF at the end
Tiles(inp, toks) ==
  /\ Len(toks) >= 1
  /\ toks[1].s = 0
  /\ \A j \in 2..Len(toks) : toks[j].s = toks[j - 1].e
  /\ \A j \in 1..Len(toks) : IF toks[j].tok = "EOF" THEN toks[j].e = toks[j].s ELSE toks[j].e > toks[j].s
  /\ toks[Len(toks)].tok = "EOF"
  /\ toks[Len(toks)].e = Len(inp)
  /\ \A j \in 1..(Len(toks) - 1) : toks[j].tok # "EOF"

PosExact(inp, t) == PosOfTok(t) = LineCol(inp, t.s)

\* ---- shapes of the position defects of the current tree (known findings; pinned by
\* ---- the repository's own tests, see DESIGN.md section 8 C05)
\* EOF reported one column late
ShapeEOFLate(inp, t) == t.tok = "EOF" /\ PosOfTok(t) = [LineCol(inp, t.s) EXCEPT !.c = @ + 1]
\* string tokens carry the position of the rune delivered just before their opening quote
\* (q = 0-based index of that quote; for a quoted part inside an identifier the quote lies
\* inside the token, so the reported position can also be later than the token's start)
PrevPos(inp, q) == IF q = 0 THEN [l |-> 0, c |-> 0]
                   ELSE IF q >= 2 /\ inp[q - 1] = "\r" /\ inp[q] = "\n" THEN LineCol(inp, q - 2)
                   ELSE LineCol(inp, q - 1)
ShapeStringEarly(inp, t) == /\ t.tok \in {"STRING", "BADSTRING"}
                            /\ \E q \in t.s..(t.e - 1) : inp[q + 1] \in {"'", "\""} /\ PosOfTok(t) = PrevPos(inp, q)
\* a bad escape is reported at the escaped rune, inside the token
ShapeBadEscapeInside(inp, t) == /\ t.tok = "BADESCAPE"
                                /\ \E k \in (t.s + 1)..t.e : PosOfTok(t) = LineCol(inp, k)
=============================================================================
