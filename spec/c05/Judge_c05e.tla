----------------------------- MODULE Judge_c05e -----------------------------
(* Pass V for the second half of C05: "the line and column quoted in every parse error is
   the zero-based line and column of that token's first character".
   Record: [id, inp, obs |-> [toks (as in Judge_c05), parsed, perr? |-> [line, char, found, msg, hasfound]]]
   For a ParseError that names the token it found (Found, no Message): some token of the
   input whose spelling is Found starts exactly at the quoted position - or the position is
   that token's own reported position and has the shape of one of the three named token
   position deviations of C05 (EOF late, string early, bad escape inside).
   For a ParseError with a Message and a non-zero position: some token starts at the quoted
   position (or it is a token's own deviating position), or - named deviation
   Dev_RegexErrorPosPrevRune - it is the position of the rune before a "/" (Scanner.ScanRegex
   takes curr() after the parser's peek/unread).
   Errors without a position (plain errors, ParseError{Pos: zero}) are not judged.     *)
EXTENDS LexProps, Json, CSV, IOUtils

VARIABLES l, nt
vars == <<l, nt>>
Trace == ndJsonDeserialize(IOEnv.OBS_FILE)
Has(r, f) == f \in DOMAIN r
V(c, s) == [class |-> c, sig |-> s]

\* tokstr(tok, lit) of the parser: the literal, else Token.String() - which is EMPTY for COMMENT
Spelling(t) == IF t.lit # "" THEN t.lit ELSE IF t.tok = "COMMENT" THEN "" ELSE t.tok
EPos(e) == [l |-> e.line, c |-> e.char]

Verdicts(r) ==
  LET o == r.obs inp == r.inp IN
  IF Has(o, "parse_panic") \/ Has(o, "panic") \/ Has(o, "harness_panic") \/ Has(o, "budget") THEN {}   \* C04's business
  ELSE IF o.parsed \/ ~Has(o, "perr") THEN {}
  ELSE
  LET e == o.perr T == o.toks
      ok(j) == T[j].s >= 0 /\ T[j].e >= 0
      Exact(j) == ok(j) /\ EPos(e) = LineCol(inp, T[j].s)
      Own(j) == ok(j) /\ EPos(e) = PosOfTok(T[j])
      OwnDev(j) == Own(j) /\ (ShapeEOFLate(inp, T[j]) \/ ShapeStringEarly(inp, T[j]) \/ ShapeBadEscapeInside(inp, T[j]))
      OwnClass == IF \E j \in 1..Len(T) : Own(j) /\ ShapeStringEarly(inp, T[j]) THEN "Dev_StringPosPrevRune"
                  ELSE IF \E j \in 1..Len(T) : Own(j) /\ ShapeBadEscapeInside(inp, T[j]) THEN "Dev_BadEscapePosAtEscape"
                  ELSE "Dev_EOFPosLate"
      RegexPrev(j) == ok(j) /\ T[j].tok = "/" /\ EPos(e) = PrevPos(inp, T[j].s)
      \* a regex literal is found: the error names its text and quotes the position of its "/"
      RegexExact(j) == ok(j) /\ T[j].tok = "/" /\ EPos(e) = LineCol(inp, T[j].s)
      \* in the parser the end of input may already have been consumed by a one-rune peek:
      \* EOF one column late (the EOF deviation of the token claim, same known finding)
      EOFLate == e.found = "EOF" /\ EPos(e) = [LineCol(inp, Len(inp)) EXCEPT !.c = @ + 1]
  IN
  IF e.hasfound THEN
     (IF \E j \in 1..Len(T) : Spelling(T[j]) = e.found /\ Exact(j) THEN {}
      ELSE IF \E j \in 1..Len(T) : RegexExact(j) THEN {}
      ELSE IF EOFLate THEN {V("Dev_EOFPosLate", "")}
      ELSE IF \E j \in 1..Len(T) : RegexPrev(j) THEN {V("Dev_RegexErrorPosPrevRune", "")}
      ELSE IF \E j \in 1..Len(T) : OwnDev(j) THEN {V(OwnClass, "")}   \* the token's own (listed) position deviation, quoted by the error
      \* The token list comes from a context-free scan; the parser scans regexes on request, so after a
      \* "/" the two tokenisations can differ ( /a/*GROUP is a regex, "*", GROUP for the parser but the start
      \* of a comment for the plain scanner).  The claim is judged only when the named token can be located.
      ELSE IF ~\E j \in 1..Len(T) : ok(j) /\ Spelling(T[j]) = e.found THEN {V("drift:found-token-not-located", "")}
      ELSE IF \E j \in 1..Len(T) : ok(j) /\ \E k \in (T[j].s + 1)..(T[j].e - 1) : EPos(e) = LineCol(inp, k)
           THEN {V("drift:found-token-not-located", "")}    \* the position lies strictly inside a token of the plain scan
      ELSE IF \E j \in 1..Len(T) : Exact(j) THEN {V("error-names-other-token", "")}
      ELSE {V("error-pos-wrong", "found")})
  ELSE IF e.line = 0 /\ e.char = 0 THEN {}
  ELSE IF \E j \in 1..Len(T) : Exact(j) THEN {}
  ELSE IF \E j \in 1..Len(T) : OwnDev(j) THEN {V(OwnClass, "")}
  ELSE IF \E j \in 1..Len(T) : RegexPrev(j) THEN {V("Dev_RegexErrorPosPrevRune", "")}
  ELSE {V("error-pos-wrong", "message")}

NonTrivial(r) == Has(r.obs, "perr")

Init == l = 1 /\ nt = 0
Step == /\ l <= Len(Trace)
        /\ LET r == Trace[l] IN
             /\ \A v \in Verdicts(r) : CSVWrite("%1$s", <<ToJson([id |-> r.id, class |-> v.class, sig |-> v.sig])>>, IOEnv.VERDICT_FILE)
             /\ nt' = nt + (IF NonTrivial(r) THEN 1 ELSE 0)
        /\ l' = l + 1
Finish == /\ l = Len(Trace) + 1
          /\ CSVWrite("%1$s", <<ToJson([judged |-> Len(Trace), nontrivial |-> nt])>>, IOEnv.STATS_FILE)
          /\ l' = l + 1 /\ UNCHANGED nt
Next == Step \/ Finish
Spec == Init /\ [][Next]_vars
Accepted == TLCGet("stats").diameter = Len(Trace) + 2
=============================================================================
