----------------------------- MODULE ScanTrace -----------------------------
(* Trace specification for executions of the real scanner that nobody arranged: the
   sessions recorded by harness/tracer.go while the repository's own test suite runs (and
   while the generated corpora are parsed).  One record = one Scanner session
       [id, obs |-> [text, ev, toks]]
   ev    the reader / token-ring events in program order, one integer each:
         kind * 1000 + n * 100 + i * 10 + c
           kind 1 raw read        (n, i = reader.n, reader.i afterwards; c = class of the rune:
                                   0 other, 1 newline, 2 end-of-input marker, 3 a quote ' or ")
                2 buffered re-read (n = reader.n afterwards)
                3 unread           (n = reader.n afterwards)
                4 token scanned    (n, i = bufScanner.n, bufScanner.i afterwards)
                5 token re-delivered from the ring (n = bufScanner.n afterwards)
   toks  <<name, line, column>> of every token scanned (one per kind-4 event, in order).

   The session is replayed through the reader model of Lexer.tla (same ring, same position
   rule, code-shaped) extended by what the property speaks about: the TRUE position of every
   source rune and the source offset each ring slot stands for.  What the hooks do not log
   is inferred: bufScanner.Unscan is not hooked, the number of Unscan calls before a
   re-delivery is n + 1 - (n of the model) and must not be negative; the rune a token
   starts with is the first delivery of source offset start + 1 after the previous token.

   Decided per session (every step of every session, not a sample of final results):
     reader ring    a raw read happens only with nothing pushed back, re-reads and unreads
                    move n by one, n <= 3 and never beyond the slots ever written, and the
                    (n, i) the code reports are the model's
     token ring     the same for bufScanner; Unscan count inferred
     positions      the position reported for a token is the true position of its first
                    rune - or has exactly the shape of one of the three listed deviations
                    (Dev_EOFPosLate, Dev_StringPosPrevRune, Dev_BadEscapePosAtEscape)
     progress       every token except EOF consumes at least one source rune
     stickiness     after EOF only EOF                                                    *)
EXTENDS Naturals, Integers, Sequences, SequencesExt, TLC, Json, CSV, IOUtils

VARIABLES l, nt
vars == <<l, nt>>
Trace == ndJsonDeserialize(IOEnv.OBS_FILE)
Has(r, f) == f \in DOMAIN r
V(c, s) == [class |-> c, sig |-> s]

Pos0 == [l |-> 0, c |-> 0]
\* a ring slot: source offset of the rune (1-based; total + 1 for the end marker), the position the
\* code gave it (reader.pos at the time), its true position, its width in source runes, end marker?
Slot0 == [off |-> 0, cpos |-> Pos0, tpos |-> Pos0, w |-> 0, e |-> FALSE, q |-> FALSE]

S0 == [rn |-> 0, ri |-> 0, rfill |-> 0, slot |-> [k \in 0..2 |-> Slot0],
       off |-> 0, cpos |-> Pos0, tpos |-> Pos0, eof |-> FALSE,
       tn |-> 0, ti |-> 0, tfill |-> 0,
       k |-> 0, start |-> 0, first |-> Slot0, hasFirst |-> FALSE, qprev |-> {}, seenEOF |-> FALSE,
       reads |-> 0, bad |-> {}]

Idx(i, n) == (i - n + 9) % 3
Curr(s) == s.slot[Idx(s.ri, s.rn)]
Min2(a, b) == IF a < b THEN a ELSE b
\* source runes consumed, net of what is pushed back (as Lexer!Consumed)
Consumed(s) == s.off - (IF s.rn >= 1 THEN s.slot[Idx(s.ri, 0)].w ELSE 0)
                     - (IF s.rn >= 2 THEN s.slot[Idx(s.ri, 1)].w ELSE 0)
                     - (IF s.rn >= 3 THEN s.slot[Idx(s.ri, 2)].w ELSE 0)

Flag(s, cond, class, sig) == IF cond THEN [s EXCEPT !.bad = @ \cup {V(class, sig)}] ELSE s
\* the rune a token starts with: first delivery of source offset start + 1;
\* qprev: the code positions of the runes delivered just before a quote of the token under way
\* (Scanner.scanString takes curr() after unreading the quote: the listed deviation Dev_StringPosPrevRune)
Deliver(s, x, before) ==
  LET s1 == IF ~s.hasFirst /\ x.off = s.start + 1 THEN [s EXCEPT !.first = x, !.hasFirst = TRUE] ELSE s
  IN IF x.q /\ x.off >= s.start + 1 THEN [s1 EXCEPT !.qprev = @ \cup {before.cpos}] ELSE s1

\* ---- reader.read(), raw branch
Raw(s, n, i, c) ==
  LET i2 == (s.ri + 1) % 3
      x  == [off |-> s.off + 1, cpos |-> s.cpos, tpos |-> s.tpos, w |-> IF c = 2 THEN 0 ELSE 1, e |-> c = 2, q |-> c = 3]
      cp == IF c = 1 THEN [l |-> s.cpos.l + 1, c |-> 0] ELSE IF ~s.eof THEN [s.cpos EXCEPT !.c = @ + 1] ELSE s.cpos
      tp == IF c = 1 THEN [l |-> s.tpos.l + 1, c |-> 0] ELSE IF c \in {0, 3} THEN [s.tpos EXCEPT !.c = @ + 1] ELSE s.tpos
      s1 == Flag(Flag(Flag(s, s.rn # 0, "reader-raw-read-with-pushback", ""),
                      n # 0 \/ i # i2, "reader-ring-mismatch", "raw"),
                 s.eof /\ c # 2, "drift:rune-after-end-marker", "")
  IN Deliver([s1 EXCEPT !.ri = i, !.rn = n, !.slot[i % 3] = x, !.rfill = Min2(3, s.rfill + 1),
                        !.off = IF c = 2 THEN s.off ELSE s.off + 1, !.cpos = cp, !.tpos = tp,
                        !.eof = s.eof \/ c = 2, !.reads = s.reads + 1], x, Curr(s))
\* ---- reader.read(), buffered branch
ReRead(s, n, i) ==
  LET n2 == s.rn - 1
      s1 == Flag(Flag(s, s.rn = 0, "reader-reread-empty", ""), n # n2 \/ i # s.ri, "reader-ring-mismatch", "reread")
      s2 == [s1 EXCEPT !.rn = n, !.ri = i, !.reads = s.reads + 1]
  IN Deliver(s2, Curr(s2), Curr(s))
\* ---- reader.unread()
Unread(s, n, i) ==
  LET n2 == s.rn + 1
      s1 == Flag(Flag(s, n2 > 3 \/ n2 > s.rfill, "reader-ring-overflow", ""), n # n2 \/ i # s.ri, "reader-ring-mismatch", "unread")
  IN [s1 EXCEPT !.rn = n, !.ri = i]

\* ---- bufScanner.scanFunc, fresh token
Scanned(s, n, i, toks) ==
  IF s.k + 1 > Len(toks) THEN Flag(s, TRUE, "drift:malformed-trace", "token without position")
  ELSE
  LET tok == toks[s.k + 1] name == tok[1] got == [l |-> tok[2], c |-> tok[3]]
      end == Consumed(s) cur == Curr(s)
      judgePos == V("drift:rune-after-end-marker", "") \notin s.bad
      s1 == Flag(Flag(s, s.tn # 0, "token-scan-with-pushback", ""), n # 0 \/ i # (s.ti + 1) % 3, "token-ring-mismatch", "scan")
      s2 == IF ~judgePos THEN s1
            ELSE IF ~s.hasFirst THEN Flag(s1, TRUE, "drift:token-without-first-rune", name)
            ELSE IF got = s.first.tpos THEN s1
            ELSE IF name \in {"STRING", "BADSTRING"} /\ got \in s.qprev THEN Flag(s1, TRUE, "Dev_StringPosPrevRune", "")
            ELSE IF name = "BADESCAPE" /\ got = cur.cpos THEN Flag(s1, TRUE, "Dev_BadEscapePosAtEscape", "")
            \* the reader counts the first end marker it delivers as a column: every later one is one column late
            ELSE IF name = "EOF" /\ s.first.e /\ got = [s.first.tpos EXCEPT !.c = @ + 1] THEN Flag(s1, TRUE, "Dev_EOFPosLate", "")
            ELSE Flag(s1, TRUE, "pos-wrong", name)
      s3 == Flag(Flag(s2, judgePos /\ name # "EOF" /\ end <= s.start, "no-progress", name),
                 judgePos /\ s.seenEOF /\ name # "EOF", "eof-not-sticky", name)
  IN [s3 EXCEPT !.tn = n, !.ti = i, !.tfill = Min2(3, s.tfill + 1), !.k = s.k + 1, !.start = end,
                !.hasFirst = FALSE, !.qprev = {}, !.seenEOF = s.seenEOF \/ name = "EOF"]
\* ---- bufScanner.scanFunc, re-delivery; the Unscan calls before it are not logged: n + 1 - tn of them
Redelivered(s, n, i) ==
  LET s1 == Flag(Flag(Flag(s, n + 1 < s.tn, "token-ring-mismatch", "negative unscan count"),
                      n + 1 > 3 \/ n + 1 > s.tfill, "token-ring-overflow", ""),
                 i # s.ti, "token-ring-mismatch", "redelivery")
  IN [s1 EXCEPT !.tn = n, !.ti = i]

StepEv(toks, s, e) ==
  LET kind == e \div 1000 n == (e \div 100) % 10 i == (e \div 10) % 10 c == e % 10 IN
  CASE kind = 1 -> Raw(s, n, i, c)
    [] kind = 2 -> ReRead(s, n, i)
    [] kind = 3 -> Unread(s, n, i)
    [] kind = 4 -> Scanned(s, n, i, toks)
    [] kind = 5 -> Redelivered(s, n, i)
    [] OTHER -> Flag(s, TRUE, "drift:malformed-trace", "event kind")

Replay(o) == FoldLeft(LAMBDA s, e : StepEv(o.toks, s, e), S0, o.ev)

Skip(o) == Has(o, "summary") \/ Has(o, "cut")
Verdicts(r) ==
  IF Skip(r.obs) THEN {}
  ELSE LET f == Replay(r.obs) IN
       f.bad \cup (IF f.k # Len(r.obs.toks) THEN {V("drift:malformed-trace", "token count")} ELSE {})
\* non-trivial: the session scanned at least two tokens and pushed something back
NonTrivial(r) == ~Skip(r.obs) /\ Len(r.obs.toks) >= 2 /\ \E j \in 1..Len(r.obs.ev) : r.obs.ev[j] \div 1000 \in {3, 5}

Init == l = 1 /\ nt = 0
Step == /\ l <= Len(Trace)
        /\ LET r == Trace[l] IN
             /\ \A v \in Verdicts(r) : CSVWrite("%1$s", <<ToJson([id |-> r.id, class |-> v.class, sig |-> v.sig])>>, IOEnv.VERDICT_FILE)
             /\ nt' = nt + (IF NonTrivial(r) THEN 1 ELSE 0)
        /\ l' = l + 1
Finish == /\ l = Len(Trace) + 1
          /\ CSVWrite("%1$s", <<ToJson([judged |-> Len(Trace), nontrivial |-> nt])>>, IOEnv.STATS_FILE)
          /\ l' = l + 1 /\ UNCHANGED nt
Next == Step \/ Finish
Spec == Init /\ [][Next]_vars
Accepted == TLCGet("stats").diameter = Len(Trace) + 2
=============================================================================
