----------------------------- MODULE Judge_c16 -----------------------------
(* Pass V for C16.
   (1) query records [toks->text, wants, bad, obs |-> [stmts | err]]: ParseQuery yields exactly
       the statements, in order, each equal to the AST of the statement alone (the pool ASTs
       are bound to single-statement parsing by C01); a missing separator is an error.
   (2) spelling records [want, dev, obs |-> [ast | err]]: replacing the whitespace of a gap by
       other whitespace, or by comments flanked by whitespace, leaves the AST unchanged.
   Named deviation Dev_CommentBeforeRegexProbe: a block or line comment in a gap where the
   parser probes the raw input for a regex (parseRegex/peekRune does not skip comments):
   the statement is rejected with a regex-scanner error, or the token after the gap is a
   regex that is then not recognised.
   Named deviation Dev_CommentInEmptyArgumentList: a comment between the parentheses of a call
   without arguments ( now( -- c ... ) ): parseCall tests for ")" with Scan, which does not
   skip comments.                                                                      *)
EXTENDS Naturals, Sequences, FiniteSets, TLC, Json, CSV, IOUtils

VARIABLES l, nt
vars == <<l, nt>>
Trace == ndJsonDeserialize(IOEnv.OBS_FILE)
Has(r, f) == f \in DOMAIN r
V(c, s) == [class |-> c, sig |-> s]
\* TLC's "=" is partial: comparing a string with a record or a boolean is an evaluation error, and
\* the "Val" field of literals is polymorphic (string, boolean, record).  Projected ASTs are
\* therefore compared structurally, kinds first (total).
KindOfV(x) == LET c == SubSeq(ToString(x), 1, 1) IN IF c = "[" THEN "rec" ELSE IF c = "<" THEN "seq" ELSE "atom"
RECURSIVE SameAst(_, _)
SameAst(a, b) == LET ka == KindOfV(a) kb == KindOfV(b) IN
  IF ka # kb THEN FALSE
  ELSE IF ka = "atom" THEN ToString(a) = ToString(b)
  ELSE DOMAIN a = DOMAIN b /\ \A f \in DOMAIN a : SameAst(a[f], b[f])

QueryVerdicts(r) ==
  LET o == r.obs IN
  IF Has(o, "panic") \/ Has(o, "harness_panic") THEN {V("panic", "query")}
  ELSE IF r.bad THEN (IF Has(o, "err") THEN {} ELSE {V("missing-separator-accepted", "")})
  ELSE IF Has(o, "err") THEN (IF r.cm /\ Has(o, "err_regex") THEN {V("Dev_CommentBeforeRegexProbe", "")} ELSE {V("query-rejected", "")})
  ELSE IF ~SameAst(o.stmts, r.wants) THEN {V("query-wrong-statements", "")}
  ELSE {}

SpellVerdicts(r) ==
  LET o == r.obs d == r.dev IN
  IF d.what # "gap" THEN {}                      \* case / quoting variants are C01's claim
  ELSE IF Has(o, "panic") \/ Has(o, "harness_panic") THEN {V("panic", r.kind)}
  ELSE IF Has(o, "err") THEN
       (IF d.comment /\ (Has(o, "err_regex") \/ d.re) THEN {V("Dev_CommentBeforeRegexProbe", "")}
        ELSE IF d.comment /\ d.emptyargs THEN {V("Dev_CommentInEmptyArgumentList", "")}
        ELSE {V(IF d.comment THEN "comment-changes-meaning" ELSE "whitespace-changes-meaning", r.kind)})
  ELSE IF ~SameAst(o.ast, r.want) THEN {V(IF d.comment THEN "comment-changes-meaning" ELSE "whitespace-changes-meaning", r.kind)}
  ELSE {}

Verdicts(r) == IF Has(r, "wants") THEN QueryVerdicts(r) ELSE SpellVerdicts(r)
NonTrivial(r) == IF Has(r, "wants") THEN r.n >= 2 ELSE r.dev.what = "gap"

Init == l = 1 /\ nt = 0
Step == /\ l <= Len(Trace)
        /\ LET r == Trace[l] IN
             /\ \A v \in Verdicts(r) : CSVWrite("%1$s", <<ToJson([id |-> r.id, class |-> v.class, sig |-> v.sig])>>, IOEnv.VERDICT_FILE)
             /\ nt' = nt + (IF NonTrivial(r) THEN 1 ELSE 0)
        /\ l' = l + 1
Finish == /\ l = Len(Trace) + 1
          /\ CSVWrite("%1$s", <<ToJson([judged |-> Len(Trace), nontrivial |-> nt])>>, IOEnv.STATS_FILE)
          /\ l' = l + 1 /\ UNCHANGED nt
Next == Step \/ Finish
Spec == Init /\ [][Next]_vars
Accepted == TLCGet("stats").diameter = Len(Trace) + 2
=============================================================================
