------------------------------ MODULE Gen_stmt ------------------------------
(* Pass G for C01 / C02 (and the statement corpus of C13 / C16 / C19): TLC enumerates the
   denotation relation of Grammar: for each statement kind every choice of one option per
   clause slot (for ALTER RETENTION POLICY every non-empty subset of its options in every
   order).  The action that completes a statement emits  [kind, toks, want]. *)
EXTENDS Grammar, Json, CSV, IOUtils, FiniteSets

CONSTANTS KindsUsed
VARIABLES kind, sub, pc, ast, toks, used
vars == <<kind, sub, pc, ast, toks, used>>

Subs(k) == IF k = "selectone" THEN SelectClauses ELSE {""}
Init == /\ kind \in KindsUsed /\ sub \in Subs(kind)
        /\ pc = 1 /\ ast = <<>> /\ toks = <<>> /\ used = {}
SL == Slots(kind, sub)
Clause == /\ pc <= Len(SL)
          /\ \E o \in SL[pc] : ast' = ast @@ o.a /\ toks' = toks \o o.t
          /\ pc' = pc + 1 /\ UNCHANGED <<kind, sub, used>>
AlterOpt == /\ kind = "alter" /\ pc = Len(SL) + 1
            /\ \E o \in AlterOpts \ used :
                 /\ ast' = ast @@ AlterOptAst(o) /\ toks' = toks \o AlterOptTok(o) /\ used' = used \cup {o}
            /\ UNCHANGED <<kind, sub, pc>>
Finish == /\ pc = Len(SL) + 1
          /\ IF kind = "alter" THEN used # {} ELSE TRUE
          /\ WellFormed(kind, ast)
          /\ CSVWrite("%1$s", <<ToJson([kind |-> kind, sub |-> sub, toks |-> toks, want |-> ast])>>, IOEnv.CASE_FILE)
          /\ pc' = Len(SL) + 2 /\ UNCHANGED <<kind, sub, ast, toks, used>>
Next == Clause \/ AlterOpt \/ Finish
Spec == Init /\ [][Next]_vars
=============================================================================
