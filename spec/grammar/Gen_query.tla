------------------------------ MODULE Gen_query ------------------------------
(* C16 (first half): a query is a list of statements separated by semicolons.  TLC
   enumerates lists of 0..N statements from a small pool and, between them, every
   separator spelling; empty statements and a trailing semicolon are ignored, a missing
   separator is an error.  Expected: exactly the statements' ASTs, in order.           *)
EXTENDS Grammar, Json, CSV, IOUtils

CONSTANTS N
VARIABLES items, toks, wants, bad, cm
vars == <<items, toks, wants, bad, cm>>

Pool == <<
  [a |-> SimpleSel("a", Meas("", "", "m")), t |-> <<Kw("SELECT"), Id("a"), Kw("FROM"), Id("m")>>],
  [a |-> [k |-> "SelectStatement", Fields |-> <<Field(Call("mean", <<Ref("v")>>))>>, Sources |-> <<Meas("", "", "m")>>, Condition |-> CondA.a, Limit |-> "1"],
   t |-> <<Kw("SELECT"), Id("mean"), PT("("), IdT("v"), PT(")"), Kw("FROM"), Id("m")>> \o WhereOf(CondA).t \o <<Kw("LIMIT"), Int("1")>>],
  [a |-> [k |-> "ShowDatabasesStatement"], t |-> <<Kw("SHOW"), Kw("DATABASES")>>],
  [a |-> [k |-> "DropDatabaseStatement", Name |-> "d"], t |-> <<Kw("DROP"), Kw("DATABASE"), Id("d")>>],
  [a |-> [k |-> "CreateUserStatement", Name |-> "u", Password |-> "p;w"], t |-> <<Kw("CREATE"), Kw("USER"), Id("u"), Kw("WITH"), Kw("PASSWORD"), Str("p;w")>>],
  [a |-> [k |-> "ShowTagValuesStatement", Op |-> "=~", TagKeyExpr |-> ReL("a;b")], t |-> <<Kw("SHOW"), Kw("TAG"), Kw("VALUES"), Kw("WITH"), Kw("KEY"), P("=~"), Re("a;b")>>]
>>
\* separators: text written between two statements; "ok" says whether it separates
Sep(s, ok, c) == [s |-> s, ok |-> ok, cm |-> c]      \* cm: a block comment precedes the semicolon
Seps == {Sep(";", TRUE, FALSE), Sep(" ; ", TRUE, FALSE), Sep(";\n", TRUE, FALSE), Sep(";;", TRUE, FALSE), Sep(" ;\t; ", TRUE, FALSE),
         Sep("; -- c\n", TRUE, FALSE), Sep("; /* c */ ", TRUE, FALSE), Sep(" /* c */ ; ", TRUE, TRUE), Sep(" ", FALSE, FALSE), Sep("\n", FALSE, FALSE)}
Leads == {"", ";", " ", "; ;", "\n"}
Trails == {"", ";", " ", " ; ", ";\n", "; -- end"}

Raw(s) == [t |-> "p", s |-> s, g |-> "T"]
Tight(ts) == [ts EXCEPT ![1] = [@ EXCEPT !.g = "T"]]

Init == \E ld \in Leads : items = 0 /\ toks = <<Raw(ld)>> /\ wants = <<>> /\ bad = FALSE /\ cm = FALSE
Add == /\ items < N
       /\ \E k \in 1..Len(Pool) : \E sp \in (IF items = 0 THEN {Sep("", TRUE, FALSE)} ELSE Seps) :
            /\ toks' = toks \o <<Raw(sp.s)>> \o Tight(Pool[k].t)
            /\ wants' = Append(wants, Pool[k].a)
            /\ bad' = (bad \/ ~sp.ok)
            /\ cm' = (cm \/ sp.cm)
            /\ items' = items + 1
            /\ \A tr \in Trails : CSVWrite("%1$s", <<ToJson([toks |-> toks' \o <<Raw(tr)>>, wants |-> wants', n |-> Len(wants'), bad |-> bad', cm |-> cm'])>>, IOEnv.CASE_FILE)
\* the empty query (only leading / trailing separators)
Empty == /\ items = 0
         /\ \A tr \in Trails : CSVWrite("%1$s", <<ToJson([toks |-> toks \o <<Raw(tr)>>, wants |-> <<>>, n |-> 0, bad |-> FALSE, cm |-> FALSE])>>, IOEnv.CASE_FILE)
         /\ items' = N + 1 /\ UNCHANGED <<toks, wants, bad, cm>>
Next == Add \/ Empty
Spec == Init /\ [][Next]_vars
=============================================================================
