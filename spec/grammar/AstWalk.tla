------------------------------ MODULE AstWalk ------------------------------
(* Generic traversal of projected AST values (records with a "k" field, sequences,
   strings, booleans) for judge specs. *)
EXTENDS Naturals, Sequences, TLC

\* TLC's ToString prints records as "[..", sequences as "<<..", strings in quotes
KindOf(x) == LET c == SubSeq(ToString(x), 1, 1) IN
             IF c = "[" THEN "rec" ELSE IF c = "<" THEN "seq" ELSE "atom"

\* the set of all record nodes inside a value
RECURSIVE Nodes(_)
Nodes(x) == LET kd == KindOf(x) IN
            IF kd = "rec" THEN {x} \cup UNION {Nodes(x[f]) : f \in DOMAIN x}
            ELSE IF kd = "seq" THEN UNION {Nodes(x[i]) : i \in DOMAIN x}
            ELSE {}
\* TLC's "=" is partial: comparing a string with a record or a boolean is an evaluation error, and
\* the "Val" field of literals is polymorphic (string, boolean, record).  Projected ASTs are
\* therefore compared structurally, kinds first (total).
RECURSIVE SameAst(_, _)
SameAst(a, b) == LET ka == KindOf(a) kb == KindOf(b) IN
  IF ka # kb THEN FALSE
  ELSE IF ka = "atom" THEN ToString(a) = ToString(b)
  ELSE DOMAIN a = DOMAIN b /\ \A f \in DOMAIN a : SameAst(a[f], b[f])

Has(r, f) == f \in DOMAIN r
IsK(n, k) == "k" \in DOMAIN n /\ n.k = k

\* the value with every field named f removed from records of kind k (used to blank passwords)
RECURSIVE Without(_, _, _)
Without(x, k, f) == LET kd == KindOf(x) IN
  IF kd = "rec" THEN [g \in (DOMAIN x) \ (IF IsK(x, k) THEN {f} ELSE {}) |-> Without(x[g], k, f)]
  ELSE IF kd = "seq" THEN [i \in DOMAIN x |-> Without(x[i], k, f)]
  ELSE x
=============================================================================
