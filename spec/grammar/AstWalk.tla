------------------------------ MODULE AstWalk ------------------------------
(* Generic traversal of projected AST values (records with a "k" field, sequences,
   strings, booleans) for judge specs. *)
EXTENDS Naturals, Sequences, TLC

\* TLC's ToString prints records as "[..", sequences as "<<..", strings in quotes
KindOf(x) == LET c == SubSeq(ToString(x), 1, 1) IN
             IF c = "[" THEN "rec" ELSE IF c = "<" THEN "seq" ELSE "atom"

\* the set of all record nodes inside a value
RECURSIVE Nodes(_)
Nodes(x) == LET kd == KindOf(x) IN
            IF kd = "rec" THEN {x} \cup UNION {Nodes(x[f]) : f \in DOMAIN x}
            ELSE IF kd = "seq" THEN UNION {Nodes(x[i]) : i \in DOMAIN x}
            ELSE {}
Has(r, f) == f \in DOMAIN r
IsK(n, k) == "k" \in DOMAIN n /\ n.k = k

\* the value with every field named f removed from records of kind k (used to blank passwords)
RECURSIVE Without(_, _, _)
Without(x, k, f) == LET kd == KindOf(x) IN
  IF kd = "rec" THEN [g \in (DOMAIN x) \ (IF IsK(x, k) THEN {f} ELSE {}) |-> Without(x[g], k, f)]
  ELSE IF kd = "seq" THEN [i \in DOMAIN x |-> Without(x[i], k, f)]
  ELSE x
=============================================================================
