SPECIFICATION Spec
CONSTANTS N = 2
CHECK_DEADLOCK FALSE
