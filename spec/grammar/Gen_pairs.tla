------------------------------ MODULE Gen_pairs ------------------------------
(* C16, every statement kind inside a query: for every kind the statement with the fewest
   tokens (every optional clause left out: the parser returns right after the last required
   token, or after a look-ahead for an optional clause that is not there) and the one with
   the most tokens, each placed FIRST and SECOND in a two-statement query with every
   separator spelling, every lead and every trail.  Same case records as Gen_query.     *)
EXTENDS Grammar, Json, CSV, IOUtils, FiniteSets

CONSTANTS KindsUsed
VARIABLES kind, sub, done
vars == <<kind, sub, done>>

Subs(k) == IF k = "selectone" THEN {"fields"} ELSE {""}
MaxOpt(opts) == CHOOSE o \in opts : \A p \in opts : Len(o.t) >= Len(p.t)
MinOptOf(opts) == CHOOSE o \in opts : \A p \in opts : Len(o.t) <= Len(p.t)
RECURSIVE Build(_, _, _, _, _)
Build(SL, j, a, t, max) == IF j > Len(SL) THEN [a |-> a, t |-> t]
                           ELSE LET o == IF max THEN MaxOpt(SL[j]) ELSE MinOptOf(SL[j]) IN Build(SL, j + 1, a @@ o.a, t \o o.t, max)
\* the shortest well-formed statement: leave out every optional clause, but keep what WellFormed demands
Shortest(k, s) == LET SL == Slots(k, s) b == Build(SL, 1, <<>>, <<>>, FALSE) IN
                  IF WellFormed(k, b.a) /\ k # "alter" THEN {b} ELSE {}
Longest(k, s) == LET SL == Slots(k, s) b == Build(SL, 1, <<>>, <<>>, TRUE) IN
                 IF k = "alter" THEN {[a |-> b.a @@ AlterOptAst("dur"), t |-> b.t \o AlterOptTok("dur")]} ELSE {b}
\* single-slot kinds: every option is a statement
Stmts(k, s) == LET SL == Slots(k, s) IN
               IF Len(SL) = 1 THEN {[a |-> o.a, t |-> o.t] : o \in SL[1]} ELSE Shortest(k, s) \cup Longest(k, s)

Other == [a |-> [k |-> "ShowDatabasesStatement"], t |-> <<Kw("SHOW"), Kw("DATABASES")>>]
Sep(s, ok, c) == [s |-> s, ok |-> ok, cm |-> c]
Seps == {Sep(";", TRUE, FALSE), Sep(" ; ", TRUE, FALSE), Sep(";\n", TRUE, FALSE), Sep(";;", TRUE, FALSE),
         Sep("; -- c\n", TRUE, FALSE), Sep(" /* c */ ; ", TRUE, TRUE), Sep(" -- c\n;", TRUE, TRUE), Sep(" ", FALSE, FALSE), Sep("\n", FALSE, FALSE)}
Trails == {"", ";", " ", " -- end", " /* end */", ";\n"}
Raw(s) == [t |-> "p", s |-> s, g |-> "T"]
Tight(ts) == [ts EXCEPT ![1] = [@ EXCEPT !.g = "T"]]
Emit(first, second, sp, tr) ==
  CSVWrite("%1$s", <<ToJson([toks |-> <<Raw("")>> \o Tight(first.t) \o <<Raw(sp.s)>> \o Tight(second.t) \o <<Raw(tr)>>,
                              wants |-> <<first.a, second.a>>, n |-> 2, bad |-> ~sp.ok, cm |-> sp.cm \/ tr \in {" -- end", " /* end */"}])>>, IOEnv.CASE_FILE)
EmitOne(st, tr) ==
  CSVWrite("%1$s", <<ToJson([toks |-> <<Raw("")>> \o Tight(st.t) \o <<Raw(tr)>>, wants |-> <<st.a>>, n |-> 1, bad |-> FALSE,
                              cm |-> tr \in {" -- end", " /* end */"}])>>, IOEnv.CASE_FILE)

\* long queries: n statements of one kind in one text (n around 100 and 128: counters and small buffers), each with a
\* call without arguments / a parenthesis / nothing special: what one statement leaves behind must not reach the next
NowCond == BinE(">", E(Ref("time"), <<Id("time")>>, FALSE, TRUE), E(Call("now", <<>>), <<Id("now"), PT("("), PT(")")>>, TRUE, TRUE))
LongPool == <<
  [a |-> SimpleSel("v", Meas("", "", "m")) @@ WhereOf(NowCond).a, t |-> <<Kw("SELECT"), Id("v"), Kw("FROM"), Id("m")>> \o WhereOf(NowCond).t],
  [a |-> [k |-> "SelectStatement", Fields |-> <<Field(Paren(Ref("v")))>>, Sources |-> <<Meas("", "", "m")>>, IsRawQuery |-> TRUE],
   t |-> <<Kw("SELECT"), P("("), IdT("v"), PT(")"), Kw("FROM"), Id("m")>>],
  [a |-> [k |-> "ShowDatabasesStatement"], t |-> <<Kw("SHOW"), Kw("DATABASES")>>] >>
LongSizes == {99, 100, 101, 102, 128, 129}
RECURSIVE Rep(_, _, _)
Rep(st, n, sep) == IF n = 1 THEN Tight(st.t) ELSE Tight(st.t) \o <<Raw(sep)>> \o Rep(st, n - 1, sep)
EmitLong(st, n, sep) ==
  CSVWrite("%1$s", <<ToJson([toks |-> <<Raw("")>> \o Rep(st, n, sep), wants |-> [i \in 1..n |-> st.a], n |-> n, bad |-> FALSE, cm |-> FALSE])>>, IOEnv.CASE_FILE)
\* ... and ONE statement with n calls without arguments in its condition ( time > now() AND time > now() AND ... ) or n
\* parenthesised fields: nothing is nested more than once
RECURSIVE AndChain(_), AndToks(_)
AndChain(n) == IF n = 1 THEN NowCond.a ELSE Bin("AND", AndChain(n - 1), NowCond.a)
AndToks(n) == IF n = 1 THEN NowCond.t ELSE AndToks(n - 1) \o <<Kw("AND")>> \o NowCond.t
LongCond(n) == [a |-> SimpleSel("v", Meas("", "", "m")) @@ [Condition |-> AndChain(n)],
                t |-> <<Kw("SELECT"), Id("v"), Kw("FROM"), Id("m"), Kw("WHERE")>> \o AndToks(n)]
RECURSIVE ParFields(_)
ParFields(n) == IF n = 0 THEN <<>> ELSE ParFields(n - 1) \o (IF n = 1 THEN <<>> ELSE <<PT(",")>>) \o <<P("("), IdT("v"), PT(")")>>
LongFields(n) == [a |-> [k |-> "SelectStatement", Fields |-> [i \in 1..n |-> Field(Paren(Ref("v")))], Sources |-> <<Meas("", "", "m")>>, IsRawQuery |-> TRUE],
                  t |-> <<Kw("SELECT")>> \o ParFields(n) \o <<Kw("FROM"), Id("m")>>]
LongStep == /\ ~done /\ kind = "kill"          \* once per run
            /\ \A i \in 1..Len(LongPool) : \A n \in LongSizes : \A sep \in {";", " ;\n"} : EmitLong(LongPool[i], n, sep)
            /\ \A n \in LongSizes : EmitLong(LongCond(n), 1, ";") /\ EmitLong(LongFields(n), 1, ";")

Init == kind \in KindsUsed /\ sub \in Subs(kind) /\ done = FALSE
Step == /\ ~done
        /\ \A st \in Stmts(kind, sub) :
             /\ \A tr \in Trails : EmitOne(st, tr)
             /\ \A sp \in Seps : \A tr \in {"", ";"} : Emit(st, Other, sp, tr) /\ Emit(Other, st, sp, tr)
        /\ (IF kind = "kill" THEN LongStep ELSE TRUE)
        /\ done' = TRUE /\ UNCHANGED <<kind, sub>>
Next == Step
Spec == Init /\ [][Next]_vars
=============================================================================
