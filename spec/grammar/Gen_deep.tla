------------------------------ MODULE Gen_deep ------------------------------
(* Pass G, deep expressions (C01 / C02 / C13 / C16): TLC -simulate grows random expression
   trees from ALL leaves of Grammar with every operator, parentheses and calls, up to MaxD
   constructor applications, and places each as a SELECT field, as a WHERE condition or as
   a call argument.  A composite operand of a binary operator is parenthesised, so the
   denoted AST does not depend on operator precedence (that is C03's business): the tree
   is exactly the one that was built.  One case per behaviour, emitted by its last step. *)
EXTENDS Grammar, Json, CSV, IOUtils, FiniteSets

CONSTANTS MaxD
VARIABLES e, lf, d, pc, pos
vars == <<e, lf, d, pc, pos>>

HasTok(t, kind, s) == \E i \in 1..Len(t) : t[i].t = kind /\ t[i].s = s
\* leaves that can stand as an operand of a binary operator or as a call argument next to others
OperandLeaves == {x \in Leaves : ~HasTok(x.t, "p", "*") /\ ~(\E i \in 1..Len(x.t) : x.t[i].t = "re")
                                 /\ ~(\E i \in 1..Len(x.t) : x.t[i].t = "kw" /\ x.t[i].s \in {"DISTINCT", "distinct"})}
AllOps == ArithOps \cup CmpOps \cup LogicOps
ParenE(x) == E(Paren(x.a), <<P("(")>> \o x.t \o <<PT(")")>>, x.call, x.fld)
\* an infix chain is parenthesised as an operand; a signed operand ( -v, which denotes -1 * v ) is not: the parser
\* builds that node in parseUnaryExpr and never regroups it
Signed(x) == x.t[1].t = "p" /\ x.t[1].s \in {"-", "+"}
\* a leaf as operand
Opnd(x) == IF x.a.k = "BinaryExpr" /\ ~Signed(x) THEN ParenE(x) ELSE x
\* the tree under construction as operand (still a bare leaf while d = 0)
OpndE == IF e.a.k = "BinaryExpr" /\ ~(d = 0 /\ Signed(e)) THEN ParenE(e) ELSE e
\* the parser lower-cases function names
CallE(name, spelled, xs) == E(Call(name, [j \in 1..Len(xs) |-> xs[j].a]),
                     <<Id(spelled), PT("(")>> \o xs[1].t \o (IF Len(xs) >= 2 THEN <<PT(",")>> \o xs[2].t ELSE <<>>) \o <<PT(")")>>, TRUE,
                     \A j \in 1..Len(xs) : xs[j].fld)      \* comparison / logical operators are refused anywhere inside a SELECT field
M0 == Meas("", "", "m")
Stmt(p, x) ==
  CASE p = "field" -> [a |-> [k |-> "SelectStatement", Fields |-> <<Field(x.a)>>, Sources |-> <<M0>>] @@ (IF x.call THEN <<>> ELSE F1("IsRawQuery", TRUE)),
                       t |-> <<Kw("SELECT")>> \o x.t \o <<Kw("FROM"), Id("m")>>]
    [] p = "where" -> [a |-> SimpleSel("a", M0) @@ F1("Condition", x.a),
                       t |-> <<Kw("SELECT"), Id("a"), Kw("FROM"), Id("m"), Kw("WHERE")>> \o x.t]
    [] p = "arg"   -> [a |-> [k |-> "SelectStatement", Fields |-> <<Field(Call("f", <<x.a>>))>>, Sources |-> <<M0>>],
                       t |-> <<Kw("SELECT"), Id("f"), PT("(")>> \o x.t \o <<PT(")"), Kw("FROM"), Id("m")>>]

Init == e \in OperandLeaves /\ lf = e /\ d = 0 /\ pc = "pick" /\ pos = ""
\* two steps per constructor application (a leaf, then an operator / shape): keeps the branching of a state small
Pick == /\ pc = "pick" /\ d < MaxD
        /\ lf' \in OperandLeaves /\ pc' = "grow" /\ UNCHANGED <<e, d, pos>>
Grow == /\ pc = "grow"
        /\ \/ e' = ParenE(e)
           \/ \E o \in AllOps : e' = BinE(o, Opnd(lf), OpndE)
           \/ \E o \in AllOps : e' = BinE(o, OpndE, Opnd(lf))
           \/ \E o \in RegexOps : \E r \in RegexRhss : e' = BinE(o, OpndE, r)
           \/ \E n \in {<<"f", "f">>, <<"mean", "mean">>, <<"max", "MAX">>} : e' = CallE(n[1], n[2], <<e>>)
           \/ \E n \in {"f", "percentile"} : e' = CallE(n, n, <<e, lf>>)
           \/ e' = CallE("f", "f", <<lf, e>>)
        /\ d' = d + 1 /\ pc' = "pick" /\ UNCHANGED <<lf, pos>>
Stop == /\ pc = "pick" /\ d >= 1
        /\ pos' \in (IF e.fld THEN {"field", "where", "arg"} ELSE {"where"})
        /\ pc' = "emit" /\ UNCHANGED <<e, lf, d>>
Emit == /\ pc = "emit"
        /\ LET s == Stmt(pos, e) IN CSVWrite("%1$s", <<ToJson([kind |-> "deep", sub |-> pos, toks |-> s.t, want |-> s.a])>>, IOEnv.CASE_FILE)
        /\ pc' = "done" /\ UNCHANGED <<e, lf, d, pos>>
Next == Pick \/ Grow \/ Stop \/ Emit
Spec == Init /\ [][Next]_vars
=============================================================================
