------------------------------ MODULE Gen_spell ------------------------------
(* Spellings (C01 "any legal spelling", C16 "whitespace and comments do not change
   meaning"): for a base statement of every kind - the one that takes the longest option
   of every clause slot - every SINGLE spelling deviation:
     case   each keyword token in lower / mixed / upper case
     quote  each identifier written bare, quoted instead
     gap    each loose inter-token gap replaced by every whitespace variant and (for C16)
            by comments flanked by whitespace
   The expected AST is unchanged by construction: it is the base statement's AST.       *)
EXTENDS Grammar, Json, CSV, IOUtils, FiniteSets

CONSTANTS KindsUsed, WithComments, AllOptionSubs   \* AllOptionSubs: SELECT clauses whose EVERY option is a base statement
VARIABLES kind, sub, done
vars == <<kind, sub, done>>

Subs(k) == IF k = "selectone" THEN SelectClauses ELSE {""}
MaxOpt(opts) == CHOOSE o \in opts : \A p \in opts : Len(o.t) >= Len(p.t)
RECURSIVE BuildFrom(_, _, _, _)
BuildFrom(SL, j, a, t) == IF j > Len(SL) THEN [a |-> a, t |-> t]
                          ELSE LET o == MaxOpt(SL[j]) IN BuildFrom(SL, j + 1, a @@ o.a, t \o o.t)
AlterAll == <<"dur", "repl", "shard", "def", "fut", "past">>
RECURSIVE AlterTail(_, _, _)
AlterTail(j, a, t) == IF j > Len(AlterAll) THEN [a |-> a, t |-> t]
                      ELSE AlterTail(j + 1, a @@ AlterOptAst(AlterAll[j]), t \o AlterOptTok(AlterAll[j]))
\* every complete choice of one option per slot
RECURSIVE AllBuilds(_, _, _)
AllBuilds(SL, j, acc) == IF j > Len(SL) THEN acc
                         ELSE AllBuilds(SL, j + 1, {[a |-> b.a @@ o.a, t |-> b.t \o o.t] : b \in acc, o \in SL[j]})
\* single-slot kinds contribute every option as a base statement of its own; so do the SELECT
\* clauses listed in AllOptionSubs (all other slots of "selectone" hold a single option)
Bases(k, s) == LET SL == Slots(k, s) IN
  IF Len(SL) = 1 THEN {[a |-> o.a, t |-> o.t] : o \in SL[1]}
  ELSE IF k = "selectone" /\ s \in AllOptionSubs THEN AllBuilds(SL, 1, {[a |-> <<>>, t |-> <<>>]})
  ELSE IF k = "alter" THEN LET b == BuildFrom(SL, 1, <<>>, <<>>) IN {AlterTail(1, b.a, b.t)}
  ELSE {BuildFrom(SL, 1, <<>>, <<>>)}

\* runs of blanks around the sizes of small buffers (63, 64, 65, 130 blanks; a line break and a deep indentation): written by
\* the renderer for the placeholders {SP63} {SP64} {SP65} {SP130} {NL80}
WsGaps == <<"  ", "\t", "\n", "\r\n", "\r", " \n\t ", "{SP63}", "{SP64}", "{SP65}", "{SP130}", "{NL80}">>
CommentGaps == <<" /* c */ ", " -- c\n", "\n/* multi\nline */\n", " /**/ ", " /* a */ /* b */ -- c\n ", " -- c\r", " -- c\r\n", "\t--\n",
                \* comment bodies that begin / end with the characters of the delimiters
                " /*/ c */ ", " /*// c */ ", " /***/ ", " /* * / */ ", " /*/*/ ", " --\n", " ---- c --\n">>
GapVariants == IF WithComments THEN WsGaps \o CommentGaps ELSE WsGaps

\* a gap accepts whitespace when the grammar marks it loose, and also - although written without
\* a space by default - after "(" and "," and before ")" and ","  (f( x , y ) is legal; only the
\* gap between a function name and its "(", around "::", and before "." is tight)
LooseAt(t, i) == \/ t[i].g = "L"
                 \/ (t[i].g = "T" /\ t[i - 1].t = "p" /\ t[i - 1].s \in {"(", ","})
                 \/ (t[i].g = "T" /\ t[i].t = "p" /\ t[i].s \in {")", ","})
                 \* the identifier after the dot of a segmented name is read with ScanIgnoreWhitespace:  db. rp . m  is not
                 \* legal (the dot must follow its name directly) but  db. rp. m  is
                 \/ (t[i].g = "T" /\ t[i].t = "id" /\ t[i - 1].t = "p" /\ t[i - 1].s = ".")
Emit(k, s, b, toks, dev) == CSVWrite("%1$s", <<ToJson([kind |-> k, sub |-> s, toks |-> toks, want |-> b.a, dev |-> dev])>>, IOEnv.CASE_FILE)

Variants(k, s, b) ==
  /\ Emit(k, s, b, b.t, [what |-> "base", comment |-> FALSE, at |-> 0])
  /\ \A i \in 1..Len(b.t) : LET tk == b.t[i] IN
       /\ IF tk.t = "kw"
          THEN \A c \in {"l", "m", "u"} : Emit(k, s, b, [b.t EXCEPT ![i] = tk @@ [c |-> c]], [what |-> "case", comment |-> FALSE, at |-> i])
          ELSE TRUE
       /\ IF tk.t = "id" /\ "q" \notin DOMAIN tk
          THEN Emit(k, s, b, [b.t EXCEPT ![i] = tk @@ [q |-> TRUE]], [what |-> "quote", comment |-> FALSE, at |-> i])
          ELSE TRUE
       /\ IF i > 1 /\ LooseAt(b.t, i)
          THEN \A v \in 1..Len(GapVariants) :
                 Emit(k, s, b, [b.t EXCEPT ![i] = tk @@ [w |-> GapVariants[v]]], [what |-> "gap", comment |-> v > Len(WsGaps), at |-> i, v |-> v, re |-> tk.t = "re",
                                                                               emptyargs |-> (tk.t = "p" /\ tk.s = ")" /\ b.t[i - 1].t = "p" /\ b.t[i - 1].s = "(")])
          ELSE TRUE

\* TWO gaps changed at once (C16): a line break of one kind in an earlier gap and one of another kind - or a line comment -
\* in a later gap.  A reader that folds CR / CRLF / LF with a one-character memory is only wrong on such mixtures.
PairGaps == << <<"\r", "\n">>, <<"\r", " -- c\n">>, <<"\n", "\r">>, <<"\r\n", "\r">>, <<" -- c\r", "\n">>, <<"\r", "\r\n">>,
               <<" /* c */ ", " -- c\n">>, <<"\r", " /* c */ ">> >>
IsCommentGap(w) == w \in {" -- c\n", " -- c\r", " /* c */ "}
PairBases(k, s) == LET SL == Slots(k, s) IN
  IF Len(SL) = 1 THEN {}
  ELSE IF k = "selectone" THEN (IF s = "fields" THEN {BuildFrom(SL, 1, <<>>, <<>>)} ELSE {})
  ELSE IF k = "alter" THEN LET b == BuildFrom(SL, 1, <<>>, <<>>) IN {AlterTail(1, b.a, b.t)}
  ELSE {BuildFrom(SL, 1, <<>>, <<>>)}
PairVariants(k, s, b) ==
  \A i \in 2..Len(b.t) : \A j \in (i + 1)..Len(b.t) :
    IF LooseAt(b.t, i) /\ LooseAt(b.t, j)
    THEN \A p \in 1..Len(PairGaps) :
           Emit(k, s, b, [b.t EXCEPT ![i] = b.t[i] @@ [w |-> PairGaps[p][1]], ![j] = b.t[j] @@ [w |-> PairGaps[p][2]]],
                [what |-> "gap", comment |-> (IsCommentGap(PairGaps[p][1]) \/ IsCommentGap(PairGaps[p][2])), at |-> i, v |-> 0,
                 re |-> (b.t[i].t = "re" \/ b.t[j].t = "re"),
                 emptyargs |-> \E x \in {i, j} : (b.t[x].t = "p" /\ b.t[x].s = ")" /\ b.t[x - 1].t = "p" /\ b.t[x - 1].s = "(")])
    ELSE TRUE

Init == kind \in KindsUsed /\ sub \in Subs(kind) /\ done = FALSE
Step == /\ ~done
        /\ \A b \in Bases(kind, sub) : Variants(kind, sub, b)
        /\ IF WithComments THEN \A b \in PairBases(kind, sub) : PairVariants(kind, sub, b) ELSE TRUE
        /\ done' = TRUE /\ UNCHANGED <<kind, sub>>
Next == Step
Spec == Init /\ [][Next]_vars
=============================================================================
