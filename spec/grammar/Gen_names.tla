------------------------------ MODULE Gen_names ------------------------------
(* Names and string values in EVERY position of EVERY statement kind (C01 / C02 / C13).
   Grammar.tla writes one or two witness names per position ("db", "my db").  The properties
   quantify over all names ("names that need quoting or escaping, keywords used as names")
   and a printer may treat a position specially (a format string, a missing QuoteIdent, a
   trimmed space).  For the shortest and the longest statement of every kind (and every
   statement of the single-slot kinds), for every name that occurs in it, and for every
   awkward value below, TLC writes the statement with that name replaced - in the tokens
   (always quoted) and in the denoted AST.  Witness values are pairwise distinct, so the
   replacement is well defined: a value is only replaced when the number of string atoms of
   the AST equal to it is the number of replaceable tokens carrying it.                   *)
EXTENDS Gen_pairs, AstWalk, Dict

\* percent signs (format verbs), both quotes, backslashes (also last), newline, comment and
\* separator characters, a dot, spaces, a digit first, a keyword, a parameter sign, non-ASCII
TrickyNames == {"a%sb", "100%", "%d%%", "a\\b", "x\"y", "it's", "l\n2", "a/b", "a.b", "a b", "$x", "a--b", "/*x*/", "1a",
                "select", "a,b", "a;b", "a=b", "a)b", "::", " ", "é", "_", "a\\", "\\n", "\"\"", "a'", "x\\\"y", "a\tb", "\t"}
TrickyStrings == {"100%", "a%sb", "%!s(MISSING)", "it's", "say \"hi\"", "a\\b", "l\n2", "a\\", "\\n", "é", "--", "/* c */", ";", " ", "''", "a\\'", "a\tb", "\t", "a\fb"}

\* identifier tokens that are not names: call names (lower-cased by the parser), data types, words with a meaning
ReservedNames == {"time", "none", "null", "previous", "linear"}
ReservedStrings == {"UTC", "America/Chicago", "Europe/Berlin", "2000-01-01T00:00:00Z"}
NotAName(t, i) == \/ (i < Len(t) /\ t[i + 1].t = "p" /\ t[i + 1].s = "(")
                  \/ (i > 1 /\ t[i - 1].s = "::")
                  \/ t[i].s \in ReservedNames
NotAValue(t, i) == \/ t[i].s \in ReservedStrings
                   \/ (i > 2 /\ t[i - 1].s = "(" /\ t[i - 2].s \in {"tz", "TZ"})

RECURSIVE CountAtoms(_, _), SubstAtoms(_, _, _), SumFields(_, _, _), SumSeq(_, _, _)
SumFields(x, F, s) == IF F = {} THEN 0 ELSE LET f == CHOOSE g \in F : TRUE IN CountAtoms(x[f], s) + SumFields(x, F \ {f}, s)
SumSeq(x, i, s) == IF i > Len(x) THEN 0 ELSE CountAtoms(x[i], s) + SumSeq(x, i + 1, s)
CountAtoms(x, s) == LET kd == KindOf(x) IN
  IF kd = "atom" THEN (IF ToString(x) = ToString(s) THEN 1 ELSE 0)
  ELSE IF kd = "rec" THEN SumFields(x, (DOMAIN x) \ {"k"}, s)
  ELSE SumSeq(x, 1, s)
SubstAtoms(x, s, nm) == LET kd == KindOf(x) IN
  IF kd = "atom" THEN (IF ToString(x) = ToString(s) THEN nm ELSE x)
  ELSE IF kd = "rec" THEN [f \in DOMAIN x |-> IF f = "k" THEN x[f] ELSE SubstAtoms(x[f], s, nm)]
  ELSE [i \in DOMAIN x |-> SubstAtoms(x[i], s, nm)]

Positions(t, kind2, s) == {i \in 1..Len(t) : t[i].t = kind2 /\ t[i].s = s}
Replaceable(st, kind2, s) ==
  LET I == Positions(st.t, kind2, s) IN
  /\ \A i \in I : IF kind2 = "id" THEN ~NotAName(st.t, i) ELSE ~NotAValue(st.t, i)
  /\ Positions(st.t, IF kind2 = "id" THEN "str" ELSE "id", s) = {}
  /\ CountAtoms(st.a, s) = Cardinality(I)
Values(st, kind2) == {st.t[i].s : i \in {j \in 1..Len(st.t) : st.t[j].t = kind2}}
Renamed(st, kind2, s, nm) ==
  [a |-> SubstAtoms(st.a, s, nm),
   t |-> [i \in 1..Len(st.t) |-> IF st.t[i].t = kind2 /\ st.t[i].s = s
                                 THEN (IF kind2 = "id" THEN [t |-> "id", s |-> nm, g |-> st.t[i].g, q |-> TRUE]
                                       ELSE [t |-> "str", s |-> nm, g |-> st.t[i].g])
                                 ELSE st.t[i]]]
EmitN(k, st) == CSVWrite("%1$s", <<ToJson([kind |-> k, sub |-> "names", toks |-> st.t, want |-> st.a])>>, IOEnv.CASE_FILE)

\* duration literals in every position: fractional values of the next unit ( 1500ms is not 1.5s for the parser ), the micro
\* sign, sub-millisecond values, compound spellings - as <<spelling, nanoseconds>>
TrickyDurs == {<<"1500ms", "1500000000">>, <<"750u", "750000">>, <<"1m1ms", "60001000000">>, <<"1500{MICRO}", "1500000">>, <<"90m", "5400000000000">>,
               <<"36h", "129600000000000">>, <<"8d", "691200000000000">>, <<"1ns", "1">>, <<"1001ms", "1001000000">>, <<"61s", "61000000000">>}
DurSpellings == {"1ns", "2u", "3{MICRO}", "4ms", "5s", "10s", "1m", "2m", "90s", "1h", "2h", "3h", "4h", "1h30m", "1d", "2d", "1w", "2w", "1500ms"}
DurReplaceable(st, s) == LET I == Positions(st.t, "dur", s) IN
  /\ s \in DurSpellings
  /\ \A i \in I : ~(i > 1 /\ st.t[i - 1].s \in {"-", "+"} /\ st.t[i - 1].t = "p" /\ st.t[i].g = "T")
  /\ CountAtoms(st.a, NsOf(s)) = Cardinality(I)
RenamedDur(st, s, d) ==
  [a |-> SubstAtoms(st.a, NsOf(s), d[2]),
   t |-> [i \in 1..Len(st.t) |-> IF st.t[i].t = "dur" /\ st.t[i].s = s THEN [st.t[i] EXCEPT !.s = d[1]] ELSE st.t[i]]]

\* a continuous query is only a statement of the language when  FOR >= EVERY  and  FOR >= the GROUP BY time() interval
\* (witnesses: EVERY 10s, FOR 2m, time(1m)): the replacement keeps that
CqDurOK(k, s, d) == IF k # "cq" THEN TRUE
                    ELSE CASE s = "10s" -> d[1] \in {"1500ms", "750u", "1500{MICRO}", "1ns", "1001ms", "61s"}
                           [] s = "2m"  -> d[1] \in {"90m", "36h", "8d"}
                           [] s = "1m"  -> d[1] \in {"61s", "1001ms", "1500ms", "750u"}
                           [] OTHER -> FALSE

NStep == /\ ~done
         /\ \A st \in Stmts(kind, sub) :
              /\ \A s \in Values(st, "id") : IF Replaceable(st, "id", s) THEN \A nm \in TrickyNames : EmitN(kind, Renamed(st, "id", s, nm)) ELSE TRUE
              /\ \A s \in Values(st, "str") : IF Replaceable(st, "str", s) THEN \A nm \in TrickyStrings : EmitN(kind, Renamed(st, "str", s, nm)) ELSE TRUE
              /\ \A s \in Values(st, "dur") : IF DurReplaceable(st, s) THEN \A d \in {x \in TrickyDurs : CqDurOK(kind, s, x)} : EmitN(kind, RenamedDur(st, s, d)) ELSE TRUE
         /\ done' = TRUE /\ UNCHANGED <<kind, sub>>
NSpec == Init /\ [][NStep]_vars

\* The same with the SOURCE DICTIONARY (Dict.tla): every string constant of the tree under check as name and as string
\* value, every small integer constant (and its neighbours) as count, in every position of the shortest statement of
\* every kind (and of every statement of the single-slot kinds).  The count 0 is left out: a zero count is an absent
\* field of the projected AST (Grammar.tla has its own LIMIT 0), and REPLICATION 0 is not in the language.
DictStmts(k, s) == LET SL == Slots(k, s) IN
                   IF Len(SL) = 1 THEN {[a |-> o.a, t |-> o.t] : o \in SL[1]}
                   ELSE IF k = "alter" THEN Longest(k, s) ELSE Shortest(k, s) \cup (IF k \in {"selectone", "cq", "createuser"} THEN Longest(k, s) ELSE {})
RenamedInt(st, s, w) ==
  [a |-> SubstAtoms(st.a, s, w),
   t |-> [i \in 1..Len(st.t) |-> IF st.t[i].t = "int" /\ st.t[i].s = s THEN [st.t[i] EXCEPT !.s = w] ELSE st.t[i]]]
IntReplaceable(st, s) == LET I == Positions(st.t, "int", s) IN
  /\ \A i \in I : ~(i > 1 /\ st.t[i - 1].s \in {"-", "+"})             \* a signed literal is one AST value
  /\ CountAtoms(st.a, s) = Cardinality(I)
EmitD(k, st) == CSVWrite("%1$s", <<ToJson([kind |-> k, sub |-> "dict", toks |-> st.t, want |-> st.a])>>, IOEnv.CASE_FILE)
DStep == /\ ~done
         /\ \A st \in DictStmts(kind, sub) :
              /\ \A s \in Values(st, "id") : IF Replaceable(st, "id", s) THEN \A w \in DictStrs : EmitD(kind, Renamed(st, "id", s, w)) ELSE TRUE
              /\ \A s \in Values(st, "str") : IF Replaceable(st, "str", s) THEN \A w \in DictStrs : EmitD(kind, Renamed(st, "str", s, w)) ELSE TRUE
              /\ \A s \in Values(st, "int") : IF IntReplaceable(st, s) THEN \A w \in DictInts \ {"0"} : EmitD(kind, RenamedInt(st, s, w)) ELSE TRUE
         /\ done' = TRUE /\ UNCHANGED <<kind, sub>>
DSpec == Init /\ [][DStep]_vars
=============================================================================
