----------------------------- MODULE Judge_c02 -----------------------------
(* Pass V for C02: for every statement the parser accepted, the printed text is accepted
   again and parses to a structurally identical AST (modulo password text, which is
   redacted on purpose: the driver writes a placeholder literal where [REDACTED] was
   printed and the Password fields are ignored).
   Record: [id, kind, sub, obs |-> [text, ast, str, reparse | rerr | spanic | rpanic]]
   Named deviation Dev_UnaryMinusNoParen (known finding): a desugared sign node (+-1 * x)
   standing as the right operand of a level-5 operator prints without parentheses; the
   re-parsed AST is exactly the regrouping that the print -> parse model predicts.       *)
EXTENDS PrecOps, AstWalk, FiniteSets, Json, CSV, IOUtils

VARIABLES l, nt
vars == <<l, nt>>
Trace == ndJsonDeserialize(IOEnv.OBS_FILE)
V(c, s) == [class |-> c, sig |-> s]

NoPw(x) == Without(Without(x, "CreateUserStatement", "Password"), "SetPasswordUserStatement", "Password")

\* print -> parse model on whole statements: every maximal BinaryExpr tree is flattened
\* (String() prints no parentheses for a BinaryExpr) and regrouped by the parser's insertion
RECURSIVE RP(_), FlatO(_), FlatA(_)
FlatO(t) == IF IsK(t, "BinaryExpr") THEN FlatO(t.LHS) \o <<t.Op>> \o FlatO(t.RHS) ELSE <<>>
FlatA(t) == IF IsK(t, "BinaryExpr") THEN FlatA(t.LHS) \o FlatA(t.RHS) ELSE <<RP(t)>>
RP(x) == LET kd == KindOf(x) IN
  IF kd = "rec" THEN (IF IsK(x, "BinaryExpr")
                      THEN LET ops == FlatO(x) atoms == FlatA(x) IN InsertAll(ops, atoms, 1, atoms[1])
                      ELSE [f \in DOMAIN x |-> RP(x[f])])
  ELSE IF kd = "seq" THEN [i \in DOMAIN x |-> RP(x[i])]
  ELSE x
SignedUnderL5(n) == IsK(n, "BinaryExpr") /\ Prec(n.Op) = 5 /\ IsK(n.RHS, "BinaryExpr") /\ n.RHS.Op = "*"
                    /\ IsK(n.RHS.LHS, "IntegerLiteral") /\ n.RHS.LHS.Val \in {"-1", "1"}
                    /\ n.RHS.RHS.k \in {"VarRef", "Call", "ParenExpr"}

\* some node of the value has the deviation's shape (no sets of heterogeneous records are built)
RECURSIVE AnySigned(_)
AnySigned(x) == LET kd == KindOf(x) IN
  IF kd = "rec" THEN SignedUnderL5(x) \/ \E f \in DOMAIN x : AnySigned(x[f])
  ELSE IF kd = "seq" THEN \E i \in DOMAIN x : AnySigned(x[i])
  ELSE FALSE

Sig(r) == r.kind \o (IF r.sub = "" THEN "" ELSE "/" \o r.sub)
Verdicts(r) ==
  LET o == r.obs IN
  IF ~Has(o, "ast") THEN {}                              \* not accepted: nothing to print (C01's business)
  ELSE IF Has(o, "spanic") THEN {V("string-panics", Sig(r))}
  ELSE IF Has(o, "rpanic") THEN {V("reparse-panics", Sig(r))}
  ELSE IF Has(o, "rerr") THEN {V("print-rejected", Sig(r))}
  ELSE IF SameAst(NoPw(o.reparse), NoPw(o.ast)) THEN {}
  ELSE IF AnySigned(o.ast) /\ SameAst(o.reparse, RP(o.ast)) THEN {V("Dev_UnaryMinusNoParen", "")}
  ELSE {V("print-changes-ast", Sig(r))}

NonTrivial(r) == Has(r.obs, "ast") /\ Cardinality(DOMAIN r.obs.ast) >= 3

Init == l = 1 /\ nt = 0
Step == /\ l <= Len(Trace)
        /\ LET r == Trace[l] IN
             /\ \A v \in Verdicts(r) : CSVWrite("%1$s", <<ToJson([id |-> r.id, class |-> v.class, sig |-> v.sig])>>, IOEnv.VERDICT_FILE)
             /\ nt' = nt + (IF NonTrivial(r) THEN 1 ELSE 0)
        /\ l' = l + 1
Finish == /\ l = Len(Trace) + 1
          /\ CSVWrite("%1$s", <<ToJson([judged |-> Len(Trace), nontrivial |-> nt])>>, IOEnv.STATS_FILE)
          /\ l' = l + 1 /\ UNCHANGED nt
Next == Step \/ Finish
Spec == Init /\ [][Next]_vars
Accepted == TLCGet("stats").diameter = Len(Trace) + 2
=============================================================================
