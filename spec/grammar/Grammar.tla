------------------------------ MODULE Grammar ------------------------------
(* The InfluxQL statement language, by construction (README.md productions plus the
   parser's own extensions).  Every clause option is a pair
        [a |-> AST fragment, t |-> token records]
   where the fragment is the part of the statement record (in the normal form of
   harness/project.go, see spec/common/Ast.tla) that the clause denotes, and the tokens
   are what is written for it.  A statement is a sequence of SLOTS (sets of options, in
   grammar order); choosing one option per slot, merging the fragments (@@) and
   concatenating the tokens gives one (text, AST) pair of the denotation relation.
   Witness values are pairwise distinct (LIMIT 1 OFFSET 2 SLIMIT 3 SOFFSET 4, distinct
   names for database / policy / measurement / alias, distinct durations per option) so
   that any cross-wiring of clauses changes the AST.                                  *)
EXTENDS Naturals, Sequences, TLC, Tok, Ast

O(a, t) == [a |-> a, t |-> t]
Skip == O(<<>>, <<>>)
F1(name, v) == [x \in {name} |-> v]

\* nanosecond values of the duration spellings used as witnesses
NsOf(d) == CASE d = "1ns" -> "1" [] d = "2u" -> "2000" [] d = "3{MICRO}" -> "3000" [] d = "4ms" -> "4000000"
             [] d = "5s" -> "5000000000" [] d = "10s" -> "10000000000" [] d = "1m" -> "60000000000" [] d = "2m" -> "120000000000"
             [] d = "90s" -> "90000000000" [] d = "1h" -> "3600000000000" [] d = "2h" -> "7200000000000" [] d = "3h" -> "10800000000000"
             [] d = "4h" -> "14400000000000" [] d = "1h30m" -> "5400000000000" [] d = "1d" -> "86400000000000"
             [] d = "2d" -> "172800000000000" [] d = "1w" -> "604800000000000" [] d = "2w" -> "1209600000000000"
             [] d = "0s" -> "0" [] d = "1500ms" -> "1500000000" [] d = "INF" -> "0"
DurTok(d) == IF d = "INF" THEN Kw("INF") ELSE Dur(d)

\* ------------------------------------------------------------------ expressions
\* an expression option additionally says whether it contains a Call (IsRawQuery) and
\* whether it may stand as a SELECT field (no comparison / logical operator)
E(a, t, call, fld) == [a |-> a, t |-> t, call |-> call, fld |-> fld]

Leaves == {
  E(Ref("v"), <<Id("v")>>, FALSE, TRUE),
  E(Ref("my fld"), <<QId("my fld")>>, FALSE, TRUE),
  E(Ref("select"), <<QId("select")>>, FALSE, TRUE),
  \* names spelled like the literal and operator words (Lookup finds them although they are no keyword tokens)
  E(Ref("true"), <<QId("true")>>, FALSE, TRUE),
  E(Ref("False"), <<QId("False")>>, FALSE, TRUE),
  E(Ref("and"), <<QId("and")>>, FALSE, TRUE),
  E(Ref("OR"), <<QId("OR")>>, FALSE, TRUE),
  E(Ref("a.b"), <<Id("a"), PT("."), IdT("b")>>, FALSE, TRUE),
  E(Ref("a.b.c"), <<Id("a"), PT("."), IdT("b"), PT("."), IdT("c")>>, FALSE, TRUE),
  E(Ref("a..c"), <<Id("a"), PT("."), PT("."), IdT("c")>>, FALSE, TRUE),
  E(RefT("v", "float"), <<Id("v"), PT("::"), IdT("float")>>, FALSE, TRUE),
  E(RefT("v", "integer"), <<Id("v"), PT("::"), IdT("integer")>>, FALSE, TRUE),
  E(RefT("v", "unsigned"), <<Id("v"), PT("::"), IdT("unsigned")>>, FALSE, TRUE),
  E(RefT("v", "string"), <<Id("v"), PT("::"), IdT("string")>>, FALSE, TRUE),
  E(RefT("v", "boolean"), <<Id("v"), PT("::"), IdT("boolean")>>, FALSE, TRUE),
  E(RefT("v", "field"), <<Id("v"), PT("::"), KwT("field")>>, FALSE, TRUE),
  E(RefT("v", "tag"), <<Id("v"), PT("::"), KwT("tag")>>, FALSE, TRUE),
  E(RefT("q v", "float"), <<QId("q v"), PT("::"), IdT("FLOAT")>>, FALSE, TRUE),
  E(IntL("0"), <<Int("0")>>, FALSE, TRUE),
  E(IntL("7"), <<Int("007")>>, FALSE, TRUE),
  E(IntL("9223372036854775807"), <<Int("9223372036854775807")>>, FALSE, TRUE),
  E(UnsL("9223372036854775808"), <<Int("9223372036854775808")>>, FALSE, TRUE),
  E(UnsL("18446744073709551615"), <<Int("18446744073709551615")>>, FALSE, TRUE),
  E(IntL("-5"), <<P("-"), IntT("5")>>, FALSE, TRUE),
  E(IntL("-5"), <<P("-"), Int("5")>>, FALSE, TRUE),
  E(IntL("5"), <<P("+"), IntT("5")>>, FALSE, TRUE),
  E(IntL("-9223372036854775808"), <<P("-"), IntT("9223372036854775808")>>, FALSE, TRUE),
  E(NumL("1.5"), <<Num("1.5")>>, FALSE, TRUE),
  E(NumL("0.5"), <<Num(".5")>>, FALSE, TRUE),
  E(NumL("5"), <<Num("5.")>>, FALSE, TRUE),
  E(NumL("2"), <<Num("2.0")>>, FALSE, TRUE),
  E(NumL("-1.5"), <<P("-"), NumT("1.5")>>, FALSE, TRUE),
  E(NumL("1.2345678901234568e+20"), <<Num("123456789012345678901.0")>>, FALSE, TRUE),
  E(NumL("9.223372036854776e+18"), <<Num("9223372036854775808.0")>>, FALSE, TRUE),
  E(NumL("9.223372036854776e+18"), <<Num("9223372036854775807.0")>>, FALSE, TRUE),
  E(NumL("1.8446744073709552e+19"), <<Num("18446744073709551616.0")>>, FALSE, TRUE),
  E(NumL("-9.223372036854776e+18"), <<P("-"), NumT("9223372036854775808.0")>>, FALSE, TRUE),
  E(NumL("4.294967296e+09"), <<Num("4294967296.0")>>, FALSE, TRUE),
  E(NumL("1e+21"), <<Num("1000000000000000000000.0")>>, FALSE, TRUE),
  E(NumL("1e-06"), <<Num("0.000001")>>, FALSE, TRUE),
  E(NumL("123456.7"), <<Num("123456.7")>>, FALSE, TRUE),
  E(NumL("0"), <<Num("0.0")>>, FALSE, TRUE),
  E(StrL("x"), <<Str("x")>>, FALSE, TRUE),
  E(StrL(""), <<Str("")>>, FALSE, TRUE),
  E(StrL("say \"hi\""), <<StrX("say \"hi\"")>>, FALSE, TRUE),
  E(Ref("o'brien"), <<QIdX("o'brien")>>, FALSE, TRUE),
  E(Ref("l\n1"), <<QId("l\n1")>>, FALSE, TRUE),
  E(StrL("it's \"q\" \\ \n end"), <<Str("it's \"q\" \\ \n end")>>, FALSE, TRUE),
  E(StrL("2000-01-01T00:00:00Z"), <<Str("2000-01-01T00:00:00Z")>>, FALSE, TRUE),
  \* control characters the lexer takes raw inside quotes (only newline, backslash and the quote have an escape)
  E(StrL("tab\there"), <<Str("tab\there")>>, FALSE, TRUE),
  E(Ref("t\tb"), <<QId("t\tb")>>, FALSE, TRUE),
  E(BoolL(TRUE), <<Kw("true")>>, FALSE, TRUE),
  E(BoolL(FALSE), <<Kw("FALSE")>>, FALSE, TRUE),
  E(DurL(NsOf("1ns")), <<Dur("1ns")>>, FALSE, TRUE),
  E(DurL(NsOf("2u")), <<Dur("2u")>>, FALSE, TRUE),
  E(DurL(NsOf("3{MICRO}")), <<Dur("3{MICRO}")>>, FALSE, TRUE),
  E(DurL(NsOf("4ms")), <<Dur("4ms")>>, FALSE, TRUE),
  E(DurL(NsOf("5s")), <<Dur("5s")>>, FALSE, TRUE),
  E(DurL(NsOf("1m")), <<Dur("1m")>>, FALSE, TRUE),
  E(DurL(NsOf("1h")), <<Dur("1h")>>, FALSE, TRUE),
  E(DurL(NsOf("1d")), <<Dur("1d")>>, FALSE, TRUE),
  E(DurL(NsOf("1w")), <<Dur("1w")>>, FALSE, TRUE),
  E(DurL(NsOf("1h30m")), <<Dur("1h30m")>>, FALSE, TRUE),
  E(DurL("-5000000000"), <<P("-"), DurT("5s")>>, FALSE, TRUE),
  \* compound durations whose later components use every unit spelling (the micro sign is not an ASCII letter)
  E(DurL("1500000"), <<Dur("1ms500{MICRO}")>>, FALSE, TRUE),
  E(DurL("2000250000"), <<Dur("2s250{MICRO}")>>, FALSE, TRUE),
  E(DurL("33000000"), <<Dur("30ms3000u")>>, FALSE, TRUE),
  E(DurL("788645006007008"), <<Dur("1w2d3h4m5s6ms7u8ns")>>, FALSE, TRUE),
  \* the largest whole-unit durations, written so that the printer has to normalise them to that unit
  E(DurL("9223200000000000000"), <<Dur("15249w7d")>>, FALSE, TRUE),
  E(DurL("9223286400000000000"), <<Dur("106750d24h")>>, FALSE, TRUE),
  E(DurL("9223369200000000000"), <<Dur("2562046h60m")>>, FALSE, TRUE),
  E(DurL("9223372036854775807"), <<Dur("9223372036854775807ns")>>, FALSE, TRUE),
  E(Wild(""), <<P("*")>>, FALSE, TRUE),
  E(Wild("FIELD"), <<P("*"), PT("::"), KwT("field")>>, FALSE, TRUE),
  E(Wild("TAG"), <<P("*"), PT("::"), KwT("TAG")>>, FALSE, TRUE),
  E(Bin("*", IntL("-1"), Ref("v")), <<P("-"), IdT("v")>>, FALSE, TRUE),
  E(Bin("*", IntL("1"), Ref("v")), <<P("+"), IdT("v")>>, FALSE, TRUE),
  E(Bin("*", IntL("-1"), Paren(Ref("v"))), <<P("-"), PT("("), IdT("v"), PT(")")>>, FALSE, TRUE),
  E(Bin("*", IntL("-1"), Call("f", <<Ref("v")>>)), <<P("-"), IdT("f"), PT("("), IdT("v"), PT(")")>>, TRUE, TRUE),
  \* a multiplication by -1 / 1 that the user wrote (the desugared sign has the same shape with a non-literal right factor)
  E(Bin("*", IntL("-1"), IntL("60")), <<P("-"), IntT("1"), P("*"), Int("60")>>, FALSE, TRUE),
  E(Bin("*", IntL("-1"), NumL("0.5")), <<P("-"), IntT("1"), P("*"), Num("0.5")>>, FALSE, TRUE),
  E(Bin("*", IntL("-1"), DurL(NsOf("1w"))), <<P("-"), IntT("1"), P("*"), Dur("7d")>>, FALSE, TRUE),
  E(Bin("*", IntL("-1"), IntL("-2")), <<P("-"), IntT("1"), P("*"), P("-"), IntT("2")>>, FALSE, TRUE),
  E(Bin("*", IntL("1"), IntL("60")), <<Int("1"), P("*"), Int("60")>>, FALSE, TRUE),
  E(Bin("-", Ref("v"), IntL("-2")), <<Id("v"), P("-"), P("-"), IntT("2")>>, FALSE, TRUE),
  E(Bin("*", Ref("v"), IntL("-1")), <<Id("v"), P("*"), P("-"), IntT("1")>>, FALSE, TRUE),
  E(Paren(Ref("v")), <<P("("), IdT("v"), PT(")")>>, FALSE, TRUE),
  E(Paren(Paren(IntL("1"))), <<P("("), PT("("), IntT("1"), PT(")"), PT(")")>>, FALSE, TRUE),
  \* calls that occur only inside parentheses (the statement is still not a raw query)
  E(Paren(Call("mean", <<Ref("v")>>)), <<P("("), IdT("mean"), PT("("), IdT("v"), PT(")"), PT(")")>>, TRUE, TRUE),
  E(Paren(Paren(Call("mean", <<Ref("v")>>))), <<P("("), PT("("), IdT("mean"), PT("("), IdT("v"), PT(")"), PT(")"), PT(")")>>, TRUE, TRUE),
  E(Bin("-", IntL("1"), Paren(Bin("/", Call("sum", <<Ref("a")>>), Call("sum", <<Ref("b")>>)))),
    <<Int("1"), P("-"), P("("), IdT("sum"), PT("("), IdT("a"), PT(")"), P("/"), Id("sum"), PT("("), IdT("b"), PT(")"), PT(")")>>, TRUE, TRUE),
  E(Call("now", <<>>), <<Id("now"), PT("("), PT(")")>>, TRUE, TRUE),
  E(Call("mean", <<Ref("v")>>), <<Id("mean"), PT("("), IdT("v"), PT(")")>>, TRUE, TRUE),
  E(Call("mean", <<Ref("v")>>), <<Id("MEAN"), PT("("), P("v"), P(")")>>, TRUE, TRUE),
  E(Call("my fn", <<Ref("v")>>), <<QId("My Fn"), PT("("), IdT("v"), PT(")")>>, TRUE, TRUE),
  E(Call("percentile", <<Ref("v"), IntL("90")>>), <<Id("percentile"), PT("("), IdT("v"), PT(","), Int("90"), PT(")")>>, TRUE, TRUE),
  E(Call("top", <<Ref("v"), Ref("h"), Ref("r"), IntL("2")>>), <<Id("top"), PT("("), IdT("v"), PT(","), Id("h"), PT(","), Id("r"), PT(","), Int("2"), PT(")")>>, TRUE, TRUE),
  E(Call("max", <<Call("min", <<Ref("v")>>)>>), <<Id("max"), PT("("), IdT("min"), PT("("), IdT("v"), PT(")"), PT(")")>>, TRUE, TRUE),
  E(Call("count", <<Wild("")>>), <<Id("count"), PT("("), PT("*"), PT(")")>>, TRUE, TRUE),
  E(Call("count", <<ReL("^a")>>), <<Id("count"), PT("("), ReT("^a"), PT(")")>>, TRUE, TRUE),
  E(Call("count", <<Dist("v")>>), <<Id("count"), PT("("), KwT("DISTINCT"), Id("v"), PT(")")>>, TRUE, TRUE),
  E(Call("distinct", <<Ref("v")>>), <<Kw("distinct"), PT("("), IdT("v"), PT(")")>>, TRUE, TRUE),
  E(Dist("v"), <<Kw("DISTINCT"), Id("v")>>, FALSE, TRUE),
  E(Dist("my fld"), <<Kw("distinct"), QId("my fld")>>, FALSE, TRUE),
  E(Call("derivative", <<Call("mean", <<Ref("v")>>), DurL(NsOf("10s"))>>), <<Id("derivative"), PT("("), IdT("mean"), PT("("), IdT("v"), PT(")"), PT(","), Dur("10s"), PT(")")>>, TRUE, TRUE),
  E(Call("f", <<StrL("s"), NumL("1.5"), BoolL(TRUE), ReL("r")>>), <<Id("f"), PT("("), StrT("s"), PT(","), Num("1.5"), PT(","), Kw("true"), PT(","), Re("r"), PT(")")>>, TRUE, TRUE)
}
\* a small representative subset used where a full cross product would explode
FewLeaves == {e \in Leaves : e.t \in {<<Id("v")>>, <<QId("my fld")>>, <<Int("0")>>, <<Num("1.5")>>, <<Str("x")>>, <<Dur("1h30m")>>,
                                       <<P("-"), IdT("v")>>, <<P("("), IdT("v"), PT(")")>>, <<Id("mean"), PT("("), IdT("v"), PT(")")>>}}

ArithOps == {"*", "/", "%", "&", "+", "-", "|", "^"}
CmpOps == {"=", "!=", "<>", "<", "<=", ">", ">="}
RegexOps == {"=~", "!~"}
LogicOps == {"AND", "OR"}
OpPunct(o) == IF o \in LogicOps THEN Kw(o) ELSE P(o)

\* binary expressions  l op r
BinE(o, l, r) == E(Bin(CanonOp(o), l.a, r.a), l.t \o <<OpPunct(o)>> \o r.t, l.call \/ r.call, o \in ArithOps /\ l.fld /\ r.fld)
RegexRhs == E(ReL("^ab/c$"), <<Re("^ab/c$")>>, FALSE, FALSE)
\* regex patterns with slashes, backslashes before slashes, escapes, classes, flags
RegexPats == {"^ab/c$", "a\\/b", "usr\\\\/bin", "^c:\\\\\\/data$", "/", "//", "a\\.b", "[/]", "(?i)x", "a|b", "\\d+", " ", "'q'", "\"q\""}
RegexRhss == {E(ReL(pat), <<Re(pat)>>, FALSE, FALSE) : pat \in RegexPats}
Bins == {BinE(o, E(Ref("a"), <<Id("a")>>, FALSE, TRUE), r) : o \in ArithOps \cup CmpOps \cup LogicOps, r \in FewLeaves}
        \cup {BinE(o, E(Ref("a"), <<Id("a")>>, FALSE, TRUE), r) : o \in RegexOps, r \in RegexRhss}
        \cup {BinE(o, l, E(IntL("1"), <<Int("1")>>, FALSE, TRUE)) : o \in {"+", "*", "=", "AND"}, l \in FewLeaves}

\* conditions used as witnesses in clause lattices
CondA == BinE("=", E(Ref("h"), <<Id("h")>>, FALSE, TRUE), E(StrL("x"), <<Str("x")>>, FALSE, TRUE))
CondB == BinE("AND", BinE(">", E(Ref("v"), <<Id("v")>>, FALSE, TRUE), E(IntL("5"), <<Int("5")>>, FALSE, TRUE)),
                     BinE("!=", E(Ref("h"), <<Id("h")>>, FALSE, TRUE), E(StrL("y"), <<Str("y")>>, FALSE, TRUE)))
CondT == BinE("AND", BinE(">=", E(Ref("time"), <<Id("time")>>, FALSE, TRUE),
                          BinE("-", E(Call("now", <<>>), <<Id("now"), PT("("), PT(")")>>, TRUE, TRUE), E(DurL(NsOf("1h")), <<Dur("1h")>>, FALSE, TRUE))),
                     BinE("=~", E(Ref("h"), <<Id("h")>>, FALSE, TRUE), E(ReL("a.*"), <<Re("a.*")>>, FALSE, FALSE)))
WhereOf(c) == O(F1("Condition", c.a), <<Kw("WHERE")>> \o c.t)
WhereFew == {Skip, WhereOf(CondA), WhereOf(CondB)}
WhereAll == WhereFew \cup {WhereOf(CondT)} \cup {WhereOf(e) : e \in Leaves} \cup {WhereOf(e) : e \in Bins}

\* ------------------------------------------------------------------ sources
S(a, t) == [a |-> a, t |-> t]
SimpleSel(fld, src) == [k |-> "SelectStatement", Fields |-> <<Field(Ref(fld))>>, Sources |-> <<src>>, IsRawQuery |-> TRUE]
SrcOpts == {
  S(Meas("", "", "m"), <<Id("m")>>),
  S(Meas("", "rp", "m"), <<Id("rp"), PT("."), IdT("m")>>),
  S(Meas("db", "rp", "m"), <<Id("db"), PT("."), IdT("rp"), PT("."), IdT("m")>>),
  S(Meas("db", "", "m"), <<Id("db"), PT("."), PT("."), IdT("m")>>),
  S(Meas("my db", "my rp", "my m"), <<QId("my db"), PT("."), QIdT("my rp"), PT("."), QIdT("my m")>>),
  S(MeasRe("", "", "^m.*"), <<Re("^m.*")>>),
  S(MeasRe("", "rp", "re"), <<Id("rp"), PT("."), ReT("re")>>),
  S(MeasRe("db", "rp", "re"), <<Id("db"), PT("."), IdT("rp"), PT("."), ReT("re")>>),
  S(MeasRe("db", "", "re"), <<Id("db"), PT("."), PT("."), ReT("re")>>)
}
SubSrc1 == S(SubQ(SimpleSel("a", Meas("", "", "n"))), <<P("("), KwT("SELECT"), Id("a"), Kw("FROM"), Id("n"), PT(")")>>)
SubSrc2 == S(SubQ([k |-> "SelectStatement", Fields |-> <<Field(Call("max", <<Ref("a")>>))>>,
                   Sources |-> <<SubSrc1.a>>, Dimensions |-> <<Dim(Ref("h"))>>, Limit |-> "9"]),
             <<P("("), KwT("SELECT"), Id("max"), PT("("), IdT("a"), PT(")"), Kw("FROM")>> \o SubSrc1.t \o <<Kw("GROUP"), Kw("BY"), Id("h"), Kw("LIMIT"), Int("9"), PT(")")>>)
SubSrc3 == S(SubQ([k |-> "SelectStatement", Fields |-> <<Field(Ref("b"))>>, Sources |-> <<SubSrc2.a, Meas("", "", "k")>>, IsRawQuery |-> TRUE]),
             <<P("("), KwT("SELECT"), Id("b"), Kw("FROM")>> \o SubSrc2.t \o <<PT(","), Id("k"), PT(")")>>)
FromOf(srcs) == LET n == Len(srcs) IN
  O(F1("Sources", [j \in 1..n |-> srcs[j].a]),
    <<Kw("FROM")>> \o srcs[1].t \o (IF n >= 2 THEN <<PT(",")>> \o srcs[2].t ELSE <<>>) \o (IF n >= 3 THEN <<PT(",")>> \o srcs[3].t ELSE <<>>))
FromFew == {FromOf(<<S(Meas("", "", "m"), <<Id("m")>>)>>),
            FromOf(<<S(Meas("db", "rp", "m"), <<Id("db"), PT("."), IdT("rp"), PT("."), IdT("m")>>)>>),
            FromOf(<<S(Meas("", "", "m"), <<Id("m")>>), S(Meas("db", "", "n"), <<Id("db"), PT("."), PT("."), IdT("n")>>)>>)}
FromAll == {FromOf(<<s>>) : s \in SrcOpts \cup {SubSrc1, SubSrc2, SubSrc3}}
           \cup {FromOf(<<s, SubSrc1>>) : s \in SrcOpts}
           \cup {FromOf(<<SubSrc1, S(Meas("", "", "m"), <<Id("m")>>), S(MeasRe("", "", "x"), <<Re("x")>>)>>)}
\* sources of statements that take no subqueries
FromPlain == {FromOf(<<s>>) : s \in SrcOpts} \cup {FromOf(<<S(Meas("", "", "m"), <<Id("m")>>), S(MeasRe("", "", "x"), <<Re("x")>>)>>)}
FromPlainFew == {Skip, FromOf(<<S(Meas("", "", "m"), <<Id("m")>>)>>), FromOf(<<S(Meas("db", "rp", "m"), <<Id("db"), PT("."), IdT("rp"), PT("."), IdT("m")>>)>>)}

\* ------------------------------------------------------------------ SELECT clauses
FieldsOf(fs) == LET n == Len(fs) IN
  O(F1("Fields", [j \in 1..n |-> fs[j].a]) @@ (IF \E j \in 1..n : fs[j].call THEN <<>> ELSE F1("IsRawQuery", TRUE)),
    fs[1].t \o (IF n >= 2 THEN <<PT(",")>> \o fs[2].t ELSE <<>>) \o (IF n >= 3 THEN <<PT(",")>> \o fs[3].t ELSE <<>>))
Fld(e) == [a |-> Field(e.a), t |-> e.t, call |-> e.call]
FldA(e, al, tok) == [a |-> FieldA(e.a, al), t |-> e.t \o <<Kw("AS"), tok>>, call |-> e.call]
RefV == E(Ref("a"), <<Id("a")>>, FALSE, TRUE)
MeanV == E(Call("mean", <<Ref("v")>>), <<Id("mean"), PT("("), IdT("v"), PT(")")>>, TRUE, TRUE)
FieldsFew == {FieldsOf(<<Fld(RefV)>>), FieldsOf(<<Fld(RefV), FldA(MeanV, "m1", Id("m1"))>>)}
FieldsAll == FieldsFew \cup {FieldsOf(<<Fld(e)>>) : e \in {x \in Leaves \cup Bins : x.fld}}
             \cup {FieldsOf(<<FldA(RefV, "my alias", QId("my alias")), Fld(RefV), FldA(MeanV, "as", QId("as"))>>),
                   FieldsOf(<<[a |-> Field(ReL("^f")), t |-> <<Re("^f")>>, call |-> FALSE], Fld(RefV)>>),
                   FieldsOf(<<Fld(RefV), [a |-> Field(ReL("x/y")), t |-> <<Re("x/y")>>, call |-> FALSE]>>)}

MeasT(m) == m @@ [IsTarget |-> TRUE]
IntoOf(m, t) == O(F1("Target", [k |-> "Target", Measurement |-> MeasT(m)]), <<Kw("INTO")>> \o t)
IntoFew == {Skip, IntoOf(Meas("", "", "tgt"), <<Id("tgt")>>), IntoOf(Meas("tdb", "", "tgt"), <<Id("tdb"), PT("."), PT("."), IdT("tgt")>>)}
IntoAll == IntoFew \cup {IntoOf(Meas("", "trp", "tgt"), <<Id("trp"), PT("."), IdT("tgt")>>),
                         IntoOf(Meas("tdb", "trp", "tgt"), <<Id("tdb"), PT("."), IdT("trp"), PT("."), IdT("tgt")>>),
                         IntoOf(Meas("tdb", "trp", ""), <<Id("tdb"), PT("."), IdT("trp"), PT("."), PT(":"), KwT("MEASUREMENT")>>),
                         IntoOf(Meas("", "trp", ""), <<Id("trp"), PT("."), PT(":"), KwT("MEASUREMENT")>>),
                         IntoOf(Meas("t db", "t rp", "t m"), <<QId("t db"), PT("."), QIdT("t rp"), PT("."), QIdT("t m")>>)}

TimeDim(d) == Dim(Call("time", <<DurL(NsOf(d))>>))
TimeToks(d) == <<Id("time"), PT("("), DurT(d), PT(")")>>
GroupOf(ds, t) == O(F1("Dimensions", ds), <<Kw("GROUP"), Kw("BY")>> \o t)
GroupFew == {Skip, GroupOf(<<Dim(Ref("h"))>>, <<Id("h")>>),
             GroupOf(<<TimeDim("1m"), Dim(Ref("h"))>>, TimeToks("1m") \o <<PT(","), Id("h")>>)}
GroupAll == GroupFew \cup {
  GroupOf(<<Dim(Wild(""))>>, <<P("*")>>),
  GroupOf(<<Dim(ReL("^h"))>>, <<Re("^h")>>),
  GroupOf(<<Dim(Ref("h")), Dim(ReL("r")), Dim(Wild(""))>>, <<Id("h"), PT(","), Re("r"), PT(","), P("*")>>),
  GroupOf(<<Dim(Call("time", <<DurL(NsOf("1m")), DurL(NsOf("10s"))>>))>>, <<Id("time"), PT("("), DurT("1m"), PT(","), Dur("10s"), PT(")")>>),
  GroupOf(<<Dim(Call("time", <<DurL(NsOf("1m")), Call("now", <<>>)>>))>>, <<Id("time"), PT("("), DurT("1m"), PT(","), Id("now"), PT("("), PT(")"), PT(")")>>),
  GroupOf(<<Dim(Ref("my tag")), TimeDim("1h30m")>>, <<QId("my tag"), PT(",")>> \o TimeToks("1h30m")),
  GroupOf(<<Dim(RefT("h", "tag"))>>, <<Id("h"), PT("::"), KwT("tag")>>)}

FillOf(name, val, arg) == O(OptS("Fill", name) @@ (IF val = <<>> THEN <<>> ELSE F1("FillValue", val)), <<Id("fill"), PT("(")>> \o arg \o <<PT(")")>>)
FillFew == {Skip, FillOf("none", <<>>, <<IdT("none")>>), FillOf("number", [k |-> "int", v |-> "7"], <<IntT("7")>>)}
FillAll == FillFew \cup {FillOf("", <<>>, <<IdT("null")>>), FillOf("previous", <<>>, <<IdT("previous")>>), FillOf("linear", <<>>, <<IdT("linear")>>),
                         FillOf("number", [k |-> "float", v |-> "1.5"], <<NumT("1.5")>>), FillOf("number", [k |-> "float", v |-> "2"], <<NumT("2.0")>>), FillOf("number", [k |-> "int", v |-> "0"], <<IntT("0")>>),
                         FillOf("number", [k |-> "int", v |-> "-3"], <<PT("-"), IntT("3")>>), FillOf("previous", <<>>, <<[t |-> "id", s |-> "previous", g |-> "L"]>>),
                         O(OptS("Fill", "none"), <<Id("FILL"), PT("("), IdT("none"), PT(")")>>)}

OrderOf(sf, t) == O(F1("SortFields", <<sf>>), <<Kw("ORDER"), Kw("BY")>> \o t)
OrderFew == {Skip, OrderOf(SortF("time", FALSE), <<Id("time"), Kw("DESC")>>), OrderOf(SortF("", TRUE), <<Kw("ASC")>>)}
OrderAll == OrderFew \cup {OrderOf(SortF("time", TRUE), <<Id("time")>>), OrderOf(SortF("time", TRUE), <<Id("time"), Kw("ASC")>>),
                           OrderOf(SortF("", FALSE), <<Kw("DESC")>>)}

NumOpt(kw, fld, v) == {Skip, O(F1(fld, v), <<Kw(kw), Int(v)>>)}
LimitAll == NumOpt("LIMIT", "Limit", "1") \cup {O(<<>>, <<Kw("LIMIT"), Int("0")>>), O(F1("Limit", "2147483647"), <<Kw("LIMIT"), Int("2147483647")>>)}
TzOf(n) == O(F1("Location", [k |-> "loc", name |-> n]), <<Id("tz"), PT("("), StrT(n), PT(")")>>)
TzFew == {Skip, TzOf("UTC")}
TzAll == TzFew \cup {TzOf("America/Chicago"), O(F1("Location", [k |-> "loc", name |-> "Europe/Berlin"]), <<Id("TZ"), PT("("), StrT("Europe/Berlin"), PT(")")>>)}

HeadOf(k, t) == {O([k |-> k], t)}

\* SELECT: the full lattice over the "few" options, and one-clause-at-a-time over the "all" options
SelectLattice == <<HeadOf("SelectStatement", <<Kw("SELECT")>>), FieldsFew, IntoFew, FromFew, WhereFew, GroupFew, FillFew, OrderFew,
                   NumOpt("LIMIT", "Limit", "1"), NumOpt("OFFSET", "Offset", "2"), NumOpt("SLIMIT", "SLimit", "3"), NumOpt("SOFFSET", "SOffset", "4"), TzFew>>
LimitsQuick == {Skip,
                O([Limit |-> "1", Offset |-> "2", SLimit |-> "3", SOffset |-> "4"], <<Kw("LIMIT"), Int("1"), Kw("OFFSET"), Int("2"), Kw("SLIMIT"), Int("3"), Kw("SOFFSET"), Int("4")>>),
                O([Limit |-> "1", SOffset |-> "4"], <<Kw("LIMIT"), Int("1"), Kw("SOFFSET"), Int("4")>>),
                O([Offset |-> "2", SLimit |-> "3"], <<Kw("OFFSET"), Int("2"), Kw("SLIMIT"), Int("3")>>)}
SelectLatticeQuick == <<HeadOf("SelectStatement", <<Kw("SELECT")>>), FieldsFew, IntoFew, FromFew, WhereFew, GroupFew, FillFew, OrderFew, LimitsQuick, TzFew>>
MinOpt(fs) == {CHOOSE o \in fs : o.t # <<>>}
SelectOne(which) == <<HeadOf("SelectStatement", <<Kw("SELECT")>>),
   IF which = "fields" THEN FieldsAll ELSE MinOpt(FieldsFew),
   IF which = "into" THEN IntoAll ELSE {Skip},
   IF which = "from" THEN FromAll ELSE {FromOf(<<S(Meas("", "", "m"), <<Id("m")>>)>>)},
   IF which = "where" THEN WhereAll ELSE {Skip},
   IF which = "group" THEN GroupAll ELSE {Skip},
   IF which = "fill" THEN FillAll ELSE {Skip},
   IF which = "order" THEN OrderAll ELSE {Skip},
   IF which = "limit" THEN LimitAll ELSE {Skip},
   IF which = "tz" THEN TzAll ELSE {Skip}>>
SelectClauses == {"fields", "into", "from", "where", "group", "fill", "order", "limit", "tz"}

\* ------------------------------------------------------------------ shared clauses of other statements
OnDb == {Skip, O(F1("Database", "db"), <<Kw("ON"), Id("db")>>), O(F1("Database", "my db"), <<Kw("ON"), QId("my db")>>)}
OnDbFew == {Skip, O(F1("Database", "db"), <<Kw("ON"), Id("db")>>)}
LimOff == <<NumOpt("LIMIT", "Limit", "1"), NumOpt("OFFSET", "Offset", "2")>>
Exact == {Skip, O(F1("Exact", TRUE), <<Kw("EXACT")>>)}
WithKeyOpts(opfield) == {
  O(F1(opfield, "=") @@ [TagKeyExpr |-> StrL("k")], <<Kw("WITH"), Kw("KEY"), P("="), Id("k")>>),
  O(F1(opfield, "!=") @@ [TagKeyExpr |-> StrL("my k")], <<Kw("WITH"), Kw("KEY"), P("!="), QId("my k")>>),
  O(F1(opfield, "IN") @@ [TagKeyExpr |-> [k |-> "ListLiteral", Vals |-> <<"k1", "k 2">>]], <<Kw("WITH"), Kw("KEY"), Kw("IN"), P("("), IdT("k1"), PT(","), QId("k 2"), PT(")")>>),
  O(F1(opfield, "=~") @@ [TagKeyExpr |-> ReL("^k")], <<Kw("WITH"), Kw("KEY"), P("=~"), Re("^k")>>),
  O(F1(opfield, "!~") @@ [TagKeyExpr |-> ReL("k$")], <<Kw("WITH"), Kw("KEY"), P("!~"), Re("k$")>>)}


DurOpt(kws, fld, d) == {Skip, O(F1(fld, NsOf(d)), kws \o <<DurTok(d)>>)}

\* ALTER RETENTION POLICY: every non-empty subset of the six options in every order
AlterOptTok(o) == CASE o = "dur" -> <<Kw("DURATION"), Dur("2d")>> [] o = "repl" -> <<Kw("REPLICATION"), Int("3")>>
                    [] o = "shard" -> <<Kw("SHARD"), Kw("DURATION"), Dur("2h")>> [] o = "def" -> <<Kw("DEFAULT")>>
                    [] o = "fut" -> <<Kw("FUTURE"), Kw("LIMIT"), Dur("3h")>> [] o = "past" -> <<Kw("PAST"), Kw("LIMIT"), Dur("4h")>>
AlterOptAst(o) == CASE o = "dur" -> F1("Duration", NsOf("2d")) [] o = "repl" -> F1("Replication", "3")
                    [] o = "shard" -> F1("ShardGroupDuration", NsOf("2h")) [] o = "def" -> F1("Default", TRUE)
                    [] o = "fut" -> F1("FutureWriteLimit", NsOf("3h")) [] o = "past" -> F1("PastWriteLimit", NsOf("4h"))
AlterOpts == {"dur", "repl", "shard", "def", "fut", "past"}

\* ------------------------------------------------------------------ statement kinds
CqSelect(grp, cond) ==
  [a |-> [k |-> "SelectStatement", Fields |-> <<Field(Call("mean", <<Ref("v")>>))>>,
          Target |-> [k |-> "Target", Measurement |-> MeasT(Meas("tdb", "", "t"))], Sources |-> <<Meas("", "", "m")>>,
          Dimensions |-> <<TimeDim("1m")>> \o grp.a] @@ cond.a,
   t |-> <<Kw("SELECT"), Id("mean"), PT("("), IdT("v"), PT(")"), Kw("INTO"), Id("tdb"), PT("."), PT("."), IdT("t"), Kw("FROM"), Id("m")>> \o cond.t
         \o <<Kw("GROUP"), Kw("BY")>> \o TimeToks("1m") \o grp.t]

\* which completed choices are statements of the language (constraints across slots)
WellFormed(kind, ast) ==
  CASE kind \in {"delete", "dropseries"} -> "Sources" \in DOMAIN ast \/ "Condition" \in DOMAIN ast
    [] kind = "createdb" -> IF "RetentionPolicyCreate" \in DOMAIN ast
                            THEN \E f \in {"RetentionPolicyDuration", "RetentionPolicyReplication", "RetentionPolicyShardGroupDuration",
                                            "FutureWriteLimit", "PastWriteLimit", "RetentionPolicyName"} : f \in DOMAIN ast
                            ELSE DOMAIN ast = {"k", "Name"}
    [] OTHER -> TRUE

Kinds == {"select", "selectq", "selectone", "delete", "dropseries", "showseries", "seriescard", "meascard", "showmeas", "simple",
          "showrp", "tagkeycard", "tagkeys", "tagvalues", "tagvaluescard", "fieldkeycard", "fieldkeys", "names",
          "cq", "createdb", "createuser", "createrp", "createsub", "explain", "grant", "alter", "kill"}

Slots(kind, sub) ==
  CASE kind = "select" -> SelectLattice
    [] kind = "selectq" -> SelectLatticeQuick
    [] kind = "selectone" -> SelectOne(sub)
    [] kind = "delete" -> <<HeadOf("DeleteSeriesStatement", <<Kw("DELETE")>>),
                            {FromOf(<<S(Meas("", "", "m"), <<Id("m")>>)>>), FromOf(<<S(MeasRe("", "", "^m"), <<Re("^m")>>), S(Meas("", "rp", "n"), <<Id("rp"), PT("."), IdT("n")>>)>>), Skip},
                            {Skip, WhereOf(CondA), WhereOf(CondT)}>>
    [] kind = "dropseries" -> <<HeadOf("DropSeriesStatement", <<Kw("DROP"), Kw("SERIES")>>),
                            {FromOf(<<S(Meas("", "", "m"), <<Id("m")>>)>>), FromOf(<<S(MeasRe("", "", "^m"), <<Re("^m")>>), S(Meas("", "", "my n"), <<QId("my n")>>)>>), Skip},
                            WhereFew>>
    [] kind = "showseries" -> <<HeadOf("ShowSeriesStatement", <<Kw("SHOW"), Kw("SERIES")>>), OnDb, FromPlainFew, WhereFew, OrderFew>> \o LimOff
    [] kind = "seriescard" -> <<HeadOf("ShowSeriesCardinalityStatement", <<Kw("SHOW"), Kw("SERIES")>>), Exact, {O(<<>>, <<Kw("CARDINALITY")>>)}, OnDbFew, FromPlainFew, WhereFew, GroupFew>> \o LimOff
    [] kind = "meascard" -> <<HeadOf("ShowMeasurementCardinalityStatement", <<Kw("SHOW"), Kw("MEASUREMENT")>>), Exact, {O(<<>>, <<Kw("CARDINALITY")>>)}, OnDbFew, FromPlainFew, WhereFew, GroupFew>> \o LimOff
    [] kind = "showmeas" -> <<HeadOf("ShowMeasurementsStatement", <<Kw("SHOW"), Kw("MEASUREMENTS")>>),
                              {Skip, O(F1("Database", "db"), <<Kw("ON"), Id("db")>>), O(F1("Database", "db") @@ F1("RetentionPolicy", "rp"), <<Kw("ON"), Id("db"), PT("."), IdT("rp")>>),
                               O(F1("Database", "my db") @@ F1("RetentionPolicy", "my rp"), <<Kw("ON"), QId("my db"), PT("."), QIdT("my rp")>>),
                               O(F1("WildcardDatabase", TRUE), <<Kw("ON"), P("*")>>), O(F1("WildcardDatabase", TRUE) @@ F1("WildcardRetentionPolicy", TRUE), <<Kw("ON"), P("*"), PT("."), PT("*")>>),
                               O(F1("Database", "db") @@ F1("WildcardRetentionPolicy", TRUE), <<Kw("ON"), Id("db"), PT("."), PT("*")>>),
                               O(F1("WildcardDatabase", TRUE) @@ F1("RetentionPolicy", "rp"), <<Kw("ON"), P("*"), PT("."), IdT("rp")>>)},
                              {Skip, O(F1("Source", Meas("", "", "m")), <<Kw("WITH"), Kw("MEASUREMENT"), P("="), Id("m")>>),
                               O(F1("Source", MeasRe("", "", "^m")), <<Kw("WITH"), Kw("MEASUREMENT"), P("=~"), Re("^m")>>)},
                              WhereFew, OrderFew>> \o LimOff
    [] kind = "simple" -> <<{O([k |-> "ShowQueriesStatement"], <<Kw("SHOW"), Kw("QUERIES")>>), O([k |-> "ShowDatabasesStatement"], <<Kw("SHOW"), Kw("DATABASES")>>),
                             O([k |-> "ShowUsersStatement"], <<Kw("SHOW"), Kw("USERS")>>), O([k |-> "ShowShardsStatement"], <<Kw("SHOW"), Kw("SHARDS")>>),
                             O([k |-> "ShowShardGroupsStatement"], <<Kw("SHOW"), Kw("SHARD"), Kw("GROUPS")>>), O([k |-> "ShowSubscriptionsStatement"], <<Kw("SHOW"), Kw("SUBSCRIPTIONS")>>),
                             O([k |-> "ShowContinuousQueriesStatement"], <<Kw("SHOW"), Kw("CONTINUOUS"), Kw("QUERIES")>>),
                             O([k |-> "ShowStatsStatement"], <<Kw("SHOW"), Kw("STATS")>>), O([k |-> "ShowStatsStatement", Module |-> "mod"], <<Kw("SHOW"), Kw("STATS"), Kw("FOR"), Str("mod")>>),
                             O([k |-> "ShowDiagnosticsStatement"], <<Kw("SHOW"), Kw("DIAGNOSTICS")>>), O([k |-> "ShowDiagnosticsStatement", Module |-> "m'od"], <<Kw("SHOW"), Kw("DIAGNOSTICS"), Kw("FOR"), Str("m'od")>>)}>>
    [] kind = "showrp" -> <<HeadOf("ShowRetentionPoliciesStatement", <<Kw("SHOW"), Kw("RETENTION"), Kw("POLICIES")>>), OnDb>>
    [] kind = "tagkeycard" -> <<HeadOf("ShowTagKeyCardinalityStatement", <<Kw("SHOW"), Kw("TAG"), Kw("KEY")>>), Exact, {O(<<>>, <<Kw("CARDINALITY")>>)}, OnDbFew, FromPlainFew, WhereFew, GroupFew>> \o LimOff
    [] kind = "tagkeys" -> <<HeadOf("ShowTagKeysStatement", <<Kw("SHOW"), Kw("TAG"), Kw("KEYS")>>), OnDbFew, FromPlainFew, {Skip} \cup WithKeyOpts("TagKeyOp"), WhereFew, OrderFew>>
                           \o LimOff \o <<NumOpt("SLIMIT", "SLimit", "3"), NumOpt("SOFFSET", "SOffset", "4")>>
    [] kind = "tagvalues" -> <<HeadOf("ShowTagValuesStatement", <<Kw("SHOW"), Kw("TAG"), Kw("VALUES")>>), OnDbFew, FromPlainFew, WithKeyOpts("Op"), WhereFew, OrderFew>> \o LimOff
    [] kind = "tagvaluescard" -> <<HeadOf("ShowTagValuesCardinalityStatement", <<Kw("SHOW"), Kw("TAG"), Kw("VALUES")>>), Exact, {O(<<>>, <<Kw("CARDINALITY")>>)}, OnDbFew, FromPlainFew,
                                   WithKeyOpts("Op"), WhereFew, GroupFew>> \o LimOff
    [] kind = "fieldkeycard" -> <<HeadOf("ShowFieldKeyCardinalityStatement", <<Kw("SHOW"), Kw("FIELD"), Kw("KEY")>>), Exact, {O(<<>>, <<Kw("CARDINALITY")>>)}, OnDbFew, FromPlainFew, WhereFew, GroupFew>> \o LimOff
    [] kind = "fieldkeys" -> <<HeadOf("ShowFieldKeysStatement", <<Kw("SHOW"), Kw("FIELD"), Kw("KEYS")>>), OnDb, FromPlain \cup {Skip}, OrderFew>> \o LimOff
    [] kind = "names" -> <<{O([k |-> "ShowGrantsForUserStatement", Name |-> n.v], <<Kw("SHOW"), Kw("GRANTS"), Kw("FOR"), n.t>>) : n \in {[v |-> "u", t |-> Id("u")], [v |-> "my u", t |-> QId("my u")]}}
                           \cup {O([k |-> "DropDatabaseStatement", Name |-> "d"], <<Kw("DROP"), Kw("DATABASE"), Id("d")>>),
                                 O([k |-> "DropMeasurementStatement", Name |-> "my m"], <<Kw("DROP"), Kw("MEASUREMENT"), QId("my m")>>),
                                 O([k |-> "DropUserStatement", Name |-> "u"], <<Kw("DROP"), Kw("USER"), Id("u")>>),
                                 O([k |-> "DropShardStatement", ID |-> "7"], <<Kw("DROP"), Kw("SHARD"), Int("7")>>),
                                 O([k |-> "DropShardStatement", ID |-> "18446744073709551615"], <<Kw("DROP"), Kw("SHARD"), Int("18446744073709551615")>>),
                                 O([k |-> "DropRetentionPolicyStatement", Name |-> "rp", Database |-> "db"], <<Kw("DROP"), Kw("RETENTION"), Kw("POLICY"), Id("rp"), Kw("ON"), Id("db")>>),
                                 O([k |-> "DropContinuousQueryStatement", Name |-> "cq", Database |-> "db"], <<Kw("DROP"), Kw("CONTINUOUS"), Kw("QUERY"), Id("cq"), Kw("ON"), Id("db")>>),
                                 O([k |-> "DropSubscriptionStatement", Name |-> "s", Database |-> "db", RetentionPolicy |-> "rp"], <<Kw("DROP"), Kw("SUBSCRIPTION"), Id("s"), Kw("ON"), Id("db"), PT("."), IdT("rp")>>),
                                 O([k |-> "SetPasswordUserStatement", Name |-> "u", Password |-> "p w"], <<Kw("SET"), Kw("PASSWORD"), Kw("FOR"), Id("u"), P("="), Str("p w")>>),
                                 O([k |-> "RevokeStatement", Privilege |-> "WRITE", On |-> "db", User |-> "u"], <<Kw("REVOKE"), Kw("WRITE"), Kw("ON"), Id("db"), Kw("FROM"), Id("u")>>),
                                 O([k |-> "RevokeStatement", Privilege |-> "ALL PRIVILEGES", On |-> "db", User |-> "u"], <<Kw("REVOKE"), Kw("ALL"), Kw("ON"), Id("db"), Kw("FROM"), Id("u")>>),
                                 O([k |-> "RevokeAdminStatement", User |-> "u"], <<Kw("REVOKE"), Kw("ALL"), Kw("PRIVILEGES"), Kw("FROM"), Id("u")>>),
                                 O([k |-> "RevokeAdminStatement", User |-> "my u"], <<Kw("REVOKE"), Kw("ALL"), Kw("FROM"), QId("my u")>>)}>>
    [] kind = "cq" -> <<HeadOf("CreateContinuousQueryStatement", <<Kw("CREATE"), Kw("CONTINUOUS"), Kw("QUERY")>>),
                        {O([Name |-> "cq", Database |-> "db"], <<Id("cq"), Kw("ON"), Id("db")>>), O([Name |-> "my cq", Database |-> "my db"], <<QId("my cq"), Kw("ON"), QId("my db")>>)},
                        {Skip, O(F1("ResampleEvery", NsOf("10s")), <<Kw("RESAMPLE"), Kw("EVERY"), Dur("10s")>>), O(F1("ResampleFor", NsOf("2m")), <<Kw("RESAMPLE"), Kw("FOR"), Dur("2m")>>),
                         O(F1("ResampleEvery", NsOf("10s")) @@ F1("ResampleFor", NsOf("2m")), <<Kw("RESAMPLE"), Kw("EVERY"), Dur("10s"), Kw("FOR"), Dur("2m")>>)},
                        {O(F1("Source", s.a), <<Kw("BEGIN")>> \o s.t \o <<Kw("END")>>) :
                           s \in {CqSelect(g, c) : g \in {[a |-> <<>>, t |-> <<>>], [a |-> <<Dim(Ref("h"))>>, t |-> <<PT(","), Id("h")>>]}, c \in {Skip, WhereOf(CondA)}}
                                 \cup {[a |-> [k |-> "SelectStatement", Fields |-> <<Field(Ref("v"))>>, IsRawQuery |-> TRUE,
                                                Target |-> [k |-> "Target", Measurement |-> MeasT(Meas("", "", "t"))], Sources |-> <<Meas("", "", "m")>>],
                                        t |-> <<Kw("SELECT"), Id("v"), Kw("INTO"), Id("t"), Kw("FROM"), Id("m")>>]}}>>
    [] kind = "createdb" -> <<HeadOf("CreateDatabaseStatement", <<Kw("CREATE"), Kw("DATABASE")>>), {O(F1("Name", "d"), <<Id("d")>>), O(F1("Name", "my d"), <<QId("my d")>>)},
                              {Skip, O(F1("RetentionPolicyCreate", TRUE), <<Kw("WITH")>>)},
                              DurOpt(<<Kw("DURATION")>>, "RetentionPolicyDuration", "1d") \cup {O(F1("RetentionPolicyDuration", "0"), <<Kw("DURATION"), Kw("INF")>>),
                                                                                        O(F1("RetentionPolicyDuration", NsOf("1500ms")), <<Kw("DURATION"), Dur("1500ms")>>)},
                              {Skip, O(F1("RetentionPolicyReplication", "2"), <<Kw("REPLICATION"), Int("2")>>)},
                              DurOpt(<<Kw("SHARD"), Kw("DURATION")>>, "RetentionPolicyShardGroupDuration", "1h"),
                              DurOpt(<<Kw("FUTURE"), Kw("LIMIT")>>, "FutureWriteLimit", "2h"),
                              DurOpt(<<Kw("PAST"), Kw("LIMIT")>>, "PastWriteLimit", "3h"),
                              {Skip, O(F1("RetentionPolicyName", "rp"), <<Kw("NAME"), Id("rp")>>)}>>
    [] kind = "createuser" -> <<HeadOf("CreateUserStatement", <<Kw("CREATE"), Kw("USER")>>), {O(F1("Name", "u"), <<Id("u")>>), O(F1("Name", "my u"), <<QId("my u")>>)},
                                {O(F1("Password", "p"), <<Kw("WITH"), Kw("PASSWORD"), Str("p")>>), O(F1("Password", "it's"), <<Kw("WITH"), Kw("PASSWORD"), Str("it's")>>)},
                                {Skip, O(F1("Admin", TRUE), <<Kw("WITH"), Kw("ALL"), Kw("PRIVILEGES")>>)}>>
    [] kind = "createrp" -> <<HeadOf("CreateRetentionPolicyStatement", <<Kw("CREATE"), Kw("RETENTION"), Kw("POLICY")>>),
                              {O([Name |-> "rp", Database |-> "db"], <<Id("rp"), Kw("ON"), Id("db")>>), O([Name |-> "my rp", Database |-> "my db"], <<QId("my rp"), Kw("ON"), QId("my db")>>)},
                              {O(F1("Duration", NsOf("1d")), <<Kw("DURATION"), Dur("1d")>>), O(<<>>, <<Kw("DURATION"), Kw("INF")>>), O(F1("Duration", NsOf("1h30m")), <<Kw("DURATION"), Dur("1h30m")>>)},
                              {O(F1("Replication", "2"), <<Kw("REPLICATION"), Int("2")>>)},
                              DurOpt(<<Kw("SHARD"), Kw("DURATION")>>, "ShardGroupDuration", "1h"),
                              {Skip, O(F1("Default", TRUE), <<Kw("DEFAULT")>>)},
                              DurOpt(<<Kw("FUTURE"), Kw("LIMIT")>>, "FutureWriteLimit", "2h"),
                              DurOpt(<<Kw("PAST"), Kw("LIMIT")>>, "PastWriteLimit", "3h")>>
    [] kind = "createsub" -> <<HeadOf("CreateSubscriptionStatement", <<Kw("CREATE"), Kw("SUBSCRIPTION")>>),
                               {O([Name |-> "s", Database |-> "db", RetentionPolicy |-> "rp"], <<Id("s"), Kw("ON"), Id("db"), PT("."), IdT("rp")>>),
                                O([Name |-> "my s", Database |-> "my db", RetentionPolicy |-> "my rp"], <<QId("my s"), Kw("ON"), QId("my db"), PT("."), QIdT("my rp")>>)},
                               {O(F1("Mode", "ALL"), <<Kw("DESTINATIONS"), Kw("ALL")>>), O(F1("Mode", "ANY"), <<Kw("DESTINATIONS"), Kw("ANY")>>)},
                               {O(F1("Destinations", <<"udp://h:1">>), <<Str("udp://h:1")>>), O(F1("Destinations", <<"a", "b'c">>), <<Str("a"), PT(","), Str("b'c")>>)}>>
    [] kind = "explain" -> <<HeadOf("ExplainStatement", <<Kw("EXPLAIN")>>), {Skip, O(F1("Analyze", TRUE), <<Kw("ANALYZE")>>)}, {Skip, O(F1("Verbose", TRUE), <<Kw("VERBOSE")>>)},
                             {O(F1("Statement", SimpleSel("a", Meas("", "", "m"))), <<Kw("SELECT"), Id("a"), Kw("FROM"), Id("m")>>),
                              O(F1("Statement", [k |-> "SelectStatement", Fields |-> <<Field(Call("mean", <<Ref("v")>>))>>, Sources |-> <<SubSrc1.a>>] @@ WhereOf(CondA).a @@ GroupOf(<<TimeDim("1m")>>, <<>>).a),
                                <<Kw("SELECT"), Id("mean"), PT("("), IdT("v"), PT(")"), Kw("FROM")>> \o SubSrc1.t \o WhereOf(CondA).t \o <<Kw("GROUP"), Kw("BY")>> \o TimeToks("1m"))}>>
    [] kind = "grant" -> <<{O([k |-> "GrantStatement", Privilege |-> p.v, On |-> "db", User |-> "u"], <<Kw("GRANT")>> \o p.t \o <<Kw("ON"), Id("db"), Kw("TO"), Id("u")>>) :
                              p \in {[v |-> "READ", t |-> <<Kw("READ")>>], [v |-> "WRITE", t |-> <<Kw("WRITE")>>], [v |-> "ALL PRIVILEGES", t |-> <<Kw("ALL")>>],
                                     [v |-> "ALL PRIVILEGES", t |-> <<Kw("ALL"), Kw("PRIVILEGES")>>]}}
                           \cup {O([k |-> "GrantAdminStatement", User |-> "u"], <<Kw("GRANT"), Kw("ALL"), Kw("PRIVILEGES"), Kw("TO"), Id("u")>>),
                                 O([k |-> "GrantAdminStatement", User |-> "my u"], <<Kw("GRANT"), Kw("ALL"), Kw("TO"), QId("my u")>>),
                                 O([k |-> "GrantStatement", Privilege |-> "READ", On |-> "my db", User |-> "my u"], <<Kw("GRANT"), Kw("READ"), Kw("ON"), QId("my db"), Kw("TO"), QId("my u")>>)}>>
    [] kind = "kill" -> <<{O([k |-> "KillQueryStatement", QueryID |-> "4"], <<Kw("KILL"), Kw("QUERY"), Int("4")>>),
                           O([k |-> "KillQueryStatement", QueryID |-> "4", Host |-> "h1"], <<Kw("KILL"), Kw("QUERY"), Int("4"), Kw("ON"), Id("h1")>>),
                           O([k |-> "KillQueryStatement", QueryID |-> "18446744073709551615", Host |-> "my host"], <<Kw("KILL"), Kw("QUERY"), Int("18446744073709551615"), Kw("ON"), QId("my host")>>)}>>
    [] kind = "alter" -> <<HeadOf("AlterRetentionPolicyStatement", <<Kw("ALTER"), Kw("RETENTION"), Kw("POLICY")>>),
                           {O([Name |-> "rp", Database |-> "db"], <<Id("rp"), Kw("ON"), Id("db")>>), O([Name |-> "default", Database |-> "my db"], <<Kw("DEFAULT"), Kw("ON"), QId("my db")>>)}>>
=============================================================================
