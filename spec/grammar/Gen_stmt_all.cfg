SPECIFICATION Spec
CONSTANTS
 KindsUsed = {"selectone", "delete", "dropseries", "showseries", "seriescard", "meascard", "showmeas", "simple", "showrp", "tagkeycard", "tagkeys", "tagvalues", "tagvaluescard", "fieldkeycard", "fieldkeys", "names", "cq", "createdb", "createuser", "createrp", "createsub", "explain", "grant", "alter", "kill"}
CHECK_DEADLOCK FALSE
