----------------------------- MODULE Judge_c01 -----------------------------
(* Pass V for C01: the real parser's AST for every generated statement text is compared
   with the AST the generator rendered the text from (the denotation relation of Grammar).
   Record: [id, kind, sub, want, dev?, obs |-> [text, ast | err | panic]]
   classes: rejected (a statement of the grammar was not accepted), wrong-ast, panic.
   Block-comment gap variants belong to C16 and are not judged here.                   *)
EXTENDS Naturals, Sequences, FiniteSets, TLC, Json, CSV, IOUtils

VARIABLES l, nt
vars == <<l, nt>>
Trace == ndJsonDeserialize(IOEnv.OBS_FILE)
Has(r, f) == f \in DOMAIN r
V(c, s) == [class |-> c, sig |-> s]
\* TLC's "=" is partial: comparing a string with a record or a boolean is an evaluation error, and
\* the "Val" field of literals is polymorphic (string, boolean, record).  Projected ASTs are
\* therefore compared structurally, kinds first (total).
KindOfV(x) == LET c == SubSeq(ToString(x), 1, 1) IN IF c = "[" THEN "rec" ELSE IF c = "<" THEN "seq" ELSE "atom"
RECURSIVE SameAst(_, _)
SameAst(a, b) == LET ka == KindOfV(a) kb == KindOfV(b) IN
  IF ka # kb THEN FALSE
  ELSE IF ka = "atom" THEN ToString(a) = ToString(b)
  ELSE DOMAIN a = DOMAIN b /\ \A f \in DOMAIN a : SameAst(a[f], b[f])

Sig(r) == r.kind \o (IF r.sub = "" THEN "" ELSE "/" \o r.sub) \o (IF Has(r, "dev") THEN " " \o r.dev.what ELSE "")
IsCommentVariant(r) == Has(r, "dev") /\ r.dev.what = "gap" /\ r.dev.comment

Verdicts(r) ==
  LET o == r.obs IN
  IF IsCommentVariant(r) THEN {}
  ELSE IF Has(o, "panic") \/ Has(o, "harness_panic") THEN {V("panic", Sig(r))}
  ELSE IF Has(o, "err") THEN {V("rejected", Sig(r))}
  ELSE IF ~SameAst(o.ast, r.want) THEN {V("wrong-ast", Sig(r))}
  ELSE {}

\* non-trivial: the statement has at least two optional clauses / nodes beyond its head
NonTrivial(r) == ~IsCommentVariant(r) /\ Cardinality(DOMAIN r.want) >= 3

Init == l = 1 /\ nt = 0
Step == /\ l <= Len(Trace)
        /\ LET r == Trace[l] IN
             /\ \A v \in Verdicts(r) : CSVWrite("%1$s", <<ToJson([id |-> r.id, class |-> v.class, sig |-> v.sig])>>, IOEnv.VERDICT_FILE)
             /\ nt' = nt + (IF NonTrivial(r) THEN 1 ELSE 0)
        /\ l' = l + 1
Finish == /\ l = Len(Trace) + 1
          /\ CSVWrite("%1$s", <<ToJson([judged |-> Len(Trace), nontrivial |-> nt])>>, IOEnv.STATS_FILE)
          /\ l' = l + 1 /\ UNCHANGED nt
Next == Step \/ Finish
Spec == Init /\ [][Next]_vars
Accepted == TLCGet("stats").diameter = Len(Trace) + 2
=============================================================================
