SPECIFICATION Spec
CONSTANTS
  Procs = {p1, p2, p3}
  OpsUsed <- WithControls
  NCalls = 2
  SharedAst = FALSE
  ExpectRaceFree = TRUE
SYMMETRY Perms
INVARIANTS TypeOK NoRace SameAsSequential
CHECK_DEADLOCK FALSE
