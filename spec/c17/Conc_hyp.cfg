SPECIFICATION Spec
CONSTANTS
  Procs = {p1, p2, p3}
  OpsUsed <- WithHyp
  NCalls = 2
  SharedAst = TRUE
  ExpectRaceFree = FALSE
SYMMETRY Perms
INVARIANTS TypeOK SameAsSequential
CHECK_DEADLOCK FALSE
