SPECIFICATION Spec
CONSTANTS
  Procs = {p1, p2, p3}
  OpsUsed <- ListedOps
  NCalls = 2
  SharedAst = TRUE
  ExpectRaceFree = TRUE
SYMMETRY Perms
INVARIANTS TypeOK NoRace SameAsSequential
CHECK_DEADLOCK FALSE
