----------------------------- MODULE Judge_c17 -----------------------------
(* Pass V for C17.  One record per case run by the driver built with -race.

   The property (properties.jsonl, C17), for the operations it lists (Footprints!ListedOps):
     (i)  no data race            - the race detector recorded no report while the case ran
                                    (obs.races / obs.confirm_races = 0), and the runtime did not
                                    abort the process (obs.crash: "concurrent map ..." faults)
     (ii) every result equals the result of the same call made alone
                                  - every hash in obs.res[t].got equals obs.res[t].twin

   kind "sched":  g goroutines released from a barrier, goroutine t runs res[t].op reps times.
   kind "alone":  pass V(a): the operation run alone with snapshots before/after (obs.writes =
                  names of the locations whose fingerprint changed), run again (again_equal),
                  compared with a twin on a fresh AST (twin_equal), then run on three unordered
                  goroutines under the detector (confirm_races, confirm_equal).

   Binding of the design spec (Footprints!WriteSet) to the code - never an alarm by itself:
     - a listed operation whose write set is not empty (alone), or a shared AST that changed
       during a schedule of listed operations, although the detector finds nothing to report
       (the write is synchronised - sync.Once, a mutex, an atomic - or only one goroutine of
       the schedule performed it and the unordered re-run of the "alone" case decides) left
       the footprint table but kept the property:         drift:write-without-report
       When the write is NOT synchronised the unordered goroutines of the same "alone" case
       conflict on it and the detector's report is the verdict (class race), independent of
       timing: a happens-before detector relates the accesses even when they do not overlap.
     - a package table that changes during a cold schedule without a report: drift:table-initialised-late
     - a control operation (GroupByInterval, GroupByOffset - NOT in the property) whose write
       set is not within {ast.groupByInterval}:           drift:footprint
   Anything a schedule that contains a control operation shows (reports, differing results,
   a changed AST) is the expected consequence of the memo: counted as control_races in the
   statistics (class control:memo-race in the reports), never written as a verdict.

   verdict classes: race (sig = the innermost package frames of the two accesses, or the
   operations of the schedule), result-differs (sig = operation), harness-panic.          *)
EXTENDS Footprints, Integers, TLC, Json, CSV, IOUtils

VARIABLES l, st
vars == <<l, st>>

Trace == ndJsonDeserialize(IOEnv.OBS_FILE)
Has(r, f) == f \in DOMAIN r
V(c, s) == [class |-> c, sig |-> s]

RECURSIVE Join(_, _)
Join(s, i) == IF i > Len(s) THEN "" ELSE (IF i > 1 THEN "|" ELSE "") \o s[i] \o Join(s, i + 1)

OpsOf(r) == SeqToSet(r.ops)
Known(r) == OpsOf(r) \subseteq AllOps
AllListed(r) == OpsOf(r) \subseteq ListedOps
RaceSig(r, o) == IF Has(o, "race_sig") THEN (IF o.race_sig # "" THEN o.race_sig ELSE Join(r.ops, 1)) ELSE Join(r.ops, 1)

\* ------------------------------------------------------------------ kind "alone"
AloneRaces(o) == o.confirm_races > 0
AloneDiffers(o) == o.again_equal = 0 \/ o.twin_equal = 0 \/ o.confirm_equal = 0
AloneVerdicts(r, o) ==
  LET op == r.ops[1] ws == SeqToSet(o.writes) IN
  IF op \in ListedOps THEN
       (IF AloneRaces(o) THEN {V("race", RaceSig(r, o))} ELSE {})
       \cup (IF AloneDiffers(o) THEN {V("result-differs", op)} ELSE {})
       \cup (IF ws # WriteSet(op) /\ ~AloneRaces(o) THEN {V("drift:write-without-report", op)} ELSE {})
  ELSE IF ws \subseteq WriteSet(op) THEN {} ELSE {V("drift:footprint", op)}

\* ------------------------------------------------------------------ kind "sched"
Differing(o) == {o.res[t].op : t \in {u \in DOMAIN o.res : o.res[u].got # <<o.res[u].twin>>}}
Disturbed(o) == o.races > 0 \/ Differing(o) # {} \/ o.ast_changed # <<>>
SchedVerdicts(r, o) ==
  IF Has(o, "crash") THEN (IF AllListed(r) THEN {V("race", "fatal:" \o o.crash)} ELSE {})
  ELSE IF ~AllListed(r) THEN {}                      \* control schedule: counted, see Control
  ELSE (IF o.races > 0 THEN {V("race", RaceSig(r, o))} ELSE {})
       \cup {V("result-differs", op) : op \in Differing(o)}
       \cup (IF o.ast_changed # <<>> /\ o.races = 0 THEN {V("drift:write-without-report", Join(r.ops, 1))} ELSE {})
       \cup (IF o.lang_changed = 1 /\ o.races = 0 THEN {V("drift:table-initialised-late", "Language")} ELSE {})

Verdicts(r) ==
  LET o == r.obs IN
  IF Has(o, "harness_panic") \/ Has(o, "hang") THEN {V("harness-panic", r.kind)}
  ELSE IF r.kind = "selftest" THEN {}
  ELSE IF ~Known(r) THEN {V("harness-panic", "unknown operation")}
  ELSE IF r.kind = "alone" THEN AloneVerdicts(r, o)
  ELSE SchedVerdicts(r, o)

\* expected consequence of the memo, on a case that contains a control operation
Control(r) ==
  LET o == r.obs IN
  IF Has(o, "harness_panic") \/ Has(o, "hang") \/ r.kind = "selftest" THEN FALSE
  ELSE IF ~Known(r) \/ AllListed(r) THEN FALSE
  ELSE IF r.kind = "alone" THEN AloneRaces(o)
  ELSE IF Has(o, "crash") THEN TRUE ELSE Disturbed(o)
\* the memo write of the footprint table was observed on the code
MemoSeen(r) ==
  r.kind = "alone" /\ ~Has(r.obs, "harness_panic") /\ Known(r) /\ ~AllListed(r)
  /\ SeqToSet(r.obs.writes) = WriteSet(r.ops[1])

\* non-trivial: the footprint table says that two goroutines of the case touch a common
\* shared location (a package table, or a node of the shared AST); an "alone" case is
\* non-trivial when the operation touches any shared location at all
Common(a, b, sharing) == {x \in Touches(a) \cap Touches(b) : sharing = "shared" \/ x \notin AstLocs}
NonTrivial(r) ==
  LET o == r.obs IN
  IF Has(o, "harness_panic") \/ Has(o, "hang") \/ Has(o, "crash") \/ r.kind = "selftest" \/ ~Known(r) THEN FALSE
  ELSE IF r.kind = "alone" THEN Touches(r.ops[1]) # {}
  ELSE \E t1 \in DOMAIN o.res, t2 \in DOMAIN o.res : t1 < t2 /\ Common(o.res[t1].op, o.res[t2].op, r.sharing) # {}

B(x) == IF x THEN 1 ELSE 0
Init == l = 1 /\ st = [nontrivial |-> 0, control_races |-> 0, memo_writes |-> 0, listed_scheds |-> 0,
                       control_scheds |-> 0, alone_cases |-> 0, cold_scheds |-> 0]
Step == /\ l <= Len(Trace)
        /\ LET r == Trace[l] IN
             /\ \A v \in Verdicts(r) : CSVWrite("%1$s", <<ToJson([id |-> r.id, class |-> v.class, sig |-> v.sig])>>, IOEnv.VERDICT_FILE)
             /\ st' = [nontrivial     |-> st.nontrivial + B(NonTrivial(r)),
                       control_races  |-> st.control_races + B(Control(r)),
                       memo_writes    |-> st.memo_writes + B(MemoSeen(r)),
                       listed_scheds  |-> st.listed_scheds + B(r.kind = "sched" /\ Known(r) /\ AllListed(r)),
                       control_scheds |-> st.control_scheds + B(r.kind = "sched" /\ Known(r) /\ ~AllListed(r)),
                       alone_cases    |-> st.alone_cases + B(r.kind = "alone"),
                       cold_scheds    |-> st.cold_scheds + B(r.kind = "sched" /\ r.cold = 1)]
        /\ l' = l + 1
Finish == /\ l = Len(Trace) + 1
          /\ CSVWrite("%1$s", <<ToJson([judged |-> Len(Trace)] @@ st)>>, IOEnv.STATS_FILE)
          /\ l' = l + 1 /\ UNCHANGED st
Next == Step \/ Finish
Spec == Init /\ [][Next]_vars
Accepted == TLCGet("stats").diameter = Len(Trace) + 2
=============================================================================
