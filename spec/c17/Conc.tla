-------------------------------- MODULE Conc --------------------------------
(* C17 design spec, part 2 (pass M): goroutines running public operations of the package at
   ACCESS granularity.

   Processes Procs (goroutines released from a barrier: the package tables are initialised
   before any of them starts, and nothing orders them afterwards).  Each process performs
   NCalls operations chosen from OpsUsed; an operation is the sequence of accesses of its
   footprint (module Footprints).  A process HOLDS the access its program counter points at,
   from the moment it arrives there until it steps past it: the in-flight accesses of a state
   are InFlight.

     Begin(p, op)   process p starts its next call
     Access(p)      p performs the access it holds (reads flow into the result, writes change mem)
     End(p)         p returns; its result is compared with the result of the same call made alone

   Properties
     NoRace            no two different processes hold conflicting accesses (same shared
                       location, at least one write) - nothing orders them, so this is a data race
     SameAsSequential  every returned result equals the result the same call gives when made
                       alone (run by itself on the initial memory)

   With SharedAst = TRUE all processes work on one AST; with FALSE each has its own (AST
   locations are then private to the process).

   Configurations (checks/c17.py):
     listed     OpsUsed = the property's operations, shared AST: both invariants hold
                (race-free iff no operation of the set writes a shared location: ASSUME below)
     control    + GroupByInterval / GroupByOffset, shared AST: TLC exhibits the race on
                ast.groupByInterval (EXPECTED counterexample: why the property does not list them)
     private    + GroupByInterval / GroupByOffset, private ASTs: both invariants hold again
     hyp        a hypothetical reused package-level buffer: SameAsSequential is violated
                (EXPECTED counterexample: what the second half of the property forbids)      *)
EXTENDS Footprints, TLC

CONSTANTS Procs,       \* set of model values
          OpsUsed,     \* operations the processes may call
          NCalls,      \* calls per process
          SharedAst,   \* one AST for all, or one per process
          ExpectRaceFree

VARIABLES calls,  \* calls[p]: number of completed calls
          cur,    \* cur[p]: operation in progress, or "none"
          idx,    \* idx[p]: index of the access p holds
          acc,    \* acc[p]: values read so far that flow into the result
          mem,    \* contents of the shared locations
          bad     \* some call returned something else than when made alone
vars == <<calls, cur, idx, acc, mem, bad>>

\* Accesses to call-local state commute with every step of every other process and can never
\* take part in a conflict, so the model steps over them (a sound partial-order reduction): FP
\* is the footprint without them, tabulated once.
NotLocal(a) == a.loc # "local"
FP == [op \in AllOps \cup HypOps |-> SelectSeq(Footprint(op), NotLocal)]

\* one representative per distinct footprint (operations with equal footprints behave alike here)
Ord(op) == CHOOSE i \in 1..NOps + 1 : IF op \in AllOps THEN OpSeq[i] = op ELSE i = NOps + 1
Reps == {o \in OpsUsed : \A o2 \in OpsUsed : FP[o2] = FP[o] => Ord(o) <= Ord(o2)}

\* identity of a location as seen by process p
NoProc == "shared"
LocId(p, l) == IF l \in AstLocs /\ ~SharedAst THEN <<l, p>> ELSE <<l, NoProc>>
\* only locations that some operation of the table writes need a cell in mem; every other
\* location keeps its initial contents for ever (that is what "read-only afterwards" means)
Writable == UNION {WriteSet(op) : op \in AllOps \cup HypOps}
LocIds == {<<l, NoProc>> : l \in Writable} \cup {<<l, p>> : l \in Writable \cap AstLocs, p \in Procs}

\* initial contents: tables and nodes hold 1, the GROUP BY clause holds the interval (2), the
\* memo and the hypothetical buffer are empty (0)
InitVal(l) == IF l \in {Memo, HypBuf} THEN 0 ELSE IF l = "ast.Dimensions" THEN 2 ELSE 1
InitMem == [id \in LocIds |-> InitVal(id[1])]
Read(m, p, l) == IF l \in Writable THEN m[LocId(p, l)] ELSE InitVal(l)

\* value stored by a write: the memo receives the interval just read from the GROUP BY clause,
\* the hypothetical buffer receives the caller's own text
WVal(op, p, ac) == IF op \in ControlOps THEN 2 ELSE p

\* result of a call from the values it read.  The memo operations return the memo when it is
\* set and the interval from the GROUP BY clause otherwise (ast.go: GroupByInterval)
Result(op, ac) == IF op \in ControlOps THEN (IF ac[1] # 0 THEN <<ac[1]>> ELSE <<ac[2]>>) ELSE ac

RECURSIVE RunAlone(_, _, _, _, _)
RunAlone(op, p, i, m, ac) ==
  IF i > Len(FP[op]) THEN Result(op, ac)
  ELSE LET a == FP[op][i] IN
       IF a.mode = "r" THEN RunAlone(op, p, i + 1, m, IF a.inres THEN Append(ac, Read(m, p, a.loc)) ELSE ac)
       ELSE RunAlone(op, p, i + 1, [m EXCEPT ![LocId(p, a.loc)] = WVal(op, p, ac)], ac)
AloneT == [op \in AllOps \cup HypOps, p \in Procs |-> RunAlone(op, p, 1, InitMem, <<>>)]   \* tabulated once
Alone(op, p) == AloneT[op, p]

Init == /\ calls = [p \in Procs |-> 0]
        /\ cur = [p \in Procs |-> "none"]
        /\ idx = [p \in Procs |-> 0]
        /\ acc = [p \in Procs |-> <<>>]
        /\ mem = InitMem
        /\ bad = FALSE

Begin(p, op) == /\ cur[p] = "none" /\ calls[p] < NCalls
                /\ cur' = [cur EXCEPT ![p] = op]
                /\ idx' = [idx EXCEPT ![p] = 1]
                /\ acc' = [acc EXCEPT ![p] = <<>>]
                /\ UNCHANGED <<calls, mem, bad>>

Access(p) == /\ cur[p] # "none" /\ idx[p] <= Len(FP[cur[p]])
             /\ LET a == FP[cur[p]][idx[p]] IN
                  IF a.mode = "r"
                       THEN /\ acc' = [acc EXCEPT ![p] = IF a.inres THEN Append(@, Read(mem, p, a.loc)) ELSE @]
                            /\ UNCHANGED mem
                       ELSE /\ mem' = [mem EXCEPT ![LocId(p, a.loc)] = WVal(cur[p], p, acc[p])]
                            /\ UNCHANGED acc
             /\ idx' = [idx EXCEPT ![p] = @ + 1]
             /\ UNCHANGED <<calls, cur, bad>>

End(p) == /\ cur[p] # "none" /\ idx[p] = Len(FP[cur[p]]) + 1
          /\ bad' = (bad \/ Result(cur[p], acc[p]) # Alone(cur[p], p))
          /\ cur' = [cur EXCEPT ![p] = "none"]
          /\ idx' = [idx EXCEPT ![p] = 0]
          /\ acc' = [acc EXCEPT ![p] = <<>>]
          /\ calls' = [calls EXCEPT ![p] = @ + 1]
          /\ UNCHANGED mem

Next == \E p \in Procs : (\E op \in Reps : Begin(p, op)) \/ Access(p) \/ End(p)
Spec == Init /\ [][Next]_vars

\* ------------------------------------------------------------------ properties
Holding(p) == cur[p] # "none" /\ idx[p] >= 1 /\ idx[p] <= Len(FP[cur[p]])
Held(p) == FP[cur[p]][idx[p]]
InFlight == {[proc |-> p, loc |-> LocId(p, Held(p).loc), mode |-> Held(p).mode] : p \in {q \in Procs : Holding(q)}}
Conflict(a, b) == /\ a.proc # b.proc
                  /\ a.loc = b.loc
                  /\ "w" \in {a.mode, b.mode}
NoRace == \A p \in Procs, q \in Procs :
            (p # q /\ Holding(p) /\ Holding(q)) =>
               ~Conflict([proc |-> p, loc |-> LocId(p, Held(p).loc), mode |-> Held(p).mode],
                         [proc |-> q, loc |-> LocId(q, Held(q).loc), mode |-> Held(q).mode])
SameAsSequential == ~bad

TypeOK == /\ \A p \in Procs : calls[p] \in 0..NCalls /\ cur[p] \in Reps \cup {"none"}
          /\ \A id \in LocIds : mem[id] \in {0, 1, 2} \cup Procs

\* the static reading of the footprint table agrees with what this configuration expects
ASSUME StaticRaceFree(OpsUsed, SharedAst) = ExpectRaceFree

Perms == Permutations(Procs)
WithControls == ListedOps \cup ControlOps
WithHyp == {"Sanitize", "QuoteString", "HypBufferedSanitize"}
=============================================================================
