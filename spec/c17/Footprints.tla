----------------------------- MODULE Footprints -----------------------------
(* C17 design spec, part 1: the operation -> footprint table.

   A footprint is the sequence of accesses one public call makes to abstract LOCATIONS:

     package tables   Language (parse_tree.go), keywords (token.go: keywords + tokens),
                      qsReplacer, qiReplacer, datePatterns (parser.go), sanitizePatterns
                      (sanitize.go) - built by init() before any goroutine of a client runs,
                      read-only afterwards;
     "local"          state allocated by the call itself (Parser, Scanner, bufScanner, reader,
                      strings.Builder, result trees) - fresh per call, never shared;
     AST nodes        parts of one parsed statement: ast.Fields, ast.Condition, ast.Sources,
                      ast.Dimensions, ast.rest (Target, SortFields, Limit.., Fill.., Location,
                      the other statements of the Query);
     the memo         ast.groupByInterval - the unexported SelectStatement field written by
                      GroupByInterval (and through it GroupByOffset);
     pkg.buffer       a HYPOTHETICAL reused package-level buffer; only the hypothetical
                      operation HypBufferedSanitize touches it (model explanation of the second
                      half of the property; never generated, never judged).

   The table is transcribed from the code (ast.go, parser.go, scanner.go, sanitize.go) and is
   BOUND to it by pass V: the write set the driver observes for every operation run alone
   (deep snapshot of the AST incl. unexported fields + fingerprint of the package tables) must
   be WriteSet(op); the race detector binds the read/write conflicts.

   Kind(op): "indep"   - the property's "parse, print, quote, format and sanitize" (no AST shared)
             "ast"     - the property's "print, clone, walk, evaluate, reduce, expand wildcards
                         on, and query names and privileges of one shared AST"
             "control" - NOT in the property's list: GroupByInterval / GroupByOffset write the memo.
                         They are in the table to show why they are excluded and to bind the
                         table to the code in the other direction (their write set must be
                         observed, too).
             "hyp"     - hypothetical, model only.                                          *)
EXTENDS Naturals, Sequences, FiniteSets

R(l)  == [loc |-> l, mode |-> "r", inres |-> TRUE]     \* read that flows into the result
Rn(l) == [loc |-> l, mode |-> "r", inres |-> FALSE]    \* read that does not (struct copy of the memo in Clone)
W(l)  == [loc |-> l, mode |-> "w", inres |-> FALSE]
Lc    == [loc |-> "local", mode |-> "w", inres |-> FALSE]

Tables   == {"Language", "keywords", "qsReplacer", "qiReplacer", "datePatterns", "sanitizePatterns"}
AstNodes == {"ast.Fields", "ast.Condition", "ast.Sources", "ast.Dimensions", "ast.rest"}
Memo     == "ast.groupByInterval"
HypBuf   == "pkg.buffer"
AstLocs    == AstNodes \cup {Memo}
SharedLocs == Tables \cup AstLocs \cup {HypBuf}

\* the order fixes the index used by the schedule generator
OpSeq == << "ParseQuery", "ParseStatement", "ParseExpr", "QuoteString", "QuoteIdent", "IdentNeedsQuotes",
            "FormatDuration", "ParseDuration", "Sanitize", "Scan", "ScanString",
            "String", "Clone", "CloneExpr", "Walk", "WalkFunc", "Eval", "EvalBool", "EvalType", "Reduce",
            "StmtReduce", "RewriteFields", "ColumnNames", "RequiredPrivileges", "ConditionExpr", "HasWildcard",
            "FieldExprByName", "FieldNames", "Measurements", "ExprNames", "TimeAscending",
            "ParserReask", "RewriteFieldsUse", "ParseWithParams", "ReduceDerived",
            "GroupByInterval", "GroupByOffset" >>
NOps == Len(OpSeq)
AllOps == {OpSeq[i] : i \in 1..NOps}
HypOps == {"HypBufferedSanitize"}

Kind(op) ==
  IF op \in {"ParseQuery", "ParseStatement", "ParseExpr", "QuoteString", "QuoteIdent", "IdentNeedsQuotes",
             "FormatDuration", "ParseDuration", "Sanitize", "Scan", "ScanString", "ParserReask", "ParseWithParams"} THEN "indep"
  ELSE IF op \in {"GroupByInterval", "GroupByOffset"} THEN "control"
  ELSE IF op \in HypOps THEN "hyp"
  ELSE "ast"

\* the verb of the property text under which the operation falls
Verb(op) ==
  CASE op \in {"ParseQuery", "ParseStatement", "ParseExpr", "ParseDuration", "Scan", "ScanString", "ParserReask", "ParseWithParams"} -> "parse"
    [] op \in {"QuoteString", "QuoteIdent", "IdentNeedsQuotes"} -> "quote"
    [] op = "FormatDuration" -> "format"
    [] op = "Sanitize" -> "sanitize"
    [] op = "String" -> "print"
    [] op \in {"Clone", "CloneExpr"} -> "clone"
    [] op \in {"Walk", "WalkFunc"} -> "walk"
    [] op \in {"Eval", "EvalBool", "EvalType"} -> "evaluate"
    [] op \in {"Reduce", "StmtReduce", "ConditionExpr", "ReduceDerived"} -> "reduce"
    [] op \in {"RewriteFields", "HasWildcard", "RewriteFieldsUse"} -> "expand wildcards on"
    [] op \in {"ColumnNames", "FieldExprByName", "FieldNames", "Measurements", "ExprNames", "TimeAscending"} -> "query names"
    [] op = "RequiredPrivileges" -> "query privileges"
    [] OTHER -> "(not in the property)"

ListedOps  == {op \in AllOps : Kind(op) \in {"indep", "ast"}}
ControlOps == {op \in AllOps : Kind(op) = "control"}
AstOps     == {op \in AllOps : Kind(op) \in {"ast", "control"}}

WholeAst == <<R("ast.Fields"), R("ast.rest"), R("ast.Sources"), R("ast.Condition"), R("ast.Dimensions")>>

Footprint(op) ==
  CASE op = "ParseQuery"        -> <<Lc, R("Language"), R("keywords"), Lc>>         \* Language.Parse, Scanner -> Lookup, tokstr
    [] op = "ParseStatement"    -> <<Lc, R("Language"), R("keywords"), Lc>>
    [] op = "ParseExpr"         -> <<Lc, R("keywords"), Lc>>                         \* no dispatch tree
    [] op = "Scan"              -> <<Lc, R("keywords"), Lc>>
    [] op = "ScanString"        -> <<Lc>>
    [] op = "QuoteString"       -> <<R("qsReplacer"), Lc>>
    [] op = "QuoteIdent"        -> <<R("keywords"), R("qiReplacer"), Lc>>            \* IdentNeedsQuotes -> Lookup
    [] op = "IdentNeedsQuotes"  -> <<R("keywords"), Lc>>
    [] op = "FormatDuration"    -> <<Lc>>
    [] op = "ParseDuration"     -> <<Lc>>
    [] op = "Sanitize"          -> <<R("sanitizePatterns"), Lc>>
    [] op = "String"            -> WholeAst \o <<R("keywords"), R("qiReplacer"), R("qsReplacer"), Lc>>
    [] op = "Clone"             -> WholeAst \o <<Rn(Memo), Lc>>                      \* clone := *s copies the memo field
    [] op = "CloneExpr"         -> <<R("ast.Condition"), Lc>>
    [] op = "Walk"              -> WholeAst
    [] op = "WalkFunc"          -> WholeAst
    [] op = "Eval"              -> <<R("ast.Condition"), Lc>>
    [] op = "EvalBool"          -> <<R("ast.Condition"), Lc>>
    [] op = "EvalType"          -> <<R("ast.Fields"), R("ast.Sources")>>
    [] op = "Reduce"            -> <<R("ast.Condition"), R("datePatterns"), Lc>>     \* string LHS: IsTimeLiteral
    [] op = "ConditionExpr"     -> <<R("ast.Condition"), R("datePatterns"), Lc>>
    [] op = "StmtReduce"        -> WholeAst \o <<Rn(Memo), R("datePatterns"), Lc>>   \* Clone, then Reduce on the clone
    [] op = "RewriteFields"     -> WholeAst \o <<Rn(Memo), Lc, Lc>>                  \* Clone, then everything on the clone
    \* the re-written statement is the caller's: window, limit and time fields are set on it (all local)
    [] op = "RewriteFieldsUse"  -> WholeAst \o <<Rn(Memo), Lc, Lc, Lc, Lc>>
    \* a parser asked again at the end of its input, while a second parser exists
    [] op = "ParserReask"       -> <<Lc, R("Language"), R("keywords"), Lc, Lc, R("Language"), Lc>>
    \* every goroutine binds the SAME parameter map (SetParams copies what it needs) / derives its valuer from the SAME base
    [] op = "ParseWithParams"   -> <<Lc, R("Language"), R("keywords"), Lc>>
    [] op = "ReduceDerived"     -> WholeAst \o <<Rn(Memo), R("datePatterns"), Lc, Lc>>
    [] op = "ColumnNames"       -> <<R("ast.Fields"), R("ast.rest"), Lc>>
    [] op = "RequiredPrivileges" -> <<R("ast.Sources"), R("ast.rest"), Lc>>
    [] op = "HasWildcard"       -> <<R("ast.Fields"), R("ast.Dimensions")>>
    [] op = "FieldExprByName"   -> <<R("ast.Fields")>>
    [] op = "FieldNames"        -> <<R("ast.Fields"), Lc>>
    [] op = "Measurements"      -> <<R("ast.Sources"), Lc>>
    [] op = "ExprNames"         -> <<R("ast.Condition"), Lc>>
    [] op = "TimeAscending"     -> <<R("ast.rest")>>
    \* the memo: if s.groupByInterval != 0 { return it }; ...; s.groupByInterval = lit.Val; return lit.Val
    [] op = "GroupByInterval"   -> <<R(Memo), R("ast.Dimensions"), W(Memo)>>
    [] op = "GroupByOffset"     -> <<R(Memo), R("ast.Dimensions"), W(Memo), R("ast.Dimensions")>>
    \* hypothetical: Sanitize with a reused package-level bytes.Buffer: Reset+Write, then String()
    [] op = "HypBufferedSanitize" -> <<R("sanitizePatterns"), W(HypBuf), R(HypBuf)>>

SeqToSet(s) == {s[i] : i \in DOMAIN s}
Accesses(op) == SeqToSet(Footprint(op))
\* what pass V(a) must observe: the shared locations an operation writes when run alone
WriteSet(op) == {a.loc : a \in {b \in Accesses(op) : b.mode = "w" /\ b.loc \in SharedLocs}}
ReadSet(op)  == {a.loc : a \in {b \in Accesses(op) : b.mode = "r" /\ b.loc \in SharedLocs}}
Touches(op)  == WriteSet(op) \cup ReadSet(op)

\* static reading of the table: two operations conflict when one writes what the other touches
Conflicts(o1, o2, sharedAst) ==
  LET common(ws, ts) == {l \in ws \cap ts : sharedAst \/ l \notin AstLocs} IN
  common(WriteSet(o1), Touches(o2)) \cup common(WriteSet(o2), Touches(o1))
StaticRaceFree(ops, sharedAst) == \A o1 \in ops, o2 \in ops : Conflicts(o1, o2, sharedAst) = {}
=============================================================================
