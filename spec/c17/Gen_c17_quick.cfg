SPECIFICATION Spec
CONSTANTS
  Parts = {"alone", "pair", "triple", "cold"}
  Seed = 1
  NStmt = 6
  NAux = 8
  PrivMod = 3
  TripleMod = 60
  Variants = 1
  Reps = 3
CHECK_DEADLOCK FALSE
