SPECIFICATION Spec
CONSTANTS
  Procs = {p1, p2, p3}
  OpsUsed <- WithControls
  NCalls = 2
  SharedAst = TRUE
  ExpectRaceFree = FALSE
SYMMETRY Perms
INVARIANTS TypeOK NoRace
CHECK_DEADLOCK FALSE
