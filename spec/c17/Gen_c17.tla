------------------------------ MODULE Gen_c17 ------------------------------
(* Pass G for C17: the cases are SCHEDULES - which operations of the footprint table run
   concurrently, on which objects.  One action per kind of case; every case is emitted once,
   from the initial state (BFS, complete inside the constants).

   alone    every operation x every statement of the pool: run alone with a deep snapshot
            and a package fingerprint before/after (pass V(a): binds WriteSet to the code)
   pair     every unordered pair {a, b} of operations (a = b included: the same call on many
            goroutines), on one shared AST; pairs of AST operations additionally on private
            ASTs (every pair when PrivMod = 1, else the residue class picked by Seed)
   triple   unordered triples a <= b <= c, sampled by residue class (TripleMod, Seed)
   cold     every operation as the FIRST use of the package in a fresh process (self pair on
            4 goroutines) plus sampled pairs: lazily initialised package tables are only
            visible there

   Goroutine counts 2..8, the statement and the auxiliary statement are spread over the
   pool by index arithmetic that Seed shifts.  Variants > 1 repeats every pair/triple on
   that many different statements.  The expected verdict is not part of a case: the judge
   derives it from the operation names through module Footprints.                        *)
EXTENDS Footprints, Integers, Json, CSV, IOUtils

CONSTANTS Parts,      \* subset of {"alone", "pair", "triple", "cold"}
          Seed,
          NStmt,      \* size of the SELECT pool in the driver
          NAux,       \* size of the pool of other statements
          PrivMod,    \* private-AST variant for pairs with (i + j + Seed) % PrivMod = 0
          TripleMod,  \* triple sampled when (31 i + 17 j + 7 k + Seed) % TripleMod = 0
          Variants,   \* statements per pair / triple
          Reps        \* calls per goroutine

VARIABLES done
vars == <<done>>

Emit(c) == CSVWrite("%1$s", <<ToJson(c)>>, IOEnv.CASE_FILE)

HasAst(ops) == \E o \in ops : Kind(o) # "indep"
AllAst(ops) == \A o \in ops : Kind(o) # "indep"
Gor(n, a, b) == IF 2 + ((3 * a + 5 * b + Seed) % 7) < n THEN n ELSE 2 + ((3 * a + 5 * b + Seed) % 7)
Stmt(a, b, v) == (7 * a + 11 * b + 5 * v + Seed) % NStmt
Aux(a, b, v) == (a + 3 * b + v + Seed) % NAux

Sched(ops, sharing, g, st, ax, cold) ==
  [kind |-> "sched", ops |-> ops, sharing |-> sharing, g |-> g, reps |-> Reps, stmt |-> st, aux |-> ax, cold |-> cold]

Alone == /\ "alone" \in Parts
         /\ \E i \in 1..NOps : \E s \in 0..NStmt - 1 :
              /\ done' = <<"alone", i, s>>
              /\ Emit([kind |-> "alone", ops |-> <<OpSeq[i]>>, stmt |-> s, aux |-> (i + s + Seed) % NAux, cold |-> 0])

Pair == /\ "pair" \in Parts
        /\ \E i \in 1..NOps : \E j \in i..NOps : \E v \in 0..Variants - 1 : \E sh \in {"shared", "private"} :
             LET ops == <<OpSeq[i], OpSeq[j]>> os == {OpSeq[i], OpSeq[j]} IN
             /\ IF sh = "private" THEN AllAst(os) /\ (i + j + Seed) % PrivMod = 0 ELSE TRUE
             /\ done' = <<"pair", i, j, v, sh>>
             /\ Emit(Sched(ops, IF HasAst(os) THEN sh ELSE "none", Gor(2, i, j + v), Stmt(i, j, v), Aux(i, j, v), 0))

Triple == /\ "triple" \in Parts
          /\ \E i \in 1..NOps : \E j \in i..NOps : \E k \in j..NOps : \E v \in 0..Variants - 1 :
               LET ops == <<OpSeq[i], OpSeq[j], OpSeq[k]>> os == {OpSeq[i], OpSeq[j], OpSeq[k]} IN
               /\ ~(i = j /\ j = k)
               /\ (31 * i + 17 * j + 7 * k + Seed) % TripleMod = 0
               /\ done' = <<"triple", i, j, k, v>>
               /\ Emit(Sched(ops, IF HasAst(os) THEN "shared" ELSE "none", Gor(3, i + k, j + v), Stmt(i + k, j, v), Aux(i + k, j, v), 0))

Cold == /\ "cold" \in Parts
        /\ \E i \in 1..NOps : \E j \in i..NOps :
             LET ops == <<OpSeq[i], OpSeq[j]>> os == {OpSeq[i], OpSeq[j]} IN
             /\ IF i = j THEN TRUE ELSE (31 * i + 17 * j + Seed) % TripleMod = 0
             /\ done' = <<"cold", i, j>>
             /\ Emit(Sched(ops, IF HasAst(os) THEN "shared" ELSE "none", IF i = j THEN 4 ELSE Gor(2, i, j), 0, 0, 1))

Init == done = <<>>
Next == done = <<>> /\ (Alone \/ Pair \/ Triple \/ Cold)
Spec == Init /\ [][Next]_vars
=============================================================================
