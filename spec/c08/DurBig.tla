------------------------------- MODULE DurBig -------------------------------
(* C08 for TLC: property spec (exact sums over mathematical integers, Fits64, largest
   dividing unit) and the TLC-side twin of the design spec DurParse (checked uint64 accumulation),
   both on spec/common/BigInt values, because TLC integers are 32-bit.  Every 64-bit
   quantity is a decimal string outside and a BigInt record inside.

   A duration spelling is  neg : BOOLEAN  and  comps : Seq([n : digits, u : unit name]).
   Unit names are ASCII: "mu" stands for the rune U+00B5 (micro sign); the harness writes
   the rune.                                                                          *)
EXTENDS BigInt

UnitSpellings == <<"ns", "u", "mu", "ms", "s", "m", "h", "d", "w">>     \* what may be written
UnitsDesc     == <<"w", "d", "h", "m", "s", "ms", "u", "ns">>           \* canonical, largest first
UnitNames     == {UnitSpellings[i] : i \in 1..Len(UnitSpellings)}
Canon(u)      == IF u = "mu" THEN "u" ELSE u
MultDec(u) == CASE u = "ns" -> "1"
                [] u = "u"  -> "1000"
                [] u = "mu" -> "1000"
                [] u = "ms" -> "1000000"
                [] u = "s"  -> "1000000000"
                [] u = "m"  -> "60000000000"
                [] u = "h"  -> "3600000000000"
                [] u = "d"  -> "86400000000000"
                [] u = "w"  -> "604800000000000"
MultF == [u \in UnitNames |-> FromDec(MultDec(u))]
Mult(u) == MultF[u]

\* every unit divides the next larger one: the units dividing a value are a prefix of ns, u, ms, ...
UnitRatios == <<7, 24, 60, 60, 1000, 1000, 1000>>          \* w/d, d/h, h/m, m/s, s/ms, ms/u, u/ns
UnitChainOK == \A i \in 1..7 : Eq(Mult(UnitsDesc[i]), Mul(FromNat(UnitRatios[i]), Mult(UnitsDesc[i + 1])))
ASSUME UnitChainOK

P63 == FromDec("9223372036854775808")
P64 == FromDec("18446744073709551616")
P96 == FromDec("27670116110564327424")        \* 3 * 2^63
IsZero(x) == x.mag = <<>>

\* ---- property: the exact sum of the written components -----------------------------
DigitSet == {"0", "1", "2", "3", "4", "5", "6", "7", "8", "9"}
RECURSIVE IsDigitsFrom(_, _)
IsDigitsFrom(s, i) == IF i > Len(s) THEN TRUE
                      ELSE IF SubSeq(s, i, i) \in DigitSet THEN IsDigitsFrom(s, i + 1) ELSE FALSE
IsDigits(s) == Len(s) > 0 /\ IsDigitsFrom(s, 1)
WellFormedComps(comps) == /\ Len(comps) > 0
                          /\ \A i \in 1..Len(comps) : IsDigits(comps[i].n) /\ comps[i].u \in UnitNames
RECURSIVE MagFrom(_, _)
MagFrom(comps, i) == IF i > Len(comps) THEN Zero
                     ELSE Add(Mul(FromDec(comps[i].n), Mult(comps[i].u)), MagFrom(comps, i + 1))
MagSum(comps) == MagFrom(comps, 1)                       \* sum of the components, unsigned
Signed(neg, m) == IF neg THEN Neg(m) ELSE m
ExactSum(neg, comps) == Signed(neg, MagSum(comps))
\* numerals beyond int64 / beyond uint64 (the code reads them with strconv.ParseUint)
NumeralAboveI64(comps) == \E i \in 1..Len(comps) : Cmp(FromDec(comps[i].n), MaxI64) > 0
NumeralAboveU64(comps) == \E i \in 1..Len(comps) : Cmp(FromDec(comps[i].n), MaxU64) > 0

\* ---- two's complement reduction into int64, without division ------------------------
Times10(a) == MulLimb(a, 10, 1, 0)
RECURSIVE SubWhile(_, _)
SubWhile(x, m) == IF NatCmp(x, m) >= 0 THEN SubWhile(NatSub(x, m), m) ELSE x
RECURSIVE NatMod(_, _)           \* x mod m: (x mod 10m) < 10m, then at most 9 subtractions
NatMod(x, m) == IF NatCmp(x, m) < 0 THEN x ELSE SubWhile(NatMod(x, Times10(m)), m)
WrapI64(x) == LET r0 == NatMod(x.mag, P64.mag)
                  r  == IF x.neg /\ r0 # <<>> THEN NatSub(P64.mag, r0) ELSE r0       \* x mod 2^64 in [0, 2^64)
              IN IF NatCmp(r, P63.mag) >= 0 THEN [neg |-> TRUE, mag |-> NatSub(P64.mag, r)]
                 ELSE [neg |-> FALSE, mag |-> r]

\* ---- design twin (DurParse in BigInt): what the transcribed code does on a well-formed spelling
\* limit = MaxInt64, one more after a leading '-'; component by component: numeral > MaxUint64 -> error;
\* n > (limit-mag) div mult -> error (for integers and mult > 0 the same as n*mult > limit-mag, which
\* needs no division); otherwise mag += n*mult.  Returns [ok, mag].
Limit(neg) == IF neg THEN P63 ELSE MaxI64
RECURSIVE DesignFrom(_, _, _, _)
DesignFrom(neg, comps, i, mag) ==
  IF i > Len(comps) THEN [ok |-> TRUE, mag |-> mag]
  ELSE LET n == FromDec(comps[i].n)
           p == Mul(n, Mult(comps[i].u)) IN
       IF Cmp(n, MaxU64) > 0 THEN [ok |-> FALSE]
       ELSE IF Cmp(p, Sub(Limit(neg), mag)) > 0 THEN [ok |-> FALSE]
       ELSE DesignFrom(neg, comps, i + 1, Add(mag, p))
Design(neg, comps) == DesignFrom(neg, comps, 1, Zero)
DesignAccepts(neg, comps) == Design(neg, comps).ok
DesignValue(neg, comps) == Signed(neg, Design(neg, comps).mag)

\* ---- thresholds: T = t*u + r with 0 <= r < u (checked below by multiplication) ---------
Thr == [ p63 |-> [ ns |-> [t |-> "9223372036854775808", r |-> "0"],
                   u  |-> [t |-> "9223372036854775", r |-> "808"],
                   ms |-> [t |-> "9223372036854", r |-> "775808"],
                   s  |-> [t |-> "9223372036", r |-> "854775808"],
                   m  |-> [t |-> "153722867", r |-> "16854775808"],
                   h  |-> [t |-> "2562047", r |-> "2836854775808"],
                   d  |-> [t |-> "106751", r |-> "85636854775808"],
                   w  |-> [t |-> "15250", r |-> "172036854775808"] ],
         p64 |-> [ ns |-> [t |-> "18446744073709551616", r |-> "0"],
                   u  |-> [t |-> "18446744073709551", r |-> "616"],
                   ms |-> [t |-> "18446744073709", r |-> "551616"],
                   s  |-> [t |-> "18446744073", r |-> "709551616"],
                   m  |-> [t |-> "307445734", r |-> "33709551616"],
                   h  |-> [t |-> "5124095", r |-> "2073709551616"],
                   d  |-> [t |-> "213503", r |-> "84873709551616"],
                   w  |-> [t |-> "30500", r |-> "344073709551616"] ],
         p96 |-> [ ns |-> [t |-> "27670116110564327424", r |-> "0"],
                   u  |-> [t |-> "27670116110564327", r |-> "424"],
                   ms |-> [t |-> "27670116110564", r |-> "327424"],
                   s  |-> [t |-> "27670116110", r |-> "564327424"],
                   m  |-> [t |-> "461168601", r |-> "50564327424"],
                   h  |-> [t |-> "7686143", r |-> "1310564327424"],
                   d  |-> [t |-> "320255", r |-> "84110564327424"],
                   w  |-> [t |-> "45750", r |-> "516110564327424"] ] ]
ThrNames == {"p63", "p64", "p96"}
ThrVal(T) == CASE T = "p63" -> P63 [] T = "p64" -> P64 [] T = "p96" -> P96
ThrQ(T, u) == FromDec(Thr[T][Canon(u)].t)
ThrR(T, u) == FromDec(Thr[T][Canon(u)].r)
ThrTableOK == \A T \in ThrNames : \A i \in 1..Len(UnitsDesc) :
                 LET u == UnitsDesc[i] IN
                 /\ Eq(Add(Mul(ThrQ(T, u), Mult(u)), ThrR(T, u)), ThrVal(T))
                 /\ ~ThrR(T, u).neg /\ Cmp(ThrR(T, u), Mult(u)) < 0
ASSUME ThrTableOK
ASSUME Eq(Add(P63, P63), P64) /\ Eq(Add(P64, P63), P96) /\ Eq(Add(MaxI64, FromNat(1)), P63) /\ Eq(Neg(P63), MinI64)
\* self-test of the reduction on the values the known defect is made of
ASSUME /\ ToDec(WrapI64(Mul(FromDec("5124096"), Mult("h")))) = "1526290448384"      \* 5124096h -> 25m26.29s
       /\ ToDec(WrapI64(P63)) = "-9223372036854775808"
       /\ ToDec(WrapI64(Neg(P63))) = "-9223372036854775808"
       /\ ToDec(WrapI64(P64)) = "0"
       /\ ToDec(WrapI64(MaxI64)) = "9223372036854775807"
       /\ ToDec(WrapI64(Neg(Add(P64, FromNat(5))))) = "-5"
       /\ ToDec(WrapI64(Mul(Mul(P96, Mult("w")), FromNat(1000)))) = "0"                \* 3*2^63*604800000000000000 = 2^64 * k
=============================================================================
