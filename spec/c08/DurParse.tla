----------------------------- MODULE DurParse ------------------------------
(* C08 pass M (i): design spec of influxql.ParseDuration, transcribed from parser.go
   (the checked algorithm of commit 7063cd7).

     var mag uint64;  limit := uint64(MaxInt64);  if leading '-' { isNegative = true; limit++ }
     for each component  <digits><unit>:
         n := strconv.ParseUint(digits)            -- 0 <= n <= MaxUint64, else ErrInvalidDuration
         if n > (limit-mag)/uint64(mult) { return error "overflowed duration" }
         mag += n * uint64(mult)                   -- uint64 arithmetic (written with WrapU)
     if isNegative { return -time.Duration(mag) }  -- uint64 -> int64 conversion and int64 negation wrap
     return time.Duration(mag)

   The property part is the mathematical sum `Sum` of ALL written components and `Fits64`.
   After the error return the model keeps reading the remaining components into `exact`
   (variable `failed` remembers the error), so the invariants speak about the whole spelling.

   Correct = Exact /\ Complete /\ RejectsUnfit /\ NoNamedShape must hold.  It is proved for ANY
   number of components by induction (Apalache, three one-step queries):
       Init => Inv              --init=Init    --inv=Inv            --length=0
       Inv /\ Next => Inv'      --init=IndInit --inv=InvAndCorrect  --length=1
       Inv => Correct           (state 0 of the same run)
   and, in the thorough tier, also checked directly from Init for 1..2 components
   (--cinit=CInit2 --inv=Correct --length=3, ~30 s).  The direct check for 1..3 components
   (--cinit=CInit --inv=Correct --length=4) passes as well but takes 4.5-15 min depending on the
   load of the machine (non-linear), so it is not part of a tier.
   With Weak = TRUE the per-component test is dropped (the product simply wraps): a deliberately
   broken variant on which `Exact` must be VIOLATED - the vacuity control of this pass; its
   counterexamples are additional aimed cases for the real code.                            *)
EXTENDS DurCommon, Sequences

CONSTANTS
  \* @type: Int;
  MaxComps,
  \* @type: Bool;
  Weak

VARIABLES
  \* @type: Bool;
  neg,
  \* @type: Seq({n: Int, m: Int});
  comps,            \* log of the components read (for counterexamples only)
  \* @type: Int;
  ncomps,           \* number of components read
  \* @type: Int;
  mag,
  \* @type: Int;
  exact,
  \* @type: Bool;
  failed,
  \* @type: Bool;
  done,
  \* @type: Int;
  result

CInit     == MaxComps = 3 /\ Weak = FALSE
CInit2    == MaxComps = 2 /\ Weak = FALSE
CInitWeak == MaxComps = 3 /\ Weak = TRUE

Init == /\ neg \in BOOLEAN
        /\ comps = <<>> /\ ncomps = 0 /\ mag = 0 /\ exact = 0
        /\ failed = FALSE /\ done = FALSE /\ result = 0

Limit == IF neg THEN MaxI64 + 1 ELSE MaxI64

\* one pass through the parsing loop; numerals of up to 65 bits are written, ParseUint refuses > MaxUint64
Comp == /\ ~done /\ ncomps < MaxComps
        /\ \E n \in 0..(2 * TwoTo64) : \E m \in Mults :
              /\ comps' = Append(comps, [n |-> n, m |-> m]) /\ ncomps' = ncomps + 1
              /\ exact' = exact + n * m
              /\ IF failed THEN UNCHANGED <<mag, failed>>                       \* already returned an error
                 ELSE IF n > MaxU64 THEN failed' = TRUE /\ UNCHANGED mag        \* ParseUint: value out of range
                 ELSE IF ~Weak /\ n > (Limit - mag) \div m THEN failed' = TRUE /\ UNCHANGED mag
                 ELSE mag' = WrapU(mag + WrapU(n * m)) /\ UNCHANGED failed
        /\ UNCHANGED <<neg, done, result>>

\* after the loop: conversion and sign
Finish == /\ ~done /\ ncomps >= 1
          /\ done' = TRUE
          /\ result' = IF failed THEN 0 ELSE IF neg THEN Wrap(-Wrap(mag)) ELSE Wrap(mag)
          /\ UNCHANGED <<neg, comps, ncomps, mag, exact, failed>>

Next == Comp \/ Finish

\* ---- property part -------------------------------------------------------------------
Sum == IF neg THEN -exact ELSE exact         \* the sum of the written components, signed

Exact        == (done /\ ~failed) => result = Sum          \* C08: accepted => exact
Complete     == (done /\ Fits64(Sum)) => ~failed           \* a total that fits is accepted
RejectsUnfit == (done /\ ~Fits64(Sum)) => failed           \* a total that does not fit is an error

\* the two shapes in which the previous algorithm (int64 wrap + `d < 0 && !isNegative`) broke C08.
\* They are no longer known findings; the judge uses the same predicates only to NAME such a
\* failure should it ever return.  The design cannot produce them:
Dev_WrapToNonNegative ==
  done /\ ~failed /\ ~neg /\ ~Fits64(Sum) /\ result = Wrap(Sum) /\ result >= 0
Dev_WrapNegativeUnchecked ==
  done /\ ~failed /\ neg /\ ~Fits64(Sum) /\ result = Wrap(Sum)
NoNamedShape == ~Dev_WrapToNonNegative /\ ~Dev_WrapNegativeUnchecked

Correct == Exact /\ Complete /\ RejectsUnfit /\ NoNamedShape

\* ---- inductive invariant (Weak = FALSE) ------------------------------------------------
\* as long as no error was returned the accumulator IS the exact sum and is within the limit;
\* once an error was returned the exact sum is beyond the limit (and only grows)
Inv == /\ 0 <= mag /\ mag <= MaxU64 /\ 0 <= exact /\ 0 <= ncomps
       /\ ~failed => (mag = exact /\ mag <= Limit)
       /\ failed => exact > Limit
       /\ (done /\ ~failed) => result = Sum
InvAndCorrect == Inv /\ Correct
\* an arbitrary state satisfying Inv (comps is only a log: any value will do)
IndInit == /\ neg \in BOOLEAN /\ failed \in BOOLEAN /\ done \in BOOLEAN
           /\ comps = <<>> /\ ncomps \in 0..MaxComps
           /\ mag \in 0..MaxU64 /\ exact \in 0..(TwoTo64 * TwoTo64) /\ result \in MinI64..MaxI64
           /\ Inv

\* distinct counterexamples (weak variant) are told apart by sign and number of components
\* @type: <<Bool, Int>>;
CexView == <<neg, ncomps>>
=============================================================================
