----------------------------- MODULE DurParse ------------------------------
(* C08 pass M (i): design spec of influxql.ParseDuration, transcribed from parser.go.

     isNegative := leading '-'
     for each component  <digits><unit>:
         n := strconv.ParseInt(digits)          -- 0 <= n <= MaxInt64, else ErrInvalidDuration
         d += time.Duration(n) * unit           -- int64 multiplication and addition, both wrap
     if d < 0 && !isNegative { error "overflowed duration" }
     if isNegative { d = -d }                   -- int64 negation wraps (-MinInt64 = MinInt64)

   The property part is the mathematical sum `Sum` and `Fits64`.  `Exact` is what C08
   demands; it is violated by this design (known defect).  `OnlyKnown` says that every
   failure of the design has one of the two named shapes, `RejectsOnlyUnfit` that the
   design never rejects a total that fits.                                           *)
EXTENDS DurCommon, Sequences

CONSTANT
  \* @type: Int;
  MaxComps

VARIABLES
  \* @type: Bool;
  neg,
  \* @type: Seq({n: Int, m: Int});
  comps,
  \* @type: Int;
  d,
  \* @type: Int;
  mag,
  \* @type: Bool;
  done,
  \* @type: Bool;
  err,
  \* @type: Int;
  result

CInit == MaxComps = 3

Init == /\ neg \in BOOLEAN
        /\ comps = <<>> /\ d = 0 /\ mag = 0
        /\ done = FALSE /\ err = FALSE /\ result = 0

\* one pass through the parsing loop
Comp == /\ ~done /\ Len(comps) < MaxComps
        /\ \E n \in 0..MaxI64 : \E m \in Mults :
              /\ d' = Wrap(d + Wrap(n * m))
              /\ mag' = mag + n * m
              /\ comps' = Append(comps, [n |-> n, m |-> m])
        /\ UNCHANGED <<neg, done, err, result>>

\* after the loop: the overflow test and the sign
Finish == /\ ~done /\ Len(comps) >= 1
          /\ done' = TRUE
          /\ err' = (d < 0 /\ ~neg)
          /\ result' = IF d < 0 /\ ~neg THEN 0 ELSE IF neg THEN Wrap(-d) ELSE d
          /\ UNCHANGED <<neg, comps, d, mag>>

Next == Comp \/ Finish

\* ---- property part -------------------------------------------------------------------
Sum == IF neg THEN -mag ELSE mag             \* the sum of the written components, signed

Exact == (done /\ ~err) => result = Sum      \* C08: accepted => exact   (FAILS: known defect)
RejectsUnfit == (done /\ ~Fits64(Sum)) => err

\* named deviations: the only ways in which this design breaks C08
Dev_WrapToNonNegative ==
  done /\ ~err /\ ~neg /\ ~Fits64(Sum) /\ result = Wrap(Sum) /\ result >= 0
Dev_WrapNegativeUnchecked ==
  done /\ ~err /\ neg /\ ~Fits64(Sum) /\ result = Wrap(Sum)

OnlyKnown == (done /\ ~err) => (result = Sum \/ Dev_WrapToNonNegative \/ Dev_WrapNegativeUnchecked)
RejectsOnlyUnfit == (done /\ err) => ~Fits64(Sum)
Safe == OnlyKnown /\ RejectsOnlyUnfit

\* distinct counterexamples are told apart by sign and number of components
\* @type: <<Bool, Int>>;
CexView == <<neg, Len(comps)>>
=============================================================================
