----------------------------- MODULE DurCommon -----------------------------
(* C08, shared definitions of the design specs DurParse / DurFormat (pass M, Apalache).
   Apalache integers are unbounded, so Go's fixed-width arithmetic is written out explicitly:
   every int64 operation is followed by Wrap, every uint64 operation by WrapU.           *)
EXTENDS Integers

TwoTo63 == 9223372036854775808
TwoTo64 == 18446744073709551616
MinI64  == -TwoTo63
MaxI64  == TwoTo63 - 1
MaxU64  == TwoTo64 - 1
\* two's complement reduction of a mathematical integer into int64 (also: uint64 -> int64 conversion)
Wrap(x)  == ((x + TwoTo63) % TwoTo64) - TwoTo63
\* reduction into uint64
WrapU(x) == x % TwoTo64
Fits64(x) == MinI64 <= x /\ x <= MaxI64
Abs(x) == IF x < 0 THEN -x ELSE x

\* unit multipliers in nanoseconds (parser.go: time.Microsecond ... 7*24*time.Hour)
NS == 1
US == 1000
MS == 1000000
S  == 1000000000
M  == 60000000000
H  == 3600000000000
D  == 86400000000000
W  == 604800000000000
Mults == {NS, US, MS, S, M, H, D, W}
=============================================================================
