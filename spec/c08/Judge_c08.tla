----------------------------- MODULE Judge_c08 -----------------------------
(* Pass V for C08.  One observation record per step; three kinds of record.

   k = "parse"   [neg, comps | text (malformed), obs |-> [text, val | err | panic]]
                 influxql.ParseDuration(text), text = ['-'] n1 u1 n2 u2 ...
   k = "stmt"    [ctx, sgn, comps, toks, obs |-> [text, val | err | panic | shape]]
                 the same spelling as a DURATIONVAL literal inside a statement; val is the
                 duration found in the parsed statement at the place of the literal; sgn = TRUE
                 when the literal stands under a unary minus
   k = "format"  [d, obs |-> [text, atext, back | backerr, certs, panic]]
                 text = FormatDuration(d), atext = text with the micro sign written "mu",
                 back = ParseDuration(text), certs = <<[u, q, r]>> with d = q*u + r for all 8 units

   What C08 demands (recomputed here with exact integers from the logged components):
     parse/stmt  error exactly when the exact total does not fit in int64 (or the text is no
                 duration), otherwise the value is the exact total
     format      d # MinInt64: text is <q><largest unit dividing d>, zero is "0s", back = d
                 (d = MinInt64 is excluded by the property and not judged either way)

   The design (DurParse / DurBig!Design, checked uint64 accumulation) is proved to accept exactly the
   totals that fit, with the exact value; so "what the design predicts" coincides with the demand,
   except where the property leaves a choice ("exact or an error") and the design makes it:
   a spelling of MinInt64 whose numeral is beyond int64 (`-9223372036854775808ns`) is accepted.

   Classes written to the verdict file:
     Dev_WrapToNonNegative      accepted, unsigned spelling, total does not fit, value = total
                                reduced mod 2^64 into int64 and >= 0
     Dev_WrapNegativeUnchecked  accepted, spelling with leading '-', total does not fit,
                                value = total reduced mod 2^64 into int64
                                (both: the shapes of the defect repaired by 7063cd7; they only NAME the
                                failure should it return - they are violations, not known findings)
     accepted-overflow          any other accepted total that does not fit
     wrong-value / rejected-representable / accepted-malformed / panic / literal-missing
     zero-not-0s / format-unreadable / not-largest-unit / format-wrong-number /
     roundtrip-rejected / roundtrip-differs
     drift:rejects-where-design-accepts   the code refuses a MinInt64 spelling with a numeral beyond
                                int64, which the property allows but the design spec accepts:
                                the design spec is stale; reported, never an alarm
     harness:*                  the record itself is unusable (machinery failure, exit 2)     *)
EXTENDS DurBig, Json, CSV, IOUtils

VARIABLES l, cnt
vars == <<l, cnt>>

Trace == ndJsonDeserialize(IOEnv.OBS_FILE)
Has(r, f) == f \in DOMAIN r

OK == [ok |-> TRUE, class |-> "ok", sig |-> ""]
V(c, s) == [ok |-> FALSE, class |-> c, sig |-> s]

\* coarse signatures: sign and number of components; statement family (first two letters of ctx)
Sig(neg, comps) == (IF neg THEN "-" ELSE "+") \o (IF Len(comps) <= 3 THEN ToString(Len(comps)) ELSE "4+") \o " component(s)"
CtxSig(c) == IF Len(c) >= 2 THEN SubSeq(c, 1, 2) ELSE c      \* cr ar cd cq gb wh fn de st

Panicked(o) == Has(o, "panic") \/ Has(o, "harness_panic")

\* ---- ParseDuration(text) ------------------------------------------------------------
\* names the shape of an accepted total that does not fit (ex = exact signed total)
Overflowed(neg, ex, val, sg) ==
  LET w == WrapI64(ex) IN
  IF val = ToDec(w) THEN (IF neg THEN V("Dev_WrapNegativeUnchecked", sg)
                          ELSE IF ~w.neg THEN V("Dev_WrapToNonNegative", sg)
                          ELSE V("accepted-overflow", "wrapped-negative " \o sg))
  ELSE V("accepted-overflow", sg)

ParseVerdict(r, wf, m, big) ==    \* wf = well-formed components, m = MagSum(r.comps), big = NumeralAboveI64(r.comps)
  LET o == r.obs IN
  IF Panicked(o) THEN V("panic", "parse")
  ELSE IF ~(Has(o, "err") \/ Has(o, "val")) THEN V("harness:no-outcome", "parse")
  ELSE IF ~Has(r, "comps") THEN          \* malformed text: no sum of components exists
       (IF Has(o, "err") THEN OK ELSE V("accepted-malformed", ""))
  ELSE IF ~wf THEN V("harness:bad-case", "parse")
  ELSE
    LET ex == Signed(r.neg, m) IN
    IF Fits64(ex) THEN
         IF Has(o, "err") THEN (IF big THEN V("drift:rejects-where-design-accepts", "")   \* -9223372036854775808ns: "or an error"
                                ELSE V("rejected-representable", Sig(r.neg, r.comps)))
         ELSE IF o.val = ToDec(ex) THEN OK
         ELSE V("wrong-value", Sig(r.neg, r.comps))
    ELSE IF Has(o, "err") THEN OK
    ELSE Overflowed(r.neg, ex, o.val, Sig(r.neg, r.comps))

\* ---- a DURATIONVAL literal inside a statement -----------------------------------------
\* The literal itself is unsigned; under a unary minus (sgn) the statement carries -total.
StmtVerdict(r, wf, m, big) ==
  LET o == r.obs IN
  IF Panicked(o) THEN V("panic", CtxSig(r.ctx))
  ELSE IF ~wf THEN V("harness:bad-case", CtxSig(r.ctx))
  ELSE IF Has(o, "shape") THEN V("literal-missing", CtxSig(r.ctx))
  ELSE IF ~(Has(o, "err") \/ Has(o, "val")) THEN V("harness:no-outcome", CtxSig(r.ctx))
  ELSE
    IF Fits64(m) THEN
         IF Has(o, "err") THEN V("rejected-representable", CtxSig(r.ctx))
         ELSE IF o.val = ToDec(Signed(r.sgn, m)) THEN OK
         ELSE V("wrong-value", CtxSig(r.ctx))
    ELSE IF Has(o, "err") THEN OK                  \* also for -<2^63>: the unsigned literal does not fit (design: error)
    ELSE IF r.sgn /\ Eq(m, P63) /\ o.val = ToDec(MinI64) THEN OK     \* reading "-2^63 as a whole" is exact as well
    ELSE LET w == WrapI64(m) IN
         IF ~w.neg /\ o.val = ToDec(Signed(r.sgn, w)) THEN V("Dev_WrapToNonNegative", CtxSig(r.ctx))
         ELSE V("accepted-overflow", CtxSig(r.ctx))

\* ---- FormatDuration(d), ParseDuration of the result ------------------------------------
IsInt(s) == IF Len(s) > 1 /\ SubSeq(s, 1, 1) = "-" THEN IsDigits(SubSeq(s, 2, Len(s))) ELSE IsDigits(s)
\* The driver logs, for the 8 units from the largest down, q and r with d = q*u + r as Go's / and %
\* computed them.  A certificate is believed only after  q*u + r = d,  |r| < u,  r = 0 or sign(r) = sign(d)
\* has been verified by multiplication (q, r are then unique).  Every unit divides the next larger one
\* (DurBig!UnitChainOK), so the units dividing d are a prefix of ns, u, ms, ...: walking up from "u", the
\* first unit with a verified r # 0 proves that neither it nor any larger unit divides d; the unit
\* before it (verified r = 0) is the largest dividing unit.
CertGood(dv, c, q, rr) == LET uu == Mult(c.u) IN
                          /\ Eq(Add(Mul(q, uu), rr), dv)
                          /\ NatCmp(rr.mag, uu.mag) < 0
                          /\ (IsZero(rr) \/ rr.neg = dv.neg)
RECURSIVE FindUp(_, _, _, _)
FindUp(dv, certs, i, best) ==           \* i: index into UnitsDesc, 7 = "u" ... 1 = "w"
  LET c == certs[i] IN
  IF c.u # UnitsDesc[i] THEN [ok |-> FALSE]
  ELSE LET q  == FromDec(c.q)
           rr == FromDec(c.r) IN
       IF ~CertGood(dv, c, q, rr) THEN [ok |-> FALSE]
       ELSE IF ~IsZero(rr) THEN best
       ELSE IF i = 1 THEN [ok |-> TRUE, u |-> c.u, q |-> q]
       ELSE FindUp(dv, certs, i - 1, [ok |-> TRUE, u |-> c.u, q |-> q])
FindLDU(dv, certs) == FindUp(dv, certs, 7, [ok |-> TRUE, u |-> "ns", q |-> dv])
\* split "<int><unit>" (ASCII transliteration: the micro sign arrives as "mu")
Split(s) == LET n == Len(s) IN
            IF n >= 3 /\ SubSeq(s, n - 1, n) \in {"ns", "ms", "mu"} /\ IsInt(SubSeq(s, 1, n - 2))
              THEN [ok |-> TRUE, num |-> SubSeq(s, 1, n - 2), u |-> SubSeq(s, n - 1, n)]
            ELSE IF n >= 2 /\ SubSeq(s, n, n) \in {"u", "s", "m", "h", "d", "w"} /\ IsInt(SubSeq(s, 1, n - 1))
              THEN [ok |-> TRUE, num |-> SubSeq(s, 1, n - 1), u |-> SubSeq(s, n, n)]
            ELSE [ok |-> FALSE]
BackVerdict(r, dv, u) == IF Has(r.obs, "backerr") THEN V("roundtrip-rejected", u)
                         ELSE IF ~Has(r.obs, "back") THEN V("harness:no-outcome", "format")
                         ELSE IF r.obs.back = ToDec(dv) THEN OK ELSE V("roundtrip-differs", u)
FormatVerdict(r) ==
  LET o == r.obs IN
  IF ~IsInt(r.d) THEN V("harness:bad-case", "format")
  ELSE LET dv == FromDec(r.d) IN
  IF ~Fits64(dv) THEN V("harness:bad-case", "format")
  ELSE IF Eq(dv, MinI64) THEN OK                                       \* the excluded value: nothing is demanded
  ELSE IF Panicked(o) THEN V("panic", "format")
  ELSE IF ~(Has(o, "certs") /\ Has(o, "atext")) THEN V("harness:no-outcome", "format")
  ELSE IF Len(o.certs) # 8 THEN V("harness:bad-certificate", "format")
  ELSE IF IsZero(dv) THEN (IF o.atext = "0s" THEN BackVerdict(r, dv, "zero") ELSE V("zero-not-0s", ""))
  ELSE LET ldu == FindLDU(dv, o.certs)
           sp  == Split(o.atext) IN
       IF ~ldu.ok THEN V("harness:bad-certificate", "format")
       ELSE IF ~sp.ok THEN V("format-unreadable", ldu.u)
       ELSE IF Canon(sp.u) # ldu.u THEN V("not-largest-unit", sp.u \o " written, " \o ldu.u \o " divides")
       ELSE IF ~Eq(FromDec(sp.num), ldu.q) THEN V("format-wrong-number", ldu.u)
       ELSE BackVerdict(r, dv, ldu.u)

HasComps(r) == Has(r, "comps") /\ WellFormedComps(r.comps)
\* everything the step needs, with the exact magnitude computed once per record
\* non-trivial: a spelling with >= 2 components or a total of at least 2^31 ns (needs 64-bit
\* arithmetic; in particular every total that does not fit); a formatted value of magnitude >= 1000 ns
Big31 == FromDec("2147483648")
Analyse(r) ==
  IF ~(Has(r, "k") /\ Has(r, "obs")) THEN [v |-> V("harness:bad-case", ""), nt |-> FALSE, unfit |-> FALSE]
  ELSE IF r.k \in {"parse", "stmt"} THEN
       LET wf  == HasComps(r)
           m   == IF wf THEN MagSum(r.comps) ELSE Zero
           big == wf /\ NumeralAboveI64(r.comps) IN
       [v |-> IF r.k = "parse" THEN ParseVerdict(r, wf, m, big) ELSE StmtVerdict(r, wf, m, big),
        nt |-> wf /\ (Len(r.comps) >= 2 \/ NatCmp(m.mag, Big31.mag) >= 0),
        unfit |-> wf /\ ~Fits64(IF r.k = "parse" THEN Signed(r.neg, m) ELSE m)]
  ELSE IF r.k = "format" THEN
       [v |-> FormatVerdict(r), nt |-> IsInt(r.d) /\ NatCmp(FromDec(r.d).mag, FromNat(1000).mag) >= 0, unfit |-> FALSE]
  ELSE [v |-> V("harness:bad-case", "kind"), nt |-> FALSE, unfit |-> FALSE]
Accepted(r) == Has(r, "obs") /\ (Has(r.obs, "val") \/ Has(r.obs, "back"))
Kind(r, k) == IF Has(r, "k") /\ r.k = k THEN 1 ELSE 0

\* a history in one process: after the same magnitude with the other sign was parsed, the text is parsed once more
\* (obs.again); what ParseDuration answers for a text does not depend on what it was asked before
AgainVerdict(r) ==
  IF ~(Has(r, "obs") /\ Has(r.obs, "again")) THEN {}
  ELSE LET o == r.obs a == o.again IN
       IF Has(a, "panic") THEN {V("panic", "second parse")}
       ELSE IF Has(o, "err") /\ Has(a, "err") THEN {}
       ELSE IF Has(o, "val") /\ Has(a, "val") /\ o.val = a.val THEN {}
       ELSE {V("history-dependent", IF Has(a, "err") THEN "second parse rejects" ELSE IF Has(o, "err") THEN "second parse accepts" ELSE "second parse differs")}

Init == l = 1 /\ cnt = [nt |-> 0, accepted |-> 0, unfit |-> 0, notok |-> 0, parse |-> 0, stmt |-> 0, format |-> 0]
Step == /\ l <= Len(Trace)
        /\ LET r == Trace[l]
               a == Analyse(r)
               v == a.v IN
             /\ IF v.ok THEN TRUE
                ELSE CSVWrite("%1$s", <<ToJson([id |-> r.id, class |-> v.class, sig |-> v.sig])>>, IOEnv.VERDICT_FILE)
             /\ \A w \in AgainVerdict(r) : CSVWrite("%1$s", <<ToJson([id |-> r.id, class |-> w.class, sig |-> w.sig])>>, IOEnv.VERDICT_FILE)
             /\ cnt' = [nt |-> cnt.nt + (IF a.nt THEN 1 ELSE 0),
                        accepted |-> cnt.accepted + (IF Accepted(r) THEN 1 ELSE 0),
                        unfit |-> cnt.unfit + (IF a.unfit THEN 1 ELSE 0),
                        notok |-> cnt.notok + (IF v.ok THEN 0 ELSE 1),
                        parse |-> cnt.parse + Kind(r, "parse"), stmt |-> cnt.stmt + Kind(r, "stmt"),
                        format |-> cnt.format + Kind(r, "format")]
        /\ l' = l + 1
Finish == /\ l = Len(Trace) + 1
          /\ CSVWrite("%1$s", <<ToJson([judged |-> Len(Trace), nontrivial |-> cnt.nt, accepted |-> cnt.accepted,
                                        unfit |-> cnt.unfit, notok |-> cnt.notok, parse |-> cnt.parse,
                                        stmt |-> cnt.stmt, format |-> cnt.format])>>, IOEnv.STATS_FILE)
          /\ l' = l + 1 /\ UNCHANGED cnt
Next == Step \/ Finish
Spec == Init /\ [][Next]_vars
\* the whole observation file was consumed: one state per record + initial + Finish
AllConsumed == TLCGet("stats").diameter = Len(Trace) + 2
=============================================================================
