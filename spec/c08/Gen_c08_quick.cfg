SPECIFICATION Spec
CONSTANTS
  Parts = {"thr", "sum2", "sum3", "small", "bad", "fmt", "stmt"}
  K = 64
  J = 3
  KS = 4
  J3 = 1
  KS3 = 1
  FE = 2
  FJ = 8
  SK = 2
INVARIANTS DesignOnlyKnown
CHECK_DEADLOCK FALSE
