------------------------------ MODULE Gen_c08 ------------------------------
(* Pass G for C08: TLC enumerates duration spellings and duration values (BFS, every case
   once) and writes one JSON case per line.  64-bit magnitudes are built with BigInt and
   written as decimal strings.  Three case files (CASE_FILE + ".parse" / ".format" / ".stmt").

   parts (constant Parts selects them)
     thr     one component n u, n = floor(T/u) + k, |k| <= K, T in {2^63, 2^64, 3*2^63},
             all 9 unit spellings, with and without a leading '-'
     sum2    (floor(T/u1) - j) u1  +  rest ns  with total T + delta: each component is below
             T, only the total crosses; both orders; with and without '-'
     sum3    (floor(T/u1) - j) u1 + k2 u2 + rest ns, u2 smaller than u1, total T + delta
     small   ordinary values: 1..3 components over small / medium numerals (leading zeros,
             zero, repeated units, 2^31, 2^32)
     bad     texts that are no duration (number or unit missing)
     fmt     values for FormatDuration: +-(10^e + k) u, +-(floor(2^63/u) - j) u, q u + u' (largest
             dividing unit is a smaller one), q u +- 1 (nothing above ns divides), 0, extremes
     stmt    spellings of thr / sum2 / small (radius SK) as DURATIONVAL literals inside statements

   Model-checked in the same run (INVARIANTS): the threshold table is exact (ASSUME in DurBig),
   and for every emitted parse case the BigInt design twin (checked accumulation) accepts exactly
   the totals that fit, with the exact value (DesignExact) -- the TLC-side complement of Apalache's
   `Correct` on the boundary sweep.                                                          *)
EXTENDS DurBig, Json, CSV, IOUtils

\* token records of spec/common/Tok.tla (instantiated: Tok!Int would clash with Integers!Int)
Tk == INSTANCE Tok
Kw(s) == Tk!Kw(s)
Id(s) == Tk!Id(s)
IdT(s) == Tk!IdT(s)
P(s) == Tk!P(s)
PT(s) == Tk!PT(s)
Dur(s) == Tk!Dur(s)
DurT(s) == Tk!DurT(s)
IntTok(s) == Tk!Int(s)

CONSTANTS Parts,      \* subset of {"thr", "sum2", "sum3", "small", "bad", "fmt", "stmt"}
          K,          \* thr: radius around floor(T/u)
          J, KS,      \* sum2: steps below floor(T/u1), radius of the total around T
          J3, KS3,    \* sum3: the same for three components
          FE, FJ,     \* fmt: radius around 10^e, steps below floor(2^63/u)
          SK          \* stmt: radius (thr) ; sums use j <= 1, |delta| <= 1

VARIABLES st
vars == <<st>>

CaseFile(kind) == IOEnv.CASE_FILE \o "." \o kind
Write(kind, c) == CSVWrite("%1$s", <<ToJson(c)>>, CaseFile(kind))

Dec(i) == IF i < 0 THEN "-" \o ToString(-i) ELSE ToString(i)
SmallI(i) == FromDec(Dec(i))                       \* a TLC integer as BigInt
C(n, u) == [n |-> ToDec(n), u |-> u]              \* one component, n a non-negative BigInt
NonNeg(x) == ~x.neg
Idx(seq, x) == CHOOSE i \in 1..Len(seq) : seq[i] = x
SmallerUnits(u) == {UnitsDesc[i] : i \in (Idx(UnitsDesc, Canon(u)) + 1)..Len(UnitsDesc)}

\* ---- spellings ---------------------------------------------------------------------------
ThrComps(T, u, k) == <<C(Add(ThrQ(T, u), SmallI(k)), u)>>
ThrOK(T, u, k) == NonNeg(Add(ThrQ(T, u), SmallI(k)))
\* (t - j) u1 + (r + j u1 + delta) ns = T + delta
Sum2Rest(T, u1, j, dl) == Add(Add(ThrR(T, u1), Mul(SmallI(j), Mult(u1))), SmallI(dl))
Sum2OK(T, u1, j, dl) == NonNeg(Sum2Rest(T, u1, j, dl)) /\ NonNeg(Add(ThrQ(T, u1), SmallI(-j)))
Sum2Comps(T, u1, j, dl, swap) ==
  LET a == C(Add(ThrQ(T, u1), SmallI(-j)), u1)
      b == C(Sum2Rest(T, u1, j, dl), "ns")
  IN IF swap THEN <<b, a>> ELSE <<a, b>>
\* (t - j) u1 + k2 u2 + (r + j u1 - k2 u2 + delta) ns = T + delta
Sum3Rest(T, u1, u2, j, k2, dl) == Sub(Sum2Rest(T, u1, j, dl), Mul(SmallI(k2), Mult(u2)))
Sum3OK(T, u1, u2, j, k2, dl) == NonNeg(Sum3Rest(T, u1, u2, j, k2, dl)) /\ NonNeg(Add(ThrQ(T, u1), SmallI(-j)))
Sum3Comps(T, u1, u2, j, k2, dl) ==
  <<C(Add(ThrQ(T, u1), SmallI(-j)), u1), [n |-> Dec(k2), u |-> u2], C(Sum3Rest(T, u1, u2, j, k2, dl), "ns")>>

Smalls1 == {"0", "1", "7", "59", "60", "999", "1000", "1001", "00012", "2147483647", "2147483648",
            "4294967295", "4294967296", "4294967297", "1000000000000", "0000000000000000000001"}
Smalls2 == {"0", "1", "90", "4294967296"}
Smalls3 == {"1", "30"}
BadTexts == {"", "-", "5", "12", "-5", "s", "-s", "ms", "5s3", "3m12", "-ns"}

\* ---- statements: token records; the token Dur("@") is replaced by the spelling --------------
Call1(f, arg) == <<Id(f), PT("("), arg, PT(")")>>
CRP == <<Kw("CREATE"), Kw("RETENTION"), Kw("POLICY"), Id("rp"), Kw("ON"), Id("db")>>
CRP1 == CRP \o <<Kw("DURATION"), Dur("1h"), Kw("REPLICATION"), IntTok("1")>>
ARP == <<Kw("ALTER"), Kw("RETENTION"), Kw("POLICY"), Id("rp"), Kw("ON"), Id("db")>>
CDB == <<Kw("CREATE"), Kw("DATABASE"), Id("db"), Kw("WITH")>>
CQ  == <<Kw("CREATE"), Kw("CONTINUOUS"), Kw("QUERY"), Id("cq"), Kw("ON"), Id("db")>>
CQSel(gb) == <<Kw("BEGIN"), Kw("SELECT")>> \o Call1("mean", IdT("v")) \o <<Kw("INTO"), Id("x"), Kw("FROM"), Id("m"),
             Kw("GROUP"), Kw("BY")>> \o Call1("time", gb) \o <<Kw("END")>>
SelAgg == <<Kw("SELECT")>> \o Call1("mean", IdT("v")) \o <<Kw("FROM"), Id("m")>>
SelRaw == <<Kw("SELECT"), Id("v"), Kw("FROM"), Id("m"), Kw("WHERE"), Id("time")>>
Now == <<Id("now"), PT("("), PT(")")>>
X == Dur("@")
XT == DurT("@")
Ctx == [
  crp_dur    |-> CRP \o <<Kw("DURATION"), X, Kw("REPLICATION"), IntTok("1")>>,
  crp_shard  |-> CRP1 \o <<Kw("SHARD"), Kw("DURATION"), X>>,
  crp_future |-> CRP1 \o <<Kw("FUTURE"), Kw("LIMIT"), X>>,
  crp_past   |-> CRP1 \o <<Kw("PAST"), Kw("LIMIT"), X>>,
  arp_dur    |-> ARP \o <<Kw("DURATION"), X>>,
  arp_shard  |-> ARP \o <<Kw("SHARD"), Kw("DURATION"), X>>,
  arp_future |-> ARP \o <<Kw("FUTURE"), Kw("LIMIT"), X>>,
  arp_past   |-> ARP \o <<Kw("REPLICATION"), IntTok("2"), Kw("PAST"), Kw("LIMIT"), X>>,
  cdb_dur    |-> CDB \o <<Kw("DURATION"), X>>,
  cdb_shard  |-> CDB \o <<Kw("SHARD"), Kw("DURATION"), X>>,
  cdb_future |-> CDB \o <<Kw("FUTURE"), Kw("LIMIT"), X>>,
  cdb_past   |-> CDB \o <<Kw("DURATION"), Dur("1d"), Kw("PAST"), Kw("LIMIT"), X, Kw("NAME"), Id("rp")>>,
  cq_every   |-> CQ \o <<Kw("RESAMPLE"), Kw("EVERY"), X>> \o CQSel(DurT("1ns")),
  cq_for     |-> CQ \o <<Kw("RESAMPLE"), Kw("FOR"), X>> \o CQSel(DurT("1ns")),
  cq_gb      |-> CQ \o CQSel(XT),
  gb_time    |-> SelAgg \o <<Kw("GROUP"), Kw("BY")>> \o Call1("time", XT),
  gb_off     |-> SelAgg \o <<Kw("GROUP"), Kw("BY"), Id("time"), PT("("), DurT("1h"), PT(","), X, PT(")")>>,
  wh_sub     |-> SelRaw \o <<P(">")>> \o Now \o <<P("-"), X>>,
  wh_add     |-> SelRaw \o <<P("<")>> \o Now \o <<P("+"), X>>,
  wh_neg     |-> SelRaw \o <<P(">"), P("-"), XT>>,
  wh_negsp   |-> SelRaw \o <<P(">"), P("-"), X>>,
  wh_pos     |-> SelRaw \o <<P(">"), P("+"), XT>>,
  fn_arg     |-> <<Kw("SELECT"), Id("derivative"), PT("("), IdT("v"), PT(","), X, PT(")"), Kw("FROM"), Id("m")>>,
  del_wh     |-> <<Kw("DELETE"), Kw("FROM"), Id("m"), Kw("WHERE"), Id("time"), P("<")>> \o Now \o <<P("-"), X>>,
  stv_wh     |-> <<Kw("SHOW"), Kw("TAG"), Kw("VALUES"), Kw("WITH"), Kw("KEY"), P("="), Id("k"), Kw("WHERE"), Id("time"), P(">")>>
                 \o Now \o <<P("-"), X>> ]
CtxNames == DOMAIN Ctx
NeedsNonZero(c) == c \in {"cq_every", "cq_for", "cq_gb"}       \* a zero there is refused for other reasons
Signed1(c) == c \in {"wh_neg", "wh_negsp"}
AllZero(comps) == IsZero(MagSum(comps))

ParseCase(fam, neg, comps) == [k |-> "parse", fam |-> fam, neg |-> neg, comps |-> comps]
StmtCase(c, fam, comps) == [k |-> "stmt", ctx |-> c, fam |-> fam, sgn |-> Signed1(c), comps |-> comps, toks |-> Ctx[c]]
FmtCase(fam, x) == [k |-> "format", fam |-> fam, d |-> ToDec(x)]

\* ---- M on the sweep: the BigInt design twin satisfies the property on every generated spelling -----
\* accepted exactly when the exact total fits, and then with the exact total
DesignExactFor(neg, comps) ==
  LET ex == ExactSum(neg, comps)
      dz == Design(neg, comps) IN
  /\ dz.ok = Fits64(ex)
  /\ dz.ok => Eq(Signed(neg, dz.mag), ex)

\* ---- the machine: root -> cell -> leaf (the step into a leaf writes the case) ---------------
Init == st = [ph |-> "root"]

Cells ==
  (IF "thr" \in Parts THEN {[ph |-> "cell", part |-> "thr", T |-> T, u |-> UnitSpellings[i]] : T \in ThrNames, i \in 1..9} ELSE {})
  \cup (IF "sum2" \in Parts THEN {[ph |-> "cell", part |-> "sum2", T |-> T, u |-> UnitSpellings[i]] : T \in ThrNames, i \in 1..9} ELSE {})
  \cup (IF "sum3" \in Parts THEN {[ph |-> "cell", part |-> "sum3", T |-> T, u |-> UnitSpellings[i]] : T \in ThrNames, i \in 2..9} ELSE {})
  \cup (IF "small" \in Parts THEN {[ph |-> "cell", part |-> "small", n |-> n, u |-> UnitSpellings[i]] : n \in 1..3, i \in 1..9} ELSE {})
  \cup (IF "bad" \in Parts THEN {[ph |-> "cell", part |-> "bad"]} ELSE {})
  \cup (IF "fmt" \in Parts THEN {[ph |-> "cell", part |-> "fmt", sub |-> s, u |-> UnitsDesc[i]] : s \in {"pow", "thr", "mix"}, i \in 1..8}
                                 \cup {[ph |-> "cell", part |-> "fmt", sub |-> "fix"]} ELSE {})
  \cup (IF "stmt" \in Parts THEN {[ph |-> "cell", part |-> "stmt", ctx |-> c, fam |-> f] : c \in CtxNames, f \in {"thr", "sum2", "small"}} ELSE {})

Pick == /\ st.ph = "root"
        /\ \E c \in Cells : st' = c

Leaf(c) == [ph |-> "leaf", c |-> c]
EmitParse(fam, neg, comps) == /\ Write("parse", ParseCase(fam, neg, comps))
                              /\ st' = Leaf([neg |-> neg, comps |-> comps])
EmitFmt(fam, x) == /\ Fits64(x)
                   /\ Write("format", FmtCase(fam, x))
                   /\ st' = Leaf([d |-> ToDec(x)])
EmitStmt(c, fam, comps) == /\ IF NeedsNonZero(c) THEN ~AllZero(comps) ELSE TRUE
                           /\ Write("stmt", StmtCase(c, fam, comps))
                           /\ st' = Leaf([ctx |-> c, comps |-> comps])
RECURSIVE Zeros(_)
Zeros(e) == IF e = 0 THEN "" ELSE "0" \o Zeros(e - 1)
P10(e) == FromDec("1" \o Zeros(e))

EmitThr == /\ st.part = "thr"
           /\ \E k \in (-K)..K : \E neg \in BOOLEAN :
                /\ ThrOK(st.T, st.u, k)
                /\ EmitParse("thr", neg, ThrComps(st.T, st.u, k))
EmitSum2 == /\ st.part = "sum2"
            /\ \E j \in 0..J : \E dl \in (-KS)..KS : \E neg \in BOOLEAN : \E swap \in BOOLEAN :
                 /\ Sum2OK(st.T, st.u, j, dl)
                 /\ EmitParse("sum2", neg, Sum2Comps(st.T, st.u, j, dl, swap))
EmitSum3 == /\ st.part = "sum3"
            /\ \E u2 \in SmallerUnits(st.u) \ {"ns"} : \E j \in 0..J3 : \E k2 \in 1..2 : \E dl \in (-KS3)..KS3 : \E neg \in BOOLEAN :
                 /\ Sum3OK(st.T, st.u, u2, j, k2, dl)
                 /\ EmitParse("sum3", neg, Sum3Comps(st.T, st.u, u2, j, k2, dl))
EmitSmall == /\ st.part = "small"
             /\ \/ /\ st.n = 1
                   /\ \E n \in Smalls1 : \E neg \in BOOLEAN : EmitParse("small", neg, <<[n |-> n, u |-> st.u]>>)
                \/ /\ st.n = 2
                   /\ \E n1 \in Smalls2 : \E n2 \in Smalls2 : \E i \in 1..9 : \E neg \in BOOLEAN :
                        EmitParse("small", neg, <<[n |-> n1, u |-> st.u], [n |-> n2, u |-> UnitSpellings[i]]>>)
                \/ /\ st.n = 3
                   /\ \E n1 \in Smalls3 : \E n3 \in Smalls3 : \E i \in 1..9 : \E i3 \in 1..9 : \E neg \in BOOLEAN :
                        EmitParse("small", neg, <<[n |-> n1, u |-> st.u], [n |-> "2", u |-> UnitSpellings[i]], [n |-> n3, u |-> UnitSpellings[i3]]>>)
EmitBad == /\ st.part = "bad"
           /\ \E t \in BadTexts :
                /\ Write("parse", [k |-> "parse", fam |-> "bad", text |-> t])
                /\ st' = Leaf([text |-> t])
FixedValues == {Zero, FromNat(1), Neg(FromNat(1)), MaxI64, MinI64, Add(MinI64, FromNat(1)), Neg(Add(MaxI64, Neg(FromNat(1)))),
                FromNat(999), FromNat(1001), Neg(FromNat(1000)), FromDec("86399999999999"), FromDec("-604799999999999"),
                FromDec("1526290448384"), FromDec("90000000000"), FromDec("5400000000000")}
EmitFormat ==
  /\ st.part = "fmt"
  /\ IF st.sub = "fix" THEN \E x \in FixedValues : EmitFmt("fix", x)
     ELSE LET uu == Mult(st.u) IN
       IF st.sub = "pow" THEN
            \E e \in 0..18 : \E k \in (-FE)..FE : \E neg \in BOOLEAN :
               LET q == Add(P10(e), SmallI(k)) IN
               /\ ~q.neg
               /\ EmitFmt("pow", Signed(neg, Mul(q, uu)))
       ELSE IF st.sub = "thr" THEN
            \E j \in 0..FJ : \E neg \in BOOLEAN :
               LET q == Add(ThrQ("p63", st.u), SmallI(-j)) IN
               EmitFmt("thr", Signed(neg, Mul(q, uu)))
       ELSE \* mix: q u + u' for every unit u' below u, and q u +- 1: the largest dividing unit is a smaller one
            \E q \in {FromNat(1), FromNat(10), FromNat(59), Add(ThrQ("p63", st.u), SmallI(-2))} : \E neg \in BOOLEAN :
               \/ \E u2 \in SmallerUnits(st.u) : \E m \in {1, 7} : EmitFmt("mix", Signed(neg, Add(Mul(q, uu), Mul(SmallI(m), Mult(u2)))))
               \/ \E dl \in {-1, 1} : EmitFmt("mix", Signed(neg, Add(Mul(q, uu), SmallI(dl))))
EmitStatement ==
  /\ st.part = "stmt"
  /\ IF st.fam = "thr" THEN
        \E T \in ThrNames : \E i \in 1..9 : \E k \in (-SK)..SK :
           /\ ThrOK(T, UnitSpellings[i], k)
           /\ EmitStmt(st.ctx, "thr", ThrComps(T, UnitSpellings[i], k))
     ELSE IF st.fam = "sum2" THEN
        \E T \in ThrNames : \E i \in 2..9 : \E j \in 0..1 : \E dl \in (-1)..1 :
           /\ Sum2OK(T, UnitSpellings[i], j, dl)
           /\ EmitStmt(st.ctx, "sum2", Sum2Comps(T, UnitSpellings[i], j, dl, FALSE))
     ELSE
        \/ \E n \in {"0", "1", "90", "00012", "4294967296"} : \E i \in 1..9 : EmitStmt(st.ctx, "small", <<[n |-> n, u |-> UnitSpellings[i]]>>)
        \/ \E i \in 1..9 : \E i2 \in 1..9 : EmitStmt(st.ctx, "small", <<[n |-> "1", u |-> UnitSpellings[i]], [n |-> "30", u |-> UnitSpellings[i2]]>>)

Emit == /\ st.ph = "cell"
        /\ \/ EmitThr \/ EmitSum2 \/ EmitSum3 \/ EmitSmall \/ EmitBad \/ EmitFormat \/ EmitStatement
Next == Pick \/ Emit
Spec == Init /\ [][Next]_vars

\* M (TLC, on every generated spelling): the design twin is exact or rejects, and rejects only unfit totals
DesignExact == (st.ph = "leaf" /\ "comps" \in DOMAIN st.c /\ "neg" \in DOMAIN st.c)
                  => DesignExactFor(st.c.neg, st.c.comps)
=============================================================================
