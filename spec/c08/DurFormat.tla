----------------------------- MODULE DurFormat -----------------------------
(* C08 pass M (ii): design spec of influxql.FormatDuration followed by ParseDuration of
   the text it wrote, for ALL int64 values at once (one symbolic step).

     FormatDuration(d):  0 -> "0s"; otherwise the first unit of w d h m s ms u ns with
                         d % unit == 0, printed as  Sprintf("%d<unit>", d / unit)
     ParseDuration of that text: one component, |q| digits, optional '-' (see DurParse):
                         limit = MaxInt64 (+1 after '-'); error iff n > limit / unit

   The text is represented by (tneg, tq, tu): sign, digits as a number, unit multiplier.
   C08 excludes d = MinInt64 from the round trip; with the checked parser the design
   round-trips it as well (RoundTrip below has no exception).  The judge does not judge
   MinInt64 either way.                                                                  *)
EXTENDS DurCommon

VARIABLES
  \* @type: Int;
  d,
  \* @type: Bool;
  tneg,
  \* @type: Int;
  tq,
  \* @type: Int;
  tu,
  \* @type: Bool;
  perr,
  \* @type: Int;
  back,
  \* @type: Int;
  pc

Divides(a, x) == x % a = 0        \* TLA+ %: zero iff divisible, also for negative x (as Go's)
Unit(x) == IF Divides(W, x) THEN W ELSE IF Divides(D, x) THEN D ELSE IF Divides(H, x) THEN H
           ELSE IF Divides(M, x) THEN M ELSE IF Divides(S, x) THEN S ELSE IF Divides(MS, x) THEN MS
           ELSE IF Divides(US, x) THEN US ELSE NS

Init == /\ d \in MinI64..MaxI64
        /\ tneg = FALSE /\ tq = 0 /\ tu = 0 /\ perr = FALSE /\ back = 0 /\ pc = 0

Step == /\ pc = 0
        /\ LET uu  == IF d = 0 THEN S ELSE Unit(d)
               q   == d \div uu                  \* exact: uu divides d
               n   == Abs(q)                     \* the digits ParseDuration reads back (<= 2^63 <= MaxUint64)
               ng  == q < 0
               lim == IF ng THEN MaxI64 + 1 ELSE MaxI64
               bad == n > MaxU64 \/ n > lim \div uu          \* ParseUint range error, or overflow test (mag = 0)
               mg  == WrapU(n * uu)
           IN /\ tneg' = ng /\ tq' = n /\ tu' = uu
              /\ perr' = bad
              /\ back' = IF bad THEN 0 ELSE IF ng THEN Wrap(-Wrap(mg)) ELSE Wrap(mg)
        /\ pc' = 1 /\ UNCHANGED d
Next == Step

\* ---- property part -------------------------------------------------------------------
RoundTrip == pc = 1 => (~perr /\ back = d)                             \* all d, MinInt64 included
Written   == pc = 1 => (IF tneg THEN -(tq * tu) ELSE tq * tu) = d      \* the text denotes d
Largest   == (pc = 1 /\ d # 0) => (tu \in Mults /\ Divides(tu, d) /\ \A v \in Mults : v > tu => ~Divides(v, d))
ZeroAsS   == (pc = 1 /\ d = 0) => (tu = S /\ tq = 0 /\ ~tneg)
FmtAll == RoundTrip /\ Written /\ Largest /\ ZeroAsS
=============================================================================
