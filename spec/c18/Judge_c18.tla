----------------------------- MODULE Judge_c18 -----------------------------
(* Pass V for C18: every recorded history of SetTimeRange calls on a real statement is
   validated step by step.
   A record:  [id, c (initial condition, symbolic tree), wins (windows), na, nt,
               obs |-> [text, size0, steps |-> << step ... >>]  |  [perr] | [panic]]
   a step:    [cond (printed), size (nodes), lo, hi, (rt, res | nores)]   observation of the new
              condition through the real ConditionExpr / EvalBool, or [cond, size, err] when
              ConditionExpr failed, or [serr] / [panic] when SetTimeRange itself failed.

   Step k is right iff, at every grid point,
        t in [lo, hi] /\ residual(val)  <=>  start <= t < end  /\  prevNT(val)
   where prevNT is the non-time part of the previous condition: the judge's own
   Cond!HoldsNT of the initial condition for the first call, the residual observed after
   the previous call afterwards; and size(k) <= size(k-1) from the second call on.

   Classes:  ok
     Dev_TimeBoundNotPrintedAsTime  the step is wrong, the initial condition has a time bound
              with time on the right of the comparison or spelled Time / TIME, and the observed
              range and residual truth are exactly what the design spec (SetRange!SetTR, strip by
              printed left operand) predicts: the old bound survived and intersects the window
     Dev_NowBoundLeftInvalid        same cause, the surviving bound was now()-relative: the rewrite
              turned now() into `true`, ConditionExpr rejects the condition from then on - exactly
              where the design spec predicts an error
     plain-reading-differs   the selection through the splitter is right, but the condition the statement
              holds (step.sk: its boolean skeleton, leaves read by the real ConditionExpr / EvalBool), read
              as a plain boolean formula, does not select exactly start <= t < end /\ non-time part of the
              previous condition at some grid point (e.g. `a OR b AND window`: the splitter intersects time
              ranges through OR, the plain reading selects every point with a)
     printed-condition-differs   the selection through the splitter is right, but the printed condition
              (step.skp: skeleton of cond.String() parsed back) does not denote the predicate of the
              condition the statement holds (step.sk) under the plain boolean reading at some grid point:
              the printed condition the property names as an observation shows a different selection, and
              the next SetTimeRange call - which re-parses that text - silently changes the statement
     setrange-mismatch | condition-grows | setrange-error | rejected-parse | panic | unmappable
     drift:setrange   the property holds but the observation is neither the design's nor that of
              the design with the proposed repair (SetRange!Strip with fixed = TRUE)               *)
EXTENDS SetRange, Json, CSV, IOUtils

VARIABLES l, nt
vars == <<l, nt>>

Trace == ndJsonDeserialize(IOEnv.OBS_FILE)
Has(r, f) == f \in DOMAIN r

AllTrue == [j \in 1..8 |-> TRUE]
RtOf(s) == IF Has(s, "nores") THEN <<>> ELSE s.rt

\* dob: the design's observation; dfx: the observation of the design with the proposed repair
StepClass(r, i, s, w, prevNT, dob, dfx, grid) ==
  IF Has(s, "panic") THEN "panic"
  ELSE IF Has(s, "serr") THEN "setrange-error"
  ELSE
    LET failed == Has(s, "err")
        unmapped == ~failed /\ (s.lo.k = Unmappable.k \/ s.hi.k = Unmappable.k)
        holds == ~failed /\ ~unmapped /\ StepOK(s.lo, s.hi, RtOf(s), w, prevNT, grid)
        Same(d) == IF failed THEN d.err # ""
                   ELSE d.err = "" /\ s.lo = d.lo /\ s.hi = d.hi /\ RtOf(s) = d.rt
        asDesign == Same(dob)
        grows == i >= 2 /\ ~NoGrowth(r.obs.steps[i - 1].size, s.size)
        plain == ~Has(s, "sk") \/ PlainOKSk(s.sk, w, prevNT, grid)
        faithful == ~Has(s, "sk") \/ ~Has(s, "skp") \/ PrintFaithfulSk(s.sk, s.skp, grid)
        \* two statements: a copy taken after the call keeps its window when the original gets the next one, and the
        \* original keeps its window when the copy gets another one
        dragged == \/ Has(s, "cond_after_copy") /\ s.cond_after_copy # s.cond
                   \/ Has(s, "copy_cond") /\ s.copy_cond # s.cond
                   \/ Has(s, "copy_later") /\ s.copy_later # s.cond
                   \/ Has(s, "twin_later") /\ Has(s, "twin_cond") /\ s.twin_later # s.twin_cond
    IN IF unmapped THEN "unmappable"
       ELSE IF dragged THEN "copy-not-independent"
       ELSE IF ~holds THEN
              IF Unstrippable(r.c) /\ asDesign
              THEN (IF failed THEN "Dev_NowBoundLeftInvalid" ELSE "Dev_TimeBoundNotPrintedAsTime")
              ELSE "setrange-mismatch"
       ELSE IF ~plain THEN "plain-reading-differs"
       ELSE IF ~faithful THEN "printed-condition-differs"
       ELSE IF grows THEN "condition-grows"
       ELSE IF ~Same(dfx) /\ ~asDesign THEN "drift:setrange"
       ELSE "ok"

RECURSIVE StepClasses(_, _, _, _, _, _, _)
StepClasses(r, i, prevNT, dcond, fcond, grid, acc) ==
  IF i > Len(r.wins) \/ i > Len(r.obs.steps) THEN acc
  ELSE LET s == r.obs.steps[i]
           w == r.wins[i]
           dnext == SetTRx(dcond, w, FALSE, ParenTopOr)
           fnext == SetTRx(fcond, w, TRUE, ParenTopOr)
           cls == StepClass(r, i, s, w, prevNT, Observe(dnext), Observe(fnext), grid)
           \* "every other predicate is kept": an empty window selects nothing whatever is kept, so what the NEXT call
           \* has to keep is still what this one had to keep
           nextNT == IF ~Lt(w.s, w.e) THEN prevNT ELSE IF Has(s, "rt") THEN s.rt ELSE IF Has(s, "nores") THEN AllTrue ELSE prevNT
       IN StepClasses(r, i + 1, nextNT, dnext, fnext, grid, Append(acc, cls))

Priority == <<"panic", "setrange-error", "copy-not-independent", "setrange-mismatch", "plain-reading-differs", "printed-condition-differs", "condition-grows", "unmappable",
              "Dev_NowBoundLeftInvalid", "Dev_TimeBoundNotPrintedAsTime", "drift:setrange">>
FirstIdx(cs, c) == CHOOSE i \in 1..Len(cs) : cs[i] = c /\ \A j \in 1..(i - 1) : cs[j] # c

V(class, sig) == [ok |-> FALSE, class |-> class, sig |-> sig]
OK == [ok |-> TRUE, class |-> "ok", sig |-> ""]

Verdict(r) ==
  LET o == r.obs IN
  IF Has(o, "panic") \/ Has(o, "harness_panic") THEN V("panic", "parse")
  ELSE IF Has(o, "perr") THEN V("rejected-parse", "")
  ELSE IF Len(o.steps) = 0 THEN V("machinery:no-steps", "")
  ELSE LET cs == StepClasses(r, 1, NTTable(r.c), Lower(r.c), Lower(r.c), HistGrid(r.c, r.wins), <<>>)
           bad == {p \in 1..Len(Priority) : \E i \in 1..Len(cs) : cs[i] = Priority[p]}
       IN IF bad = {} THEN OK
          ELSE LET p == CHOOSE q \in bad : \A q2 \in bad : q <= q2
               IN V(Priority[p], "first at call " \o ToString(FirstIdx(cs, Priority[p])))

\* non-trivial: there is an earlier time bound to replace and more than one window
NonTrivial(r) == r.nt >= 1 /\ Len(r.wins) >= 2

Init == l = 1 /\ nt = 0
Step == /\ l <= Len(Trace)
        /\ LET r == Trace[l] v == Verdict(r) IN
             /\ IF v.ok THEN TRUE
                ELSE CSVWrite("%1$s", <<ToJson([id |-> r.id, class |-> v.class, sig |-> v.sig])>>, IOEnv.VERDICT_FILE)
             /\ nt' = nt + (IF NonTrivial(r) THEN 1 ELSE 0)
        /\ l' = l + 1
Finish == /\ l = Len(Trace) + 1
          /\ CSVWrite("%1$s", <<ToJson([judged |-> Len(Trace), nontrivial |-> nt])>>, IOEnv.STATS_FILE)
          /\ l' = l + 1 /\ UNCHANGED nt
Next == Step \/ Finish
Spec == Init /\ [][Next]_vars
Accepted == TLCGet("stats").diameter = Len(Trace) + 2
=============================================================================
