------------------------------ MODULE SetRange ------------------------------
(* C18 - SetTimeRange replaces earlier time bounds, over any sequence of windows.

   (P) the property, read literally and observed, as it prescribes, through the
       splitter: after SetTimeRange(w) the statement selects exactly the points with
       w.s <= time < w.e that satisfy the non-time part of its previous condition,
            t in [lo, hi] /\ residual(val)   <=>   w.s <= t < w.e  /\  prevNT(val)
       at every grid point ([lo, hi], residual = ConditionExpr of the new condition), and
       from the second call on the condition does not grow.  The range itself is not
       prescribed: for a condition that no point satisfies (`false`) any range is right.

   (D) the design: ast.go SelectStatement.SetTimeRange on AST records -
       rewriteWithoutTimeDimensions (a BinaryExpr whose *printed* left operand is exactly
       `time` becomes true; every Call becomes true), the old condition printed and joined
       with `AND time >= 'start' AND time < 'end'` WITHOUT parentheses, re-parsed
       (PrecOps!Reparse: the print -> ParseExpr regrouping model that C03 validates against
       the real parser) and folded by Reduce (TimeSplit!ReduceTop).

   The property is judged on three observations of the statement after each call: through the
   splitter (StepOK), the plain boolean reading of the condition itself (PlainOKAst / PlainOKSk) and
   the printed condition parsed back (PrintFaithful).

   Windows are [s |-> instant, e |-> instant].                                            *)
EXTENDS TimeSplit

CONSTANT FixedStrip,  \* TRUE: the rewrite recognises time on either side, any case (repair bbd7903).  FALSE: before it
         ParenTopOr   \* TRUE: a stripped condition that is a top-level OR is joined as `( ... ) AND window`
                      \*       (repair adfd172).  FALSE: joined without parentheses, as before it

PO == INSTANCE PrecOps

\* ================================================================ (P) property
WindowHolds(w, t) == Le(w.s, t) /\ Lt(t, w.e)
\* prevNT: truth table (Cond!ValIdx) of the non-time part of the condition before the call
StepOKAt(lo, hi, rt, w, prevNT, t, val) ==
  (InRange(lo, hi, t) /\ ResTruth(rt, val)) <=> (WindowHolds(w, t) /\ prevNT[ValIdx(val)])
\* = \A t \in grid : \A val \in Vals : StepOKAt(lo, hi, rt, w, prevNT, t, val), written over the positions
\* 1..8 of the truth tables (ValIdx is a bijection from Vals) so that the two time tests are made once per instant
StepOK(lo, hi, rt, w, prevNT, grid) ==
  \A t \in grid : LET ir == InRange(lo, hi, t) wt == WindowHolds(w, t) IN
                   \A j \in 1..8 : (ir /\ (rt = <<>> \/ rt[j])) <=> (wt /\ prevNT[j])
NoGrowth(before, after) == after <= before

\* the non-time part of an initial condition (symbolic tree) as a truth table
ValAt(j) == ValSeq[j]
NTTable(c) == [j \in 1..8 |-> HoldsNT(c, ValAt(j))]

\* the non-time part of a condition given as AST: every comparison that mentions the time
\* column - on either side, however spelled - counts as true
RECURSIVE NonTimeHolds(_, _)
NonTimeHolds(e, val) ==
  CASE e.k = "BinaryExpr" ->
         IF e.Op = "AND" THEN NonTimeHolds(e.LHS, val) /\ NonTimeHolds(e.RHS, val)
         ELSE IF e.Op = "OR" THEN NonTimeHolds(e.LHS, val) \/ NonTimeHolds(e.RHS, val)
         ELSE IF IsTimeRef(e.LHS) \/ IsTimeRef(e.RHS) THEN TRUE
         ELSE EvalB(e, val)
    [] e.k = "ParenExpr" -> NonTimeHolds(e.Expr, val)
    [] OTHER -> EvalB(e, val)
NTTableAst(e) == [j \in 1..8 |-> NonTimeHolds(e, ValAt(j))]

\* ---- the printed condition is an observation of the statement as well (and the text the next call
\* re-parses): its plain boolean reading must be the boolean reading of the condition the statement
\* holds.  Skeletons (harness/suite_c18.go c18Skeleton): AND / OR / parentheses as they stand,
\* [n |-> "time", lo, hi] for a comparison the real splitter turns into a range, [n |-> "nt", rt] for any
\* other leaf (truth table under the real EvalBool), [n |-> "bool", b], [n |-> "bad"] for a leaf it rejects.
RECURSIVE SkHolds(_, _, _)
SkHolds(sk, t, val) ==
  CASE sk.n = "par" -> SkHolds(sk.e, t, val)
    [] sk.n = "and" -> SkHolds(sk.l, t, val) /\ SkHolds(sk.r, t, val)
    [] sk.n = "or" -> SkHolds(sk.l, t, val) \/ SkHolds(sk.r, t, val)
    [] sk.n = "bool" -> sk.b
    [] sk.n = "time" -> InRange(sk.lo, sk.hi, t)
    [] sk.n = "nt" -> sk.rt[ValIdx(val)]
    [] OTHER -> FALSE
RECURSIVE SkBad(_)
SkBad(sk) == CASE sk.n = "par" -> SkBad(sk.e)
               [] sk.n \in {"and", "or"} -> SkBad(sk.l) \/ SkBad(sk.r)
               [] sk.n = "time" -> sk.lo.k = Unmappable.k \/ sk.hi.k = Unmappable.k
               [] sk.n \in {"bool", "nt"} -> FALSE
               [] OTHER -> TRUE
SamePredicate(a, b, grid) == \A t \in grid : \A val \in Vals : SkHolds(a, t, val) = SkHolds(b, t, val)
\* the printed form (skeleton b of the text parsed back) denotes the predicate of the tree (skeleton a)
PrintFaithfulSk(a, b, grid) == a = b \/ (~SkBad(a) /\ ~SkBad(b) /\ SamePredicate(a, b, grid))

\* the same on the design's AST records: plain boolean reading of a condition
RECURSIVE AstHolds(_, _, _)
AstHolds(e, t, val) ==
  CASE e.k = "BinaryExpr" ->
         IF e.Op = "AND" THEN AstHolds(e.LHS, t, val) /\ AstHolds(e.RHS, t, val)
         ELSE IF e.Op = "OR" THEN AstHolds(e.LHS, t, val) \/ AstHolds(e.RHS, t, val)
         ELSE IF IsTimeRef(e.LHS) THEN (IF e.RHS.k = "TLit" THEN Rel(e.Op, t, e.RHS.i) ELSE FALSE)
         ELSE IF IsTimeRef(e.RHS) THEN (IF e.LHS.k = "TLit" THEN Rel(e.Op, e.LHS.i, t) ELSE FALSE)
         ELSE EvalB(e, val)
    [] e.k = "ParenExpr" -> AstHolds(e.Expr, t, val)
    [] OTHER -> EvalB(e, val)
\* (P, plain reading) the condition the statement holds, read as a plain boolean formula, selects exactly
\* the points with start <= t < end that satisfy the non-time part of the previous condition
PlainOKAst(e, w, prevNT, grid) ==
  \A t \in grid : \A val \in Vals : AstHolds(e, t, val) <=> (WindowHolds(w, t) /\ prevNT[ValIdx(val)])
\* (evaluation only) when no time leaf stands under an OR node the skeleton is a conjunction of time leaves and
\* time-free sub-formulas, so SkHolds(sk, t, val) = SkTimePart(sk, t) /\ SkNTPart(sk, val): |grid| + 8 evaluations
\* instead of |grid| * 8.  With a time leaf under an OR the direct definition is used.
RECURSIVE SkTimeUnderOr(_, _)
SkTimeUnderOr(sk, under) ==
  CASE sk.n = "par" -> SkTimeUnderOr(sk.e, under)
    [] sk.n = "and" -> SkTimeUnderOr(sk.l, under) \/ SkTimeUnderOr(sk.r, under)
    [] sk.n = "or" -> SkTimeUnderOr(sk.l, TRUE) \/ SkTimeUnderOr(sk.r, TRUE)
    [] sk.n = "time" -> under
    [] OTHER -> FALSE
RECURSIVE SkTimePart(_, _)
SkTimePart(sk, t) ==
  CASE sk.n = "par" -> SkTimePart(sk.e, t)
    [] sk.n = "and" -> SkTimePart(sk.l, t) /\ SkTimePart(sk.r, t)
    [] sk.n = "time" -> InRange(sk.lo, sk.hi, t)
    [] OTHER -> TRUE
RECURSIVE SkNTPart(_, _)
SkNTPart(sk, val) ==
  CASE sk.n = "par" -> SkNTPart(sk.e, val)
    [] sk.n = "and" -> SkNTPart(sk.l, val) /\ SkNTPart(sk.r, val)
    [] sk.n = "or" -> SkNTPart(sk.l, val) \/ SkNTPart(sk.r, val)
    [] sk.n = "bool" -> sk.b
    [] sk.n = "time" -> TRUE
    [] sk.n = "nt" -> sk.rt[ValIdx(val)]
    [] OTHER -> FALSE
PlainOKSk(sk, w, prevNT, grid) ==
  /\ ~SkBad(sk)
  /\ IF SkTimeUnderOr(sk, FALSE)
     THEN \A t \in grid : \A val \in Vals : SkHolds(sk, t, val) <=> (WindowHolds(w, t) /\ prevNT[ValIdx(val)])
     ELSE LET np == [j \in 1..8 |-> SkNTPart(sk, ValSeq[j])] IN
          \A t \in grid : LET tp == SkTimePart(sk, t) wt == WindowHolds(w, t) IN
                           \A j \in 1..8 : (tp /\ np[j]) <=> (wt /\ prevNT[j])

PrintFaithful(e, grid) == LET back == PO!Reparse(e) IN
                          back = e \/ \A t \in grid : \A val \in Vals : AstHolds(e, t, val) = AstHolds(back, t, val)

\* grid of a history: around every bound of the initial condition and every window end
WinEnds(ws) == UNION {{ws[i].s, ws[i].e} : i \in 1..Len(ws)}
HistGrid(c, ws) == GridOf(BoundsOf(c) \cup WinEnds(ws))

\* ================================================================== (D) design
\* a now()-relative literal contains a Call; after the rewrite it is `true +- d`, an
\* expression that is no literal any more
Junk == [k |-> "Junk"]
PrintsAsTime(x) == x.k = "VarRef" /\ x.Val = "time"

\* fixed = FALSE: the rewrite as it is.  TRUE: the proposed repair (time on either side, any case)
RECURSIVE Strip(_, _)
Strip(e, fixed) ==
  CASE e.k = "BinaryExpr" ->
         LET lh == Strip(e.LHS, fixed)
             rh == Strip(e.RHS, fixed)
         IN IF (IF fixed THEN IsTimeRef(lh) \/ IsTimeRef(rh) ELSE PrintsAsTime(lh))
            THEN BoolL(TRUE) ELSE Bin(e.Op, lh, rh)
    [] e.k = "ParenExpr" -> Paren(Strip(e.Expr, fixed))
    [] e.k = "TLit" -> IF e.f = "now" THEN Junk ELSE e
    [] OTHER -> e

WinLit(i) == [k |-> "TLit", i |-> i, f |-> "rfc"]
\* rewriteWithoutTimeDimensions: the stripped condition as it is printed into the new text
Joined(c, fixed, paren) == LET st == Strip(c, fixed) IN
                           IF paren /\ st.k = "BinaryExpr" /\ st.Op = "OR" THEN Paren(st) ELSE st
Appended(c, w, fixed, paren) == Bin("AND", Bin("AND", Joined(c, fixed, paren), Bin(">=", Ref("time"), WinLit(w.s))),
                                    Bin("<", Ref("time"), WinLit(w.e)))
\* SetTimeRange: strip, print + append, re-parse, Reduce
SetTRx(c, w, fixed, paren) == ReduceTop(PO!Reparse(Appended(c, w, fixed, paren)))
SetTR(c, w) == SetTRx(c, w, FixedStrip, ParenTopOr)

\* the initial condition is a bare top-level OR (joined without parentheses by the unrepaired code)
RootIsOr(c) == c.n = "or" \/ (c.n = "leaf" /\ c.x.a = "or" /\ ~c.x.par)

\* the initial condition has a time bound that the (unrepaired) rewrite cannot see
Unstrippable(c) == \E x \in SeqRange(TimeAtomsOf(c)) : x.side = "R" \/ x.sp \in {"Time", "TIME"}

\* the design's observation of a condition through the splitter
Observe(cond) == LET r == CondExpr(cond) IN
                 [err |-> r.err, lo |-> r.tr.min, hi |-> r.tr.max,
                  rt |-> IF r.err = "" THEN TruthTable(r.res) ELSE <<>>]
=============================================================================
