SPECIFICATION Spec
CONSTANTS
  EdgeMap = FALSE
  FixedStrip = TRUE
POSTCONDITION Accepted
CHECK_DEADLOCK FALSE
