SPECIFICATION Spec
CONSTANTS
  EdgeMap = FALSE
  FixedStrip = TRUE
  ParenTopOr = TRUE
POSTCONDITION Accepted
CHECK_DEADLOCK FALSE
