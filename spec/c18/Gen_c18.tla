------------------------------ MODULE Gen_c18 ------------------------------
(* Pass M + G for C18.  State: the initial condition (built atom by atom from Alpha.tla,
   then fixed with one parenthesisation), the current condition as AST and the windows
   applied so far.  Action SetTimeRange is the design's SetTimeRange.

   M (invariants, every state):
     StepHolds     after each call the property's selection holds for the design's
                   observation - unless the initial condition has a time bound the rewrite
                   cannot see (SetRange!Unstrippable: time on the right of the comparison,
                   or spelled Time / TIME): the named deviations of the current tree.  With
                   FixedStrip = TRUE (the proposed repair) there is no exemption.
     PlainHolds    after each call the plain boolean reading of the condition selects the same set -
                   unless ParenTopOr = FALSE and the initial condition is a bare top-level OR
     NoGrowthInv   from the second call on the condition does not grow
     PrintFaithfulInv  printing the condition and parsing it back keeps its plain boolean reading
     NTAgree       the two readings of "non-time part" (tree / AST) agree on the initial condition
   G: the call that completes a history of MaxCalls windows emits it as one case.        *)
EXTENDS SetRange, Alpha, Json, CSV, IOUtils

CONSTANTS WinIds,     \* windows used, subset of 1..5
          MaxCalls,
          MinAtoms,   \* initial conditions have MinAtoms..MaxAtoms atoms (smaller ones belong to another part)
          TopOr       \* TRUE: also the unparenthesised `a OR b` as a whole initial condition

VARIABLES atoms, phase, init, cond, wins, prevNT, prevSize
vars == <<atoms, phase, init, cond, wins, prevNT, prevSize>>

CaseFile == IOEnv.CASE_FILE
\* the edges of the range of time literals and two instants far outside it (year 1500: base -1, year 2300: base 6)
BasesFar == {0 - 1, 0, 5, 6}

\* 1, 2: successive disjoint windows; 3 overlaps both; 4 later; 5 odd nanosecond ends inside 2; 6, 7 select nothing
Win(i) == CASE i = 1 -> [s |-> I(1, 0), e |-> I(2, 0)]
            [] i = 2 -> [s |-> I(2, 0), e |-> I(3, 0)]
            [] i = 3 -> [s |-> I(1, 0), e |-> I(3, 0)]
            [] i = 4 -> [s |-> I(3, 0), e |-> I(4, 0)]
            [] i = 5 -> [s |-> I(2, 1), e |-> I(3, -1)]
            \* 6 empty, 7 reversed: nothing is selected - and the next window applies like any other
            [] i = 6 -> [s |-> I(2, 0), e |-> I(2, 0)]
            [] i = 7 -> [s |-> I(3, 0), e |-> I(2, 0)]

NoTree == [n |-> "none"]
\* bare top-level OR conditions (no parentheses around the OR): `a OR b`, `a OR b OR c`, `a OR b AND c`,
\* `a AND b OR c`, with tag and field predicates
TA == Leaf(Tag("t1", "=", "x"))
TB == Leaf(Tag("t2", "=", "y"))
TC == Leaf(Fld(">", 1))
TD == Leaf(Tag("t1", "!=", "x"))
TopOrs == {Leaf([a |-> "or", l |-> Tag("t1", "=", "x"), r |-> Tag("t2", "=", "y"), par |-> FALSE]),
           Leaf([a |-> "or", l |-> Tag("t1", "!=", "x"), r |-> Fld(">", 1), par |-> FALSE]),
           OrT(TA, TB), OrT(OrT(TA, TB), TC), OrT(TA, And(TB, TC)), OrT(And(TD, TB), TC),
           OrT(Leaf(Fld("=", 1)), And(Leaf(Tag("t2", "=", "y")), Leaf(Tag("t1", "=", "y")))),
           OrT(TD, Par(And(TB, TC)))}

Emit(c, ws) == CSVWrite("%1$s", <<ToJson([c |-> c, toks |-> Toks(c), wins |-> ws,
                                          na |-> Len(AtomsOf(c)), nt |-> Len(TimeAtomsOf(c))])>>, CaseFile)

Init == /\ atoms = <<>> /\ phase = "build" /\ init = NoTree /\ cond = Nil
        /\ wins = <<>> /\ prevNT = <<>> /\ prevSize = 0

Add == /\ phase = "build" /\ Len(atoms) < MaxAtoms
       /\ \E x \in AlphaAfter(atoms) : atoms' = Append(atoms, x)
       /\ UNCHANGED <<phase, init, cond, wins, prevNT, prevSize>>

Begin(c) == /\ init' = c /\ cond' = Lower(c) /\ phase' = "run"
            /\ UNCHANGED <<atoms, wins, prevNT, prevSize>>
Start == /\ phase = "build"
         /\ \/ Len(atoms) >= MinAtoms /\ \E c \in Conds(atoms) : Begin(c)
            \/ TopOr /\ atoms = <<>> /\ \E c \in TopOrs : Begin(c)

SetTimeRange == /\ phase = "run" /\ Len(wins) < MaxCalls
        /\ \E i \in WinIds :
             LET w == Win(i) ws == Append(wins, w) IN
             /\ cond' = SetTR(cond, w)
             /\ wins' = ws
             /\ prevNT' = NTTableAst(cond)
             /\ prevSize' = Size(cond)
             /\ IF Len(ws) = MaxCalls THEN Emit(init, ws) ELSE TRUE
        /\ UNCHANGED <<atoms, phase, init>>

Next == Add \/ Start \/ SetTimeRange
Spec == Init /\ [][Next]_vars

Called == phase = "run" /\ Len(wins) >= 1
StepHoldsNow == LET o == Observe(cond) IN
                o.err = "" /\ StepOK(o.lo, o.hi, o.rt, wins[Len(wins)], prevNT, HistGrid(init, wins))
StepHolds == Called => (StepHoldsNow \/ (~FixedStrip /\ Unstrippable(init)))
\* the plain boolean reading of the condition selects what the property says - unless the code still joins
\* a bare top-level OR without parentheses (ParenTopOr = FALSE) or cannot see a time bound (FixedStrip = FALSE)
PlainHoldsNow == PlainOKAst(cond, wins[Len(wins)], prevNT, HistGrid(init, wins))
PlainHolds == Called => (PlainHoldsNow \/ (~ParenTopOr /\ RootIsOr(init)) \/ (~FixedStrip /\ Unstrippable(init)))
\* the same with no exemption: violated by the design with ParenTopOr = FALSE (the check runs that once and
\* requires the counterexample, so the model is known to exhibit the old defect)
PlainHoldsStrict == Called => PlainHoldsNow
NoGrowthInv == (Called /\ Len(wins) >= 2) => NoGrowth(prevSize, Size(cond))
\* the condition the statement holds prints to a text that denotes the same predicate (plain boolean
\* reading) - before the first call and after every call
PrintFaithfulInv == phase = "run" => PrintFaithful(cond, HistGrid(init, wins))
NTAgree == (phase = "run" /\ wins = <<>>) => NTTableAst(cond) = NTTable(init)
=============================================================================
