SPECIFICATION Spec
CONSTANTS
  Cores <- T_functions_Cores
  GroupBys <- T_functions_GroupBys
  Befores <- T_functions_Befores
  Afters <- T_functions_Afters
  Srcs <- T_functions_Srcs
  Conds <- T_functions_Conds
  Schemas <- T_functions_Schemas
INVARIANTS InvIdempotent InvNoWildLeft InvErrOnlyUnspec InvSorted InvExactStar InvDesignDeviatesOnlyWhereNamed
CHECK_DEADLOCK FALSE
