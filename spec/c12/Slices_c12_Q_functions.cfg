SPECIFICATION Spec
CONSTANTS
  Cores <- Q_functions_Cores
  GroupBys <- Q_functions_GroupBys
  Befores <- Q_functions_Befores
  Afters <- Q_functions_Afters
  Srcs <- Q_functions_Srcs
  Conds <- Q_functions_Conds
  Schemas <- Q_functions_Schemas
INVARIANTS InvIdempotent InvNoWildLeft InvErrOnlyUnspec InvSorted InvExactStar InvDesignDeviatesOnlyWhereNamed
CHECK_DEADLOCK FALSE
