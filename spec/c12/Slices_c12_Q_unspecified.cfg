SPECIFICATION Spec
CONSTANTS
  Cores <- Q_unspecified_Cores
  GroupBys <- Q_unspecified_GroupBys
  Befores <- Q_unspecified_Befores
  Afters <- Q_unspecified_Afters
  Srcs <- Q_unspecified_Srcs
  Conds <- Q_unspecified_Conds
  Schemas <- Q_unspecified_Schemas
INVARIANTS InvIdempotent InvNoWildLeft InvErrOnlyUnspec InvSorted InvExactStar InvDesignDeviatesOnlyWhereNamed
CHECK_DEADLOCK FALSE
