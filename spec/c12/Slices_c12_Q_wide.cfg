SPECIFICATION Spec
CONSTANTS
  Cores <- Q_wide_Cores
  GroupBys <- Q_wide_GroupBys
  Befores <- Q_wide_Befores
  Afters <- Q_wide_Afters
  Srcs <- Q_wide_Srcs
  Conds <- Q_wide_Conds
  Schemas <- Q_wide_Schemas
INVARIANTS InvIdempotent InvNoWildLeft InvErrOnlyUnspec InvSorted InvExactStar InvDesignDeviatesOnlyWhereNamed
CHECK_DEADLOCK FALSE
