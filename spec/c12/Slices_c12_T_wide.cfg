SPECIFICATION Spec
CONSTANTS
  Cores <- T_wide_Cores
  GroupBys <- T_wide_GroupBys
  Befores <- T_wide_Befores
  Afters <- T_wide_Afters
  Srcs <- T_wide_Srcs
  Conds <- T_wide_Conds
  Schemas <- T_wide_Schemas
INVARIANTS InvIdempotent InvNoWildLeft InvErrOnlyUnspec InvSorted InvExactStar InvDesignDeviatesOnlyWhereNamed
CHECK_DEADLOCK FALSE
