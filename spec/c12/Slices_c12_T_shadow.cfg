SPECIFICATION Spec
CONSTANTS
  Cores <- T_shadow_Cores
  GroupBys <- T_shadow_GroupBys
  Befores <- T_shadow_Befores
  Afters <- T_shadow_Afters
  Srcs <- T_shadow_Srcs
  Conds <- T_shadow_Conds
  Schemas <- T_shadow_Schemas
INVARIANTS InvIdempotent InvNoWildLeft InvErrOnlyUnspec InvSorted InvExactStar InvDesignDeviatesOnlyWhereNamed
CHECK_DEADLOCK FALSE
