SPECIFICATION Spec
CONSTANTS
  Cores <- Q_typepairs_Cores
  GroupBys <- Q_typepairs_GroupBys
  Befores <- Q_typepairs_Befores
  Afters <- Q_typepairs_Afters
  Srcs <- Q_typepairs_Srcs
  Conds <- Q_typepairs_Conds
  Schemas <- Q_typepairs_Schemas
INVARIANTS InvIdempotent InvNoWildLeft InvErrOnlyUnspec InvSorted InvExactStar InvDesignDeviatesOnlyWhereNamed
CHECK_DEADLOCK FALSE
