------------------------------ MODULE Gen_c12 ------------------------------
(* Pass G (+ what can be model-checked, pass M) for C12.

   TLC enumerates SELECT statements - wildcard kind x position x GROUP BY x extra
   fields before / after x sources x WHERE - and schemas, inside the sets given as
   constants by the .cfg (checks/c12.py writes one .cfg per slice of the product).
   For every pair the completing action emits one case:
       toks     token records of the statement text (spec/common/Tok.tla)
       stmt     the statement in projected-AST normal form (what the parser must build)
       schema   wire form of the schema (Wildcard!Wire)
       want     Expand(stmt, schema)        or   wanterr
       names, regexes   the spec's assumptions about Go string order and regexp matching
   and the invariants below are checked on every completed pair.                      *)
EXTENDS Wildcard, Tok, Json, CSV, IOUtils

CONSTANTS Cores,     \* set of <<kind, position, fn, fn2>>  (or <<kinds, "multi", fns, "">>, see CoreFs)
          GroupBys,  \* set of tuples of dimension items
          Befores,   \* ids of extra fields before the wildcard field
          Afters,    \* ids of extra fields after it
          Srcs,      \* set of tuples of source items ("m1" "m2" "m3" or a subquery id)
          Conds,     \* ids of WHERE conditions
          Schemas    \* ids of schemas (Sch)

VARIABLES ph, ch, out
vars == <<ph, ch, out>>
CaseFile == IOEnv.CASE_FILE

\* ------------------------------------------------------------------ expression pieces: AST + tokens
X(e, t) == [e |-> e, t |-> t]
Tight(ts) == [ts EXCEPT ![1].g = "T"]
RECURSIVE JoinComma(_)
JoinComma(tss) == IF Len(tss) = 0 THEN <<>>
                  ELSE IF Len(tss) = 1 THEN tss[1]
                  ELSE tss[1] \o <<PT(",")>> \o JoinComma(Tail(tss))

TypeTok(ty) == IF ty \in {"field", "tag"} THEN KwT(ty) ELSE IdT(ty)
XRef(n)      == X(Ref(n), <<Id(n)>>)
XRefT(n, ty) == X(RefT(n, ty), <<Id(n), PT("::"), TypeTok(ty)>>)
XStar(ty)    == X(Wild(ty), IF ty = "" THEN <<P("*")>>
                            ELSE <<P("*"), PT("::"), KwT(IF ty = "FIELD" THEN "field" ELSE "tag")>>)
XRe(re)      == X(ReL(re), <<Re(re)>>)
\* Tok!Int is shadowed by Integers!Int (SequencesExt extends Integers): local integer token
TokInt(s)    == [t |-> "int", s |-> s, g |-> "L"]
XInt(v)      == X(IntL(v), <<TokInt(v)>>)
XStr(v)      == X(StrL(v), <<Str(v)>>)
XDur1m       == X(DurL("60000000000"), <<Dur("1m")>>)
XCall(name, args) == X(Call(name, [i \in DOMAIN args |-> args[i].e]),
                       <<Id(name), PT("(")>> \o Tight(JoinComma([i \in DOMAIN args |-> args[i].t])) \o <<PT(")")>>)
XBin(op, lhs, rhs) == X(Bin(op, lhs.e, rhs.e), lhs.t \o <<OpTok(op)>> \o rhs.t)
XParen(x)    == X(Paren(x.e), <<P("(")>> \o Tight(x.t) \o <<PT(")")>>)

KindX(k) == CASE k = "*" -> XStar("")
              [] k = "*::field" -> XStar("FIELD")
              [] k = "*::tag" -> XStar("TAG")
              [] OTHER -> XRe(k)          \* every other kind is a regex pattern of Wildcard!RegexSet
ExtraArgs(fn) == CASE fn \in {"holt_winters", "holt_winters_with_fit"} -> <<XInt("1"), XInt("2")>>
                   [] fn \in {"sample", "percentile", "top", "bottom"} -> <<XInt("2")>>
                   [] OTHER -> <<>>

\* the field that carries the wildcard; c = <<kind, position, fn, fn2>>
CoreX(c) ==
  LET k == c[1] pos == c[2] IN
  CASE pos = "plain" -> XRef("a")                                          \* no field wildcard at all
    [] pos = "field" -> KindX(k)                                           \* whole field
    [] pos = "arg"   -> XCall(c[3], <<KindX(k)>> \o ExtraArgs(c[3]))       \* first argument
    [] pos = "nest"  -> XCall(c[3], <<XCall(c[4], <<KindX(k)>> \o ExtraArgs(c[4]))>> \o ExtraArgs(c[3]))
    [] pos = "nest3" -> XCall(c[3], <<XCall(c[4], <<XCall(c[4], <<KindX(k)>> \o ExtraArgs(c[4]))>>)>>)
    [] pos = "arg2"  -> XCall("top", <<XRef("a"), KindX(k), XInt("2")>>)   \* unspecified positions ...
    [] pos = "bin"   -> XBin("+", XCall("mean", <<KindX(k)>>), XInt("1"))
    [] pos = "binw"  -> XBin("+", XRef("a"), KindX(k))
    [] pos = "paren" -> XParen(KindX(k))

FP(x)     == [f |-> Field(x.e), t |-> x.t]
\* the field(s) of a core.  Position "multi": c = <<kinds, "multi", fns, "">> with two tuples of
\* equal length - field i is fns[i](kinds[i], ...) or, for fns[i] = "", the whole field kinds[i]:
\* several wildcard / regex call fields in ONE statement (each must get its own type filter).
CoreFs(c) ==
  IF c[2] = "multi"
  THEN [i \in DOMAIN c[3] |-> IF c[3][i] = "" THEN FP(KindX(c[1][i]))
                               ELSE FP(XCall(c[3][i], <<KindX(c[1][i])>> \o ExtraArgs(c[3][i])))]
  ELSE <<FP(CoreX(c))>>
FPA(x, a) == [f |-> FieldA(x.e, a), t |-> x.t \o <<Kw("AS"), Id(a)>>]
DP(x)     == [d |-> Dim(x.e), t |-> x.t]

ExtraF(id) ==
  CASE id = "" -> <<>>
    [] id = "a" -> <<FP(XRef("a"))>>
    [] id = "c" -> <<FP(XRef("c"))>>
    [] id = "b" -> <<FP(XRef("b"))>>
    [] id = "mx" -> <<FP(XRef("mx"))>>
    [] id = "x" -> <<FP(XRef("x"))>>
    [] id = "host" -> <<FP(XRef("host"))>>
    [] id = "b::float" -> <<FP(XRefT("b", "float"))>>
    [] id = "host::tag" -> <<FP(XRefT("host", "tag"))>>
    [] id = "c::field" -> <<FP(XRefT("c", "field"))>>
    [] id = "host::field" -> <<FP(XRefT("host", "field"))>>
    [] id = "x::field" -> <<FP(XRefT("x", "field"))>>
    [] id = "mean(b)" -> <<FP(XCall("mean", <<XRef("b")>>))>>
    [] id = "max(c) AS mc" -> <<FPA(XCall("max", <<XRef("c")>>), "mc")>>
    [] id = "a AS aa" -> <<FPA(XRef("a"), "aa")>>
    [] id = "a+b" -> <<FP(XBin("+", XRef("a"), XRef("b")))>>
    [] id = "(c)*2" -> <<FP(XBin("*", XParen(XRef("c")), XInt("2")))>>
    [] id = "a,b::integer" -> <<FP(XRef("a")), FP(XRefT("b", "integer"))>>

DimX(it) == CASE it = "time" -> XCall("time", <<XDur1m>>)
              [] it \in {"*", "*::tag"} -> KindX(it)
              [] it \in Names -> XRef(it)
              [] OTHER -> XRe(it)
CondX(id) == CASE id = "b>1" -> XBin(">", XRef("b"), XInt("1"))
               [] id = "host" -> XBin("=", XRef("host"), XStr("h1"))
               [] id = "and" -> XBin("AND", XBin(">", XRef("a"), XInt("0")), XBin("=", XRef("region"), XStr("r")))
               [] id = "typed" -> XBin("<", XRefT("c", "integer"), XRef("x"))

RECURSIVE HasCall(_)
HasCall(e) == CASE e.k = "Call" -> TRUE
                [] e.k = "BinaryExpr" -> HasCall(e.LHS) \/ HasCall(e.RHS)
                [] e.k = "ParenExpr" -> HasCall(e.Expr)
                [] OTHER -> FALSE

\* a SELECT statement from field / source / condition (<<>> or <<x>>) / dimension pieces
MkSelect(fps, sps, cond, dps) ==
  [s |-> [k |-> "SelectStatement",
          Fields |-> [i \in DOMAIN fps |-> fps[i].f],
          Sources |-> [i \in DOMAIN sps |-> sps[i].s]]
         @@ OptB("IsRawQuery", \A i \in DOMAIN fps : ~HasCall(fps[i].f.Expr))
         @@ OptSeq("Dimensions", [i \in DOMAIN dps |-> dps[i].d])
         @@ (IF cond = <<>> THEN <<>> ELSE [Condition |-> cond[1].e]),
   t |-> <<Kw("SELECT")>> \o JoinComma([i \in DOMAIN fps |-> fps[i].t])
         \o <<Kw("FROM")>> \o JoinComma([i \in DOMAIN sps |-> sps[i].t])
         \o (IF cond = <<>> THEN <<>> ELSE <<Kw("WHERE")>> \o cond[1].t)
         \o (IF dps = <<>> THEN <<>> ELSE <<Kw("GROUP"), Kw("BY")>> \o JoinComma([i \in DOMAIN dps |-> dps[i].t]))]

MeasX(n) == [s |-> Meas("", "", n), t |-> <<Id(n)>>]
SubX(sel) == [s |-> SubQ(sel.s), t |-> <<P("(")>> \o Tight(sel.t) \o <<PT(")")>>]
M1 == MeasX("m1")
M2 == MeasX("m2")

\* subqueries: plain refs, aliased refs, calls, an own wildcard (whole field), depth 1 and 2
RECURSIVE SubSel(_)
SubSel(id) ==
  CASE id = "s_ab"     -> MkSelect(<<FP(XRef("a")), FP(XRef("b"))>>, <<M1>>, <<>>, <<>>)
    [] id = "s_star"   -> MkSelect(<<FP(XStar(""))>>, <<M1>>, <<>>, <<>>)
    [] id = "s_calls"  -> MkSelect(<<FP(XCall("mean", <<XRef("a")>>)), FPA(XCall("max", <<XRef("b")>>), "mx")>>,
                                   <<M1>>, <<>>, <<DP(XRef("host"))>>)
    [] id = "s_alias2" -> MkSelect(<<FPA(XRef("a"), "mx"), FP(XRef("c"))>>, <<M1, M2>>, <<>>,
                                   <<DP(XRef("host")), DP(XRef("region"))>>)
    [] id = "s_stargb" -> MkSelect(<<FP(XStar(""))>>, <<M1, M2>>, <<>>, <<DP(XRef("host"))>>)
    \* a column named like a tag of the other sources
    [] id = "s_ahost"  -> MkSelect(<<FPA(XRef("a"), "host"), FP(XRef("b"))>>, <<M1>>, <<>>, <<>>)
    [] id = "s_x"      -> MkSelect(<<FP(XRef("x")), FP(XCall("count", <<XRef("a")>>))>>, <<M1>>, <<CondX("b>1")>>, <<>>)
    [] id = "s_fld"    -> MkSelect(<<FP(XStar("FIELD")), FPA(XRef("host"), "x")>>, <<M1>>, <<>>, <<DP(XCall("time", <<XDur1m>>))>>)
    [] id = "s_dimall" -> MkSelect(<<FP(XRe("a|b"))>>, <<M1>>, <<>>, <<DP(XStar(""))>>)
    [] id = "s2_ab_star"     -> MkSelect(<<FP(XRef("a")), FP(XRef("b"))>>, <<SubX(SubSel("s_star"))>>, <<>>, <<>>)
    [] id = "s2_star_calls"  -> MkSelect(<<FP(XStar(""))>>, <<SubX(SubSel("s_calls"))>>, <<>>, <<>>)
    [] id = "s2_star_dimall" -> MkSelect(<<FP(XStar(""))>>, <<SubX(SubSel("s_dimall"))>>, <<>>, <<DP(XRef("host"))>>)
    [] id = "s2_c_stargb"    -> MkSelect(<<FP(XRef("c")), FPA(XCall("max", <<XRef("a")>>), "mx")>>,
                                         <<SubX(SubSel("s_stargb")), M2>>, <<>>, <<DP(XRef("region"))>>)

\* the same measurement name in two databases: two different measurements
MeasDbX(db, n) == [s |-> Meas(db, "", n), t |-> <<Id(db), PT("."), PT("."), IdT(n)>>]
SrcItem(it) == IF it \in {"m1", "m2", "m3"} THEN MeasX(it)
               ELSE IF it = "d1..m1" THEN MeasDbX("d1", "m1") ELSE IF it = "d2..m1" THEN MeasDbX("d2", "m1")
               ELSE SubX(SubSel(it))

\* the statement of a choice record
TopSel(c) ==
  MkSelect(ExtraF(c.bf) \o CoreFs(c.core) \o ExtraF(c.af),
           [i \in DOMAIN c.src |-> SrcItem(c.src[i])],
           IF c.cond = "none" THEN <<>> ELSE <<CondX(c.cond)>>,
           [i \in DOMAIN c.gb |-> DP(DimX(c.gb[i]))])

\* ------------------------------------------------------------------ schemas
Ms(fields, tags) == [fields |-> fields, tags |-> tags]
TypeSeq == <<"float", "integer", "unsigned", "string", "boolean", "-">>
OneField(n, t) == IF t = "-" THEN <<>> ELSE [x \in {n} |-> t]
Sch(id) ==
  CASE id = 1 -> <<>>                                                         \* no measurement known
    [] id = 2 -> [m1 |-> Ms(<<>>, {})]                                        \* known, no columns
    [] id = 3 -> [m1 |-> Ms([a |-> "float"], {})]
    [] id = 4 -> [m1 |-> Ms([a |-> "float", b |-> "integer", c |-> "unsigned"], {"host", "region"})]
    [] id = 5 -> [m1 |-> Ms([a |-> "string", b |-> "boolean"], {"host"})]
    [] id = 6 -> [m1 |-> Ms([a |-> "float", b |-> "integer"], {"host", "region"}),
                  m2 |-> Ms([a |-> "integer", b |-> "string", c |-> "boolean"], {"host"})]
    [] id = 7 -> [m1 |-> Ms([a |-> "unsigned", c |-> "string"], {"host"}),
                  m2 |-> Ms([a |-> "integer", c |-> "boolean"], {"region"})]
    [] id = 8 -> [m1 |-> Ms([a |-> "float", b |-> "integer"], {"a", "host"})]              \* tag a shadows field a
    [] id = 9 -> [m1 |-> Ms([c |-> "unsigned", b |-> "boolean"], {"c", "host", "region"})] \* tag c shadows unsigned c
    [] id = 10 -> [m1 |-> Ms(<<>>, {"host", "region"})]                                    \* tags only
    [] id = 11 -> [m1 |-> Ms([a |-> "float"], {"host"}), m2 |-> Ms(<<>>, {"a", "region"})] \* m2's tag shadows m1's field
    [] id = 12 -> [m2 |-> Ms([a |-> "boolean", b |-> "float", c |-> "integer"], {"region"})] \* m1 unknown
    [] id = 13 -> [m1 |-> Ms([a |-> "unsigned", b |-> "unsigned", c |-> "float"], {"host"}),
                   m2 |-> Ms([a |-> "string", b |-> "float", c |-> "unsigned"], {"host", "region"})]
    [] id = 14 -> [m1 |-> Ms([a |-> "integer", b |-> "string", c |-> "boolean"], {"region"})]
    [] id = 15 -> [m1 |-> Ms([a |-> "boolean"], {"host", "region"}), m2 |-> Ms([a |-> "unsigned"], {})]
    [] id = 16 -> [m1 |-> Ms([host |-> "float", a |-> "integer"], {"host"})]               \* field host shadows tag host
    [] id = 17 -> [m1 |-> Ms([x |-> "string", mean |-> "float", b |-> "unsigned"], {"region", "count"})]
    [] id = 18 -> [m1 |-> Ms([a |-> "float", b |-> "integer", c |-> "unsigned", x |-> "string", mx |-> "boolean"], {"host"})] \* all five types
    [] id = 19 -> [m1 |-> Ms([a |-> "float"], {"host", "region"})]                          \* exactly one field, two tags
    [] id = 20 -> [m1 |-> Ms([c |-> "integer"], {"a"})]                                     \* one field, one tag
    \* every pair of field types (or absence) for the same name in two measurements
    [] id \in 100..135 -> LET t1 == TypeSeq[((id - 100) \div 6) + 1] t2 == TypeSeq[((id - 100) % 6) + 1] IN
                          [m1 |-> Ms(OneField("a", t1) @@ [b |-> "integer"], {"host"}),
                           m2 |-> Ms(OneField("a", t2) @@ [c |-> "boolean"], {"host", "region"})]
    \* one measurement: field a of every type, tags any subset of {a, host}
    [] id \in 200..219 -> LET t == TypeSeq[((id - 200) \div 4) + 1] j == (id - 200) % 4 IN
                          [m1 |-> Ms([a |-> t], (IF j \in {1, 3} THEN {"a"} ELSE {}) \cup (IF j \in {2, 3} THEN {"host"} ELSE {}))]

    \* one measurement name in two databases (and without database), with different columns and conflicting types
    [] id = 400 -> [m1 |-> Ms([x |-> "unsigned"], {"host"})]
                   @@ [k \in {"d1..m1"} |-> Ms([a |-> "float", b |-> "integer"], {"host"})]
                   @@ [k \in {"d2..m1"} |-> Ms([a |-> "string", c |-> "boolean"], {"region"})]
    [] id = 401 -> [k \in {"d1..m1"} |-> Ms([a |-> "integer"], {"host"})] @@ [k \in {"d2..m1"} |-> Ms([a |-> "float", b |-> "unsigned"], {"host", "region"})]
    \* wide schemas: more than 12 columns, with a tag shadowing a field of the same name among them
    [] id = 300 -> [m1 |-> Ms([n \in ToSet(WideNames) |-> "integer"] @@ [a |-> "float"], {"a", "host", "w05"})]
    [] id = 301 -> [m1 |-> Ms([a |-> "float", b |-> "string"], ToSet(WideNames) \cup {"a", "b", "host"})]
    [] id = 302 -> [m1 |-> Ms([n \in {"w01", "w02", "w03", "w04", "w05", "w06"} |-> "float"] @@ [a |-> "integer"], {"w03", "host"}),
                    m2 |-> Ms([n \in {"w04", "w05", "w06", "w07", "w08", "w09", "w10"} |-> "integer"] @@ [c |-> "boolean"], {"w08", "a", "region"})]
    [] id = 303 -> [m1 |-> Ms([n \in ToSet(WideNames) |-> "unsigned"] @@ [x |-> "boolean", host |-> "string"], {"host", "w12", "x", "region"})]

\* ------------------------------------------------------------------ the machine
NoCase == [k |-> "none"]
MkCase(c, sid) ==
  LET S == Sch(sid)
      sel == TopSel(c)
      w == Expand(sel.s, S)
  IN [toks |-> sel.t, stmt |-> sel.s, schema |-> Wire(S), sid |-> sid, names |-> NameOrder,
      regexes |-> RegexWire, kind |-> (IF c.core[2] = "multi" THEN "multi" ELSE c.core[1]), pos |-> c.core[2]]
     @@ (IF IsErr(w) THEN [wanterr |-> w.why] ELSE [want |-> w])

Init == ph = 0 /\ ch = <<>> /\ out = NoCase
Pick == /\ ph = 0
        /\ \E core \in Cores, gb \in GroupBys, bf \in Befores, af \in Afters, src \in Srcs, cond \in Conds :
             ch' = [core |-> core, gb |-> gb, bf |-> bf, af |-> af, src |-> src, cond |-> cond]
        /\ ph' = 1 /\ UNCHANGED out
Emit == /\ ph = 1
        /\ \E sid \in Schemas :
             LET c == MkCase(ch, sid) IN
             /\ out' = [stmt |-> c.stmt, sid |-> sid] @@ (IF Has(c, "want") THEN [want |-> c.want] ELSE [wanterr |-> c.wanterr])
             /\ CSVWrite("%1$s", <<ToJson(c)>>, CaseFile)
        /\ ph' = 2 /\ UNCHANGED ch
Next == Pick \/ Emit
Spec == Init /\ [][Next]_vars

\* ------------------------------------------------------------------ pass M: what TLC checks on every pair
ASSUME LessThanIsRank                      \* the ranking is DataType.LessThan
ASSUME \A re \in RegexSet : ReMatch(re) \subseteq Names

Done == ph = 2
OkCase == Done /\ Has(out, "want")
RECURSIVE NoWild(_)
NoWild(s) == /\ ~HasFieldWild(s) /\ ~HasDimWild(s)
             /\ \A i \in DOMAIN s.Sources : s.Sources[i].k = "SubQuery" => NoWild(s.Sources[i].Statement)

\* expanding an expanded statement changes nothing - unless a wildcard produced a column the schema has no type for
\* ( * over the subquery `SELECT a AS host ...` where no measurement has a field a): written out, that column is an
\* untyped reference like any other and "receives its schema type" from whichever source knows the name
UntypedColumn(s) == \E i \in DOMAIN FieldsOf(s) : FieldsOf(s)[i].Expr.k = "VarRef" /\ TypeOf(FieldsOf(s)[i].Expr) = ""
InvIdempotent == OkCase /\ ~UntypedColumn(out.want) => Expand(out.want, Sch(out.sid)) = out.want
\* no wildcard is left (whatever the schema), unless it stands in an unspecified position
InvNoWildLeft == OkCase /\ ~HasUnspec(out.stmt) => NoWild(out.want)
\* an error is predicted only for unspecified positions
InvErrOnlyUnspec == Done /\ Has(out, "wanterr") => HasUnspec(out.stmt)
\* a single wildcard field expands to columns in non-decreasing name order (strictly inside calls);
\* a single wildcard dimension to strictly increasing tag keys
ColName(f) == IF f.Expr.k = "VarRef" THEN f.Expr.Val ELSE Inner(f.Expr).Args[1].Val
InvSorted ==
  OkCase /\ ~HasUnspec(out.stmt) =>
    /\ Len(FieldsOf(out.stmt)) = 1 /\ HasFieldWild(out.stmt) =>
         LET fs == FieldsOf(out.want) IN
         \A i, j \in DOMAIN fs : i < j =>
            IF fs[i].Expr.k = "Call" THEN NameRank(ColName(fs[i])) < NameRank(ColName(fs[j]))
            ELSE NameRank(ColName(fs[i])) <= NameRank(ColName(fs[j]))
    /\ Len(DimsOf(out.stmt)) = 1 /\ HasDimWild(out.stmt) =>
         LET ds == DimsOf(out.want) IN
         \A i, j \in DOMAIN ds : i < j => NameRank(ds[i].Expr.Val) < NameRank(ds[j].Expr.Val)
\* `SELECT * FROM <measurements>` without GROUP BY: exactly the schema's columns, read off the schema directly
InvExactStar ==
  OkCase /\ Len(FieldsOf(out.stmt)) = 1 /\ FieldsOf(out.stmt)[1].Expr = Wild("") /\ DimsOf(out.stmt) = <<>>
         /\ (\A i \in DOMAIN out.stmt.Sources : out.stmt.Sources[i].k = "Measurement") =>
    LET S == Sch(out.sid)
        ms == {SrcKey(out.stmt.Sources[i]) : i \in DOMAIN out.stmt.Sources} \cap DOMAIN S
        fnames == UNION {DOMAIN S[m].fields : m \in ms}
        direct == {<<n, MaxType({S[m].fields[n] : m \in {x \in ms : n \in DOMAIN S[x].fields}})>> : n \in fnames}
                  \cup {<<t, "tag">> : t \in UNION {S[m].tags : m \in ms}}
        got == {<<f.Expr.Val, TypeOf(f.Expr)>> : f \in ToSet(FieldsOf(out.want))}
    IN got = direct /\ Len(FieldsOf(out.want)) = Cardinality(direct)
\* the code's design leaves the property only on the two named shapes
InvDesignDeviatesOnlyWhereNamed ==
  OkCase => (CanonR(ExpandM(out.stmt, Sch(out.sid), Design)) = CanonR(out.want) \/ DevPossible(out.stmt, Sch(out.sid)))
=============================================================================
