SPECIFICATION Spec
CONSTANTS
  Cores <- Q_positions_Cores
  GroupBys <- Q_positions_GroupBys
  Befores <- Q_positions_Befores
  Afters <- Q_positions_Afters
  Srcs <- Q_positions_Srcs
  Conds <- Q_positions_Conds
  Schemas <- Q_positions_Schemas
INVARIANTS InvIdempotent InvNoWildLeft InvErrOnlyUnspec InvSorted InvExactStar InvDesignDeviatesOnlyWhereNamed
CHECK_DEADLOCK FALSE
