SPECIFICATION Spec
CONSTANTS
  Cores <- T_positions_Cores
  GroupBys <- T_positions_GroupBys
  Befores <- T_positions_Befores
  Afters <- T_positions_Afters
  Srcs <- T_positions_Srcs
  Conds <- T_positions_Conds
  Schemas <- T_positions_Schemas
INVARIANTS InvIdempotent InvNoWildLeft InvErrOnlyUnspec InvSorted InvExactStar InvDesignDeviatesOnlyWhereNamed
CHECK_DEADLOCK FALSE
