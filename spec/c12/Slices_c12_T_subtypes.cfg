SPECIFICATION Spec
CONSTANTS
  Cores <- T_subtypes_Cores
  GroupBys <- T_subtypes_GroupBys
  Befores <- T_subtypes_Befores
  Afters <- T_subtypes_Afters
  Srcs <- T_subtypes_Srcs
  Conds <- T_subtypes_Conds
  Schemas <- T_subtypes_Schemas
INVARIANTS InvIdempotent InvNoWildLeft InvErrOnlyUnspec InvSorted InvExactStar InvDesignDeviatesOnlyWhereNamed
CHECK_DEADLOCK FALSE
