SPECIFICATION Spec
CONSTANTS
  Cores <- T_sources_Cores
  GroupBys <- T_sources_GroupBys
  Befores <- T_sources_Befores
  Afters <- T_sources_Afters
  Srcs <- T_sources_Srcs
  Conds <- T_sources_Conds
  Schemas <- T_sources_Schemas
INVARIANTS InvIdempotent InvNoWildLeft InvErrOnlyUnspec InvSorted InvExactStar InvDesignDeviatesOnlyWhereNamed
CHECK_DEADLOCK FALSE
