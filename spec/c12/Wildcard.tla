------------------------------ MODULE Wildcard ------------------------------
(* C12 - wildcard expansion (SelectStatement.RewriteFields), property part.

   Expand(stmt, S) is the property of properties.jsonl read literally, on statement
   records in the projected-AST normal form (spec/common/Ast.tla):

     * every `*`, `*::field`, `*::tag` or /regex/ standing as a whole field, as the first
       argument of a possibly nested call, or as a GROUP BY dimension is replaced by
       exactly the matching schema columns, sorted by name, carrying their schema types;
     * tags are left out of calls, and out of the fields when the statement already
       groups by them (named in GROUP BY, or produced by a GROUP BY wildcard / regex);
     * the per-function type filter is part of "matching columns";
     * every other field stays in place; untyped references (also in WHERE) receive their
       schema type; the result is a function of statement and schema only.

   A schema S maps a measurement name to [fields : name -> type, tags : set of names];
   the schema of a subquery source is its output columns (fields typed by their
   expressions, VarRef dimensions as tags).  Types across several sources merge by the
   precedence of DataType.LessThan, transcribed below (LessThanCode) and checked against
   the declarative ranking TypeRank by the assumption LessThanIsRank.

   ExpandM(stmt, S, md) is the same operator with three switches that describe what the
   current code does instead (its "design"); Property = all off:
     md.dimAll     any GROUP BY wildcard or regex removes ALL tags from the field columns
                   (the property: only the tags the statement groups by)
     md.needField  without a single field column no tag is expanded into the fields
     md.firstCol   a reference to a subquery column takes the type of the FIRST output column
                   of that name (the property: the merged type of the columns of that name)
   The judge uses the switches only to recognise the named deviations.

   Wildcards in positions the property does not speak about (second argument, inside a
   binary expression or parentheses, `*::tag` inside a call) are "unspecified":
   the design leaves them alone or fails; HasUnspec tells the judge not to demand that. *)
EXTENDS Naturals, Sequences, FiniteSets, TLC, Ast, SequencesExt

Has(r, f) == f \in DOMAIN r

\* ------------------------------------------------------------------ names
\* The name universe in Go's string order (the driver logs sort.Strings of it and the
\* judge compares: a wrong order here is a machinery failure, never a violation).
\* w01 .. w12 only occur in the wide schemas (more than 12 expanded columns: beyond the length up to which
\* Go's sort.Sort is an insertion sort, i.e. happens to be stable)
WideNames == <<"w01", "w02", "w03", "w04", "w05", "w06", "w07", "w08", "w09", "w10", "w11", "w12">>
NameOrder == <<"a", "b", "c", "count", "host", "max", "mean", "mx", "region">> \o WideNames \o <<"x">>
Names == ToSet(NameOrder)
NameRank(n) == CHOOSE i \in DOMAIN NameOrder : NameOrder[i] = n
SortNames(set) == SetToSortSeq(set, LAMBDA p, q : NameRank(p) < NameRank(q))

\* Regular expressions are restricted to patterns whose match set over the universe is
\* written down here; the driver logs the real regexp's match set for every case.
\* the last two: fully anchored alternations of literals written in another order than the columns are sorted, one name twice
RegexOrder == <<"^a", "a|b", "host", ".*", "^h", "o", "zz", "^[abc]$", "^(region|host)$", "^(max|host|max)$">>
RegexSet == ToSet(RegexOrder)
ReMatch(re) == CASE re = "^a"      -> {"a"}
                 [] re = "a|b"     -> {"a", "b", "max", "mean"}
                 [] re = "host"    -> {"host"}
                 [] re = ".*"      -> Names
                 [] re = "^h"      -> {"host"}
                 [] re = "o"       -> {"count", "host", "region"}
                 [] re = "zz"      -> {}
                 [] re = "^[abc]$" -> {"a", "b", "c"}
                 [] re = "^(region|host)$" -> {"host", "region"}
                 [] re = "^(max|host|max)$" -> {"host", "max"}
Matches(re, n) == n \in ReMatch(re)

\* ------------------------------------------------------------------ types
FieldTypes == {"float", "integer", "unsigned", "string", "boolean"}
AllTypes == FieldTypes \cup {"time", "duration", "tag", "field", ""}
\* declarative precedence: float > integer > unsigned > string > boolean > ... > tag > field > unknown
TypeRank(t) == CASE t = "float" -> 9 [] t = "integer" -> 8 [] t = "unsigned" -> 7
                 [] t = "string" -> 6 [] t = "boolean" -> 5 [] t = "time" -> 4
                 [] t = "duration" -> 3 [] t = "tag" -> 2 [] t = "field" -> 1 [] t = "" -> 0
MaxType(ts) == CHOOSE t \in ts : \A u \in ts : TypeRank(u) <= TypeRank(t)

\* DataType.LessThan (ast.go), transcribed on the numeric codes of the constants
Code(t) == CASE t = "" -> 0 [] t = "float" -> 1 [] t = "integer" -> 2 [] t = "string" -> 3
             [] t = "boolean" -> 4 [] t = "time" -> 5 [] t = "duration" -> 6 [] t = "tag" -> 7
             [] t = "field" -> 8 [] t = "unsigned" -> 9
LessThanCode(d, o) == IF d = 0 THEN TRUE
                      ELSE IF d = 9 THEN o # 0 /\ o <= 2
                      ELSE IF o = 9 THEN d >= 3
                      ELSE o # 0 /\ o < d
LessThanIsRank == \A d, o \in AllTypes :
                    d # o => (LessThanCode(Code(d), Code(o)) <=> TypeRank(d) < TypeRank(o))

\* ------------------------------------------------------------------ record access
FieldsOf(s) == IF Has(s, "Fields") THEN s.Fields ELSE <<>>
DimsOf(s)   == IF Has(s, "Dimensions") THEN s.Dimensions ELSE <<>>
ArgsOf(c)   == IF Has(c, "Args") THEN c.Args ELSE <<>>
TypeOf(e)   == IF Has(e, "Type") THEN e.Type ELSE ""
Without(r, f)    == [x \in DOMAIN r \ {f} |-> r[x]]
With(r, f, v)    == [x \in {f} |-> v] @@ Without(r, f)
WithSeq(r, f, s) == IF s = <<>> THEN Without(r, f) ELSE With(r, f, s)
MapSeq(s, Op(_)) == [i \in DOMAIN s |-> Op(s[i])]

IsWild(e) == e.k \in {"Wildcard", "RegexLiteral"}
RECURSIVE WildCount(_)
WildCount(e) == CASE IsWild(e) -> 1
                  [] e.k = "Call" -> FoldLeft(LAMBDA acc, x : acc + WildCount(x), 0, ArgsOf(e))
                  [] e.k = "BinaryExpr" -> WildCount(e.LHS) + WildCount(e.RHS)
                  [] e.k = "ParenExpr" -> WildCount(e.Expr)
                  [] OTHER -> 0
HasWildNode(e) == WildCount(e) > 0
HasFieldWild(s) == \E i \in DOMAIN FieldsOf(s) : HasWildNode(FieldsOf(s)[i].Expr)
HasDimWild(s)   == \E i \in DOMAIN DimsOf(s) : IsWild(DimsOf(s)[i].Expr)

\* the call that holds the wildcard: descend through first arguments while they are calls
RECURSIVE Inner(_)
Inner(c) == IF ArgsOf(c) # <<>> /\ c.Args[1].k = "Call" THEN Inner(c.Args[1]) ELSE c
RECURSIVE Subst(_, _)
Subst(c, v) == IF c.Args[1].k = "Call" THEN [c EXCEPT !.Args = [@ EXCEPT ![1] = Subst(c.Args[1], v)]]
               ELSE [c EXCEPT !.Args = [@ EXCEPT ![1] = v]]
\* "first argument of a possibly nested function call"
CallForm(e) == e.k = "Call" /\ ArgsOf(Inner(e)) # <<>> /\ IsWild(Inner(e).Args[1])
TagWildInCall(e) == CallForm(e) /\ Inner(e).Args[1].k = "Wildcard" /\ TypeOf(Inner(e).Args[1]) = "TAG"

\* Field.Name(): alias, else call name / reference name (other forms are never subquery fields here)
FieldName(f) == IF Has(f, "Alias") THEN f.Alias
                ELSE CASE f.Expr.k = "Call" -> f.Expr.Name
                       [] f.Expr.k = "VarRef" -> f.Expr.Val
                       [] OTHER -> ""

\* ------------------------------------------------------------------ schema of sources
\* a schema is keyed by measurement; a measurement written with a database is another measurement than the one
\* of the same name written without (key "db..name")
SrcKey(src) == IF Has(src, "Database") THEN src.Database \o ".." \o src.Name ELSE src.Name
EmptyCols == [fields |-> <<>>, tags |-> {}]

\* the FieldMapper's CallType, as implemented by the harness (harness/suite_c12.go)
CallType(name, argtypes) == IF name = "mean" THEN "float"
                            ELSE IF name = "count" THEN "integer"
                            ELSE IF argtypes # <<>> THEN argtypes[1] ELSE ""

SubFieldsNamed(sub, n) == SelectSeq(FieldsOf(sub), LAMBDA f : FieldName(f) = n)
SubDimNames(sub) == {d.Expr.Val : d \in {x \in ToSet(DimsOf(sub)) : x.Expr.k = "VarRef"}}

RECURSIVE ExprType(_, _, _, _), RefType(_, _, _, _), SrcRefType(_, _, _, _), SubColType(_, _, _, _)
\* merged type of the output columns of subquery statement `sub` (already expanded) named n
SubColType(sub, n, S, md) ==
  MaxType({ExprType(f.Expr, sub.Sources, S, md) : f \in ToSet(SubFieldsNamed(sub, n))} \cup {""})
\* schema type of name n in one source.  Several output columns of a subquery may carry the
\* same name (a tag shadowing a field, after the subquery's own `*`): the schema type of the
\* name is their merged type, exactly as for the wildcard columns (md.firstCol: the design
\* takes the first column of that name instead - FieldExprByName).
SrcRefType(n, src, S, md) ==
  IF src.k = "Measurement"
  THEN IF Has(src, "Name") /\ SrcKey(src) \in DOMAIN S
       THEN LET m == S[SrcKey(src)] IN
            IF n \in DOMAIN m.fields THEN m.fields[n] ELSE IF n \in m.tags THEN "tag" ELSE ""
       ELSE ""
  ELSE LET sub == src.Statement
           fs == SubFieldsNamed(sub, n)
           t == IF md.firstCol
                THEN IF fs = <<>> THEN "" ELSE ExprType(fs[1].Expr, sub.Sources, S, md)
                ELSE SubColType(sub, n, S, md)
       IN IF t # "" THEN t ELSE IF n \in SubDimNames(sub) THEN "tag" ELSE ""
RefType(n, srcs, S, md) == MaxType({SrcRefType(n, srcs[i], S, md) : i \in DOMAIN srcs} \cup {""})
\* type of a (subquery) field expression: "subquery outputs typed by their expressions"
ExprType(e, srcs, S, md) ==
  CASE e.k = "VarRef" -> IF TypeOf(e) \notin {"", "field"} THEN e.Type ELSE RefType(e.Val, srcs, S, md)
    [] e.k = "Call" -> CallType(e.Name, [i \in DOMAIN ArgsOf(e) |-> ExprType(ArgsOf(e)[i], srcs, S, md)])
    [] e.k = "ParenExpr" -> ExprType(e.Expr, srcs, S, md)
    [] e.k = "NumberLiteral" -> "float"
    [] e.k = "IntegerLiteral" -> "integer"
    [] e.k = "UnsignedLiteral" -> "unsigned"
    [] e.k = "StringLiteral" -> "string"
    [] e.k = "BooleanLiteral" -> "boolean"
    [] OTHER -> ""

SrcCols(src, S, md) ==
  IF src.k = "Measurement"
  THEN IF Has(src, "Name") /\ SrcKey(src) \in DOMAIN S THEN S[SrcKey(src)] ELSE EmptyCols
  ELSE LET sub == src.Statement
           ns == {FieldName(f) : f \in ToSet(FieldsOf(sub))}
       IN [fields |-> [n \in ns |-> SubColType(sub, n, S, md)], tags |-> SubDimNames(sub)]
\* merged columns of all sources
Cols(srcs, S, md) ==
  LET cs == [i \in DOMAIN srcs |-> SrcCols(srcs[i], S, md)]
      fns == UNION {DOMAIN cs[i].fields : i \in DOMAIN srcs}
  IN [fields |-> [n \in fns |-> MaxType({cs[i].fields[n] : i \in {j \in DOMAIN srcs : n \in DOMAIN cs[j].fields}})],
      tags |-> UNION {cs[i].tags : i \in DOMAIN srcs}]

\* ------------------------------------------------------------------ typing references
\* "untyped field references receive their schema type": a reference without a type (or
\* cast to ::field) takes the merged schema type of its name; a name the schema does not
\* know, and a tag behind a ::field cast, stay as written.
RECURSIVE TypeExpr(_, _, _, _)
TypeExpr(e, srcs, S, md) ==
  CASE e.k = "VarRef" ->
         IF TypeOf(e) \notin {"", "field"} THEN e
         ELSE LET t == RefType(e.Val, srcs, S, md) IN
              IF t = "" \/ (t = "tag" /\ TypeOf(e) = "field") THEN e
              ELSE [k |-> "VarRef", Val |-> e.Val, Type |-> t]
    [] e.k = "Call" -> IF Has(e, "Args")
                       THEN [e EXCEPT !.Args = [i \in DOMAIN e.Args |-> TypeExpr(e.Args[i], srcs, S, md)]]
                       ELSE e
    [] e.k = "BinaryExpr" -> [e EXCEPT !.LHS = TypeExpr(e.LHS, srcs, S, md), !.RHS = TypeExpr(e.RHS, srcs, S, md)]
    [] e.k = "ParenExpr" -> [e EXCEPT !.Expr = TypeExpr(e.Expr, srcs, S, md)]
    [] OTHER -> e

\* ------------------------------------------------------------------ matching columns
Property == [dimAll |-> FALSE, needField |-> FALSE, firstCol |-> FALSE]
Design   == [dimAll |-> TRUE, needField |-> TRUE, firstCol |-> TRUE]

\* tags the statement groups by: named, or produced by a GROUP BY wildcard / regex
GroupedTags(stmt, cols) ==
  UNION {LET e == DimsOf(stmt)[i].Expr IN
         CASE e.k = "VarRef" -> {e.Val}
           [] e.k = "Wildcard" -> cols.tags
           [] e.k = "RegexLiteral" -> {t \in cols.tags : Matches(e.Val.s, t)}
           [] OTHER -> {}
         : i \in DOMAIN DimsOf(stmt)}
FieldTags(stmt, cols, md) ==
  IF md.needField /\ DOMAIN cols.fields = {} THEN {}
  ELSE IF md.dimAll /\ HasDimWild(stmt) THEN {}
  ELSE cols.tags \ GroupedTags(stmt, cols)
\* the columns a field wildcard ranges over, sorted by name (a field before the tag of the
\* same name: the property does not order equal names, the judge does not either; the
\* design orders equal names by the numeric DataType code - VarRefs.Less - which decides
\* what "the first column of that name" is under md.firstCol)
ColSeq(stmt, cols, md) ==
  LET fc == {[n |-> x, t |-> cols.fields[x], o |-> 0] : x \in DOMAIN cols.fields}
      tc == {[n |-> x, t |-> "tag", o |-> 1] : x \in FieldTags(stmt, cols, md)}
      Key(c) == IF md.firstCol THEN NameRank(c.n) * 32 + Code(c.t) * 2 + c.o ELSE NameRank(c.n) * 2 + c.o
  IN SetToSortSeq(fc \cup tc, LAMBDA p, q : Key(p) < Key(q))

\* per-function type filter: part of "matching columns"
Supported(fn) ==
  CASE fn \in {"count", "first", "last", "distinct", "elapsed", "mode", "sample"}
         -> {"float", "integer", "unsigned", "string", "boolean"}
    [] fn \in {"min", "max"} -> {"float", "integer", "unsigned", "boolean"}
    [] fn \in {"holt_winters", "holt_winters_with_fit"} -> {"float", "integer"}
    [] OTHER -> {"float", "integer", "unsigned"}

WildAccepts(w, c) ==
  IF w.k = "Wildcard"
  THEN CASE TypeOf(w) = "FIELD" -> c.t # "tag"
         [] TypeOf(w) = "TAG" -> c.t = "tag"
         [] OTHER -> TRUE
  ELSE Matches(w.Val.s, c.n)

ColField(c) == Field(RefT(c.n, c.t))
ExpandField(f, cs) ==
  LET e == f.Expr IN
  IF IsWild(e)
  THEN MapSeq(SelectSeq(cs, LAMBDA c : WildAccepts(e, c)), ColField)
  ELSE IF CallForm(e)
  THEN LET in == Inner(e)
           w == in.Args[1]
           sel == SelectSeq(cs, LAMBDA c : /\ c.t # "tag"
                                           /\ c.t \in Supported(in.Name)
                                           /\ (w.k = "RegexLiteral" => Matches(w.Val.s, c.n)))
       IN [i \in DOMAIN sel |-> Field(Subst(e, RefT(sel[i].n, sel[i].t)))]   \* alias: not part of the property
  ELSE <<f>>

\* ExpandDims: every dimension wildcard / regex becomes the (matching) tag keys, sorted
ExpandDims(stmt, cols) ==
  LET ts == SortNames(cols.tags)
      DimOf(n) == Dim(Ref(n))
      One(d) == IF d.Expr.k = "Wildcard" THEN MapSeq(ts, DimOf)
                ELSE IF d.Expr.k = "RegexLiteral"
                THEN MapSeq(SelectSeq(ts, LAMBDA t : Matches(d.Expr.Val.s, t)), DimOf)
                ELSE <<d>>
  IN FlattenSeq(MapSeq(DimsOf(stmt), One))

\* positions the property does not speak about
UnspecField(f) == LET e == f.Expr IN
                  HasWildNode(e) /\ ~IsWild(e) /\ ~(CallForm(e) /\ ~TagWildInCall(e) /\ WildCount(e) = 1)
RECURSIVE HasUnspec(_)
HasUnspec(stmt) == \/ \E i \in DOMAIN FieldsOf(stmt) : UnspecField(FieldsOf(stmt)[i])
                   \/ \E i \in DOMAIN stmt.Sources : stmt.Sources[i].k = "SubQuery" /\ HasUnspec(stmt.Sources[i].Statement)
\* the design fails on these (RewriteFields returns an error)
FieldErr(f) == TagWildInCall(f.Expr) \/ (f.Expr.k = "BinaryExpr" /\ HasWildNode(f.Expr))

Err(why) == [k |-> "error", why |-> why]
IsErr(x) == x.k = "error"

RECURSIVE ExpandM(_, _, _)
ExpandM(stmt, S, md) ==
  LET src0 == stmt.Sources
      subs == [i \in DOMAIN src0 |-> IF src0[i].k = "SubQuery" THEN ExpandM(src0[i].Statement, S, md) ELSE src0[i]]
  IN IF \E i \in DOMAIN src0 : src0[i].k = "SubQuery" /\ IsErr(subs[i]) THEN Err("subquery")
     ELSE
     LET srcs == [i \in DOMAIN src0 |-> IF src0[i].k = "SubQuery" THEN SubQ(subs[i]) ELSE src0[i]]
         tf == [i \in DOMAIN FieldsOf(stmt) |-> [FieldsOf(stmt)[i] EXCEPT !.Expr = TypeExpr(@, srcs, S, md)]]
         s1 == With(stmt, "Sources", srcs)
         s2 == IF Has(stmt, "Condition") THEN With(s1, "Condition", TypeExpr(stmt.Condition, srcs, S, md)) ELSE s1
         s3 == WithSeq(s2, "Fields", tf)
     IN IF \E i \in DOMAIN tf : FieldErr(tf[i]) THEN Err("unsupported wildcard position")
        ELSE IF ~HasFieldWild(s3) /\ ~HasDimWild(s3) THEN s3
        ELSE LET cols == Cols(srcs, S, md)
                 cs == ColSeq(s3, cols, md)
                 nf == FlattenSeq([i \in DOMAIN tf |-> ExpandField(tf[i], cs)])
                 nd == ExpandDims(s3, cols)
             IN WithSeq(WithSeq(s3, "Fields", nf), "Dimensions", nd)

Expand(stmt, S) == ExpandM(stmt, S, Property)

\* ------------------------------------------------------------------ canonical form
\* Two statements are compared modulo exactly what the property leaves open: the order of a
\* field and a tag column of the SAME name, a `::field` cast that could not be resolved to a
\* type (kept or dropped), an explicit ::tag on a GROUP BY key and - CanonTop, observed results
\* only - the aliases of expanded calls.
RECURSIVE CanonExpr(_)
CanonExpr(e) ==
  CASE e.k = "VarRef" -> IF TypeOf(e) = "field" THEN Ref(e.Val) ELSE e
    [] e.k = "Call" -> IF Has(e, "Args") THEN [e EXCEPT !.Args = [i \in DOMAIN e.Args |-> CanonExpr(e.Args[i])]] ELSE e
    [] e.k = "BinaryExpr" -> [e EXCEPT !.LHS = CanonExpr(e.LHS), !.RHS = CanonExpr(e.RHS)]
    [] e.k = "ParenExpr" -> [e EXCEPT !.Expr = CanonExpr(e.Expr)]
    [] OTHER -> e
PlainRef(f) == f.Expr.k = "VarRef" /\ ~Has(f, "Alias")
\* a run of plain columns of the SAME name (a wildcard's field and tag column, perhaps next to the same name written
\* out): the columns that are not tags first, then the tags, each group in its order
SameCol(x, y) == PlainRef(x) /\ PlainRef(y) /\ x.Expr.Val = y.Expr.Val
RECURSIVE RunLo(_, _), RunHi(_, _)
RunLo(fs, i) == IF i > 1 /\ SameCol(fs[i - 1], fs[i]) THEN RunLo(fs, i - 1) ELSE i
RunHi(fs, i) == IF i < Len(fs) /\ SameCol(fs[i], fs[i + 1]) THEN RunHi(fs, i + 1) ELSE i
TieFix(fs) == [i \in DOMAIN fs |->
                 IF ~PlainRef(fs[i]) THEN fs[i]
                 ELSE LET lo == RunLo(fs, i)
                          run == SubSeq(fs, lo, RunHi(fs, i))
                          ord == SelectSeq(run, LAMBDA f : TypeOf(f.Expr) # "tag") \o SelectSeq(run, LAMBDA f : TypeOf(f.Expr) = "tag")
                      IN ord[i - lo + 1]]
RECURSIVE CanonStmt(_)
CanonStmt(s) ==
  LET fs == TieFix([i \in DOMAIN FieldsOf(s) |-> [FieldsOf(s)[i] EXCEPT !.Expr = CanonExpr(@)]])
      srcs == [i \in DOMAIN s.Sources |-> IF s.Sources[i].k = "SubQuery"
                                          THEN SubQ(CanonStmt(s.Sources[i].Statement)) ELSE s.Sources[i]]
      \* a GROUP BY key is a tag by position: `host` and `host::tag` are the same dimension
      ds == [i \in DOMAIN DimsOf(s) |-> LET d == DimsOf(s)[i] IN
                                         IF d.Expr.k = "VarRef" /\ TypeOf(d.Expr) = "tag" THEN Dim(Ref(d.Expr.Val)) ELSE d]
      s1 == With(WithSeq(WithSeq(s, "Fields", fs), "Dimensions", ds), "Sources", srcs)
  IN IF Has(s, "Condition") THEN With(s1, "Condition", CanonExpr(s.Condition)) ELSE s1
\* observed top-level statement: drop aliases the code generated for expanded calls
CanonTop(s, origAliases) ==
  LET c == CanonStmt(s)
      fs == [i \in DOMAIN FieldsOf(c) |->
               LET f == FieldsOf(c)[i] IN
               IF f.Expr.k = "Call" /\ Has(f, "Alias") /\ f.Alias \notin origAliases THEN Without(f, "Alias") ELSE f]
  IN WithSeq(c, "Fields", fs)
CanonR(x) == IF IsErr(x) THEN x ELSE CanonStmt(x)


\* some (sub)statement has a shape on which the design is known to leave the property
RECURSIVE DevPossible(_, _)
DevPossible(stmt, S) ==
  LET src0 == stmt.Sources
      srcs == [i \in DOMAIN src0 |-> IF src0[i].k = "SubQuery" THEN SubQ(Expand(src0[i].Statement, S)) ELSE src0[i]]
  IN \/ \E i \in DOMAIN src0 : src0[i].k = "SubQuery" /\ (IsErr(srcs[i].Statement) \/ DevPossible(src0[i].Statement, S))
     \/ /\ HasFieldWild(stmt)
        /\ LET cols == Cols(srcs, S, Property) IN
           \/ \E i \in DOMAIN DimsOf(stmt) : DimsOf(stmt)[i].Expr.k = "RegexLiteral"
           \/ DOMAIN cols.fields = {} /\ cols.tags # {}
     \/ \E i \in DOMAIN src0 : /\ src0[i].k = "SubQuery" /\ ~IsErr(srcs[i].Statement)
                                /\ LET fs == FieldsOf(srcs[i].Statement) IN
                                   \E a, b \in DOMAIN fs : a # b /\ FieldName(fs[a]) = FieldName(fs[b])

\* ------------------------------------------------------------------ wire form of a schema
\* <<[name, fields |-> <<[n, t]>>, tags |-> <<name>>]>>  (sequences only: survives JSON both ways)
MeasOrder == <<"m1", "m2", "m3", "d1..m1", "d2..m1">>
Wire(S) == LET ms == SelectSeq(MeasOrder, LAMBDA m : m \in DOMAIN S) IN
           [i \in DOMAIN ms |->
              LET fs == SortNames(DOMAIN S[ms[i]].fields) IN
              [name |-> ms[i],
               fields |-> [j \in DOMAIN fs |-> [n |-> fs[j], t |-> S[ms[i]].fields[fs[j]]]],
               tags |-> SortNames(S[ms[i]].tags)]]
SchemaOf(w) == [m \in {w[i].name : i \in DOMAIN w} |->
                  LET e == CHOOSE x \in ToSet(w) : x.name = m IN
                  [fields |-> [n \in {e.fields[j].n : j \in DOMAIN e.fields} |->
                                 (CHOOSE x \in ToSet(e.fields) : x.n = n).t],
                   tags |-> ToSet(e.tags)]]
\* what the spec assumes about every regex, as part of each case (confirmed by the driver)
RegexWire == [i \in DOMAIN RegexOrder |-> [re |-> RegexOrder[i], match |-> SortNames(ReMatch(RegexOrder[i]))]]
=============================================================================
