SPECIFICATION Spec
CONSTANTS
  Cores <- Q_sources_Cores
  GroupBys <- Q_sources_GroupBys
  Befores <- Q_sources_Befores
  Afters <- Q_sources_Afters
  Srcs <- Q_sources_Srcs
  Conds <- Q_sources_Conds
  Schemas <- Q_sources_Schemas
INVARIANTS InvIdempotent InvNoWildLeft InvErrOnlyUnspec InvSorted InvExactStar InvDesignDeviatesOnlyWhereNamed
CHECK_DEADLOCK FALSE
