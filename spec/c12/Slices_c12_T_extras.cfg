SPECIFICATION Spec
CONSTANTS
  Cores <- T_extras_Cores
  GroupBys <- T_extras_GroupBys
  Befores <- T_extras_Befores
  Afters <- T_extras_Afters
  Srcs <- T_extras_Srcs
  Conds <- T_extras_Conds
  Schemas <- T_extras_Schemas
INVARIANTS InvIdempotent InvNoWildLeft InvErrOnlyUnspec InvSorted InvExactStar InvDesignDeviatesOnlyWhereNamed
CHECK_DEADLOCK FALSE
