SPECIFICATION Spec
CONSTANTS
  Cores <- Q_extras_Cores
  GroupBys <- Q_extras_GroupBys
  Befores <- Q_extras_Befores
  Afters <- Q_extras_Afters
  Srcs <- Q_extras_Srcs
  Conds <- Q_extras_Conds
  Schemas <- Q_extras_Schemas
INVARIANTS InvIdempotent InvNoWildLeft InvErrOnlyUnspec InvSorted InvExactStar InvDesignDeviatesOnlyWhereNamed
CHECK_DEADLOCK FALSE
