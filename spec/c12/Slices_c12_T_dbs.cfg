SPECIFICATION Spec
CONSTANTS
  Cores <- T_dbs_Cores
  GroupBys <- T_dbs_GroupBys
  Befores <- T_dbs_Befores
  Afters <- T_dbs_Afters
  Srcs <- T_dbs_Srcs
  Conds <- T_dbs_Conds
  Schemas <- T_dbs_Schemas
INVARIANTS InvIdempotent InvNoWildLeft InvErrOnlyUnspec InvSorted InvExactStar InvDesignDeviatesOnlyWhereNamed
CHECK_DEADLOCK FALSE
