SPECIFICATION Spec
CONSTANTS
  Cores <- Q_shadow_Cores
  GroupBys <- Q_shadow_GroupBys
  Befores <- Q_shadow_Befores
  Afters <- Q_shadow_Afters
  Srcs <- Q_shadow_Srcs
  Conds <- Q_shadow_Conds
  Schemas <- Q_shadow_Schemas
INVARIANTS InvIdempotent InvNoWildLeft InvErrOnlyUnspec InvSorted InvExactStar InvDesignDeviatesOnlyWhereNamed
CHECK_DEADLOCK FALSE
