----------------------------- MODULE Judge_c12 -----------------------------
(* Pass V for C12: every recorded (statement, schema) pair is judged here.

   A record: the case of Gen_c12 (stmt, schema, names, regexes, want | wanterr, kind, pos, sid)
   plus  id  and
     obs = [text, namesorted, rematch, parsed, before, after,
            res |-> << [stmt, str] | [err] | [panic] >>  (8 calls of RewriteFields, fresh maps each)]

   Verdicts (class):
     ok
     machinery:*                  the spec's assumptions about Go (string order, regexp matching)
                                  or the generator's AST for the text are wrong: exit 2, never a violation
     panic                        RewriteFields panicked
     receiver-modified            snapshot(receiver) before # after
     order-dependent              the 8 results are not all equal
     unexpected-error             an error where the property demands an expansion
     Dev_DimRegexDropsUngroupedTags   known deviation: GROUP BY /regex/ removes every tag from the
                                  expanded fields, also the tags the regex does not match
     Dev_NoFieldsNoTags           known deviation: sources with tag keys but no field: `*` expands to nothing
     Dev_SubqueryRefTakesFirstSameNameColumn
                                  known deviation: a reference to a subquery column that exists twice (an
                                  unsigned field and a tag of one name) is typed ::tag, not ::unsigned
     drift:unspecified-position   wildcard in a position the property does not cover; the code no
                                  longer does what the design spec says there (reported, no alarm)
     wrong-expansion              anything else: result # Expand(stmt, schema)

   Comparison is modulo (CanonStmt / CanonTop) exactly what the property leaves open:
     * aliases of expanded call fields (aliases absent from the original statement),
     * the order of a field and a tag column of the SAME name,
     * a `::field` cast that could not be resolved to a type (kept or dropped).          *)
EXTENDS Wildcard, Json, CSV, IOUtils

VARIABLES l, nt, cnt
vars == <<l, nt, cnt>>

Trace == ndJsonDeserialize(IOEnv.OBS_FILE)

CondOf(s) == IF Has(s, "Condition") THEN s.Condition ELSE [k |-> "none"]
DiffSig(g, w) == (IF FieldsOf(g) # FieldsOf(w) THEN "fields " ELSE "")
                 \o (IF DimsOf(g) # DimsOf(w) THEN "dimensions " ELSE "")
                 \o (IF CondOf(g) # CondOf(w) THEN "condition " ELSE "")
                 \o (IF g.Sources # w.Sources THEN "sources " ELSE "")
                 \o (IF Without(Without(Without(Without(g, "Fields"), "Dimensions"), "Condition"), "Sources")
                        # Without(Without(Without(Without(w, "Fields"), "Dimensions"), "Condition"), "Sources")
                     THEN "other" ELSE "")

\* ------------------------------------------------------------------ verdict
V(ok, class, sig) == [ok |-> ok, class |-> class, sig |-> sig]
ResKind(e) == IF Has(e, "panic") THEN "panic" ELSE IF Has(e, "err") THEN "err" ELSE "stmt"

Verdict(r) ==
  LET o == r.obs IN
  IF Has(o, "harness_panic") THEN V(FALSE, "machinery:harness-panic", "")
  ELSE IF Has(o, "hang") THEN V(FALSE, "machinery:hang", "")        \* the driver's watchdog gave up on this case
  ELSE IF Has(o, "parse_panic") \/ Has(o, "parse_err") THEN V(FALSE, "machinery:generated-text-rejected", "")
  ELSE IF o.namesorted # r.names THEN V(FALSE, "machinery:name-order", "")
  ELSE IF \E i \in DOMAIN r.regexes : ~Has(o.rematch[i], "match") \/ o.rematch[i].match # r.regexes[i].match
       THEN V(FALSE, "machinery:regex-match-set", "")
  ELSE IF o.parsed # r.stmt THEN V(FALSE, "machinery:parse-mismatch", "")
  ELSE
  LET res == o.res
      S == SchemaOf(r.schema)
      oa == {FieldsOf(r.stmt)[i].Alias : i \in {j \in DOMAIN FieldsOf(r.stmt) : Has(FieldsOf(r.stmt)[j], "Alias")}}
  IN
  IF \E i \in DOMAIN res : ResKind(res[i]) = "panic" THEN V(FALSE, "panic", "RewriteFields")
  ELSE IF o.before # o.after THEN V(FALSE, "receiver-modified", "")
  ELSE IF \E i \in DOMAIN res : \/ ResKind(res[i]) # ResKind(res[1])
                                \/ ResKind(res[1]) = "stmt" /\ res[i].stmt # res[1].stmt
       THEN V(FALSE, "order-dependent", r.pos)
  ELSE IF Has(r, "wanterr")
       THEN IF ResKind(res[1]) = "err" THEN V(TRUE, "ok", "")
            ELSE V(FALSE, "drift:unspecified-position", "accepted")
  ELSE IF ResKind(res[1]) = "err"
       THEN IF HasUnspec(r.stmt) THEN V(FALSE, "drift:unspecified-position", "rejected")
            ELSE V(FALSE, "unexpected-error", r.pos)
  ELSE
  LET g == CanonTop(res[1].stmt, oa)
      w == CanonStmt(r.want)
      \* the named deviations: the observed result is what the design switches predict
      devs == <<[name |-> "Dev_DimRegexDropsUngroupedTags", md |-> [Property EXCEPT !.dimAll = TRUE]],
                [name |-> "Dev_NoFieldsNoTags", md |-> [Property EXCEPT !.needField = TRUE]],
                [name |-> "Dev_SubqueryRefTakesFirstSameNameColumn", md |-> [Property EXCEPT !.firstCol = TRUE]]>>
      Hit(md) == g = CanonR(ExpandM(r.stmt, S, md))
  IN IF g = w THEN V(TRUE, "ok", "")
     ELSE IF \E i \in DOMAIN devs : Hit(devs[i].md)
          THEN V(FALSE, devs[CHOOSE i \in DOMAIN devs : Hit(devs[i].md) /\ \A j \in 1..(i - 1) : ~Hit(devs[j].md)].name, "")
     \* several of them at once (in different subqueries of one statement): filed under the first
     ELSE IF Hit([Property EXCEPT !.dimAll = TRUE, !.needField = TRUE])
          THEN V(FALSE, "Dev_DimRegexDropsUngroupedTags", "with Dev_NoFieldsNoTags")
     ELSE IF Hit([Property EXCEPT !.dimAll = TRUE, !.firstCol = TRUE])
          THEN V(FALSE, "Dev_DimRegexDropsUngroupedTags", "with Dev_SubqueryRefTakesFirstSameNameColumn")
     ELSE IF Hit([Property EXCEPT !.needField = TRUE, !.firstCol = TRUE])
          THEN V(FALSE, "Dev_NoFieldsNoTags", "with Dev_SubqueryRefTakesFirstSameNameColumn")
     ELSE IF Hit(Design)
          THEN V(FALSE, "Dev_DimRegexDropsUngroupedTags", "with Dev_NoFieldsNoTags and Dev_SubqueryRefTakesFirstSameNameColumn")
     ELSE IF HasUnspec(r.stmt) THEN V(FALSE, "drift:unspecified-position", "changed")
     ELSE V(FALSE, "wrong-expansion", r.pos \o ": " \o DiffSig(g, w))

\* non-trivial: some wildcard expanded to two or more columns (so that order matters)
NonTrivial(r) == Has(r, "want") /\ Len(FieldsOf(r.want)) + Len(DimsOf(r.want)) > Len(FieldsOf(r.stmt)) + Len(DimsOf(r.stmt))

Count(r) == [with_subquery |-> IF \E i \in DOMAIN r.stmt.Sources : r.stmt.Sources[i].k = "SubQuery" THEN 1 ELSE 0,
             multi_source |-> IF Len(r.stmt.Sources) > 1 THEN 1 ELSE 0,
             expected_errors |-> IF Has(r, "wanterr") THEN 1 ELSE 0,
             dim_wildcards |-> IF HasDimWild(r.stmt) THEN 1 ELSE 0,
             field_wildcards |-> IF HasFieldWild(r.stmt) THEN 1 ELSE 0,
             empty_schema |-> IF r.schema = <<>> THEN 1 ELSE 0]
Zero == [with_subquery |-> 0, multi_source |-> 0, expected_errors |-> 0, dim_wildcards |-> 0, field_wildcards |-> 0, empty_schema |-> 0]

Init == l = 1 /\ nt = 0 /\ cnt = Zero
Step == /\ l <= Len(Trace)
        /\ LET r == Trace[l] v == Verdict(r) c == Count(r) IN
             /\ IF v.ok THEN TRUE
                ELSE CSVWrite("%1$s", <<ToJson([id |-> r.id, class |-> v.class, sig |-> v.sig])>>, IOEnv.VERDICT_FILE)
             /\ nt' = nt + (IF NonTrivial(r) THEN 1 ELSE 0)
             /\ cnt' = [x \in DOMAIN cnt |-> cnt[x] + c[x]]
        /\ l' = l + 1
Finish == /\ l = Len(Trace) + 1
          /\ CSVWrite("%1$s", <<ToJson([judged |-> Len(Trace), nontrivial |-> nt] @@ cnt)>>, IOEnv.STATS_FILE)
          /\ l' = l + 1 /\ UNCHANGED <<nt, cnt>>
Next == Step \/ Finish
Spec == Init /\ [][Next]_vars
\* the whole observation file was consumed: one state per record + initial + Finish
Accepted == TLCGet("stats").diameter = Len(Trace) + 2
=============================================================================
