----------------------------- MODULE Slices_c12 -----------------------------
(* The slices of the (statement x schema) product that the two tiers enumerate.
   Every slice is a full product of the seven constant sets of Gen_c12; a slice varies
   some dimensions completely and pins the others to representatives.  One .cfg per
   slice (Slices_c12_<tier>_<slice>.cfg) substitutes the definitions below for the
   constants.  checks/c12.py adds one more slice drawn from the whole vocabulary
   - the sets AllCores, AllGroupBys, ... - by VERIF_SEED.                                                      *)
EXTENDS Gen_c12

F(k)       == <<k, "field", "", "">>
A(k, fn)   == <<k, "arg", fn, "">>
N(k, f, g) == <<k, "nest", f, g>>
Plain      == <<"", "plain", "", "">>

AllKinds == {"*", "*::field", "*::tag", "^a", "a|b", ".*", "zz", "host", "^[abc]$", "^(region|host)$", "^(max|host|max)$"}
FnStrBool == {"count", "first", "last", "distinct", "elapsed", "mode", "sample"}   \* + string + boolean
FnBool    == {"min", "max"}                                                        \* + boolean
FnNoUns   == {"holt_winters", "holt_winters_with_fit"}                             \* - unsigned
FnNum     == {"mean", "sum", "percentile", "top"}                                  \* float integer unsigned
AllFns    == FnStrBool \cup FnBool \cup FnNoUns \cup FnNum
AllNests  == {<<"max", "mean">>, <<"mean", "count">>, <<"sum", "min">>, <<"count", "holt_winters">>}
AllGroupBys == {<<>>, <<"host">>, <<"*">>, <<"^h">>, <<".*">>, <<"zz">>, <<"o">>, <<"time">>, <<"time", "host">>,
                <<"time", "*">>, <<"*::tag">>, <<"host", "region">>, <<"a">>, <<"time", "^h">>}
AllExtras == {"", "a", "c", "x", "host", "b::float", "host::tag", "c::field", "host::field", "x::field", "mean(b)",
              "max(c) AS mc", "a AS aa", "a+b", "(c)*2", "a,b::integer"}
Subs1 == {"s_ab", "s_star", "s_calls", "s_alias2", "s_stargb", "s_x", "s_fld", "s_dimall", "s_ahost"}
Subs2 == {"s2_ab_star", "s2_star_calls", "s2_star_dimall", "s2_c_stargb"}
\* the same measurement name under two databases; a name that is a field column of one subquery and a GROUP BY tag of another
DbSrcs == {<<"d1..m1">>, <<"d1..m1", "d2..m1">>, <<"d2..m1", "d1..m1">>, <<"m1", "d1..m1">>, <<"d2..m1", "m1", "d1..m1">>}
SubTypeSrcs == {<<"s_ahost", "s_calls">>, <<"s_calls", "s_ahost">>, <<"s_ahost", "s_alias2">>, <<"s_alias2", "s_ahost">>, <<"m1", "s_ahost">>, <<"s_ahost", "m1">>}
AllSrcs == {<<"m1">>, <<"m2">>, <<"m1", "m2">>, <<"m2", "m1">>, <<"m3">>} \cup {<<s>> : s \in Subs1 \cup Subs2}
           \cup {<<"m1", "s_calls">>, <<"s_ab", "m2">>, <<"s_star", "s_alias2">>, <<"m2", "s2_star_calls">>}
           \cup DbSrcs \cup SubTypeSrcs
AllConds == {"none", "b>1", "host", "and", "typed"}
AllSchemas == (1..20) \cup (100..135) \cup (200..219) \cup (300..303) \cup {400, 401}
AllUnspec == {<<"*", "arg2", "", "">>, <<"a|b", "arg2", "", "">>, <<"*", "bin", "", "">>, <<"a|b", "bin", "", "">>,
              <<"*", "binw", "", "">>, <<"*", "paren", "", "">>, <<"*::tag", "arg", "mean", "">>,
              <<"*::tag", "arg", "count", "">>, <<"*::tag", "nest", "max", "mean">>}
AllCores == {F(k) : k \in AllKinds} \cup {A(k, fn) : k \in AllKinds \ {"*::tag"}, fn \in AllFns}
            \cup {N(k, n[1], n[2]) : k \in AllKinds \ {"*::tag"}, n \in AllNests} \cup {Plain}

None == {""}
NoCond == {"none"}
OnlyM1 == {<<"m1">>}

\* ------------------------------------------------------------------ quick (about 3 000 pairs)
Q_positions_Cores == {F(k) : k \in AllKinds \ {"^[abc]$", "^(max|host|max)$"}}
                     \cup {A(k, fn) : k \in {"*", "*::field", "a|b", ".*"}, fn \in {"count", "min", "holt_winters", "mean"}}
                     \cup {N(k, n[1], n[2]) : k \in {"*", "a|b"}, n \in {<<"max", "mean">>, <<"mean", "count">>}}
                     \cup {Plain}
Q_positions_GroupBys == {<<>>, <<"host">>, <<"*">>, <<"^h">>, <<"time">>, <<"time", "host">>}
Q_positions_Befores == None
Q_positions_Afters == None
Q_positions_Srcs == OnlyM1
Q_positions_Conds == NoCond
Q_positions_Schemas == {1, 2, 4, 5, 8, 9, 10}

Q_sources_Cores == {F("*"), F("*::field"), A("*", "count"), A("a|b", "mean"), Plain}
Q_sources_GroupBys == {<<>>, <<"host">>, <<"*">>}
Q_sources_Befores == None
Q_sources_Afters == None
Q_sources_Srcs == {<<"m1", "m2">>, <<"s_ab">>, <<"s_star">>, <<"s_calls">>, <<"s_alias2">>, <<"s2_ab_star">>,
                   <<"s2_star_calls">>, <<"m1", "s_calls">>}
Q_sources_Conds == NoCond
Q_sources_Schemas == {4, 6, 7, 9, 13}

Q_extras_Cores == {F("*"), A("*", "mean"), F("a|b"), F("*::tag"), F("^(region|host)$"), F("^(max|host|max)$"), Plain}
Q_extras_GroupBys == {<<>>, <<"*">>}
Q_extras_Befores == {"", "a", "b::float", "mean(b)", "a+b"}
Q_extras_Afters == {"", "c::field", "host", "max(c) AS mc"}
Q_extras_Srcs == OnlyM1
Q_extras_Conds == {"none", "b>1"}
Q_extras_Schemas == {4, 8, 19, 20}

Q_typepairs_Cores == {F("*"), Plain, A("*", "min"), A("*", "holt_winters")}
Q_typepairs_GroupBys == {<<>>}
Q_typepairs_Befores == None
Q_typepairs_Afters == None
Q_typepairs_Srcs == {<<"m1", "m2">>}
Q_typepairs_Conds == NoCond
Q_typepairs_Schemas == 100..135

Q_shadow_Cores == {F("*"), F("*::field"), F("*::tag"), A("*", "count"), Plain}
Q_shadow_GroupBys == {<<>>, <<"host">>, <<"a">>}
Q_shadow_Befores == None
Q_shadow_Afters == None
Q_shadow_Srcs == {<<"m1">>, <<"s_star">>}
Q_shadow_Conds == NoCond
Q_shadow_Schemas == 200..219

Q_unspecified_Cores == AllUnspec \ {<<"a|b", "arg2", "", "">>, <<"*::tag", "arg", "count", "">>}
Q_unspecified_GroupBys == {<<>>, <<"*">>}
Q_unspecified_Befores == None
Q_unspecified_Afters == None
Q_unspecified_Srcs == {<<"m1">>, <<"s_star">>}
Q_unspecified_Conds == NoCond
Q_unspecified_Schemas == {4, 10}

\* every function name of the per-function type filter (and some outside it) over all five field types
Q_functions_Cores == {A(k, fn) : k \in {"*", "a|b"}, fn \in AllFns \cup {"median", "spread"}}
Q_functions_GroupBys == {<<>>, <<"*">>}
Q_functions_Befores == None
Q_functions_Afters == None
Q_functions_Srcs == OnlyM1
Q_functions_Conds == NoCond
Q_functions_Schemas == {5, 18}

\* two and three wildcard / regex call fields in ONE statement, functions from different classes of
\* the per-function type filter in both orders, mixed with `*` whole fields, over schemas that have
\* all five field types: every call field must get its own filter, whatever stood before it
FnClass(fn) == IF fn \in FnStrBool THEN 1 ELSE IF fn \in FnBool THEN 2 ELSE IF fn \in FnNoUns THEN 3 ELSE 4
Multi(ks, fs) == <<ks, "multi", fs, "">>
\* ordered pairs / triples of functions of pairwise different classes
FnPairs(Fs) == {p \in Fs \X Fs : FnClass(p[1]) # FnClass(p[2])}
FnTriples(Fs) == {p \in Fs \X Fs \X Fs : Cardinality({FnClass(p[1]), FnClass(p[2]), FnClass(p[3])}) = 3}
\* a pair of call fields alone, and with a `*` whole field before, between and after them
Lay2(k, p) == {Multi(<<k[1], k[2]>>, <<p[1], p[2]>>), Multi(<<"*", k[1], k[2]>>, <<"", p[1], p[2]>>),
               Multi(<<k[1], "*", k[2]>>, <<p[1], "", p[2]>>), Multi(<<k[1], k[2], "*">>, <<p[1], p[2], "">>)}
MultiCores(Fs2, Ks2, Fs3, Ks3) ==
  UNION {Lay2(k, p) : k \in Ks2, p \in FnPairs(Fs2)} \cup {Multi(k, p) : k \in Ks3, p \in FnTriples(Fs3)}
FnReps == {"count", "max", "holt_winters", "mean"}

Q_multicall_Cores == MultiCores(FnReps, {<<"*", "*">>, <<".*", "a|b">>}, FnReps, {<<"*", "*", "*">>, <<"a|b", "*", ".*">>})
Q_multicall_GroupBys == {<<>>}
Q_multicall_Befores == None
Q_multicall_Afters == None
Q_multicall_Srcs == OnlyM1
Q_multicall_Conds == NoCond
Q_multicall_Schemas == {5, 13, 18}

Q_dbs_Cores == {F("*"), F("*::field"), F("a|b"), A("*", "count"), A("*", "min"), Plain}
Q_dbs_GroupBys == {<<>>, <<"*">>, <<"host">>}
Q_dbs_Befores == {"", "a"}
Q_dbs_Afters == None
Q_dbs_Srcs == DbSrcs
Q_dbs_Conds == NoCond
Q_dbs_Schemas == {400, 401}

Q_subtypes_Cores == {Plain, F("*")}
Q_subtypes_GroupBys == {<<>>, <<"host">>}
Q_subtypes_Befores == {"", "host", "mx", "host::tag"}
Q_subtypes_Afters == {"", "b"}
Q_subtypes_Srcs == SubTypeSrcs
Q_subtypes_Conds == {"none", "host"}
Q_subtypes_Schemas == {4, 6}

\* more than 12 expanded columns (sort.Sort leaves insertion sort), a tag of the name of a field among them
Q_wide_Cores == {F("*"), F("*::field"), F("*::tag"), F(".*"), A("*", "count"), Plain}
Q_wide_GroupBys == {<<>>, <<"host">>, <<"a">>}
Q_wide_Befores == None
Q_wide_Afters == None
Q_wide_Srcs == {<<"m1">>, <<"m1", "m2">>, <<"s_star">>}
Q_wide_Conds == NoCond
Q_wide_Schemas == 300..303

\* ------------------------------------------------------------------ thorough
T_dbs_Cores == {F("*"), F("*::field"), F("*::tag"), F("a|b"), F(".*"), A("*", "count"), A("*", "min"), A("a|b", "mean"), N("*", "max", "mean"), Plain}
T_dbs_GroupBys == {<<>>, <<"*">>, <<"host">>, <<"^h">>, <<"time", "host">>}
T_dbs_Befores == {"", "a", "b::float"}
T_dbs_Afters == {"", "c"}
T_dbs_Srcs == DbSrcs
T_dbs_Conds == {"none", "b>1"}
T_dbs_Schemas == {400, 401, 4}

T_subtypes_Cores == {Plain, F("*"), F("a|b"), A("*", "max")}
T_subtypes_GroupBys == {<<>>, <<"host">>, <<"*">>}
T_subtypes_Befores == {"", "host", "mx", "host::tag", "a"}
T_subtypes_Afters == {"", "b", "host"}
T_subtypes_Srcs == SubTypeSrcs
T_subtypes_Conds == {"none", "host"}
T_subtypes_Schemas == {4, 6, 13}

T_wide_Cores == {F("*"), F("*::field"), F("*::tag"), F(".*"), F("a|b"), A("*", "count"), A(".*", "max"), N("*", "max", "mean"), Plain}
T_wide_GroupBys == {<<>>, <<"host">>, <<"a">>, <<"*">>, <<".*">>, <<"time", "host">>}
T_wide_Befores == {"", "a", "host::tag"}
T_wide_Afters == None
T_wide_Srcs == {<<"m1">>, <<"m1", "m2">>, <<"m2", "m1">>, <<"s_star">>, <<"s_stargb">>, <<"s2_ab_star">>}
T_wide_Conds == NoCond
T_wide_Schemas == 300..303

T_positions_Cores == {F(k) : k \in AllKinds}
                     \cup {A(k, fn) : k \in {"*", "*::field", "^a", "a|b", ".*", "zz"}, fn \in AllFns}
                     \cup {N(k, n[1], n[2]) : k \in {"*", "a|b"}, n \in AllNests}
                     \cup {<<"*", "nest3", "max", "mean">>, <<"a|b", "nest3", "sum", "count">>, Plain}
T_positions_GroupBys == AllGroupBys \ {<<"a">>, <<"time", "^h">>}
T_positions_Befores == None
T_positions_Afters == None
T_positions_Srcs == OnlyM1
T_positions_Conds == NoCond
T_positions_Schemas == {1, 2, 4, 5, 8, 9, 10, 14, 16, 17}

T_sources_Cores == {F("*"), F("*::field"), F("*::tag"), F("a|b"), A("*", "count"), A("a|b", "mean"),
                    N("*", "max", "mean"), Plain}
T_sources_GroupBys == {<<>>, <<"host">>, <<"*">>, <<"^h">>, <<"time", "host">>}
T_sources_Befores == None
T_sources_Afters == None
T_sources_Srcs == AllSrcs
T_sources_Conds == NoCond
T_sources_Schemas == {3, 4, 6, 7, 9, 11, 12, 13, 15}

T_extras_Cores == {F("*"), A("*", "mean"), F("a|b"), F("*::tag"), F(".*"), F("^(region|host)$"), F("^(max|host|max)$"), A("^(region|host)$", "max"), Plain}
T_extras_GroupBys == {<<>>, <<"*">>}
T_extras_Befores == AllExtras \ {"(c)*2", "a,b::integer"}
T_extras_Afters == {"", "c", "b::float", "host::tag", "c::field", "host::field", "x::field", "mean(b)", "max(c) AS mc",
                    "(c)*2", "a,b::integer"}
T_extras_Srcs == OnlyM1
T_extras_Conds == {"none", "b>1", "and"}
T_extras_Schemas == {4, 8, 19, 20, 13}

T_typepairs_Cores == {F("*"), F("^a"), Plain, A("*", "min"), A("*", "holt_winters"), A("*", "count"), A("*", "mean")}
T_typepairs_GroupBys == {<<>>, <<"*">>}
T_typepairs_Befores == None
T_typepairs_Afters == None
T_typepairs_Srcs == {<<"m1", "m2">>, <<"m2", "m1">>}
T_typepairs_Conds == {"none", "and"}
T_typepairs_Schemas == 100..135

T_shadow_Cores == {F("*"), F("*::field"), F("*::tag"), F("^a"), A("*", "count"), Plain}
T_shadow_GroupBys == {<<>>, <<"host">>, <<"a">>, <<"*">>, <<".*">>}
T_shadow_Befores == None
T_shadow_Afters == None
T_shadow_Srcs == {<<"m1">>, <<"s_star">>}
T_shadow_Conds == NoCond
T_shadow_Schemas == 200..219

T_unspecified_Cores == AllUnspec
T_unspecified_GroupBys == {<<>>, <<"*">>, <<"host">>}
T_unspecified_Befores == None
T_unspecified_Afters == None
T_unspecified_Srcs == {<<"m1">>, <<"s_star">>, <<"m1", "m2">>}
T_unspecified_Conds == NoCond
T_unspecified_Schemas == {1, 4, 6, 10}

T_functions_Cores == {A(k, fn) : k \in {"*", "*::field", ".*", "a|b"}, fn \in AllFns \cup {"median", "spread"}}
                     \cup {N("*", f, g) : f \in {"max", "count"}, g \in AllFns}
T_functions_GroupBys == {<<>>, <<"*">>, <<"host">>}
T_functions_Befores == None
T_functions_Afters == None
T_functions_Srcs == {<<"m1">>, <<"s_star">>}
T_functions_Conds == NoCond
T_functions_Schemas == {5, 13, 18}

T_multicall_Cores == MultiCores({"count", "sample", "distinct", "min", "max", "holt_winters", "holt_winters_with_fit", "mean", "sum", "top"},
                                {<<"*", "*">>, <<".*", "a|b">>, <<"*::field", ".*">>},
                                {"count", "last", "max", "holt_winters", "mean", "percentile"},
                                {<<"*", "*", "*">>, <<"a|b", "*", ".*">>})
T_multicall_GroupBys == {<<>>, <<"*">>}
T_multicall_Befores == None
T_multicall_Afters == None
T_multicall_Srcs == OnlyM1
T_multicall_Conds == NoCond
T_multicall_Schemas == {5, 13, 18}
=============================================================================
