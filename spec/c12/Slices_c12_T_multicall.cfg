SPECIFICATION Spec
CONSTANTS
  Cores <- T_multicall_Cores
  GroupBys <- T_multicall_GroupBys
  Befores <- T_multicall_Befores
  Afters <- T_multicall_Afters
  Srcs <- T_multicall_Srcs
  Conds <- T_multicall_Conds
  Schemas <- T_multicall_Schemas
INVARIANTS InvIdempotent InvNoWildLeft InvErrOnlyUnspec InvSorted InvExactStar InvDesignDeviatesOnlyWhereNamed
CHECK_DEADLOCK FALSE
