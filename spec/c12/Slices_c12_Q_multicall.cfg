SPECIFICATION Spec
CONSTANTS
  Cores <- Q_multicall_Cores
  GroupBys <- Q_multicall_GroupBys
  Befores <- Q_multicall_Befores
  Afters <- Q_multicall_Afters
  Srcs <- Q_multicall_Srcs
  Conds <- Q_multicall_Conds
  Schemas <- Q_multicall_Schemas
INVARIANTS InvIdempotent InvNoWildLeft InvErrOnlyUnspec InvSorted InvExactStar InvDesignDeviatesOnlyWhereNamed
CHECK_DEADLOCK FALSE
