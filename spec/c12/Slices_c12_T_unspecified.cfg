SPECIFICATION Spec
CONSTANTS
  Cores <- T_unspecified_Cores
  GroupBys <- T_unspecified_GroupBys
  Befores <- T_unspecified_Befores
  Afters <- T_unspecified_Afters
  Srcs <- T_unspecified_Srcs
  Conds <- T_unspecified_Conds
  Schemas <- T_unspecified_Schemas
INVARIANTS InvIdempotent InvNoWildLeft InvErrOnlyUnspec InvSorted InvExactStar InvDesignDeviatesOnlyWhereNamed
CHECK_DEADLOCK FALSE
