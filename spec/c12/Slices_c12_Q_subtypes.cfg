SPECIFICATION Spec
CONSTANTS
  Cores <- Q_subtypes_Cores
  GroupBys <- Q_subtypes_GroupBys
  Befores <- Q_subtypes_Befores
  Afters <- Q_subtypes_Afters
  Srcs <- Q_subtypes_Srcs
  Conds <- Q_subtypes_Conds
  Schemas <- Q_subtypes_Schemas
INVARIANTS InvIdempotent InvNoWildLeft InvErrOnlyUnspec InvSorted InvExactStar InvDesignDeviatesOnlyWhereNamed
CHECK_DEADLOCK FALSE
