SPECIFICATION Spec
CONSTANTS
  Cores <- Q_dbs_Cores
  GroupBys <- Q_dbs_GroupBys
  Befores <- Q_dbs_Befores
  Afters <- Q_dbs_Afters
  Srcs <- Q_dbs_Srcs
  Conds <- Q_dbs_Conds
  Schemas <- Q_dbs_Schemas
INVARIANTS InvIdempotent InvNoWildLeft InvErrOnlyUnspec InvSorted InvExactStar InvDesignDeviatesOnlyWhereNamed
CHECK_DEADLOCK FALSE
