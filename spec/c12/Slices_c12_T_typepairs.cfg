SPECIFICATION Spec
CONSTANTS
  Cores <- T_typepairs_Cores
  GroupBys <- T_typepairs_GroupBys
  Befores <- T_typepairs_Befores
  Afters <- T_typepairs_Afters
  Srcs <- T_typepairs_Srcs
  Conds <- T_typepairs_Conds
  Schemas <- T_typepairs_Schemas
INVARIANTS InvIdempotent InvNoWildLeft InvErrOnlyUnspec InvSorted InvExactStar InvDesignDeviatesOnlyWhereNamed
CHECK_DEADLOCK FALSE
