----------------------------- MODULE Judge_c20 -----------------------------
(* Pass V for C20: every recorded ColumnNames call of the real code is judged here.
   Record: [id, fields, into, omit, talias, rewrite, eta, sx,
            obs |-> [text, c1, c2, c3 (three calls on one statement), c4 (a fresh parse of the same text),
                     str0, str1 (String() before / after the calls),
                     solo |-> <<names the real code gives each output column's expression standing alone>>,
                     perr? / panic? / solo_err?]]
   Classes
     incomplete            not one name per output column (fields + tag arguments of top()/bottom()
                           without INTO + the time column unless omitted), or the time column /
                           its alias is not first
     alias-not-verbatim    an explicit alias is not the column's name, in field order
     not-name-or-suffix    a column without alias is neither its own name nor that name + "_" + digits
     not-distinct          explicit aliases pairwise distinct, yet two field columns share a name
     unstable              repeated calls / a fresh parse give another slice, or the call changed the statement
     panic                 ColumnNames crashed
     machinery:*           the generated statement was not accepted as generated
     drift:names           the slice differs from the transcribed algorithm (ColumnNamesImpl) but
                           satisfies the property                                             *)
EXTENDS Columns, Json, CSV, IOUtils

VARIABLES l, nt
vars == <<l, nt>>

Trace == ndJsonDeserialize(IOEnv.OBS_FILE)
Has(r, f) == f \in DOMAIN r
V(c, s) == [class |-> c, sig |-> s]

Verdicts(r) ==
  LET o == r.obs IN
  IF Has(o, "harness_panic") \/ Has(o, "parse_panic") THEN {V("machinery:panic", "")}
  ELSE IF Has(o, "perr") \/ Has(o, "solo_err") THEN {V("machinery:rejected", "")}
  ELSE IF Has(o, "panic") THEN {V("panic", "ColumnNames")}
  ELSE
  LET cf == ExpandFields(r.fields, r.into)
      okSolo == Len(o.solo) = Len(cf) /\ \A k \in 1..Len(cf) : Len(o.solo[k]) >= 1
  IN IF ~okSolo THEN {V("machinery:solo", "")}
  ELSE
  LET cols == o.c1
      slots == [k \in 1..Len(cf) |-> [a |-> cf[k].a, base |-> o.solo[k][1]]]
      lenOK == Len(cols) = Len(slots) + Off(r.omit)
      fc == FieldCols(cols, r.omit)
      complete == IF Complete(cols, Len(slots), r.omit, r.eta) THEN {}
                  ELSE {V("incomplete", IF lenOK THEN "time column" ELSE "length")}
      \* the per-column claims are only meaningful on a slice of the right length
      alias == IF ~lenOK \/ AliasesVerbatim(fc, slots) THEN {} ELSE {V("alias-not-verbatim", "")}
      suffix == IF ~lenOK \/ Suffixed(fc, slots) THEN {} ELSE {V("not-name-or-suffix", "")}
      distinct == IF ~lenOK \/ Distinct(fc, slots) THEN {} ELSE {V("not-distinct", "")}
      stable == IF o.c2 = cols /\ o.c3 = cols /\ o.c4 = cols /\ o.str0 = o.str1 THEN {}
                ELSE {V("unstable", IF o.str0 # o.str1 THEN "statement changed" ELSE IF o.c4 # cols THEN "fresh parse" ELSE "repeated call")}
      \* history: the field list edited in place after the calls (every reference renamed) and asked again (c5) gives
      \* what the edited statement gives when parsed afresh from its own text (c6): the result depends on the statement alone
      edited == (IF Has(o, "c5") /\ Has(o, "c6") /\ o.c5 # o.c6 THEN {V("unstable", "after an in-place edit")} ELSE {})
                \* an answer once given is the caller's: it does not change when the statement, or a clone, is asked again
                \cup (IF Has(o, "c1_later") /\ o.c1_later # o.c1 THEN {V("unstable", "an earlier answer changed")} ELSE {})
                \* rewrites of the form leave the columns alone
                \* (RewriteDistinct turns DISTINCT x into distinct(x): another statement, whose unaliased column may be named
                \* otherwise - the present code names the keyword form "" and the call "distinct" - but the same number of
                \* columns, and explicit aliases verbatim)
                \cup (IF Has(o, "c7") /\ (Len(o.c7) # Len(o.c4) \/ (lenOK /\ ~AliasesVerbatim(FieldCols(o.c7, r.omit), slots)))
                      THEN {V("alias-not-verbatim", "after RewriteDistinct")} ELSE {})
                \cup (IF Has(o, "c8") /\ o.c8 # o.c4 THEN {V("unstable", "after RewriteTimeFields once more")} ELSE {})
                \cup (IF Has(o, "c9") /\ o.c9 # o.c4 THEN {V("unstable", "after RewriteTimeFields on a clone")} ELSE {})
      all == complete \cup alias \cup suffix \cup distinct \cup stable \cup edited
  IN IF all # {} THEN all
     ELSE IF cols = ColumnNamesImpl(r.fields, r.into, r.omit, r.eta) THEN {} ELSE {V("drift:names", "")}

\* non-trivial: some name is wanted twice (two columns with the same default name, or an alias equal
\* to another column's default name), or top()/bottom() contributes tag columns
NonTrivial(r) ==
  LET cf == ExpandFields(r.fields, r.into)
      want(k) == IF cf[k].a # "" THEN cf[k].a ELSE cf[k].n
  IN \/ \E j, k \in 1..Len(cf) : j < k /\ want(j) = want(k)
     \/ Len(cf) > Len(r.fields)

Init == l = 1 /\ nt = 0
Step == /\ l <= Len(Trace)
        /\ LET r == Trace[l] IN
             /\ \A v \in Verdicts(r) : CSVWrite("%1$s", <<ToJson([id |-> r.id, class |-> v.class, sig |-> v.sig])>>, IOEnv.VERDICT_FILE)
             /\ nt' = nt + (IF NonTrivial(r) THEN 1 ELSE 0)
        /\ l' = l + 1
Finish == /\ l = Len(Trace) + 1
          /\ CSVWrite("%1$s", <<ToJson([judged |-> Len(Trace), nontrivial |-> nt])>>, IOEnv.STATS_FILE)
          /\ l' = l + 1 /\ UNCHANGED nt
Next == Step \/ Finish
Spec == Init /\ [][Next]_vars
Accepted == TLCGet("stats").diameter = Len(Trace) + 2
=============================================================================
