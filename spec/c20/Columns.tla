------------------------------ MODULE Columns ------------------------------
(* C20 - result column names are complete, stable and unambiguous.

   Abstract field (one entry of the SELECT list):
     [f |-> form, n |-> default name, a |-> alias ("" = none), tags |-> <<tag names>>]
   forms
     "ref"    n                         "par"    ( n )
     "arith"  n * 2                     "neg"    - n
     "arith2" a + a_1    (n = "a_a_1")  "call"   n(v)            e.g. mean(v); top(v, 2) has no tag arguments
     "top" / "bottom"    top(v, tags..., 2)      n = the form    "lit"    1   (n = "")
   Statement options:  into (an INTO clause is present), omit (OmitTime), talias (TimeAlias, "" = unset)

   (D) ColumnNamesImpl - SelectStatement.ColumnNames as written: expansion of top()/bottom() tag
       arguments when there is no target, alias pass, counter pass with name_N probing.
   (P) Complete, AliasesVerbatim, Suffixed, Distinct - what properties.jsonl C20 demands of a
       returned slice, phrased on "slots" (one per output column after the time column):
       [a |-> explicit alias or "", base |-> the name the column has when nothing clashes].  The base
       names are an input of (P): pass M takes them from the design, pass V from the real code's
       answer for the field standing alone, so (P) does not fix any default-naming convention. *)
EXTENDS Naturals, Sequences, FiniteSets, TLC

IsTopBottom(fd) == fd.f \in {"top", "bottom"} \/ (fd.f = "call" /\ fd.n \in {"top", "bottom"})

\* ------------------------------------------------------------------ (D)
\* first loop of ColumnNames: columnFields
RECURSIVE ExpandFields(_, _)
ExpandFields(fields, into) ==
  IF fields = <<>> THEN <<>>
  ELSE LET fd == Head(fields) IN
       <<[n |-> fd.n, a |-> fd.a]>>
       \o (IF ~into /\ IsTopBottom(fd) THEN [i \in 1..Len(fd.tags) |-> [n |-> fd.tags[i], a |-> ""]] ELSE <<>>)
       \o ExpandFields(Tail(fields), into)

\* names map: a function from the names seen so far to counters
Put(m, k, v) == [x \in DOMAIN m \cup {k} |-> IF x = k THEN v ELSE m[x]]

\* "Resolve aliases first."
RECURSIVE AliasPass(_, _, _)
AliasPass(cf, i, st) ==
  IF i > Len(cf) THEN st
  ELSE AliasPass(cf, i + 1,
         IF cf[i].a # "" THEN [cols |-> [st.cols EXCEPT ![i] = cf[i].a], names |-> Put(st.names, cf[i].a, 1)]
         ELSE st)

\* the probing loop: first name_N (N >= count) that is not in the map
RECURSIVE Probe(_, _, _)
Probe(name, count, names) ==
  LET r == name \o "_" \o ToString(count) IN
  IF r \in DOMAIN names THEN Probe(name, count + 1, names) ELSE [resolved |-> r, count |-> count]

\* "Resolve any generated names and resolve conflicts."
RECURSIVE CounterPass(_, _, _)
CounterPass(cf, i, st) ==
  IF i > Len(cf) THEN st
  ELSE IF st.cols[i] # "" THEN CounterPass(cf, i + 1, st)
  ELSE LET name == cf[i].n IN
       IF name \in DOMAIN st.names
       THEN LET pr == Probe(name, st.names[name], st.names)
                nm == Put(Put(st.names, name, pr.count + 1), pr.resolved, 1)
            IN CounterPass(cf, i + 1, [cols |-> [st.cols EXCEPT ![i] = pr.resolved], names |-> nm])
       ELSE CounterPass(cf, i + 1, [cols |-> [st.cols EXCEPT ![i] = name], names |-> Put(st.names, name, 1)])

TimeName(talias) == IF talias # "" THEN talias ELSE "time"

ColumnNamesImpl(fields, into, omit, talias) ==
  LET cf == ExpandFields(fields, into)
      s0 == [cols |-> [i \in 1..Len(cf) |-> ""], names |-> <<>>]
      s2 == CounterPass(cf, 1, AliasPass(cf, 1, s0))
  IN (IF omit THEN <<>> ELSE <<TimeName(talias)>>) \o s2.cols

\* ------------------------------------------------------------------ (P)
\* number of output columns a field accounts for: itself, plus the tag arguments of top()/bottom()
\* as columns of their own (when the result is not written INTO a measurement)
NSlots(fd, into) == 1 + (IF ~into /\ IsTopBottom(fd) THEN Len(fd.tags) ELSE 0)
RECURSIVE SumSlots(_, _)
SumSlots(fields, into) == IF fields = <<>> THEN 0 ELSE NSlots(Head(fields), into) + SumSlots(Tail(fields), into)

Off(omit) == IF omit THEN 0 ELSE 1

\* one name per output column; the time column (or its alias) first unless omitted
Complete(cols, nslots, omit, talias) ==
  /\ Len(cols) = nslots + Off(omit)
  /\ omit \/ (Len(cols) >= 1 /\ cols[1] = TimeName(talias))

FieldCols(cols, omit) == SubSeq(cols, Off(omit) + 1, Len(cols))

\* explicit aliases verbatim, in field order
AliasesVerbatim(fc, slots) ==
  \A k \in 1..Len(slots) : slots[k].a # "" => (k <= Len(fc) /\ fc[k] = slots[k].a)

Digits == {"0", "1", "2", "3", "4", "5", "6", "7", "8", "9"}
AllDigits(s) == Len(s) > 0 /\ \A i \in 1..Len(s) : SubSeq(s, i, i) \in Digits
\* c is b, or b followed by "_" and a number
BaseOrSuffixed(c, b) ==
  \/ c = b
  \/ /\ Len(c) > Len(b) + 1
     /\ SubSeq(c, 1, Len(b) + 1) = b \o "_"
     /\ AllDigits(SubSeq(c, Len(b) + 2, Len(c)))
\* a column without alias carries its own name, clashes being resolved with numeric suffixes
Suffixed(fc, slots) ==
  \A k \in 1..Len(slots) : slots[k].a = "" => (k <= Len(fc) /\ BaseOrSuffixed(fc[k], slots[k].base))

AliasesDistinct(slots) ==
  \A j, k \in 1..Len(slots) : (j < k /\ slots[j].a # "" /\ slots[k].a # "") => slots[j].a # slots[k].a
PairwiseDistinct(fc) == \A j, k \in 1..Len(fc) : j < k => fc[j] # fc[k]
\* whenever the explicit aliases are pairwise distinct, all field column names are (the time
\* column is not a field column)
Distinct(fc, slots) == AliasesDistinct(slots) => PairwiseDistinct(fc)

\* a design-level lemma, not part of the property: a suffix is only used when the plain name is taken
NoGratuitousSuffix(fc, slots) ==
  \A k \in 1..Len(slots) : (slots[k].a = "" /\ fc[k] # slots[k].base) => \E j \in 1..Len(fc) : j # k /\ fc[j] = slots[k].base

\* slots as the design sees them (base = default name)
DesignSlots(fields, into) == ExpandFields(fields, into)
SlotsOf(cf) == [k \in 1..Len(cf) |-> [a |-> cf[k].a, base |-> cf[k].n]]
=============================================================================
