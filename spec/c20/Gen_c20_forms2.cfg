SPECIFICATION Spec
CONSTANTS
  N = 2
  Names = {"a", "a_1", "mean", "top", "a_a_1"}
  Aliases = {"a"}
  MaxAlias = 2
  Forms = {"ref", "par", "arith", "neg", "arith2", "call", "top", "bottom", "lit"}
  TagSeqs <- TagsFew
  TimeModes = {"default"}
  Intos = {FALSE}
  Emit = TRUE
INVARIANTS MAll
CHECK_DEADLOCK FALSE
