------------------------------ MODULE Gen_c20 ------------------------------
(* Pass M + G for C20.  TLC builds field lists field by field, for every choice of time mode
   and INTO made in the initial state.  In every state it checks the design (ColumnNamesImpl,
   transcribed from SelectStatement.ColumnNames) against the property operators of Columns -
   pass M - and, when Emit is set, the extending action writes the list as one case: the
   SELECT statement as token records, the field expressions alone (one per output column, for
   the driver to ask the real code for each column's own name), the abstract description.   *)
EXTENDS Columns, Tok, Dict, Json, CSV, IOUtils

CONSTANTS N,         \* maximal number of fields
          Names,     \* default names of reference-like fields
          Aliases,   \* alias pool
          MaxAlias,  \* maximal number of aliased fields in a list
          Forms,     \* subset of {"ref","par","arith","neg","arith2","call","top","bottom","lit"}
          TagSeqs,   \* tag-argument lists for top()/bottom()
          TimeModes, \* subset of the time modes below
          Intos,     \* subset of BOOLEAN
          Emit       \* write cases

VARIABLES fields, tm, into
vars == <<fields, tm, into>>

CaseFile == IOEnv.CASE_FILE

\* named constant values for the cfg files
TagsNone == {<<>>}
TagsOne == {<<"h">>}
TagsTwo == {<<"h">>, <<"a_1", "a">>}
TagsFew == {<<"h">>, <<"a">>, <<"a_1", "a">>, <<"h", "h">>, <<"h", "r">>}

\* ... and with a cast on every extra argument (a field named with its type, an explicit ::tag): <<names, types>>
TypedSeqs == IF TagSeqs = TagsNone THEN {}
             ELSE {<<<<"a">>, <<"float">>>>, <<<<"h", "a_1">>, <<"tag", "integer">>>>, <<<<"a">>, <<"field">>>>}
CallNames == {"mean", "top", "bottom", "max"}
AliasOpts == {""} \cup Aliases
Fd(f, n, a, tags) == [f |-> f, n |-> n, a |-> a, tags |-> tags]

FieldChoices ==
  {Fd(f, n, a, <<>>) : f \in Forms \cap {"ref", "par", "arith", "neg"}, n \in Names, a \in AliasOpts}
  \cup (IF "call" \in Forms THEN {Fd("call", n, a, <<>>) : n \in Names \cap CallNames, a \in AliasOpts} ELSE {})
  \cup (IF "arith2" \in Forms THEN {Fd("arith2", "a_a_1", a, <<>>) : a \in AliasOpts} ELSE {})
  \cup {Fd(f, f, a, tg) : f \in Forms \cap {"top", "bottom"}, a \in AliasOpts, tg \in TagSeqs}
  \cup {Fd(f, f, a, tg[1]) @@ [ty |-> tg[2]] : f \in Forms \cap {"top", "bottom"}, a \in AliasOpts, tg \in TypedSeqs}
  \cup (IF "distinct" \in Forms THEN {Fd("distinct", "distinct", a, <<>>) : a \in AliasOpts} ELSE {})   \* SELECT DISTINCT a [AS x]
  \cup (IF "lit" \in Forms THEN {Fd("lit", "", a, <<>>) : a \in AliasOpts} ELSE {})

NAliased(fs) == Cardinality({i \in 1..Len(fs) : fs[i].a # ""})

\* time modes: what the driver does to the parsed statement, and the time column name that results
\*   omit     OmitTime = TRUE          alias    TimeAlias = "t"      aliasclash   TimeAlias = "a"
\*   rewrite* a `time` field in the list + RewriteTimeFields() (the field disappears, its alias names the time column)
OmitOf(m) == m \in {"omit", "omit_alias"}
SetAlias(m) == CASE m \in {"alias", "omit_alias"} -> "t" [] m = "aliasclash" -> "a" [] OTHER -> ""
Rewrite(m) == m \in {"rewrite", "rewrite_last", "rewrite_noalias"}
EffAlias(m) == IF m \in {"rewrite", "rewrite_last"} THEN "t" ELSE SetAlias(m)

\* ------------------------------------------------------------ rendering
RECURSIVE Flat(_)
Flat(ss) == IF ss = <<>> THEN <<>> ELSE Head(ss) \o Flat(Tail(ss))

ExprToks(fd) ==
  CASE fd.f = "ref"    -> <<Id(fd.n)>>
    [] fd.f = "par"    -> <<P("("), IdT(fd.n), PT(")")>>
    [] fd.f = "arith"  -> <<Id(fd.n), P("*"), Int("2")>>
    [] fd.f = "neg"    -> <<P("-"), IdT(fd.n)>>
    [] fd.f = "arith2" -> <<Id("a"), P("+"), Id("a_1")>>
    [] fd.f = "lit"    -> <<Int("1")>>
    [] fd.f = "distinct" -> <<Kw("DISTINCT"), Id("a")>>
    [] fd.f = "dcall"  -> <<QId(fd.n), PT("("), IdT("v"), PT(","), Id("h"), PT(","), Int("2"), PT(")")>>
    [] fd.f = "call"   -> IF fd.n \in {"top", "bottom"}
                          THEN <<Id(fd.n), PT("("), IdT("v"), PT(","), Int("2"), PT(")")>>
                          ELSE <<Id(fd.n), PT("("), IdT("v"), PT(")")>>
    [] fd.f \in {"top", "bottom"} ->
         <<Id(fd.f), PT("("), IdT("v")>>
         \o Flat([i \in 1..Len(fd.tags) |-> <<PT(","), Id(fd.tags[i])>> \o (IF "ty" \in DOMAIN fd THEN <<PT("::"), IdT(fd.ty[i])>> ELSE <<>>)])
         \o <<PT(","), Int("2"), PT(")")>>
FieldToks(fd) == ExprToks(fd) \o (IF fd.a = "" THEN <<>> ELSE <<Kw("AS"), Id(fd.a)>>)

RECURSIVE Join(_)
Join(ts) == IF ts = <<>> THEN <<>> ELSE Head(ts) \o (IF Len(ts) > 1 THEN <<PT(",")>> \o Join(Tail(ts)) ELSE <<>>)

TimeField(m) == IF m = "rewrite_noalias" THEN <<Id("time")>> ELSE <<Id("time"), Kw("AS"), Id("t")>>
FieldList(fs, m) ==
  LET fts == [i \in 1..Len(fs) |-> FieldToks(fs[i])] IN
  CASE m \in {"rewrite", "rewrite_noalias"} -> Join(<<TimeField(m)>> \o fts)
    [] m = "rewrite_last" -> Join(fts \o <<TimeField(m)>>)
    [] OTHER -> Join(fts)

StmtToks(fs, m, i) == <<Kw("SELECT")>> \o FieldList(fs, m)
                      \o (IF i THEN <<Kw("INTO"), Id("t")>> ELSE <<>>) \o <<Kw("FROM"), Id("m")>>

\* the expression of every output column, alone
RECURSIVE SoloExprs(_, _)
SoloExprs(fs, i) ==
  IF fs = <<>> THEN <<>>
  ELSE LET fd == Head(fs) IN
       <<ExprToks(fd)>>
       \o (IF ~i /\ IsTopBottom(fd) THEN [k \in 1..Len(fd.tags) |-> <<Id(fd.tags[k])>>] ELSE <<>>)
       \o SoloExprs(Tail(fs), i)

Case(fs, m, i) ==
  [toks |-> StmtToks(fs, m, i), sx |-> SoloExprs(fs, i), fields |-> fs, into |-> i,
   omit |-> OmitOf(m), talias |-> SetAlias(m), rewrite |-> Rewrite(m), eta |-> EffAlias(m)]

\* ------------------------------------------------------------------ machine
Init == fields = <<>> /\ tm \in TimeModes /\ into \in Intos
Step == /\ Len(fields) < N
        /\ \E fd \in FieldChoices :
             LET fs == Append(fields, fd) IN
               /\ NAliased(fs) <= MaxAlias
               /\ (fd.f = "distinct" => fields = <<>>) /\ (fields # <<>> => fields[1].f # "distinct")   \* the keyword form stands alone
               /\ fields' = fs
               /\ IF Emit THEN CSVWrite("%1$s", <<ToJson(Case(fs, tm, into))>>, CaseFile) ELSE TRUE
        /\ UNCHANGED <<tm, into>>
Next == Step
Spec == Init /\ [][Next]_vars

\* The source dictionary (Dict.tla): every string constant of the tree under check as the name of a call with a
\* tag-like second argument - alone, twice, next to a reference, aliased.  A call is ONE output column whatever its name,
\* except top() and bottom() (which the forms above cover): code that gives a further function extra columns, or names
\* its column specially, spells the function's name in its source.
DictWords == {w \in DictStrs : w \notin {"top", "bottom", "TOP", "BOTTOM", "Top", "Bottom"}}
DCall(w, a) == Fd("dcall", w, a, <<>>)
DLists(w) == {<<DCall(w, "")>>, <<DCall(w, ""), DCall(w, "")>>, <<Fd("ref", "a", "", <<>>), DCall(w, ""), Fd("ref", "h", "", <<>>)>>,
              <<DCall(w, "a"), Fd("ref", "a", "", <<>>)>>, <<Fd("top", "top", "", <<"h">>), DCall(w, "")>>}
DStep == /\ fields = <<>>
         /\ \E w \in DictWords : \E fs \in DLists(w) :
              /\ fields' = fs
              /\ CSVWrite("%1$s", <<ToJson(Case(fs, tm, into))>>, CaseFile)
         /\ UNCHANGED <<tm, into>>
DSpec == Init /\ [][DStep]_vars

\* --------------------------------------------------------------- pass M
Cols == ColumnNamesImpl(fields, into, OmitOf(tm), EffAlias(tm))
Slots == SlotsOf(DesignSlots(fields, into))
FC == FieldCols(Cols, OmitOf(tm))
MComplete == Complete(Cols, SumSlots(fields, into), OmitOf(tm), EffAlias(tm))
MAliases == AliasesVerbatim(FC, Slots)
MSuffixed == Suffixed(FC, Slots)
MDistinct == Distinct(FC, Slots)
MLemma == NoGratuitousSuffix(FC, Slots)
\* all of the above with the design evaluated once per state (what the check uses; the single
\* invariants stay for diagnosis)
MAll == LET cols == ColumnNamesImpl(fields, into, OmitOf(tm), EffAlias(tm))
            slots == SlotsOf(DesignSlots(fields, into))
            fc == FieldCols(cols, OmitOf(tm))
        IN /\ Complete(cols, SumSlots(fields, into), OmitOf(tm), EffAlias(tm))
           /\ AliasesVerbatim(fc, slots)
           /\ Suffixed(fc, slots)
           /\ Distinct(fc, slots)
           /\ NoGratuitousSuffix(fc, slots)
=============================================================================
