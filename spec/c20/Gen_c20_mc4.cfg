SPECIFICATION Spec
CONSTANTS
  N = 4
  Names = {"a", "a_1", "a_2", "a_1_1", "mean", "top"}
  Aliases = {"a", "a_1", "a_2", "a_1_1", "mean", "top"}
  MaxAlias = 2
  Forms = {"ref"}
  TagSeqs <- TagsNone
  TimeModes = {"default"}
  Intos = {FALSE}
  Emit = FALSE
INVARIANTS MComplete MAliases MSuffixed MDistinct MLemma
CHECK_DEADLOCK FALSE
