------------------------------ MODULE Sanitize ------------------------------
(* C15 - passwords never appear in printed or sanitized text.

   A case is a text given as a sequence of SEGMENTS [kind, text] with
     kind \in {"kw", "gap", "user", "eq", "pw", "other", "sep"}
   whose concatenation is the query text.  "pw" segments are exactly the password
   literals (quotes included); a gap segment may be empty, so the position of every
   role relative to a "pw" segment is fixed:
     CREATE USER:  .. kw WITH, gap, kw PASSWORD, gap, pw [, gap, kw WITH, ...]
     SET PASSWORD: .. kw PASSWORD, gap, kw FOR, gap, user, gap, eq, gap, pw
   Passwords are built from MARKER letters that occur nowhere else in the text.

   Part P (property, the only source of verdicts)
     Leaks / OnlyLiteralChanged / Unchanged / StringLeaks
   Part D (design, transcribed from sanitize.go: two regular expressions applied one
     after the other over the raw text, every submatch replaced)
     ModelSanitize
   Part F (layout features under which the design fails = the named deviations)   *)
EXTENDS Naturals, Sequences, FiniteSets

\* ------------------------------------------------------------------ characters
Chars(s) == [i \in 1..Len(s) |-> SubSeq(s, i, i)]      \* TLC string -> sequence of 1-character strings
RECURSIVE Join(_)
Join(ss) == IF ss = <<>> THEN "" ELSE Head(ss) \o Join(Tail(ss))
RECURSIVE Flat(_)
Flat(cs) == IF cs = <<>> THEN "" ELSE Head(cs) \o Flat(Tail(cs))   \* sequence of characters -> string

QUOTE1 == "'"
QUOTE2 == "\""
BSL == "\\"
\* Go regexp \s  =  [\t\n\f\r ]
WS == {" ", "\t", "\n", "\r", "\f"}
At(c, i) == IF i >= 1 /\ i <= Len(c) THEN c[i] ELSE "EOF"
HasCh(s, set) == \E i \in 1..Len(s) : SubSeq(s, i, i) \in set      \* s a string

MarkerSeq == <<"X", "Y", "Z", "Q">>
MarkerSet == {"X", "Y", "Z", "Q"}
Redacted == "[REDACTED]"

\* ------------------------------------------------------------------ segments
Text(segs) == Join([i \in 1..Len(segs) |-> segs[i].text])
\* the text with every password literal replaced by R, everything else untouched
ExpectedWith(segs, R) == Join([i \in 1..Len(segs) |-> IF segs[i].kind = "pw" THEN R ELSE segs[i].text])
\* the same with one replacement text per statement kind (the property does not prescribe the
\* replacement; the judge calibrates RS / RC on the repository's own test inputs)
ExpectedWith2(segs, RS, RC) ==
  Join([i \in 1..Len(segs) |-> IF segs[i].kind # "pw" THEN segs[i].text
                                ELSE IF i > 8 /\ segs[i - 2].kind = "eq" THEN RS ELSE RC])
PwIdx(segs) == {i \in 1..Len(segs) : segs[i].kind = "pw"}
NPw(segs) == Cardinality(PwIdx(segs))
\* marker letters used by the passwords of this text
MarkersOf(segs) == {m \in MarkerSet : \E i \in PwIdx(segs) : HasCh(segs[i].text, {m})}

\* ------------------------------------------------------------------ part P
\* out, strs[k]: sequences of 1-character strings (TLC cannot index a string received as JSON
\* reliably enough to trust it with a verdict: the driver ships the output as an array)
Leaks(outc, markers) == \E i \in 1..Len(outc) : outc[i] \in markers
OnlyLiteralChanged(outc, expected) == outc = Chars(expected)
Unchanged(outc, text) == outc = Chars(text)
StringLeaks(strcs, markers) == \E k \in 1..Len(strcs) : Leaks(strcs[k], markers)

\* ------------------------------------------------------------------ part D
(* sanitize.go
     sanitizeSetPassword    (?i)password\s+for[^=]*=\s+(["']?[^\s"]+["']?)
     sanitizeCreatePassword (?i)with\s+password\s+(["']?[^\s"]+["']?)
   Go's regexp returns the leftmost match and, among those, the one a backtracking
   matcher finds first.  For these two patterns that match is unique and can be read off
   deterministically (every greedy repetition is followed by something it cannot itself
   match, so it always takes its maximal run):
     word, maximal whitespace run (>= 1), word, [ up to the FIRST '=' ], maximal whitespace
     run (>= 1), group.
   Group at g:  optional quote, maximal run of [^\s"] (>= 1), optional quote.  If the run
   after an opening ' is empty the matcher backtracks and takes the ' as the run itself;
   after an opening " there is nothing to backtrack to.  The closing optional quote can only
   be a " (a ' would have been part of the run).                                       *)
LoPASSWORD == Chars("password")
UpPASSWORD == Chars("PASSWORD")
LoFOR == Chars("for")
UpFOR == Chars("FOR")
LoWITH == Chars("with")
UpWITH == Chars("WITH")
WordAt(c, i, lo, up) == /\ i >= 1 /\ i + Len(lo) - 1 <= Len(c)
                        /\ \A k \in 1..Len(lo) : c[i + k - 1] = lo[k] \/ c[i + k - 1] = up[k]

RECURSIVE SkipWS(_, _)
SkipWS(c, i) == IF At(c, i) \in WS THEN SkipWS(c, i + 1) ELSE i
RECURSIVE RunEnd(_, _)           \* end (exclusive) of the maximal [^\s"] run starting at i
RunEnd(c, i) == IF i > Len(c) \/ c[i] \in WS \/ c[i] = QUOTE2 THEN i ELSE RunEnd(c, i + 1)
RECURSIVE FirstEq(_, _)          \* index of the first '=' at or after i, 0 if none
FirstEq(c, i) == IF i > Len(c) THEN 0 ELSE IF c[i] = "=" THEN i ELSE FirstEq(c, i + 1)

NoMatch == [ok |-> FALSE, s |-> 0, e |-> 0]
Closing(c, r) == IF At(c, r) = QUOTE2 THEN r + 1 ELSE r
Group(c, g) ==
  LET x == At(c, g) IN
  IF x = QUOTE1 \/ x = QUOTE2 THEN
     LET r == RunEnd(c, g + 1) IN
     IF r > g + 1 THEN [ok |-> TRUE, s |-> g, e |-> Closing(c, r)]
     ELSE IF x = QUOTE1 THEN [ok |-> TRUE, s |-> g, e |-> Closing(c, g + 1)]
     ELSE NoMatch
  ELSE LET r == RunEnd(c, g) IN
       IF r > g THEN [ok |-> TRUE, s |-> g, e |-> Closing(c, r)] ELSE NoMatch

\* match of sanitizeSetPassword starting exactly at i (s, e = span of the submatch, e exclusive)
TrySet(c, i) ==
  IF ~WordAt(c, i, LoPASSWORD, UpPASSWORD) THEN NoMatch ELSE
  LET b == SkipWS(c, i + 8) IN
  IF b = i + 8 \/ ~WordAt(c, b, LoFOR, UpFOR) THEN NoMatch ELSE
  LET q == FirstEq(c, b + 3) IN
  IF q = 0 THEN NoMatch ELSE
  LET g == SkipWS(c, q + 1) IN
  IF g = q + 1 THEN NoMatch ELSE Group(c, g)

TryCreate(c, i) ==
  IF ~WordAt(c, i, LoWITH, UpWITH) THEN NoMatch ELSE
  LET b == SkipWS(c, i + 4) IN
  IF b = i + 4 \/ ~WordAt(c, b, LoPASSWORD, UpPASSWORD) THEN NoMatch ELSE
  LET g == SkipWS(c, b + 8) IN
  IF g = b + 8 THEN NoMatch ELSE Group(c, g)


\* ---- the design of the candidate repair (/tmp/build/c15/fix.patch; selected with Design = "fix") ----
(*   value  (?:\s*('(?:[^'\\\n]|\\.)*')|\s+(["']?[^\s"]+["']?))      a complete literal, else the old token
     set    (?i)password\s+for(?:\s*"(?:[^"\\\n]|\\.)*"\s*=|[^=]*=) value
     create (?i)with\s+password value
   The alternatives are tried in order (leftmost-first); each is deterministic: a backslash can
   only be consumed by the escape branch.                                                     *)
RECURSIVE ScanQuoted(_, _, _)    \* i: first position after the opening quote q; result: end (exclusive) or 0
ScanQuoted(c, i, q) ==
  IF i > Len(c) \/ c[i] = "\n" THEN 0
  ELSE IF c[i] = q THEN i + 1
  ELSE IF c[i] = BSL THEN (IF i + 1 > Len(c) \/ c[i + 1] = "\n" THEN 0 ELSE ScanQuoted(c, i + 2, q))
  ELSE ScanQuoted(c, i + 1, q)
ValueFix(c, p) ==
  LET g == SkipWS(c, p)
      e == IF At(c, g) = QUOTE1 THEN ScanQuoted(c, g + 1, QUOTE1) ELSE 0 IN
  IF e > 0 THEN [ok |-> TRUE, s |-> g, e |-> e]
  ELSE IF g > p THEN Group(c, g) ELSE NoMatch
TrySetFix(c, i) ==
  IF ~WordAt(c, i, LoPASSWORD, UpPASSWORD) THEN NoMatch ELSE
  LET b == SkipWS(c, i + 8) IN
  IF b = i + 8 \/ ~WordAt(c, b, LoFOR, UpFOR) THEN NoMatch ELSE
  LET h == SkipWS(c, b + 3)
      e == IF At(c, h) = QUOTE2 THEN ScanQuoted(c, h + 1, QUOTE2) ELSE 0
      q1 == IF e > 0 /\ At(c, SkipWS(c, e)) = "=" THEN SkipWS(c, e) ELSE 0
      m1 == IF q1 > 0 THEN ValueFix(c, q1 + 1) ELSE NoMatch
      q2 == FirstEq(c, b + 3) IN
  IF m1.ok THEN m1 ELSE IF q2 = 0 THEN NoMatch ELSE ValueFix(c, q2 + 1)
TryCreateFix(c, i) ==
  IF ~WordAt(c, i, LoWITH, UpWITH) THEN NoMatch ELSE
  LET b == SkipWS(c, i + 4) IN
  IF b = i + 4 \/ ~WordAt(c, b, LoPASSWORD, UpPASSWORD) THEN NoMatch ELSE ValueFix(c, b + 8)

Try(which, c, i) == CASE which = "set" -> TrySet(c, i) [] which = "create" -> TryCreate(c, i)
                     [] which = "set-fix" -> TrySetFix(c, i) [] which = "create-fix" -> TryCreateFix(c, i)
\* FindAllStringSubmatchIndex(query, -1): leftmost, non-overlapping
RECURSIVE FindAll(_, _, _)
FindAll(which, c, i) ==
  IF i > Len(c) THEN <<>>
  ELSE LET m == Try(which, c, i) IN
       IF m.ok THEN <<m>> \o FindAll(which, c, m.e) ELSE FindAll(which, c, i + 1)

\* the loop of Sanitize: copy query[i:match[2]], write the replacement, continue at match[3]
RECURSIVE Rewrite(_, _, _, _)
Rewrite(c, ms, from, R) ==
  IF ms = <<>> THEN SubSeq(c, from, Len(c))
  ELSE SubSeq(c, from, Head(ms).s - 1) \o R \o Rewrite(c, Tail(ms), Head(ms).e, R)

Pass(which, c, R) == LET ms == FindAll(which, c, 1) IN IF ms = <<>> THEN c ELSE Rewrite(c, ms, 1, R)
\* c: text as characters, RS / RC: the replacement texts written by the first / second loop
\* (as characters); result: characters
ModelSanitize2(c, RS, RC) == Pass("create", Pass("set", c, RS), RC)
ModelSanitize(c, R) == ModelSanitize2(c, R, R)
\* design = "current" (the unchanged tree) or "fix" (the candidate repair)
Model(design, c, RS, RC) == IF design = "fix" THEN Pass("create-fix", Pass("set-fix", c, RS), RC) ELSE ModelSanitize2(c, RS, RC)

\* ------------------------------------------------------------------ part F
(* Layout features of a generated text under which the two patterns do not do what the
   property demands.  Each is a predicate on the segment structure around one password
   literal (index k); pass M shows on the generator's universe that the design fails
   only where one of them holds and always where one of F1..F7 holds.                   *)
IsComment(t) == HasCh(t, {"/", "-"})                    \* gap texts: whitespace and comments only
PrevKw(segs, k) == segs[k - 2]                          \* kw PASSWORD (create) or eq (set)
IsSetPw(segs, k) == k > 8 /\ segs[k - 2].kind = "eq"
IsCreatePw(segs, k) == k > 4 /\ segs[k - 2].kind = "kw"

\* F1: a comment between WITH and PASSWORD, or between PASSWORD and FOR (\s+ does not span it)
CommentBetweenKeywords(segs, k) ==
  IF IsSetPw(segs, k) THEN IsComment(segs[k - 7].text) ELSE IsComment(segs[k - 3].text)
\* F2: an '=' between FOR and the statement's '=' (quoted user name): [^=]* stops too early
EqBeforeEq(segs, k) ==
  IsSetPw(segs, k) /\ \E j \in {k - 5, k - 4, k - 3} : HasCh(segs[j].text, {"="})
\* F3: no whitespace between '=' / PASSWORD and the literal (\s+ needs one)
NoSpaceBeforeLiteral(segs, k) == segs[k - 1].text = ""
\* F4: a comment between '=' / PASSWORD and the literal (the comment is "redacted" instead)
CommentBeforeLiteral(segs, k) == IsComment(segs[k - 1].text)
\* F5: whitespace inside the password ([^\s"]+ stops there)
PwWhitespace(segs, k) == HasCh(segs[k].text, WS)
\* F6: a double quote inside the password ([^\s"]+ stops there)
PwDoubleQuote(segs, k) == HasCh(segs[k].text, {QUOTE2})
\* F7: the literal is directly followed by more text ([^\s"]+ runs on beyond the closing quote)
TightAfterLiteral(segs, k) ==
  /\ k + 2 <= Len(segs) /\ segs[k + 1].kind = "gap" /\ segs[k + 1].text = ""
\* F8: the word PASSWORD occurs outside a password clause (string literal, quoted name)
RECURSIVE HasWordFrom(_, _, _, _)
HasWordFrom(c, i, lo, up) == IF i > Len(c) THEN FALSE ELSE IF WordAt(c, i, lo, up) THEN TRUE ELSE HasWordFrom(c, i + 1, lo, up)
PasswordWordElsewhere(segs) ==
  \E j \in 1..Len(segs) : segs[j].kind \in {"user", "other"} /\ HasWordFrom(Chars(segs[j].text), 1, LoPASSWORD, UpPASSWORD)

DevNames == <<"Dev_CommentBetweenKeywords", "Dev_EqInUserName", "Dev_NoSpaceBeforeLiteral", "Dev_CommentBeforeLiteral",
              "Dev_PwWhitespace", "Dev_PwDoubleQuote", "Dev_TightAfterLiteral", "Dev_PasswordWordElsewhere">>
DevHolds(n, segs) ==
  LET P == PwIdx(segs) IN
  CASE n = 1 -> \E k \in P : CommentBetweenKeywords(segs, k)
    [] n = 2 -> \E k \in P : EqBeforeEq(segs, k)
    [] n = 3 -> \E k \in P : NoSpaceBeforeLiteral(segs, k)
    [] n = 4 -> \E k \in P : CommentBeforeLiteral(segs, k)
    [] n = 5 -> \E k \in P : PwWhitespace(segs, k)
    [] n = 6 -> \E k \in P : PwDoubleQuote(segs, k)
    [] n = 7 -> \E k \in P : TightAfterLiteral(segs, k)
    [] n = 8 -> PasswordWordElsewhere(segs)
DevSet(segs) == {n \in 1..8 : DevHolds(n, segs)}
\* features that are deviations of a design at all (the candidate repair removes F2, F3, F5, F6, F7)
\* (pass M on the repaired design found that F2 survives next to a comment: the quoted-name branch
\* needs the name directly after FOR and '=' directly after the name)
EqAndCommentAroundUser(segs) ==
  \E k \in PwIdx(segs) : EqBeforeEq(segs, k) /\ (IsComment(segs[k - 5].text) \/ IsComment(segs[k - 3].text))
DevSetOf(design, segs) ==
  IF design = "fix" THEN (DevSet(segs) \cap {1, 4, 8}) \cup (IF EqAndCommentAroundUser(segs) THEN {2} ELSE {})
  ELSE DevSet(segs)
\* the class of a record: the first feature (in the order above) that holds, "none" otherwise
DevClassOf(design, segs) == LET D == DevSetOf(design, segs) IN
  IF D = {} THEN "none" ELSE DevNames[CHOOSE n \in D : \A m \in D : n <= m]
DevClass(segs) == DevClassOf("current", segs)
\* features that break the design whenever they are present (the candidate repair handles
\* F2, F3, F5, F6, F7; comments and look-alikes remain)
HardDevSetOf(design, segs) == DevSetOf(design, segs) \ {8}
HardDevSet(segs) == HardDevSetOf("current", segs)
\* all features as one string, for coverage histograms
RECURSIVE DevList(_, _)
DevList(segs, n) == IF n > 8 THEN "" ELSE (IF DevHolds(n, segs) THEN DevNames[n] \o " " ELSE "") \o DevList(segs, n + 1)
=============================================================================
