------------------------------ MODULE Gen_c15 ------------------------------
(* Pass G (+ M) for C15.  A text is built segment by segment from a context (a list of
   statement kinds chosen in Init); every slot of a statement template is filled by one
   step, a password is grown one piece per step.  The step that completes a text emits it
   as one case: segments, expected sanitized text, marker letters, password values, and
   what the DESIGN (Sanitize!Model: the two regular expressions of sanitize.go for
   Design = "current", those of the candidate repair for Design = "fix") would answer.

   Model-checked in the same run (on every completed text):
     GShape      the text has exactly the declared number of password segments
     GMarkers    marker letters occur only inside password segments
     GValues     one recorded password value per password segment
     MExplained  the design's answer differs from the property's only if a named layout
                 feature (Sanitize!DevSet) is present
     MEffective  every hard layout feature (F1..F7) really makes the design fail (unless the word
                 PASSWORD also occurs in a name: `SET PASSWORD /* c */ FOR "password for" = 'X'` is
                 redacted by accident, the pattern starts inside the user name)
     MNoClause   a text without password clause and without the word PASSWORD in a name or
                 literal is returned unchanged by the design                                *)
EXTENDS Sanitize, TLC, Json, CSV, IOUtils

CONSTANTS Contexts,   \* set of sequences of statement kinds
          Cases,      \* keyword spellings: subset of {"u", "l", "m"}
          OGaps,      \* ordinary gaps (never empty)
          KGaps,      \* gap WITH -> PASSWORD, PASSWORD -> FOR (never empty)
          LGaps,      \* gap PASSWORD -> literal, '=' -> literal (may be empty)
          EGaps,      \* gap user -> '=' (may be empty)
          AGaps,      \* gap literal -> WITH ALL PRIVILEGES (may be empty)
          S1Gaps, S2Gaps,  \* gaps before / after ';'
          Users,      \* user spellings
          Pieces,     \* names of password pieces
          PwMax,      \* maximal number of pieces of a password (<= 4)
          PwQuote,    \* the quote the password literal is written in: "'" - or, speculatively (the present parser rejects it), "\""
          Design      \* "current": the two patterns of the unchanged tree; "fix": the candidate repair

VARIABLES segs, slots, kcase, inpw, cur, pwvals, ctx, done,
          mout        \* the design's answer for the completed text (computed once, in Emit)
vars == <<segs, slots, kcase, inpw, cur, pwvals, ctx, done, mout>>

\* ---- value sets (defined here: the cfg parser does not process escapes) ----
GapsSp    == {" "}
GapsWs    == {" ", "  ", "\t", "\n", "\r\n"}
GapsAll   == {" ", "  ", "\t", "\n", "\r\n", " /* c */ ", " -- c\n"}
GapsAll0  == GapsAll \cup {""}
GapsWs0   == GapsWs \cup {""}
GapsTight == {"", " "}
GapsSome  == {" ", "\n", " /* c */ "}
GapsSome0 == {"", " ", "\n", " /* c */ "}
GapsNone  == {""}
GapsCmt   == {" /* c */ ", " -- c\n"}
GapsSemi2 == {"", " ", "\n"}

UsersU    == {"u"}
\* quoted names with an '=' inside: followed by a blank, by a single-quoted word, by an escaped double-quoted
\* word, at the end before a blank, twice, directly before a quote (the '=' branch of the SET PASSWORD pattern
\* must not be taken inside the name)
UsersEq   == {"u", "\"a=b\"", "\"=\"", "\"ops= team\"", "\"ops='x'\"", "\"a=\\\"b\\\"\"", "\"a= \"", "\"a==b\"",
              "\"a='\"", "\"= b\"", "\"a= 'x' b\"", "\"a = b = c\"",
              \* an escaped quote inside the name, followed (still inside the name) by '=' and something value-like
              "\"x\\\" = y\"", "\"x\\\"='y'\"", "\"a\\\\\"", "\"\\\" = 'b'\""}
\* characters whose lower-case form has another UTF-8 length (a lower-cased copy of the text has other offsets);
\* non-ASCII characters travel as placeholders that the driver substitutes (TLC states may be spilled to disk)
UsersCase == {"\"{IDOT}brahim\"", "\"{KELVIN}\"", "\"{ASTROKE}{IDOT}{IDOT}\""}
\* SPECULATIVE syntax: spellings the present parser rejects.  They are judged only if the parser under check
\* accepts them (an extension of the accepted language must not open a leak): characters other tools treat as
\* white space, and the SQL way of writing a quote inside a quoted text
GapsSpec  == {"{NBSP}", "{VT}", "{FF}", "{NEL}", "{LS}", "{IDSP}", "{EMSP}", "{ZWSP}", "{BOM}"}
GapsSpecFew == {" ", "{NBSP}", "{VT}", "{LS}"}
GapsSpecSp == GapsSpec \cup {" "}
GapsSpecSp0 == GapsSpec \cup {" ", ""}
UsersSpec == {"u", "\"a\"\"b\"", "\"\"\"a\""}
PiecesSpec == {"M", "qq", "sq"}
UsersAll  == {"u", "bob_1", "\"u\"", "\"with password\"", "\"pass'word\"", "\"a b\"", "\"a\\\"b\"",
              "\"password for\"", "\"with password x\"", "\"\""} \cup UsersEq \cup UsersCase
\* LONG names and gaps: a pattern with a bounded repetition, a fixed window or a chunked reader shows at a length
\* (around 64 and 128 here; the source dictionary of the tree under check names the constants in the dict slices)
RECURSIVE Rep(_, _)
Rep(x, n) == IF n = 0 THEN "" ELSE x \o Rep(x, n - 1)
LongLens == {61, 62, 63, 64, 65, 66, 127, 128, 129, 130}
UsersLong == {"u" \o Rep("x", n - 1) : n \in LongLens} \cup {"\"" \o Rep("y", n) \o "\"" : n \in {63, 64, 65, 129}}
GapsLong == {Rep(" ", n) : n \in LongLens \cup {1}} \cup {Rep("\n", 64), Rep("\t", 65), Rep(" \n", 33)}
GapsLongFew == {" ", Rep(" ", 63), Rep(" ", 65), Rep("\n", 130)}
QuoteSingle == "'"
QuoteDouble == "\""
PiecesDq == {"M", "sp", "eq", "semi"}
UsersSome == {"u", "\"a=b\"", "\"with password\"", "\"pass'word\""}

CasesAll == {"u", "l", "m"}
CasesU   == {"u"}

PieceTab == [M    |-> [t |-> "",       v |-> ""],
             sp   |-> [t |-> " ",      v |-> " "],
             sq   |-> [t |-> "\\'",    v |-> "'"],
             dq   |-> [t |-> "\"",     v |-> "\""],
             bs   |-> [t |-> "\\\\",   v |-> "\\"],
             eq   |-> [t |-> "=",      v |-> "="],
             nl   |-> [t |-> "\\n",    v |-> "\n"],
             semi |-> [t |-> ";",      v |-> ";"],
             dash |-> [t |-> "--",     v |-> "--"],
             cmt  |-> [t |-> "/*",     v |-> "/*"],
             qq   |-> [t |-> "''",     v |-> "'"]]
PiecesAll  == {"M", "sp", "sq", "dq", "bs", "eq", "nl", "semi", "dash", "cmt"}
PiecesM    == {"M"}
PiecesSafe == {"M", "sq", "bs", "eq", "nl", "semi", "dash", "cmt"}     \* no whitespace, no double quote
PiecesCore == {"M", "sp", "sq", "dq", "eq"}

KwLower == ("CREATE" :> "create") @@ ("USER" :> "user") @@ ("WITH" :> "with") @@ ("PASSWORD" :> "password")
           @@ ("SET" :> "set") @@ ("FOR" :> "for") @@ ("ALL" :> "all") @@ ("PRIVILEGES" :> "privileges")
KwMixed == ("CREATE" :> "cReAtE") @@ ("USER" :> "uSeR") @@ ("WITH" :> "wItH") @@ ("PASSWORD" :> "pAsSwOrD")
           @@ ("SET" :> "sEt") @@ ("FOR" :> "fOr") @@ ("ALL" :> "aLl") @@ ("PRIVILEGES" :> "pRiViLeGeS")
KwSpell(w, c) == IF c = "l" THEN KwLower[w] ELSE IF c = "m" THEN KwMixed[w] ELSE w

\* statements without a password, and whole texts without any password clause
OtherTab == [O1 |-> "SELECT v FROM m",
             O2 |-> "DROP DATABASE d",
             O3 |-> "SELECT v FROM m WHERE t = 'a'",
             O4 |-> "DROP USER \"with password\"",
             N1 |-> "SELECT password FROM m WHERE \"with\" = 'x'",
             N2 |-> "SHOW GRANTS FOR \"password for\"",
             N3 |-> "SELECT v FROM m WHERE s = 'with password x'",
             N4 |-> "SELECT v FROM m WHERE s = 'with password \\'x\\''",
             N5 |-> "SELECT * FROM \"password for\" WHERE a = 'x'",
             N6 |-> "SELECT \"password\" FROM m; DROP USER \"for\"",
             N7 |-> "SHOW USERS",
             N8 |-> "DROP USER \"with password\"",
             N9 |-> "SELECT v FROM m WHERE a = 'b' AND c = 'd'",
             N10 |-> "CREATE DATABASE \"password\" WITH DURATION 1d NAME \"for\"",
             N11 |-> "SELECT v FROM \"with\" WHERE \"password\" = 'x'",
             N12 |-> "SELECT v FROM m WHERE s = 'set password for u = x'",
             N13 |-> "DROP USER \"with password x\"",
             N14 |-> "SELECT v FROM m WHERE \"password\" = 'for' AND b = 'x'",
             N15 |-> "GRANT ALL PRIVILEGES TO \"with\"; SHOW DATABASES",
             N16 |-> "select v from m where time > now() - 1h group by time(1m)\n-- with password\n"]

CtxSingle == {<<"C">>, <<"A">>, <<"S">>}
CtxC      == {<<"C">>}
CtxS      == {<<"S">>}
CtxA      == {<<"A">>}
CtxCS     == {<<"C">>, <<"S">>}
CtxMulti  == {<<"C", "C">>, <<"S", "S">>, <<"C", "S">>, <<"S", "A">>, <<"A", "C">>,
              <<"O1", "C", "O2">>, <<"O1", "S", "O2">>, <<"O3", "A", "O2">>, <<"O1", "S", "O3">>,
              <<"O3", "S">>, <<"C", "O3">>, <<"O4", "C">>, <<"S", "O4">>,
              <<"O1", "A", "S", "O2">>, <<"S", "S", "S">>, <<"C", "O1", "S">>}
CtxNoPw   == {<<"N1">>, <<"N2">>, <<"N3">>, <<"N4">>, <<"N5">>, <<"N6">>, <<"N7">>, <<"N8">>, <<"N9">>, <<"N10">>,
              <<"N11">>, <<"N12">>, <<"N13">>, <<"N14">>, <<"N15">>, <<"N16">>, <<"O1", "O2">>, <<"O3", "O4", "O1">>}
CtxPw     == CtxSingle \cup CtxMulti
CtxAll    == CtxPw \cup CtxNoPw

\* ---- templates ----
Kw(w) == [t |-> "kw", w |-> w]
G(w)  == [t |-> "gap", w |-> w]
S(w)  == [t |-> w, w |-> ""]
CreateT == <<S("case"), Kw("CREATE"), G("og"), Kw("USER"), G("og"), S("user"), G("og"), Kw("WITH"), G("kg"),
             Kw("PASSWORD"), G("lg"), S("pw")>>
AdminT  == CreateT \o <<G("ag"), Kw("WITH"), G("og"), Kw("ALL"), G("og"), Kw("PRIVILEGES")>>
SetT    == <<S("case"), Kw("SET"), G("og"), Kw("PASSWORD"), G("kg"), Kw("FOR"), G("og"), S("user"), G("e1"), S("eq"),
             G("lg"), S("pw")>>
SepT    == <<G("s1"), S("sep"), G("s2")>>
Template(k) == IF k = "C" THEN CreateT ELSE IF k = "A" THEN AdminT ELSE IF k = "S" THEN SetT
               ELSE <<[t |-> "other", w |-> OtherTab[k]]>>
RECURSIVE SlotsOf(_)
SlotsOf(c) == IF Len(c) = 1 THEN Template(c[1]) ELSE Template(c[1]) \o SepT \o SlotsOf(Tail(c))
DeclaredPw(c) == Cardinality({i \in 1..Len(c) : c[i] \in {"C", "A", "S"}})
RECURSIVE CtxName(_)
CtxName(c) == IF c = <<>> THEN "" ELSE Head(c) \o (IF Len(c) > 1 THEN ";" ELSE "") \o CtxName(Tail(c))

GapSet(w) == CASE w = "og" -> OGaps [] w = "kg" -> KGaps [] w = "lg" -> LGaps [] w = "e1" -> EGaps
               [] w = "ag" -> AGaps [] w = "s1" -> S1Gaps [] w = "s2" -> S2Gaps

Seg(k, t) == [kind |-> k, text |-> t]
PwText(ps) == PwQuote \o Join([i \in 1..Len(ps) |-> IF ps[i] = "M" THEN MarkerSeq[i] ELSE PieceTab[ps[i]].t]) \o PwQuote
PwVal(ps)  == Join([i \in 1..Len(ps) |-> IF ps[i] = "M" THEN MarkerSeq[i] ELSE PieceTab[ps[i]].v])

\* ---- what the case carries ----
ModelOut(ss) == Flat(Model(Design, Chars(Text(ss)), Chars(Redacted), Chars(Redacted)))
Case(ss, mo) == LET exp == ExpectedWith(ss, Redacted) IN
  [segs |-> ss, npw |-> NPw(ss), ctx |-> CtxName(ctx), expect |-> exp,
   markers |-> [i \in 1..4 |-> IF MarkerSeq[i] \in MarkersOf(ss) THEN MarkerSeq[i] ELSE "-"],
   pwvals |-> pwvals, dev |-> DevClassOf(Design, ss), devs |-> DevList(ss, 1), mok |-> (mo = exp), mout |-> mo]

\* ---- the machine ----
Init == \E c \in Contexts :
          /\ ctx = c /\ slots = SlotsOf(c) /\ segs = <<>> /\ kcase = "u"
          /\ inpw = FALSE /\ cur = <<>> /\ pwvals = <<>> /\ done = 0 /\ mout = ""

Fill == /\ done = 0 /\ ~inpw /\ slots # <<>>
        /\ LET sl == Head(slots) IN
           IF sl.t = "case" THEN
              \E c \in Cases : kcase' = c /\ slots' = Tail(slots) /\ UNCHANGED <<segs, inpw, cur, pwvals, ctx, done, mout>>
           ELSE IF sl.t = "pw" THEN
              inpw' = TRUE /\ cur' = <<>> /\ UNCHANGED <<segs, slots, kcase, pwvals, ctx, done, mout>>
           ELSE
              /\ \E x \in (IF sl.t = "gap" THEN GapSet(sl.w) ELSE IF sl.t = "user" THEN Users ELSE {"."}) :
                   segs' = Append(segs, IF sl.t = "kw" THEN Seg("kw", KwSpell(sl.w, kcase))
                                        ELSE IF sl.t = "gap" THEN Seg("gap", x)
                                        ELSE IF sl.t = "user" THEN Seg("user", x)
                                        ELSE IF sl.t = "eq" THEN Seg("eq", "=")
                                        ELSE IF sl.t = "sep" THEN Seg("sep", ";")
                                        ELSE Seg("other", sl.w))
              /\ slots' = Tail(slots) /\ UNCHANGED <<kcase, inpw, cur, pwvals, ctx, done, mout>>

PwAdd == /\ done = 0 /\ inpw /\ Len(cur) < PwMax
         \* the last piece is a marker if there is none yet (a password without marker cannot be judged)
         /\ \E p \in (IF Len(cur) = PwMax - 1 /\ ~\E i \in 1..Len(cur) : cur[i] = "M" THEN {"M"} ELSE Pieces) :
              cur' = Append(cur, p)
         /\ UNCHANGED <<segs, slots, kcase, inpw, pwvals, ctx, done, mout>>

PwClose == /\ done = 0 /\ inpw /\ \E i \in 1..Len(cur) : cur[i] = "M"
           /\ segs' = Append(segs, Seg("pw", PwText(cur)))
           /\ pwvals' = Append(pwvals, PwVal(cur))
           /\ inpw' = FALSE /\ cur' = <<>> /\ slots' = Tail(slots)
           /\ UNCHANGED <<kcase, ctx, done, mout>>

Emit == /\ done = 0 /\ ~inpw /\ slots = <<>>
        /\ LET mo == ModelOut(segs) IN
             /\ CSVWrite("%1$s", <<ToJson(Case(segs, mo))>>, IOEnv.CASE_FILE)
             /\ mout' = mo
        /\ done' = 1 /\ UNCHANGED <<segs, slots, kcase, inpw, cur, pwvals, ctx>>

\* the completed text is looked at once (done = 1); the behaviour ends at done = 2
Rest == /\ done = 1 /\ done' = 2 /\ UNCHANGED <<segs, slots, kcase, inpw, cur, pwvals, ctx, mout>>

Next == Fill \/ PwAdd \/ PwClose \/ Emit \/ Rest
Spec == Init /\ [][Next]_vars

\* ---- invariants ----
Complete == done = 1
GShape   == Complete => NPw(segs) = DeclaredPw(ctx)
GMarkers == Complete => \A i \in 1..Len(segs) : segs[i].kind # "pw" => ~HasCh(segs[i].text, MarkerSet)
GValues  == Complete => Len(pwvals) = NPw(segs) /\ \A i \in 1..Len(pwvals) : HasCh(pwvals[i], MarkerSet)
DesignOK == mout = ExpectedWith(segs, Redacted)
MExplained == Complete => (DesignOK \/ DevSetOf(Design, segs) # {})
MEffective == Complete => (HardDevSetOf(Design, segs) # {} /\ 8 \notin DevSet(segs) => ~DesignOK)
MNoClause  == Complete => (NPw(segs) = 0 /\ ~PasswordWordElsewhere(segs) => mout = Text(segs))
=============================================================================
