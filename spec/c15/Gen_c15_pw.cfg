SPECIFICATION Spec
CONSTANTS
  Contexts <- CtxCS
  Cases <- CasesU
  OGaps <- GapsSp
  KGaps <- GapsSp
  LGaps <- GapsSp
  EGaps <- GapsSp
  AGaps <- GapsSp
  S1Gaps <- GapsNone
  S2Gaps <- GapsSp
  Users <- UsersU
  Pieces <- PiecesAll
  PwMax = 3
  Design = "fix"
INVARIANTS GShape GMarkers GValues MExplained MEffective MNoClause
CHECK_DEADLOCK FALSE
