SPECIFICATION Spec
CONSTANTS
  Contexts <- CtxCS
  Cases <- CasesU
  OGaps <- GapsAll
  KGaps <- GapsSp
  LGaps <- GapsSp
  EGaps <- GapsSp
  AGaps <- GapsSp
  S1Gaps <- GapsNone
  S2Gaps <- GapsSp
  Users <- UsersU
  Pieces <- PiecesM
  PwMax = 1
  Design = "fix"
INVARIANTS GShape GMarkers GValues MExplained MEffective MNoClause
CHECK_DEADLOCK FALSE
