SPECIFICATION Spec
CONSTANTS
  Contexts <- CtxCS
  Cases <- CasesU
  OGaps <- GapsSp
  KGaps <- GapsSp
  LGaps <- GapsTight
  EGaps <- GapsAll0
  AGaps <- GapsSp
  S1Gaps <- GapsNone
  S2Gaps <- GapsSp
  Users <- UsersEq
  Pieces <- PiecesM
  PwMax = 1
  Design = "fix"
INVARIANTS GShape GMarkers GValues MExplained MEffective MNoClause
CHECK_DEADLOCK FALSE
