SPECIFICATION Spec
CONSTANTS
  Contexts <- CtxPw
  Cases <- CasesAll
  OGaps <- GapsAll
  KGaps <- GapsAll
  LGaps <- GapsAll0
  EGaps <- GapsAll0
  AGaps <- GapsAll0
  S1Gaps <- GapsTight
  S2Gaps <- GapsSemi2
  Users <- UsersAll
  Pieces <- PiecesAll
  PwMax = 4
  Design = "fix"
INVARIANTS GShape GMarkers GValues MExplained MEffective MNoClause
CHECK_DEADLOCK FALSE
