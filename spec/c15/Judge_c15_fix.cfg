SPECIFICATION Spec
CONSTANTS
  Design = "fix"
POSTCONDITION Accepted
CHECK_DEADLOCK FALSE
