SPECIFICATION Spec
CONSTANTS
  Contexts <- CtxSingle
  Cases <- CasesU
  OGaps <- GapsSp
  KGaps <- GapsAll
  LGaps <- GapsAll0
  EGaps <- GapsAll0
  AGaps <- GapsTight
  S1Gaps <- GapsNone
  S2Gaps <- GapsSp
  Users <- UsersU
  Pieces <- PiecesM
  PwMax = 1
  Design = "current"
INVARIANTS GShape GMarkers GValues MExplained MEffective MNoClause
CHECK_DEADLOCK FALSE
