SPECIFICATION Spec
CONSTANTS
  Contexts <- CtxSingle
  Cases <- CasesAll
  OGaps <- GapsSp
  KGaps <- GapsSp
  LGaps <- GapsTight
  EGaps <- GapsTight
  AGaps <- GapsTight
  S1Gaps <- GapsNone
  S2Gaps <- GapsSp
  Users <- UsersAll
  Pieces <- PiecesM
  PwMax = 1
  Design = "fix"
INVARIANTS GShape GMarkers GValues MExplained MEffective MNoClause
CHECK_DEADLOCK FALSE
