SPECIFICATION Spec
CONSTANTS
  Contexts <- CtxNoPw
  Cases <- CasesU
  OGaps <- GapsSp
  KGaps <- GapsSp
  LGaps <- GapsSp
  EGaps <- GapsSp
  AGaps <- GapsSp
  S1Gaps <- GapsTight
  S2Gaps <- GapsSemi2
  Users <- UsersU
  Pieces <- PiecesM
  PwMax = 1
  Design = "fix"
INVARIANTS GShape GMarkers GValues MExplained MEffective MNoClause
CHECK_DEADLOCK FALSE
