SPECIFICATION Spec
CONSTANTS
  Design = "current"
POSTCONDITION Accepted
CHECK_DEADLOCK FALSE
