----------------------------- MODULE Judge_c15 -----------------------------
(* Pass V for C15: every recorded run of the real Sanitize / ParseQuery / String() on a
   generated text is judged here.
   Record: [id, segs, npw, ctx, pwvals, ..., obs |->
             [text, san, sanc, calS, calC, (err | stmts, strs, strc), panic?]]
     sanc   Sanitize(text) as an array of 1-character strings
     stmts  what the real parser made of the text: [k, name, pw] per statement
     strc   String() of every parsed statement, each as an array of characters
     calS / calC   Sanitize of the repository's own two test inputs (sanitize_test.go); the
            replacement text is read off them, because the property does not prescribe it
   Only texts the real parser accepts with exactly the intended passwords are judged for
   texts with password clauses (anything else: class drift:skipped-*, never a violation).
   Classes
     leak                      a marker letter of a password is in Sanitize(text)
     not-only-literal-changed  no marker, but the output is not the text with exactly the
                               password literals replaced
     changed-without-password  a text without password clause came back changed
     string-leak               a marker letter is in String() of a parsed statement
     Dev_*                     one of the above on a text that has the named layout feature
                               AND the output is exactly what the design (the two regular
                               expressions, Sanitize!ModelSanitize2) yields: known findings
     drift:design              property kept, but the output is not the design's             *)
EXTENDS Sanitize, TLC, Json, CSV, IOUtils

CONSTANT Design      \* which design the outputs are compared with: "current" | "fix"
VARIABLES l, cnt
vars == <<l, cnt>>

Trace == ndJsonDeserialize(IOEnv.OBS_FILE)
Has(r, f) == f \in DOMAIN r
V(c, s) == [class |-> c, sig |-> s]

CalInS == "set password for \"admin\" = "
CalInC == "create user \"admin\" with password "
Cal(out, prefix) == IF Len(out) >= Len(prefix) /\ SubSeq(out, 1, Len(prefix)) = prefix
                    THEN SubSeq(out, Len(prefix) + 1, Len(out)) ELSE Redacted

\* passwords the real parser extracted, in statement order
ParsedPws(o) == LET ps == SelectSeq(o.stmts, LAMBDA s : s.k \in {"create", "setpw"}) IN [i \in 1..Len(ps) |-> ps[i].pw]
Valid(r) == \/ NPw(r.segs) = 0
            \/ /\ ~Has(r.obs, "err") /\ Has(r.obs, "stmts")
               /\ ParsedPws(r.obs) = r.pwvals
Shape(r) == IF NPw(r.segs) = 0 THEN "nopw" ELSE IF NPw(r.segs) = 1 THEN "one" ELSE "several"

Verdicts(r) ==
  LET o == r.obs segs == r.segs IN
  IF Has(o, "panic") \/ Has(o, "harness_panic") THEN {V("panic", Shape(r))}
  ELSE IF ~Valid(r) THEN {V(IF Has(o, "err") THEN "drift:skipped-rejected" ELSE "drift:skipped-other-password", Shape(r))}
  ELSE
  LET np == NPw(segs)
      text == Text(segs)
      RS == Cal(o.calS, CalInS)
      RC == Cal(o.calC, CalInC)
      markers == MarkersOf(segs)
      leak == Leaks(o.sanc, markers)
      olc == OnlyLiteralChanged(o.sanc, ExpectedWith2(segs, RS, RC))
      unch == Unchanged(o.sanc, text)
      fail == leak \/ (np > 0 /\ ~olc) \/ (np = 0 /\ ~unch)
      asdesign == o.sanc = Model(Design, Chars(text), Chars(RS), Chars(RC))
      dev == DevClassOf(Design, segs)
      sig == Shape(r) \o (IF dev = "none" THEN "" ELSE " with " \o dev)
      san == IF ~fail THEN (IF asdesign THEN {} ELSE {V("drift:design", Shape(r))})
             ELSE IF dev # "none" /\ asdesign THEN {V(dev, "")}
             ELSE IF leak THEN {V("leak", sig)}
             ELSE IF np > 0 THEN {V("not-only-literal-changed", sig)}
             ELSE {V("changed-without-password", sig)}
      str == IF Has(o, "strc") /\ StringLeaks(o.strc, markers) THEN {V("string-leak", Shape(r))} ELSE {}
  IN san \cup str

\* non-trivial: a password text that is not the canonical single-space, letters-only layout, or a
\* text without password clause that mentions the word PASSWORD
NonTrivial(r) ==
  LET segs == r.segs IN
  /\ Valid(r)
  /\ IF NPw(segs) = 0 THEN PasswordWordElsewhere(segs)
     ELSE \/ NPw(segs) > 1
          \/ \E i \in 1..Len(segs) :
               \/ segs[i].kind = "gap" /\ segs[i].text # " "
               \/ segs[i].kind = "user" /\ HasCh(segs[i].text, {QUOTE2})
               \/ segs[i].kind = "pw" /\ \E j \in 2..(Len(segs[i].text) - 1) : SubSeq(segs[i].text, j, j) \notin MarkerSet

Zero == [nontrivial |-> 0, valid |-> 0, skipped |-> 0, clean |-> 0, clean_ok |-> 0, feature_records |-> 0, nopw |-> 0, several |-> 0]
Init == l = 1 /\ cnt = Zero
Step == /\ l <= Len(Trace)
        /\ LET r == Trace[l] vs == Verdicts(r) val == Valid(r) dev == DevClassOf(Design, r.segs) IN
             /\ \A v \in vs : CSVWrite("%1$s", <<ToJson([id |-> r.id, class |-> v.class, sig |-> v.sig])>>, IOEnv.VERDICT_FILE)
             /\ cnt' = [nontrivial |-> cnt.nontrivial + (IF NonTrivial(r) THEN 1 ELSE 0),
                        valid |-> cnt.valid + (IF val THEN 1 ELSE 0),
                        skipped |-> cnt.skipped + (IF val THEN 0 ELSE 1),
                        clean |-> cnt.clean + (IF val /\ dev = "none" THEN 1 ELSE 0),
                        clean_ok |-> cnt.clean_ok + (IF val /\ dev = "none" /\ vs = {} THEN 1 ELSE 0),
                        feature_records |-> cnt.feature_records + (IF dev # "none" THEN 1 ELSE 0),
                        nopw |-> cnt.nopw + (IF NPw(r.segs) = 0 THEN 1 ELSE 0),
                        several |-> cnt.several + (IF NPw(r.segs) > 1 THEN 1 ELSE 0)]
        /\ l' = l + 1
Finish == /\ l = Len(Trace) + 1
          /\ CSVWrite("%1$s", <<ToJson([judged |-> Len(Trace)] @@ cnt)>>, IOEnv.STATS_FILE)
          /\ l' = l + 1 /\ UNCHANGED cnt
Next == Step \/ Finish
Spec == Init /\ [][Next]_vars
Accepted == TLCGet("stats").diameter = Len(Trace) + 2
=============================================================================
