----------------------------- MODULE Judge_c19 -----------------------------
(* Pass V for C19: every recorded RequiredPrivileges call of the real code is judged here.
   Record: [id, s (statement description, see Privileges), mdev,
            obs |-> [text, kind, privs, err?, panic?, sel? |-> <<[privs, err?, panic?]>>, perr?]]
   Classes
     error / panic        RequiredPrivileges returned an error or crashed
     empty-list           the statement reports no privilege at all
     Dev_EmptyPrivilegesCardinalityNoFrom
                          the empty list of a cardinality statement that has no FROM clause
                          (named deviation, recognised on this record's kind / sources / list)
     admin-missing        a statement of the property's administrative list does not require admin
     read-missing         a SELECT (outermost, under EXPLAIN, or a subquery taken by itself) does not
                          list READ on the database of a measurement it reads at some depth
     write-missing        ... does not list WRITE on the database of its INTO target
     (the same two classes for the second step of a history: every database of the statement is renamed
      in place and the lists are asked for again; a clone taken after the first question is renamed and asked)
     machinery:*          the statement was not accepted / is of another kind than generated: the
                          generator and the grammar disagree - never a verdict about the property
     drift:list           the list differs from the transcribed declaration (RequiredModel) but
                          satisfies the property                                              *)
EXTENDS Privileges, Json, CSV, IOUtils

VARIABLES l, nt
vars == <<l, nt>>

Trace == ndJsonDeserialize(IOEnv.OBS_FILE)
V(c, s) == [class |-> c, sig |-> s]

\* coarse signature of an uncovered requirement: access, whether a database was named, regex or
\* plain measurement, named directly in the FROM clause or only inside a subquery
MissSig(who, q, srcs) ==
  who \o " " \o q.Privilege \o " on " \o (IF q.Name = "" THEN "default db" ELSE "named db")
  \o (IF q.Privilege = "READ"
      THEN LET ms == {m \in Measurements(srcs) : m.db = q.Name}
               direct == \E i \in 1..Len(srcs) : srcs[i].k = "m" /\ srcs[i].db = q.Name
           IN (IF \E m \in ms : m.f \in RegexForms THEN " regex" ELSE " plain")
              \o (IF direct THEN " direct" ELSE " nested")
      ELSE "")

\* one call: error / panic / uncovered requirements of the SELECT q it was made on
CallV(who, c, q) ==
  IF Has(c, "panic") THEN {V("panic", who)}
  ELSE IF Has(c, "err") THEN {V("error", who)}
  ELSE {V(IF x.Privilege = "READ" THEN "read-missing" ELSE "write-missing", MissSig(who, x, q.srcs))
          : x \in Missing(c.privs, q.srcs, q.tgt)}

RenDb(db) == IF db = "" THEN "dflt" ELSE db \o "x"
RenTgt(t) == IF t.f = "none" THEN t ELSE [t EXCEPT !.db = RenDb(@)]
RECURSIVE RenSrcs(_)
RenSrcs(srcs) == [i \in 1..Len(srcs) |-> IF srcs[i].k = "m" THEN [srcs[i] EXCEPT !.db = RenDb(@)]
                                       ELSE Sub(RenSrcs(srcs[i].srcs), RenTgt(srcs[i].tgt))]
HasSelects(s) == s.kind \in SelectKinds \/ s.kind = "CreateContinuousQuery"

Verdicts(r) ==
  LET o == r.obs s == r.s IN
  IF Has(o, "harness_panic") \/ Has(o, "parse_panic") THEN {V("machinery:panic", s.kind)}
  ELSE IF Has(o, "perr") THEN {V("machinery:rejected", s.kind)}
  ELSE IF o.kind # s.kind THEN {V("machinery:kind", s.kind \o " parsed as " \o o.kind)}
  ELSE IF Has(o, "panic") THEN {V("panic", s.kind)}
  ELSE IF Has(o, "err") THEN {V("error", s.kind)}
  ELSE
  LET list == o.privs
      empty == IF NonEmpty(list) THEN {}
               ELSE IF Dev_EmptyPrivilegesCardinalityNoFrom(s, list) THEN {V("Dev_EmptyPrivilegesCardinalityNoFrom", "")}
               ELSE {V("empty-list", s.kind)}
      admin == IF AdminOK(s, list) THEN {} ELSE {V("admin-missing", s.kind)}
      \* the statement's own list (for EXPLAIN: the list EXPLAIN reports) against its SELECT
      top == IF s.kind \in SelectKinds THEN CallV(IF s.wrap = "none" THEN "statement" ELSE "explain", o, [srcs |-> s.srcs, tgt |-> s.tgt]) ELSE {}
      \* every SELECT inside, called directly
      qs == Selects(s)
      inner == IF ~HasSelects(s) THEN {}
               ELSE IF ~Has(o, "sel") \/ Len(o.sel) # Len(qs) \/ Has(o, "walk_panic") THEN {V("machinery:selects", s.kind)}
               ELSE UNION {CallV(IF i = 1 THEN "select" ELSE "subquery", o.sel[i], qs[i]) : i \in 1..Len(qs)}
      \* second step of the history: every database renamed in place (and in a clone taken after the first question)
      eqs == [i \in 1..Len(qs) |-> [srcs |-> RenSrcs(qs[i].srcs), tgt |-> RenTgt(qs[i].tgt)]]
      etop == IF s.kind \in SelectKinds /\ Has(o, "edited")
              THEN CallV("statement after an in-place edit", o.edited, [srcs |-> RenSrcs(s.srcs), tgt |-> RenTgt(s.tgt)]) ELSE {}
      einner == IF ~HasSelects(s) \/ ~Has(o, "edited_sel") THEN {}
                ELSE IF Len(o.edited_sel) # Len(qs) THEN {V("machinery:selects", s.kind)}
                ELSE UNION {CallV("select after an in-place edit", o.edited_sel[i], eqs[i]) : i \in 1..Len(qs)}
      cinner == IF ~HasSelects(s) \/ ~Has(o, "clone_edited_sel") THEN {}
                ELSE IF Len(o.clone_edited_sel) # Len(qs) THEN {V("machinery:selects", s.kind)}
                ELSE UNION {CallV("edited clone", o.clone_edited_sel[i], eqs[i]) : i \in 1..Len(qs)}
      hist == IF Has(o, "edit_panic") THEN {V("machinery:edit", s.kind)} ELSE etop \cup einner \cup cinner
      all == empty \cup admin \cup top \cup inner \cup hist
  IN IF all # {} THEN all
     ELSE IF list = RequiredModel(s) THEN {} ELSE {V("drift:list", s.kind)}

\* non-trivial: a SELECT / EXPLAIN with at least two measurements, a subquery or an INTO target;
\* every instance of another statement kind
NonTrivial(r) == LET s == r.s IN
  IF s.kind \in SelectKinds
  THEN Cardinality(Measurements(s.srcs)) >= 2 \/ Len(Selects(s)) > 1 \/ s.tgt.f # "none"
  ELSE TRUE

Init == l = 1 /\ nt = 0
Step == /\ l <= Len(Trace)
        /\ LET r == Trace[l] IN
             /\ \A v \in Verdicts(r) : CSVWrite("%1$s", <<ToJson([id |-> r.id, class |-> v.class, sig |-> v.sig])>>, IOEnv.VERDICT_FILE)
             /\ nt' = nt + (IF NonTrivial(r) THEN 1 ELSE 0)
        /\ l' = l + 1
Finish == /\ l = Len(Trace) + 1
          /\ CSVWrite("%1$s", <<ToJson([judged |-> Len(Trace), nontrivial |-> nt])>>, IOEnv.STATS_FILE)
          /\ l' = l + 1 /\ UNCHANGED nt
Next == Step \/ Finish
Spec == Init /\ [][Next]_vars
Accepted == TLCGet("stats").diameter = Len(Trace) + 2
=============================================================================
