----------------------------- MODULE Privileges -----------------------------
(* C19 - required privileges cover everything a statement touches.

   Statement descriptions (abstract; produced by Gen_c19, read back by Judge_c19):

     [kind, on, exact, srcs, tgt, wrap]
       kind   Go type name of the statement without the suffix "Statement"
              ("Select", "ShowTagKeyCardinality", "DropShard", ...); an EXPLAIN of a SELECT
              is kind "Explain" with the SELECT's sources / target and wrap # "none"
       on     database named by the statement's ON clause ("" = none)
       exact  EXACT keyword present (cardinality statements)
       srcs   sequence of sources          tgt  INTO target
       wrap   "none" | "explain" | "analyze" | "verbose" | "analyze_verbose"

     source   [k |-> "m",   f |-> form, db |-> database named in the source ("" = none)]
              [k |-> "sub", srcs |-> <<source ...>>, tgt |-> target]
     forms    "m" "rp.m" "db.rp.m" "db..m"  and the regex sources  "re" "rp.re" "db.rp.re" "db..re"
     target   [f |-> "none", db |-> ""] or [f |-> form, db |-> database named in the target]
     forms    "m" "rp.m" "db.rp.m" "db..m" "rp.:M" "db.rp.:M" "db..:M"

   Two parts, deliberately separate:

   (P)  Required / Holds - what properties.jsonl C19 demands of a privilege list.
        Coverage, not equality: extra privileges never matter.
   (D)  RequiredModel    - the per-statement declarations of ast.go, transcribed.

   A privilege list is a sequence of [Admin |-> BOOLEAN, Name |-> STRING, Privilege |-> STRING]
   with Privilege one of "READ" "WRITE" "ALL PRIVILEGES" "NO PRIVILEGES" (Privilege.String()). *)
EXTENDS Naturals, Sequences, FiniteSets, TLC, Tok

Has(r, f) == f \in DOMAIN r
Range(s) == {s[i] : i \in 1..Len(s)}

NoTgt == [f |-> "none", db |-> ""]
Leaf(f, db) == [k |-> "m", f |-> f, db |-> db]
Sub(srcs, tgt) == [k |-> "sub", srcs |-> srcs, tgt |-> tgt]
St(kind, on, exact, srcs, tgt, wrap) ==
  [kind |-> kind, on |-> on, exact |-> exact, srcs |-> srcs, tgt |-> tgt, wrap |-> wrap]
Plain(kind) == St(kind, "", FALSE, <<>>, NoTgt, "none")
OnSt(kind, on) == St(kind, on, FALSE, <<>>, NoTgt, "none")

NoDbForms == {"m", "rp.m", "re", "rp.re"}
DbForms == {"db.rp.m", "db..m", "db.rp.re", "db..re"}
RegexForms == {"re", "rp.re", "db.rp.re", "db..re"}
TgtNoDbForms == {"m", "rp.m", "rp.:M"}
TgtDbForms == {"db.rp.m", "db..m", "db.rp.:M", "db..:M"}

\* ------------------------------------------------------------------ (P)
\* Every measurement read by a source list, at any depth.  The database of a measurement
\* written without one is "" (ast.go documents that callers read "" as the default database).
RECURSIVE Measurements(_)
Measurements(srcs) ==
  UNION {IF srcs[i].k = "m" THEN {srcs[i]} ELSE Measurements(srcs[i].srcs) : i \in 1..Len(srcs)}

\* what a SELECT with these sources and this target must list
\* ("covers everything the statement touches ... with any nesting of subqueries": the INTO target of a SELECT nested
\* at any depth is written when the outer statement runs, so the outer list names it, too)
RECURSIVE NestedTargets(_)
NestedTargets(srcs) ==
  UNION {IF srcs[i].k # "sub" THEN {}
         ELSE (IF srcs[i].tgt.f = "none" THEN {} ELSE {srcs[i].tgt}) \cup NestedTargets(srcs[i].srcs) : i \in 1..Len(srcs)}
Required(srcs, tgt) ==
  {[Name |-> m.db, Privilege |-> "READ"] : m \in Measurements(srcs)}
  \cup (IF tgt.f = "none" THEN {} ELSE {[Name |-> tgt.db, Privilege |-> "WRITE"]})
  \cup {[Name |-> t.db, Privilege |-> "WRITE"] : t \in NestedTargets(srcs)}

\* a listed privilege p grants the required (database, access) pair q
Grants(p, q) == p.Name = q.Name /\ p.Privilege \in {q.Privilege, "ALL PRIVILEGES"}
Covered(list, q) == \E i \in 1..Len(list) : Grants(list[i], q)
Missing(list, srcs, tgt) == {q \in Required(srcs, tgt) : ~Covered(list, q)}

\* every SELECT inside a statement, outermost first, sources left to right (pre-order);
\* each one is itself a SELECT the property speaks about
RECURSIVE SubSelects(_)
SubSelects(srcs) ==
  IF srcs = <<>> THEN <<>>
  ELSE LET h == Head(srcs) IN
       (IF h.k = "sub" THEN <<[srcs |-> h.srcs, tgt |-> h.tgt]>> \o SubSelects(h.srcs) ELSE <<>>)
       \o SubSelects(Tail(srcs))
Selects(s) == <<[srcs |-> s.srcs, tgt |-> s.tgt]>> \o SubSelects(s.srcs)

SelectKinds == {"Select", "Explain"}

\* the property's list of administrative statements, by Go type
AdminKinds == {
  "CreateUser", "DropUser", "SetPasswordUser", "Grant", "GrantAdmin", "Revoke", "RevokeAdmin",   \* user and privilege management
  "CreateDatabase", "DropDatabase", "CreateRetentionPolicy", "AlterRetentionPolicy",
  "CreateSubscription", "DropSubscription", "ShowSubscriptions",                                 \* subscriptions
  "DropShard", "DropMeasurement", "KillQuery",
  "ShowUsers", "ShowGrantsForUser", "ShowShards", "ShowShardGroups", "ShowStats", "ShowDiagnostics"}

NonEmpty(list) == Len(list) > 0
RequiresAdmin(list) == \E i \in 1..Len(list) : list[i].Admin
AdminOK(s, list) == s.kind \in AdminKinds => RequiresAdmin(list)
SelectOK(s, list) == s.kind \in SelectKinds => Missing(list, s.srcs, s.tgt) = {}

\* the whole property for one statement and the (error-free) list it reported
Holds(s, list) == NonEmpty(list) /\ AdminOK(s, list) /\ SelectOK(s, list)

\* ------------------------------------------------------------------ (D)
Pr(admin, name, priv) == [Admin |-> admin, Name |-> name, Privilege |-> priv]
AdminAll == <<Pr(TRUE, "", "ALL PRIVILEGES")>>

\* Sources.RequiredPrivileges / SelectStatement.RequiredPrivileges (mutually recursive)
RECURSIVE SourcesModel(_)
SelectModel(srcs, tgt) ==
  SourcesModel(srcs) \o (IF tgt.f = "none" THEN <<>> ELSE <<Pr(FALSE, tgt.db, "WRITE")>>)
SourcesModel(srcs) ==
  IF srcs = <<>> THEN <<>>
  ELSE LET h == Head(srcs) IN
       (IF h.k = "m" THEN <<Pr(FALSE, h.db, "READ")>> ELSE SelectModel(h.srcs, h.tgt))
       \o SourcesModel(Tail(srcs))

ModelAdminKinds == {
  "CreateDatabase", "DropDatabase", "CreateUser", "DropUser", "Grant", "GrantAdmin", "KillQuery",
  "SetPasswordUser", "Revoke", "RevokeAdmin", "CreateRetentionPolicy", "AlterRetentionPolicy",
  "DropShard", "ShowGrantsForUser", "DropMeasurement", "ShowStats", "ShowShardGroups", "ShowShards",
  "ShowDiagnostics", "CreateSubscription", "DropSubscription", "ShowSubscriptions", "ShowUsers"}

\* one line per RequiredPrivileges method of ast.go
RequiredModel(s) ==
  CASE s.kind \in {"Select", "Explain"} -> SelectModel(s.srcs, s.tgt)      \* EXPLAIN delegates to its SELECT
    [] s.kind \in ModelAdminKinds -> AdminAll
    [] s.kind \in {"DropRetentionPolicy", "DropContinuousQuery"} -> <<Pr(FALSE, s.on, "WRITE")>>
    [] s.kind \in {"DeleteSeries", "DropSeries", "Delete"} -> <<Pr(FALSE, "", "WRITE")>>
    [] s.kind \in {"ShowSeries", "ShowMeasurements", "ShowRetentionPolicies", "ShowTagKeys",
                   "ShowTagValues", "ShowFieldKeys"} -> <<Pr(FALSE, s.on, "READ")>>
    [] s.kind \in {"ShowContinuousQueries", "ShowQueries"} -> <<Pr(FALSE, "", "READ")>>
    [] s.kind = "ShowDatabases" -> <<Pr(FALSE, "", "NO PRIVILEGES")>>
    [] s.kind \in {"ShowSeriesCardinality", "ShowMeasurementCardinality"} ->
         IF ~s.exact \/ s.srcs = <<>> THEN <<Pr(FALSE, s.on, "READ")>> ELSE SourcesModel(s.srcs)
    [] s.kind \in {"ShowTagKeyCardinality", "ShowTagValuesCardinality", "ShowFieldKeyCardinality"} ->
         \* sourcesOrDatabasePrivileges (repair of the empty-list defect): no FROM -> READ on the ON database
         IF s.srcs = <<>> THEN <<Pr(FALSE, s.on, "READ")>> ELSE SourcesModel(s.srcs)
    [] s.kind = "CreateContinuousQuery" ->
         <<Pr(FALSE, s.on, "READ")>> \o (IF s.tgt.db # "" THEN <<Pr(FALSE, s.tgt.db, "WRITE")>> ELSE <<>>)
    [] OTHER -> <<>>

\* ------------------------------------------------------ named deviation
(* Dev_EmptyPrivilegesCardinalityNoFrom: the cardinality statements that delegate to
   Sources.RequiredPrivileges() report an EMPTY list when the statement has no FROM clause
   (SHOW TAG KEY [EXACT] CARDINALITY, SHOW TAG VALUES [EXACT] CARDINALITY, SHOW FIELD KEY [EXACT]
   CARDINALITY, SHOW SERIES EXACT CARDINALITY, SHOW MEASUREMENT EXACT CARDINALITY - with or without
   ON db).  Recognises exactly that shape: the kind, no sources, the list empty.            *)
DelegatesToSources(s) ==
  \/ s.kind \in {"ShowTagKeyCardinality", "ShowTagValuesCardinality", "ShowFieldKeyCardinality"}
  \/ s.kind \in {"ShowSeriesCardinality", "ShowMeasurementCardinality"} /\ s.exact
Dev_EmptyPrivilegesCardinalityNoFrom(s, list) ==
  DelegatesToSources(s) /\ s.srcs = <<>> /\ list = <<>>

\* pass M invariant body: the design satisfies the property except for the named deviation
\* (the deviation was repaired in /repo; the predicate stays so that the judge names the
\* failure shape if it ever returns - it is no longer listed, hence a VIOLATION)
DesignOK(s) == Holds(s, RequiredModel(s))
\* the nested SELECTs of a statement, each judged as a SELECT of its own
DesignSelectsOK(s) ==
  s.kind \in SelectKinds =>
    \A i \in 1..Len(Selects(s)) :
       LET q == Selects(s)[i] IN Missing(SelectModel(q.srcs, q.tgt), q.srcs, q.tgt) = {}

\* ------------------------------------------------------------ rendering
Kws(ws) == [i \in 1..Len(ws) |-> Kw(ws[i])]
RECURSIVE Flat(_)
Flat(ss) == IF ss = <<>> THEN <<>> ELSE Head(ss) \o Flat(Tail(ss))

RpName == "rp"
MName == "m"
Dot == PT(".")
\* a database / user / object name: the witness names are written bare, any other name (source dictionary) quoted
BareNames == {"d1", "d2", "d3", "u", "sub", "cq", "host", "rp", "m", "t"}
NId(n) == IF n \in BareNames THEN Id(n) ELSE QId(n)

\* a leaf may carry a measurement name of its own (field nm: the source dictionary); what it requires depends on its database only
LeafName(l) == IF "nm" \in DOMAIN l THEN l.nm ELSE MName
NIdT(n) == IF n \in BareNames THEN IdT(n) ELSE QIdT(n)
LeafToks(l) ==
  CASE l.f = "m"        -> <<NId(LeafName(l))>>
    [] l.f = "rp.m"     -> <<Id(RpName), Dot, NIdT(LeafName(l))>>
    [] l.f = "db.rp.m"  -> <<NId(l.db), Dot, IdT(RpName), Dot, NIdT(LeafName(l))>>
    [] l.f = "db..m"    -> <<NId(l.db), Dot, Dot, NIdT(LeafName(l))>>
    [] l.f = "re"       -> <<Re("m.*")>>
    [] l.f = "rp.re"    -> <<Id(RpName), Dot, ReT("m.*")>>
    [] l.f = "db.rp.re" -> <<NId(l.db), Dot, IdT(RpName), Dot, ReT("m.*")>>
    [] l.f = "db..re"   -> <<NId(l.db), Dot, Dot, ReT("m.*")>>

TgtToks(t) ==
  CASE t.f = "none"     -> <<>>
    [] t.f = "m"        -> <<Kw("INTO"), Id("t")>>
    [] t.f = "rp.m"     -> <<Kw("INTO"), Id(RpName), Dot, IdT("t")>>
    [] t.f = "db.rp.m"  -> <<Kw("INTO"), NId(t.db), Dot, IdT(RpName), Dot, IdT("t")>>
    [] t.f = "db..m"    -> <<Kw("INTO"), NId(t.db), Dot, Dot, IdT("t")>>
    [] t.f = "rp.:M"    -> <<Kw("INTO"), Id(RpName), Dot, PT(":"), KwT("MEASUREMENT")>>
    [] t.f = "db.rp.:M" -> <<Kw("INTO"), NId(t.db), Dot, IdT(RpName), Dot, PT(":"), KwT("MEASUREMENT")>>
    [] t.f = "db..:M"   -> <<Kw("INTO"), NId(t.db), Dot, Dot, PT(":"), KwT("MEASUREMENT")>>

RECURSIVE SourcesToks(_)
SelectToks(srcs, tgt) == <<Kw("SELECT"), Id("v")>> \o TgtToks(tgt) \o <<Kw("FROM")>> \o SourcesToks(srcs)
SourceToks(x) == IF x.k = "m" THEN LeafToks(x)
                 ELSE <<P("(")>> \o SelectToks(x.srcs, x.tgt) \o <<P(")")>>
SourcesToks(srcs) ==
  IF srcs = <<>> THEN <<>>
  ELSE SourceToks(Head(srcs)) \o (IF Len(srcs) > 1 THEN <<PT(",")>> \o SourcesToks(Tail(srcs)) ELSE <<>>)

WrapToks(w) == CASE w = "none" -> <<>>
                 [] w = "explain" -> Kws(<<"EXPLAIN">>)
                 [] w = "analyze" -> Kws(<<"EXPLAIN", "ANALYZE">>)
                 [] w = "verbose" -> Kws(<<"EXPLAIN", "VERBOSE">>)
                 [] w = "analyze_verbose" -> Kws(<<"EXPLAIN", "ANALYZE", "VERBOSE">>)

OnToks(on) == IF on = "" THEN <<>> ELSE <<Kw("ON"), NId(on)>>
FromToks(srcs) == IF srcs = <<>> THEN <<>> ELSE <<Kw("FROM")>> \o SourcesToks(srcs)
ExactToks(e) == IF e THEN <<Kw("EXACT")>> ELSE <<>>
=============================================================================
