------------------------------ MODULE Gen_c19 ------------------------------
(* Pass M + G for C19.

   Part "select": TLC builds source forests item by item (pre-order: every step appends one
   source - a measurement in one of the leaf forms, or an opening subquery - at a legal
   depth), for every choice of INTO target and EXPLAIN wrapper made in the initial state.
   Every complete forest is one SELECT / EXPLAIN statement.
   Part "kinds": one state per instance of every statement kind the parser can produce
   (parse_tree.go), with the options that matter for privileges (ON, FROM, EXACT, target).

   In every state TLC checks the design (RequiredModel, transcribed from ast.go) against the
   property (Privileges!Holds) - pass M - and the completing action writes the statement as
   one case: token records to render, the abstract description the judge needs.          *)
EXTENDS Privileges, Dict, Json, CSV, IOUtils

CONSTANTS Part,        \* "select" | "kinds" | "dict"
          MaxLeaves,   \* measurements per statement
          MaxDepth,    \* subquery nesting (0 = no subqueries)
          MaxWidth,    \* sources per FROM clause
          LeafForms,   \* subset of NoDbForms \cup DbForms
          DBs,         \* database names used in sources
          Targets,     \* set of target records for the outermost SELECT
          SubTargets,  \* set of target records for subqueries
          Wraps        \* subset of the wrap names

\* named constant values for the cfg files (records cannot be written there)
TargetsNone == {NoTgt}
TargetsAll == {NoTgt} \cup {[f |-> f, db |-> ""] : f \in TgtNoDbForms}
              \cup {[f |-> f, db |-> db] : f \in TgtDbForms, db \in DBs}
TargetsFew == {NoTgt, [f |-> "m", db |-> ""], [f |-> "db..m", db |-> "d3"], [f |-> "db.rp.:M", db |-> "d2"]}
SubTargetsFew == {NoTgt, [f |-> "db..m", db |-> "d3"]}

VARIABLES items, tgt, wrap, kst
vars == <<items, tgt, wrap, kst>>

CaseFile == IOEnv.CASE_FILE

\* ------------------------------------------------------------ part "select"
\* items: <<[d |-> depth, k |-> "m", f, db] | [d |-> depth, k |-> "sub", tgt]>> in pre-order
LeafItems(d) == {[d |-> d, k |-> "m", f |-> f, db |-> ""] : f \in LeafForms \cap NoDbForms}
                \cup {[d |-> d, k |-> "m", f |-> f, db |-> db] : f \in LeafForms \cap DbForms, db \in DBs}
SubItems(d) == IF d > MaxDepth THEN {} ELSE {[d |-> d, k |-> "sub", tgt |-> t] : t \in SubTargets}

NLeaves(its) == Cardinality({i \in 1..Len(its) : its[i].k = "m"})
\* index of the parent of a new item at depth d appended to its (0 = the statement itself)
ParentIdx(its, d) == IF d = 1 THEN 0
                     ELSE CHOOSE i \in 1..Len(its) : its[i].d = d - 1 /\ \A j \in (i + 1)..Len(its) : its[j].d >= d
NSiblings(its, d) == LET p == ParentIdx(its, d) IN Cardinality({j \in (p + 1)..Len(its) : its[j].d = d})
DepthsAfter(its) == IF its = <<>> THEN {1}
                    ELSE LET l == its[Len(its)] IN IF l.k = "sub" THEN {l.d + 1} ELSE 1..l.d
CompleteItems(its) == its # <<>> /\ its[Len(its)].k = "m"

\* flat pre-order -> nested sources
RECURSIVE NestFrom(_, _, _)
NestFrom(its, i, d) ==
  IF i > Len(its) \/ its[i].d < d THEN [srcs |-> <<>>, next |-> i]
  ELSE LET it == its[i] IN
       IF it.k = "sub"
       THEN LET ch == NestFrom(its, i + 1, d + 1)
                rest == NestFrom(its, ch.next, d)
            IN [srcs |-> <<Sub(ch.srcs, it.tgt)>> \o rest.srcs, next |-> rest.next]
       ELSE LET rest == NestFrom(its, i + 1, d)
            IN [srcs |-> <<Leaf(it.f, it.db)>> \o rest.srcs, next |-> rest.next]
Nest(its) == NestFrom(its, 1, 1).srcs

SelStmt(its, t, w) == St(IF w = "none" THEN "Select" ELSE "Explain", "", FALSE, Nest(its), t, w)
SelCase(its, t, w) == LET s == SelStmt(its, t, w) IN
  [toks |-> WrapToks(w) \o SelectToks(s.srcs, s.tgt), s |-> s,
   mdev |-> ~Holds(s, RequiredModel(s))]

\* ------------------------------------------------------------- part "kinds"
OnOpts == {"", "d1"}
FromOpts == {<<>>, <<Leaf("m", "")>>, <<Leaf("db.rp.m", "d2")>>, <<Leaf("re", "")>>,
             <<Leaf("rp.m", ""), Leaf("db..m", "d3")>>}
WithKey == <<Kw("WITH"), Kw("KEY"), P("="), Id("k")>>
WithKeyIn == <<Kw("WITH"), Kw("KEY"), Kw("IN"), P("("), IdT("k1"), PT(","), Id("k2"), PT(")")>>
Where == <<Kw("WHERE"), Id("h"), P("="), Str("x")>>
DbRp(db) == <<Id(db), Dot, IdT(RpName)>>

KS(s, toks) == [s |-> s, toks |-> toks]
CardFamily(kind, pre, post) ==
  {KS(St(kind, on, ex, from, NoTgt, "none"),
      Kws(pre) \o ExactToks(ex) \o <<Kw("CARDINALITY")>> \o OnToks(on) \o FromToks(from) \o post)
     : on \in OnOpts, ex \in BOOLEAN, from \in FromOpts}
ShowFamily(kind, pre, posts) ==
  {KS(St(kind, on, FALSE, from, NoTgt, "none"), Kws(pre) \o OnToks(on) \o FromToks(from) \o post)
     : on \in OnOpts, from \in FromOpts, post \in posts}
One(kind, on, toks) == {KS(OnSt(kind, on), toks)}

CqTargets == {[f |-> "m", db |-> ""], [f |-> "rp.m", db |-> ""], [f |-> "db.rp.m", db |-> "d2"],
              [f |-> "db..m", db |-> "d3"], [f |-> "db.rp.:M", db |-> "d2"]}
CqSources == {<<Leaf("m", "")>>, <<Leaf("db..m", "d3")>>, <<Leaf("m", ""), Leaf("db.rp.m", "d2")>>}
Resample == {<<>>, <<Kw("RESAMPLE"), Kw("EVERY"), Dur("1m")>>}
CqFamily ==
  {KS(St("CreateContinuousQuery", "d1", FALSE, srcs, t, "none"),
      Kws(<<"CREATE", "CONTINUOUS", "QUERY">>) \o <<Id("cq"), Kw("ON"), Id("d1")>> \o rs
      \o <<Kw("BEGIN"), Kw("SELECT"), Id("mean"), PT("("), IdT("v"), PT(")")>> \o TgtToks(t) \o <<Kw("FROM")>>
      \o SourcesToks(srcs) \o <<Kw("GROUP"), Kw("BY"), Id("time"), PT("("), DurT("1m"), PT(")"), Kw("END")>>)
     : t \in CqTargets, srcs \in CqSources, rs \in Resample}
  \cup {KS(St("CreateContinuousQuery", "d1", FALSE, <<Leaf("m", "")>>, t, "none"),
           Kws(<<"CREATE", "CONTINUOUS", "QUERY">>) \o <<Id("cq"), Kw("ON"), Id("d1"), Kw("BEGIN"), Kw("SELECT"), Id("v")>>
           \o TgtToks(t) \o <<Kw("FROM"), Id(MName), Kw("END")>>) : t \in CqTargets}

AlterOptSeq == << <<Kw("DURATION"), Dur("2d")>>, <<Kw("REPLICATION"), Int("3")>>, <<Kw("SHARD"), Kw("DURATION"), Dur("1h")>>,
                 <<Kw("DEFAULT")>>, <<Kw("FUTURE"), Kw("LIMIT"), Dur("3h")>>, <<Kw("PAST"), Kw("LIMIT"), Dur("4h")>> >>
CreateRpOptSeq == << <<Kw("SHARD"), Kw("DURATION"), Dur("30m")>>, <<Kw("DEFAULT")>>, <<Kw("FUTURE"), Kw("LIMIT"), Dur("3h")>>,
                    <<Kw("PAST"), Kw("LIMIT"), Dur("4h")>> >>
CreateDbOptSeq == << <<Kw("DURATION"), Dur("1d")>>, <<Kw("REPLICATION"), Int("2")>>, <<Kw("SHARD"), Kw("DURATION"), Dur("1h")>>,
                    <<Kw("FUTURE"), Kw("LIMIT"), Dur("2h")>>, <<Kw("PAST"), Kw("LIMIT"), Dur("3h")>>, <<Kw("NAME"), Id(RpName)>> >>
PickOpts(opts, S) == Flat([i \in 1..Len(opts) |-> IF i \in S THEN opts[i] ELSE <<>>])

PrivWords == {<<"READ">>, <<"WRITE">>, <<"ALL">>, <<"ALL", "PRIVILEGES">>}
AdminWords == {<<"ALL">>, <<"ALL", "PRIVILEGES">>}

Kinds ==
  ShowFamily("ShowSeries", <<"SHOW", "SERIES">>, {<<>>, Where})
  \cup CardFamily("ShowSeriesCardinality", <<"SHOW", "SERIES">>, <<>>)
  \cup CardFamily("ShowMeasurementCardinality", <<"SHOW", "MEASUREMENT">>, <<>>)
  \cup {KS(OnSt("ShowMeasurements", on), Kws(<<"SHOW", "MEASUREMENTS">>) \o OnToks(on) \o w)
          : on \in OnOpts, w \in {<<>>, <<Kw("WITH"), Kw("MEASUREMENT"), P("="), Id(MName)>>,
                                  <<Kw("WITH"), Kw("MEASUREMENT"), P("=~"), Re("m.*")>>}}
  \cup CardFamily("ShowTagKeyCardinality", <<"SHOW", "TAG", "KEY">>, <<>>)
  \cup ShowFamily("ShowTagKeys", <<"SHOW", "TAG", "KEYS">>, {<<>>, WithKey})
  \cup ShowFamily("ShowTagValues", <<"SHOW", "TAG", "VALUES">>, {WithKey, WithKeyIn})
  \cup CardFamily("ShowTagValuesCardinality", <<"SHOW", "TAG", "VALUES">>, WithKey)
  \cup CardFamily("ShowFieldKeyCardinality", <<"SHOW", "FIELD", "KEY">>, <<>>)
  \cup ShowFamily("ShowFieldKeys", <<"SHOW", "FIELD", "KEYS">>, {<<>>})
  \cup {KS(OnSt("ShowRetentionPolicies", on), Kws(<<"SHOW", "RETENTION", "POLICIES">>) \o OnToks(on)) : on \in OnOpts}
  \cup One("ShowContinuousQueries", "", Kws(<<"SHOW", "CONTINUOUS", "QUERIES">>))
  \cup One("ShowDatabases", "", Kws(<<"SHOW", "DATABASES">>))
  \cup One("ShowDiagnostics", "", Kws(<<"SHOW", "DIAGNOSTICS">>))
  \cup One("ShowDiagnostics", "", Kws(<<"SHOW", "DIAGNOSTICS", "FOR">>) \o <<Str("runtime")>>)
  \cup One("ShowStats", "", Kws(<<"SHOW", "STATS">>))
  \cup One("ShowStats", "", Kws(<<"SHOW", "STATS", "FOR">>) \o <<Str("runtime")>>)
  \cup One("ShowGrantsForUser", "", Kws(<<"SHOW", "GRANTS", "FOR">>) \o <<Id("u")>>)
  \cup One("ShowQueries", "", Kws(<<"SHOW", "QUERIES">>))
  \cup One("ShowShardGroups", "", Kws(<<"SHOW", "SHARD", "GROUPS">>))
  \cup One("ShowShards", "", Kws(<<"SHOW", "SHARDS">>))
  \cup One("ShowSubscriptions", "", Kws(<<"SHOW", "SUBSCRIPTIONS">>))
  \cup One("ShowUsers", "", Kws(<<"SHOW", "USERS">>))
  \* DELETE builds a DeleteSeriesStatement (DeleteStatement is not reachable from the parser)
  \cup {KS(St("DeleteSeries", "", FALSE, q[1], NoTgt, "none"), Kws(<<"DELETE">>) \o FromToks(q[1]) \o q[2])
          : q \in {r \in {<<>>, <<Leaf("m", "")>>, <<Leaf("re", "")>>, <<Leaf("rp.m", "")>>} \X {<<>>, Where} : r[1] # <<>> \/ r[2] # <<>>}}
  \cup {KS(St("DropSeries", "", FALSE, q[1], NoTgt, "none"), Kws(<<"DROP", "SERIES">>) \o FromToks(q[1]) \o q[2])
          : q \in {r \in {<<>>, <<Leaf("m", "")>>, <<Leaf("re", "")>>} \X {<<>>, Where} : r[1] # <<>> \/ r[2] # <<>>}}
  \cup CqFamily
  \cup One("CreateDatabase", "", Kws(<<"CREATE", "DATABASE">>) \o <<Id("d1")>>)
  \cup One("CreateDatabase", "", Kws(<<"CREATE", "DATABASE">>) \o <<Id("d1"), Kw("WITH"), Kw("DURATION"), Dur("1d"), Kw("REPLICATION"), Int("1"), Kw("SHARD"), Kw("DURATION"), Dur("1h"), Kw("NAME"), Id(RpName)>>)
  \cup One("CreateDatabase", "", Kws(<<"CREATE", "DATABASE">>) \o <<Id("d1"), Kw("WITH"), Kw("NAME"), Id(RpName)>>)
  \cup One("CreateUser", "", Kws(<<"CREATE", "USER">>) \o <<Id("u"), Kw("WITH"), Kw("PASSWORD"), Str("pw")>>)
  \cup One("CreateUser", "", Kws(<<"CREATE", "USER">>) \o <<Id("u"), Kw("WITH"), Kw("PASSWORD"), Str("pw"), Kw("WITH"), Kw("ALL"), Kw("PRIVILEGES")>>)
  \cup {KS(OnSt("CreateRetentionPolicy", "d1"),
           Kws(<<"CREATE", "RETENTION", "POLICY">>) \o <<Id(RpName), Kw("ON"), Id("d1"), Kw("DURATION"), Dur("1h"), Kw("REPLICATION"), Int("1")>> \o sd \o df)
          : sd \in {<<>>, <<Kw("SHARD"), Kw("DURATION"), Dur("30m")>>}, df \in {<<>>, <<Kw("DEFAULT")>>}}
  \cup {KS(OnSt("CreateSubscription", "d1"),
           Kws(<<"CREATE", "SUBSCRIPTION">>) \o <<Id("sub"), Kw("ON")>> \o DbRp("d1") \o <<Kw("DESTINATIONS"), Kw(mode), Str("udp://h:9000")>>)
          : mode \in {"ALL", "ANY"}}
  \cup One("DropContinuousQuery", "d1", Kws(<<"DROP", "CONTINUOUS", "QUERY">>) \o <<Id("cq"), Kw("ON"), Id("d1")>>)
  \cup One("DropDatabase", "", Kws(<<"DROP", "DATABASE">>) \o <<Id("d1")>>)
  \cup One("DropMeasurement", "", Kws(<<"DROP", "MEASUREMENT">>) \o <<Id(MName)>>)
  \cup One("DropRetentionPolicy", "d1", Kws(<<"DROP", "RETENTION", "POLICY">>) \o <<Id(RpName), Kw("ON"), Id("d1")>>)
  \cup One("DropShard", "", Kws(<<"DROP", "SHARD">>) \o <<Int("7")>>)
  \cup One("DropSubscription", "d1", Kws(<<"DROP", "SUBSCRIPTION">>) \o <<Id("sub"), Kw("ON")>> \o DbRp("d1"))
  \cup One("DropUser", "", Kws(<<"DROP", "USER">>) \o <<Id("u")>>)
  \cup {KS(OnSt("Grant", "d1"), <<Kw("GRANT")>> \o Kws(pw) \o <<Kw("ON"), Id("d1"), Kw("TO"), Id("u")>>) : pw \in PrivWords}
  \cup {KS(Plain("GrantAdmin"), <<Kw("GRANT")>> \o Kws(pw) \o <<Kw("TO"), Id("u")>>) : pw \in AdminWords}
  \cup {KS(OnSt("Revoke", "d1"), <<Kw("REVOKE")>> \o Kws(pw) \o <<Kw("ON"), Id("d1"), Kw("FROM"), Id("u")>>) : pw \in PrivWords}
  \cup {KS(Plain("RevokeAdmin"), <<Kw("REVOKE")>> \o Kws(pw) \o <<Kw("FROM"), Id("u")>>) : pw \in AdminWords}
  \cup {KS(OnSt("AlterRetentionPolicy", "d1"), Kws(<<"ALTER", "RETENTION", "POLICY">>) \o <<Id(RpName), Kw("ON"), Id("d1")>> \o o)
          : o \in {<<Kw("DURATION"), Dur("2d")>>, <<Kw("REPLICATION"), Int("3"), Kw("DEFAULT")>>,
                   <<Kw("SHARD"), Kw("DURATION"), Dur("1h"), Kw("DURATION"), Dur("1d")>>, <<Kw("DEFAULT")>>}}
  \* every non-empty subset of the six ALTER options, every subset of the optional CREATE RETENTION POLICY options,
  \* every subset of the CREATE DATABASE ... WITH options: what a statement requires must not depend on its options
  \cup {KS(OnSt("AlterRetentionPolicy", "d1"), Kws(<<"ALTER", "RETENTION", "POLICY">>) \o <<Id(RpName), Kw("ON"), Id("d1")>> \o PickOpts(AlterOptSeq, S))
          : S \in (SUBSET (1..6)) \ {{}}}
  \cup {KS(OnSt("CreateRetentionPolicy", "d1"),
           Kws(<<"CREATE", "RETENTION", "POLICY">>) \o <<Id(RpName), Kw("ON"), Id("d1"), Kw("DURATION"), Dur("1h"), Kw("REPLICATION"), Int("1")>> \o PickOpts(CreateRpOptSeq, S))
          : S \in SUBSET (1..4)}
  \cup {KS(OnSt("CreateDatabase", ""), Kws(<<"CREATE", "DATABASE">>) \o <<Id("d1"), Kw("WITH")>> \o PickOpts(CreateDbOptSeq, S))
          : S \in (SUBSET (1..6)) \ {{}}}
  \cup One("SetPasswordUser", "", Kws(<<"SET", "PASSWORD", "FOR">>) \o <<Id("u"), P("="), Str("pw")>>)
  \cup One("KillQuery", "", Kws(<<"KILL", "QUERY">>) \o <<Int("4")>>)
  \cup One("KillQuery", "", Kws(<<"KILL", "QUERY">>) \o <<Int("4"), Kw("ON"), Id("host")>>)
  \* SELECT and EXPLAIN are the subject of part "select"; one instance each keeps the kind table complete
  \cup {KS(St("Select", "", FALSE, <<Leaf("db..m", "d1")>>, [f |-> "db..m", db |-> "d2"], "none"),
           SelectToks(<<Leaf("db..m", "d1")>>, [f |-> "db..m", db |-> "d2"]))}
  \cup {KS(St("Explain", "", FALSE, <<Leaf("db..m", "d1")>>, NoTgt, w), WrapToks(w) \o SelectToks(<<Leaf("db..m", "d1")>>, NoTgt))
          : w \in {"explain", "analyze", "verbose", "analyze_verbose"}}

\* ------------------------------------------------------------- part "dict"
\* every word of the source dictionary (Dict.tla) as module name, user name, password, object name, host and database
\* name of the statements that take one, and as the database of a SELECT's source and target
LeafN(f, db, nm) == [k |-> "m", f |-> f, db |-> db, nm |-> nm]
DictFamily(w) ==
  One("ShowDiagnostics", "", Kws(<<"SHOW", "DIAGNOSTICS", "FOR">>) \o <<Str(w)>>)
  \cup One("ShowStats", "", Kws(<<"SHOW", "STATS", "FOR">>) \o <<Str(w)>>)
  \cup One("ShowGrantsForUser", "", Kws(<<"SHOW", "GRANTS", "FOR">>) \o <<QId(w)>>)
  \cup One("CreateUser", "", Kws(<<"CREATE", "USER">>) \o <<QId(w), Kw("WITH"), Kw("PASSWORD"), Str(w)>>)
  \cup One("CreateUser", "", Kws(<<"CREATE", "USER">>) \o <<QId(w), Kw("WITH"), Kw("PASSWORD"), Str("pw"), Kw("WITH"), Kw("ALL"), Kw("PRIVILEGES")>>)
  \cup One("SetPasswordUser", "", Kws(<<"SET", "PASSWORD", "FOR">>) \o <<QId(w), P("="), Str(w)>>)
  \cup One("DropUser", "", Kws(<<"DROP", "USER">>) \o <<QId(w)>>)
  \cup One("CreateDatabase", "", Kws(<<"CREATE", "DATABASE">>) \o <<QId(w)>>)
  \cup One("CreateDatabase", "", Kws(<<"CREATE", "DATABASE">>) \o <<Id("d1"), Kw("WITH"), Kw("NAME"), QId(w)>>)
  \cup One("DropDatabase", "", Kws(<<"DROP", "DATABASE">>) \o <<QId(w)>>)
  \cup One("DropMeasurement", "", Kws(<<"DROP", "MEASUREMENT">>) \o <<QId(w)>>)
  \cup One("KillQuery", "", Kws(<<"KILL", "QUERY">>) \o <<Int("4"), Kw("ON"), QId(w)>>)
  \cup {KS(OnSt("Grant", w), <<Kw("GRANT"), Kw("READ"), Kw("ON"), QId(w), Kw("TO"), QId(w)>>),
        KS(OnSt("Revoke", w), <<Kw("REVOKE"), Kw("ALL"), Kw("ON"), QId(w), Kw("FROM"), QId(w)>>),
        KS(Plain("GrantAdmin"), <<Kw("GRANT"), Kw("ALL"), Kw("TO"), QId(w)>>),
        KS(Plain("RevokeAdmin"), <<Kw("REVOKE"), Kw("ALL"), Kw("PRIVILEGES"), Kw("FROM"), QId(w)>>),
        KS(OnSt("CreateRetentionPolicy", w), Kws(<<"CREATE", "RETENTION", "POLICY">>) \o <<QId(w), Kw("ON"), QId(w), Kw("DURATION"), Dur("1h"), Kw("REPLICATION"), Int("1")>>),
        KS(OnSt("AlterRetentionPolicy", w), Kws(<<"ALTER", "RETENTION", "POLICY">>) \o <<QId(w), Kw("ON"), QId(w), Kw("DEFAULT")>>),
        KS(OnSt("DropRetentionPolicy", w), Kws(<<"DROP", "RETENTION", "POLICY">>) \o <<QId(w), Kw("ON"), QId(w)>>),
        KS(OnSt("CreateSubscription", w), Kws(<<"CREATE", "SUBSCRIPTION">>) \o <<QId(w), Kw("ON"), QId(w), Dot, QIdT(w), Kw("DESTINATIONS"), Kw("ALL"), Str(w)>>),
        KS(OnSt("DropSubscription", w), Kws(<<"DROP", "SUBSCRIPTION">>) \o <<QId(w), Kw("ON"), QId(w), Dot, QIdT(w)>>),
        KS(OnSt("DropContinuousQuery", w), Kws(<<"DROP", "CONTINUOUS", "QUERY">>) \o <<QId(w), Kw("ON"), QId(w)>>),
        KS(OnSt("ShowRetentionPolicies", w), Kws(<<"SHOW", "RETENTION", "POLICIES">>) \o OnToks(w)),
        KS(OnSt("ShowMeasurements", w), Kws(<<"SHOW", "MEASUREMENTS">>) \o OnToks(w)),
        KS(St("ShowSeries", w, FALSE, <<Leaf("db..m", w)>>, NoTgt, "none"), Kws(<<"SHOW", "SERIES">>) \o OnToks(w) \o FromToks(<<Leaf("db..m", w)>>)),
        KS(St("ShowTagKeys", w, FALSE, <<>>, NoTgt, "none"), Kws(<<"SHOW", "TAG", "KEYS">>) \o OnToks(w)),
        KS(St("ShowFieldKeyCardinality", w, TRUE, <<Leaf("db.rp.m", w)>>, NoTgt, "none"),
           Kws(<<"SHOW", "FIELD", "KEY", "EXACT", "CARDINALITY">>) \o OnToks(w) \o FromToks(<<Leaf("db.rp.m", w)>>)),
        KS(St("Select", "", FALSE, <<Leaf("db..m", w), Sub(<<Leaf("db.rp.re", w)>>, NoTgt)>>, [f |-> "db..m", db |-> w], "none"),
           SelectToks(<<Leaf("db..m", w), Sub(<<Leaf("db.rp.re", w)>>, NoTgt)>>, [f |-> "db..m", db |-> w])),
        \* the word as the NAME of a measurement that is read: alone, next to another source, in a subquery, under EXPLAIN,
        \* as the source of SELECT INTO, in the FROM clause of SHOW / cardinality / DELETE statements
        KS(St("Select", "", FALSE, <<LeafN("m", "", w)>>, NoTgt, "none"), SelectToks(<<LeafN("m", "", w)>>, NoTgt)),
        KS(St("Select", "", FALSE, <<LeafN("db..m", "d1", w), Leaf("db..m", "d2")>>, [f |-> "db..m", db |-> "d3"], "none"),
           SelectToks(<<LeafN("db..m", "d1", w), Leaf("db..m", "d2")>>, [f |-> "db..m", db |-> "d3"])),
        KS(St("Select", "", FALSE, <<Leaf("m", ""), Sub(<<LeafN("db.rp.m", "d2", w)>>, NoTgt)>>, NoTgt, "none"),
           SelectToks(<<Leaf("m", ""), Sub(<<LeafN("db.rp.m", "d2", w)>>, NoTgt)>>, NoTgt)),
        KS(St("Explain", "", FALSE, <<LeafN("db..m", "d1", w)>>, NoTgt, "analyze"), WrapToks("analyze") \o SelectToks(<<LeafN("db..m", "d1", w)>>, NoTgt)),
        KS(St("ShowSeriesCardinality", "", TRUE, <<LeafN("db..m", "d1", w)>>, NoTgt, "none"),
           Kws(<<"SHOW", "SERIES", "EXACT", "CARDINALITY">>) \o FromToks(<<LeafN("db..m", "d1", w)>>)),
        KS(St("ShowTagValues", "d1", FALSE, <<LeafN("m", "", w)>>, NoTgt, "none"),
           Kws(<<"SHOW", "TAG", "VALUES">>) \o OnToks("d1") \o FromToks(<<LeafN("m", "", w)>>) \o WithKey),
        KS(St("ShowFieldKeys", "", FALSE, <<LeafN("rp.m", "", w)>>, NoTgt, "none"), Kws(<<"SHOW", "FIELD", "KEYS">>) \o FromToks(<<LeafN("rp.m", "", w)>>)),
        KS(St("DeleteSeries", "", FALSE, <<LeafN("m", "", w)>>, NoTgt, "none"), Kws(<<"DELETE">>) \o FromToks(<<LeafN("m", "", w)>>)),
        KS(St("DropSeries", "", FALSE, <<LeafN("m", "", w)>>, NoTgt, "none"), Kws(<<"DROP", "SERIES">>) \o FromToks(<<LeafN("m", "", w)>>)),
        KS(St("Explain", "", FALSE, <<Leaf("db..m", w)>>, [f |-> "db.rp.:M", db |-> w], "analyze"),
           WrapToks("analyze") \o SelectToks(<<Leaf("db..m", w)>>, [f |-> "db.rp.:M", db |-> w])),
        KS(St("CreateContinuousQuery", w, FALSE, <<Leaf("db..m", w)>>, [f |-> "db..m", db |-> w], "none"),
           Kws(<<"CREATE", "CONTINUOUS", "QUERY">>) \o <<QId(w), Kw("ON"), QId(w), Kw("BEGIN"), Kw("SELECT"), Id("mean"), PT("("), IdT("v"), PT(")")>>
           \o TgtToks([f |-> "db..m", db |-> w]) \o <<Kw("FROM")>> \o SourcesToks(<<Leaf("db..m", w)>>)
           \o <<Kw("GROUP"), Kw("BY"), Id("time"), PT("("), DurT("1m"), PT(")"), Kw("END")>>)}

KindCase(x) == [toks |-> x.toks, s |-> x.s, mdev |-> ~Holds(x.s, RequiredModel(x.s))]

\* ------------------------------------------------------------------ machine
Emit(c) == CSVWrite("%1$s", <<ToJson(c)>>, CaseFile)
Idle == [s |-> Plain("none"), toks |-> <<>>]

Init == /\ items = <<>>
        /\ IF Part = "select" THEN tgt \in Targets /\ wrap \in Wraps /\ kst = Idle
           ELSE tgt = NoTgt /\ wrap = "none" /\ kst = Idle

AddSource == /\ Part = "select"
             /\ NLeaves(items) < MaxLeaves
             /\ \E d \in DepthsAfter(items) :
                  /\ NSiblings(items, d) < MaxWidth
                  /\ \E it \in LeafItems(d) \cup SubItems(d) :
                       LET its == Append(items, it) IN
                         /\ items' = its
                         /\ IF CompleteItems(its) THEN Emit(SelCase(its, tgt, wrap)) ELSE TRUE
             /\ UNCHANGED <<tgt, wrap, kst>>

PickKind == /\ kst = Idle
            /\ IF Part = "kinds" THEN \E x \in Kinds : kst' = x /\ Emit(KindCase(x))
               ELSE IF Part = "dict" THEN \E w \in DictStrs : \E x \in DictFamily(w) : kst' = x /\ Emit(KindCase(x))
               ELSE FALSE
            /\ UNCHANGED <<items, tgt, wrap>>

Next == AddSource \/ PickKind
Spec == Init /\ [][Next]_vars

\* the statement of the current state, if the state is one
Current == IF Part = "select" THEN SelStmt(items, tgt, wrap) ELSE kst.s
IsStmt == IF Part = "select" THEN CompleteItems(items) ELSE kst # Idle

\* M: the transcribed declarations satisfy the property, the named deviation excepted
MDesign == IsStmt => DesignOK(Current)
\* M: every nested SELECT, taken as a statement of its own, is covered as well
MNested == IsStmt => DesignSelectsOK(Current)
\* M without the exclusion (used once, expecting the counterexample of the named deviation)
MStrict == IsStmt => Holds(Current, RequiredModel(Current))
=============================================================================
