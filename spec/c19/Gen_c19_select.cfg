SPECIFICATION Spec
CONSTANTS
  Part = "select"
  MaxLeaves = 2
  MaxDepth = 2
  MaxWidth = 3
  LeafForms = {"m", "rp.m", "re", "rp.re", "db.rp.m", "db..m", "db.rp.re", "db..re"}
  DBs = {"d1", "d2", "d3"}
  Targets <- TargetsFew
  SubTargets <- TargetsNone
  Wraps = {"none", "explain"}
INVARIANTS MDesign MNested
CHECK_DEADLOCK FALSE
