SPECIFICATION Spec
CONSTANTS
  Part = "kinds"
  MaxLeaves = 0
  MaxDepth = 0
  MaxWidth = 0
  LeafForms = {}
  DBs = {"d1", "d2", "d3"}
  Targets <- TargetsNone
  SubTargets <- TargetsNone
  Wraps = {"none"}
INVARIANTS MDesign MNested
CHECK_DEADLOCK FALSE
