SPECIFICATION Spec
CONSTANTS
  Mode = "chain"
  MaxDepth = 1
  ChainSize = "quick"
  WithSem = FALSE
  WithText = "none"
  ExcludeDevs = {"AsLiteralUnsignedNil", "TimeStringEquality", "FloatModZeroNaN", "SubMinDurationWraps"}
  RootOps = {"+", "-", "*", "/", "%", "&", "|", "^", "=", "!=", "<", "<=", ">", ">=", "AND", "OR"}
INVARIANTS ChainWellTyped
CHECK_DEADLOCK FALSE
