----------------------------- MODULE Judge_c09 -----------------------------
(* Pass V for C09: every recorded case is judged here, on what the real package did.

   A record (fam = "expr"):
     [id, tree, binds, alts, via, depth, (want, mred, mfix, fmz when the generator ran the specs),
      obs |-> [ast0, v0, red, red2, v1, redstr, alts |-> [name |-> [red, v1]] | panic | build_err]]
   Decided, in this order:
     machinery:*            the driver did not build the expression the specification describes
     panic                  Reduce / Eval panicked: no value at all
     the PROPERTY           value(Eval(Reduce(e, s1), s2)) = value(Eval(e, s1 u s2))  -- both values observed
                            from the real evaluator (IntegerFloatDivision), compared as tag + value string
                            by EvalSem!ValEq (NaN = NaN, -0 = +0).  A failure is
       Dev_AsLiteralUnsignedNil   when the observed tree is exactly the tree Reduce gives for the same
                                  expression with every Reduce-time unsigned variable written as NilLiteral,
                                  and the value is preserved once those variables are written as
                                  UnsignedLiteral (what a complete asLiteral would produce);
       Dev_TimeStringEquality     when the value is preserved once every = / != between two Reduce-time
                                  strings that look like time literals is replaced by the comparison of
                                  the two strings (which is what Eval, and the property, say it is);
       value-differs              otherwise.
     not-idempotent         Reduce(Reduce(e, s1), s1) differs structurally from Reduce(e, s1)
     drift:FloatModZeroNaN  the evaluator's value differs from EvalSem's, the expression has a float % 0
     drift:evalsem          the evaluator's value differs from EvalSem's exact value, property kept
     drift:reduce-shape     Reduce's tree differs from ReduceModel's (either switch setting), property kept

   A record (fam = "time"): [form, op, tree, binds, now, wantnode, strict, dmin, mred, obs |-> [ast0, red, red2]]
     ok                     red = wantnode (the exact instant / duration / truth value TimeSem computed), or
                            the form uses a bare integer as timestamp (not strict) and was left unfolded
     Dev_SubMinDurationWraps  T - D with D = MinInt64 ns folded to the exact instant minus 2^64 ns
     time-fold              anything else
   A record of the zone slice is a time record that also carries [comp, vt, zoff (, plain)]: the valuer given to
   Reduce was the composition vt (MultiValuer / NowValuer / MapValuer, built by the driver from the tree), wantnode
   was computed by TimeSem in the zone in force zoff.  The sig of time-fold then names the composition.
   = / != between two date-like strings (plain present, v0 / v1 observed from the real evaluator) is the first
   clause's business:
     ok                       value(Eval(red)) = value(Eval(e)): the comparison of the two strings
     Dev_TimeStringEquality   only in its exact shape: red is the truth value of the comparison of the two INSTANTS
                              in the zone in force (= wantnode), and that differs from the evaluator's value
     time-fold                anything else (e.g. the instants compared in another zone)                      *)
EXTENDS ReduceModel, Json, CSV, IOUtils

VARIABLES l, st
vars == <<l, st>>

Trace == ndJsonDeserialize(IOEnv.OBS_FILE)
Has(r, f) == f \in DOMAIN r

RECURSIVE Unparen(_)
Unparen(e) == IF e.k = "ParenExpr" THEN Unparen(e.Expr) ELSE e
RootOp(e) == LET x == Unparen(e) IN IF Has(x, "Op") THEN x.Op ELSE x.k
V(ok, class, sig) == [ok |-> ok, class |-> class, sig |-> sig]
OK == V(TRUE, "ok", "")

AltOK(o, n) == /\ Has(o, "alts") /\ n \in DOMAIN o.alts /\ Has(o.alts[n], "v1") /\ ValEq(o.alts[n].v1, o.v0)
NilShape(o) == /\ Has(o, "alts") /\ "n" \in DOMAIN o.alts /\ Has(o.alts["n"], "red") /\ o.alts["n"].red = o.red
Dev_AsLiteralUnsignedNil(o) == NilShape(o) /\ (AltOK(o, "u") \/ AltOK(o, "us"))
\* ... and only in its exact shape: the observed tree is what the design with the time-string comparison yields
\* (both strings are time literals and were compared as instants); any other wrong answer on such strings is a violation
\* (the design with ONLY the time-string comparison - the repaired asLiteral - or with both named deviations)
ModelRed(r) == MReduce(r.tree, MapValuer(SelectSeq(r.binds, LAMBDA b : b.at = 1)), DevAll)
TseRed(r) == MReduce(r.tree, MapValuer(SelectSeq(r.binds, LAMBDA b : b.at = 1)), [uns |-> FALSE, tse |-> TRUE])
Dev_TimeStringEquality(r, o) == AltOK(o, "s") /\ (o.red = (IF Has(r, "mred") THEN r.mred ELSE ModelRed(r)) \/ o.red = TseRed(r))

ExprVerdict(r, o) ==
  IF ~ValEq(o.v1, o.v0) THEN
       IF NilShape(o) /\ AltOK(o, "u") THEN V(FALSE, "Dev_AsLiteralUnsignedNil", "")
       ELSE IF Dev_TimeStringEquality(r, o) THEN V(FALSE, "Dev_TimeStringEquality", "")
       ELSE IF Dev_AsLiteralUnsignedNil(o) THEN V(FALSE, "Dev_AsLiteralUnsignedNil", "with time-string equality")
       ELSE V(FALSE, "value-differs", RootOp(r.tree) \o " reduced:" \o o.v1.t \o " direct:" \o o.v0.t)
  ELSE IF o.red2 # o.red THEN V(FALSE, "not-idempotent", RootOp(r.tree))
  ELSE IF Has(r, "want") /\ ~ValEq(o.v0, r.want) THEN
       (IF r.fmz THEN V(FALSE, "drift:FloatModZeroNaN", "") ELSE V(FALSE, "drift:evalsem", RootOp(r.tree) \o " " \o o.v0.t))
  ELSE IF Has(r, "mred") /\ o.red # r.mred /\ (IF Has(r, "mfix") THEN o.red # r.mfix ELSE TRUE)
       THEN V(FALSE, "drift:reduce-shape", RootOp(r.tree))
  ELSE OK

P64D == FromDec("18446744073709551616")
Dev_SubMinDurationWraps(r, o) ==
  /\ r.form = "T-D" /\ r.dmin /\ o.red.k = "TimeLiteral" /\ r.wantnode.k = "TimeLiteral"
  /\ o.red.ns = ToDec(Sub(FromDec(r.wantnode.ns), P64D))
SameNode(a, b) == a.k = b.k /\ a = b                      \* total: = on records of different kinds may not be
ZoneSig(r) == IF Has(r, "comp") THEN "zone " \o r.comp \o ": " ELSE ""
\* coarse: the zone slice names composition and form (not the operator), the plain time family form and operator
FoldSig(r, o) == ZoneSig(r) \o r.form \o (IF Has(r, "comp") THEN "" ELSE " " \o r.op)
                 \o (IF o.red.k = "BinaryExpr" THEN " not folded" ELSE " wrong " \o o.red.k)
\* = / != between two date-like strings under a zone
ZoneStrEqVerdict(r, o) ==
  IF ~Has(o, "v0") \/ ~Has(o, "v1") THEN V(FALSE, "machinery:no-eval", "")
  ELSE IF ValEq(o.v1, o.v0) THEN
       (IF o.red2 # o.red THEN V(FALSE, "not-idempotent", ZoneSig(r) \o r.form)
        ELSE IF ~ValEq(o.v0, LitVal(r.plain)) THEN V(FALSE, "drift:evalsem", ZoneSig(r) \o r.op)
        ELSE IF ~SameNode(o.red, r.mred) THEN V(FALSE, "drift:reduce-shape", ZoneSig(r) \o r.form)
        ELSE OK)
  ELSE IF SameNode(o.red, r.wantnode) THEN V(FALSE, "Dev_TimeStringEquality", "zone")
  ELSE V(FALSE, "time-fold", FoldSig(r, o) \o " (string equality)")
TimeVerdict(r, o) ==
  IF Has(r, "plain") THEN ZoneStrEqVerdict(r, o)
  ELSE IF SameNode(o.red, r.wantnode) \/ (~r.strict /\ o.red.k = "BinaryExpr") THEN
       (IF o.red2 # o.red THEN V(FALSE, "not-idempotent", ZoneSig(r) \o r.form)
        ELSE IF o.red # r.mred THEN V(FALSE, "drift:reduce-shape", ZoneSig(r) \o r.form)
        ELSE OK)
  ELSE IF Dev_SubMinDurationWraps(r, o) THEN V(FALSE, "Dev_SubMinDurationWraps", "")
  ELSE V(FALSE, "time-fold", FoldSig(r, o))

\* inputs of Reduce come out unchanged; a staged reduction (clock first, bindings later) gives the direct result
InputVerdicts(r) ==
  LET o == r.obs IN
  (IF Has(o, "in_after") /\ Has(o, "ast0") /\ o.in_after # o.ast0 THEN {V(FALSE, "input-mutated", "the expression given to Reduce")} ELSE {})
  \* other entry points fold the same way: SelectStatement.Reduce on a statement holding the expression as its condition,
  \* a valuer derived from a base that was then extended a second time
  \cup (IF Has(o, "stmt_red") /\ Has(o, "red") /\ o.stmt_red # o.red THEN {V(FALSE, "entry-point-differs", "SelectStatement.Reduce")} ELSE {})
  \cup (IF Has(o, "multi_red") /\ Has(o, "red") /\ o.multi_red # o.red THEN {V(FALSE, "entry-point-differs", "a derived MultiValuer")} ELSE {})
  \cup (IF Has(o, "red_after") /\ Has(o, "red") /\ o.red_after # o.red THEN {V(FALSE, "input-mutated", "a reduced tree reduced again")} ELSE {})
  \cup (IF ~Has(o, "staged") THEN {}
        ELSE LET sg == o.staged IN
             IF Has(sg, "panic") THEN {V(FALSE, "panic", "staged reduce")}
             ELSE (IF sg.part_after # sg.part \/ sg.part_after2 # sg.part THEN {V(FALSE, "input-mutated", "a partially reduced tree reduced again")} ELSE {})
                  \cup (IF Has(o, "red") /\ sg.full # o.red THEN {V(FALSE, "time-fold", "staged reduction differs from the direct one")} ELSE {}))

Verdict(r) ==
  LET o == r.obs IN
  IF Has(o, "harness_panic") THEN V(FALSE, "machinery:harness-panic", "")
  ELSE IF Has(o, "build_err") THEN V(FALSE, "machinery:build", r.via)
  ELSE IF Has(o, "panic") THEN V(FALSE, "panic", o.panic.at \o " " \o RootOp(r.tree))
  ELSE IF o.ast0 # r.tree THEN V(FALSE, "machinery:ast0", IF Has(r, "via") THEN r.via ELSE "")
  ELSE IF r.fam = "time" THEN TimeVerdict(r, o)
  ELSE IF ~WellTyped(r.tree, r.binds) THEN V(FALSE, "machinery:ill-typed", "")
  ELSE ExprVerdict(r, o)

\* non-trivial: Reduce changed the expression (folded, substituted or simplified something)
NonTrivial(r) == Has(r.obs, "red") /\ Has(r.obs, "ast0") /\ r.obs.red # r.obs.ast0
Folded(r) == Has(r.obs, "red") /\ r.obs.red.k \notin {"BinaryExpr", "VarRef", "ParenExpr", "Call"}

Init == l = 1 /\ st = [nt |-> 0, folded |-> 0, sem |-> 0, shape |-> 0, zone |-> 0]
Step == /\ l <= Len(Trace)
        /\ LET r == Trace[l] v == Verdict(r) IN
             /\ IF v.ok THEN TRUE
                ELSE CSVWrite("%1$s", <<ToJson([id |-> r.id, class |-> v.class, sig |-> v.sig])>>, IOEnv.VERDICT_FILE)
             /\ \A w \in InputVerdicts(r) : CSVWrite("%1$s", <<ToJson([id |-> r.id, class |-> w.class, sig |-> w.sig])>>, IOEnv.VERDICT_FILE)
             /\ st' = [nt |-> st.nt + (IF NonTrivial(r) THEN 1 ELSE 0),
                       folded |-> st.folded + (IF Folded(r) THEN 1 ELSE 0),
                       sem |-> st.sem + (IF Has(r, "want") THEN 1 ELSE 0),
                       shape |-> st.shape + (IF Has(r, "mred") THEN 1 ELSE 0),
                       zone |-> st.zone + (IF Has(r, "comp") THEN 1 ELSE 0)]
        /\ l' = l + 1
Finish == /\ l = Len(Trace) + 1
          /\ CSVWrite("%1$s", <<ToJson([judged |-> Len(Trace), nontrivial |-> st.nt, folded_to_literal |-> st.folded,
                                        compared_with_evalsem |-> st.sem, compared_with_reducemodel |-> st.shape,
                                        zone_compositions |-> st.zone])>>, IOEnv.STATS_FILE)
          /\ l' = l + 1 /\ UNCHANGED st
Next == Step \/ Finish
Spec == Init /\ [][Next]_vars
\* the whole observation file was consumed: one state per record + initial + Finish
Accepted == TLCGet("stats").diameter = Len(Trace) + 2
=============================================================================
