------------------------------- MODULE Num64 -------------------------------
(* Exact machine arithmetic for C09, for TLC (whose own integers are 32-bit).

   Decimal strings enter and leave through spec/common/BigInt.tla (FromDec / ToDec).
   All arithmetic is done on *binary* naturals: little-endian sequences of base-2^15
   limbs (no leading zero limbs, zero = <<>>); every intermediate product stays below
   2^31.  On top of them:

     I   signed integers  [neg, m]            int64 / uint64 values, wrapped explicitly
                                              (W64 / S64: two's complement, as Go does
                                              for + - * on int64 and uint64)
     F   binary floats    [neg, m, e]         value = (-1)^neg * m * 2^e, m odd (canonical),
                          or [nan |-> TRUE]   zero = [neg |-> FALSE, m |-> <<>>, e |-> 0]

   Float operations are the exact rational operation followed by IEEE-754 binary64
   round-to-nearest-even of the significand to 53 bits (FRound).  Exponent range is
   not modelled: the value domains of C09 (|x| between 2^-200 and 2^200) never reach
   overflow, underflow or subnormals.  -0 is identified with +0 (no operator of the
   language distinguishes them: x/0 is 0 by definition, comparisons use ==).
   Validated against Python (fractions + struct) on random 64-bit / float cases.   *)
EXTENDS BigInt
LOCAL INSTANCE Bitwise

BB == 32768

RECURSIVE BAddC(_, _, _, _)
BAddC(a, b, i, c) == IF i > Max(Len(a), Len(b)) THEN (IF c = 0 THEN <<>> ELSE <<c>>)
                     ELSE LET t == Limb(a, i) + Limb(b, i) + c IN <<t % BB>> \o BAddC(a, b, i + 1, t \div BB)
BAdd(a, b) == BAddC(a, b, 1, 0)
BCmp(a, b) == NatCmp(a, b)
RECURSIVE BSubB(_, _, _, _)      \* a >= b
BSubB(a, b, i, br) == IF i > Len(a) THEN <<>>
                      ELSE LET t == Limb(a, i) - Limb(b, i) - br IN
                           IF t < 0 THEN <<t + BB>> \o BSubB(a, b, i + 1, 1) ELSE <<t>> \o BSubB(a, b, i + 1, 0)
BSub(a, b) == Trim(BSubB(a, b, 1, 0))
RECURSIVE BMulS(_, _, _, _)      \* a * m + c   (0 <= m <= BB, 0 <= c < BB)
BMulS(a, m, i, c) == IF i > Len(a) THEN (IF c = 0 THEN <<>> ELSE <<c>>)
                     ELSE LET t == a[i] * m + c IN <<t % BB>> \o BMulS(a, m, i + 1, t \div BB)
BMulSmall(a, m, c) == Trim(BMulS(a, m, 1, c))
RECURSIVE BMulAcc(_, _, _)
BMulAcc(a, b, j) == IF j > Len(b) THEN <<>>
                    ELSE BAdd([k \in 1..(j - 1) |-> 0] \o BMulS(a, b[j], 1, 0), BMulAcc(a, b, j + 1))
BMul(a, b) == Trim(BMulAcc(a, b, 1))
BShl(a, k) == IF a = <<>> THEN <<>> ELSE [j \in 1..(k \div 15) |-> 0] \o BMulSmall(a, 2 ^ (k % 15), 0)
RECURSIVE BDivSR(_, _, _, _)     \* a div/mod small d (1 <= d <= BB), from the top limb down
BDivSR(a, d, i, r) == IF i = 0 THEN [q |-> <<>>, r |-> r]
                      ELSE LET t == r * BB + a[i]
                               res == BDivSR(a, d, i - 1, t % d)
                           IN [q |-> Append(res.q, t \div d), r |-> res.r]
BDivSmall(a, d) == LET x == BDivSR(a, d, Len(a), 0) IN [q |-> Trim(x.q), r |-> x.r]
BShr(a, k) == LET q == k \div 15 IN
              IF q >= Len(a) THEN <<>> ELSE BDivSmall(SubSeq(a, q + 1, Len(a)), 2 ^ (k % 15)).q
BLow(a, k) == LET q == k \div 15 IN      \* a mod 2^k
              IF q >= Len(a) THEN a ELSE Trim(SubSeq(a, 1, q) \o <<a[q + 1] % (2 ^ (k % 15))>>)
RECURSIVE BitLenS(_)
BitLenS(x) == IF x = 0 THEN 0 ELSE 1 + BitLenS(x \div 2)
BBitLen(a) == IF a = <<>> THEN 0 ELSE 15 * (Len(a) - 1) + BitLenS(a[Len(a)])
BBit(a, i) == (Limb(a, i \div 15 + 1) \div (2 ^ (i % 15))) % 2          \* bit i, 0-based
RECURSIVE TzS(_)
TzS(x) == IF x % 2 = 1 THEN 0 ELSE 1 + TzS(x \div 2)
RECURSIVE BTzFrom(_, _)          \* trailing zero bits of a non-zero natural
BTzFrom(a, i) == IF a[i] = 0 THEN 15 + BTzFrom(a, i + 1) ELSE TzS(a[i])
BTz(a) == BTzFrom(a, 1)
BOne == <<1>>

\* a div/mod b (b # 0): long division in base 2^15 with the two-limb quotient estimate of Knuth's
\* algorithm D.  The estimate is never below the true digit and, the divisor being normalised (top
\* limb >= 2^14), exceeds it by at most 2; BFix corrects it by subtraction, so the result is exact.
RECURSIVE BFix(_, _, _, _)
BFix(r, b, qh, t) == IF BCmp(t, r) > 0 THEN BFix(r, b, qh - 1, BSub(t, b)) ELSE [q |-> qh, t |-> t]
RECURSIVE BLD(_, _, _, _, _)
BLD(a, b, i, r, q) == IF i = 0 THEN [q |-> Trim(q), r |-> r]
                      ELSE LET r1 == Trim(<<a[i]>> \o r)
                               n == Len(b)
                               est == (Limb(r1, n + 1) * BB + Limb(r1, n)) \div b[n]
                               qh == IF est > BB - 1 THEN BB - 1 ELSE est
                               fx == BFix(r1, b, qh, BMulSmall(b, qh, 0))
                           IN BLD(a, b, i - 1, BSub(r1, fx.t), <<fx.q>> \o q)
BDivMod(a, b) == IF BCmp(a, b) < 0 THEN [q |-> <<>>, r |-> a]
                 ELSE IF Len(b) = 1 THEN LET x == BDivSmall(a, b[1]) IN [q |-> x.q, r |-> (IF x.r = 0 THEN <<>> ELSE <<x.r>>)]
                 ELSE LET s == 15 - BitLenS(b[Len(b)])
                          a1 == BMulSmall(a, 2 ^ s, 0)
                          x == BLD(a1, BMulSmall(b, 2 ^ s, 0), Len(a1), <<>>, <<>>)
                      IN [q |-> x.q, r |-> BShr(x.r, s)]

\* ---- decimal limbs (BigInt, base 10^4) <-> binary limbs (base 2^15)
RECURSIVE D2BFrom(_, _, _)
D2BFrom(d, i, acc) == IF i = 0 THEN acc ELSE D2BFrom(d, i - 1, BMulSmall(acc, 10000, d[i]))
D2B(d) == D2BFrom(d, Len(d), <<>>)
RECURSIVE B2DFrom(_, _, _)
B2DFrom(b, i, acc) == IF i = 0 THEN acc
                      ELSE B2DFrom(b, i - 1, NatAdd(NatMul(acc, <<2768, 3>>), Trim(<<b[i] % 10000, b[i] \div 10000>>)))
B2D(b) == B2DFrom(b, Len(b), <<>>)

\* ---- signed integers over binary limbs, 64-bit wrap
INorm(x) == IF x.m = <<>> THEN [neg |-> FALSE, m |-> <<>>] ELSE x
IFromDec(s) == LET d == FromDec(s) IN INorm([neg |-> d.neg, m |-> D2B(d.mag)])
IToDec(x) == ToDec(Norm([neg |-> x.neg, mag |-> B2D(x.m)]))
IZero == [neg |-> FALSE, m |-> <<>>]
INeg(x) == INorm([neg |-> ~x.neg, m |-> x.m])
IAdd(x, y) == INorm(IF x.neg = y.neg THEN [neg |-> x.neg, m |-> BAdd(x.m, y.m)]
                    ELSE IF BCmp(x.m, y.m) >= 0 THEN [neg |-> x.neg, m |-> BSub(x.m, y.m)]
                    ELSE [neg |-> y.neg, m |-> BSub(y.m, x.m)])
ISub(x, y) == IAdd(x, INeg(y))
IMul(x, y) == INorm([neg |-> x.neg # y.neg, m |-> BMul(x.m, y.m)])
ICmp(x, y) == IF x.neg /\ ~y.neg THEN -1 ELSE IF ~x.neg /\ y.neg THEN 1
              ELSE IF x.neg THEN BCmp(y.m, x.m) ELSE BCmp(x.m, y.m)
P64 == BShl(BOne, 64)
P63 == BShl(BOne, 63)
\* the uint64 that Go's conversion uint64(x) / wrap-around arithmetic yields (a natural < 2^64)
W64(x) == LET u == BLow(x.m, 64) IN IF x.neg /\ u # <<>> THEN BSub(P64, u) ELSE u
\* the int64 with that bit pattern
S64(u) == IF BCmp(u, P63) >= 0 THEN [neg |-> TRUE, m |-> BSub(P64, u)] ELSE [neg |-> FALSE, m |-> u]
UNat(u) == [neg |-> FALSE, m |-> u]
I64Add(x, y) == S64(W64(IAdd(x, y)))
I64Sub(x, y) == S64(W64(ISub(x, y)))
I64Mul(x, y) == S64(W64(IMul(x, y)))
I64Neg(x) == S64(W64(INeg(x)))
\* Go's % on int64: truncated division, the remainder has the sign of the dividend (y # 0)
I64Rem(x, y) == INorm([neg |-> x.neg, m |-> BDivMod(x.m, y.m).r])
U64Add(a, b) == BLow(BAdd(a, b), 64)
U64Sub(a, b) == IF BCmp(a, b) >= 0 THEN BSub(a, b) ELSE BSub(BAdd(a, P64), b)
U64Mul(a, b) == BLow(BMul(a, b), 64)
U64Div(a, b) == BDivMod(a, b).q        \* b # 0
U64Rem(a, b) == BDivMod(a, b).r        \* b # 0
BAndL(x, y) == x & y
BOrL(x, y) == x | y
BXorL(x, y) == x ^^ y
U64Bit(f(_, _), a, b) == Trim([i \in 1..5 |-> f(Limb(a, i), Limb(b, i))])
U64And(a, b) == U64Bit(BAndL, a, b)
U64Or(a, b) == U64Bit(BOrL, a, b)
U64Xor(a, b) == U64Bit(BXorL, a, b)

\* ---- binary floats
FZero == [neg |-> FALSE, m |-> <<>>, e |-> 0]
FNaN == [nan |-> TRUE]
FIsNaN(x) == "nan" \in DOMAIN x
FIsZero(x) == ~FIsNaN(x) /\ x.m = <<>>
FCanon(neg, m, e) == IF m = <<>> THEN FZero
                     ELSE LET z == BTz(m) IN [neg |-> neg, m |-> BShr(m, z), e |-> e + z]
\* round m * 2^e (plus, if sticky, a positive excess smaller than one unit of m) to 53 significant bits
FRound(neg, m, e, sticky) ==
  LET n == BBitLen(m) IN
  IF n <= 53 THEN FCanon(neg, m, e)      \* callers supply >= 55 bits whenever sticky
  ELSE LET k == n - 53
           q == BShr(m, k)
           c == BCmp(BLow(m, k), BShl(BOne, k - 1))
           up == c > 0 \/ (c = 0 /\ (sticky \/ BBit(q, 0) = 1))
       IN FCanon(neg, IF up THEN BAdd(q, BOne) ELSE q, e + k)
FFromI(x) == FRound(x.neg, x.m, 0, FALSE)          \* float64(int64) / float64(uint64)
FNeg(x) == IF FIsNaN(x) \/ FIsZero(x) THEN x ELSE [x EXCEPT !.neg = ~x.neg]
Min2(a, b) == IF a < b THEN a ELSE b
FAdd(x, y) == IF FIsNaN(x) \/ FIsNaN(y) THEN FNaN
              ELSE IF FIsZero(x) THEN y ELSE IF FIsZero(y) THEN x
              ELSE LET e0 == Min2(x.e, y.e)
                       s == IAdd([neg |-> x.neg, m |-> BShl(x.m, x.e - e0)], [neg |-> y.neg, m |-> BShl(y.m, y.e - e0)])
                   IN FRound(s.neg, s.m, e0, FALSE)
FSub(x, y) == FAdd(x, FNeg(y))
FMul(x, y) == IF FIsNaN(x) \/ FIsNaN(y) THEN FNaN
              ELSE IF FIsZero(x) \/ FIsZero(y) THEN FZero
              ELSE FRound(x.neg # y.neg, BMul(x.m, y.m), x.e + y.e, FALSE)
\* IEEE quotient, y # 0
FDiv(x, y) == IF FIsNaN(x) \/ FIsNaN(y) THEN FNaN
              ELSE IF FIsZero(x) THEN FZero
              ELSE LET d == 56 + BBitLen(y.m) - BBitLen(x.m)
                       s == IF d > 0 THEN d ELSE 0
                       qr == BDivMod(BShl(x.m, s), y.m)
                   IN FRound(x.neg # y.neg, qr.q, x.e - y.e - s, qr.r # <<>>)
\* math.Mod(x, y): exact remainder with the sign of x; NaN when y = 0
FMod(x, y) == IF FIsNaN(x) \/ FIsNaN(y) \/ FIsZero(y) THEN FNaN
              ELSE IF FIsZero(x) THEN FZero
              ELSE LET e0 == Min2(x.e, y.e)
                       r == BDivMod(BShl(x.m, x.e - e0), BShl(y.m, y.e - e0)).r
                   IN FCanon(x.neg, r, e0)
\* -1 / 0 / 1 ; 2 when unordered (a NaN operand)
FCmp(x, y) == IF FIsNaN(x) \/ FIsNaN(y) THEN 2
              ELSE IF FIsZero(x) /\ FIsZero(y) THEN 0
              ELSE IF FIsZero(x) THEN (IF y.neg THEN 1 ELSE -1)
              ELSE IF FIsZero(y) THEN (IF x.neg THEN -1 ELSE 1)
              ELSE LET e0 == Min2(x.e, y.e) IN
                   ICmp([neg |-> x.neg, m |-> BShl(x.m, x.e - e0)], [neg |-> y.neg, m |-> BShl(y.m, y.e - e0)])
=============================================================================
