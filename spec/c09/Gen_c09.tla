------------------------------ MODULE Gen_c09 ------------------------------
(* Passes M and G for C09.

   Mode = "expr": a small state machine chooses, step by step, a well-typed expression tree
   (root operator, operand classes, operand shapes up to MaxDepth, boundary values for the
   leaves, literal / variable for each leaf, and for each variable whether it is bound at
   Reduce time (at = 1) or only at evaluation time (at = 2)).  BFS enumerates every
   behaviour (MaxDepth = 1: all 16 operators x kind pairs x boundary values x leaf forms x
   splits); -simulate samples depth 2 and nested parentheses.  The completing action Fin
   writes the case; with WithSem it also evaluates the property spec (EvalSem) and the design
   spec (ReduceModel) on the case, stores the results in `out`, and the invariants below
   (pass M) compare them.

   Mode = "chain": the systematic (exhaustive) depth-2 family: both nestings x all operator pairs x
   one or two evaluation-time variables x boundary constants; relation decided on real evaluations.

   Mode = "time": the time-arithmetic family (timestamp or now() +- duration, duration +
   timestamp, timestamp - timestamp, comparisons), expectation computed by TimeSem.

   Mode = "zone": the same forms with a zone-less date string among the operands, under a
   time zone (a fixed offset) that reaches Reduce through a COMPOSITION of valuers
   (MultiValuer / NowValuer / MapValuer nested in several ways); the expected node is
   computed by TimeSem under the zone in force (first non-nil zone, depth-first), the
   design's valuer methods and its `loc` are model-checked against it.                  *)
EXTENDS ReduceModel, Json, CSV, IOUtils

CONSTANTS Mode,         \* "expr" | "time" | "chain" | "zone"
          ChainSize,    \* "quick" | "thorough": value sets of the systematic depth-2 family and of the zone family
          MaxDepth,     \* 1 | 2
          WithSem,      \* evaluate EvalSem / ReduceModel on every case and check pass M
          WithText,     \* "all": also emit the case for the text + ParseExpr route where expressible;
                        \* "lits": only for expressions without variables; "none"
          ExcludeDevs,  \* the named deviations the pass M invariants exclude (all four: green on the current tree;
                        \* leave one out and TLC exhibits it as a counterexample of the design)
          RootOps       \* root operators of this run (a partition of Typing!AllOps; runs are split for parallelism)

VARIABLES pc, g, out
vars == <<pc, g, out>>
CaseFile == IOEnv.CASE_FILE

\* ------------------------------------------------------------------ value domains
\* 2^53 + 1 is the first integer that is not a float64: widened it equals the float 2^53; MaxInt64 widened is the float 2^63
IntVals == {"0", "1", "-1", "2", "-9223372036854775808", "9223372036854775807", "9007199254740993"}
UnsVals == {"0", "1", "9223372036854775808", "18446744073709551615"}
FloatVals == {[t |-> "float", v |-> "0", e |-> 0], [t |-> "float", v |-> "1", e |-> -1], [t |-> "float", v |-> "-1", e |-> -1],
              [t |-> "float", v |-> "1", e |-> 1], [t |-> "float", v |-> "-1", e |-> 2],            \* 0, 0.5, -0.5, 2, -4
              [t |-> "float", v |-> "1", e |-> 53], [t |-> "float", v |-> "1", e |-> 63]}          \* 2^53, 2^63
\* two strings that LOOK like time literals but are none (month 13; trailing text): equality falls back to the strings
StrVals == {"a", "b", "2000-01-01", "2000-01-01T00:00:00Z", "2000-13-01", "2000-01-05 idle"}
ClassVals(c) == CASE c = "num" -> {[t |-> "int", v |-> x] : x \in IntVals} \cup {[t |-> "uns", v |-> x] : x \in UnsVals} \cup FloatVals
                  [] c = "bool" -> {BoolV(TRUE), BoolV(FALSE)}
                  [] c = "str" -> {StrV(x) : x \in StrVals}
\* classes an operator may take its (two) operands from, and the operators producing a class
OperandClasses(op) == IF op \in BoolOps THEN {"bool"} ELSE IF op \in EqOps THEN {"num", "bool", "str"} ELSE {"num"}
Producers(c) == CASE c = "num" -> ArithOps \cup BitOps [] c = "bool" -> BoolOps \cup CmpOps [] c = "str" -> {}
LeafShapes == {"leaf", "parleaf"}
BinShapes == {"bin", "par", "par2"}
Shapes == IF MaxDepth = 1 THEN {"leaf"} ELSE LeafShapes \cup BinShapes
VarNames == <<"a", "b", "c", "d">>

\* ------------------------------------------------------------------ from choices to a case
NSlots(side) == IF side.sh \in BinShapes THEN 2 ELSE 1
NLeaves(gg) == NSlots(gg.sides[1]) + NSlots(gg.sides[2])
SlotClass(gg, i) == IF i <= NSlots(gg.sides[1]) THEN gg.sides[1].cls ELSE gg.sides[2].cls
LeafNode(gg, i) == IF gg.leaves[i].var THEN Ref(VarNames[i]) ELSE LitNode(gg.leaves[i].val)
SideTree(gg, side, first) ==
  CASE side.sh = "leaf" -> LeafNode(gg, first)
    [] side.sh = "parleaf" -> Paren(LeafNode(gg, first))
    [] side.sh = "bin" -> Bin(side.op, LeafNode(gg, first), LeafNode(gg, first + 1))
    [] side.sh = "par" -> Paren(Bin(side.op, LeafNode(gg, first), LeafNode(gg, first + 1)))
    [] side.sh = "par2" -> Paren(Paren(Bin(side.op, LeafNode(gg, first), LeafNode(gg, first + 1))))
TreeOf(gg) == LET t == Bin(gg.op, SideTree(gg, gg.sides[1], 1), SideTree(gg, gg.sides[2], 1 + NSlots(gg.sides[1])))
              IN IF gg.top THEN Paren(t) ELSE t
BindsOf(gg) == LET idx == SelectSeq([i \in 1..Len(gg.leaves) |-> i], LAMBDA i : gg.leaves[i].var)
               IN [j \in 1..Len(idx) |-> [n |-> VarNames[idx[j]], val |-> gg.leaves[idx[j]].val, at |-> gg.leaves[idx[j]].at]]
At(binds, k) == SelectSeq(binds, LAMBDA b : b.at = k)
Depth(gg) == IF gg.sides[1].sh \in BinShapes \/ gg.sides[2].sh \in BinShapes THEN 2 ELSE 1

\* ---- counterfactual trees, run by the driver next to the case, from which the judge recognises the
\* two known deviations on real observations:
\*   "u"  every unsigned variable bound at Reduce time written as the literal a complete asLiteral would give
\*   "n"  the same variables written as NilLiteral (what the present asLiteral gives)
\*   "s"  every = / != between two Reduce-time strings that both look like time literals replaced by the
\*        truth value of the comparison of the two strings
RECURSIVE SubstVars(_, _, _)
SubstVars(e, binds, how) ==
  CASE e.k = "BinaryExpr" -> Bin(e.Op, SubstVars(e.LHS, binds, how), SubstVars(e.RHS, binds, how))
    [] e.k = "ParenExpr" -> Paren(SubstVars(e.Expr, binds, how))
    [] e.k = "VarRef" -> (IF HasBinding(binds, e.Val) THEN (IF how = "u" THEN UnsL(Binding(binds, e.Val).v) ELSE NilL) ELSE e)
    [] OTHER -> e
UnsAt1(binds) == SelectSeq(binds, LAMBDA b : b.at = 1 /\ b.val.t = "uns")
RECURSIVE StripParen(_)
StripParen(e) == IF e.k = "ParenExpr" THEN StripParen(e.Expr) ELSE e
\* the string a leaf operand is at Reduce time ("" with ok = FALSE if it is none)
ReduceTimeString(e, binds) ==
  LET x == StripParen(e) IN
  IF x.k = "StringLiteral" THEN [ok |-> TRUE, s |-> x.Val]
  ELSE IF x.k = "VarRef" /\ HasBinding(At(binds, 1), x.Val) /\ Binding(binds, x.Val).t = "str" THEN [ok |-> TRUE, s |-> Binding(binds, x.Val).v]
  ELSE [ok |-> FALSE, s |-> ""]
IsTSE(e, binds) == /\ e.k = "BinaryExpr" /\ e.Op \in EqOps
                   /\ LET a == ReduceTimeString(e.LHS, binds) b == ReduceTimeString(e.RHS, binds) IN
                      a.ok /\ b.ok /\ LooksLikeTime(a.s) /\ LooksLikeTime(b.s)
RECURSIVE HasTSE(_, _)
HasTSE(e, binds) == CASE e.k = "BinaryExpr" -> IsTSE(e, binds) \/ HasTSE(e.LHS, binds) \/ HasTSE(e.RHS, binds)
                      [] e.k = "ParenExpr" -> HasTSE(e.Expr, binds)
                      [] OTHER -> FALSE
RECURSIVE ReplaceTSE(_, _)
ReplaceTSE(e, binds) ==
  CASE e.k = "BinaryExpr" ->
         (IF IsTSE(e, binds)
          THEN LET a == ReduceTimeString(e.LHS, binds).s b == ReduceTimeString(e.RHS, binds).s IN
               BoolL(IF e.Op = "=" THEN a = b ELSE a # b)
          ELSE Bin(e.Op, ReplaceTSE(e.LHS, binds), ReplaceTSE(e.RHS, binds)))
    [] e.k = "ParenExpr" -> Paren(ReplaceTSE(e.Expr, binds))
    [] OTHER -> e
Alts(tree, binds) ==
  LET u == UnsAt1(binds) # <<>>
      s == HasTSE(tree, binds)
      tu == SubstVars(tree, UnsAt1(binds), "u")
  IN (IF u THEN <<[name |-> "u", tree |-> tu], [name |-> "n", tree |-> SubstVars(tree, UnsAt1(binds), "n")]>> ELSE <<>>)
     \o (IF s THEN <<[name |-> "s", tree |-> ReplaceTSE(tree, binds)]>> ELSE <<>>)
     \o (IF u /\ s THEN <<[name |-> "us", tree |-> ReplaceTSE(tu, binds)]>> ELSE <<>>)

\* ---- the text route: the tree can be written as InfluxQL text that parses back to the same tree
Prec(op) == CASE op = "OR" -> 1 [] op = "AND" -> 2 [] op \in CmpOps -> 3 [] op \in {"+", "-", "|", "^"} -> 4 [] OTHER -> 5
LeafExpressible(e) == CASE e.k = "UnsignedLiteral" -> e.Val \in {"9223372036854775808", "18446744073709551615"}
                        [] OTHER -> TRUE
RECURSIVE Expressible(_)
Expressible(e) ==
  CASE e.k = "BinaryExpr" ->
         /\ Expressible(e.LHS) /\ Expressible(e.RHS)
         /\ (IF e.LHS.k = "BinaryExpr" THEN Prec(e.LHS.Op) >= Prec(e.Op) ELSE TRUE)
         /\ (IF e.RHS.k = "BinaryExpr" THEN Prec(e.RHS.Op) > Prec(e.Op) ELSE TRUE)
    [] e.k = "ParenExpr" -> Expressible(e.Expr)
    [] OTHER -> LeafExpressible(e)
RECURSIVE HasOp(_, _)
HasOp(e, op) == CASE e.k = "BinaryExpr" -> e.Op = op \/ HasOp(e.LHS, op) \/ HasOp(e.RHS, op)
                  [] e.k = "ParenExpr" -> HasOp(e.Expr, op) [] OTHER -> FALSE

\* ------------------------------------------------------------------ pass M on one case
\* design-level deviations (named; see ReduceModel's switches and EvalSem.FloatModZero)
RECURSIVE Mentions(_, _)
Mentions(e, n) == CASE e.k = "BinaryExpr" -> Mentions(e.LHS, n) \/ Mentions(e.RHS, n)
                    [] e.k = "ParenExpr" -> Mentions(e.Expr, n) [] e.k = "VarRef" -> e.Val = n [] OTHER -> FALSE
DevM_AsLiteralUnsignedNil(tree, binds) == \E i \in 1..Len(binds) : binds[i].at = 1 /\ binds[i].val.t = "uns" /\ Mentions(tree, binds[i].n)
DevM_TimeStringEquality(tree, binds) == HasTSE(tree, binds)
DevM_FloatModZeroNaN(tree, binds) == FloatModZero(tree, binds)
Sem(tree, binds, want) ==
  LET v1 == MapValuer(At(binds, 1))
      mred == MReduce(tree, v1, DevAll)
      dev == DevM_AsLiteralUnsignedNil(tree, binds) \/ DevM_TimeStringEquality(tree, binds)
      mfix == IF dev THEN MReduce(tree, v1, DevNone) ELSE mred
  IN [want |-> want, mred |-> mred,
      v1m |-> EvalTree(mred, At(binds, 2)),
      idem |-> MReduce(mred, v1, DevAll) = mred,
      mfix |-> mfix, dev |-> dev,
      v1fix |-> IF dev THEN EvalTree(mfix, At(binds, 2)) ELSE [t |-> "same", v |-> ""],
      fmz |-> FloatModZero(tree, binds)]

\* ------------------------------------------------------------------ the expression machine
G0 == [op |-> "", cls |-> "", sides |-> <<>>, leaves |-> <<>>, top |-> FALSE, fi |-> 1, want |-> NilV]
NoOut == [none |-> TRUE]
ChooseOp == /\ pc = "op"
            /\ \E o \in RootOps : g' = [g EXCEPT !.op = o]
            /\ pc' = "cls" /\ UNCHANGED out
ChooseCls == /\ pc = "cls"
             /\ \E c \in OperandClasses(g.op) : g' = [g EXCEPT !.cls = c]
             /\ pc' = "side" /\ UNCHANGED out
ChooseSide == /\ pc = "side"
              /\ \E sh \in Shapes :
                   IF sh \in LeafShapes
                   THEN g' = [g EXCEPT !.sides = Append(@, [sh |-> sh, op |-> "", cls |-> g.cls])]
                   ELSE \E o \in Producers(g.cls) : \E c \in OperandClasses(o) :
                          g' = [g EXCEPT !.sides = Append(@, [sh |-> sh, op |-> o, cls |-> c])]
              /\ pc' = IF Len(g.sides) = 1 THEN "top" ELSE "side"
              /\ UNCHANGED out
ChooseTop == /\ pc = "top"
             /\ \E t \in (IF MaxDepth = 1 THEN {FALSE} ELSE BOOLEAN) : g' = [g EXCEPT !.top = t]
             /\ pc' = "val" /\ UNCHANGED out
ChooseVal == /\ pc = "val"
             /\ \E v \in ClassVals(SlotClass(g, Len(g.leaves) + 1)) :
                  LET g1 == [g EXCEPT !.leaves = Append(@, [val |-> v, var |-> FALSE, at |-> 0])] IN
                  IF Len(g1.leaves) = NLeaves(g)
                  THEN /\ g' = [g1 EXCEPT !.want = IF WithSem THEN EvalTree(TreeOf(g1), <<>>) ELSE NilV]
                       /\ pc' = "form"
                  ELSE g' = g1 /\ pc' = "val"
             /\ UNCHANGED out
ChooseForm == /\ pc = "form"
              /\ \E f \in {0, 1, 2} :      \* literal | variable bound at Reduce time | variable bound at evaluation time
                   g' = [g EXCEPT !.leaves[g.fi] = [val |-> @.val, var |-> f # 0, at |-> f], !.fi = @ + 1]
              /\ pc' = IF g.fi = Len(g.leaves) THEN "fin" ELSE "form"
              /\ UNCHANGED out
ExprCase(via, sp, tree, binds, o) ==
  [fam |-> "expr", via |-> via, tree |-> tree, binds |-> binds, depth |-> Depth(g), alts |-> Alts(tree, binds)]
  @@ (IF sp = "" THEN <<>> ELSE [sp |-> sp])
  @@ (IF WithSem THEN [want |-> o.want, mred |-> o.mred, fmz |-> o.fmz] ELSE <<>>)
  @@ (IF WithSem /\ o.dev THEN [mfix |-> o.mfix] ELSE <<>>)
Fin == /\ pc = "fin"
       /\ LET tree == TreeOf(g)
              binds == BindsOf(g)
              o == IF WithSem THEN Sem(tree, binds, g.want) ELSE NoOut
              text == (WithText = "all" \/ (WithText = "lits" /\ binds = <<>>)) /\ Expressible(tree)
          IN /\ out' = o
             /\ CSVWrite("%1$s", <<ToJson(ExprCase("ast", "", tree, binds, o))>>, CaseFile)
             /\ IF text THEN CSVWrite("%1$s", <<ToJson(ExprCase("text", "", tree, binds, o))>>, CaseFile) ELSE TRUE
             /\ IF text /\ HasOp(tree, "!=") THEN CSVWrite("%1$s", <<ToJson(ExprCase("text", "<>", tree, binds, o))>>, CaseFile) ELSE TRUE
       /\ pc' = "done" /\ UNCHANGED g
Done == pc = "done" /\ UNCHANGED vars

\* ------------------------------------------------------------------ the time-arithmetic machine
Civ(y, mo, d, h, mi, s, f, off) == [y |-> y, mo |-> mo, d |-> d, h |-> h, mi |-> mi, s |-> s, f |-> f, off |-> off]
C1 == Civ(2000, 1, 1, 0, 0, 0, 0, 0)
C2 == Civ(2000, 1, 1, 0, 0, 0, 500000000, 0)
C3 == Civ(2020, 2, 29, 12, 34, 56, 789012345, 0)
C4 == Civ(1969, 12, 31, 23, 59, 59, 999999999, 0)
C5 == Civ(2000, 1, 1, 1, 0, 0, 0, 60)               \* the instant of C1, written with an offset
C6 == Civ(2100, 6, 15, 8, 0, 0, 0, -330)
C7 == Civ(2020, 2, 29, 12, 34, 56, 789012000, 0)
\* instants that do not fit (or just fit) int64 nanoseconds: UnixNano() is undefined outside
\* 1677-09-21T00:12:43.145224192Z .. 2262-04-11T23:47:16.854775807Z
C1600 == Civ(1600, 1, 1, 0, 0, 0, 0, 0)
C2300 == Civ(2300, 1, 1, 0, 0, 0, 0, 0)
CMinB == Civ(1677, 9, 21, 0, 12, 43, 145224191, 0)      \* MinInt64 ns - 1
CMin  == Civ(1677, 9, 21, 0, 12, 43, 145224192, 0)      \* MinInt64 ns
CMinA == Civ(1677, 9, 21, 0, 12, 43, 145224193, 0)      \* MinInt64 ns + 1
CMaxB == Civ(2262, 4, 11, 23, 47, 16, 854775806, 0)     \* MaxInt64 ns - 1
CMax  == Civ(2262, 4, 11, 23, 47, 16, 854775807, 0)     \* MaxInt64 ns
CMaxA == Civ(2262, 4, 11, 23, 47, 16, 854775808, 0)     \* MaxInt64 ns + 1
FarCivils == {C1600, C2300, CMinB, CMin, CMinA, CMaxB, CMax, CMaxA}
Spellings == {<<C1, "date", 0>>, <<C1, "dt", 0>>, <<C1, "rfc", 0>>, <<C5, "rfc", 0>>, <<C2, "dt", 1>>, <<C2, "rfc", 3>>,
              <<C3, "rfc", 9>>, <<C7, "dt", 6>>, <<C4, "rfc", 9>>, <<C6, "rfc", 0>>}
              \cup {<<c, "rfc", IF c.f = 0 THEN 0 ELSE 9>> : c \in FarCivils}
NowNs == ToDec(InstantNs(C3))
\* a timestamp operand: [f |-> form, ns |-> instant, s |-> string]  forms: str svar tvar now int
TimeOperands ==
  {[f |-> "str", ns |-> ToDec(InstantNs(x[1])), s |-> Spell(x[1], x[2], x[3])] : x \in Spellings}
  \cup {[f |-> "svar", ns |-> ToDec(InstantNs(x[1])), s |-> Spell(x[1], x[2], x[3])] : x \in {<<C1, "date", 0>>, <<C2, "dt", 1>>, <<C3, "rfc", 9>>}}
  \cup {[f |-> "tvar", ns |-> ToDec(InstantNs(c)), s |-> ""] : c \in {C1, C4, C6, C2300, CMinB}}
  \cup {[f |-> "now", ns |-> NowNs, s |-> ""]}
IntStamps == {[f |-> "int", ns |-> n, s |-> ""] : n \in {"0", "946684800000000000", "-1", "9223372036854775807", "-9223372036854775808"}}
IntStampsCmp == {[f |-> "int", ns |-> n, s |-> ""] : n \in {"946684800000000000"}}
DurVals == {"0", "1", "3600000000000", "-3600000000000", "9223372036854775807", "-9223372036854775808"}
DurOperands == {[f |-> df, d |-> x] : df \in {"lit", "dvar"}, x \in DurVals}
TimeForms == {"T+D", "T-D", "D+T", "T-T", "TcmpT"}
\* forms that are NOT time arithmetic with an exact value: a duration (or a bare integer) MINUS an instant has no
\* instant, duration or truth value; Reduce must not invent one (it leaves the operator in place).  An integer PLUS
\* an instant reads the integer as a duration: left alone or folded to the exact instant.
NonForms == {"D-T", "I-T", "I+T"}
Unfoldable == [k |-> "Unfoldable"]
TNode(t, name) == CASE t.f = "str" -> StrL(t.s) [] t.f = "now" -> Call("now", <<>>) [] t.f = "int" -> IntL(t.ns) [] OTHER -> Ref(name)
TBind(t, name) == CASE t.f = "svar" -> <<[n |-> name, val |-> StrV(t.s), at |-> 1]>>
                    [] t.f = "tvar" -> <<[n |-> name, val |-> [t |-> "time", v |-> t.ns], at |-> 1]>>
                    [] OTHER -> <<>>
DNode(d, name) == IF d.f = "lit" THEN DurL(d.d) ELSE Ref(name)
DBind(d, name) == IF d.f = "lit" THEN <<>> ELSE <<[n |-> name, val |-> [t |-> "dur", v |-> d.d], at |-> 1]>>
TimeCase(form, op, tree, binds, wantnode, strict, dmin) ==
  LET mred == MReduce(tree, NowValuer(binds, NowNs), DevAll) IN
  [fam |-> "time", form |-> form, op |-> op, tree |-> tree, binds |-> binds, now |-> NowNs, wantnode |-> wantnode,
   strict |-> strict, dmin |-> dmin, mred |-> mred, midem |-> (MReduce(mred, NowValuer(binds, NowNs), DevAll) = mred)]
EmitTime(c) == /\ CSVWrite("%1$s", <<ToJson(c)>>, CaseFile)
               /\ out' = c /\ pc' = "done" /\ UNCHANGED g
IsString(t) == t.f \in {"str", "svar"}
TimeStep ==
  /\ pc = "time"
  /\ \E form \in TimeForms \cup NonForms :
       CASE form = "D-T" ->
              \E t \in TimeOperands : \E d \in DurOperands :
                EmitTime(TimeCase(form, "-", Bin("-", DNode(d, "a"), TNode(t, "b")), DBind(d, "a") \o TBind(t, "b"), Unfoldable, FALSE, FALSE))
         [] form = "I-T" ->
              \E t \in TimeOperands : \E i \in IntStamps :
                EmitTime(TimeCase(form, "-", Bin("-", IntL(i.ns), TNode(t, "b")), TBind(t, "b"), Unfoldable, FALSE, FALSE))
         [] form = "I+T" ->
              \E t \in TimeOperands : \E i \in IntStamps :
                EmitTime(TimeCase(form, "+", Bin("+", IntL(i.ns), TNode(t, "b")), TBind(t, "b"),
                                  TimeL(ToDec(Add(FromDec(t.ns), FromDec(i.ns)))), FALSE, FALSE))
         [] form \in {"T+D", "T-D"} ->
              \E t \in TimeOperands \cup IntStamps : \E d \in DurOperands :
                LET op == IF form = "T+D" THEN "+" ELSE "-"
                    dd == FromDec(d.d)
                    ns == IF op = "+" THEN Add(FromDec(t.ns), dd) ELSE Sub(FromDec(t.ns), dd)
                IN EmitTime(TimeCase(form, op, Bin(op, TNode(t, "a"), DNode(d, "b")), TBind(t, "a") \o DBind(d, "b"),
                                     TimeL(ToDec(ns)), t.f # "int", d.d = "-9223372036854775808"))
         [] form = "D+T" ->
              \E t \in TimeOperands : \E d \in DurOperands :
                EmitTime(TimeCase(form, "+", Bin("+", DNode(d, "a"), TNode(t, "b")), DBind(d, "a") \o TBind(t, "b"),
                                  TimeL(ToDec(Add(FromDec(t.ns), FromDec(d.d)))), TRUE, FALSE))
         [] form = "T-T" ->
              \E t \in TimeOperands : \E u \in TimeOperands :
                \* a difference that does not fit int64 ns is not a Duration (time.Time.Sub saturates): there is
                \* no exact value the property could demand, such pairs are not generated
                /\ Fits64(Sub(FromDec(t.ns), FromDec(u.ns)))
                /\ EmitTime(TimeCase(form, "-", Bin("-", TNode(t, "a"), TNode(u, "b")), TBind(t, "a") \o TBind(u, "b"),
                                     DurL(ToDec(Sub(FromDec(t.ns), FromDec(u.ns)))), TRUE, FALSE))
         [] form = "TcmpT" ->
              \E op \in CmpOps : \E t \in TimeOperands \cup IntStampsCmp : \E u \in TimeOperands \cup IntStampsCmp :
                \* = and != between two strings are the first clause's business (EvalSem: string equality); two bare integers are numbers
                /\ ~(op \in EqOps /\ IsString(t) /\ IsString(u))
                /\ ~(t.f = "int" /\ u.f = "int")
                /\ EmitTime(TimeCase(form, op, Bin(op, TNode(t, "a"), TNode(u, "b")), TBind(t, "a") \o TBind(u, "b"),
                                     BoolL(CmpResult(op, Cmp(FromDec(t.ns), FromDec(u.ns)))),
                                     t.f # "int" /\ u.f # "int", FALSE))


\* ------------------------------------------------------------------ the systematic depth-2 family (Mode = "chain")
\* Every tree  (p1 inner p2) outer p3  ("left") and  p3 outer (p1 inner p2)  ("right") for every pair of
\* arithmetic / bitwise / comparison operators that is well-typed, with one or two of the three leaves
\* variables bound only at evaluation time (values of every numeric kind, among them the non-trivial floats
\* 0.5 and 0.1) and the other leaves constants known at Reduce time (the first written as literal, the
\* second as a variable bound at Reduce time) over boundary integers.  BFS: exhaustive, not sampled.
\* The nested operand is parenthesised exactly where the parser needs parentheses (par = "natural"),
\* in the thorough size also the other way round.  Decided on the two real evaluations only (no EvalSem).
IV_(x) == [t |-> "int", v |-> x]
UV_(x) == [t |-> "uns", v |-> x]
F05 == [t |-> "float", v |-> "1", e |-> -1]
F01 == [t |-> "float", v |-> "3602879701896397", e |-> -55]          \* the float64 nearest to 0.1
MaxI == "9223372036854775807"
MinI == "-9223372036854775808"
P53 == "9007199254740993"                                             \* 2^53 + 1
N53 == "-9007199254740992"                                            \* -2^53
Thorough == ChainSize = "thorough"
ChainEval == {IV_("-3"), UV_("9223372036854775809"), F01} \cup (IF Thorough THEN {F05} ELSE {})
ChainC == IF Thorough THEN {MaxI, MinI, "1", "-1", P53, N53} ELSE {MaxI, "1", P53, N53}
ChainPairs == {<<IV_(a), IV_(b)>> : a \in ChainC, b \in ChainC}
              \cup {<<IV_("3"), IV_("5")>>, <<IV_("5"), IV_("3")>>, <<IV_("3"), IV_("3")>>}
              \cup (IF Thorough THEN {<<UV_("9223372036854775808"), IV_("1")>>, <<IV_("1"), UV_("18446744073709551615")>>,
                                      <<F05, IV_("3")>>, <<IV_(MaxI), F05>>, <<F01, F01>>} ELSE {})
ChainSingles == {IV_(MaxI), IV_(N53)} \cup (IF Thorough THEN {IV_("3")} ELSE {})
Bools == {BoolV(TRUE), BoolV(FALSE)}
ChainOuter(inner) == IF inner \in CmpOps THEN EqOps ELSE ArithOps \cup BitOps \cup CmpOps
ChainInner == ArithOps \cup BitOps \cup CmpOps
P3Class(inner) == IF inner \in CmpOps THEN "bool" ELSE "num"
VarSets == {{1}, {2}, {3}, {1, 2}, {1, 3}, {2, 3}}
EvalVals(cls) == IF cls = "bool" THEN Bools ELSE ChainEval
PosClass(gg, i) == IF i = 3 THEN P3Class(gg.inner) ELSE "num"
\* the constants of the positions that are not evaluation-time variables: functions position -> value
ChainConsts(gg) ==
  LET R == {1, 2, 3} \ gg.V
      RN == {i \in R : PosClass(gg, i) = "num"}
      RB == R \ RN
      nums == IF RN = {} THEN {<<>>}
              ELSE IF \E i \in RN : \A j \in RN : j = i THEN {[i \in RN |-> c] : c \in ChainSingles}
              ELSE LET lo == CHOOSE i \in RN : \A j \in RN : i <= j
                       hi == CHOOSE i \in RN : \A j \in RN : j <= i
                   IN {[i \in RN |-> IF i = lo THEN p[1] ELSE p[2]] : p \in ChainPairs}
      bools == IF RB = {} THEN {<<>>} ELSE {[i \in RB |-> b] : b \in Bools}
  IN {n @@ b : n \in nums, b \in bools}
ChainParens == IF Thorough THEN {"natural", "other"} ELSE {"natural"}
ChainTree(gg, ev, cs, par) ==
  LET R == {1, 2, 3} \ gg.V
      first == CHOOSE i \in R : \A j \in R : i <= j
      Leaf(i) == IF i \in gg.V \/ i # first THEN Ref(VarNames[i]) ELSE LitNode(cs[i])
      inner == Bin(gg.inner, Leaf(1), Leaf(2))
      need == IF gg.shape = "left" THEN Prec(gg.inner) < Prec(gg.outer) ELSE Prec(gg.inner) <= Prec(gg.outer)
      wrap == IF par = "natural" THEN need ELSE ~need
      sub == IF wrap THEN Paren(inner) ELSE inner
  IN IF gg.shape = "left" THEN Bin(gg.outer, sub, Leaf(3)) ELSE Bin(gg.outer, Leaf(3), sub)
ChainBinds(gg, ev, cs) ==
  LET R == {1, 2, 3} \ gg.V
      first == CHOOSE i \in R : \A j \in R : i <= j
      idx == SelectSeq(<<1, 2, 3>>, LAMBDA i : i \in gg.V \/ i # first)
  IN [j \in 1..Len(idx) |-> IF idx[j] \in gg.V THEN [n |-> VarNames[idx[j]], val |-> ev[idx[j]], at |-> 2]
                                               ELSE [n |-> VarNames[idx[j]], val |-> cs[idx[j]], at |-> 1]]
ChainOps == /\ pc = "chain"
            /\ \E shape \in {"left", "right"} : \E inner \in ChainInner : \E outer \in ChainOuter(inner) \cap RootOps :
                 g' = [shape |-> shape, inner |-> inner, outer |-> outer, V |-> {}, ev |-> <<>>]
            /\ pc' = "chainvars" /\ UNCHANGED out
ChainVars == /\ pc = "chainvars"
             /\ \E V \in VarSets : g' = [g EXCEPT !.V = V]
             /\ pc' = "chaineval" /\ UNCHANGED out
ChainEvalStep == /\ pc = "chaineval"
                 /\ \E ev \in [g.V -> ChainEval \cup Bools] :
                      /\ \A i \in g.V : ev[i] \in EvalVals(PosClass(g, i))
                      /\ g' = [g EXCEPT !.ev = ev]
                 /\ pc' = "chainfin" /\ UNCHANGED out
ChainFin == /\ pc = "chainfin"
            /\ \E cs \in ChainConsts(g) : \E par \in ChainParens :
                 LET tree == ChainTree(g, g.ev, cs, par)
                     binds == ChainBinds(g, g.ev, cs)
                     c == [fam |-> "expr", sub |-> "chain", via |-> "ast", tree |-> tree, binds |-> binds, depth |-> 2,
                           alts |-> Alts(tree, binds)]
                 IN /\ CSVWrite("%1$s", <<ToJson(c)>>, CaseFile)
                    /\ out' = [tree |-> tree, binds |-> binds]
            /\ pc' = "done" /\ UNCHANGED g
\* the chain generator only builds what Typing calls well-typed
ChainWellTyped == (pc = "done" /\ Mode = "chain") => WellTyped(out.tree, out.binds)

\* ------------------------------------------------------------------ the zone family (Mode = "zone")
\* A case = one valuer composition (alphabet below) x one zone x one time-arithmetic form with at least one
\* zone-less date string among its timestamp operands.  BFS: exhaustive over the bounded family.
AllZones == {0, -300, 330, 840, -720}                    \* UTC, -05:00, +05:30, +14:00, -12:00  (time.FixedZone on the Go side)
VMap == [k |-> "map"]
VNow == [k |-> "now", now |-> TRUE]                      \* &NowValuer{Now: now}
VNowZ(z) == [k |-> "now", now |-> TRUE, off |-> z]       \* &NowValuer{Now: now, Location: z}
VZoneOnly(z) == [k |-> "now", now |-> FALSE, off |-> z]  \* &NowValuer{Location: z}
VMulti(ms) == [k |-> "multi", ms |-> ms]
OtherZone(z) == IF z = 330 THEN -300 ELSE 330
\* every NowValuer that can be asked for now() carries the same Now, so that only the zone differs
Comps(z) ==
  <<[name |-> "flat", map |-> TRUE, vt |-> VMulti(<<VMap, VNowZ(z)>>)],
    [name |-> "nested", map |-> TRUE, vt |-> VMulti(<<VMulti(<<VMap>>), VNowZ(z)>>)],             \* the inner multiValuer is a ZoneValuer without zone
    [name |-> "nilzone-first", map |-> TRUE, vt |-> VMulti(<<VNow, VNowZ(z), VMap>>)],
    [name |-> "zone-first", map |-> TRUE, vt |-> VMulti(<<VNowZ(z), VMap>>)],
    [name |-> "two-zones", map |-> TRUE, vt |-> VMulti(<<VNowZ(z), VNowZ(OtherZone(z)), VMap>>)],  \* the first one wins
    [name |-> "bare", map |-> FALSE, vt |-> VNowZ(z)],
    [name |-> "now-then-zone", map |-> TRUE, vt |-> VMulti(<<VMap, VNow, VZoneOnly(z)>>)],
    [name |-> "nested-nil-then-zone", map |-> TRUE, vt |-> VMulti(<<VMulti(<<VMap, VNow>>), VNowZ(z)>>)],
    [name |-> "deep-zone", map |-> TRUE, vt |-> VMulti(<<VMap, VMulti(<<VNow, VMulti(<<VNowZ(z)>>)>>)>>)],
    [name |-> "two-zones-nested", map |-> TRUE, vt |-> VMulti(<<VMulti(<<VNow>>), VMulti(<<VNowZ(z)>>), VNowZ(OtherZone(z)), VMap>>)]>>
  \o (IF z = 0 THEN <<[name |-> "no-zone", map |-> TRUE, vt |-> VMulti(<<VMulti(<<VMap>>), VNow>>)]>> ELSE <<>>)   \* nil everywhere: UTC
CLeap == Civ(2020, 2, 29, 0, 0, 0, 0, 0)
CEve  == Civ(1969, 12, 31, 23, 59, 59, 999999000, 0)     \* the last microsecond before the epoch (in its zone)
CEdge == Civ(2262, 4, 11, 23, 47, 16, 0, 0)              \* west of UTC its instant is beyond MaxInt64 ns
\* the instant of C1 read in zone z, written as a UTC civil record (|z| < 1440)
C1InZoneUTC(z) == LET m == -z IN IF m >= 0 THEN Civ(2000, 1, 1, m \div 60, m % 60, 0, 0, 0)
                                 ELSE Civ(1999, 12, 31, (1440 + m) \div 60, (1440 + m) % 60, 0, 0, 0)
ASSUME \A z \in AllZones : InstantNs(C1InZoneUTC(z)) = ZonedInstant(C1, "dt", z)
ZOperand(f, x, z) == [f |-> f, zl |-> x[2] # "rfc", ns |-> ToDec(ZonedInstant(x[1], x[2], z)), s |-> Spell(x[1], x[2], x[3])]
\* timestamp operands without an offset of their own (their instant depends on the zone in force) ...
ZoneLess(z) ==
  {ZOperand("str", x, z) : x \in {<<C1, "date", 0>>, <<C1, "dt", 0>>, <<CEve, "dt", 6>>}
                                 \cup (IF Thorough THEN {<<C2, "dt", 1>>, <<CLeap, "date", 0>>, <<CEdge, "dt", 0>>} ELSE {})}
  \cup {ZOperand("svar", x, z) : x \in {<<C1, "dt", 0>>} \cup (IF Thorough THEN {<<C1, "date", 0>>} ELSE {})}
\* ... and operands that are instants whatever the zone: the same wall clock as C1 in UTC, C1's wall clock with the
\* zone's own offset written out, the instant of C1-in-the-zone written in UTC, now(), a time.Time binding
ZoneFree(z) ==
  {ZOperand("str", x, z) : x \in {<<C1, "rfc", 0>>, <<[C1 EXCEPT !.off = z], "rfc", 0>>, <<C1InZoneUTC(z), "rfc", 0>>}
                                 \cup (IF Thorough THEN {<<C6, "rfc", 0>>} ELSE {})}
  \cup {[f |-> "now", zl |-> FALSE, ns |-> NowNs, s |-> ""]}
  \cup (IF Thorough THEN {[f |-> "tvar", zl |-> FALSE, ns |-> ToDec(InstantNs(C1)), s |-> ""]} ELSE {})
ZoneDurs == {[f |-> "lit", d |-> "3600000000000"], [f |-> "dvar", d |-> "-3600000000000"]}
            \cup (IF Thorough THEN {[f |-> "lit", d |-> "1"], [f |-> "dvar", d |-> "86400000000000"]} ELSE {})
ZoneCase(form, op, tree, binds, wantnode, extra) ==
  LET vl == CompValuer(g.vt, binds, NowNs)
      mred == MReduce(tree, vl, DevAll) IN
  [fam |-> "time", form |-> form, op |-> op, tree |-> tree, binds |-> binds, now |-> NowNs, wantnode |-> wantnode,
   strict |-> TRUE, dmin |-> FALSE, mred |-> mred, midem |-> (MReduce(mred, vl, DevAll) = mred),
   comp |-> g.comp, vt |-> g.vt, zoff |-> ZoneInForce(g.vt), mloc |-> vl.loc] @@ extra
ZoneChoose == /\ pc = "zone"
              /\ \E z \in AllZones : \E i \in 1..Len(Comps(z)) :
                   g' = [comp |-> Comps(z)[i].name, map |-> Comps(z)[i].map, vt |-> Comps(z)[i].vt, z |-> z]
              /\ pc' = "zonestep" /\ UNCHANGED out
\* a composition without a MapValuer binds no variable
Bindable(binds) == IF g.map THEN TRUE ELSE binds = <<>>          \* IF, not \/: a disjunction would branch the action
ZoneStep ==
  /\ pc = "zonestep"
  /\ LET zf == ZoneInForce(g.vt)                           \* PROPERTY side: the zone the expectation is computed in
          ZL == ZoneLess(zf)
          ALL == ZL \cup ZoneFree(zf)
     IN \E form \in TimeForms :
       CASE form \in {"T+D", "T-D"} ->
              \E t \in ZL : \E d \in ZoneDurs :
                LET op == IF form = "T+D" THEN "+" ELSE "-"
                    ns == IF op = "+" THEN Add(FromDec(t.ns), FromDec(d.d)) ELSE Sub(FromDec(t.ns), FromDec(d.d))
                    binds == TBind(t, "a") \o DBind(d, "b")
                IN /\ op \in RootOps /\ Bindable(binds)
                   /\ EmitTime(ZoneCase(form, op, Bin(op, TNode(t, "a"), DNode(d, "b")), binds, TimeL(ToDec(ns)), <<>>))
         [] form = "D+T" ->
              \E t \in ZL : \E d \in ZoneDurs :
                LET binds == DBind(d, "a") \o TBind(t, "b") IN
                /\ "+" \in RootOps /\ Bindable(binds)
                /\ EmitTime(ZoneCase(form, "+", Bin("+", DNode(d, "a"), TNode(t, "b")), binds,
                                      TimeL(ToDec(Add(FromDec(t.ns), FromDec(d.d)))), <<>>))
         [] form = "T-T" ->
              \E t \in ALL : \E u \in ALL :
                LET binds == TBind(t, "a") \o TBind(u, "b") IN
                /\ "-" \in RootOps /\ (IF t.zl THEN TRUE ELSE u.zl) /\ Bindable(binds)
                /\ Fits64(Sub(FromDec(t.ns), FromDec(u.ns)))
                /\ EmitTime(ZoneCase(form, "-", Bin("-", TNode(t, "a"), TNode(u, "b")), binds,
                                      DurL(ToDec(Sub(FromDec(t.ns), FromDec(u.ns)))), <<>>))
         [] form = "TcmpT" ->
              \E op \in CmpOps \cap RootOps : \E t \in ALL : \E u \in ALL :
                LET binds == TBind(t, "a") \o TBind(u, "b")
                    \* = and != between two strings: by the property's first clause it is the comparison of the two
                    \* strings (`plain`, what the evaluator says); Reduce folding it to the comparison of the two
                    \* instants (wantnode) instead is the listed deviation TimeStringEquality
                    extra == IF op \in EqOps /\ IsString(t) /\ IsString(u)
                             THEN [plain |-> BoolL(IF op = "=" THEN t.s = u.s ELSE t.s # u.s)] ELSE <<>>
                IN /\ (IF t.zl THEN TRUE ELSE u.zl) /\ Bindable(binds)
                   /\ EmitTime(ZoneCase(form, op, Bin(op, TNode(t, "a"), TNode(u, "b")), binds,
                                         BoolL(CmpResult(op, Cmp(FromDec(t.ns), FromDec(u.ns)))), extra))

\* ------------------------------------------------------------------ deep trees (Mode = "deep")
\* Chains of N additions with the only variable at the DEEPEST leaf, bound at Reduce time (and, second case, only at
\* evaluation time): left-deep, right-deep behind parentheses, and N pairs of parentheses around one addition.  A
\* folder that gives up below some depth must still substitute and preserve the value.
RECURSIVE LeftDeep(_), RightDeep(_), Parens(_, _)
LeftDeep(n) == IF n = 0 THEN Ref("a") ELSE Bin("+", LeftDeep(n - 1), IntL("1"))
RightDeep(n) == IF n = 0 THEN Ref("a") ELSE Bin("+", IntL("1"), Paren(RightDeep(n - 1)))
Parens(e, n) == IF n = 0 THEN e ELSE Paren(Parens(e, n - 1))
DeepSizes == {3, 31, 32, 33, 63, 64, 65, 99, 100, 101, 102, 110, 127, 128, 129, 200}
DeepStep == /\ pc = "deep"
            /\ \E n \in DeepSizes : \E at \in {1, 2} : \E sh \in {"left", "right", "parens"} :
                 \* (the JSON reader of the judge stops at nesting depth 255; right-deep and parenthesised trees nest two levels per step)
                 /\ (sh = "left" \/ n <= 110)
                 /\ LET tree == CASE sh = "left" -> LeftDeep(n) [] sh = "right" -> RightDeep(n)
                               [] sh = "parens" -> Bin("*", Parens(Bin("+", Ref("a"), IntL("1")), n), IntL("2"))
                     binds == <<[n |-> "a", val |-> [t |-> "int", v |-> "5"], at |-> at]>>
                     c == [fam |-> "expr", sub |-> "deep", via |-> "ast", tree |-> tree, binds |-> binds, depth |-> n, alts |-> <<>>]
                    IN /\ CSVWrite("%1$s", <<ToJson(c)>>, CaseFile)
                       /\ out' = [tree |-> Ref("a"), binds |-> binds]
            /\ pc' = "done" /\ UNCHANGED g

\* ------------------------------------------------------------------ values that are no numbers (Mode = "nonfinite")
\* NaN and the infinities reach Reduce through a valuer (and arise at fold time: Inf - Inf, 0 * Inf).  EvalSem has no such
\* values, so these cases carry no expectation of the spec: the judge compares the real evaluator before and after.
NFVals == {[t |-> "float", v |-> "NaN", e |-> 0], [t |-> "float", v |-> "+Inf", e |-> 0], [t |-> "float", v |-> "-Inf", e |-> 0],
           [t |-> "float", v |-> "1", e |-> 0], [t |-> "float", v |-> "0", e |-> 0], [t |-> "int", v |-> "1"], [t |-> "uns", v |-> "1"]}
NFForms == {"ab", "aab", "a0b", "apb"}
NFTree(f, op) == CASE f = "ab" -> Bin(op, Ref("a"), Ref("b"))
                   [] f = "aab" -> Bin(op, Paren(Bin("-", Ref("a"), Ref("a"))), Ref("b"))         \* Inf - Inf
                   [] f = "a0b" -> Bin(op, Ref("b"), Bin("*", Ref("a"), Ref("c")))                \* Inf * 0 (c = 0.0)
                   [] f = "apb" -> Bin("AND", Bin(op, Ref("a"), Ref("b")), Bin(">", Ref("d"), IntL("0")))
NFStep == /\ pc = "nonfinite"
          /\ \E f \in NFForms : \E op \in CmpOps \cup {"+", "-", "*", "/"} : \E x \in NFVals : \E y \in NFVals : \E atb \in {1, 2} :
               /\ (f = "apb" => op \in CmpOps)
               /\ LET tree == NFTree(f, op)
                      binds == <<[n |-> "a", val |-> x, at |-> 1], [n |-> "b", val |-> y, at |-> atb],
                                 [n |-> "c", val |-> [t |-> "float", v |-> "0", e |-> 0], at |-> 1], [n |-> "d", val |-> [t |-> "int", v |-> "5"], at |-> 2]>>
                      c == [fam |-> "expr", sub |-> "nonfinite", via |-> "ast", tree |-> tree, binds |-> binds, depth |-> 2, alts |-> <<>>]
                  IN /\ CSVWrite("%1$s", <<ToJson(c)>>, CaseFile)
                     /\ out' = [tree |-> Ref("a"), binds |-> binds]
          /\ pc' = "done" /\ UNCHANGED g

Init == /\ g = G0 /\ out = NoOut
        /\ pc = CASE Mode = "time" -> "time" [] Mode = "chain" -> "chain" [] Mode = "zone" -> "zone" [] Mode = "deep" -> "deep" [] Mode = "nonfinite" -> "nonfinite" [] OTHER -> "op"
Next == ChooseOp \/ ChooseCls \/ ChooseSide \/ ChooseTop \/ ChooseVal \/ ChooseForm \/ Fin \/ TimeStep
        \/ DeepStep \/ NFStep \/ ChainOps \/ ChainVars \/ ChainEvalStep \/ ChainFin \/ ZoneChoose \/ ZoneStep \/ Done
Spec == Init /\ [][Next]_vars

\* ------------------------------------------------------------------ pass M invariants
ExprDone == pc = "done" /\ Mode = "expr"
\* the generator only builds what Typing calls well-typed
GenWellTyped == ExprDone => WellTyped(TreeOf(g), BindsOf(g))
\* the design preserves the value (property), except for the named deviations
ModelPreserves ==
  (ExprDone /\ WithSem) =>
     \/ ValEq(out.v1m, out.want)
     \/ "AsLiteralUnsignedNil" \in ExcludeDevs /\ DevM_AsLiteralUnsignedNil(TreeOf(g), BindsOf(g))
     \/ "TimeStringEquality" \in ExcludeDevs /\ DevM_TimeStringEquality(TreeOf(g), BindsOf(g))
     \/ "FloatModZeroNaN" \in ExcludeDevs /\ DevM_FloatModZeroNaN(TreeOf(g), BindsOf(g))
\* with both switches off (the repaired design) only the float % 0 convention remains
RepairedPreserves ==
  (ExprDone /\ WithSem /\ out.v1fix.t # "same") => (ValEq(out.v1fix, out.want) \/ out.fmz)
ModelIdempotent == (ExprDone /\ WithSem) => out.idem
\* time arithmetic: the design folds to the exact node, except T - MinInt64ns (the negation wraps),
\* and integer-as-timestamp forms, which need not fold
DevM_SubMinDurationWraps == out.form = "T-D" /\ out.dmin
ModelTimeExact ==
  (pc = "done" /\ Mode = "time") =>
     \/ out.mred = out.wantnode
     \/ ~out.strict /\ IsBin(out.mred)
     \/ "SubMinDurationWraps" \in ExcludeDevs /\ DevM_SubMinDurationWraps
ModelTimeIdempotent == (pc = "done" /\ Mode = "time") => out.midem
\* zone family: the design's loc (multiValuer.Zone etc. as transcribed) is the property's zone in force ...
ZoneDone == pc = "done" /\ Mode = "zone"
ModelZoneInForce == ZoneDone => out.mloc = out.zoff
\* ... and the design folds to the exact node computed in that zone; = / != between two strings: to the comparison
\* of the strings, or (named deviation) to the comparison of the instants
SameNode(a, b) == a.k = b.k /\ a = b
ModelZoneExact ==
  ZoneDone => IF "plain" \in DOMAIN out
              THEN SameNode(out.mred, out.plain) \/ ("TimeStringEquality" \in ExcludeDevs /\ SameNode(out.mred, out.wantnode))
              ELSE SameNode(out.mred, out.wantnode)
ModelZoneIdempotent == ZoneDone => out.midem
=============================================================================
