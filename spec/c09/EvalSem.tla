------------------------------- MODULE EvalSem -------------------------------
(* C09, property part: the value of a well-typed expression under an assignment,
   "with integer division as float division and division or modulo by zero as zero".

   What is modelled (and decided exactly by TLC, through Num64):
     int  op int     + - * wrap in two's complement like Go's int64; / is IEEE division of
                     the two operands converted to float (0.0 when the divisor is 0); % is
                     Go's truncated remainder (0 when the divisor is 0); & | ^ on the 64-bit
                     patterns; = != < <= > >= mathematical.
     uns  op uns     + - * wrap modulo 2^64; / and % truncating (0 when the divisor is 0);
                     & | ^; comparisons mathematical.
     int  op uns     the integer operand is converted to uint64 by wrap-around (what both
     uns  op int     implementations do) and the operation is the unsigned one, result
                     unsigned; ORDERING is mathematical (a negative integer is below every
                     unsigned); = and != compare after the conversion (so -1 = 2^64-1 holds).
     float involved  the other operand is converted to float (round to nearest even); the
                     operation is the IEEE-754 binary64 one (exact rational result rounded
                     to 53 bits); x / 0 = 0 and x % 0 = 0; & | ^ have no value (Nil).
     bool, str       AND OR = != on booleans; = != on strings (by characters).
   A Nil operand (only produced by float bitwise) makes comparisons false and everything
   else Nil; the property does not speak about it and it is only ever compared Nil = Nil.  *)
EXTENDS Typing, Num64

BoolV(b) == [t |-> "bool", v |-> IF b THEN "true" ELSE "false"]
IntV(x)  == [t |-> "int", v |-> IToDec(x)]
UnsV(u)  == [t |-> "uns", v |-> IToDec(UNat(u))]
FloatV(f) == IF FIsNaN(f) THEN [t |-> "float", v |-> "NaN", e |-> 0]
             ELSE [t |-> "float", v |-> IToDec([neg |-> f.neg, m |-> f.m]), e |-> f.e]
StrV(s)  == [t |-> "str", v |-> s]
NilV     == [t |-> "nil", v |-> ""]
FOfME(m, e) == IF m = "NaN" THEN FNaN ELSE LET d == IFromDec(m) IN FCanon(d.neg, d.m, e)
AsF(v) == IF v.t = "float" THEN FOfME(v.v, v.e) ELSE FFromI(IFromDec(v.v))

\* same value: tag and value string (and exponent for floats); NaN = NaN, -0 = +0 by representation
ValEq(a, b) == /\ a.t = b.t /\ a.v = b.v
               /\ IF a.t = "float" THEN a.e = b.e ELSE TRUE

\* c in {-1, 0, 1}, or 2 = unordered
CmpResult(op, c) == CASE op = "=" -> c = 0 [] op = "!=" -> c # 0 [] op = "<" -> c = -1
                      [] op = "<=" -> c \in {-1, 0} [] op = ">" -> c = 1 [] op = ">=" -> c \in {0, 1}

FloatOp(op, x, y) ==
  CASE op = "+" -> FloatV(FAdd(x, y)) [] op = "-" -> FloatV(FSub(x, y)) [] op = "*" -> FloatV(FMul(x, y))
    [] op = "/" -> FloatV(IF FIsZero(y) THEN FZero ELSE FDiv(x, y))
    [] op = "%" -> FloatV(IF FIsZero(y) THEN FZero ELSE FMod(x, y))          \* "modulo by zero as zero"
    [] op \in CmpOps -> BoolV(CmpResult(op, FCmp(x, y)))
    [] OTHER -> NilV

IntOp(op, x, y) ==
  CASE op = "+" -> IntV(I64Add(x, y)) [] op = "-" -> IntV(I64Sub(x, y)) [] op = "*" -> IntV(I64Mul(x, y))
    [] op = "/" -> FloatV(IF y.m = <<>> THEN FZero ELSE FDiv(FFromI(x), FFromI(y)))
    [] op = "%" -> IntV(IF y.m = <<>> THEN IZero ELSE I64Rem(x, y))
    [] op = "&" -> IntV(S64(U64And(W64(x), W64(y)))) [] op = "|" -> IntV(S64(U64Or(W64(x), W64(y))))
    [] op = "^" -> IntV(S64(U64Xor(W64(x), W64(y))))
    [] op \in CmpOps -> BoolV(CmpResult(op, ICmp(x, y)))
    [] OTHER -> NilV

UnsOp(op, a, b) ==
  LET ia == IFromDec(a.v) ib == IFromDec(b.v)
      ua == W64(ia) ub == W64(ib)             \* identity on unsigned values
  IN CASE op = "+" -> UnsV(U64Add(ua, ub)) [] op = "-" -> UnsV(U64Sub(ua, ub)) [] op = "*" -> UnsV(U64Mul(ua, ub))
       [] op = "/" -> UnsV(IF ub = <<>> THEN <<>> ELSE U64Div(ua, ub))
       [] op = "%" -> UnsV(IF ub = <<>> THEN <<>> ELSE U64Rem(ua, ub))
       [] op = "&" -> UnsV(U64And(ua, ub)) [] op = "|" -> UnsV(U64Or(ua, ub)) [] op = "^" -> UnsV(U64Xor(ua, ub))
       [] op \in EqOps -> BoolV(CmpResult(op, BCmp(ua, ub)))
       [] op \in OrdOps -> BoolV(CmpResult(op, ICmp(ia, ib)))
       [] OTHER -> NilV

BoolOp(op, p, q) == CASE op = "AND" -> BoolV(p /\ q) [] op = "OR" -> BoolV(p \/ q)
                      [] op = "=" -> BoolV(p = q) [] op = "!=" -> BoolV(p # q) [] OTHER -> NilV
StrOp(op, s, u) == CASE op = "=" -> BoolV(s = u) [] op = "!=" -> BoolV(s # u) [] OTHER -> NilV

Apply(op, a, b) ==
  IF a.t = "bool" /\ b.t = "bool" THEN BoolOp(op, a.v = "true", b.v = "true")
  ELSE IF a.t = "str" /\ b.t = "str" THEN StrOp(op, a.v, b.v)
  ELSE IF a.t \in NumKinds /\ b.t \in NumKinds THEN
       IF a.t = "float" \/ b.t = "float" THEN FloatOp(op, AsF(a), AsF(b))
       ELSE IF a.t = "uns" \/ b.t = "uns" THEN UnsOp(op, a, b)
       ELSE IntOp(op, IFromDec(a.v), IFromDec(b.v))
  ELSE IF op \in CmpOps THEN BoolV(FALSE)
  ELSE NilV

LitVal(e) == CASE e.k = "IntegerLiteral" -> [t |-> "int", v |-> e.Val]
               [] e.k = "UnsignedLiteral" -> [t |-> "uns", v |-> e.Val]
               [] e.k = "NumberLiteral" -> [t |-> "float", v |-> e.m, e |-> e.e]
               [] e.k = "BooleanLiteral" -> BoolV(e.Val)
               [] e.k = "StringLiteral" -> StrV(e.Val)
               [] OTHER -> NilV
LitNode(v) == CASE v.t = "int" -> [k |-> "IntegerLiteral", Val |-> v.v]
                [] v.t = "uns" -> [k |-> "UnsignedLiteral", Val |-> v.v]
                [] v.t = "float" -> [k |-> "NumberLiteral", m |-> v.v, e |-> v.e]
                [] v.t = "bool" -> [k |-> "BooleanLiteral", Val |-> (v.v = "true")]
                [] v.t = "str" -> [k |-> "StringLiteral", Val |-> v.v]
                [] v.t = "dur" -> [k |-> "DurationLiteral", Val |-> v.v]
                [] v.t = "time" -> [k |-> "TimeLiteral", ns |-> v.v]
                [] OTHER -> [k |-> "NilLiteral"]

\* the value of expression e under the bindings (all of them, or a part: unbound = Nil)
RECURSIVE EvalTree(_, _)
EvalTree(e, binds) ==
  CASE e.k = "BinaryExpr" -> Apply(e.Op, EvalTree(e.LHS, binds), EvalTree(e.RHS, binds))
    [] e.k = "ParenExpr" -> EvalTree(e.Expr, binds)
    [] e.k = "VarRef" -> Binding(binds, e.Val)
    [] OTHER -> LitVal(e)

\* a float % whose divisor is zero occurs in e: the one place where both implementations
\* (math.Mod = NaN) knowingly differ from "modulo by zero as zero"
RECURSIVE FloatModZero(_, _)
FloatModZero(e, binds) ==
  CASE e.k = "BinaryExpr" ->
         \/ FloatModZero(e.LHS, binds) \/ FloatModZero(e.RHS, binds)
         \/ /\ e.Op = "%"
            /\ LET l == EvalTree(e.LHS, binds) r == EvalTree(e.RHS, binds) IN
               /\ l.t \in NumKinds /\ r.t \in NumKinds /\ (l.t = "float" \/ r.t = "float")
               /\ FIsZero(AsF(r))
    [] e.k = "ParenExpr" -> FloatModZero(e.Expr, binds)
    [] OTHER -> FALSE
=============================================================================
