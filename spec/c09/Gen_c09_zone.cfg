SPECIFICATION Spec
CONSTANTS
  Mode = "zone"
  MaxDepth = 1
  ChainSize = "quick"
  WithSem = TRUE
  WithText = "none"
  ExcludeDevs = {"AsLiteralUnsignedNil", "TimeStringEquality", "FloatModZeroNaN", "SubMinDurationWraps"}
  RootOps = {"+", "-", "*", "/", "%", "&", "|", "^", "=", "!=", "<", "<=", ">", ">=", "AND", "OR"}
INVARIANTS ModelZoneInForce ModelZoneExact ModelZoneIdempotent
CHECK_DEADLOCK FALSE
