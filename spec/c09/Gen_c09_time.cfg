SPECIFICATION Spec
CONSTANTS
  Mode = "time"
  MaxDepth = 1
  ChainSize = "quick"
  WithSem = TRUE
  WithText = "none"
  ExcludeDevs = {"AsLiteralUnsignedNil", "TimeStringEquality", "FloatModZeroNaN", "SubMinDurationWraps"}
  RootOps = {"+", "-", "*", "/", "%", "&", "|", "^", "=", "!=", "<", "<=", ">", ">=", "AND", "OR"}
INVARIANTS ModelTimeExact ModelTimeIdempotent
CHECK_DEADLOCK FALSE
