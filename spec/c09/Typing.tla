------------------------------- MODULE Typing -------------------------------
(* C09, property part: what "well-typed" means, exactly as properties.jsonl says:

     "expression over integer, unsigned, float, boolean and string values (boolean
      operators on booleans, arithmetic, bitwise and ordering operators on numbers,
      equality on like kinds)"

   Values are tagged records [t |-> "int"|"uns"|"float"|"bool"|"str", v |-> string]
   (a float carries its odd significand as decimal string in v and a binary exponent e:
   value = v * 2^e; v = "NaN" for a NaN).  Expressions are AST records in the normal
   form of the Go projection (spec/common/Ast.tla); a NumberLiteral carries m, e instead
   of a decimal rendering.  Bindings are sequences of [n, val, at]: variable n has value
   val and is given to Reduce (at = 1) or to the evaluator only (at = 2).

   "numbers" are the three numeric kinds; they are "like kinds" of each other for
   equality (the property quantifies over every pair of operand kinds and both
   implementations compare them numerically); booleans are like booleans, strings like
   strings.  A bitwise operator with a float operand is an operator "on numbers" by the
   letter of the property; the language gives it no value (EvalSem: Nil), which Reduce
   must preserve like any other value.                                              *)
EXTENDS Naturals, Sequences, TLC

ArithOps == {"+", "-", "*", "/", "%"}
BitOps   == {"&", "|", "^"}
OrdOps   == {"<", "<=", ">", ">="}
EqOps    == {"=", "!="}
BoolOps  == {"AND", "OR"}
CmpOps   == OrdOps \cup EqOps
AllOps   == ArithOps \cup BitOps \cup CmpOps \cup BoolOps          \* the 16 non-regex operator tokens

NumKinds == {"int", "uns", "float"}
ValueKinds == NumKinds \cup {"bool", "str"}

Binding(binds, n) == LET S == {i \in 1..Len(binds) : binds[i].n = n} IN
                     IF S = {} THEN [t |-> "nil", v |-> ""] ELSE binds[CHOOSE i \in S : TRUE].val

LitKind(e) == CASE e.k = "IntegerLiteral" -> "int" [] e.k = "UnsignedLiteral" -> "uns"
                [] e.k = "NumberLiteral" -> "float" [] e.k = "BooleanLiteral" -> "bool"
                [] e.k = "StringLiteral" -> "str" [] OTHER -> "bad"

\* kind of the result of an arithmetic / bitwise operator on numbers
NumResult(op, l, r) == IF l = "float" \/ r = "float" THEN "float"
                       ELSE IF l = "uns" \/ r = "uns" THEN "uns"
                       ELSE IF op = "/" THEN "float"          \* integer division is float division
                       ELSE "int"

RECURSIVE TypeOf(_, _)
TypeOf(e, binds) ==
  CASE e.k = "BinaryExpr" ->
         LET l == TypeOf(e.LHS, binds) r == TypeOf(e.RHS, binds) op == e.Op IN
         IF l = "bad" \/ r = "bad" THEN "bad"
         ELSE IF op \in BoolOps THEN (IF l = "bool" /\ r = "bool" THEN "bool" ELSE "bad")
         ELSE IF op \in ArithOps \cup BitOps THEN (IF l \in NumKinds /\ r \in NumKinds THEN NumResult(op, l, r) ELSE "bad")
         ELSE IF op \in OrdOps THEN (IF l \in NumKinds /\ r \in NumKinds THEN "bool" ELSE "bad")
         ELSE IF op \in EqOps THEN (IF (l \in NumKinds /\ r \in NumKinds) \/ (l = r /\ l \in {"bool", "str"}) THEN "bool" ELSE "bad")
         ELSE "bad"
    [] e.k = "ParenExpr" -> TypeOf(e.Expr, binds)
    [] e.k = "VarRef" -> LET k == Binding(binds, e.Val).t IN IF k \in ValueKinds THEN k ELSE "bad"
    [] OTHER -> LitKind(e)

WellTyped(e, binds) == TypeOf(e, binds) # "bad"
=============================================================================
