SPECIFICATION Spec
CONSTANTS
  Mode = "expr"
  MaxDepth = 1
  WithSem = TRUE
  WithText = "lits"
  ExcludeDevs = {"AsLiteralUnsignedNil", "TimeStringEquality", "FloatModZeroNaN", "SubMinDurationWraps"}
  RootOps = {"+", "-", "*", "/", "%", "&", "|", "^", "=", "!=", "<", "<=", ">", ">=", "AND", "OR"}
INVARIANTS GenWellTyped ModelPreserves RepairedPreserves ModelIdempotent
CHECK_DEADLOCK FALSE
