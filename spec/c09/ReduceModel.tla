----------------------------- MODULE ReduceModel -----------------------------
(* C09, design part: ast.go's constant folder, transcribed function by function
   (Reduce, reduce, reduceBinaryExpr, reduceBinaryExpr{Boolean,Duration,Integer,Unsigned,
   Nil,Number,String,Time}LHS, reduceCall, reduceParenExpr, reduceVarRef, asLiteral),
   over AST records in the normal form of the Go projection.  Arithmetic on literal
   payloads is Num64's (Go's int64/uint64 wrap, IEEE double); instants are exact
   nanoseconds (BigInt).

   The two behaviours of the current tree that break the property are switches, so that
   the same transcription also describes the repaired design:
     dv.uns   asLiteral has no uint64 case (a uint64 binding becomes a NilLiteral)
     dv.tse   = and != between two strings that both look like time literals compare instants
   Not modelled (outside C09's value kinds; the operator returns an "Unmodelled" node):
   duration * / float, regex and list literals, bound parameters, time zones with transitions
   (a zone is a fixed offset, minutes east of UTC).

   The valuer given to Reduce is either the flat record of the expression family
   (MapValuer / NowValuer below) or a composition tree (TimeSem's header) whose methods
   Value, Call and Zone are transcribed from MapValuer, NowValuer and multiValuer
   (CompValuer below); reduceBinaryExpr's `loc` is threaded through the LHS functions
   exactly as in ast.go.                                                               *)
EXTENDS EvalSem, TimeSem, Ast

DevAll  == [uns |-> TRUE, tse |-> TRUE]      \* the tree before fix d19287e (today: uns off, tse on)
DevNone == [uns |-> FALSE, tse |-> FALSE]    \* the design the property asks for

NumME(m, e) == [k |-> "NumberLiteral", m |-> m, e |-> e]
NumF(f) == LitNode(FloatV(f))
TimeL(ns) == [k |-> "TimeLiteral", ns |-> ns]
NilL == [k |-> "NilLiteral"]
Unmodelled(what) == [k |-> "Unmodelled", what |-> what]
IsBin(e) == e.k = "BinaryExpr"
LiteralKinds == {"BooleanLiteral", "BoundParameter", "DurationLiteral", "IntegerLiteral", "UnsignedLiteral",
                 "NilLiteral", "NumberLiteral", "RegexLiteral", "ListLiteral", "StringLiteral", "TimeLiteral"}
IsLiteral(e) == e.k \in LiteralKinds
IsTrueLiteral(e) == e.k = "BooleanLiteral" /\ e.Val = TRUE
IsFalseLiteral(e) == e.k = "BooleanLiteral" /\ e.Val = FALSE

IV(e) == IFromDec(e.Val)                    \* payload of an Integer / Unsigned / Duration literal
FV(e) == FOfME(e.m, e.e)                    \* payload of a NumberLiteral
IntLI(x) == IntL(IToDec(x))
UnsLU(u) == UnsL(IToDec(UNat(u)))
DurLI(x) == DurL(IToDec(x))
IsZeroI(x) == x.m = <<>>
\* Go's int64 quotient (truncated; MinInt64 / -1 wraps), y # 0
I64Quo(x, y) == S64(W64(INorm([neg |-> x.neg # y.neg, m |-> BDivMod(x.m, y.m).q])))
\* time.Time.Add(d) and the saturating time.Time.Sub
TimeAdd(ns, d) == ToDec(Add(FromDec(ns), FromDec(IToDec(d))))
TimeSubSat(a, b) == LET d == Sub(FromDec(a), FromDec(b)) IN
                    IF Cmp(d, MaxI64) > 0 THEN ToDec(MaxI64) ELSE IF Cmp(d, MinI64) < 0 THEN ToDec(MinI64) ELSE ToDec(d)
TimeCmp(a, b) == Cmp(FromDec(a), FromDec(b))
\* StringLiteral.ToTimeLiteral(loc): [ok, lit]
ToTimeLiteral(s, loc) == LET p == ParseTimeStrIn(s, loc) IN [ok |-> p.ok, lit |-> TimeL(ToDec(p.ns))]

\* ------------------------------------------------------------------ reduceBinaryExprBooleanLHS
RBooleanLHS(op, lhs, rhs) ==
  IF rhs.k = "BooleanLiteral" THEN
       CASE op = "=" -> BoolL(lhs.Val = rhs.Val) [] op = "!=" -> BoolL(lhs.Val # rhs.Val)
         [] op = "AND" -> BoolL(lhs.Val /\ rhs.Val) [] op = "OR" -> BoolL(lhs.Val \/ rhs.Val)
         [] op = "&" -> BoolL(lhs.Val /\ rhs.Val) [] op = "|" -> BoolL(lhs.Val \/ rhs.Val)
         [] op = "^" -> BoolL(lhs.Val # rhs.Val)
         [] OTHER -> Bin(op, lhs, rhs)
  ELSE IF rhs.k = "NilLiteral" THEN BoolL(FALSE)
  ELSE Bin(op, lhs, rhs)

\* ------------------------------------------------------------------ reduceBinaryExprTimeLHS
RECURSIVE RTimeLHS(_, _, _, _)
RTimeLHS(op, lhs, rhs, loc) ==
  CASE rhs.k = "DurationLiteral" ->
         (CASE op = "+" -> TimeL(TimeAdd(lhs.ns, IV(rhs)))
            [] op = "-" -> TimeL(TimeAdd(lhs.ns, I64Neg(IV(rhs))))         \* lhs.Val.Add(-rhs.Val): the negation wraps
            [] OTHER -> Bin(op, lhs, rhs))
    [] rhs.k = "IntegerLiteral" ->
         LET x == RTimeLHS(op, lhs, DurL(rhs.Val), loc) IN IF ~IsBin(x) THEN x ELSE Bin(op, lhs, rhs)
    [] rhs.k = "TimeLiteral" ->
         (CASE op = "-" -> DurL(TimeSubSat(lhs.ns, rhs.ns))
            [] op \in CmpOps -> BoolL(CmpResult(op, TimeCmp(lhs.ns, rhs.ns)))
            [] OTHER -> Bin(op, lhs, rhs))
    [] rhs.k = "StringLiteral" ->
         LET t == ToTimeLiteral(rhs.Val, loc) IN
         IF ~t.ok THEN Bin(op, lhs, rhs)
         ELSE LET x == RTimeLHS(op, lhs, t.lit, loc) IN IF ~IsBin(x) THEN x ELSE Bin(op, lhs, rhs)
    [] rhs.k = "NilLiteral" -> BoolL(FALSE)
    [] OTHER -> Bin(op, lhs, rhs)

\* ------------------------------------------------------------------ reduceBinaryExprDurationLHS
RECURSIVE RDurationLHS(_, _, _, _)
RDurationLHS(op, lhs, rhs, loc) ==
  CASE rhs.k = "DurationLiteral" ->
         (CASE op = "+" -> DurLI(I64Add(IV(lhs), IV(rhs))) [] op = "-" -> DurLI(I64Sub(IV(lhs), IV(rhs)))
            [] op \in CmpOps -> BoolL(CmpResult(op, ICmp(IV(lhs), IV(rhs))))
            [] OTHER -> Bin(op, lhs, rhs))
    [] rhs.k = "NumberLiteral" ->
         (IF op \in {"*", "/"} THEN Unmodelled("duration scaled by a float") ELSE Bin(op, lhs, rhs))
    [] rhs.k = "IntegerLiteral" ->
         (CASE op = "*" -> DurLI(I64Mul(IV(lhs), IV(rhs)))
            [] op = "/" -> (IF IsZeroI(IV(rhs)) THEN DurL("0") ELSE DurLI(I64Quo(IV(lhs), IV(rhs))))
            [] OTHER -> Bin(op, lhs, rhs))
    [] rhs.k = "TimeLiteral" ->
         (IF op = "+" THEN TimeL(TimeAdd(rhs.ns, IV(lhs))) ELSE Bin(op, lhs, rhs))
    [] rhs.k = "StringLiteral" ->
         LET t == ToTimeLiteral(rhs.Val, loc) IN
         IF ~t.ok THEN Bin(op, lhs, rhs)
         ELSE LET x == RDurationLHS(op, lhs, t.lit, loc) IN IF ~IsBin(x) THEN x ELSE Bin(op, lhs, rhs)
    [] rhs.k = "NilLiteral" -> BoolL(FALSE)
    [] OTHER -> Bin(op, lhs, rhs)

\* ------------------------------------------------------------------ reduceBinaryExprNumberLHS
\* number <op> number on payloads x, y; "none" when the operator is not folded
NumNum(op, x, y) ==
  CASE op = "+" -> NumF(FAdd(x, y)) [] op = "-" -> NumF(FSub(x, y)) [] op = "*" -> NumF(FMul(x, y))
    [] op = "/" -> (IF FIsZero(y) THEN NumF(FZero) ELSE NumF(FDiv(x, y)))
    [] op = "%" -> NumF(FMod(x, y))                                       \* math.Mod: NaN for y = 0
    [] op \in CmpOps -> BoolL(CmpResult(op, FCmp(x, y)))
    [] OTHER -> [k |-> "none"]
RECURSIVE RNumberLHS(_, _, _)
RNumberLHS(op, lhs, rhs) ==
  CASE rhs.k = "NumberLiteral" ->
         LET x == NumNum(op, FV(lhs), FV(rhs)) IN IF x.k = "none" THEN Bin(op, lhs, rhs) ELSE x
    [] rhs.k = "IntegerLiteral" ->      \* every case uses float64(rhs.Val)
         LET x == NumNum(op, FV(lhs), FFromI(IV(rhs))) IN IF x.k = "none" THEN Bin(op, lhs, rhs) ELSE x
    [] rhs.k = "UnsignedLiteral" -> RNumberLHS(op, lhs, NumF(FFromI(IV(rhs))))
    [] rhs.k = "NilLiteral" -> BoolL(FALSE)
    [] OTHER -> Bin(op, lhs, rhs)

\* ------------------------------------------------------------------ reduceBinaryExprUnsignedLHS
RECURSIVE RUnsignedLHS(_, _, _)
RUnsignedLHS(op, lhs, rhs) ==
  CASE rhs.k = "NumberLiteral" -> RNumberLHS(op, NumF(FFromI(IV(lhs))), rhs)
    [] rhs.k = "IntegerLiteral" ->
         (IF IV(rhs).neg /\ op \in {"<", "<="} THEN BoolL(FALSE)
          ELSE IF IV(rhs).neg /\ op \in {">", ">="} THEN BoolL(TRUE)
          ELSE RUnsignedLHS(op, lhs, UnsLU(W64(IV(rhs)))))
    [] rhs.k = "UnsignedLiteral" ->
         LET a == IV(lhs).m b == IV(rhs).m IN
         (CASE op = "+" -> UnsLU(U64Add(a, b)) [] op = "-" -> UnsLU(U64Sub(a, b)) [] op = "*" -> UnsLU(U64Mul(a, b))
            [] op = "/" -> (IF b = <<>> THEN UnsL("0") ELSE UnsLU(U64Div(a, b)))
            [] op = "%" -> (IF b = <<>> THEN UnsL("0") ELSE UnsLU(U64Rem(a, b)))
            [] op \in CmpOps -> BoolL(CmpResult(op, BCmp(a, b)))
            [] OTHER -> Bin(op, lhs, rhs))                                  \* no bitwise case
    [] OTHER -> Bin(op, lhs, rhs)                                           \* no NilLiteral case either

\* ------------------------------------------------------------------ reduceBinaryExprIntegerLHS
RIntegerLHS(op, lhs, rhs, loc) ==
  CASE rhs.k = "NumberLiteral" -> RNumberLHS(op, NumF(FFromI(IV(lhs))), rhs)
    [] rhs.k = "IntegerLiteral" ->
         LET x == IV(lhs) y == IV(rhs) IN
         (CASE op = "+" -> IntLI(I64Add(x, y)) [] op = "-" -> IntLI(I64Sub(x, y)) [] op = "*" -> IntLI(I64Mul(x, y))
            [] op = "/" -> (IF IsZeroI(y) THEN NumF(FZero) ELSE NumF(FDiv(FFromI(x), FFromI(y))))
            [] op = "%" -> (IF IsZeroI(y) THEN IntL("0") ELSE IntLI(I64Rem(x, y)))
            [] op = "&" -> IntLI(S64(U64And(W64(x), W64(y)))) [] op = "|" -> IntLI(S64(U64Or(W64(x), W64(y))))
            [] op = "^" -> IntLI(S64(U64Xor(W64(x), W64(y))))
            [] op \in CmpOps -> BoolL(CmpResult(op, ICmp(x, y)))
            [] OTHER -> Bin(op, lhs, rhs))
    [] rhs.k = "UnsignedLiteral" ->
         (IF IV(lhs).neg /\ op \in {"<", "<="} THEN BoolL(TRUE)
          ELSE IF IV(lhs).neg /\ op \in {">", ">="} THEN BoolL(FALSE)
          ELSE RUnsignedLHS(op, UnsLU(W64(IV(lhs))), rhs))
    [] rhs.k = "DurationLiteral" ->          \* the integer is a timestamp
         (CASE op = "+" -> TimeL(TimeAdd(lhs.Val, IV(rhs)))
            [] op = "-" -> TimeL(TimeAdd(lhs.Val, I64Neg(IV(rhs))))
            [] OTHER -> Bin(op, lhs, rhs))
    [] rhs.k = "TimeLiteral" ->
         LET x == RDurationLHS(op, DurL(lhs.Val), rhs, loc) IN IF ~IsBin(x) THEN x ELSE Bin(op, lhs, rhs)
    [] rhs.k = "StringLiteral" ->
         LET t == ToTimeLiteral(rhs.Val, loc) IN
         IF ~t.ok THEN Bin(op, lhs, rhs)
         ELSE LET x == RDurationLHS(op, DurL(lhs.Val), t.lit, loc) IN IF ~IsBin(x) THEN x ELSE Bin(op, lhs, rhs)
    [] rhs.k = "NilLiteral" -> BoolL(FALSE)
    [] OTHER -> Bin(op, lhs, rhs)

\* ------------------------------------------------------------------ reduceBinaryExprNilLHS
RNilLHS(op, lhs, rhs) == IF op \in EqOps THEN BoolL(FALSE) ELSE Bin(op, lhs, rhs)

\* ------------------------------------------------------------------ reduceBinaryExprStringLHS
StringAsTime(op, lhs, rhs, loc) ==     \* "attempt to convert the string literal to a time literal"
  LET t == ToTimeLiteral(lhs.Val, loc) IN
  IF ~t.ok THEN Bin(op, lhs, rhs)
  ELSE LET x == RTimeLHS(op, t.lit, rhs, loc) IN IF ~IsBin(x) THEN x ELSE Bin(op, lhs, rhs)
RStringLHS(op, lhs, rhs, loc, dv) ==
  CASE rhs.k = "StringLiteral" ->
         (IF op \in EqOps THEN
               LET plain == BoolL(IF op = "=" THEN lhs.Val = rhs.Val ELSE lhs.Val # rhs.Val) IN
               IF dv.tse /\ LooksLikeTime(lhs.Val) /\ LooksLikeTime(rhs.Val) THEN
                    LET a == ToTimeLiteral(lhs.Val, loc) b == ToTimeLiteral(rhs.Val, loc) IN
                    IF ~a.ok \/ ~b.ok THEN plain
                    ELSE LET t == RTimeLHS(op, a.lit, b.lit, loc) IN IF ~IsBin(t) THEN t ELSE plain
               ELSE plain
          ELSE IF op = "+" THEN StrL(lhs.Val \o rhs.Val)
          ELSE StringAsTime(op, lhs, rhs, loc))
    [] rhs.k \in {"DurationLiteral", "TimeLiteral", "IntegerLiteral"} -> StringAsTime(op, lhs, rhs, loc)
    [] rhs.k = "NilLiteral" -> (IF op \in EqOps THEN BoolL(FALSE) ELSE Bin(op, lhs, rhs))
    [] OTHER -> Bin(op, lhs, rhs)

\* ------------------------------------------------------------------ asLiteral
AsLiteral(v, dv) ==
  CASE v.t = "bool" -> BoolL(v.v = "true") [] v.t = "dur" -> DurL(v.v) [] v.t = "float" -> NumME(v.v, v.e)
    [] v.t = "int" -> IntL(v.v) [] v.t = "str" -> StrL(v.v) [] v.t = "time" -> TimeL(v.v)
    [] v.t = "uns" -> (IF dv.uns THEN NilL ELSE UnsL(v.v))               \* Dev: no uint64 case
    [] OTHER -> NilL

\* ------------------------------------------------------------------ reduce and its helpers
\* vl: the valuer given to Reduce, resolved: [binds |-> sequence of [n, val] its Value knows, call |-> its Call answers now(),
\*      now |-> ns, loc |-> reduceBinaryExpr's loc (minutes east of UTC)]
HasBinding(binds, n) == \E i \in 1..Len(binds) : binds[i].n = n
RECURSIVE RReduce(_, _, _)
RBinary(e, vl, dv) ==
  LET op == e.Op lhs == RReduce(e.LHS, vl, dv) rhs == RReduce(e.RHS, vl, dv) loc == vl.loc IN
  IF op = "AND" /\ (IsFalseLiteral(lhs) \/ IsFalseLiteral(rhs)) THEN BoolL(FALSE)
  ELSE IF op = "AND" /\ IsTrueLiteral(lhs) THEN rhs
  ELSE IF op = "AND" /\ IsTrueLiteral(rhs) THEN lhs
  ELSE IF op = "OR" /\ (IsTrueLiteral(lhs) \/ IsTrueLiteral(rhs)) THEN BoolL(TRUE)
  ELSE IF op = "OR" /\ IsFalseLiteral(lhs) THEN rhs
  ELSE IF op = "OR" /\ IsFalseLiteral(rhs) THEN lhs
  ELSE CASE lhs.k = "BooleanLiteral" -> RBooleanLHS(op, lhs, rhs)
         [] lhs.k = "DurationLiteral" -> RDurationLHS(op, lhs, rhs, loc)
         [] lhs.k = "IntegerLiteral" -> RIntegerLHS(op, lhs, rhs, loc)
         [] lhs.k = "UnsignedLiteral" -> RUnsignedLHS(op, lhs, rhs)
         [] lhs.k = "NilLiteral" -> RNilLHS(op, lhs, rhs)
         [] lhs.k = "NumberLiteral" -> RNumberLHS(op, lhs, rhs)
         [] lhs.k = "StringLiteral" -> RStringLHS(op, lhs, rhs, loc, dv)
         [] lhs.k = "TimeLiteral" -> RTimeLHS(op, lhs, rhs, loc)
         [] OTHER -> Bin(op, lhs, rhs)
RCall(e, vl, dv) ==
  LET args == IF "Args" \in DOMAIN e THEN [i \in 1..Len(e.Args) |-> RReduce(e.Args[i], vl, dv)] ELSE <<>> IN
  IF vl.call /\ e.Name = "now" /\ args = <<>> THEN AsLiteral([t |-> "time", v |-> vl.now], dv)
  ELSE Call(e.Name, args)
RParen(e, vl, dv) == LET sub == RReduce(e.Expr, vl, dv) IN IF IsBin(sub) THEN Paren(sub) ELSE sub
RVarRef(e, vl, dv) == IF HasBinding(vl.binds, e.Val) THEN AsLiteral(Binding(vl.binds, e.Val), dv) ELSE e
RReduce(e, vl, dv) ==
  CASE e.k = "BinaryExpr" -> RBinary(e, vl, dv)
    [] e.k = "Call" -> RCall(e, vl, dv)
    [] e.k = "ParenExpr" -> RParen(e, vl, dv)
    [] e.k = "VarRef" -> RVarRef(e, vl, dv)
    [] OTHER -> e                                      \* NilLiteral itself, every other node cloned
\* Reduce: unwrap parens at top level
MReduce(e, vl, dv) == LET r == RReduce(e, vl, dv) IN IF r.k = "ParenExpr" THEN r.Expr ELSE r

MapValuer(binds) == [binds |-> binds, call |-> FALSE, now |-> "0", loc |-> 0]
NowValuer(binds, now) == [binds |-> binds, call |-> TRUE, now |-> now, loc |-> 0]     \* MultiValuer(MapValuer, &NowValuer{Now})

\* ------------------------------------------------------------------ MapValuer, NowValuer, multiValuer
\* on a composition tree vt (TimeSem's header); binds are the MapValuer's bindings, now the NowValuers' Now
ZeroTimeNs == "-62135596800000000000"                   \* time.Time{}: what a NowValuer without Now answers
IsCallValuer(v) == v.k \in {"now", "multi"}             \* var _ CallValuer = (*NowValuer)(nil), multiValuer(nil)
IsZoneValuer(v) == v.k \in {"now", "multi"}             \* var _ ZoneValuer = (*NowValuer)(nil), multiValuer(nil)
NilZone == [nil |-> TRUE, off |-> 0]
RECURSIVE VValue(_, _), VValueSeq(_, _, _), VCall(_, _), VCallSeq(_, _, _), VZone(_), VZoneSeq(_, _)
\* Value: the bindings a valuer answers for, a member earlier in a multiValuer shadowing the later ones
\* (NowValuer.Value only knows the key "now()", which is no identifier of the cases)
VValue(v, binds) == CASE v.k = "map" -> binds [] v.k = "multi" -> VValueSeq(v.ms, binds, 1) [] OTHER -> <<>>
VValueSeq(ms, binds, i) ==
  IF i > Len(ms) THEN <<>>
  ELSE LET a == VValue(ms[i], binds) IN a \o SelectSeq(VValueSeq(ms, binds, i + 1), LAMBDA b : ~HasBinding(a, b.n))
\* Call("now", no arguments): [ok, now]
VCall(v, now) == CASE v.k = "now" -> [ok |-> TRUE, now |-> IF v.now THEN now ELSE ZeroTimeNs]     \* returns v.Now, true (zero or not)
                   [] v.k = "multi" -> VCallSeq(v.ms, now, 1)
                   [] OTHER -> [ok |-> FALSE, now |-> "0"]
VCallSeq(ms, now, i) == IF i > Len(ms) THEN [ok |-> FALSE, now |-> "0"]
                        ELSE IF IsCallValuer(ms[i]) /\ VCall(ms[i], now).ok THEN VCall(ms[i], now)
                        ELSE VCallSeq(ms, now, i + 1)
\* Zone: NowValuer.Zone is its Location (nil when it has none); multiValuer.Zone is the first non-nil
\* Zone() among the members that are ZoneValuers
VZone(v) == CASE v.k = "now" -> (IF "off" \in DOMAIN v THEN [nil |-> FALSE, off |-> v.off] ELSE NilZone)
              [] v.k = "multi" -> VZoneSeq(v.ms, 1)
              [] OTHER -> NilZone
VZoneSeq(ms, i) == IF i > Len(ms) THEN NilZone
                   ELSE IF IsZoneValuer(ms[i]) /\ ~VZone(ms[i]).nil THEN VZone(ms[i])
                   ELSE VZoneSeq(ms, i + 1)
\* reduceBinaryExpr: loc := time.UTC; if valuer is a ZoneValuer and its Zone() is not nil, loc = it
VLoc(v) == IF IsZoneValuer(v) /\ ~VZone(v).nil THEN VZone(v).off ELSE 0
CompValuer(vt, binds, now) ==
  [binds |-> VValue(vt, binds), call |-> IsCallValuer(vt) /\ VCall(vt, now).ok, now |-> VCall(vt, now).now, loc |-> VLoc(vt)]
=============================================================================
