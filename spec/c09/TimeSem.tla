------------------------------- MODULE TimeSem -------------------------------
(* C09, property part for the time-arithmetic clause: the exact instant (nanoseconds since
   the Unix epoch, as BigInt), duration or truth value of
        timestamp + duration, timestamp - duration, duration + timestamp,
        timestamp - timestamp, timestamp <cmp> timestamp.
   A timestamp is given as a civil record
        [y, mo, d, h, mi, s, f, off]     f = nanoseconds of the second, off = minutes east of UTC
   whose instant is computed here from the proleptic Gregorian calendar (days-from-civil),
   independently of Go's time package; Spell renders it in the three spellings InfluxQL
   recognises.  Two of them ("date", "dt") carry no offset: their instant depends on the
   time zone in force, which is a property of the valuer given to Reduce (ZoneInForce: the
   first non-nil zone of the valuer composition in depth-first member order, UTC when there
   is none); a string with an explicit offset ("rfc") ignores it (ZonedInstant).
   The second half (LooksLikeTime, ParseTimeStrIn) is the design-side reading of
   StringLiteral.IsTimeLiteral / ToTimeLiteral(loc) for exactly those spellings.       *)
EXTENDS BigInt

FromInt(n) == IF n < 0 THEN Neg(FromNat(-n)) ELSE FromNat(n)
Leap(y) == (y % 4 = 0 /\ y % 100 # 0) \/ y % 400 = 0
DaysIn(y, m) == CASE m \in {1, 3, 5, 7, 8, 10, 12} -> 31 [] m \in {4, 6, 9, 11} -> 30
               [] m = 2 -> (IF Leap(y) THEN 29 ELSE 28) [] OTHER -> 0
DaysFromCivil(y, m, d) ==
  LET y1 == IF m <= 2 THEN y - 1 ELSE y
      era == y1 \div 400
      yoe == y1 - era * 400
      mp == IF m > 2 THEN m - 3 ELSE m + 9
      doy == (153 * mp + 2) \div 5 + d - 1
      doe == yoe * 365 + yoe \div 4 - yoe \div 100 + doy
  IN era * 146097 + doe - 719468
Billion == FromNat(1000000000)
InstantNs(c) ==
  LET secs == Add(Mul(FromInt(DaysFromCivil(c.y, c.mo, c.d)), FromNat(86400)),
                  FromInt(c.h * 3600 + c.mi * 60 + c.s - c.off * 60))
  IN Add(Mul(secs, Billion), FromNat(c.f))
ValidCivil(c) == /\ c.y \in 1..9999 /\ c.mo \in 1..12 /\ c.d \in 1..DaysIn(c.y, c.mo)
                 /\ c.h \in 0..23 /\ c.mi \in 0..59 /\ c.s \in 0..59 /\ c.f \in 0..999999999

\* ---- time zones.  A zone is a fixed offset, minutes east of UTC.  A valuer composition is a tree of
\*   [k |-> "map"]                               MapValuer(bindings): knows no zone
\*   [k |-> "now", now |-> BOOLEAN (, off |-> z)]  &NowValuer{Now, Location}: its Location when it has one (off present)
\*   [k |-> "multi", ms |-> <<member, ...>>]     MultiValuer(members...)
\* The zones a composition names, in depth-first member order; the one in force is the first of them.
RECURSIVE ZonesOf(_), ZonesOfSeq(_, _)
ZonesOf(v) == CASE v.k = "now" -> (IF "off" \in DOMAIN v THEN <<v.off>> ELSE <<>>)
                [] v.k = "multi" -> ZonesOfSeq(v.ms, 1)
                [] OTHER -> <<>>
ZonesOfSeq(ms, i) == IF i > Len(ms) THEN <<>> ELSE ZonesOf(ms[i]) \o ZonesOfSeq(ms, i + 1)
ZoneInForce(v) == LET zs == ZonesOf(v) IN IF zs = <<>> THEN 0 ELSE zs[1]
\* the instant of civil record c written in spelling fmt, read in zone z
ZonedInstant(c, fmt, z) == InstantNs(IF fmt = "rfc" THEN c ELSE [c EXCEPT !.off = z])

\* ---- spellings:  "date" 2006-01-02 | "dt" 2006-01-02 15:04:05[.ffffff] | "rfc" 2006-01-02T15:04:05[.fffffffff](Z|+hh:mm)
P2(n) == Pad4(n, 2)
FracStr(f, w) == IF w = 0 THEN "" ELSE "." \o Pad4(f \div (10 ^ (9 - w)), w)     \* w digits, f a multiple of 10^(9-w)
Abs(n) == IF n < 0 THEN -n ELSE n
Spell(c, fmt, w) ==
  LET date == Pad4(c.y, 4) \o "-" \o P2(c.mo) \o "-" \o P2(c.d)
      clock == P2(c.h) \o ":" \o P2(c.mi) \o ":" \o P2(c.s) \o FracStr(c.f, w)
  IN CASE fmt = "date" -> date
       [] fmt = "dt" -> date \o " " \o clock
       [] fmt = "rfc" -> date \o "T" \o clock \o
            (IF c.off = 0 THEN "Z" ELSE (IF c.off < 0 THEN "-" ELSE "+") \o P2(Abs(c.off) \div 60) \o ":" \o P2(Abs(c.off) % 60))

\* ---- design side: recognising and parsing those spellings
Ch(s, i) == SubSeq(s, i, i)
DigitSet == {"0", "1", "2", "3", "4", "5", "6", "7", "8", "9"}
IsDigits(s, i, n) == i + n - 1 <= Len(s) /\ \A j \in i..(i + n - 1) : Ch(s, j) \in DigitSet
NumAt(s, i, n) == Small(SubSeq(s, i, i + n - 1))
\* parser.go: dateStringRegexp ^\d{4}-\d{2}-\d{2}$ , dateTimeStringRegexp ^\d{4}-\d{2}-\d{2}.+
DatePrefix(s) == Len(s) >= 10 /\ IsDigits(s, 1, 4) /\ Ch(s, 5) = "-" /\ IsDigits(s, 6, 2) /\ Ch(s, 8) = "-" /\ IsDigits(s, 9, 2)
IsDateString(s) == Len(s) = 10 /\ DatePrefix(s)
IsDateTimeString(s) == Len(s) > 10 /\ DatePrefix(s)
LooksLikeTime(s) == IsDateString(s) \/ IsDateTimeString(s)          \* StringLiteral.IsTimeLiteral

RECURSIVE DigitRun(_, _)
DigitRun(s, i) == IF i <= Len(s) /\ Ch(s, i) \in DigitSet THEN 1 + DigitRun(s, i + 1) ELSE 0
NoTime == [ok |-> FALSE, ns |-> Zero]
Civil0(s) == [y |-> NumAt(s, 1, 4), mo |-> NumAt(s, 6, 2), d |-> NumAt(s, 9, 2), h |-> 0, mi |-> 0, s |-> 0, f |-> 0, off |-> 0]
CivilDone(c) == IF ValidCivil(c) THEN [ok |-> TRUE, ns |-> InstantNs(c)] ELSE NoTime
ClockOK(s) == IsDigits(s, 12, 2) /\ Len(s) >= 19 /\ Ch(s, 14) = ":" /\ IsDigits(s, 15, 2) /\ Ch(s, 17) = ":" /\ IsDigits(s, 18, 2)
\* the part after the seconds: optional fraction of 1..9 digits; returns [ok, f, next]
Frac(s) == IF Len(s) >= 20 /\ Ch(s, 20) = "." /\ DigitRun(s, 21) \in 1..9
           THEN LET n == DigitRun(s, 21) IN [ok |-> TRUE, f |-> NumAt(s, 21, n) * (10 ^ (9 - n)), next |-> 21 + n]
           ELSE [ok |-> TRUE, f |-> 0, next |-> 20]
WithClock(s, f, off) == [Civil0(s) EXCEPT !.h = NumAt(s, 12, 2), !.mi = NumAt(s, 15, 2), !.s = NumAt(s, 18, 2), !.f = f, !.off = off]
ParseDT(s, loc) ==     \* time.ParseInLocation("2006-01-02 15:04:05.999999", s, loc) (two-digit fields only)
  IF DatePrefix(s) /\ Len(s) >= 19 /\ Ch(s, 11) = " " /\ ClockOK(s)
  THEN LET fr == Frac(s) IN IF fr.next = Len(s) + 1 THEN CivilDone(WithClock(s, fr.f, loc)) ELSE NoTime
  ELSE NoTime
ParseRFC(s) ==    \* time.RFC3339Nano: the offset is in the string, the location plays no part in the instant
  IF DatePrefix(s) /\ Len(s) >= 20 /\ Ch(s, 11) = "T" /\ ClockOK(s)
  THEN LET fr == Frac(s) p == fr.next IN
       IF p = Len(s) /\ Ch(s, p) = "Z" THEN CivilDone(WithClock(s, fr.f, 0))
       ELSE IF p + 5 = Len(s) /\ Ch(s, p) \in {"+", "-"} /\ IsDigits(s, p + 1, 2) /\ Ch(s, p + 3) = ":" /\ IsDigits(s, p + 4, 2)
                 /\ NumAt(s, p + 1, 2) <= 23 /\ NumAt(s, p + 4, 2) <= 59
            THEN LET o == NumAt(s, p + 1, 2) * 60 + NumAt(s, p + 4, 2) IN
                 CivilDone(WithClock(s, fr.f, IF Ch(s, p) = "-" THEN -o ELSE o))
       ELSE NoTime
  ELSE NoTime
\* StringLiteral.ToTimeLiteral(loc), loc a fixed offset (minutes east of UTC; nil is UTC = 0)
ParseTimeStrIn(s, loc) == IF IsDateTimeString(s) THEN (LET a == ParseDT(s, loc) IN IF a.ok THEN a ELSE ParseRFC(s))
                          ELSE IF IsDateString(s) THEN CivilDone([Civil0(s) EXCEPT !.off = loc])
                          ELSE NoTime
ParseTimeStr(s) == ParseTimeStrIn(s, 0)
=============================================================================
