----------------------------- MODULE Judge_c13 -----------------------------
(* Pass V for C13.  Record: [id, family?, kind?, obs |-> [text, accepted, ops]] where ops is
   the list of [op, out] for every public operation run on a fresh parse of the statement
   (out = "ok" | "err" | "panic").  Property: an accepted statement never makes an operation
   panic.  A statement the parser rejects is outside the property's domain (skipped).   *)
EXTENDS Naturals, Sequences, FiniteSets, TLC, Json, CSV, IOUtils

VARIABLES l, nt
vars == <<l, nt>>
Trace == ndJsonDeserialize(IOEnv.OBS_FILE)
Has(r, f) == f \in DOMAIN r
V(c, s) == [class |-> c, sig |-> s]

Verdicts(r) ==
  LET o == r.obs IN
  IF Has(o, "harness_panic") THEN {V("panic", "harness")}
  ELSE IF Has(o, "hang") THEN {V("hang", "watchdog")}
  ELSE IF Has(o, "parse_panic") THEN {V("panic", "ParseStatement")}
  ELSE IF ~o.accepted THEN {}
  ELSE {V("panic", o.ops[i].op) : i \in {j \in 1..Len(o.ops) : o.ops[j].out = "panic"}}

NonTrivial(r) == Has(r.obs, "accepted") /\ r.obs.accepted

Init == l = 1 /\ nt = 0
Step == /\ l <= Len(Trace)
        /\ LET r == Trace[l] IN
             /\ \A v \in Verdicts(r) : CSVWrite("%1$s", <<ToJson([id |-> r.id, class |-> v.class, sig |-> v.sig])>>, IOEnv.VERDICT_FILE)
             /\ nt' = nt + (IF NonTrivial(r) THEN 1 ELSE 0)
        /\ l' = l + 1
Finish == /\ l = Len(Trace) + 1
          /\ CSVWrite("%1$s", <<ToJson([judged |-> Len(Trace), nontrivial |-> nt])>>, IOEnv.STATS_FILE)
          /\ l' = l + 1 /\ UNCHANGED nt
Next == Step \/ Finish
Spec == Init /\ [][Next]_vars
Accepted == TLCGet("stats").diameter = Len(Trace) + 2
=============================================================================
