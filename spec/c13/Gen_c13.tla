------------------------------ MODULE Gen_c13 ------------------------------
(* C13 - every operation on a parsed statement is total.  Generator of statements the
   parser accepts although a later validation stage would reject them: calls with zero or
   surplus arguments of every node kind, unknown functions, time() with 0..3 arguments of
   any kind, zero / negative / fractional-divisor durations, wildcards and regexes in
   argument, dimension and condition positions, top/bottom without arguments, DISTINCT
   forms.  Each statement is one choice of (field expression, second field, condition,
   dimension list, tail); the driver runs every public operation on a fresh parse of it.
   Other statement kinds come from the Grammar corpus (Gen_stmt).                       *)
EXTENDS Naturals, Sequences, TLC, Tok, Dict, Json, CSV, IOUtils

CONSTANTS Part
VARIABLES done
vars == <<done>>

T(s) == <<[t |-> "p", s |-> s, g |-> "L"]>>     \* raw spelled pieces; these statements are written as text

Args == <<"v", "'s'", "1", "1.5", "true", "10s", "0s", "-1s", "*", "/re/", "f(v)", "(v)", "-v", "DISTINCT v", "now()", "9223372036854775808", "v::tag", "*::field">>
Funcs == <<"mean", "top", "bottom", "percentile", "derivative", "count", "distinct", "holt_winters", "sample", "unknownfn", "time", "fill", "tz", "now", "elapsed", "moving_average">>

\* calls with 0..3 arguments
Calls0 == {Funcs[i] \o "()" : i \in 1..Len(Funcs)}
Calls1 == {Funcs[i] \o "(" \o Args[j] \o ")" : i \in 1..Len(Funcs), j \in 1..Len(Args)}
Calls2 == {Funcs[i] \o "(" \o Args[j] \o ", " \o Args[k] \o ")" : i \in {1, 2, 3, 4, 5, 8, 10}, j \in 1..Len(Args), k \in 1..Len(Args)}
Calls4 == {f \o "(v, h, r, 2)" : f \in {"top", "bottom", "mean", "unknownfn"}} \cup {f \o "(v, h, 'x', /re/, *)" : f \in {"top", "bottom", "count"}}

Ariths == {"1h / 0s", "10m % 0s", "1h / 1m", "1h % 7m", "0s / 0s", "1s * 1s", "1s & 1s", "1s / 1", "1s % 0", "10s / 0.5", "10s / 0", "10s / 0.0", "10s * 2.5", "10s / 2", "1s + 'x'", "1 / 0", "1 % 0", "1.5 % 0", "'a' + 'b'", "v / 0", "1s - 2s", "now() - 1s + 3",
           "9223372036854775807 + 1", "-9223372036854775808 / -1", "9223372036854775808 / 0", "9223372036854775808 - 1", "1 + 9223372036854775808",
           "'2000-01-01T00:00:00Z' - 1s", "'2000-01-01' + 1", "'2000-01-01T00:00:00Z' - '1999-01-01T00:00:00Z'", "1s * 9223372036854775807",
           "true & false", "true | 1", "1 & 1.5", "mean(v) / 0", "(10s / 0.5)", "-(10s) / 0.1"}

BinOps == {"+", "-", "*", "/", "%", "&", "|", "^", "=", "!=", "<", "<=", ">", ">=", "AND", "OR"}
BinArgs == <<"v", "'s'", "1", "0", "1.5", "0.0", "true", "10s", "0s", "now()", "9223372036854775808", "'2000-01-01T00:00:00Z'", "time">>

Dims == {"", "h", "*", "/re/", "time()", "time(0s)", "time(-1s)", "time(1s)", "time(1s, 0s)", "time(0s, 1s)", "time(1s, 1s, 1s)", "time(v)", "time('x')", "time(1s, now())", "time(0s, now())", "time(0s, now() - 90s)", "time(0s, '2000-01-01T00:00:00Z')", "time(7s, now() - 90s)", "time(1s, now() + 1s)",
         "time(1s, '2000-01-01T00:00:00Z')", "time(1s, 'x')", "time(1s, 1)", "time(1, 1s)", "time(1.5)", "time(10s / 0.5)", "foo(1)", "foo()", "1", "'x'", "time(1s), time(2s)",
         "h, time(1s, -1s)", "time(1ns, 9223372036854775807ns)", "mean(v)", "h::tag, *", "time(1s), *", "*, time(1s)", "*, time(10s, 3s)", "/h/, time(1m, 10s)", "/nomatch/, time(1m)", "h, *, time(1m, now())", "*, time(1s), *", "/r|h/, /x/, time(1s, 1s)", "v + 1", "(h)", "DISTINCT h", "-h", "true"}

Conds == {"", "time > now() - 1h", "time != 1", "time =~ /a/", "'x' =~ /a/", "1 =~ /a/", "h =~ /a/ AND h !~ /b/", "time > 1.5", "time > 'x'", "time > '2000-13-45'", "time < 1s OR time > 2s",
          "time = 9223372036854775807", "time > -9223372036854775808", "time < '3000-01-01T00:00:00Z'", "time > '1000-01-01T00:00:00Z'", "1 > time", "now() > time",
          "v", "1", "'x'", "*", "/re/", "f()", "10s / 0.5 > 1s", "time > now() - 10s / 0.5", "h = 'a' OR (time > 1 AND time < 2)", "true AND false", "v =~ /^(a|b)$/ OR w !~ /^c$/",
          "h =~ /(?i)^a$/", "h =~ /^$/", "time > 'x' - 1s", "time() > 1", "time > time", "(time > 1) = true", "v > 9223372036854775808", "time > 9223372036854775808",
          "h IN", "time >= '2000-01-01' AND time <= '2000-01-01' + 1d"}

\* field lists with repeated / aliased time fields (RewriteTimeFields) and other repeated names
FieldLists == {"time", "time, time", "time, v, time", "v, time AS a, w, time AS b", "time AS t", "*, time", "time, *", "v, v, v", "v AS time, time",
               "time::tag", "mean(time)", "time + 1", "(time)", "\"time\"", "time, time, time, time", "v, time, time"}

Tails == {"", "fill(0)", "fill(none) LIMIT 0", "ORDER BY time DESC SLIMIT 1", "fill(linear) tz('UTC')"}

Emit(text, fam) == CSVWrite("%1$s", <<ToJson([family |-> fam, text |-> text])>>, IOEnv.CASE_FILE)
Sel(f, c, d, tl) == "SELECT " \o f \o " FROM m" \o (IF c = "" THEN "" ELSE " WHERE " \o c) \o (IF d = "" THEN "" ELSE " GROUP BY " \o d) \o (IF tl = "" THEN "" ELSE " " \o tl)

\* Part "dictcalls": every string constant of the tree under check (the source dictionary, Dict.tla) as the NAME of a call
\* - in field, argument, condition and dimension position, with 0..3 arguments - and as a data type suffix: an operation
\* that knows a function by name (type filters, selectors, column naming, validation of arguments) spells the name in its
\* source.  The name is written quoted, so every word is a name; written bare where it may be a type.
EmitT(toks, fam) == CSVWrite("%1$s", <<ToJson([family |-> fam, toks |-> toks])>>, IOEnv.CASE_FILE)
SelT(fields, rest) == <<Kw("SELECT")>> \o fields \o <<Kw("FROM"), Id("m")>> \o rest
CallT(w, args) == <<QId(w), PT("(")>> \o args \o <<PT(")")>>
GroupT == <<Kw("GROUP"), Kw("BY"), Id("time"), PT("("), DurT("1m"), PT(")")>>
DictCalls(w) ==
  /\ EmitT(SelT(CallT(w, <<IdT("v")>>), <<>>), "dict-call")
  /\ EmitT(SelT(CallT(w, <<>>), <<>>), "dict-call0")
  /\ EmitT(SelT(CallT(w, <<IdT("v"), PT(","), Int("2")>>), GroupT), "dict-call2")
  /\ EmitT(SelT(CallT(w, <<PT("*")>>), <<>>), "dict-call-star")
  /\ EmitT(SelT(CallT(w, <<ReT("v")>>), GroupT \o <<PT(","), P("*")>>), "dict-call-regex")
  /\ EmitT(SelT(CallT(w, <<IdT("mean"), PT("("), IdT("v"), PT(")"), PT(","), Dur("10s")>>), GroupT \o <<PT(","), Id("h")>>), "dict-call-nested")
  /\ EmitT(SelT(<<Id("max"), PT("(")>> \o CallT(w, <<IdT("v")>>) \o <<PT(")")>>, GroupT), "dict-call-inner")
  /\ EmitT(SelT(CallT(w, <<IdT("v"), PT(","), Id("h"), PT(","), Int("2")>>) \o <<PT(","), Id("h")>>, <<>>), "dict-call-selector")
  /\ EmitT(SelT(CallT(w, <<IdT("v")>>) \o <<PT(","), Id("v")>> , <<Kw("INTO"), Id("t")>>), "dict-call-mixed")
  /\ EmitT(SelT(<<Id("v")>>, <<Kw("WHERE")>> \o CallT(w, <<IdT("v")>>) \o <<P(">"), Int("1")>>), "dict-call-where")
  /\ EmitT(SelT(<<Id("mean"), PT("("), IdT("v"), PT(")")>>, <<Kw("GROUP"), Kw("BY")>> \o CallT(w, <<DurT("1s")>>)), "dict-call-dim")
  /\ EmitT(SelT(<<Id("v"), PT("::"), PT(w)>>, <<>>), "dict-type")
  /\ EmitT(SelT(<<Id("mean"), PT("("), IdT("v"), PT(")")>>, GroupT \o <<Id("fill"), PT("("), PT(w), PT(")")>>), "dict-fill")

Init == done = FALSE
Gen == /\ ~done
       /\ IF Part = "calls"
          THEN /\ \A f \in Calls0 \cup Calls1 \cup Calls4 : /\ Emit(Sel(f, "", "", ""), "call") /\ Emit(Sel("v, " \o f \o " AS x", "", "time(1m)", ""), "call-grouped")
                                                            /\ Emit(Sel("v", f \o " > 1", "", ""), "call-in-where") /\ Emit("SELECT " \o f \o " INTO t FROM m", "call-into")
               /\ \A f \in Calls2 : Emit(Sel(f, "", "", ""), "call2")
          ELSE IF Part = "exprs"
          THEN /\ \A a \in Ariths : /\ Emit(Sel(a, "", "", ""), "arith-field") /\ Emit(Sel("v", a \o " > 0", "", ""), "arith-where")
                                    /\ Emit(Sel("mean(v)", "", "time(1m), " \o a, ""), "arith-dim") /\ Emit(Sel("f(" \o a \o ")", "", "", ""), "arith-arg")
               /\ \A j \in 1..Len(Args) : /\ Emit(Sel(Args[j], "", "", ""), "leaf-field") /\ Emit(Sel("v", Args[j], "", ""), "leaf-where")
                                          /\ Emit(Sel(Args[j] \o " AS a, " \o Args[j], "", Args[j], ""), "leaf-everywhere")
               /\ \A fl \in FieldLists : \A d \in {"", "time(1m)", "h"} : /\ Emit(Sel(fl, "", d, ""), "fieldlist") /\ Emit("SELECT " \o fl \o " INTO t FROM m", "fieldlist-into")
               \* every operator between every pair of a reduced argument list, as a condition and (arithmetic) as a field
               /\ \A o \in BinOps : \A j \in 1..Len(BinArgs) : \A k \in 1..Len(BinArgs) :
                    /\ Emit(Sel("v", BinArgs[j] \o " " \o o \o " " \o BinArgs[k], "", ""), "binop-where")
                    /\ IF o \in {"+", "-", "*", "/", "%", "&", "|", "^"} THEN Emit(Sel(BinArgs[j] \o " " \o o \o " " \o BinArgs[k], "", "", ""), "binop-field") ELSE TRUE
          ELSE IF Part = "regex"
          \* a regex comparison continued by every operator (an operator that binds tighter than =~ takes the
          \* regex literal as ITS left operand, so the =~ node's right operand is no regex), regex literals
          \* as plain operands, as fields and as call arguments
          THEN \A o \in BinOps : \A j \in 1..Len(BinArgs) : \A rop \in {"=~", "!~"} :
                 /\ Emit(Sel("v", "h " \o rop \o " /a/ " \o o \o " " \o BinArgs[j], "", ""), "regex-then-op")
                 /\ Emit(Sel("v", BinArgs[j] \o " " \o o \o " h " \o rop \o " /^a$/", "", ""), "op-then-regex")
                 /\ Emit(Sel("v", "h " \o rop \o " /^a$/ " \o o \o " h " \o rop \o " /^(b|c)$/", "", ""), "regex-op-regex")
                 /\ Emit(Sel("v", "(h " \o rop \o " /^a$/) " \o o \o " " \o BinArgs[j], "", ""), "paren-regex-then-op")
                 /\ Emit(Sel("v", "/a/ " \o o \o " " \o BinArgs[j], "", ""), "bare-regex-where")
                 /\ Emit(Sel("/a/ " \o o \o " " \o BinArgs[j], "", "", ""), "bare-regex-field")
                 /\ Emit(Sel("mean(/a/) " \o o \o " " \o BinArgs[j], "", "time(1m)", ""), "regex-call-op")
          ELSE IF Part = "sources"
          \* several sources, of which the first / last is unknown to the schema (no field or tag maps at all) or a regex
          THEN \A src \in {"nosuch", "nosuch, m", "m, nosuch", "/re/, m", "m, /re/", "nosuch, (SELECT max(v) FROM m GROUP BY h)", "(SELECT v FROM nosuch), m",
                            "nosuch, nosuch", "db.rp.nosuch, m", "(SELECT * FROM nosuch, m)", "m, (SELECT mean(*) FROM nosuch, m GROUP BY *)"} :
                 \A f \in {"*", "v", "mean(*)", "*::tag, v", "/v/", "top(v, h, 2)", "count(/./)"} : \A d \in {"", "*", "h", "/h/, time(1m)"} :
                   Emit("SELECT " \o f \o " FROM " \o src \o (IF d = "" THEN "" ELSE " GROUP BY " \o d), "sources")
          ELSE IF Part = "dictcalls"
          THEN \A w \in DictStrs : DictCalls(w)
          ELSE IF Part = "dims"
          THEN /\ \A d \in Dims : \A f \in {"v", "mean(v)", "top(v, 1), h", "*"} : \A tl \in Tails : Emit(Sel(f, "", d, tl), "dim")
               \* the parser itself asks a continuous query's source for its interval
               /\ \A d \in Dims : \A f \in {"mean(v)", "*", "mean(*)"} :
                    Emit("CREATE CONTINUOUS QUERY cq ON db BEGIN SELECT " \o f \o " INTO t FROM m GROUP BY " \o d \o " END", "dim-cq")
          ELSE IF Part = "conds"
          THEN \A c \in Conds : \A f \in {"v", "mean(v)"} : \A d \in {"", "time(1m)", "time(0s, 1s)"} : Emit(Sel(f, c, d, ""), "cond")
          ELSE \A c \in Conds : \A d \in Dims : Emit(Sel("mean(v)", c, d, ""), "cross")
       /\ done' = TRUE
Next == Gen
Spec == Init /\ [][Next]_vars
=============================================================================
