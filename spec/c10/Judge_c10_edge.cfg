SPECIFICATION Spec
CONSTANTS
  EdgeMap = TRUE
POSTCONDITION Accepted
CHECK_DEADLOCK FALSE
