------------------------------- MODULE Alpha -------------------------------
(* The bounded alphabets of atoms from which the generators of C10 and C18 build
   conditions.  FormMode = "all": spelling of `time` and literal form are part of the
   atom (full product).  FormMode = "rot": they are a function of the atom, its position
   and Seed, so that over a run every (operator, side, form, spelling) combination occurs
   many times without multiplying the state space.                                     *)
EXTENDS TimeSplit

CONSTANTS MaxAtoms,    \* atoms per condition
          MaxT,        \* time atoms per condition
          Bases, OffN, \* bound instants (k, d), d in -OffN..OffN
          Ops, Sides,
          Spells,      \* spellings of the time column, subset of {"time", "qtime", "Time", "TIME"}
          Forms,       \* literal forms, subset of {"int", "rfc", "dt", "date", "dur", "now"}
          DateBases,   \* bases that are midnight UTC in the driver's mapping
          FormMode, NTLevel, ShapeLevel, Seed

Offs == (0 - OffN)..OffN
InSpells(x) == x \in Spells
InForms(x) == x \in Forms
SpellSeq == SelectSeq(<<"time", "qtime", "Time", "TIME">>, InSpells)
\* "intm" / "intp": an integer timestamp minus / plus a duration ( 946688400000000000 - 1h ); "rfcm" / "rfcp": the
\* same with an RFC3339 string.  Reduce folds them to a time literal.
\* "revrfc" / "revdt": the duration on the LEFT of the sum ( 1h + '<string>' ); ( 1h + <integer> is a duration + integer, which Reduce does not fold:
\* not a time bound of the language, "revint" is kept for experiments only)
FormSeq == SelectSeq(<<"int", "rfc", "rfcfar", "dt", "date", "dur", "now", "intm", "intp", "rfcm", "rfcp", "revrfc", "revdt", "revint">>, InForms)
ArithForms == {"intm", "intp", "rfcm", "rfcp", "revrfc", "revdt", "revint"}

\* which literal forms can denote the instant (k, d)
FormOK(k, d, f) ==
  CASE f = "int"  -> k \in 0..5
    \* an RFC3339 string for an instant NO time literal can denote (year 1500, year 2300, one nanosecond beyond the range): not a
    \* bound the splitter can evaluate, but a time bound all the same - SetTimeRange strips it like any other (C18)
    [] f = "rfcfar" -> ~LitInRange(I(k, d))
    [] f = "dur"  -> TRUE
    [] f = "rfc"  -> LitInRange(I(k, d))
    [] f = "dt"   -> LitInRange(I(k, d))
    [] f = "date" -> d = 0 /\ k \in DateBases
    [] f = "now"  -> LitInRange(I(k, d)) /\ ~(EdgeMap /\ k = 1)   \* MinTime is > 292 years before now()
    [] f \in ArithForms -> LitInRange(I(k, d)) /\ ~EdgeMap /\ k \in 1..4   \* an hour of room on both sides
FormsFor(k, d) == LET T(f) == FormOK(k, d, f) IN SelectSeq(FormSeq, T)

OpIdx(op) == CASE op = "=" -> 0 [] op = "<" -> 1 [] op = "<=" -> 2 [] op = ">" -> 3 [] op = ">=" -> 4
Pick(s, n) == s[(n % Len(s)) + 1]

TAtom(op, s, sp, k, d, f) == [a |-> "time", op |-> op, side |-> s, sp |-> sp, k |-> k, d |-> d, f |-> f]
\* time atoms available at position i of a condition
TimeAlpha(i) ==
  IF FormMode \in {"all", "tail"}
  THEN UNION {{TAtom(op, s, sp, k, d, FormsFor(k, d)[j]) : j \in 1..Len(FormsFor(k, d))} :
                op \in Ops, s \in Sides, sp \in SeqRange(SpellSeq), k \in Bases, d \in Offs}
  ELSE {TAtom(op, s,
              Pick(SpellSeq, i + 2 * OpIdx(op) + (IF s = "L" THEN 0 ELSE 1) + k + Seed),
              k, d,
              Pick(FormsFor(k, d), 3 * i + OpIdx(op) + (IF s = "L" THEN 0 ELSE 2) + 2 * k + d + 4 + Seed)) :
          op \in Ops, s \in Sides, k \in Bases, d \in Offs}

Tag(t, op, v) == [a |-> "tag", tag |-> t, op |-> op, val |-> v]
Fld(op, n) == [a |-> "fld", op |-> op, n |-> n]
Bool(b) == [a |-> "bool", b |-> b]
Or(l, r) == [a |-> "or", l |-> l, r |-> r, par |-> TRUE]
\* NTLevel = 9: only parenthesised OR groups of two tag atoms (C18: the group must keep its parentheses
\* through every strip / fold / print / re-parse round)
OrGroups == {Or(Tag("t1", "=", "x"), Tag("t2", "=", "y")), Or(Tag("t1", "!=", "x"), Tag("t2", "=", "y")),
             Or(Tag("t1", "=", "x"), Tag("t1", "=", "y")), Or(Tag("t2", "!=", "y"), Tag("t1", "=", "y"))}
NTAlpha ==
  IF NTLevel = 9 THEN OrGroups ELSE
  {Tag("t1", "=", "x"), Or(Tag("t1", "=", "x"), Tag("t2", "=", "y")), Bool(TRUE)}
  \* OR groups with a nested OR that is constantly true (three-way OR, with and without inner parentheses):
  \* the residual of the inner group must absorb the outer OR, not vanish from it
  \cup (IF NTLevel >= 1 THEN {Or(Or(Bool(TRUE), Tag("t1", "=", "x")), Tag("t2", "=", "y")),
                              Or(Tag("t2", "=", "y"), Or(Tag("t1", "=", "x"), Bool(TRUE))),
                              Or([Or(Bool(TRUE), Bool(TRUE)) EXCEPT !.par = FALSE], Tag("t1", "=", "y"))} ELSE {})
  \cup (IF NTLevel >= 1 THEN {Tag("t2", "!=", "y"), Fld(">", 1), Bool(FALSE),
                              Or(Tag("t1", "=", "y"), Bool(FALSE)), Or(Fld("<=", 1), Tag("t2", "!=", "x"))} ELSE {})
  \cup (IF NTLevel >= 2 THEN {Tag(t, op, v) : t \in {"t1", "t2"}, op \in {"=", "!="}, v \in {"x", "y"}}
                             \cup {Fld("=", 2), Fld("<", 2), Or(Bool(TRUE), Tag("t2", "=", "x")),
                                   Or(Bool(FALSE), Bool(FALSE)), Or(Tag("t1", "!=", "x"), Fld(">=", 2))} ELSE {})

NTime(s) == Len(SelectSeq(s, IsTime))
\* FormMode = "tail" (C18): conditions that END in the pair of bounds SetTimeRange itself writes
\* ( time >= '<rfc>' AND time < '<rfc>' ) with another time bound - any operator, side, spelling, form -
\* and possibly a tag predicate in front of it: the shape a statement has when its author wrote a window
\* by hand after a bound of his own.  3 or 4 atoms: [T] [tag] lo hi, in both orders of the first two.
TailLo == {TAtom(">=", "L", "time", k, 0, "rfc") : k \in Bases}
TailHi == {TAtom("<", "L", "time", k, 0, "rfc") : k \in Bases}
TagX == Tag("t1", "=", "x")
TailAfter(s) ==
  CASE Len(s) = 0 -> TimeAlpha(1) \cup {TagX}
    [] Len(s) = 1 -> IF s[1] = TagX THEN TimeAlpha(2) ELSE {TagX} \cup TailLo
    [] Len(s) = 2 -> IF s[1] = TagX \/ s[2] = TagX THEN TailLo ELSE TailHi
    [] Len(s) = 3 -> IF s[1] = TagX \/ s[2] = TagX THEN TailHi ELSE {}
    [] OTHER -> {}
\* atoms that may follow the sequence s
AlphaAfter(s) == IF FormMode = "tail" THEN TailAfter(s)
                 ELSE (IF NTime(s) < MaxT THEN TimeAlpha(Len(s) + 1) ELSE {}) \cup NTAlpha
\* the conditions over the atom sequence s: one per parenthesisation
Conds(s) == {Fill(sh, s) : sh \in ShapesFor(Len(s), ShapeLevel)}
=============================================================================
