----------------------------- MODULE Judge_c10 -----------------------------
(* Pass V for C10: every recorded split of the real ConditionExpr is judged here.
   A record:  [id, c (symbolic condition tree), edge, na, nt,
               obs |-> [text, lo, hi, loT, hiT, loN, hiN, res + rt | nores]  |  [err] | [perr] | [panic]]
     lo / hi    TimeRange.Min / .Max as symbolic instants, Open for the zero time.Time,
                Unmappable for an instant that is not within 3 ns of a base
     loT / hiT  TimeRange.MinTime() / MaxTime()        (open ends defaulted by the code)
     loN / hiN  TimeRange.MinTimeNano() / MaxTimeNano()
     rt         truth of the residual under the real EvalBool for the 8 valuations (Cond!ValIdx)

   The verdict is the property itself: with the judge's own Holds for the original
   condition,  Holds(c, p) <=> p.t in [lo, hi] /\ residual(p)  at every grid point - for
   the raw range (open end = unbounded) and for the two accessor views.

   obs.more   the later calls: calls 2 and 3 on the SAME parsed expression and one call on a fresh
              parse, each [call, lo, hi, loT, hiT, loN, hiN, rt | nores, post (printed condition after
              the call), pre (fresh parse only)] or [call, err | panic];  obs.p0 / obs.p1 = printed
              condition before / after the first call.  Every call must satisfy the property
              (a failing later call has sig "call 2: ..." / "call fresh: ..."); a printed condition that
              a call changed is class condition-modified.

   Verdicts:  ok | panic | rejected-parse | rejected (ConditionExpr error on a condition of the
   property's domain) | unmappable | split-mismatch (sig: which parts differ from the design's
   split) | accessor-mismatch | drift:* (property holds, the code no longer computes what
   the design spec computes: reported, not an alarm)                                     *)
EXTENDS TimeSplit, Json, CSV, IOUtils

VARIABLES l, nt
vars == <<l, nt>>

Trace == ndJsonDeserialize(IOEnv.OBS_FILE)
Has(r, f) == f \in DOMAIN r

V(class, sig) == [ok |-> FALSE, class |-> class, sig |-> sig]
OK == [ok |-> TRUE, class |-> "ok", sig |-> ""]

\* the part of one call's observation that the property speaks about
Failed(o) == Has(o, "panic") \/ Has(o, "harness_panic") \/ Has(o, "perr") \/ Has(o, "err")
RtOf(o) == IF Has(o, "nores") THEN <<>> ELSE o.rt
Core(o) == <<o.lo, o.hi, o.loT, o.hiT, o.loN, o.hiN, RtOf(o)>>     \* only for a call that did not fail

\* the property on ONE call's observation o of the condition r.c (no drift classes here)
Judge1(r, o) ==
  IF Has(o, "panic") \/ Has(o, "harness_panic") THEN V("panic", "")
  ELSE IF Has(o, "perr") THEN V("rejected-parse", "")
  ELSE IF Has(o, "err") THEN V("rejected", "")
  ELSE IF \E e \in {o.lo, o.hi, o.loT, o.hiT, o.loN, o.hiN} : e.k = Unmappable.k THEN V("unmappable", "")
  ELSE
    LET rt == RtOf(o)
        d == DesignSplit(r.c)
        diff == (IF o.lo # d.lo THEN "min " ELSE "") \o (IF o.hi # d.hi THEN "max " ELSE "")
                \o (IF rt # d.rt THEN "residual" ELSE "")
        \* every grid point lies in [MinTime, MaxTime] (TimeSplit!ValidPoint), so a view whose ends are
        \* the raw ends with open replaced by MinTime / MaxTime selects the same grid points as the raw range
        effLo == IF IsOpen(o.lo) THEN LoDef ELSE o.lo
        effHi == IF IsOpen(o.hi) THEN HiDef ELSE o.hi
        \* the int64 view of a range end exists only for ends inside int64 (`time > 9223372036854775807` has
        \* Min = MaxInt64 + 1 ns, a valid time.Time whose UnixNano() is undefined): not judged beyond
        NanoRepr(i) == IsOpen(i) \/ ~EdgeMap \/ (Le(I(1, -3), i) /\ Le(i, I(4, 1)))
        ViewOK(lo, hi) == (lo = effLo /\ hi = effHi) \/ SplitOK(r.c, lo, hi, rt)
    IN IF ~SplitOK(r.c, o.lo, o.hi, rt) THEN V("split-mismatch", diff)
       ELSE IF ~ViewOK(o.loT, o.hiT) THEN V("accessor-mismatch", "MinTime()/MaxTime()")
       ELSE IF NanoRepr(o.lo) /\ NanoRepr(o.hi) /\ ~ViewOK(o.loN, o.hiN) THEN V("accessor-mismatch", "MinTimeNano()/MaxTimeNano()")
       ELSE OK

\* drift of the first call against the design spec (the property holds)
Drift(r, o) ==
  LET d == DesignSplit(r.c)
      rt == RtOf(o)
      diff == (IF o.lo # d.lo THEN "min " ELSE "") \o (IF o.hi # d.hi THEN "max " ELSE "")
  IN IF d.err # "" THEN V("drift:accepted", "")
     ELSE IF o.lo # d.lo \/ o.hi # d.hi THEN V("drift:range", diff)
     ELSE IF (IF Has(o, "nores") THEN d.res # Nil ELSE d.res = Nil \/ d.res # o.res) THEN V("drift:residual", "")
     ELSE OK

\* The property quantifies over conditions, not over "first calls on a fresh parse": every one of the
\* recorded calls - three on the same parsed expression, one on a fresh parse - must satisfy it.  A later
\* call whose observation equals the first call's is right iff the first is (nothing to re-evaluate).
\* Separately (class condition-modified): splitting must leave the caller's condition as it was -
\* its printed form before the first call equals the printed form after every call.
More(o) == IF Has(o, "more") THEN o.more ELSE <<>>
Verdict(r) ==
  LET o == r.obs IN
  IF r.edge # EdgeMap THEN V("machinery:edge-flag", "")
  ELSE
    LET v1 == Judge1(r, o)
        ms == More(o)
        \* (evaluated only when the first call is right, so the first call did not fail)
        bad == {k \in 1..Len(ms) : Failed(ms[k]) \/ (Core(ms[k]) # Core(o) /\ ~Judge1(r, ms[k]).ok)}
        printedBad == IF ~Has(o, "p0") THEN {}
                      ELSE (IF o.p1 # o.p0 THEN {0} ELSE {})
                           \cup {k \in 1..Len(ms) : Has(ms[k], "post")
                                                    /\ ms[k].post # (IF Has(ms[k], "pre") THEN ms[k].pre ELSE o.p0)}
    IN IF ~v1.ok THEN v1
       ELSE IF bad # {} THEN
              LET k == CHOOSE x \in bad : \A y \in bad : x <= y
                  vk == Judge1(r, ms[k])
              IN V(vk.class, "call " \o ms[k].call \o ": " \o vk.sig)
       ELSE IF printedBad # {} THEN
              LET k == CHOOSE x \in printedBad : \A y \in printedBad : x <= y
              IN V("condition-modified", "printed condition changed by call " \o (IF k = 0 THEN "1" ELSE ms[k].call))
       ELSE Drift(r, o)

\* non-trivial: the split has something to separate - a time bound next to another atom
NonTrivial(r) == r.nt >= 1 /\ r.na >= 2

Init == l = 1 /\ nt = 0
Step == /\ l <= Len(Trace)
        /\ LET r == Trace[l] v == Verdict(r) IN
             /\ IF v.ok THEN TRUE
                ELSE CSVWrite("%1$s", <<ToJson([id |-> r.id, class |-> v.class, sig |-> v.sig])>>, IOEnv.VERDICT_FILE)
             /\ nt' = nt + (IF NonTrivial(r) THEN 1 ELSE 0)
        /\ l' = l + 1
Finish == /\ l = Len(Trace) + 1
          /\ CSVWrite("%1$s", <<ToJson([judged |-> Len(Trace), nontrivial |-> nt])>>, IOEnv.STATS_FILE)
          /\ l' = l + 1 /\ UNCHANGED nt
Next == Step \/ Finish
Spec == Init /\ [][Next]_vars
\* the whole observation file was consumed: one state per record + initial + Finish
Accepted == TLCGet("stats").diameter = Len(Trace) + 2
=============================================================================
