------------------------------ MODULE Gen_c10 ------------------------------
(* Pass M + G for C10.  TLC enumerates conditions atom by atom (alphabet: Alpha.tla);
   for every sequence of atoms and every parenthesisation (Cond!ShapesFor) it
     - checks that the transcribed design (TimeSplit!DesignSplit) satisfies the property
       (TimeSplit!SplitOK) at every point of the grid            (invariant DesignAgrees),
     - emits the condition as token records + its symbolic tree as one case for the real
       ConditionExpr.                                                                   *)
EXTENDS Alpha, Json, CSV, IOUtils

CONSTANT MinEmit     \* conditions with fewer atoms are checked (M) but not emitted (another part emits them)

VARIABLES atoms
vars == <<atoms>>

CaseFile == IOEnv.CASE_FILE

Emit(c) == CSVWrite("%1$s", <<ToJson([c |-> c, toks |-> Toks(c), edge |-> EdgeMap,
                                      na |-> Len(AtomsOf(c)), nt |-> Len(TimeAtomsOf(c))])>>, CaseFile)

Init == atoms = <<>>
Step == /\ Len(atoms) < MaxAtoms
        /\ \E x \in AlphaAfter(atoms) :
             /\ atoms' = Append(atoms, x)
             /\ IF Len(atoms) + 1 >= MinEmit THEN \A c \in Conds(Append(atoms, x)) : Emit(c) ELSE TRUE
Next == Step
Spec == Init /\ [][Next]_vars

\* M: the design satisfies the property on every condition over the atoms so far
DesignAgrees == \A c \in Conds(atoms) : DesignOK(c)
=============================================================================
