SPECIFICATION Spec
CONSTANTS
  EdgeMap = FALSE
POSTCONDITION Accepted
CHECK_DEADLOCK FALSE
