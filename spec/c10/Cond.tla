-------------------------------- MODULE Cond --------------------------------
(* Vocabulary shared by C10 (TimeSplit) and C18 (SetRange): symbolic instants,
   WHERE conditions as trees over atoms, points, the truth definition Holds
   (the property side), token rendering and the lowering to AST records.

   Instants are symbolic (DESIGN.md 3.3): [k |-> base, d |-> offset in ns] means
   "base instant k plus d nanoseconds".  Bases are far apart (the driver maps them
   to real timestamps years apart), offsets are tiny, so the order is lexicographic.
   The only arithmetic is +-1 ns (Shift) and comparison.

   Atoms
     [a |-> "time", op, side, sp, k, d, f]   side "L":  <time> op <lit>   side "R":  <lit> op <time>
                                             sp  spelling of the time column: "time" "Time" "TIME" "qtime" ("time" quoted)
                                             f   literal form: "int" ns | "rfc" RFC3339Nano | "dt" 'YYYY-MM-DD hh:mm:ss.n'
                                                 | "date" | "dur" duration since epoch | "now" now() +- duration
     [a |-> "tag", tag, op, val]             tag op 'val'      op in {"=", "!="}
     [a |-> "fld", op, n]                    v op n            integer field v
     [a |-> "bool", b]                       true / false
     [a |-> "or", l, r, par]                 ( l OR r )  over non-time atoms; par = FALSE only as a whole condition
   Trees
     [n |-> "leaf", x] | [n |-> "and", l, r] | [n |-> "par", e] | [n |-> "or", l, r]
   An "or" node is an unparenthesised OR of non-time sub-trees standing above every "and" of its
   parenthesis level (`a OR b AND c` parses as a OR (b AND c)); C18 uses it for bare top-level ORs.
   `a AND b AND c` parses left-associatively, so an "and" node never has an
   unparenthesised "and" as its right child (ShapesFor only builds such trees).    *)
EXTENDS Naturals, Integers, Sequences, FiniteSets, TLC, Tok, Ast

\* ------------------------------------------------------------------ instants
I(k, d) == [k |-> k, d |-> d]
Lt(a, b) == a.k < b.k \/ (a.k = b.k /\ a.d < b.d)
Le(a, b) == ~Lt(b, a)
Shift(a, n) == [k |-> a.k, d |-> a.d + n]

\* x rel y for the five comparison operators of the property
Rel(op, x, y) == CASE op = "="  -> x = y
                   [] op = "<"  -> Lt(x, y)
                   [] op = "<=" -> Le(x, y)
                   [] op = ">"  -> Lt(y, x)
                   [] op = ">=" -> Le(y, x)

\* ------------------------------------------------------------------- points
\* a valuation of the non-time columns; a point is [t |-> instant, v |-> valuation]
Vals == [t1 : {"x", "y"}, t2 : {"x", "y"}, v : {1, 2}]
\* position of a valuation in the truth tables the driver logs (same nesting order there)
ValIdx(val) == 1 + (IF val.t1 = "y" THEN 4 ELSE 0) + (IF val.t2 = "y" THEN 2 ELSE 0) + (IF val.v = 2 THEN 1 ELSE 0)

\* -------------------------------------------------------------------- trees
Leaf(x) == [n |-> "leaf", x |-> x]
And(l, r) == [n |-> "and", l |-> l, r |-> r]
Par(e) == [n |-> "par", e |-> e]
OrT(l, r) == [n |-> "or", l |-> l, r |-> r]

RECURSIVE AtomsOf(_)
AtomsOf(c) == CASE c.n = "leaf" -> <<c.x>>
                [] c.n \in {"and", "or"} -> AtomsOf(c.l) \o AtomsOf(c.r)
                [] c.n = "par" -> AtomsOf(c.e)
IsTime(x) == x.a = "time"
TimeAtomsOf(c) == SelectSeq(AtomsOf(c), IsTime)
SeqRange(s) == {s[i] : i \in 1..Len(s)}

\* ---------------------------------------------------- the property's truth
\* truth of one atom at a point; with noTime the time comparisons count as true
\* ("the non-time part of the condition", C18)
RECURSIVE HoldsAtom(_, _, _, _)
HoldsAtom(x, t, val, noTime) ==
  CASE x.a = "time" -> IF noTime THEN TRUE
                       ELSE IF x.side = "L" THEN Rel(x.op, t, I(x.k, x.d)) ELSE Rel(x.op, I(x.k, x.d), t)
    [] x.a = "tag"  -> IF x.op = "=" THEN val[x.tag] = x.val ELSE val[x.tag] # x.val
    [] x.a = "fld"  -> (CASE x.op = "=" -> val.v = x.n [] x.op = "!=" -> val.v # x.n
                          [] x.op = "<" -> val.v < x.n [] x.op = "<=" -> val.v <= x.n
                          [] x.op = ">" -> val.v > x.n [] x.op = ">=" -> val.v >= x.n)
    [] x.a = "bool" -> x.b
    [] x.a = "or"   -> HoldsAtom(x.l, t, val, noTime) \/ HoldsAtom(x.r, t, val, noTime)

RECURSIVE HoldsG(_, _, _, _)
HoldsG(c, t, val, noTime) ==
  CASE c.n = "leaf" -> HoldsAtom(c.x, t, val, noTime)
    [] c.n = "and"  -> HoldsG(c.l, t, val, noTime) /\ HoldsG(c.r, t, val, noTime)
    [] c.n = "or"   -> HoldsG(c.l, t, val, noTime) \/ HoldsG(c.r, t, val, noTime)
    [] c.n = "par"  -> HoldsG(c.e, t, val, noTime)

\* Holds(cond, point): the direct recursive truth definition
Holds(c, p) == HoldsG(c, p.t, p.v, FALSE)
\* the non-time part of a condition on a valuation
HoldsNT(c, val) == HoldsG(c, I(0, 0), val, TRUE)

\* ---------------------------------------------------------------- rendering
\* the symbolic time literal token; the driver replaces it by concrete tokens
TL(k, d, f) == [t |-> "tlit", k |-> k, d |-> d, f |-> f, g |-> "L"]
SpTok(sp) == IF sp = "qtime" THEN QId("time") ELSE Id(sp)
TightFirst(ts) == <<[ts[1] EXCEPT !.g = "T"]>> \o SubSeq(ts, 2, Len(ts))

RECURSIVE AtomToks(_)
AtomToks(x) ==
  CASE x.a = "time" -> IF x.side = "L" THEN <<SpTok(x.sp), P(x.op), TL(x.k, x.d, x.f)>>
                       ELSE <<TL(x.k, x.d, x.f), P(x.op), SpTok(x.sp)>>
    [] x.a = "tag"  -> <<Id(x.tag), P(x.op), Str(x.val)>>
    [] x.a = "fld"  -> <<Id("v"), P(x.op), [t |-> "int", s |-> ToString(x.n), g |-> "L"]>>
    [] x.a = "bool" -> <<Kw(IF x.b THEN "true" ELSE "false")>>
    [] x.a = "or"   -> LET inner == AtomToks(x.l) \o <<Kw("OR")>> \o AtomToks(x.r)
                       IN IF x.par THEN <<P("(")>> \o TightFirst(inner) \o <<PT(")")>> ELSE inner

RECURSIVE Toks(_)
Toks(c) == CASE c.n = "leaf" -> AtomToks(c.x)
             [] c.n = "and" -> Toks(c.l) \o <<Kw("AND")>> \o Toks(c.r)
             [] c.n = "or" -> Toks(c.l) \o <<Kw("OR")>> \o Toks(c.r)
             [] c.n = "par" -> <<P("(")>> \o TightFirst(Toks(c.e)) \o <<PT(")")>>

\* ----------------------------------------------------------------- lowering
\* the AST the parser builds for the rendered text (Ast.tla records).  A time literal
\* stays symbolic:  [k |-> "TLit", i |-> instant, f |-> form]
TLit(k, d, f) == [k |-> "TLit", i |-> I(k, d), f |-> f]
SpVal(sp) == IF sp = "qtime" THEN "time" ELSE sp

RECURSIVE LowerAtom(_)
LowerAtom(x) ==
  CASE x.a = "time" -> IF x.side = "L" THEN Bin(x.op, Ref(SpVal(x.sp)), TLit(x.k, x.d, x.f))
                       ELSE Bin(x.op, TLit(x.k, x.d, x.f), Ref(SpVal(x.sp)))
    [] x.a = "tag"  -> Bin(x.op, Ref(x.tag), StrL(x.val))
    [] x.a = "fld"  -> Bin(x.op, Ref("v"), IntL(ToString(x.n)))
    [] x.a = "bool" -> BoolL(x.b)
    [] x.a = "or"   -> LET b == Bin("OR", LowerAtom(x.l), LowerAtom(x.r)) IN IF x.par THEN Paren(b) ELSE b

RECURSIVE Lower(_)
Lower(c) == CASE c.n = "leaf" -> LowerAtom(c.x)
              [] c.n = "and" -> Bin("AND", Lower(c.l), Lower(c.r))
              [] c.n = "or" -> Bin("OR", Lower(c.l), Lower(c.r))
              [] c.n = "par" -> Paren(Lower(c.e))

\* ------------------------------------------------------------------- shapes
\* parenthesisations of n atoms: trees whose leaves are positions 1..n in order
L_(i) == [n |-> "leaf", x |-> i]
ShapesFor(n, level) ==
  CASE n = 1 -> IF level = 0 THEN {L_(1)} ELSE {L_(1), Par(L_(1))}
    [] n = 2 -> {And(L_(1), L_(2))}
                \cup (IF level >= 1 THEN {And(L_(1), Par(L_(2))), Par(And(L_(1), L_(2)))} ELSE {})
                \cup (IF level >= 2 THEN {And(Par(L_(1)), L_(2)), Par(Par(And(L_(1), L_(2))))} ELSE {})
    [] n = 3 -> {And(And(L_(1), L_(2)), L_(3))}
                \cup (IF level >= 1 THEN {And(L_(1), Par(And(L_(2), L_(3))))} ELSE {})
                \cup (IF level >= 2 THEN {And(Par(And(L_(1), L_(2))), L_(3)), And(And(L_(1), Par(L_(2))), L_(3)),
                                          Par(And(And(L_(1), L_(2)), L_(3)))} ELSE {})
    [] n = 4 -> {And(And(And(L_(1), L_(2)), L_(3)), L_(4))}
                \cup (IF level >= 1 THEN {And(And(L_(1), L_(2)), Par(And(L_(3), L_(4))))} ELSE {})
                \cup (IF level >= 2 THEN {And(L_(1), Par(And(L_(2), Par(And(L_(3), L_(4)))))),
                                          And(And(L_(1), Par(And(L_(2), L_(3)))), L_(4)),
                                          And(Par(And(And(L_(1), L_(2)), L_(3))), L_(4))} ELSE {})
    [] OTHER -> {}

RECURSIVE Fill(_, _)
Fill(sh, atoms) == CASE sh.n = "leaf" -> Leaf(atoms[sh.x])
                     [] sh.n = "and" -> And(Fill(sh.l, atoms), Fill(sh.r, atoms))
                     [] sh.n = "par" -> Par(Fill(sh.e, atoms))
=============================================================================
