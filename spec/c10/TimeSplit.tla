----------------------------- MODULE TimeSplit -----------------------------
(* C10 - splitting a WHERE clause into a time range and a residual condition.

   (P) the property, read literally.  A split is a time range (inclusive, either end
       possibly open) and a residual (possibly missing).  SplitOK(c, lo, hi, res, ...)
       says: for every point of the grid,
            Holds(c, point)  <=>  lo <= point.t <= hi  /\  residual holds at point
       where a missing residual means true.  Holds is Cond!Holds, the direct truth
       definition; nothing here knows how the code computes a split.

   (D) the design: ast.go ConditionExpr / conditionExpr / getTimeRange /
       TimeRange.Intersect and the part of reduce() that they reach, transcribed on
       AST records (Cond!Lower) with symbolic instants.  TimeRange ends are an instant
       or Open (the zero time.Time).

   CONSTANT EdgeMap: FALSE - bases 1..4 are ordinary instants, MinTime / MaxTime are the
   pseudo-bases 0 and 5.  TRUE - base 1 is MinTime+1 and base 4 is MaxTime (the smallest
   and largest time literals conditionExpr accepts); MinTime is (1,-1).               *)
EXTENDS Cond

CONSTANT EdgeMap

\* ------------------------------------------------------- valid point instants
\* points exist only inside [MinTime, MaxTime]
LoDef == IF EdgeMap THEN I(1, -1) ELSE I(0, 0)    \* MinTime: what an open lower end defaults to
HiDef == IF EdgeMap THEN I(4, 0) ELSE I(5, 0)     \* MaxTime
ValidPoint(t) == Le(LoDef, t) /\ Le(t, HiDef)
\* time literals the splitter accepts in string / now()-relative form
LitInRange(i) == Le(Shift(LoDef, 1), i) /\ Le(i, HiDef)

\* instants "at and one nanosecond around" every bound of the condition, plus the two ends
\* of the time line and one instant in the middle
Around(i) == {Shift(i, -1), i, Shift(i, 1)}
GridOf(insts) == {t \in UNION {Around(i) : i \in insts} \cup {LoDef, Shift(LoDef, 1), Shift(HiDef, -1), HiDef, I(2, 7)} :
                    ValidPoint(t)}
BoundsOf(c) == {I(x.k, x.d) : x \in SeqRange(TimeAtomsOf(c))}
Grid(c) == GridOf(BoundsOf(c))

\* ================================================================ (P) property
\* lo / hi are instants or Open (no bound on that side; in the code the zero time.Time);
\* rt is the residual's truth table indexed by ValIdx, or <<>> for a missing residual
Open == [k |-> -9, d |-> 0]
IsOpen(i) == i.k = -9
Unmappable == [k |-> -8, d |-> 0]             \* an observed instant that is no (k, d) with |d| <= 3
InRange(lo, hi, t) == (IsOpen(lo) \/ Le(lo, t)) /\ (IsOpen(hi) \/ Le(t, hi))
ResTruth(rt, val) == IF rt = <<>> THEN TRUE ELSE rt[ValIdx(val)]
SplitOKAt(c, lo, hi, rt, t, val) ==
  Holds(c, [t |-> t, v |-> val]) <=> (InRange(lo, hi, t) /\ ResTruth(rt, val))
SplitOK(c, lo, hi, rt) == \A t \in Grid(c) : \A val \in Vals : SplitOKAt(c, lo, hi, rt, t, val)

\* ================================================================== (D) design
OpenTR == [min |-> Open, max |-> Open]
Nil == [k |-> "nil"]

\* TimeRange.Intersect
Intersect(t, o) ==
  [min |-> IF ~IsOpen(o.min) /\ (IsOpen(t.min) \/ Lt(t.min, o.min)) THEN o.min ELSE t.min,
   max |-> IF ~IsOpen(o.max) /\ (IsOpen(t.max) \/ Lt(o.max, t.max)) THEN o.max ELSE t.max]

IsTrueL(e) == e.k = "BooleanLiteral" /\ e.Val
IsFalseL(e) == e.k = "BooleanLiteral" /\ ~e.Val

\* reduce(expr, nil) on the node kinds that occur in conditions of the property's domain:
\* AND / OR with boolean-literal folding, parentheses kept only around a BinaryExpr
RECURSIVE Reduce_(_)
Reduce_(e) ==
  CASE e.k = "BinaryExpr" ->
         LET l == Reduce_(e.LHS)
             r == Reduce_(e.RHS)
         IN IF e.Op = "AND" THEN
              IF IsFalseL(l) \/ IsFalseL(r) THEN BoolL(FALSE)
              ELSE IF IsTrueL(l) THEN r ELSE IF IsTrueL(r) THEN l ELSE Bin("AND", l, r)
            ELSE IF e.Op = "OR" THEN
              IF IsTrueL(l) \/ IsTrueL(r) THEN BoolL(TRUE)
              ELSE IF IsFalseL(l) THEN r ELSE IF IsFalseL(r) THEN l ELSE Bin("OR", l, r)
            ELSE Bin(e.Op, l, r)
    [] e.k = "ParenExpr" -> LET s == Reduce_(e.Expr) IN IF s.k = "BinaryExpr" THEN Paren(s) ELSE s
    [] OTHER -> e
\* Reduce(): reduce, then unwrap parentheses at top level
ReduceTop(e) == LET r == Reduce_(e) IN IF r.k = "ParenExpr" THEN r.Expr ELSE r

IsTimeRef(e) == e.k = "VarRef" /\ e.Val \in {"time", "Time", "TIME"}    \* strings.ToLower(Val) == "time"
SwapOp(op) == CASE op = ">" -> "<" [] op = "<" -> ">" [] op = ">=" -> "<=" [] op = "<=" -> ">=" [] OTHER -> op

Res(res, tr) == [res |-> res, tr |-> tr, err |-> ""]
Err(s) == [res |-> Nil, tr |-> OpenTR, err |-> s]

\* getTimeRange: the operand must reduce to a time / duration / integer literal
GetTimeRange(op, lit) ==
  IF lit.k # "TLit" THEN Err("incompatible")
  ELSE IF lit.f \in {"rfc", "rfcfar", "dt", "date", "now", "intm", "intp", "rfcm", "rfcp", "revrfc", "revdt", "revint"} /\ ~LitInRange(lit.i) THEN Err("out-of-range")
  ELSE LET v == lit.i IN
       CASE op = ">"  -> Res(Nil, [min |-> Shift(v, 1), max |-> Open])
         [] op = ">=" -> Res(Nil, [min |-> v, max |-> Open])
         [] op = "<"  -> Res(Nil, [min |-> Open, max |-> Shift(v, -1)])
         [] op = "<=" -> Res(Nil, [min |-> Open, max |-> v])
         [] op = "="  -> Res(Nil, [min |-> v, max |-> v])
         [] OTHER -> Err("operator")

RECURSIVE CE(_)
CE(e) ==
  CASE e.k = "BinaryExpr" ->
         IF e.Op \in {"AND", "OR"} THEN
           LET L == CE(e.LHS) IN
           IF L.err # "" THEN Err(L.err) ELSE
           LET R == CE(e.RHS) IN
           IF R.err # "" THEN Err(R.err) ELSE
           LET tr == Intersect(L.tr, R.tr) IN
           IF R.res = Nil THEN Res(L.res, tr)
           ELSE IF L.res = Nil THEN Res(R.res, tr)
           ELSE Res(Reduce_(Bin(e.Op, L.res, R.res)), tr)
         ELSE IF IsTimeRef(e.LHS) THEN GetTimeRange(e.Op, e.RHS)
         ELSE IF IsTimeRef(e.RHS) THEN GetTimeRange(SwapOp(e.Op), e.LHS)
         ELSE Res(Reduce_(e), OpenTR)
    [] e.k = "ParenExpr" ->
         LET r == CE(e.Expr) IN
         IF r.err # "" THEN Err(r.err)
         ELSE IF r.res = Nil THEN Res(Nil, r.tr)
         ELSE Res(Reduce_(Paren(r.res)), r.tr)
    [] e.k = "BooleanLiteral" -> Res(e, OpenTR)
    [] OTHER -> Err("invalid")

\* ConditionExpr: drop top-level parentheses, `true` becomes "no condition"
CondExpr(e) ==
  LET r == CE(e) IN
  IF r.err # "" THEN r
  ELSE LET x == IF r.res # Nil /\ r.res.k = "ParenExpr" THEN r.res.Expr ELSE r.res
       IN Res(IF x # Nil /\ IsTrueL(x) THEN Nil ELSE x, r.tr)

\* truth of a residual AST on a valuation (what EvalBool computes); only used to check the
\* design - the judge takes the truth table from the real EvalBool
NumOf(s) == CASE s = "0" -> 0 [] s = "1" -> 1 [] s = "2" -> 2 [] s = "3" -> 3
RECURSIVE EvalB(_, _)
EvalB(e, val) ==
  CASE e.k = "BinaryExpr" ->
         IF e.Op = "AND" THEN EvalB(e.LHS, val) /\ EvalB(e.RHS, val)
         ELSE IF e.Op = "OR" THEN EvalB(e.LHS, val) \/ EvalB(e.RHS, val)
         ELSE IF IsTimeRef(e.LHS) \/ IsTimeRef(e.RHS) \/ e.LHS.k # "VarRef" THEN FALSE   \* never reached for a residual
         ELSE IF e.RHS.k = "StringLiteral" THEN
                (IF e.Op = "=" THEN val[e.LHS.Val] = e.RHS.Val ELSE val[e.LHS.Val] # e.RHS.Val)
         ELSE LET a == val[e.LHS.Val] b == NumOf(e.RHS.Val) IN
              (CASE e.Op = "=" -> a = b [] e.Op = "!=" -> a # b [] e.Op = "<" -> a < b
                 [] e.Op = "<=" -> a <= b [] e.Op = ">" -> a > b [] e.Op = ">=" -> a >= b)
    [] e.k = "ParenExpr" -> EvalB(e.Expr, val)
    [] e.k = "BooleanLiteral" -> e.Val
    [] OTHER -> FALSE

\* the design's split in the vocabulary of (P)
ValSeq == [j \in 1..8 |-> CHOOSE val \in Vals : ValIdx(val) = j]
TruthTable(res) == IF res = Nil THEN <<>> ELSE [j \in 1..8 |-> EvalB(res, ValSeq[j])]
DesignSplit(c) == LET r == CondExpr(Lower(c)) IN
                  [err |-> r.err, lo |-> r.tr.min, hi |-> r.tr.max, res |-> r.res,
                   rt |-> IF r.err = "" THEN TruthTable(r.res) ELSE <<>>]
\* pass M: the design satisfies the property on condition c
DesignOK(c) == LET s == DesignSplit(c) IN s.err = "" /\ SplitOK(c, s.lo, s.hi, s.rt)
=============================================================================
