----------------------------- MODULE Judge_c04 -----------------------------
(* Pass V for C04 - parsing is total.  Every record is one input run through the real
   ParseQuery, ParseStatement and ParseExpr (with its parameter binding) under `recover`
   and under a step budget counted by the scanner hooks; without parameters also through the package-level
   helpers that take the text as a string (query_s, stmt_s, expr_s).

   Property, per entry point:   outcome \in {ok, err}            (a result XOR an error)
                                ok => String / Walk / Clone of the result did not panic
   classes: panic, hang (step budget exceeded / watchdog), bad-shape (neither a result nor an
            error), result-unusable.  A non-nil partial result returned TOGETHER with an error
            (SHOW STATS FOR <non-string>) still "returns an error": reported as drift, no alarm.
   Growth records (family at size L and 2L): steps(2L) <= 2*steps(L)*(1+1/8) + 64.
            class nonlinear.
   Model records carry the design spec's verdict `mok` for ParseExpr: disagreement is
   drift:model; ring discipline beyond the design's bound (2) is drift:ring.             *)
EXTENDS Naturals, Integers, Sequences, TLC, Json, CSV, IOUtils

VARIABLES l, nt
vars == <<l, nt>>
Trace == ndJsonDeserialize(IOEnv.OBS_FILE)
Has(r, f) == f \in DOMAIN r
V(c, s) == [class |-> c, sig |-> s]

Entry(o, name) ==
  IF o.out = "panic" THEN {V("panic", name)}
  ELSE IF o.out = "budget" THEN {V("hang", name)}
  ELSE IF o.out = "neither" THEN {V("bad-shape", name)}
  ELSE IF o.out = "both" THEN {V("drift:result-with-error", name)}   \* an error was returned; the partial result beside it is to be ignored
  ELSE IF o.out = "ok" /\ o.post # "ok" THEN {V("result-unusable", name)}
  ELSE IF o.out \in {"ok", "err"} THEN {}
  ELSE {V("bad-shape", name)}

\* records of the Grammar corpus (valid statements) carry no part name
PartOf(r) == IF Has(r, "part") THEN r.part ELSE "grammar"
Ring(o) == IF o.maxn > 2 \/ o.tmaxn > 2 \/ Has(o, "tbad") THEN {V("drift:ring", "")} ELSE {}

Verdicts(r) ==
  LET o == r.obs IN
  IF Has(o, "harness_panic") THEN {V("panic", "harness")}
  ELSE IF Has(o, "hang") THEN {V("hang", "watchdog")}
  ELSE IF PartOf(r) = "grow" THEN
       LET base == Entry(o.r1, "grow") \cup Entry(o.r2, "grow") IN
       IF base # {} THEN base
       ELSE IF 8 * o.r2.steps > 18 * o.r1.steps + 512 THEN {V("nonlinear", r.family)} ELSE {}
  ELSE
  LET helpers == IF Has(o, "query_s") THEN Entry(o.query_s, "ParseQuery(string)") \cup Entry(o.stmt_s, "ParseStatement(string)") \cup Entry(o.expr_s, "ParseExpr(string)") ELSE {}
      reuse == IF Has(o, "reuse") THEN Entry(o.reuse, "a parser used again after the end of its input") ELSE {}
      hard == reuse \cup Entry(o.query, "ParseQuery") \cup Entry(o.stmt, "ParseStatement") \cup Entry(o.expr, "ParseExpr") \cup helpers IN
  IF hard # {} THEN hard
  ELSE LET ring == Ring(o.query) \cup Ring(o.stmt) \cup Ring(o.expr)
           model == IF PartOf(r) = "model" /\ (r.mok # (o.expr.out = "ok")) THEN {V("drift:model", "")} ELSE {}
       IN ring \cup model

\* non-trivial: at least one entry point accepted the input, or it is a growth/mutation record
NonTrivial(r) == IF PartOf(r) \in {"grow", "mut"} THEN TRUE
                 ELSE IF Has(r.obs, "expr") THEN r.obs.expr.out = "ok" \/ r.obs.stmt.out = "ok" \/ r.obs.query.out = "ok"
                 ELSE FALSE

Init == l = 1 /\ nt = 0
Step == /\ l <= Len(Trace)
        /\ LET r == Trace[l] IN
             /\ \A v \in Verdicts(r) : CSVWrite("%1$s", <<ToJson([id |-> r.id, class |-> v.class, sig |-> v.sig])>>, IOEnv.VERDICT_FILE)
             /\ nt' = nt + (IF NonTrivial(r) THEN 1 ELSE 0)
        /\ l' = l + 1
Finish == /\ l = Len(Trace) + 1
          /\ CSVWrite("%1$s", <<ToJson([judged |-> Len(Trace), nontrivial |-> nt])>>, IOEnv.STATS_FILE)
          /\ l' = l + 1 /\ UNCHANGED nt
Next == Step \/ Finish
Spec == Init /\ [][Next]_vars
Accepted == TLCGet("stats").diameter = Len(Trace) + 2
=============================================================================
