------------------------------ MODULE Gen_c04w ------------------------------
(* C04 pass G: inputs for the totality claim.
   part "seq"    every sequence of at most N "wild" token spellings (valid tokens, bad strings,
                 bad escapes, open comments, stray $, out-of-range numbers ...), written
                 all-tight and all-spaced, and - when a $p placeholder occurs - once per
                 parameter binding kind
   part "mut"    every single-token mutation (delete, duplicate, swap with neighbour,
                 truncate here, replace by each wild spelling) of the base statements
   part "grow"   scalable input families at doubling sizes (judged for linear growth)     *)
EXTENDS Naturals, Sequences, TLC, Json, CSV, IOUtils

CONSTANTS N, Part, Sizes

Wild == <<"a", "\"a b\"", "select", "from", "where", "'s'", "'s", "'\\q'", "\"", "1", "9223372036854775808",
          "99999999999999999999", "1.5", "1s", "1x", "99999999999999999999w", "true", "/r/", "/", "*", "+", "-", "=", "=~", "!",
          "and", "or", "(", ")", ",", ";", ".", "..", ":", "::", "$p", "$", "$select", "/* c */", "/* c", "-- c\n", "#", "é", "\n", "\r\n",
          "''", "\"\"", "//", "\r", "0", "0s", "-1", "/[/", "/a(/">>
WildSet == {Wild[i] : i \in 1..Len(Wild)}

Bindings == {"none", "empty", "str", "str_kw", "str_inject", "float", "float_huge", "int", "int_min", "bool_t", "bool_f",
             "dur_str", "dur_bad", "dur_overflow", "dur_int", "regex", "regex_bad", "ident", "ident_kw", "ident_empty",
             "obj_string", "obj_float_int", "obj_int", "obj_int_wrongtype", "json_int", "json_float", "json_bad", "json_bigint",
             "obj_two", "obj_unknown", "unbindable", "nil", "other_name",
             "dur_cut_micro", "dur_micro_only", "dur_digits_last", "dur_ff", "str_badutf8", "regex_badutf8", "ident_badutf8"}

FewBindings == {"none", "str_inject", "int", "regex", "regex_bad", "ident_kw", "dur_bad", "unbindable", "dur_cut_micro"}

\* base statements as spelled tokens (tight pieces are pre-joined)
Base == <<
  <<"SELECT", "mean(v)", "AS", "m1", ",", "x", "INTO", "db..tgt", "FROM", "db.rp.m", ",", "(", "SELECT", "v", "FROM", "n", ")", "WHERE", "h", "=", "'x'", "AND", "time", ">", "now()", "-", "1h", "GROUP", "BY", "time(1m)", ",", "h", "fill(0)", "ORDER", "BY", "time", "DESC", "LIMIT", "1", "OFFSET", "2", "SLIMIT", "3", "SOFFSET", "4", "tz('UTC')">>,
  <<"SELECT", "*::field", ",", "/re/", "FROM", "/m.*/", "WHERE", "h", "=~", "/a/", "OR", "(", "v", "+", "1", ")", "*", "-x", ">=", "$p">>,
  <<"SELECT", "DISTINCT", "v", "FROM", "m", "GROUP", "BY", "*">>,
  <<"DELETE", "FROM", "m", "WHERE", "time", "<", "'2000-01-01'">>,
  <<"SHOW", "TAG", "VALUES", "ON", "db", "FROM", "m", "WITH", "KEY", "IN", "(", "a", ",", "b", ")", "WHERE", "h", "!=", "'x'", "LIMIT", "1">>,
  <<"SHOW", "MEASUREMENTS", "ON", "*.*", "WITH", "MEASUREMENT", "=~", "/m/", "LIMIT", "5">>,
  <<"SHOW", "SERIES", "EXACT", "CARDINALITY", "ON", "db", "FROM", "m", "GROUP", "BY", "h">>,
  <<"SHOW", "FIELD", "KEYS", "ON", "db", "FROM", "m", "ORDER", "BY", "ASC">>,
  <<"CREATE", "DATABASE", "d", "WITH", "DURATION", "1d", "REPLICATION", "1", "SHARD", "DURATION", "1h", "NAME", "rp">>,
  <<"CREATE", "RETENTION", "POLICY", "rp", "ON", "d", "DURATION", "INF", "REPLICATION", "2", "SHARD", "DURATION", "30m", "DEFAULT">>,
  <<"ALTER", "RETENTION", "POLICY", "rp", "ON", "d", "REPLICATION", "3", "DURATION", "2d", "DEFAULT">>,
  <<"CREATE", "CONTINUOUS", "QUERY", "cq", "ON", "d", "RESAMPLE", "EVERY", "10s", "FOR", "2m", "BEGIN", "SELECT", "mean(v)", "INTO", "t", "FROM", "m", "GROUP", "BY", "time(1m)", "END">>,
  <<"CREATE", "USER", "u", "WITH", "PASSWORD", "'pw'", "WITH", "ALL", "PRIVILEGES">>,
  <<"SET", "PASSWORD", "FOR", "u", "=", "'pw'">>,
  <<"CREATE", "SUBSCRIPTION", "s", "ON", "d.rp", "DESTINATIONS", "ANY", "'udp://h:1'", ",", "'udp://h:2'">>,
  <<"GRANT", "ALL", "PRIVILEGES", "ON", "d", "TO", "u">>,
  <<"REVOKE", "READ", "ON", "d", "FROM", "u">>,
  <<"DROP", "SERIES", "FROM", "m", "WHERE", "h", "=", "'x'">>,
  <<"DROP", "SHARD", "7">>,
  <<"KILL", "QUERY", "4", "ON", "host">>,
  <<"EXPLAIN", "ANALYZE", "VERBOSE", "SELECT", "v", "FROM", "m">>,
  <<"SHOW", "STATS", "FOR", "'mod'">>,
  <<"DROP", "SUBSCRIPTION", "s", "ON", "d.rp">>,
  <<"SHOW", "GRANTS", "FOR", "u">>
>>

\* base statements spelled token by token, every gap tight (blanks are tokens of their own):
\* mutations reach inside tight constructs ( *::field, v::float, db.rp.m, f(x), time(1m) )
TBase == <<
  <<"SELECT", " ", "*", "::", "field", ",", " ", "v", "::", "float", ",", "count", "(", "*", "::", "tag", ")", " ", "FROM", " ", "db", ".", "rp", ".", "m", ",", " ", "db", ".", ".", "m", " ", "WHERE", " ", "h", "=~", "/a/", " ", "GROUP", " ", "BY", " ", "time", "(", "1m", ",", "10s", ")", ",", "h", "::", "tag", " ", "fill", "(", "-", "1", ")">>,
  <<"SELECT", " ", "top", "(", "v", ",", "h", ",", "2", ")", " ", "INTO", " ", "db", ".", "rp", ".", ":", "MEASUREMENT", " ", "FROM", " ", "/m/", " ", "ORDER", " ", "BY", " ", "time", " ", "DESC", " ", "tz", "(", "'UTC'", ")">>,
  <<"SHOW", " ", "TAG", " ", "VALUES", " ", "ON", " ", "db", " ", "FROM", " ", "rp", ".", "/m/", " ", "WITH", " ", "KEY", " ", "IN", " ", "(", "a", ",", "b", ")">>,
  <<"SHOW", " ", "MEASUREMENTS", " ", "ON", " ", "*", ".", "*", " ", "WITH", " ", "MEASUREMENT", " ", "=~", " ", "/m/">>,
  <<"CREATE", " ", "SUBSCRIPTION", " ", "s", " ", "ON", " ", "db", ".", "rp", " ", "DESTINATIONS", " ", "ALL", " ", "'a'", ",", "'b'">>,
  <<"SELECT", " ", "-", "(", "a", "+", "-", "1.5", ")", "*", "f", "(", "/re/", ",", "DISTINCT", " ", "v", ")", " ", "FROM", " ", "(", "SELECT", " ", "a", " ", "FROM", " ", "m", ")">>,
  \* statements the parser validates further after parsing them (continuous queries: GROUP BY time(...) is inspected
  \* by the parser itself), every token of the time() call on its own
  <<"CREATE", " ", "CONTINUOUS", " ", "QUERY", " ", "cq", " ", "ON", " ", "d", " ", "RESAMPLE", " ", "EVERY", " ", "10s", " ", "FOR", " ", "2m", " ", "BEGIN", " ", "SELECT", " ",
    "mean", "(", "v", ")", " ", "INTO", " ", "t", " ", "FROM", " ", "m", " ", "GROUP", " ", "BY", " ", "time", "(", "1m", ",", "10s", ")", ",", "h", " ", "END">>,
  <<"SELECT", " ", "percentile", "(", "v", ",", "90", ")", ",", "holt_winters", "(", "mean", "(", "v", ")", ",", "2", ",", "3", ")", " ", "FROM", " ", "m", " ", "WHERE", " ", "time", ">",
    "now", "(", ")", "-", "1h", " ", "GROUP", " ", "BY", " ", "time", "(", "1m", ")", " ", "fill", "(", "previous", ")", " ", "LIMIT", " ", "1">>
>>

Families == <<"fill_paren", "time_paren", "arg_paren", "paren", "paren_where", "call", "subquery", "neg", "fields", "sources", "and_chain", "or_and_chain", "arith_chain",
              "ws_run", "comment_run", "line_comment_run", "long_comment", "long_ident", "long_quoted_ident", "long_string",
              "long_number", "long_duration", "long_regex", "statements", "semicolons", "dims", "segments", "taglist",
              "destinations", "unterminated_string", "unterminated_comment", "open_parens", "dollars", "bad_bytes",
              "into_dots_colon", "into_dots_regex", "from_dots_regex", "now_calls", "empty_calls_query">>

VARIABLES seq, done
vars == <<seq, done>>

Raw(s, g) == [t |-> "p", s |-> s, g |-> g]
ToksG(s, g) == [j \in 1..Len(s) |-> Raw(s[j], g)]
HasBP(s) == \E j \in 1..Len(s) : s[j] \in {"$p", "$", "$select"}
Emit(rec) == CSVWrite("%1$s", <<ToJson(rec)>>, IOEnv.CASE_FILE)

Init == seq = <<>> /\ done = FALSE

\* ---- part "seq"
SeqStep == /\ Part = "seq" /\ Len(seq) < N
           /\ \E w \in WildSet :
                /\ seq' = Append(seq, w)
                /\ \A g \in {"T", "L"} : \A b \in (IF ~HasBP(seq') THEN {"none"} ELSE IF Len(seq') <= 2 THEN Bindings ELSE FewBindings) :
                     Emit([part |-> "seq", toks |-> ToksG(seq', g), bind |-> b])
           /\ UNCHANGED done

\* ---- part "mut": one action emits all mutations of all base statements
Del(s, i) == SubSeq(s, 1, i - 1) \o SubSeq(s, i + 1, Len(s))
Dup(s, i) == SubSeq(s, 1, i) \o SubSeq(s, i, Len(s))
Swap(s, i) == IF i < Len(s) THEN SubSeq(s, 1, i - 1) \o <<s[i + 1], s[i]>> \o SubSeq(s, i + 2, Len(s)) ELSE s
Trunc(s, i) == SubSeq(s, 1, i - 1)
Repl(s, i, w) == [s EXCEPT ![i] = w]
Muts(s) == {s} \cup {Del(s, i) : i \in 1..Len(s)} \cup {Dup(s, i) : i \in 1..Len(s)} \cup {Swap(s, i) : i \in 1..Len(s)}
               \cup {Trunc(s, i) : i \in 1..Len(s)} \cup {Repl(s, i, w) : i \in 1..Len(s), w \in WildSet}
MutStep == /\ Part = "mut" /\ ~done
           /\ \A k \in 1..Len(Base) : \A m \in Muts(Base[k]) :
                \A b \in (IF HasBP(m) THEN {"none", "str", "int", "regex", "ident", "dur_str", "regex_bad", "unbindable", "dur_cut_micro", "dur_ff", "regex_badutf8"} ELSE {"none"}) :
                  Emit([part |-> "mut", toks |-> ToksG(m, "L"), bind |-> b, base |-> k])
           /\ \A k \in 1..Len(TBase) : \A m \in Muts(TBase[k]) : Emit([part |-> "mut", toks |-> ToksG(m, "T"), bind |-> "none", base |-> 100 + k])
           /\ done' = TRUE /\ UNCHANGED seq

\* ---- part "mutws": the structural mutations (no replacements) of every base statement once more with every gap written
\* as a line break of each kind or a tab: errors on later lines, positions after CR / CRLF / LF
GapTexts == {"\n", "\r", "\r\n", "\t", "\n\n", " \r "}
MutsNoRepl(s) == {s} \cup {Del(s, i) : i \in 1..Len(s)} \cup {Dup(s, i) : i \in 1..Len(s)} \cup {Swap(s, i) : i \in 1..Len(s)} \cup {Trunc(s, i) : i \in 1..Len(s)}
ToksW(s, w) == [j \in 1..Len(s) |-> [t |-> "p", s |-> s[j], g |-> "L", w |-> w]]
MutWsStep == /\ Part = "mutws" /\ ~done
             /\ \A k \in 1..Len(Base) : \A m \in MutsNoRepl(Base[k]) : \A w \in GapTexts :
                  Emit([part |-> "mut", toks |-> ToksW(m, w), bind |-> (IF HasBP(m) THEN "str" ELSE "none"), base |-> k])
             /\ \A k \in 1..Len(TBase) : \A m \in MutsNoRepl(TBase[k]) : \A w \in GapTexts :
                  Emit([part |-> "mut", toks |-> ToksG([j \in 1..Len(m) |-> IF m[j] = " " THEN w ELSE m[j]], "T"), bind |-> "none", base |-> 100 + k])
             /\ done' = TRUE /\ UNCHANGED seq

\* ---- part "grow"
GrowStep == /\ Part = "grow" /\ ~done
            /\ \A f \in 1..Len(Families) : \A z \in Sizes :
                 Emit([part |-> "grow", family |-> Families[f], size |-> z])
            /\ done' = TRUE /\ UNCHANGED seq

Next == SeqStep \/ MutStep \/ MutWsStep \/ GrowStep
Spec == Init /\ [][Next]_vars
=============================================================================
