SPECIFICATION Spec
CONSTANTS N = 4
INVARIANTS RingOK
CHECK_DEADLOCK FALSE
