------------------------------ MODULE Gen_c04m ------------------------------
(* C04 pass M (+ binding): every sequence of at most N token classes in which adjacent
   spellings do not merge into another token is run through the design spec of the
   expression parser (ExprParse).  Invariant RingOK: push-back never exceeds what the
   3-slot ring can hold, the `panic` arm of parseUnaryExpr is unreachable, the number of
   ring steps is linear.  Every sequence is emitted with the model's verdict (ok / error)
   so that the real ParseExpr can be compared with the model (drift when they differ).  *)
EXTENDS ExprParse, Json, CSV, IOUtils

CONSTANTS N, EmitCases
VARIABLES seq
vars == <<seq>>

Classes == {"WS", "CM", "IDENT", "INT", "STR", "DUR", "MUL", "ADD", "SUB", "DIV", "EQ", "AND", "EQREGEX",
            "LPAREN", "RPAREN", "COMMA", "DOT", "COLON", "DCOLON", "BP", "KW"}
Spell(c) == CASE c = "WS" -> " " [] c = "CM" -> "/* c */" [] c = "IDENT" -> "a" [] c = "INT" -> "1" [] c = "STR" -> "'s'"
              [] c = "DUR" -> "1s" [] c = "MUL" -> "*" [] c = "ADD" -> "+" [] c = "SUB" -> "-" [] c = "DIV" -> "/"
              [] c = "EQ" -> "=" [] c = "AND" -> "AND" [] c = "EQREGEX" -> "=~" [] c = "LPAREN" -> "(" [] c = "RPAREN" -> ")"
              [] c = "COMMA" -> "," [] c = "DOT" -> "." [] c = "COLON" -> ":" [] c = "DCOLON" -> "::" [] c = "BP" -> "$p"
              [] c = "KW" -> "field"
Wordy == {"IDENT", "AND", "KW", "INT", "DUR", "BP"}
\* adjacent spellings that would lex as something else when written without a gap
Merges(a, b) == \/ (a \in Wordy /\ b \in {"IDENT", "AND", "KW", "INT", "DUR"})
                \/ (a = "INT" /\ b = "DOT") \/ (a = "DOT" /\ b \in {"INT", "DUR"})
                \/ (a = "SUB" /\ b = "SUB") \/ (a = "DIV" /\ b = "MUL")
                \/ (a = "COLON" /\ b \in {"COLON", "DCOLON"}) \/ (a = "DCOLON" /\ b \in {"COLON", "DCOLON"})
                \/ (a = "EQ" /\ b = "EQREGEX") \/ (a = "WS" /\ b = "WS")

Toks(s) == [j \in 1..Len(s) |-> [t |-> "p", s |-> Spell(s[j]), g |-> "T"]]

Init == seq = <<>>
Step == /\ Len(seq) < N
        /\ \E c \in Classes :
             /\ IF seq = <<>> THEN TRUE ELSE ~Merges(seq[Len(seq)], c)
             /\ seq' = Append(seq, c)
             /\ IF EmitCases THEN CSVWrite("%1$s", <<ToJson([part |-> "model", toks |-> Toks(seq'), classes |-> seq', mok |-> Run(seq').ok])>>, IOEnv.CASE_FILE)
                ELSE TRUE
Next == Step
Spec == Init /\ [][Next]_vars

RingOK == RunOK(seq)
=============================================================================
