----------------------------- MODULE ExprParse -----------------------------
(* Design spec (code-shaped) of the expression core of parser.go over the 3-slot token
   ring of bufScanner (scanner.go):  ParseExpr / parseUnaryExpr / parseCall / ParseVarRef /
   parseSegmentedIdents / parseRegex, with every Scan / Unscan / peekRune they perform.

   Inputs are sequences of token CLASSES (one representative spelling each, see Spell):
     WS CM IDENT INT STR DUR MUL ADD SUB DIV EQ AND EQREGEX LPAREN RPAREN COMMA DOT COLON
     DCOLON BP KW
   The parser state threads through every operator:
     toks, pos      the token sequence and the index of the next token the lexer will deliver
     i, n, buf      the ring (buf holds token indexes; 0 = EOF)
     filled         number of ring slots ever written (<= 3)
     maxn, bad      observation: high-water mark of n; ring discipline broken
                    (n > 2 would re-deliver the newest token; n > filled reads an empty slot)
     steps          number of Scan/Unscan calls                                         *)
EXTENDS Naturals, Integers, Sequences, TLC

EOFT == "EOF"
IsOp(t) == t \in {"ADD", "SUB", "MUL", "DIV", "EQ", "AND", "EQREGEX"}
Prec(t) == CASE t = "AND" -> 2 [] t \in {"EQ", "EQREGEX"} -> 3 [] t \in {"ADD", "SUB"} -> 4 [] t \in {"MUL", "DIV"} -> 5 [] OTHER -> 0
\* first rune class of a token's spelling, for peekRune (which bypasses the token ring)
First(t) == CASE t = "WS" -> "ws" [] t \in {"DIV", "CM"} -> "/" [] t \in {"COLON", "DCOLON"} -> ":" [] t = "DOT" -> "."
              [] t = "BP" -> "$" [] t = EOFT -> "eof" [] OTHER -> "x"

New(toks) == [toks |-> toks, pos |-> 1, i |-> 0, n |-> 0, filled |-> 0, buf |-> [k \in 0..2 |-> 0],
              maxn |-> 0, bad |-> FALSE, steps |-> 0]
TokAt(st, k) == IF k = 0 \/ k > Len(st.toks) THEN EOFT ELSE st.toks[k]
Curr(st) == TokAt(st, st.buf[(st.i - st.n + 3) % 3])
Scan(st) == IF st.n > 0 THEN [st EXCEPT !.n = st.n - 1, !.steps = st.steps + 1]
            ELSE LET i2 == (st.i + 1) % 3
                     k == IF st.pos > Len(st.toks) THEN 0 ELSE st.pos
                 IN [st EXCEPT !.i = i2, !.buf[i2] = k, !.pos = IF k = 0 THEN st.pos ELSE st.pos + 1,
                               !.filled = IF st.filled < 3 THEN st.filled + 1 ELSE 3, !.steps = st.steps + 1]
Unscan(st) == [st EXCEPT !.n = st.n + 1, !.maxn = IF st.n + 1 > st.maxn THEN st.n + 1 ELSE st.maxn,
                         !.bad = st.bad \/ (st.n + 1 > st.filled) \/ (st.n + 1 > 2), !.steps = st.steps + 1]
RECURSIVE ScanIWS(_)
ScanIWS(st) == LET s1 == Scan(st) IN IF Curr(s1) \in {"WS", "CM"} THEN ScanIWS(s1) ELSE s1
\* peekRune looks at the source behind the lexer: the first rune of the next unlexed token
Peek(st) == First(TokAt(st, IF st.pos > Len(st.toks) THEN 0 ELSE st.pos))
ConsumeWS(st) == LET s1 == Scan(st) IN IF Curr(s1) = "WS" THEN s1 ELSE Unscan(s1)

Err(st) == [st |-> st, ok |-> FALSE, e |-> [k |-> "err"]]
Ok(st, e) == [st |-> st, ok |-> TRUE, e |-> e]

\* parseRegex: e.k = "none" when there is no regex here
ParseRegex(st) ==
  LET s0 == IF Peek(st) = "ws" THEN ConsumeWS(st) ELSE st
      pk == Peek(s0)
  IN IF pk = "$" THEN Ok(Unscan(Scan(s0)), [k |-> "none"])     \* an unbound parameter never resolves to REGEX
     ELSE IF pk # "/" THEN Ok(s0, [k |-> "none"])
     ELSE \* ScanRegex: with nothing pushed back the regex scanner reads the SOURCE from the '/' up to the
          \* next '/'.  At class level this is exact for the spelling  / a /  (classes DIV IDENT DIV, tight):
          \* one ring slot is written and the lexer has consumed three classes.  Any other continuation is
          \* treated as a bad regex (the real scanner may find a closing '/' further on: recorded as drift).
          LET s1 == Scan(s0) IN
          IF s0.n = 0 /\ TokAt(s0, s0.pos) = "DIV" /\ s0.pos + 2 <= Len(s0.toks)
             /\ s0.toks[s0.pos + 1] = "IDENT" /\ s0.toks[s0.pos + 2] = "DIV"
          THEN Ok([s1 EXCEPT !.pos = s0.pos + 3], [k |-> "regex"])
          ELSE Err(s1)

RECURSIVE ParseExpr(_), ParseUnary(_), ParseCallArgs(_, _), ExprLoop(_, _), SegIdents(_, _), Insert(_, _, _)
Insert(t, op, rhs) == IF t.k = "bin" /\ Prec(t.op) < Prec(op) THEN [t EXCEPT !.r = Insert(t.r, op, rhs)]
                      ELSE [k |-> "bin", op |-> op, l |-> t, r |-> rhs]
SegIdents(st, c) ==
  LET s1 == Scan(st) IN
  IF Curr(s1) # "DOT" THEN Ok(Unscan(s1), [k |-> "seg", c |-> c])
  ELSE LET pk == Peek(s1) IN
       IF pk \in {"/", ":"} THEN Ok(s1, [k |-> "seg", c |-> c])
       ELSE IF pk = "." THEN SegIdents(s1, c + 1)
       ELSE LET s2 == ScanIWS(s1) IN IF Curr(s2) # "IDENT" THEN Err(s2) ELSE SegIdents(s2, c + 1)
ParseVarRef(st) ==
  LET s1 == ScanIWS(st) IN
  IF Curr(s1) # "IDENT" THEN Err(s1)
  ELSE LET sg == SegIdents(s1, 1) IN
       IF ~sg.ok THEN sg ELSE IF sg.e.c > 3 THEN Err(sg.st)
       ELSE LET s2 == Scan(sg.st) IN
            IF Curr(s2) = "DCOLON" THEN LET s3 == Scan(s2) IN
                 IF Curr(s3) \in {"KW"} THEN Ok(s3, [k |-> "ref", cast |-> TRUE]) ELSE Err(s3)
            ELSE Ok(Unscan(s2), [k |-> "ref", cast |-> FALSE])
ParseCallArgs(st, cnt) ==
  LET s1 == ScanIWS(st) IN
  IF Curr(s1) # "COMMA" THEN
     LET s2 == Scan(Unscan(s1)) IN IF Curr(s2) = "RPAREN" THEN Ok(s2, [k |-> "call", n |-> cnt]) ELSE Err(s2)
  ELSE LET re == ParseRegex(s1) IN
       IF ~re.ok THEN re
       ELSE IF re.e.k = "regex" THEN ParseCallArgs(re.st, cnt + 1)
       ELSE LET a == ParseExpr(re.st) IN IF ~a.ok THEN a ELSE ParseCallArgs(a.st, cnt + 1)
ParseCall(st) ==
  LET re == ParseRegex(st) IN
  IF ~re.ok THEN re
  ELSE IF re.e.k = "regex" THEN ParseCallArgs(re.st, 1)
  ELSE LET s1 == Scan(re.st) IN
       IF Curr(s1) = "RPAREN" THEN Ok(s1, [k |-> "call", n |-> 0])
       ELSE LET a == ParseExpr(Unscan(s1)) IN IF ~a.ok THEN a ELSE ParseCallArgs(a.st, 1)
ParseUnary(st) ==
  LET s1 == ScanIWS(st) IN
  IF Curr(s1) = "LPAREN" THEN
     LET e == ParseExpr(s1) IN
     IF ~e.ok THEN e ELSE LET s2 == ScanIWS(e.st) IN IF Curr(s2) = "RPAREN" THEN Ok(s2, [k |-> "paren", e |-> e.e]) ELSE Err(s2)
  ELSE LET s2 == ScanIWS(Unscan(s1)) t == Curr(s2) IN
     IF t = "IDENT" THEN
        LET s3 == Scan(s2) IN
        IF Curr(s3) = "LPAREN" THEN ParseCall(s3)
        ELSE ParseVarRef(Unscan(Unscan(s3)))
     ELSE IF t \in {"INT", "STR", "DUR"} THEN Ok(s2, [k |-> "lit", t |-> t])
     ELSE IF t = "MUL" THEN LET s3 == Scan(s2) IN
          IF Curr(s3) = "DCOLON" THEN LET s4 == Scan(s3) IN IF Curr(s4) = "KW" THEN Ok(s4, [k |-> "wild"]) ELSE Err(s4)
          ELSE Ok(Unscan(s3), [k |-> "wild"])
     ELSE IF t \in {"ADD", "SUB"} THEN
        LET s3 == ScanIWS(s2) t0 == Curr(s3) IN
        IF t0 \in {"INT", "DUR", "LPAREN", "IDENT"} THEN
           LET u == ParseUnary(Unscan(s3)) IN
           IF ~u.ok THEN u
           ELSE IF u.e.k \in {"lit"} THEN u
           ELSE IF u.e.k \in {"ref", "call", "paren"} THEN Ok(u.st, [k |-> "bin", op |-> "MUL", l |-> [k |-> "lit", t |-> "INT"], r |-> u.e])
           ELSE [st |-> [u.st EXCEPT !.bad = TRUE], ok |-> FALSE, e |-> [k |-> "PANIC"]]
        ELSE Err(s3)
     ELSE Err(s2)                         \* BP (unbound parameter), KW, operators, punctuation, EOF
ExprLoop(st, root) ==
  LET s1 == ScanIWS(st) op == Curr(s1) IN
  IF ~IsOp(op) THEN Ok(Unscan(s1), root)
  ELSE IF op = "EQREGEX" THEN
       LET re == ParseRegex(s1) IN
       IF ~re.ok THEN re ELSE IF re.e.k = "none" THEN Err(ScanIWS(re.st)) ELSE ExprLoop(re.st, Insert(root, op, re.e))
  ELSE LET u == ParseUnary(s1) IN IF ~u.ok THEN u ELSE ExprLoop(u.st, Insert(root, op, u.e))
ParseExpr(st) == LET u == ParseUnary(st) IN IF ~u.ok THEN u ELSE ExprLoop(u.st, u.e)

\* result of the public entry point on a class sequence
Run(toks) == ParseExpr(New(toks))
\* ring discipline, no panic arm, linear number of ring steps
RunOK(toks) == LET r == Run(toks) IN
                 /\ ~r.st.bad /\ r.e.k # "PANIC"
                 /\ r.st.steps <= 6 * Len(toks) + 8
                 /\ r.st.maxn <= 2
=============================================================================
