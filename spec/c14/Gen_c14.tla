------------------------------ MODULE Gen_c14 ------------------------------
(* C14 - pass G: the histories.  A case is
     [sid, kind, text, pre, steps, part]
   "pre" is an in-place operation of the package applied to the original BEFORE it is cloned
   ("none" for the plain case), steps = the history after Clone / CloneExpr, each step
     [a |-> "mutate", side, i]       set path #i of that side's current tree (the driver enumerates
                                      the paths of the real AST by reflection; the probe run told us
                                      how many there are: Probe[sid].obs.np[pre])
     [a |-> "rewrite", side, op]     an in-place operation (GroupByInterval counts as one: it memoises)
     [a |-> "derived", side, op]     an operation the property calls read-only
   Parts
     table   one case per input text (for the probe run)
     paths   <clone, mutate side i> for EVERY path of EVERY input on both sides; with a pre-step where
             the pre-step changes the statement (PreScope: "rich" inputs, "core" = the hand-written ones, "all", "none")
     ops     <clone, x1 .. xn>, n <= KRich / KCore / K (rich / other hand-written / combined inputs):
             x1..x(n-1) in-place operations, xn an
             in-place or a derived operation; sequences of length 3 use the package's own rewrites in
             the first two places; plus <pre, clone, x1> for rich inputs
     sim     (simulation) random prefix of SimLen-1 arbitrary steps, then every possible last step *)
EXTENDS Stmts_c14, TLC, Json, CSV, IOUtils

CONSTANTS Part, NExtra, Seed, K, KCore, KRich, PreScope, SimLen

VARIABLE c
vars == <<c>>

CaseFile == IOEnv.CASE_FILE
Table == Core \o Extra(NExtra, Seed)
NStmt == Len(Table)
AllExprs == Exprs \o FoldExprs \o LongExprs
NAll == NStmt + Len(AllExprs)
Kind(sid) == IF sid <= NStmt THEN "stmt" ELSE "expr"
Text(sid) == IF sid <= NStmt THEN Table[sid].text ELSE AllExprs[sid - NStmt]
IsRich(sid) == IF sid <= NStmt THEN Table[sid].rich ELSE sid <= NStmt + Len(Exprs)
IsCore(sid) == sid <= Len(Core) \/ sid > NStmt
PreFor(sid) == IF PreScope = "all" THEN TRUE ELSE IF PreScope = "core" THEN IsCore(sid)
               ELSE IF PreScope = "rich" THEN IsRich(sid) ELSE FALSE

\* must agree with harness/suite_c14.go
PkgRewrites == {"RewriteRegexConditions", "RewriteDistinct", "RewriteTimeFields", "SetTimeRange", "GroupByInterval"}
StmtRewrites == PkgRewrites \cup {"RewriteMod", "RewriteNop", "RewriteExprCond", "RewriteExprDrop", "WalkMutateAll", "ReverseFields"}
StmtDerived == {"Reduce", "ReduceNil", "ReduceZone", "RewriteFields", "EvalCond", "EvalType", "String", "ColumnNames",
                "RequiredPrivileges", "Names", "ConditionExpr"}
ExprRewrites == {"RewriteExpr", "RewriteExprDrop", "RewriteMod", "RewriteNop", "WalkMutateAll"}
ExprDerived == {"Reduce", "ReduceNil", "ReduceZone", "Eval", "EvalType", "String", "Names", "ConditionExpr"}
\* EngineFlags: the statement-level flags the parser never sets (OmitTime, StripName, EmitName, Dedupe) and a
\* SystemIterator on the first source measurement, as the query engine sets them before it clones
Pres == PkgRewrites \cup {"EngineFlags"}
Rewrites(sid) == IF Kind(sid) = "stmt" THEN StmtRewrites ELSE ExprRewrites
Deriveds(sid) == IF Kind(sid) = "stmt" THEN StmtDerived ELSE ExprDerived
Sides == {"o", "c"}

\* the probe run: one record per input, in table order
Probe == IF Part = "table" THEN <<>> ELSE ndJsonDeserialize(IOEnv.PROBE_FILE)
Ok(sid) == Probe[sid].obs.ok
NP(sid, pre) == Probe[sid].obs.np[pre]
Eff(sid, pre) == Probe[sid].obs.eff[pre]
PresOf(sid) == IF Kind(sid) = "expr" THEN {} ELSE {p \in Pres : Eff(sid, p)}

Case(sid, pre, steps) == [sid |-> sid, kind |-> Kind(sid), text |-> Text(sid), pre |-> pre, steps |-> steps, part |-> Part]
Emit(x) == CSVWrite("%1$s", <<ToJson(x)>>, CaseFile)

Start == [sid |-> 0, pre |-> "none", steps |-> <<>>]
Init == IF Part = "sim" THEN \E sid \in 1..NAll : Ok(sid) /\ c = [sid |-> sid, pre |-> "none", steps |-> <<>>]
        ELSE c = Start

EmitTable == /\ Part = "table" /\ c = Start
             /\ \A sid \in 1..NAll : Emit([sid |-> sid, kind |-> Kind(sid), text |-> Text(sid), rich |-> IsRich(sid), core |-> IsCore(sid)])
             /\ c' = [Start EXCEPT !.sid = NAll]

Paths == /\ Part = "paths" /\ c = Start
         /\ \E sid \in 1..NAll : Ok(sid) /\
            \E pre \in {"none"} \cup (IF PreFor(sid) THEN PresOf(sid) ELSE {}) :
            \E side \in Sides : \E i \in 1..NP(sid, pre) :
              /\ c' = [sid |-> sid, pre |-> pre, steps |-> <<[a |-> "mutate", side |-> side, i |-> i]>>]
              /\ Emit(Case(sid, pre, c'.steps))

OpStep(sid) == {[a |-> "rewrite", side |-> s, op |-> o] : s \in Sides, o \in Rewrites(sid)}
               \cup {[a |-> "derived", side |-> s, op |-> o] : s \in Sides, o \in Deriveds(sid)}
KOf(sid, pre) == IF pre # "none" THEN 1 ELSE IF IsRich(sid) THEN KRich ELSE IF IsCore(sid) THEN KCore ELSE K
Ops == /\ Part = "ops"
       /\ IF c = Start
          THEN \E sid \in 1..NAll : Ok(sid) /\
               \E pre \in {"none"} \cup (IF IsRich(sid) /\ PreScope # "none" THEN PresOf(sid) ELSE {}) :
               \E x \in OpStep(sid) :
                 /\ c' = [sid |-> sid, pre |-> pre, steps |-> <<x>>]
                 /\ Emit(Case(sid, pre, c'.steps))
          ELSE LET n == Len(c.steps) IN
               /\ n < KOf(c.sid, c.pre)
               /\ c.steps[n].a = "rewrite"
               /\ IF n = 2 THEN c.steps[1].op \in PkgRewrites /\ c.steps[2].op \in PkgRewrites ELSE TRUE
               /\ \E x \in OpStep(c.sid) :
                    /\ c' = [c EXCEPT !.steps = Append(@, x)]
                    /\ Emit(Case(c.sid, c.pre, c'.steps))

SimStep(sid) == OpStep(sid) \cup {[a |-> "mutate", side |-> s, i |-> i] : s \in Sides, i \in 1..NP(sid, "none")}
Sim == /\ Part = "sim" /\ Len(c.steps) < SimLen
       /\ \E x \in SimStep(c.sid) :
            /\ c' = [c EXCEPT !.steps = Append(@, x)]
            /\ IF Len(c'.steps) = SimLen THEN Emit(Case(c.sid, c.pre, c'.steps)) ELSE TRUE

Next == EmitTable \/ Paths \/ Ops \/ Sim
Spec == Init /\ [][Next]_vars
=============================================================================
