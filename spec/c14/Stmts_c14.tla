----------------------------- MODULE Stmts_c14 -----------------------------
(* C14 - the inputs: SELECT statements and expressions, as plain text (the parser is not
   under test here; every text is parsed by the real parser and the probe reports the ones
   it rejects).  Core = hand-written, every slot of SelectStatement / Measurement / every
   Expr node kind the parser can produce occurs at least once.  Extra(n, seed) = clause
   options combined with co-prime strides (each option occurs many times, in changing
   company).  rich = TRUE marks the statements that get the longer histories.
   For every derived (read-only) operation there are inputs on which it has work to do, so that
   an in-place implementation would show in the receiver: constants of every literal kind for
   Reduce / Eval, time bounds with `time` on either side for ConditionExpr, casts / wildcards /
   regex fields for RewriteFields, name conflicts and top()/bottom() tags for ColumnNames and the
   name queries, INTO targets and sub-queries for RequiredPrivileges (measured once with
   go test -coverpkg over ast.go: conditionExpr, ColumnNames, FieldExprByName, walkNames 100 %).          *)
EXTENDS Naturals, Sequences, TLC

St(t) == [text |-> t, rich |-> FALSE]
Rich(t) == [text |-> t, rich |-> TRUE]

\* LONG left-leaning chains (a dashboard's multi-value selector, the output of a regex rewrite): an implementation
\* that walks the spine with a fixed-size stack or in blocks shows at a length
RECURSIVE OrChain(_), SumChain(_)
OrChain(n) == IF n = 1 THEN "h = 'a1'" ELSE OrChain(n - 1) \o " OR h = 'a" \o ToString(n) \o "'"
SumChain(n) == IF n = 1 THEN "x1" ELSE SumChain(n - 1) \o " + x" \o ToString(n)
LongStmts == <<St("SELECT " \o SumChain(34) \o " FROM m WHERE " \o OrChain(33))>>
LongExprs == <<OrChain(33), OrChain(65), SumChain(130)>>

CoreHand == <<
  Rich("SELECT time AS ts, count(DISTINCT v), top(w, host, 3) INTO db.rp.t FROM m, (SELECT a FROM n WHERE x > 1) WHERE host =~ /^(a|b)$/ AND time > now() - 1h AND region = 'x' GROUP BY time(5m, 1m), host fill(1.5) ORDER BY time DESC LIMIT 5 OFFSET 2 SLIMIT 3 SOFFSET 1 tz('America/Chicago')"),
  Rich("SELECT v INTO t FROM m"),
  Rich("SELECT DISTINCT v, time FROM db.rp.m WHERE host =~ /^a$/ OR host !~ /^b$/ GROUP BY time(1h) fill(3)"),
  Rich("SELECT mean(v) AS mv, max(w) INTO rp.t FROM /^cpu.*/ WHERE region !~ /^(x|y|z)$/ GROUP BY time(10s), * fill(previous) ORDER BY ASC"),
  Rich("SELECT * INTO db.rp.:MEASUREMENT FROM db.rp./m.*/ GROUP BY *"),
  Rich("SELECT sum(a) FROM (SELECT mean(v) AS a INTO q FROM (SELECT v, host FROM m WHERE v > 1.5 AND host =~ /^h$/) GROUP BY time(1m), host) WHERE time >= '2000-01-01T00:00:00Z' AND time < '2000-01-02T00:00:00Z' GROUP BY time(1h)"),
  Rich("SELECT time, v::float + 2 * (w::integer - 1) AS x, host::tag FROM m1, m2, /x/ WHERE (a = 1 OR b = true) AND s = 'str' AND d > 3s tz('Europe/Berlin')"),
  Rich("SELECT f(a, 1, 2.5, 'str', true, 3s, /re/, *, g(h(x))) FROM m WHERE k =~ /^only$/ GROUP BY /^h/"),
  Rich("SELECT count(distinct(v)), distinct(w) FROM m GROUP BY time(5m) fill(linear) SLIMIT 1"),
  Rich("SELECT /^v/, mean(*), sum(/w.*/) INTO \"my db\".\"my rp\".\"t t\" FROM \"a b\" WHERE \"x y\" = 'q' GROUP BY time(30s, -5s) fill(none) ORDER BY time ASC LIMIT 1"),
  Rich("SELECT percentile(v, 90.5), derivative(mean(v), 10s), bottom(w, 2) FROM m WHERE time > now() - 1d AND f(x) > 1 GROUP BY time(1d) fill(null)"),
  Rich("SELECT time AS t1, time AS t2, v FROM m WHERE time = 5 OR host =~ /^$/"),
  St("SELECT v FROM m"),
  St("SELECT v, w AS ww FROM m"),
  St("SELECT * FROM m"),
  St("SELECT *::field, host::tag FROM m"),
  St("SELECT mean(v) FROM m GROUP BY time(5m)"),
  St("SELECT v INTO db..t FROM m"),
  St("SELECT v INTO rp.t FROM m WHERE host = 'a'"),
  St("SELECT v INTO db.rp.t FROM m WHERE host =~ /a.*/"),
  St("SELECT a FROM (SELECT b INTO t FROM m)"),
  St("SELECT v FROM /^cpu/, db.rp.m"),
  St("SELECT v FROM m WHERE time > now() - 1h AND v > 1.5"),
  St("SELECT v FROM m WHERE i = 5 AND u = 18446744073709551615"),
  St("SELECT -v, v * -1, 1 + 2, 9223372036854775808 FROM m"),
  St("SELECT v FROM m GROUP BY host, region"),
  St("SELECT mean(v) FROM m GROUP BY time(1h), * fill(0)"),
  St("SELECT v FROM m ORDER BY time DESC"),
  St("SELECT v AS a, w FROM m GROUP BY time(1m) fill(2) ORDER BY time ASC OFFSET 3"),
  St("SELECT v FROM m ORDER BY DESC LIMIT 10"),
  St("SELECT v FROM m LIMIT 5 OFFSET 2"),
  St("SELECT v FROM m GROUP BY host SLIMIT 3 SOFFSET 1"),
  St("SELECT v FROM m tz('America/Chicago')"),
  St("SELECT count(v) FROM m WHERE host !~ /^(a|b|c)$/"),
  St("SELECT v FROM m WHERE a & 3 | 4 ^ b = 0 AND c % 2 = 1 AND e / 2 >= 1 AND g - 1 <= 2 AND p <> q"),
  St("SELECT v FROM m WHERE ((a = 1))"),
  St("SELECT top(v, 3), host FROM m"),
  St("SELECT first(v), last(v), host FROM m GROUP BY region"),
  St("SELECT v FROM db.rp.m, (SELECT max(w) FROM n GROUP BY time(1m)), /z/"),
  St("SELECT \"time\", \"v\"::integer FROM \"m\" WHERE \"host\" = 'its'"),
  St("SELECT elapsed(v, 1s), moving_average(mean(v), 3) FROM m WHERE time >= 0 AND time <= 100 GROUP BY time(10u)"),
  \* time bounds written `literal op time` (conditionExpr flips the operator), mixed with tag predicates and parentheses
  Rich("SELECT v FROM m WHERE 100 < time AND now() - 10m >= time AND host = 'a'"),
  St("SELECT mean(v) FROM m WHERE '2000-01-01T00:00:00Z' <= time AND (host = 'a' OR host =~ /^b$/) AND '2000-01-02T00:00:00Z' > time GROUP BY time(1h)"),
  St("SELECT v FROM m WHERE (region = 'x' AND (100 <= time AND 200 > time)) AND (10s < time)"),
  St("SELECT a FROM (SELECT mean(v) AS a FROM m WHERE 100 < time AND now() >= time AND host = 'a' GROUP BY time(1m)) WHERE 150 <= time AND a > 1"),
  St("SELECT v FROM m WHERE time > 100.5 AND time < 10s AND time = '2000-01-01 00:00:00' AND time <= '2000-01-03' tz('America/Chicago')"),
  St("SELECT v FROM m WHERE now() - 1h < time AND time < now() + 1h"),
  \* constants that Reduce / Eval fold, per kind of left operand; also in GROUP BY time() and inside a sub-query
  Rich("SELECT 1 + 2 * 3, 2.0, 1.5 * 2, v + (1 + 1) FROM m WHERE 1 + 2 * 3 > v AND true AND 1h + 30m > d AND 'a' + 'b' = s AND (false OR b) GROUP BY time(1m * 5)"),
  St("SELECT mean(v) FROM (SELECT v FROM cpu WHERE time > now() - 1h AND v > 1 + 2) WHERE 2 * 3 = 6 GROUP BY time(2 * 30s)"),
  St("SELECT v FROM m WHERE nilv = 1 OR 18446744073709551615 - 1 > u OR 7 % 3 = 1 OR 3.0 / 2 >= 1 OR 'abc' =~ /b/"),
  \* type casts and wildcards that RewriteFields resolves / expands, also through sub-queries
  Rich("SELECT value::field, max(n::integer), x::float, host::tag FROM cpu WHERE value::field > 0 AND host::tag = 'a' GROUP BY host"),
  St("SELECT *::tag, *::field, v::field FROM m GROUP BY /^h/, region"),
  St("SELECT mean(*), count(/^v/), holt_winters(mean(*), 10, 2), count() FROM m GROUP BY time(1m)"),
  St("SELECT * FROM (SELECT mean(v) AS a, max(w) FROM m GROUP BY host, time(1m)) GROUP BY *"),
  St("SELECT a, host FROM (SELECT mean(v) AS a FROM m GROUP BY host)"),
  St("SELECT mean(*::tag) FROM m"),
  \* names: conflicts, parentheses, top / bottom with tags, calls inside binary expressions
  St("SELECT v_1, v, v, mean(v), mean(v) AS v, (v), (v + w) * 2, (v + f(w)), u + w, u + 1 FROM m"),
  St("SELECT top(v, host, region, 3), bottom(w, host, 2), w INTO db.rp.t FROM db.rp.m"),
  \* field lists whose slice has spare capacity (3, 5, 6, 7 parsed fields; one shortened by RewriteTimeFields) with a
  \* selector call that contributes tag columns before further fields: an in-place insert would overwrite them
  St("SELECT top(v, host, 2), w, x FROM m"),
  St("SELECT a, bottom(v, host, region, 2), w, x, y FROM m"),
  St("SELECT top(v, host, 2), w, x, y, z, u FROM m GROUP BY region"),
  St("SELECT time, top(v, host, 2), w FROM m"),
  \* regex conditions: rewritten and not rewritten shapes
  St("SELECT v FROM m WHERE a =~ /^a/ AND b =~ /a$/ AND c =~ /^(a|b.*)$/ AND d !~ /^a|b$/ AND e =~ /^(x)$/ AND f =~ /^x\\.y$/")
>>
Core == CoreHand \o LongStmts

(* ------------------------------------------------------------------ combined clauses *)
FieldsOpt == <<"v", "v, w AS ww", "*", "mean(v)", "count(DISTINCT v), w", "DISTINCT v", "time AS ts, v",
               "top(v, host, 3), w", "v::float + 2 * (w - 1) AS x", "/^v/, max(*)", "f(a, 1, 'str'), g(/re/)">>
IntoOpt == <<"", " INTO t", " INTO rp.t", " INTO db.rp.t", " INTO db.rp.:MEASUREMENT">>
FromOpt == <<"m", "db.rp.m", "/^cpu.*/", "m1, m2", "(SELECT v, host FROM m WHERE v > 1)",
             "(SELECT mean(v) FROM (SELECT v FROM n) GROUP BY time(1m)), m", "db.rp./re/">>
WhereOpt == <<"", " WHERE host = 'a'", " WHERE host =~ /^a$/", " WHERE host !~ /^(a|b)$/ AND v > 1",
              " WHERE host =~ /a.*/ OR region = 'x'", " WHERE time > now() - 1h AND v > 1.5",
              " WHERE time >= '2000-01-01T00:00:00Z' AND (region = 'x' OR region =~ /^y$/)",
              " WHERE b = true AND d > 3s", " WHERE f(x) > 1 AND time < 100">>
GroupOpt == <<"", " GROUP BY host", " GROUP BY time(5m)", " GROUP BY time(5m, 1m), host, region", " GROUP BY *",
              " GROUP BY time(1h), /^h/">>
FillOpt == <<"", " fill(0)", " fill(1.5)", " fill(none)", " fill(previous)">>
OrderOpt == <<"", " ORDER BY time DESC", " ORDER BY ASC">>
LimitOpt == <<"", " LIMIT 10", " LIMIT 5 OFFSET 2 SLIMIT 3 SOFFSET 1", " SLIMIT 2">>
TzOpt == <<"", " tz('America/Chicago')">>

Pick(opts, i, stride) == opts[((i * stride) % Len(opts)) + 1]
Combo(i) == "SELECT " \o Pick(FieldsOpt, i, 1) \o Pick(IntoOpt, i, 3) \o " FROM " \o Pick(FromOpt, i, 5)
            \o Pick(WhereOpt, i, 7) \o Pick(GroupOpt, i, 1) \o Pick(FillOpt, i, 3) \o Pick(OrderOpt, i, 2)
            \o Pick(LimitOpt, i, 3) \o Pick(TzOpt, i, 1)
Extra(n, seed) == [j \in 1..n |-> St(Combo(j + 13 * seed))]

Exprs == <<
  "a", "a::float", "1", "1.5", "'s'", "true", "3s", "a + 1", "1 + 2 * 3",
  "a = 'x' AND b =~ /^y$/", "(a + b) * c / 2", "f(a, b, 1)", "f(g(h(x)))", "count(DISTINCT x)",
  "time > now() - 1h", "time >= '2000-01-01T00:00:00Z' AND time < 100", "a OR (b AND c)", "-a",
  "x !~ /^(p|q)$/ OR y = 2.5", "mean(*)", "a & 3 | 4 ^ b", "a % 2 = 0 AND d > 3s", "9223372036854775808 + u",
  "host = 'a' AND (region = 'x' OR f(v, 1, /re/) > 2)",
  "100 < time AND now() - 10m >= time",
  "'2000-01-01T00:00:00Z' <= time AND host = 'a'",
  "(host = 'a' OR host = 'b') AND ((100 <= time) AND 200 > time)",
  "true AND (x::field + y::integer > 1) AND 5 < v"
>>

(* Expressions with constant sub-terms, one group per kind of LEFT operand of reduceBinaryExpr / evalBinaryExpr
   (boolean, duration, integer, unsigned, number, string, time through now(), nil through the valuer), time
   bounds of every literal kind on either side, error arms included.  They get the short histories. *)
FoldExprs == <<
  "true AND v > 1", "false OR true", "true = false OR true != b", "(true)", "b AND false",
  "1h + 30m > d", "10s - 1s = 9s", "2h / 2 = 1h AND 1h * 2 >= d", "10s / 2.5 < d", "1h = 60m AND 1h != 2h AND 1h < 2h AND 1h <= d AND 2h > 1h",
  "1m + now() > time", "1h * 2.5 > d AND 1h / 2.0 < d AND 3 * 1h > d",
  "7 / 2 = 3 AND 7 % 3 = 1", "6 & 3 = 2 AND 6 | 1 = 7 AND 6 ^ 3 = 5", "1 - 2 < 0 AND 2 * 1.5 = 3.0 AND 1 + 1.5 > 2",
  "1 = 1 AND 1 != 2 AND 1 >= 2 AND 1 <= v AND 2 > 1 AND 1 < 2", "1 + 9223372036854775808 > u AND 5 - 2 = 3",
  "100 + now() > time", "1 / 0 = 0 OR 1 % 0 = 0", "2 * 1h = 2h",
  "18446744073709551615 - 1 > u", "9223372036854775808 + 1 = u AND 9223372036854775808 * 1 / 1 % 7 & 1 | 2 ^ 3 > 0",
  "9223372036854775808 = 9223372036854775808 AND 9223372036854775808 != 1 AND 9223372036854775808 > 1 AND 9223372036854775808 >= 1.5 AND 9223372036854775808 < 1 AND 9223372036854775808 <= 2",
  "1.5 + 2.5 = 4.0 AND 3.0 * 2 > v", "1.5 - 1 < v AND 3.0 / 2 >= 1 AND 5.5 % 2 = 1.5", "1.5 = 1.5 AND 1.5 != v AND 2.0 <= 3 AND 2.0 > 18446744073709551615 AND 2.5 < 3.5 AND 2.5 >= 1",
  "'a' + 'b' = 'ab'", "'a' = 'a' AND 'a' != 'b'", "'abc' =~ /b/ AND 'abc' !~ /z/",
  "'2000-01-01T00:00:00Z' + 1h > time", "'2000-01-01T00:00:00Z' - 1h < time AND '2000-01-01T00:00:00Z' - '1999-01-01T00:00:00Z' > 1h",
  "'2000-01-01T00:00:00Z' = '2000-01-01T00:00:00Z' AND '2000-01-01' < '2000-01-02' AND '2000-01-01 00:00:00' >= '2000-01-01' AND '2000-01-01' != '2000-01-02' AND '2000-01-03' > '2000-01-02' AND '2000-01-03' <= '2000-01-04'",
  "now() - 1h < time AND now() + 1h > time", "now() - '2000-01-01T00:00:00Z' > 1h", "now() = now() AND now() != '2000-01-01T00:00:00Z' AND now() > '2000-01-01T00:00:00Z' AND now() <= '2030-01-01T00:00:00Z' AND now() < '2030-01-01' AND now() >= '2000-01-01'",
  "nilv = 1 OR nilv + 1 > 2", "v + w * i > x AND host = s",
  "time > 100.5 AND time < 10s", "10s < time AND 100.5 >= time", "time = '2000-01-01 00:00:00' AND time <= '2000-01-03'",
  "time != 100", "time > '2300-01-01T00:00:00Z'", "time < '1600-01-01T00:00:00Z'", "time > true", "time > 'nonsense' AND time =~ /x/",
  "time > now() OR time < 5", "(time > 5)", "host = 'a' AND (time > 5 AND (time < 10))",
  "true & false = false OR true | false = true OR true ^ true = false OR true = nilv",
  "1h + '2000-01-01T00:00:00Z' > time AND 1h = nilv AND 1h - 30m < d",
  "-1 < 9223372036854775808 AND -1 > 18446744073709551615 AND -1 <= 9223372036854775808 AND -1 >= 9223372036854775808 AND 1 = 9223372036854775808",
  "100 + 10s > time AND 100 - 10s < time AND 5 + '2000-01-01T00:00:00Z' > time AND 1 = nilv AND 1 < 2.5 AND 1 <= 2.5 AND 3 > 2.5 AND 3 >= 2.5 AND 3 != 2.5 AND 3 = 3.0",
  "1.5 = nilv OR 1.5 < 18446744073709551615 OR 1.5 + 1 > 2 OR 1.5 * 2 = 3 OR 1.5 / 2 < 1 OR 1.5 - 1 > 0 OR 1.5 % 1 = 0.5",
  "9223372036854775808 = nilv OR 9223372036854775808 - 1.5 > 0 OR 9223372036854775808 + 1.5 > 0 OR 9223372036854775808 * 1.5 > 0 OR 9223372036854775808 / 1.5 > 0",
  "'a' = nilv OR '2000-01-01T00:00:00Z' = now() OR '2000-01-01T00:00:00Z' > 1h OR 'a' + 1 = 2 OR now() = nilv OR now() - 1h = now() - 60m"
>>
=============================================================================
