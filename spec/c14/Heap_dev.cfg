SPECIFICATION Spec
CONSTANTS
  MaxPost = 1
  PreOps = {}
  MutateLast = FALSE
  DevIsTarget = TRUE
  TargetSysIter = FALSE
INVARIANTS InvFaithful InvDisjoint InvOther InvReceiver InvMutateVisible
CHECK_DEADLOCK FALSE
