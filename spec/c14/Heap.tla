-------------------------------- MODULE Heap --------------------------------
(* C14 - design spec (pass M): clone / mutate / rewrite / derive histories over a HEAP of
   AST nodes with identities, transcribed from ast.go AS WRITTEN.

   heap      a sequence of objects; the index is the identity (address)
   object    [k, f]   a struct: k = Go type, f = record of cells
             [k |-> "[]", e]  the backing array of a slice, e = sequence of identities
             k \in Immutable: a value object (regexp.Regexp, time.Location behind their pointers; CloneProps A1)
   cell      Sc(v)      a scalar, always a string here ("" is the zero value)
             Ptr(id)    a pointer or interface holding a pointer (0 = nil)
             Sl(id, n)  a slice header: backing array id (0 = nil), length n

   Struct(h, root) unfolds the heap into the record tree the Go snapshot produces (zero
   values omitted), Reach / MutReach give the identities reachable from a root.  The
   invariants are the claims of CloneProps applied to (Struct(orig), Struct(clone),
   MutReach(orig) \cap MutReach(clone)) before and after the last action.               *)
EXTENDS CloneProps, FiniteSets

CONSTANTS MaxPost,        \* number of steps explored after Clone
          PreOps,         \* in-place operations that may run on the original BEFORE Clone (at most one)
          MutateLast,     \* TRUE: Mutate may also be the 2nd, 3rd .. step after Clone (else only the first)
          DevIsTarget,    \* TRUE: Clone as written before c7f96a4 (named deviation Dev_CloneDropsIsTarget); FALSE: today
          TargetSysIter   \* TRUE: the INTO measurement carries a SystemIterator (never set by the parser)

VARIABLES h, orig, clone, post, last,
          curO, curC, curShared,   \* observation after the last action (computed once per state)
          prevO, prevC             \* ... and before it
vars == <<h, orig, clone, post, last, curO, curC, curShared, prevO, prevC>>

Immutable == {"re", "loc"}
Sc(v) == [t |-> "v", v |-> v]
Ptr(i) == [t |-> "p", id |-> i]
Sl(i, n) == [t |-> "s", id |-> i, n |-> n]
Obj(k, f) == [k |-> k, f |-> f]
Arr(e) == [k |-> "[]", e |-> e]
Alloc(hp, o) == [h |-> Append(hp, o), id |-> Len(hp) + 1]
IsZeroCell(c) == (c.t = "v" /\ c.v = "") \/ (c.t = "p" /\ c.id = 0) \/ (c.t = "s" /\ c.n = 0)
SliceElems(hp, c) == IF c.id = 0 THEN <<>> ELSE SubSeq(hp[c.id].e, 1, c.n)

(* ------------------------------------------------------------------ unfolding *)
RECURSIVE Struct(_, _)
CellVal(hp, c) == IF c.t = "v" THEN c.v
                  ELSE IF c.t = "p" THEN Struct(hp, c.id)
                  ELSE [i \in 1..c.n |-> Struct(hp, hp[c.id].e[i])]
Struct(hp, id) ==
  LET o == hp[id] IN
  IF o.k \in Immutable THEN [k |-> o.k, s |-> o.f.s.v]
  ELSE LET F == {x \in DOMAIN o.f : ~IsZeroCell(o.f[x])}
       IN [x \in F \cup {"k"} |-> IF x = "k" THEN o.k ELSE CellVal(hp, o.f[x])]

RECURSIVE Reach(_, _)
Reach(hp, id) ==
  IF id = 0 THEN {} ELSE
  LET o == hp[id] IN
  {id} \cup (IF o.k = "[]" THEN UNION {Reach(hp, o.e[i]) : i \in 1..Len(o.e)}
             ELSE UNION {IF o.f[x].t = "v" THEN {} ELSE Reach(hp, o.f[x].id) : x \in DOMAIN o.f})
MutReach(hp, id) == {i \in Reach(hp, id) : hp[i].k \notin Immutable}

(* ------------------------------------------------------------------ building the statement *)
S(v) == [t |-> "v", v |-> v]
P(tr) == [t |-> "P", tr |-> tr]
NilP == Ptr(0)
L(trs) == [t |-> "L", trs |-> trs]
NilL == Sl(0, 0)
N(k, f) == [k |-> k, f |-> f]

RECURSIVE Build(_, _), BuildCells(_, _, _, _), BuildList(_, _)
BuildList(hp, trs) ==
  IF trs = <<>> THEN [h |-> hp, ids |-> <<>>]
  ELSE LET x == Build(hp, Head(trs))
           r == BuildList(x.h, Tail(trs))
       IN [h |-> r.h, ids |-> <<x.id>> \o r.ids]
BuildCells(hp, f, todo, done) ==
  IF todo = {} THEN [h |-> hp, cells |-> done]
  ELSE LET x == CHOOSE y \in todo : TRUE
           c == f[x]
       IN IF c.t = "P" THEN LET b == Build(hp, c.tr)
                            IN BuildCells(b.h, f, todo \ {x}, done @@ (x :> Ptr(b.id)))
          ELSE IF c.t = "L" THEN LET b == BuildList(hp, c.trs)
                                     a == Alloc(b.h, Arr(b.ids))
                                 IN BuildCells(a.h, f, todo \ {x}, done @@ (x :> Sl(a.id, Len(b.ids))))
          ELSE BuildCells(hp, f, todo \ {x}, done @@ (x :> c))
Build(hp, tr) ==
  LET b == BuildCells(hp, tr.f, DOMAIN tr.f, <<>>)
  IN Alloc(b.h, Obj(tr.k, b.cells))

VarRef(n) == N("VarRef", [Val |-> S(n), Type |-> S("")])
Bin(op, l, r) == N("BinaryExpr", [Op |-> S(op), LHS |-> P(l), RHS |-> P(r)])
CallT(n, args) == N("Call", [Name |-> S(n), Args |-> L(args)])
Regex(s) == N("RegexLiteral", [Val |-> P(N("re", [s |-> S(s)]))])
Meas(db, name, re, ist, sys) ==
  N("Measurement", [Database |-> S(db), RetentionPolicy |-> S(""), Name |-> S(name), Regex |-> re,
                    IsTarget |-> S(ist), SystemIterator |-> S(sys)])
FieldT(e, al) == N("Field", [Expr |-> P(e), Alias |-> S(al)])
Stmt(fields, target, sources, cond, dims, sort, limit, loc) ==
  N("SelectStatement", [Fields |-> L(fields), Target |-> target, Sources |-> L(sources), Condition |-> cond,
                        Dimensions |-> dims, SortFields |-> sort, Limit |-> S(limit), groupByInterval |-> S(""),
                        IsRawQuery |-> S(""), FillValue |-> S("1.5"), Location |-> loc, TimeAlias |-> S("")])

(* SELECT time AS ts, count(DISTINCT v, 1) INTO db..t FROM /^m/, (SELECT c FROM n)
   WHERE host =~ /^x$/ AND time = 's' GROUP BY time(5m) ORDER BY time DESC LIMIT 10 TZ('America/Chicago') *)
ModelStmt ==
  Stmt(<<FieldT(VarRef("time"), "ts"),
         FieldT(CallT("count", <<N("Distinct", [Val |-> S("v")]), N("IntegerLiteral", [Val |-> S("1")])>>), "")>>,
       P(N("Target", [Measurement |-> P(Meas("db", "t", NilP, "1", IF TargetSysIter THEN "sys" ELSE ""))])),
       <<Meas("", "", P(Regex("^m")), "", ""),
         N("SubQuery", [Statement |-> P(Stmt(<<FieldT(VarRef("c"), "")>>, NilP, <<Meas("", "n", NilP, "", "")>>,
                                             NilP, NilL, NilL, "", NilP))])>>,
       P(Bin("AND", Bin("=~", VarRef("host"), Regex("^x$")), Bin("=", VarRef("time"), N("StringLiteral", [Val |-> S("s")])))),
       L(<<N("Dimension", [Expr |-> P(CallT("time", <<N("DurationLiteral", [Val |-> S("5m")])>>))])>>),
       L(<<N("SortField", [Name |-> S("time"), Ascending |-> S("")])>>),
       "10", P(N("loc", [s |-> S("America/Chicago")])))

(* ------------------------------------------------------------------ Clone, as written *)
LeafKinds == {"VarRef", "Distinct", "IntegerLiteral", "NumberLiteral", "UnsignedLiteral", "StringLiteral",
              "BooleanLiteral", "DurationLiteral", "TimeLiteral", "Wildcard"}

RECURSIVE DCloneExpr(_, _), DCloneStmt(_, _), DCloneSource(_, _), DCloneList(_, _, _), DCloneElem(_, _, _)

AllocSlice(hp, ids) == IF ids = <<>> THEN [h |-> hp, cell |-> Sl(0, 0)]
                       ELSE LET a == Alloc(hp, Arr(ids)) IN [h |-> a.h, cell |-> Sl(a.id, Len(ids))]

\* CloneExpr (ast.go): one struct literal per node kind; every field of the leaf kinds is listed there
DCloneExpr(hp, id) ==
  IF id = 0 THEN [h |-> hp, id |-> 0] ELSE
  LET o == hp[id] IN
  CASE o.k = "BinaryExpr" ->
         LET l == DCloneExpr(hp, o.f.LHS.id)
             r == DCloneExpr(l.h, o.f.RHS.id)
         IN Alloc(r.h, Obj("BinaryExpr", [Op |-> o.f.Op, LHS |-> Ptr(l.id), RHS |-> Ptr(r.id)]))
    [] o.k = "ParenExpr" ->
         LET e == DCloneExpr(hp, o.f.Expr.id) IN Alloc(e.h, Obj("ParenExpr", [Expr |-> Ptr(e.id)]))
    [] o.k = "Call" ->
         LET as == DCloneList("expr", hp, SliceElems(hp, o.f.Args))
             sl == AllocSlice(as.h, as.ids)                        \* args := make([]Expr, len(expr.Args))
         IN Alloc(sl.h, Obj("Call", [Name |-> o.f.Name, Args |-> sl.cell]))
    [] o.k = "RegexLiteral" -> Alloc(hp, Obj("RegexLiteral", [Val |-> o.f.Val]))   \* shares the *regexp.Regexp (A1)
    [] o.k \in LeafKinds -> Alloc(hp, Obj(o.k, o.f))

DCloneList(kind, hp, ids) ==
  IF ids = <<>> THEN [h |-> hp, ids |-> <<>>]
  ELSE LET x == DCloneElem(kind, hp, Head(ids))
           r == DCloneList(kind, x.h, Tail(ids))
       IN [h |-> r.h, ids |-> <<x.id>> \o r.ids]

DCloneElem(kind, hp, id) ==
  CASE kind = "expr" -> DCloneExpr(hp, id)
    [] kind = "field" -> LET e == DCloneExpr(hp, hp[id].f.Expr.id)      \* &Field{Expr: CloneExpr(f.Expr), Alias: f.Alias}
                         IN Alloc(e.h, Obj("Field", [Expr |-> Ptr(e.id), Alias |-> hp[id].f.Alias]))
    [] kind = "dim" -> LET e == DCloneExpr(hp, hp[id].f.Expr.id)        \* &Dimension{Expr: CloneExpr(d.Expr)}
                       IN Alloc(e.h, Obj("Dimension", [Expr |-> Ptr(e.id)]))
    [] kind = "sort" -> Alloc(hp, Obj("SortField", [Name |-> hp[id].f.Name, Ascending |-> hp[id].f.Ascending]))
    [] kind = "source" -> DCloneSource(hp, id)

\* a new RegexLiteral around a NEW compiled regexp (Measurement.Clone: Val.Copy(); CloneRegexLiteral: MustCompile)
DCloneRegexLit(hp, id) ==
  IF id = 0 THEN [h |-> hp, id |-> 0]
  ELSE LET re == Alloc(hp, hp[hp[id].f.Val.id])
       IN Alloc(re.h, Obj("RegexLiteral", [Val |-> Ptr(re.id)]))

\* cloneSource: Measurement.Clone copies all six fields; a SubQuery gets a clone of its statement
DCloneSource(hp, id) ==
  LET o == hp[id] IN
  IF o.k = "Measurement"
  THEN LET rx == DCloneRegexLit(hp, o.f.Regex.id)
       IN Alloc(rx.h, Obj("Measurement", [o.f EXCEPT !.Regex = Ptr(rx.id)]))
  ELSE LET st == DCloneStmt(hp, o.f.Statement.id)
       IN Alloc(st.h, Obj("SubQuery", [Statement |-> Ptr(st.id)]))

\* SelectStatement.Clone: clone := *s, then Fields, Dimensions, Sources, SortFields, Condition, Target are rebuilt
DCloneStmt(hp, id) ==
  LET s == hp[id]
      fl == DCloneList("field", hp, SliceElems(hp, s.f.Fields))
      fa == AllocSlice(fl.h, fl.ids)
      dl == DCloneList("dim", fa.h, SliceElems(fa.h, s.f.Dimensions))
      da == AllocSlice(dl.h, dl.ids)
      sl == DCloneList("source", da.h, SliceElems(da.h, s.f.Sources))
      sa == AllocSlice(sl.h, sl.ids)
      ol == DCloneList("sort", sa.h, SliceElems(sa.h, s.f.SortFields))
      oa == AllocSlice(ol.h, ol.ids)
      cd == DCloneExpr(oa.h, s.f.Condition.id)
      tg == IF s.f.Target.id = 0 THEN [h |-> cd.h, id |-> 0]
            ELSE LET m == cd.h[cd.h[s.f.Target.id].f.Measurement.id]
                     rx == DCloneRegexLit(cd.h, m.f.Regex.id)
                     \* &Measurement{Database, RetentionPolicy, Name, Regex}: IsTarget and SystemIterator are not listed
                     nm == Alloc(rx.h, Obj("Measurement",
                              [Database |-> m.f.Database, RetentionPolicy |-> m.f.RetentionPolicy, Name |-> m.f.Name,
                               Regex |-> Ptr(rx.id),
                               IsTarget |-> IF DevIsTarget THEN Sc("") ELSE m.f.IsTarget,
                               SystemIterator |-> Sc("")]))
                 IN Alloc(nm.h, Obj("Target", [Measurement |-> Ptr(nm.id)]))
  IN Alloc(tg.h, Obj("SelectStatement",
        [s.f EXCEPT !.Fields = fa.cell, !.Dimensions = da.cell, !.Sources = sa.cell, !.SortFields = oa.cell,
                    !.Condition = Ptr(cd.id), !.Target = Ptr(tg.id)]))

(* ------------------------------------------------------------------ writes *)
SetCell(hp, id, fld, cell) == [hp EXCEPT ![id] = [@ EXCEPT !.f = [@ EXCEPT ![fld] = cell]]]
SetElem(hp, arr, i, id2) == [hp EXCEPT ![arr] = [@ EXCEPT !.e = [@ EXCEPT ![i] = id2]]]
FreshLeaf(hp, tag) == Alloc(hp, Obj("VarRef", [Val |-> Sc(tag), Type |-> Sc("")]))

\* fresh, well-typed values for Mutate: Go's static types keep a []*Field a list of fields etc.
FreshByField(fld) ==
  CASE fld \in {"Expr", "LHS", "RHS", "Condition"} -> VarRef("fresh")
    [] fld = "Target" -> N("Target", [Measurement |-> P(Meas("", "fresh", NilP, "1", ""))])
    [] fld = "Measurement" -> Meas("", "fresh", NilP, "1", "")
    [] fld = "Regex" -> Regex("fresh")
    [] fld = "Val" -> N("re", [s |-> S("fresh")])
    [] fld = "Location" -> N("loc", [s |-> S("fresh")])
    [] fld = "Statement" -> Stmt(<<FieldT(VarRef("fresh"), "")>>, NilP, <<Meas("", "fresh", NilP, "", "")>>,
                                 NilP, NilL, NilL, "", NilP)
FreshByList(fld) ==
  CASE fld = "Fields" -> FieldT(VarRef("fresh"), "fresh")
    [] fld = "Dimensions" -> N("Dimension", [Expr |-> P(VarRef("fresh"))])
    [] fld = "SortFields" -> N("SortField", [Name |-> S("fresh"), Ascending |-> S("1")])
    [] fld = "Sources" -> Meas("", "fresh", NilP, "", "")
    [] fld = "Args" -> VarRef("fresh")
ElemClass(k) == IF k = "Field" THEN "Fields" ELSE IF k = "Dimension" THEN "Dimensions"
                ELSE IF k = "SortField" THEN "SortFields" ELSE IF k \in {"Measurement", "SubQuery"} THEN "Sources"
                ELSE "Args"

IsKind(hp, id, k) == id # 0 /\ hp[id].k = k
IsTimeRef(hp, id) == IsKind(hp, id, "VarRef") /\ hp[id].f.Val.v = "time"
IsTimeCmp(hp, id) == IsKind(hp, id, "BinaryExpr") /\ IsTimeRef(hp, hp[id].f.LHS.id)
ExactRegex(hp, id) == IsKind(hp, id, "RegexLiteral") /\ IsKind(hp, hp[id].f.Val.id, "re") /\ hp[hp[id].f.Val.id].f.s.v = "^x$"

\* apply a per-object update to every object of a set, in some order
RECURSIVE ApplyAll(_, _, _)
Upd(kind, hp, id) ==
  LET o == hp[id] IN
  CASE kind = "regex" ->      \* RewriteRegexConditions: be.Op = EQ / NEQ ; be.RHS = &StringLiteral{...}
         IF o.k = "BinaryExpr" /\ o.f.Op.v \in {"=~", "!~"} /\ ExactRegex(hp, o.f.RHS.id)
         THEN LET lit == Alloc(hp, Obj("StringLiteral", [Val |-> Sc("x")]))
              IN SetCell(SetCell(lit.h, id, "Op", Sc(IF o.f.Op.v = "=~" THEN "=" ELSE "!=")), id, "RHS", Ptr(lit.id))
         ELSE hp
    [] kind = "distinct" ->   \* RewriteDistinct: n.Expr = expr.NewCall() ; n.Args[i] = arg.NewCall()
         IF o.k = "Field" /\ IsKind(hp, o.f.Expr.id, "Distinct")
         THEN LET c == Alloc(hp, Obj("Call", [Name |-> Sc("distinct"), Args |-> Sl(0, 0)])) IN SetCell(c.h, id, "Expr", Ptr(c.id))
         ELSE IF o.k = "[]" /\ \E i \in 1..Len(o.e) : hp[o.e[i]].k = "Distinct"
         THEN LET i == CHOOSE j \in 1..Len(o.e) : hp[o.e[j]].k = "Distinct"
                  c == Alloc(hp, Obj("Call", [Name |-> Sc("distinct"), Args |-> Sl(0, 0)]))
              IN SetElem(c.h, id, i, c.id)
         ELSE hp
    [] kind = "timecond" ->   \* rewriteWithoutTimeDimensions: Rewrite assigns n.LHS / n.RHS in place
         IF o.k = "BinaryExpr" /\ \E x \in {"LHS", "RHS"} : IsTimeCmp(hp, o.f[x].id)
         THEN LET x == CHOOSE y \in {"LHS", "RHS"} : IsTimeCmp(hp, o.f[y].id)
                  b == Alloc(hp, Obj("BooleanLiteral", [Val |-> Sc("true")]))
              IN SetCell(b.h, id, x, Ptr(b.id))
         ELSE hp
    [] kind = "modrefs" ->    \* Rewrite with a rewriter that replaces VarRef / StringLiteral children
         IF o.k = "[]" THEN
              IF \E i \in 1..Len(o.e) : hp[o.e[i]].k \in {"VarRef", "StringLiteral"}
              THEN LET i == CHOOSE j \in 1..Len(o.e) : hp[o.e[j]].k \in {"VarRef", "StringLiteral"}
                       n == Alloc(hp, Obj(hp[o.e[i]].k, [hp[o.e[i]].f EXCEPT !.Val = Sc(@.v \o "~")]))
                   IN SetElem(n.h, id, i, n.id)
              ELSE hp
         ELSE IF \E x \in DOMAIN o.f : o.f[x].t = "p" /\ o.f[x].id # 0 /\ hp[o.f[x].id].k \in {"VarRef", "StringLiteral"}
              THEN LET x == CHOOSE y \in DOMAIN o.f : o.f[y].t = "p" /\ o.f[y].id # 0 /\ hp[o.f[y].id].k \in {"VarRef", "StringLiteral"}
                       n == Alloc(hp, Obj(hp[o.f[x].id].k, [hp[o.f[x].id].f EXCEPT !.Val = Sc(@.v \o "~")]))
                   IN SetCell(n.h, id, x, Ptr(n.id))
              ELSE hp
    [] kind = "walkall" ->    \* a visitor writing into every node it meets (as RewriteFields does with ref.Type)
         IF o.k \in LeafKinds \cup {"Call", "Field", "Measurement", "SortField"}
         THEN LET x == CHOOSE y \in DOMAIN o.f : o.f[y].t = "v" IN SetCell(hp, id, x, Sc(o.f[x].v \o "~"))
         ELSE hp
    [] kind = "reftypes" ->   \* RewriteFields: ref.Type = typ on every VarRef of Fields and Condition
         IF o.k = "VarRef" THEN SetCell(hp, id, "Type", Sc("float")) ELSE hp
    [] kind = "dimexpr" ->    \* SelectStatement.Reduce: d.Expr = Reduce(d.Expr, valuer)
         IF o.k = "Dimension" THEN LET n == FreshLeaf(hp, "reduced") IN SetCell(n.h, id, "Expr", Ptr(n.id)) ELSE hp
ApplyAll(kind, hp, ids) ==
  IF ids = {} THEN hp
  ELSE LET x == CHOOSE y \in ids : TRUE IN ApplyAll(kind, Upd(kind, hp, x), ids \ {x})

\* nodes of a statement that Rewrite / RewriteDistinct reach: Fields, Dimensions, Condition (Rewrite has no case
\* for Sources, so sub-queries are not entered)
Local(hp, s) == Reach(hp, hp[s].f.Fields.id) \cup Reach(hp, hp[s].f.Dimensions.id) \cup Reach(hp, hp[s].f.Condition.id)
MutSet(hp, ids) == {i \in ids : hp[i].k \notin Immutable}

InPlaceOps == {"RewriteRegexConditions", "RewriteDistinct", "RewriteTimeFields", "SetTimeRange", "RewriteMod",
               "WalkMutateAll", "GroupByInterval"}

DRewrite(op, hp, s) ==
  LET o == hp[s] IN
  CASE op = "RewriteRegexConditions" -> ApplyAll("regex", hp, MutSet(hp, Reach(hp, o.f.Condition.id)))
    [] op = "RewriteDistinct" ->
         LET h1 == ApplyAll("distinct", hp, MutSet(hp, Reach(hp, o.f.Fields.id)))
         IN SetCell(h1, s, "IsRawQuery", Sc(""))
    [] op = "RewriteTimeFields" ->
         \* s.TimeAlias = alias ; s.Fields = append(s.Fields[:i], s.Fields[i+1:]...)  -- shifts INSIDE the backing array
         LET fs == SliceElems(hp, o.f.Fields)
             hit == {i \in 1..Len(fs) : IsTimeRef(hp, hp[fs[i]].f.Expr.id)}
         IN IF hit = {} THEN hp
            ELSE LET i == CHOOSE j \in hit : TRUE
                     arr == o.f.Fields.id
                     e == hp[arr].e
                     e2 == [j \in 1..Len(e) |-> IF j >= i /\ j < o.f.Fields.n THEN e[j + 1] ELSE e[j]]
                     h1 == [hp EXCEPT ![arr] = [@ EXCEPT !.e = e2]]
                     h2 == SetCell(h1, s, "Fields", Sl(arr, o.f.Fields.n - 1))
                 IN SetCell(h2, s, "TimeAlias", hp[fs[i]].f.Alias)
    [] op = "SetTimeRange" ->
         LET h1 == ApplyAll("timecond", hp, MutSet(hp, Reach(hp, o.f.Condition.id)))
             n == FreshLeaf(h1, "timerange")
         IN SetCell(n.h, s, "Condition", Ptr(n.id))
    [] op = "RewriteMod" -> ApplyAll("modrefs", hp, MutSet(hp, Local(hp, s)))
    [] op = "WalkMutateAll" -> ApplyAll("walkall", hp, MutSet(hp, Reach(hp, s)))
    [] op = "GroupByInterval" -> SetCell(hp, s, "groupByInterval", Sc("5m"))      \* the memo (A2)

DerivedOps == {"Reduce", "RewriteFields", "Query"}
\* what a derived operation does to the heap; its result is dropped (A4)
DDerived(op, hp, s) ==
  CASE op = "Reduce" ->        \* stmt := s.Clone(); stmt.Condition = ..; d.Expr = ..; sub-queries likewise
         LET t == DCloneStmt(hp, s)
             c == FreshLeaf(t.h, "reduced")
             h1 == SetCell(c.h, t.id, "Condition", Ptr(c.id))
         IN ApplyAll("dimexpr", h1, MutSet(h1, Reach(h1, t.id)))
    [] op = "RewriteFields" -> \* other := s.Clone(); ref.Type = typ over other.Fields and other.Condition
         LET t == DCloneStmt(hp, s)
             ids == Reach(t.h, t.h[t.id].f.Fields.id) \cup Reach(t.h, t.h[t.id].f.Condition.id)
         IN ApplyAll("reftypes", t.h, MutSet(t.h, ids))
    [] op = "Query" -> hp      \* String, ColumnNames, RequiredPrivileges, Eval*, names, ConditionExpr: no writes

(* ------------------------------------------------------------------ the state machine *)
Root(side) == IF side = "o" THEN orig ELSE clone
Sides == IF clone = 0 THEN {"o"} ELSE {"o", "c"}
NoTree == [k |-> "none"]

\* record the step and observe both roots after it (h', orig', clone' are already determined)
Observe(a, side, op) ==
  /\ last' = [a |-> a, side |-> side, op |-> op]
  /\ prevO' = curO /\ prevC' = curC
  /\ curO' = Struct(h', orig')
  /\ curC' = IF clone' = 0 THEN NoTree ELSE Struct(h', clone')
  /\ curShared' = IF clone' = 0 THEN {} ELSE MutReach(h', orig') \cap MutReach(h', clone')

Init == LET b == Build(<<>>, ModelStmt) IN
        /\ h = b.h /\ orig = b.id /\ clone = 0 /\ post = 0
        /\ last = [a |-> "init", side |-> "o", op |-> ""]
        /\ curO = Struct(b.h, b.id) /\ curC = NoTree /\ curShared = {}
        /\ prevO = NoTree /\ prevC = NoTree

Pre == /\ clone = 0 /\ last.a = "init"
       /\ UNCHANGED <<orig, clone, post>>
       /\ \E op \in PreOps :
            /\ h' = DRewrite(op, h, orig)
            /\ Observe("rewrite", "o", op)

Clone == /\ clone = 0
         /\ UNCHANGED <<orig, post>>
         /\ LET c == DCloneStmt(h, orig) IN h' = c.h /\ clone' = c.id
         /\ Observe("clone", "o", "Clone")

MutateAt(side, id) ==
  LET o == h[id] IN
  IF o.k = "[]"
  THEN \E i \in 1..Len(o.e) :                                       \* a[i] = fresh
         LET n == Build(h, FreshByList(ElemClass(h[o.e[i]].k))) IN h' = SetElem(n.h, id, i, n.id)
  ELSE \E fld \in DOMAIN o.f :
         LET c == o.f[fld] IN
         IF c.t = "v" THEN h' = SetCell(h, id, fld, Sc(c.v \o "~"))
         ELSE IF c.t = "p" THEN LET n == Build(h, FreshByField(fld)) IN h' = SetCell(n.h, id, fld, Ptr(n.id))
         ELSE \E kind \in {"append", "shift"} :
                IF kind = "append"                                      \* cap = len: append reallocates
                THEN LET n == Build(h, FreshByList(fld))
                         a == Alloc(n.h, Arr(SliceElems(n.h, c) \o <<n.id>>))
                     IN h' = SetCell(a.h, id, fld, Sl(a.id, c.n + 1))
                ELSE IF c.n = 0 THEN FALSE
                ELSE LET e == h[c.id].e                                 \* copy(s, s[1:]); s = s[:n-1]
                         e2 == [j \in 1..Len(e) |-> IF j < c.n THEN e[j + 1] ELSE e[j]]
                     IN h' = SetCell([h EXCEPT ![c.id] = [@ EXCEPT !.e = e2]], id, fld, Sl(c.id, c.n - 1))

Mutate == /\ clone # 0 /\ post < MaxPost /\ (MutateLast \/ post = 0)
          /\ post' = post + 1
          /\ UNCHANGED <<orig, clone>>
          /\ \E side \in Sides : \E id \in MutReach(h, Root(side)) :
               /\ MutateAt(side, id)
               /\ Observe("mutate", side, h[id].k)

Rewrite == /\ clone # 0 /\ post < MaxPost
           /\ post' = post + 1
           /\ UNCHANGED <<orig, clone>>
           /\ \E side \in Sides : \E op \in InPlaceOps :
                /\ h' = DRewrite(op, h, Root(side))
                /\ Observe("rewrite", side, op)

Derived == /\ clone # 0 /\ post < MaxPost
           /\ post' = post + 1
           /\ UNCHANGED <<orig, clone>>
           /\ \E side \in Sides : \E op \in DerivedOps :
                /\ h' = DDerived(op, h, Root(side))
                /\ Observe("derived", side, op)

Next == Pre \/ Clone \/ Mutate \/ Rewrite \/ Derived
Spec == Init /\ [][Next]_vars

(* ------------------------------------------------------------------ the claims, as invariants *)
Before == [o |-> prevO, c |-> prevC]
After == [o |-> curO, c |-> curC, shared |-> curShared]

InvFaithfulStrict == last.a = "clone" => Faithful(After)
InvFaithful == last.a = "clone" => (Faithful(After) \/ Dev_CloneDropsIsTarget(curO, curC))
InvDisjoint == clone # 0 => Disjoint(After)
InvOther == (clone # 0 /\ last.a \in {"mutate", "rewrite", "derived"}) => OtherUnchanged(Before, last, After)
InvReceiver == (clone # 0 /\ last.a = "derived") => ReceiverUnchanged(Before, last, After)
\* where the clone differs from the original (printed once, at the Clone step; always TRUE)
InvReport == last.a = "clone" => PrintT(<<"CLONE-DIFF", IF curO = curC THEN "(none)" ELSE DiffPath(curO, curC)>>)
\* sanity of the model itself (checked with MaxPost = 1, no pre-step): every mutate step is visible in
\* the snapshot of the side it was applied to
InvMutateVisible == (clone # 0 /\ last.a = "mutate") =>
                      (IF last.side = "o" THEN curO # prevO ELSE curC # prevC)
=============================================================================
