----------------------------- MODULE CloneProps -----------------------------
(* C14 - property spec.  What must hold, independent of how Clone is written.

   Observation of a history: a sequence of steps.  Before and after every step there is
     o, c      structural snapshots of the original and of the clone (record trees in the
               normal form of harness/project.go snapshot(): field "k" = Go type name, one
               field per struct field - unexported ones included -, zero values omitted)
     shared    the mutable nodes reachable from both roots
   and the step itself says what was done through which root:
     a    \in {"clone", "mutate", "rewrite", "derived"}      side \in {"o", "c"}

   Claims (each is an operator over (before, step, after)):
     Faithful            right after Clone / CloneExpr:  after.c = after.o
     Disjoint            after every step:               after.shared = {}
     OtherUnchanged      a step through one root leaves the snapshot of the other root as it was
     ReceiverUnchanged   a derived (read-only by the property's list) operation leaves the
                         snapshot of the root it was called on as it was

   Assumptions, stated once:
     A1  A "mutable node" is a heap object that can be written through the AST: a struct
         reached through a pointer (every Node type, Target, Measurement, Field, ...) or the
         backing array of a slice (Fields, Dimensions, Sources, SortFields, Call.Args).
         A compiled *regexp.Regexp and a *time.Location are VALUES, not nodes: neither the
         package nor a caller can change what they denote through the AST (the package never
         calls Regexp.Longest, the only mutator of regexp's API; the snapshot shows a regexp
         as its source text and a location as its name).  CloneExpr shares the *regexp.Regexp
         of a RegexLiteral and Clone copies the Location pointer: allowed.  Strings, numbers,
         time.Time, the number held by FillValue are copied by value.
     A2  GroupByInterval memoises into its receiver.  It is none of "Reduce, RewriteFields,
         evaluation, printing and the name and privilege queries": it is treated as an
         in-place operation (a mutation source), never judged as read-only.
     A3  The read-only list is taken as: SelectStatement.Reduce, Reduce(expr), RewriteFields,
         Eval / EvalBool / ValuerEval / EvalType / TypeValuerEval / ConditionExpr (evaluation),
         every String() (printing), ColumnNames, Fields.Names / AliasNames, Field.Name,
         FieldExprByName, ExprNames, BinaryExprName, TimeFieldName, HasWildcard & co. (name
         queries), RequiredPrivileges (privilege queries).
     A4  Nothing is demanded of the RESULT of Reduce / RewriteFields (it may share nodes with
         its receiver); only the receiver is judged.                                     *)
EXTENDS Naturals, Sequences, TLC

Has(r, f) == f \in DOMAIN r
Remove(r, f) == [x \in DOMAIN r \ {f} |-> r[x]]

Faithful(after) == after.c = after.o
Disjoint(after) == after.shared = {}
OtherUnchanged(before, step, after) ==
  IF step.side = "o" THEN after.c = before.c ELSE after.o = before.o
ReceiverUnchanged(before, step, after) ==
  step.a = "derived" => (IF step.side = "o" THEN after.o = before.o ELSE after.c = before.c)

(* ---- shape of snapshot trees (only what is needed to name a difference) -------------- *)
NodeF == {"Expr", "LHS", "RHS", "Condition", "Target", "Measurement", "Regex", "Statement",
          "FillValue", "Location"}
ListF == {"Fields", "Dimensions", "Sources", "SortFields", "Args"}
IsNodeField(k, f) == f \in NodeF \/ (f = "Val" /\ k = "RegexLiteral")

\* field-name path (no indices) of the first difference between two snapshot trees
RECURSIVE DiffPath(_, _)
DiffPath(a, b) ==
  IF a.k # b.k THEN "(" \o a.k \o "/" \o b.k \o ")"
  ELSE IF DOMAIN a # DOMAIN b
       THEN CHOOSE f \in (DOMAIN a \ DOMAIN b) \cup (DOMAIN b \ DOMAIN a) : TRUE
  ELSE IF a = b THEN "(equal)"
  ELSE LET f == CHOOSE g \in DOMAIN a : a[g] # b[g] IN
       IF IsNodeField(a.k, f) THEN f \o "." \o DiffPath(a[f], b[f])
       ELSE IF f \in ListF
            THEN IF Len(a[f]) # Len(b[f]) THEN f \o "(len)"
                 ELSE LET i == CHOOSE j \in 1..Len(a[f]) : a[f][j] # b[f][j]
                      IN f \o "." \o DiffPath(a[f][i], b[f][i])
       ELSE f

\* coarse place of the first difference: top-level field and innermost field (few distinct values)
RECURSIVE DiffLeaf(_, _)
DiffLeaf(a, b) ==
  IF a.k # b.k THEN "(kind)"
  ELSE IF DOMAIN a # DOMAIN b
       THEN CHOOSE f \in (DOMAIN a \ DOMAIN b) \cup (DOMAIN b \ DOMAIN a) : TRUE
  ELSE IF a = b THEN "(equal)"
  ELSE LET f == CHOOSE g \in DOMAIN a : a[g] # b[g] IN
       IF IsNodeField(a.k, f) THEN DiffLeaf(a[f], b[f])
       ELSE IF f \in ListF
            THEN IF Len(a[f]) # Len(b[f]) THEN f \o "(len)"
                 ELSE LET i == CHOOSE j \in 1..Len(a[f]) : a[f][j] # b[f][j] IN DiffLeaf(a[f][i], b[f][i])
       ELSE f
DiffTop(a, b) ==
  IF a.k # b.k THEN "(root)"
  ELSE IF DOMAIN a # DOMAIN b THEN CHOOSE f \in (DOMAIN a \ DOMAIN b) \cup (DOMAIN b \ DOMAIN a) : TRUE
  ELSE IF a = b THEN "(equal)" ELSE CHOOSE g \in DOMAIN a : a[g] # b[g]
DiffPlace(a, b) == LET t == DiffTop(a, b) l == DiffLeaf(a, b) IN IF t = l THEN t ELSE t \o ".." \o l

(* ---- named deviation -------------------------------------------------------------------
   Dev_CloneDropsIsTarget: SelectStatement.Clone rebuilds the INTO target's Measurement
   from Database, RetentionPolicy, Name and Regex only; IsTarget (set by the parser on
   every INTO target) is lost, at every nesting depth (sub-queries are cloned through the
   same method).  The predicate recognises exactly this: the clone equals the original
   with IsTarget removed from every Target.Measurement, and differs from the original.   *)
RECURSIVE DropIsTarget(_)
DropIsTarget(s) ==
  IF s.k # "SelectStatement" THEN s ELSE
  LET s1 == IF Has(s, "Target") /\ Has(s.Target, "Measurement")
            THEN [s EXCEPT !.Target = [s.Target EXCEPT !.Measurement = Remove(s.Target.Measurement, "IsTarget")]]
            ELSE s
  IN IF Has(s1, "Sources")
     THEN LET src == s1.Sources IN
          [s1 EXCEPT !.Sources = [i \in 1..Len(src) |->
              IF src[i].k = "SubQuery" /\ Has(src[i], "Statement")
              THEN [src[i] EXCEPT !.Statement = DropIsTarget(src[i].Statement)]
              ELSE src[i]]]
     ELSE s1

Dev_CloneDropsIsTarget(o, c) == c # o /\ c = DropIsTarget(o)
\* the same deviation, separated from whatever else may differ (used by the judge so that a second,
\* unrelated difference is still reported as a violation besides the known finding):
\*   Dev_CloneDropsIsTarget(o, c)  <=>  IsTargetLost(o, c) /\ SameUpToIsTarget(o, c)
SameUpToIsTarget(o, c) == DropIsTarget(c) = DropIsTarget(o)
IsTargetLost(o, c) == DropIsTarget(o) # o /\ DropIsTarget(c) = c
=============================================================================
