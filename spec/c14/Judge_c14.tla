----------------------------- MODULE Judge_c14 -----------------------------
(* C14 - pass V: every recorded history of the real code is judged here, step by step.
   Record: [id, sid, kind, text, pre, steps (the case), obs |-> [steps |-> <<..>>] | [err] | [clonepanic]]
   obs.steps[1] is the Clone / CloneExpr step; a recorded step is
     [a, side, op, eff, shared |-> <<[t, p]..>>, so?, sc?, panic?, skip?]
   so / sc = snapshot of the original / the clone AFTER the step, present only when it differs
   from the snapshot of that side before the step (the driver compares SHA-256 digests of the
   JSON; the first step always carries so, and sc when it differs from so).
   The abstract state (o, c, shared) of CloneProps is carried along the steps; the claims
   are evaluated at every step:
     faithful               after Clone the clone's snapshot differs from the original's
     Dev_CloneDropsIsTarget ... by the named deviation: every INTO flag of the original is absent in the
                            clone (known finding); any OTHER difference is reported as faithful besides it
     shared-node            a mutable node is reachable from both roots (reported at the step introducing it)
     other-changed          a step through one root changed the snapshot of the other root
     receiver-changed       a derived (read-only) operation changed its receiver
     clone-panic            Clone / CloneExpr of an accepted input did not return
   Panics of later steps are counted, not judged (totality is C13).                    *)
EXTENDS CloneProps, Json, CSV, IOUtils

VARIABLES l, acc
vars == <<l, acc>>

Trace == ndJsonDeserialize(IOEnv.OBS_FILE)
V(cl, s) == [class |-> cl, sig |-> s]

SharedSet(s) == {s.shared[i] : i \in 1..Len(s.shared)}
\* coarse name of a step: the operation; every mutate step is just "mutate"
OpName(s) == IF s.a = "mutate" THEN "mutate" ELSE s.op
NoCount == [x \in {} |-> 0]
Inc(f, k) == IF k \in DOMAIN f THEN [f EXCEPT ![k] = @ + 1] ELSE f @@ (k :> 1)
Merge(f, g) == [k \in DOMAIN f \cup DOMAIN g |-> (IF k \in DOMAIN f THEN f[k] ELSE 0) + (IF k \in DOMAIN g THEN g[k] ELSE 0)]
Zero == [vs |-> {}, eff |-> 0, der |-> 0, pan |-> 0, skip |-> 0, noop |-> 0, n |-> 0, hang |-> 0, act |-> NoCount, kind |-> ""]

JudgeStep(i, s, st) ==
  LET before == [o |-> st.o, c |-> st.c]
      after == [o |-> IF Has(s, "so") THEN s.so ELSE st.o,
                c |-> IF Has(s, "sc") THEN s.sc ELSE IF i = 1 THEN s.so ELSE st.c,
                shared |-> SharedSet(s)]
      step == [a |-> s.a, side |-> s.side]
      \* sharing is reported at the step that introduces it (it persists through the later steps)
      vShared == IF Disjoint(after) \/ after.shared \subseteq st.shared THEN {}
                 ELSE LET x == CHOOSE y \in after.shared \ st.shared : TRUE
                      IN {V("shared-node", OpName(s) \o ":" \o x.t \o "@" \o x.p)}
      \* Faithful, with the named deviation split off (CloneProps: Dev_CloneDropsIsTarget <=> IsTargetLost /\ SameUpToIsTarget)
      vClone == IF i # 1 \/ Faithful(after) THEN {}
                ELSE (IF SameUpToIsTarget(after.o, after.c) THEN {}
                      ELSE {V("faithful", s.op \o ":" \o DiffPlace(DropIsTarget(after.o), DropIsTarget(after.c)))})
                     \cup (IF IsTargetLost(after.o, after.c) THEN {V("Dev_CloneDropsIsTarget", "")}
                           ELSE IF SameUpToIsTarget(after.o, after.c)
                                THEN {V("faithful", s.op \o ":" \o DiffPlace(after.o, after.c))} ELSE {})
      vOther == IF i = 1 \/ OtherUnchanged(before, step, after) THEN {}
                ELSE {V("other-changed", OpName(s) \o ":" \o
                        (IF s.side = "o" THEN DiffPlace(before.c, after.c) ELSE DiffPlace(before.o, after.o)))}
      vRecv == IF i = 1 \/ ReceiverUnchanged(before, step, after) THEN {}
               ELSE {V("receiver-changed", s.op \o ":" \o
                        (IF s.side = "o" THEN DiffPlace(before.o, after.o) ELSE DiffPlace(before.c, after.c)))}
      pan == Has(s, "panic")
      skp == Has(s, "skip")
  IN [o |-> after.o, c |-> after.c, shared |-> after.shared,
      vs |-> st.vs \cup vShared \cup vClone \cup vOther \cup vRecv,
      eff |-> st.eff + (IF i > 1 /\ s.eff THEN 1 ELSE 0),
      der |-> st.der + (IF s.a = "derived" /\ ~pan THEN 1 ELSE 0),
      pan |-> st.pan + (IF pan THEN 1 ELSE 0),
      skip |-> st.skip + (IF skp THEN 1 ELSE 0),
      noop |-> st.noop + (IF s.a = "mutate" /\ ~skp /\ ~pan /\ ~s.eff THEN 1 ELSE 0),
      n |-> st.n + 1, hang |-> 0, kind |-> st.kind,
      \* vacuity measure: derived steps whose result differed from its input ("act", reported by the driver), per operation
      act |-> IF s.a = "derived" /\ ~pan /\ Has(s, "act") /\ s.act THEN Inc(st.act, "act_" \o st.kind \o "_" \o s.op) ELSE st.act]

RECURSIVE Run(_, _, _)
Run(steps, i, st) == IF i > Len(steps) THEN st ELSE Run(steps, i + 1, JudgeStep(i, steps[i], st))

NoTree == [k |-> "none"]
Result(r) ==
  IF Has(r.obs, "hang") THEN [Zero EXCEPT !.hang = 1]          \* the driver's watchdog fired: machinery, counted (exit 2)
  ELSE IF Has(r.obs, "harness_panic") THEN [Zero EXCEPT !.vs = {V("harness-panic", "")}]
  ELSE IF Has(r.obs, "err") THEN [Zero EXCEPT !.vs = {V("rejected", "")}]
  ELSE IF Has(r.obs, "clonepanic") THEN [Zero EXCEPT !.vs = {V("clone-panic", r.kind)}]
  ELSE Run(r.obs.steps, 1, [Zero EXCEPT !.kind = r.kind] @@ [o |-> NoTree, c |-> NoTree, shared |-> {}])

Init == l = 1 /\ acc = [nt |-> 0, steps |-> 0, eff |-> 0, der |-> 0, pan |-> 0, skip |-> 0, noop |-> 0, hang |-> 0, act |-> NoCount]
Step == /\ l <= Len(Trace)
        /\ LET r == Trace[l] res == Result(r) IN
             /\ \A v \in res.vs : CSVWrite("%1$s", <<ToJson([id |-> r.id, class |-> v.class, sig |-> v.sig])>>, IOEnv.VERDICT_FILE)
             \* non-trivial: the history visibly changed one side after the clone was taken, or ran a
             \* derived operation to completion
             /\ acc' = [nt |-> acc.nt + (IF res.eff + res.der > 0 THEN 1 ELSE 0),
                        steps |-> acc.steps + res.n, eff |-> acc.eff + res.eff, der |-> acc.der + res.der,
                        pan |-> acc.pan + res.pan, skip |-> acc.skip + res.skip, noop |-> acc.noop + res.noop,
                        hang |-> acc.hang + res.hang, act |-> Merge(acc.act, res.act)]
        /\ l' = l + 1
Finish == /\ l = Len(Trace) + 1
          /\ CSVWrite("%1$s", <<ToJson([judged |-> Len(Trace), nontrivial |-> acc.nt, steps |-> acc.steps,
                                        effective_steps |-> acc.eff, derived_steps |-> acc.der, step_panics |-> acc.pan,
                                        skipped_steps |-> acc.skip, mutate_noop |-> acc.noop, hangs |-> acc.hang] @@ acc.act)>>, IOEnv.STATS_FILE)
          /\ l' = l + 1 /\ UNCHANGED acc
Next == Step \/ Finish
Spec == Init /\ [][Next]_vars
Accepted == TLCGet("stats").diameter = Len(Trace) + 2
=============================================================================
