------------------------------- MODULE Quote -------------------------------
(* C06.  Two parts, deliberately separated.

   DESIGN (code-shaped): transcription of parser.go QuoteString / QuoteIdent /
   IdentNeedsQuotes on sequences of 1-character strings.
     qsReplacer = strings.NewReplacer("\n", `\n`, `\`, `\\`, `'`, `\'`)
     qiReplacer = strings.NewReplacer("\n", `\n`, `\`, `\\`, `"`, `\"`)
   Every old string is a single byte, so the replacer is a per-character map; bytes that
   are not one of the three (CR, NUL, invalid UTF-8 included) pass through unchanged.

   PROPERTY (declarative, says nothing about replacers): what a token list must look like
   for "scans as one string literal / one identifier with value s", for multi-part names,
   and the exactness of IdentNeedsQuotes.  The property operators take token lists
   << <<kind, literal>>, ... >> so that the same operators judge the model's scan
   (pass M, Gen_c06) and the real scanner's (pass V, Judge_c06).                        *)
EXTENDS Lexer, QStr

\* ------------------------------------------------------------------ DESIGN
Esc(c, q) == IF c = "\n" THEN <<"\\", "n">>
             ELSE IF c = "\\" THEN <<"\\", "\\">>
             ELSE IF c = q THEN <<"\\", q>>
             ELSE <<c>>
RECURSIVE EscFrom(_, _, _, _)
EscFrom(s, q, i, acc) == IF i > Len(s) THEN acc ELSE EscFrom(s, q, i + 1, acc \o Esc(s[i], q))
EscAll(s, q) == EscFrom(s, q, 1, <<>>)

QuoteString(s) == <<"'">> \o EscAll(s, "'") \o <<"'">>

LowerWord(s) == Concat([i \in 1..Len(s) |-> ToLowerCh(s[i])])
\* IdentNeedsQuotes: keyword (case-insensitively), or first rune not letter/_ , or a later
\* rune not letter/digit/_ .  The empty string needs none.
IdentNeedsQuotes(s) ==
  \/ Lookup(LowerWord(s)) # "IDENT"
  \/ \E i \in 1..Len(s) : IF i = 1 THEN ~IsIdentFirstChar(s[i]) ELSE ~IsIdentChar(s[i])

\* QuoteIdent(segments...): segs is a sequence of character sequences
SegNeedQuote(segs, i) ==
  LET g == segs[i] n == Len(segs) IN
  \/ IdentNeedsQuotes(g)
  \/ (i < n /\ g # <<>>)                       \* not the last segment and not ""
  \/ ((i = 1 \/ i = n) /\ g = <<>>)            \* first or last segment and empty
SegText(segs, i) ==
  LET body == EscAll(segs[i], "\"")
      q == IF SegNeedQuote(segs, i) THEN <<"\"">> ELSE <<>>
  IN q \o body \o q \o (IF i < Len(segs) THEN <<".">> ELSE <<>>)
RECURSIVE QIFrom(_, _, _)
QIFrom(segs, i, acc) == IF i > Len(segs) THEN acc ELSE QIFrom(segs, i + 1, acc \o SegText(segs, i))
QuoteIdent(segs) == QIFrom(segs, 1, <<>>)

\* the design's scanner (Lexer.tla, transcription of scanner.go): kinds and literals only
ScanAll(inp) == LET T == Lex(inp).toks IN [j \in 1..Len(T) |-> <<T[j].tok, T[j].lit>>]

\* ------------------------------------------------------------------ PROPERTY
EOFTok == <<"EOF", "">>
DotTok == <<".", "">>
\* "scans as one <kind> with value v"
IsOne(T, kind, v) == T = << <<kind, v>>, EOFTok >>
\* a full three-part name a.b.c
IsThreePart(T, a, b, c) == T = << <<"IDENT", a>>, DotTok, <<"IDENT", b>>, DotTok, <<"IDENT", c>>, EOFTok >>
\* a three-part name with an empty middle part: a..c (or the middle part written as "")
IsEmptyMiddle(T, a, c) == \/ T = << <<"IDENT", a>>, DotTok, DotTok, <<"IDENT", c>>, EOFTok >>
                          \/ IsThreePart(T, a, "", c)
\* for non-empty s: needs = FALSE exactly when s written bare scans as the identifier s
NeedsQuotesExact(needs, bareT, v) == (~needs) <=> IsOne(bareT, "IDENT", v)

\* the property on the design (pass M): s ranges over expressible strings
M_QuoteString(s) == IsOne(ScanAll(QuoteString(s)), "STRING", Concat(s))
M_QuoteIdent(s) == IsOne(ScanAll(QuoteIdent(<<s>>)), "IDENT", Concat(s))
M_EmptyMiddle(s) == /\ IsEmptyMiddle(ScanAll(QuoteIdent(<<s, <<>>, s>>)), Concat(s), Concat(s))
                    /\ IsEmptyMiddle(ScanAll(QuoteIdent(<<s, <<>>, <<"c">>>>)), Concat(s), "c")
                    /\ IsEmptyMiddle(ScanAll(QuoteIdent(<<<<"d">>, <<>>, s>>)), "d", Concat(s))
M_ThreePart(s) == s # <<>> => IsThreePart(ScanAll(QuoteIdent(<<s, s, s>>)), Concat(s), Concat(s), Concat(s))
M_NeedsQuotes(s) == s # <<>> => NeedsQuotesExact(IdentNeedsQuotes(s), ScanAll(s), Concat(s))
=============================================================================
