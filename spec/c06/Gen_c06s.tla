------------------------------ MODULE Gen_c06s ------------------------------
(* C06 pass G, rune sweep.  The property quantifies over EVERY expressible string; the
   alphabets of Gen_c06 name a dozen characters.  This generator covers the remaining
   dimension: every Unicode scalar value (0 .. 0x10FFFF without the surrogates) placed at a
   given position of a short ASCII frame.  One case is a block of BlockSize consecutive code
   points and a shape; the driver runs the real helpers and the real scanner on the string for
   every code point of the block, and hands back one record per maximal run of code points
   that behaved alike (non-ASCII characters are written with the representative "é" in such a
   record: the design treats all of them alike - Chars.tla classifies ASCII only).  Judge_c06
   judges every run with the operators of Quote.tla, so a code point that is dropped, folded,
   or treated as a delimiter stands out as a run of its own whose record breaks the property. *)
EXTENDS Naturals, Sequences, Json, CSV, IOUtils

CONSTANTS BlockSize, Shapes
VARIABLES b
vars == <<b>>
MaxRune == 1114111
Blocks == (MaxRune \div BlockSize) + 1
\* solo: the character alone; mid: a X b; first: X a; last: a X; esc: \ X (after a backslash);
\* q: ' X and " X (next to both quotes)
Init == b = 0
Step == /\ b < Blocks
        /\ \A s \in Shapes :
             LET hi == IF (b + 1) * BlockSize - 1 > MaxRune THEN MaxRune ELSE (b + 1) * BlockSize - 1 IN
             CSVWrite("%1$s", <<ToJson([sweep |-> <<b * BlockSize, hi>>, shape |-> s])>>, IOEnv.CASE_FILE)
        /\ b' = b + 1
Spec == Init /\ [][Step]_vars
=============================================================================
