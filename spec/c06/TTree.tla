------------------------------- MODULE TTree -------------------------------
(* Tagged AST trees (used by the C06 and C07 judges).

   TLC's equality is partial: comparing a string with a record (or a boolean) is an
   evaluation error, not FALSE.  A judge that compares an observed AST with an expected one
   must never crash on an unexpected shape - an unexpected shape is precisely the violation
   it has to report.  The harness therefore re-encodes its reflection projection
   (harness/project.go) so that every node carries its sort in the NAME of its only field:

       [s |-> "text"]      string leaf (numbers, durations, token / type names are strings)
       [b |-> TRUE]        boolean leaf
       [l |-> << .. >>]    list of nodes (never empty: empty slices are omitted)
       [r |-> [k |-> [s |-> "VarRef"], Val |-> .., ..]]
                           struct: one entry per non-zero exported field, "k" = Go type name

   Records with different field sets compare to FALSE without looking at the values, so
   equality between any two tagged nodes is total.  The constructors below mirror
   spec/common/Ast.tla (same names with a T prefix, same omit-zero conventions).          *)
EXTENDS Naturals, Sequences, TLC

S(v) == [s |-> v]
B(v) == [b |-> v]
L(q) == [l |-> q]
R(f) == [r |-> f]
IsS(x) == "s" \in DOMAIN x
IsB(x) == "b" \in DOMAIN x
IsL(x) == "l" \in DOMAIN x
IsR(x) == "r" \in DOMAIN x

\* field fragments; optional ones vanish when the value is the zero value
K(name) == [k |-> S(name)]
F(name, node) == [x \in {name} |-> node]
FS(name, v) == IF v = "" THEN <<>> ELSE F(name, S(v))
FB(name, v) == IF v THEN F(name, B(TRUE)) ELSE <<>>
FL(name, q) == IF q = <<>> THEN <<>> ELSE F(name, L(q))

\* ---------------------------------------------------------------- generic operators
\* replace every subtree equal to m by n
RECURSIVE Subst(_, _, _)
Subst(t, m, n) ==
  IF t = m THEN n
  ELSE IF IsL(t) THEN L([i \in DOMAIN t.l |-> Subst(t.l[i], m, n)])
  ELSE IF IsR(t) THEN R([x \in DOMAIN t.r |-> Subst(t.r[x], m, n)])
  ELSE t

\* the projection omits zero values: a struct field (other than a literal's "Val") whose
\* value is the empty string is absent.  NormEmpty removes such fields from a constructed tree.
RECURSIVE NormEmpty(_)
NormEmpty(t) ==
  IF IsL(t) THEN L([i \in DOMAIN t.l |-> NormEmpty(t.l[i])])
  ELSE IF IsR(t) THEN R([x \in {y \in DOMAIN t.r : ~(t.r[y] = S("") /\ y \notin {"Val", "s", "k"})} |-> NormEmpty(t.r[x])])
  ELSE t

\* the same for both kinds of zero the projection omits ("" and the number 0): applied to BOTH
\* sides of a comparison, so that `LIMIT 0` (field omitted) equals an expected Limit |-> "0"
RECURSIVE NormZ(_)
NormZ(t) ==
  IF IsL(t) THEN L([i \in DOMAIN t.l |-> NormZ(t.l[i])])
  ELSE IF IsR(t) THEN R([x \in {y \in DOMAIN t.r : ~(t.r[y] \in {S(""), S("0")} /\ y \notin {"Val", "s", "k", "v"})} |-> NormZ(t.r[x])])
  ELSE t

\* the subtrees of t that stand where pattern p has the node `hole` (p and t are walked in
\* parallel; a mismatch of shape anywhere else contributes nothing)
RECURSIVE TFind(_, _, _)
TFind(p, t, hole) ==
  IF p = hole THEN {t}
  ELSE IF IsL(p) /\ IsL(t) THEN
       IF Len(p.l) # Len(t.l) THEN {} ELSE UNION {TFind(p.l[i], t.l[i], hole) : i \in DOMAIN p.l}
  ELSE IF IsR(p) /\ IsR(t) THEN
       UNION {TFind(p.r[x], t.r[x], hole) : x \in (DOMAIN p.r \cap DOMAIN t.r)}
  ELSE {}

\* does the tree contain a node equal to m
RECURSIVE TContains(_, _)
TContains(t, m) ==
  IF t = m THEN TRUE
  ELSE IF IsL(t) THEN \E i \in DOMAIN t.l : TContains(t.l[i], m)
  ELSE IF IsR(t) THEN \E x \in DOMAIN t.r : TContains(t.r[x], m)
  ELSE FALSE

\* the Go type name of a struct node ("" for anything else)
KindOf(t) == IF IsR(t) /\ "k" \in DOMAIN t.r /\ IsS(t.r.k) THEN t.r.k.s ELSE ""

\* ---------------------------------------------------------------- AST constructors
TRef(n)        == R(K("VarRef") @@ F("Val", S(n)))
TRefN(node)    == R(K("VarRef") @@ F("Val", node))
TIntL(v)       == R(K("IntegerLiteral") @@ F("Val", S(v)))
TNumL(v)       == R(K("NumberLiteral") @@ F("Val", S(v)))
TStrL(v)       == R(K("StringLiteral") @@ F("Val", S(v)))
TStrN(node)    == R(K("StringLiteral") @@ F("Val", node))
TBoolL(v)      == R(K("BooleanLiteral") @@ F("Val", B(v)))
TDurL(v)       == R(K("DurationLiteral") @@ F("Val", S(v)))
TReL(v)        == R(K("RegexLiteral") @@ F("Val", R(K("re") @@ F("s", S(v)))))
TBin(op, a, b) == R(K("BinaryExpr") @@ F("Op", S(op)) @@ F("LHS", a) @@ F("RHS", b))
TCall(n, args) == R(K("Call") @@ F("Name", S(n)) @@ FL("Args", args))
TField(e)      == R(K("Field") @@ F("Expr", e))
TFieldA(e, a)  == R(K("Field") @@ F("Expr", e) @@ F("Alias", a))        \* a: node
TDim(e)        == R(K("Dimension") @@ F("Expr", e))
\* measurement parts are nodes so that a hole can stand in any of them
TMeasN(db, rp, n) == R(K("Measurement") @@ F("Database", db) @@ F("RetentionPolicy", rp) @@ F("Name", n))
TMeas(n)       == R(K("Measurement") @@ F("Name", S(n)))
TListL(q)      == R(K("ListLiteral") @@ F("Vals", L(q)))
\* statements: kind plus a record of the non-zero fields
TStmt(kind, fields) == R(K(kind) @@ fields)
TQuery(stmts)  == R(K("Query") @@ F("Statements", L(stmts)))
=============================================================================
