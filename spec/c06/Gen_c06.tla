------------------------------ MODULE Gen_c06 ------------------------------
(* C06 pass M + G, first family.  TLC enumerates every string s over Sigma up to length N
   (the string grows one character per step).  In every state the DESIGN (Quote: the
   transcribed helpers; Lexer: the transcribed scanner) is checked against the PROPERTY
   (Quote!IsOne / IsEmptyMiddle / NeedsQuotesExact): a bounded proof that escaping and
   unescaping are inverse in the design and that IdentNeedsQuotes is exact.  Every s is
   emitted as a case for the real helpers and the real scanner.                          *)
EXTENDS Quote, Json, CSV, IOUtils

CONSTANTS Sigma, N, Keywords
VARIABLES inp, kw
vars == <<inp, kw>>

\* the expressible alphabet: "as" forms a keyword, digit, underscore, space, both quotes,
\* backslash, n (so that \n appears as two characters), LF, dot, a non-ASCII letter
SigmaQ == {"a", "s", "1", "_", " ", "'", "\"", "\\", "n", "\n", ".", "é"}
\* upper/lower case spellings of keywords, digits first, U+FFFD written as a valid character
SigmaK == {"A", "s", "S", "i", "N", "n", "0", "_", "\"", "\\", "�", "\t"}
\* the nine characters that matter most, for one more character of length
SigmaQ5 == {"a", "s", "1", "'", "\"", "\\", "n", "\n", "."}

Init == inp = <<>> /\ kw = FALSE
Step == /\ Len(inp) < N /\ ~kw /\ UNCHANGED kw
        /\ IF inp = <<>> THEN CSVWrite("%1$s", <<ToJson([inp |-> <<>>])>>, IOEnv.CASE_FILE) ELSE TRUE
        /\ \E c \in Sigma :
             /\ inp' = Append(inp, c)
             /\ CSVWrite("%1$s", <<ToJson([inp |-> inp'])>>, IOEnv.CASE_FILE)
\* every keyword of token.go in lower, upper and alternating case (and whatever Step appends)
ToUpperCh(c) == IF c \in LowerLetters THEN UpperSeq[CHOOSE i \in 1..26 : LowerSeq[i] = c] ELSE c
Cased(w, m) == [i \in 1..Len(w) |-> IF m = "u" \/ (m = "m" /\ i % 2 = 0) THEN ToUpperCh(w[i]) ELSE w[i]]
KwStep == /\ inp = <<>> /\ Keywords /\ kw' = TRUE
          /\ \E p \in KeywordPairs, m \in {"l", "u", "m"} :
               /\ inp' = Cased(Explode(p[1]), m)
               /\ CSVWrite("%1$s", <<ToJson([inp |-> inp'])>>, IOEnv.CASE_FILE)
Next == Step \/ KwStep
Spec == Init /\ [][Next]_vars

MQuoteString == M_QuoteString(inp)
MQuoteIdent  == M_QuoteIdent(inp)
MEmptyMiddle == M_EmptyMiddle(inp)
MThreePart   == M_ThreePart(inp)
MNeedsQuotes == M_NeedsQuotes(inp)
=============================================================================
