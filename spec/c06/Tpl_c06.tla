------------------------------ MODULE Tpl_c06 ------------------------------
(* C06, second family ("for every string whatsoever"): the statement templates.

   A template is a token list (spec/common/Tok.tla) with one HOLE token, a sentinel after the
   hole (a LIMIT 7 clause, a second list element, WITH ALL PRIVILEGES, or a second statement
   `; DROP DATABASE sentinel` parsed with ParseQuery), and the AST the statement denotes as a
   function of the node in the hole.  The harness writes the hole with the REAL
   influxql.QuoteString / QuoteIdent and everything else with its own renderer.

   hole kinds   str    QuoteString(s)
                id     QuoteIdent(s)
                id3m   QuoteIdent("d", "", s)     measurement of a 3-part name, empty middle
                id3db  QuoteIdent(s, "", "m")     database of a 3-part name, empty middle
                id3rp  QuoteIdent("d", s, "m")    retention policy of a 3-part name        *)
EXTENDS TTree, Tok, QStr

HOLE == S("<<HOLE>>")
Hole(hk) == [t |-> "hole", s |-> hk, g |-> "L"]
HoleT(hk) == [t |-> "hole", s |-> hk, g |-> "T"]

\* ---------------------------------------------------------------- building blocks
Sentinel == TStmt("DropDatabaseStatement", F("Name", S("sentinel")))
SentinelToks == <<PT(";"), Kw("DROP"), Kw("DATABASE"), Id("sentinel")>>
WithSentinel(stmt) == TQuery(<<stmt, Sentinel>>)

SelHead == <<Kw("SELECT"), Id("x"), Kw("FROM"), Id("m")>>
Limit7 == <<Kw("LIMIT"), Int("7")>>
FldX == TField(TRef("x"))
\* SELECT <fields> FROM <sources> <extra> LIMIT 7
Sel(fields, sources, extra) ==
  TStmt("SelectStatement", F("Fields", L(fields)) @@ F("Sources", L(sources)) @@ F("Limit", S("7")) @@ extra)
RawQ == F("IsRawQuery", B(TRUE))
StrH == TStrN(HOLE)
RefH == TRefN(HOLE)

TplNames == {
  "where_str", "where_str_and", "call_arg", "select_str", "password_admin", "password_q", "set_password",
  "destination", "stats_module", "diag_module", "tz", "delete_where", "tag_values_where",
  "field", "alias", "measurement", "m3_name", "m3_db", "m3_rp", "create_db", "on_db", "create_rp_name",
  "drop_rp_on", "create_user", "drop_user", "grant_to", "tag_key_eq", "tag_key_in", "group_by",
  "where_lhs", "into", "call_field", "field_keys_from", "subscription_name", "drop_measurement", "kill_on"}

\* ParseQuery (two statements) or ParseStatement
TplEntry(n) == IF n \in {"password_q", "set_password", "stats_module", "diag_module", "tz", "delete_where", "create_db",
                         "drop_rp_on", "drop_user", "grant_to", "drop_measurement", "kill_on"} THEN "query" ELSE "stmt"
\* the hole's value is interpreted (time.LoadLocation), so only the shape is judged
TplSemantic(n) == n = "tz"

TplToks(n) ==
  CASE n = "where_str"       -> SelHead \o <<Kw("WHERE"), Id("k"), P("="), Hole("str")>> \o Limit7
    [] n = "where_str_and"   -> SelHead \o <<Kw("WHERE"), Id("k"), P("="), Hole("str"), Kw("AND"), Id("z"), P("="), Int("1")>> \o Limit7
    [] n = "call_arg"        -> <<Kw("SELECT"), Id("f"), PT("("), IdT("x"), PT(","), Hole("str"), PT(")"), Kw("FROM"), Id("m")>> \o Limit7
    [] n = "select_str"      -> <<Kw("SELECT"), Hole("str"), PT(","), Id("x"), Kw("FROM"), Id("m")>> \o Limit7
    [] n = "password_admin"  -> <<Kw("CREATE"), Kw("USER"), Id("u"), Kw("WITH"), Kw("PASSWORD"), Hole("str"), Kw("WITH"), Kw("ALL"), Kw("PRIVILEGES")>>
    [] n = "password_q"      -> <<Kw("CREATE"), Kw("USER"), Id("u"), Kw("WITH"), Kw("PASSWORD"), Hole("str")>> \o SentinelToks
    [] n = "set_password"    -> <<Kw("SET"), Kw("PASSWORD"), Kw("FOR"), Id("u"), P("="), Hole("str")>> \o SentinelToks
    [] n = "destination"     -> <<Kw("CREATE"), Kw("SUBSCRIPTION"), Id("s"), Kw("ON"), Id("d"), PT("."), IdT("r"), Kw("DESTINATIONS"), Kw("ALL"),
                                  Hole("str"), PT(","), Str("udp://sentinel:9")>>
    [] n = "stats_module"    -> <<Kw("SHOW"), Kw("STATS"), Kw("FOR"), Hole("str")>> \o SentinelToks
    [] n = "diag_module"     -> <<Kw("SHOW"), Kw("DIAGNOSTICS"), Kw("FOR"), Hole("str")>> \o SentinelToks
    [] n = "tz"              -> SelHead \o <<Id("tz"), PT("("), HoleT("str"), PT(")")>> \o SentinelToks
    [] n = "delete_where"    -> <<Kw("DELETE"), Kw("FROM"), Id("m"), Kw("WHERE"), Id("k"), P("="), Hole("str")>> \o SentinelToks
    [] n = "tag_values_where" -> <<Kw("SHOW"), Kw("TAG"), Kw("VALUES"), Kw("WITH"), Kw("KEY"), P("="), Id("k"), Kw("WHERE"), Id("h"), P("="), Hole("str")>> \o Limit7
    [] n = "field"           -> <<Kw("SELECT"), Hole("id"), Kw("FROM"), Id("m")>> \o Limit7
    [] n = "alias"           -> <<Kw("SELECT"), Id("x"), Kw("AS"), Hole("id"), Kw("FROM"), Id("m")>> \o Limit7
    [] n = "measurement"     -> <<Kw("SELECT"), Id("x"), Kw("FROM"), Hole("id")>> \o Limit7
    [] n = "m3_name"         -> <<Kw("SELECT"), Id("x"), Kw("FROM"), Hole("id3m")>> \o Limit7
    [] n = "m3_db"           -> <<Kw("SELECT"), Id("x"), Kw("FROM"), Hole("id3db")>> \o Limit7
    [] n = "m3_rp"           -> <<Kw("SELECT"), Id("x"), Kw("FROM"), Hole("id3rp")>> \o Limit7
    [] n = "create_db"       -> <<Kw("CREATE"), Kw("DATABASE"), Hole("id")>> \o SentinelToks
    [] n = "on_db"           -> <<Kw("SHOW"), Kw("MEASUREMENTS"), Kw("ON"), Hole("id")>> \o Limit7
    [] n = "create_rp_name"  -> <<Kw("CREATE"), Kw("RETENTION"), Kw("POLICY"), Hole("id"), Kw("ON"), Id("d"), Kw("DURATION"), Dur("1h"),
                                  Kw("REPLICATION"), Int("1"), Kw("DEFAULT")>>
    [] n = "drop_rp_on"      -> <<Kw("DROP"), Kw("RETENTION"), Kw("POLICY"), Id("r"), Kw("ON"), Hole("id")>> \o SentinelToks
    [] n = "create_user"     -> <<Kw("CREATE"), Kw("USER"), Hole("id"), Kw("WITH"), Kw("PASSWORD"), Str("pw"), Kw("WITH"), Kw("ALL"), Kw("PRIVILEGES")>>
    [] n = "drop_user"       -> <<Kw("DROP"), Kw("USER"), Hole("id")>> \o SentinelToks
    [] n = "grant_to"        -> <<Kw("GRANT"), Kw("READ"), Kw("ON"), Id("d"), Kw("TO"), Hole("id")>> \o SentinelToks
    [] n = "tag_key_eq"      -> <<Kw("SHOW"), Kw("TAG"), Kw("VALUES"), Kw("WITH"), Kw("KEY"), P("="), Hole("id")>> \o Limit7
    [] n = "tag_key_in"      -> <<Kw("SHOW"), Kw("TAG"), Kw("VALUES"), Kw("WITH"), Kw("KEY"), Kw("IN"), P("("), HoleT("id"), PT(","), Id("k2"), PT(")")>> \o Limit7
    [] n = "group_by"        -> SelHead \o <<Kw("GROUP"), Kw("BY"), Hole("id")>> \o Limit7
    [] n = "where_lhs"       -> SelHead \o <<Kw("WHERE"), Hole("id"), P("="), Int("1")>> \o Limit7
    [] n = "into"            -> <<Kw("SELECT"), Id("x"), Kw("INTO"), Hole("id"), Kw("FROM"), Id("m")>> \o Limit7
    [] n = "call_field"      -> <<Kw("SELECT"), Id("mean"), PT("("), HoleT("id"), PT(")"), Kw("FROM"), Id("m")>> \o Limit7
    [] n = "field_keys_from" -> <<Kw("SHOW"), Kw("FIELD"), Kw("KEYS"), Kw("FROM"), Hole("id")>> \o Limit7
    [] n = "subscription_name" -> <<Kw("CREATE"), Kw("SUBSCRIPTION"), Hole("id"), Kw("ON"), Id("d"), PT("."), IdT("r"), Kw("DESTINATIONS"), Kw("ALL"),
                                    Str("udp://sentinel:9")>>
    [] n = "drop_measurement" -> <<Kw("DROP"), Kw("MEASUREMENT"), Hole("id")>> \o SentinelToks
    [] n = "kill_on"         -> <<Kw("KILL"), Kw("QUERY"), Int("3"), Kw("ON"), Hole("id")>> \o SentinelToks

\* the AST with HOLE where the quoted value must arrive (the sentinel is part of it)
TplPattern(n) ==
  CASE n = "where_str"       -> Sel(<<FldX>>, <<TMeas("m")>>, RawQ @@ F("Condition", TBin("=", TRef("k"), StrH)))
    [] n = "where_str_and"   -> Sel(<<FldX>>, <<TMeas("m")>>, RawQ @@ F("Condition", TBin("AND", TBin("=", TRef("k"), StrH), TBin("=", TRef("z"), TIntL("1")))))
    [] n = "call_arg"        -> Sel(<<TField(TCall("f", <<TRef("x"), StrH>>))>>, <<TMeas("m")>>, <<>>)
    [] n = "select_str"      -> Sel(<<TField(StrH), FldX>>, <<TMeas("m")>>, RawQ)
    [] n = "password_admin"  -> TStmt("CreateUserStatement", F("Name", S("u")) @@ F("Password", HOLE) @@ F("Admin", B(TRUE)))
    [] n = "password_q"      -> WithSentinel(TStmt("CreateUserStatement", F("Name", S("u")) @@ F("Password", HOLE)))
    [] n = "set_password"    -> WithSentinel(TStmt("SetPasswordUserStatement", F("Name", S("u")) @@ F("Password", HOLE)))
    [] n = "destination"     -> TStmt("CreateSubscriptionStatement", F("Name", S("s")) @@ F("Database", S("d")) @@ F("RetentionPolicy", S("r"))
                                      @@ F("Mode", S("ALL")) @@ F("Destinations", L(<<HOLE, S("udp://sentinel:9")>>)))
    [] n = "stats_module"    -> WithSentinel(TStmt("ShowStatsStatement", F("Module", HOLE)))
    [] n = "diag_module"     -> WithSentinel(TStmt("ShowDiagnosticsStatement", F("Module", HOLE)))
    [] n = "tz"              -> WithSentinel(TStmt("SelectStatement", F("Fields", L(<<FldX>>)) @@ F("Sources", L(<<TMeas("m")>>)) @@ RawQ
                                      @@ F("Location", R(K("loc") @@ F("name", HOLE)))))
    [] n = "delete_where"    -> WithSentinel(TStmt("DeleteSeriesStatement", F("Sources", L(<<TMeas("m")>>)) @@ F("Condition", TBin("=", TRef("k"), StrH))))
    [] n = "tag_values_where" -> TStmt("ShowTagValuesStatement", F("Op", S("=")) @@ F("TagKeyExpr", TStrL("k")) @@ F("Limit", S("7"))
                                      @@ F("Condition", TBin("=", TRef("h"), StrH)))
    [] n = "field"           -> Sel(<<TField(RefH)>>, <<TMeas("m")>>, RawQ)
    [] n = "alias"           -> Sel(<<TFieldA(TRef("x"), HOLE)>>, <<TMeas("m")>>, RawQ)
    [] n = "measurement"     -> Sel(<<FldX>>, <<TMeasN(S(""), S(""), HOLE)>>, RawQ)
    [] n = "m3_name"         -> Sel(<<FldX>>, <<TMeasN(S("d"), S(""), HOLE)>>, RawQ)
    [] n = "m3_db"           -> Sel(<<FldX>>, <<TMeasN(HOLE, S(""), S("m"))>>, RawQ)
    [] n = "m3_rp"           -> Sel(<<FldX>>, <<TMeasN(S("d"), HOLE, S("m"))>>, RawQ)
    [] n = "create_db"       -> WithSentinel(TStmt("CreateDatabaseStatement", F("Name", HOLE)))
    [] n = "on_db"           -> TStmt("ShowMeasurementsStatement", F("Database", HOLE) @@ F("Limit", S("7")))
    [] n = "create_rp_name"  -> TStmt("CreateRetentionPolicyStatement", F("Name", HOLE) @@ F("Database", S("d")) @@ F("Duration", S("3600000000000"))
                                      @@ F("Replication", S("1")) @@ F("Default", B(TRUE)))
    [] n = "drop_rp_on"      -> WithSentinel(TStmt("DropRetentionPolicyStatement", F("Name", S("r")) @@ F("Database", HOLE)))
    [] n = "create_user"     -> TStmt("CreateUserStatement", F("Name", HOLE) @@ F("Password", S("pw")) @@ F("Admin", B(TRUE)))
    [] n = "drop_user"       -> WithSentinel(TStmt("DropUserStatement", F("Name", HOLE)))
    [] n = "grant_to"        -> WithSentinel(TStmt("GrantStatement", F("Privilege", S("READ")) @@ F("On", S("d")) @@ F("User", HOLE)))
    [] n = "tag_key_eq"      -> TStmt("ShowTagValuesStatement", F("Op", S("=")) @@ F("TagKeyExpr", StrH) @@ F("Limit", S("7")))
    [] n = "tag_key_in"      -> TStmt("ShowTagValuesStatement", F("Op", S("IN")) @@ F("TagKeyExpr", TListL(<<HOLE, S("k2")>>)) @@ F("Limit", S("7")))
    [] n = "group_by"        -> Sel(<<FldX>>, <<TMeas("m")>>, RawQ @@ F("Dimensions", L(<<TDim(RefH)>>)))
    [] n = "where_lhs"       -> Sel(<<FldX>>, <<TMeas("m")>>, RawQ @@ F("Condition", TBin("=", RefH, TIntL("1"))))
    [] n = "into"            -> Sel(<<FldX>>, <<TMeas("m")>>, RawQ @@ F("Target", R(K("Target") @@ F("Measurement",
                                      R(K("Measurement") @@ F("Name", HOLE) @@ F("IsTarget", B(TRUE)))))))
    [] n = "call_field"      -> Sel(<<TField(TCall("mean", <<RefH>>))>>, <<TMeas("m")>>, <<>>)
    [] n = "field_keys_from" -> TStmt("ShowFieldKeysStatement", F("Sources", L(<<TMeasN(S(""), S(""), HOLE)>>)) @@ F("Limit", S("7")))
    [] n = "subscription_name" -> TStmt("CreateSubscriptionStatement", F("Name", HOLE) @@ F("Database", S("d")) @@ F("RetentionPolicy", S("r"))
                                      @@ F("Mode", S("ALL")) @@ F("Destinations", L(<<S("udp://sentinel:9")>>)))
    [] n = "drop_measurement" -> WithSentinel(TStmt("DropMeasurementStatement", F("Name", HOLE)))
    [] n = "kill_on"         -> WithSentinel(TStmt("KillQueryStatement", F("QueryID", S("3")) @@ F("Host", HOLE)))

\* the statement's AST with exactly v in the hole (zero-valued fields omitted, as projected)
Expected(n, v) == NormEmpty(Subst(TplPattern(n), HOLE, S(v)))
\* the values v for which the observed AST is exactly the template's AST with v in the hole:
\* one literal, nothing before or after it absorbed or altered, the sentinel intact
HoleValues(n, got) ==
  LET cands == {c.s : c \in {x \in TFind(TplPattern(n), got, HOLE) : IsS(x)}} \cup {""}
  IN {v \in cands : got = Expected(n, v)}
=============================================================================
