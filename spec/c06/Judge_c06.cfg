SPECIFICATION Spec
CONSTANTS DriftLen = 3
POSTCONDITION Accepted
CHECK_DEADLOCK FALSE
