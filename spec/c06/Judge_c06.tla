----------------------------- MODULE Judge_c06 -----------------------------
(* Pass V for C06, first family: what the REAL QuoteString / QuoteIdent / IdentNeedsQuotes
   returned for a string and what the REAL scanner made of it, judged against the property
   operators of Quote.tla.
   Record: [id, inp, obs |-> [qs, qi, need, qs_t, qi_t, em_t, tp_t, bare_t]]
     qs, qi      QuoteString(s), QuoteIdent(s) as arrays of 1-character strings
     need        IdentNeedsQuotes(s)
     *_t         token lists << <<kind, literal>>, ... >> of QuoteString(s), QuoteIdent(s),
                 QuoteIdent(s, "", s), QuoteIdent(s, s, s) and of s written bare
   Classes
     quotestring-roundtrip      QuoteString(s) does not scan as one STRING with value s
     quoteident-roundtrip       QuoteIdent(s) does not scan as one IDENT with value s
     quoteident-empty-middle    QuoteIdent(s, "", s) is not IDENT s . . IDENT s
     quoteident-three-part      QuoteIdent(s, s, s) is not IDENT s . IDENT s . IDENT s   (s non-empty)
     needsquotes-inexact        IdentNeedsQuotes(s) = FALSE is not equivalent to "s bare is IDENT s"
     panic
   A record of the rune sweep (Gen_c06s) has in addition  sweep = <<lo, hi>>, shape, obs.runlen and
   obs.rest = << [inp, obs, sweep, runlen], ... >> : one entry per further run of the block.
     drift:*                    helpers / tokens differ from the design spec, property kept *)
EXTENDS Quote, Json, CSV, IOUtils

CONSTANT DriftLen        \* token lists are compared with the Lexer model for |s| <= DriftLen only
VARIABLES l, nt
vars == <<l, nt>>

Trace == ndJsonDeserialize(IOEnv.OBS_FILE)
Has(r, f) == f \in DOMAIN r
V(c, s) == [class |-> c, sig |-> s]
\* for the comparison with the Lexer model: kinds, and literals of identifiers and strings only
\* (the model keeps no literal for whitespace; a bad escape at the end of input carries a NUL)
KL(T) == [j \in 1..Len(T) |-> IF T[j][1] \in {"IDENT", "STRING"} THEN T[j] ELSE <<T[j][1], "">>]
\* coarse signature: the kind of the first token (every keyword token is "KEYWORD")
FirstKind(T) == IF Len(T) = 0 THEN "none" ELSE IF \E p \in KeywordPairs : p[2] = T[1][1] THEN "KEYWORD" ELSE T[1][1]

Verdicts1(inp, o) ==
  IF Has(o, "empty") THEN {}                 \* a block of surrogate code points: no string to judge
  ELSE IF Has(o, "panic") \/ Has(o, "harness_panic") THEN {V("panic", "quote")}
  ELSE IF ~Expressible(inp) THEN {}          \* the first sentence of the property speaks about expressible strings only
  ELSE
  LET s == Concat(inp)
      prop ==
        (IF IsOne(o.qs_t, "STRING", s) THEN {} ELSE {V("quotestring-roundtrip", FirstKind(o.qs_t))})
        \cup (IF IsOne(o.qi_t, "IDENT", s) THEN {} ELSE {V("quoteident-roundtrip", FirstKind(o.qi_t))})
        \cup (IF IsEmptyMiddle(o.em_t, s, s) THEN {} ELSE {V("quoteident-empty-middle", FirstKind(o.em_t))})
        \cup (IF inp = <<>> \/ IsThreePart(o.tp_t, s, s, s) THEN {} ELSE {V("quoteident-three-part", FirstKind(o.tp_t))})
        \cup (IF inp = <<>> \/ NeedsQuotesExact(o.need, o.bare_t, s) THEN {}
              ELSE {V("needsquotes-inexact", IF o.need THEN "true-but-bare-ident" ELSE "false-but-not-ident")})
      \* comparison with the transcribed helpers: on short strings only (the transcription appends character by
      \* character, quadratic in TLC; the property operators above are what decides)
      drift == IF Len(inp) > 64 THEN {} ELSE
        (IF o.qs = QuoteString(inp) THEN {} ELSE {V("drift:quotestring", "")})
        \cup (IF o.qi = QuoteIdent(<<inp>>) THEN {} ELSE {V("drift:quoteident", "")})
        \cup (IF o.need = IdentNeedsQuotes(inp) THEN {} ELSE {V("drift:needsquotes", "")})
        \cup (IF Len(inp) > DriftLen THEN {}
              ELSE IF KL(o.qs_t) = KL(ScanAll(o.qs)) /\ KL(o.qi_t) = KL(ScanAll(o.qi)) /\ KL(o.bare_t) = KL(ScanAll(inp)) THEN {}
              ELSE {V("drift:tokens", "")})
  IN IF prop # {} THEN prop ELSE drift

\* A rune-sweep record (Gen_c06s) carries one observation per maximal run of code points that
\* behaved alike: the first run in the record itself, the others under obs.rest.  Each run is
\* judged like a plain record; its verdicts name the first code point of the run.
Runs(r) == <<[inp |-> r.inp, obs |-> r.obs] @@ (IF Has(r.obs, "run") THEN [sweep |-> r.obs.run] ELSE <<>>)>>
           \o (IF Has(r.obs, "rest") THEN r.obs.rest ELSE <<>>)
Verdicts(r) ==
  IF ~Has(r, "inp") THEN (IF Has(r.obs, "empty") THEN {} ELSE {V("panic", "sweep")})
  ELSE LET R == Runs(r) IN
  UNION {{V(v.class, IF Has(R[j], "sweep") THEN v.sig \o " from code point " \o ToString(R[j].sweep[1]) ELSE v.sig) : v \in Verdicts1(R[j].inp, R[j].obs)}
         : j \in 1..Len(R)}

\* non-trivial: the string needs an escape, or quotes as an identifier
NonTrivial(r) == Has(r.obs, "need") /\ (r.obs.need \/ Len(r.obs.qs) > Len(r.inp) + 2)

Init == l = 1 /\ nt = 0
Step == /\ l <= Len(Trace)
        /\ LET r == Trace[l] IN
             /\ \A v \in Verdicts(r) : CSVWrite("%1$s", <<ToJson([id |-> r.id, class |-> v.class, sig |-> v.sig])>>, IOEnv.VERDICT_FILE)
             /\ nt' = nt + (IF NonTrivial(r) THEN 1 ELSE 0)
        /\ l' = l + 1
Finish == /\ l = Len(Trace) + 1
          /\ CSVWrite("%1$s", <<ToJson([judged |-> Len(Trace), nontrivial |-> nt])>>, IOEnv.STATS_FILE)
          /\ l' = l + 1 /\ UNCHANGED nt
Next == Step \/ Finish
Spec == Init /\ [][Next]_vars
Accepted == TLCGet("stats").diameter = Len(Trace) + 2
=============================================================================
