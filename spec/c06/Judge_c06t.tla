----------------------------- MODULE Judge_c06t -----------------------------
(* Pass V for C06, second family ("for every string whatsoever").  The harness wrote the
   template with the REAL QuoteString / QuoteIdent in the hole and parsed it with the real
   ParseStatement / ParseQuery.
   Record: [id, tpl, entry, toks, inp, obs |-> [text, err | ast]]   (ast: tagged tree, TTree.tla)
   The property: a parse error, or one literal - the AST is the template's AST with a single
   string in the hole and everything around it, the sentinel included, untouched.  For an
   expressible string that literal must be exactly the string.
   Classes
     broke-out        the statement parsed and its AST is not the template's AST with one
                      literal in the hole (the value ended early, absorbed or altered its
                      surroundings, or the sentinel is gone)
     value-altered    expressible s: the AST has the template's shape but the literal is not s
     panic                                                                                 *)
EXTENDS Tpl_c06, Json, CSV, IOUtils

VARIABLES l, nt, np
vars == <<l, nt, np>>

Trace == ndJsonDeserialize(IOEnv.OBS_FILE)
Has(r, f) == f \in DOMAIN r
V(c, s) == [class |-> c, sig |-> s]

Parsed(r) == Has(r.obs, "ast")
Verdicts(r) ==
  LET o == r.obs IN
  IF Has(o, "panic") \/ Has(o, "harness_panic") THEN {V("panic", r.tpl)}
  ELSE IF Has(o, "err") THEN {}
  ELSE IF ~Has(o, "ast") THEN {V("broke-out", "no-result:" \o r.tpl)}
  ELSE LET hv == HoleValues(r.tpl, o.ast) IN
       IF hv = {} THEN {V("broke-out", r.tpl)}
       ELSE IF Expressible(r.inp) /\ ~TplSemantic(r.tpl) /\ Concat(r.inp) \notin hv THEN {V("value-altered", r.tpl)}
       ELSE {}

\* non-trivial: a non-empty value arrived in an AST
NonTrivial(r) == Parsed(r) /\ r.inp # <<>>

Init == l = 1 /\ nt = 0 /\ np = 0
Step == /\ l <= Len(Trace)
        /\ LET r == Trace[l] IN
             /\ \A v \in Verdicts(r) : CSVWrite("%1$s", <<ToJson([id |-> r.id, class |-> v.class, sig |-> v.sig])>>, IOEnv.VERDICT_FILE)
             /\ nt' = nt + (IF NonTrivial(r) THEN 1 ELSE 0)
             /\ np' = np + (IF Parsed(r) /\ ~Expressible(r.inp) THEN 1 ELSE 0)
        /\ l' = l + 1
Finish == /\ l = Len(Trace) + 1
          /\ CSVWrite("%1$s", <<ToJson([judged |-> Len(Trace), nontrivial |-> nt, parsed_inexpressible |-> np])>>, IOEnv.STATS_FILE)
          /\ l' = l + 1 /\ UNCHANGED <<nt, np>>
Next == Step \/ Finish
Spec == Init /\ [][Next]_vars
Accepted == TLCGet("stats").diameter = Len(Trace) + 2
=============================================================================
