SPECIFICATION Spec
CONSTANTS
  N = 3
  Sigma <- SigmaQ
  Keywords = TRUE
INVARIANTS MQuoteString MQuoteIdent MEmptyMiddle MThreePart MNeedsQuotes
CHECK_DEADLOCK FALSE
