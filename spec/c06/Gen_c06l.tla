------------------------------ MODULE Gen_c06l ------------------------------
(* C06 pass G, length sweep.  The alphabets of Gen_c06 stop at 5 characters, the random strings at 80.
   A scanner or a helper that works through a fixed-size buffer, a pool or a growth step has boundaries
   elsewhere: this generator writes one string per length - every length up to Dense, then the
   neighbours of every power of two up to Max - in three patterns: letters only (a bare identifier: no
   quotes needed, the value must come back character by character - the letters cycle through the
   alphabet so that a dropped, doubled or swapped character shows), the same with a single quote in the
   middle (needs escaping in a string, quoting as an identifier), and the same ending in a blank.     *)
EXTENDS Naturals, Sequences, Json, CSV, IOUtils

CONSTANTS Dense, Max
VARIABLES n
vars == <<n>>
Letters == <<"a", "b", "c", "d", "e", "f", "g", "h", "i", "j", "k", "l", "m", "n", "o", "p", "q", "r", "s", "t", "u", "v", "w", "x", "y", "z">>
Alpha(k) == [i \in 1..k |-> Letters[((i - 1) % 26) + 1]]
Pow2 == {16, 32, 64, 128, 256, 512, 1024, 2048, 4096, 8192, 16384, 32768, 65536}
Lengths == (1..Dense) \cup {p + d : p \in {q \in Pow2 : q <= Max}, d \in {0, 1, 2}} \cup {p - 1 : p \in {q \in Pow2 : q <= Max}}
Emit(s) == CSVWrite("%1$s", <<ToJson([inp |-> s, sweep_len |-> Len(s)])>>, IOEnv.CASE_FILE)
Init == n = 0
Step == /\ n = 0 /\ n' = 1
        /\ \A k \in Lengths :
             /\ Emit(Alpha(k))
             /\ Emit([i \in 1..k |-> IF i = (k \div 2) + 1 THEN "'" ELSE Alpha(k)[i]])
             /\ Emit([i \in 1..k |-> IF i = k THEN " " ELSE Alpha(k)[i]])
Spec == Init /\ [][Step]_vars
=============================================================================
