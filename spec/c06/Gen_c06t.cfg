SPECIFICATION Spec
CONSTANTS
  NT = 2
  SigmaT <- SigmaW
CHECK_DEADLOCK FALSE
