------------------------------ MODULE Gen_c06t ------------------------------
(* C06 pass G, second family: every string over SigmaT up to length NT - quotes, backslash,
   LF and the inexpressible CR, NUL and invalid UTF-8 bytes included - plus a list of
   break-out attempts, in every statement template of Tpl_c06.                           *)
EXTENDS Tpl_c06, Json, CSV, IOUtils

CONSTANTS SigmaT, NT
VARIABLES inp
vars == <<inp>>

SigmaW == {"a", "'", "\"", "\\", "\n", "\r", "<NUL>", "<FF>", " ", ";"}
SigmaW2 == {"a", "'", "\"", "\\", "\n", "\r", "<NUL>", "<FF>", "<C0>", " ", ";", "-", "n", "/", "*", "$", ".", "é"}

\* break-out attempts and values with a meaning of their own (keywords, time, a time zone)
Attacks == {
  "' LIMIT 1 --", "'; DROP DATABASE x; --", "\\' LIMIT 1 --", "\\\\' LIMIT 1 --", "\" FROM y --", "\\\" FROM y --",
  "x' OR 'a' = 'a", "x\" OR \"a\" = \"a", "/* */", "*/ LIMIT 1 /*", "-- c", "$p", "a\nb' LIMIT 1", "\\n", "\\",
  "\\\\", "time", "SELECT", "Limit", "true", "1a", "a.b", "a..b", "\"a\".\"b\"", "UTC", "America/Chicago", "é'é", "' ; DROP DATABASE sentinel ; --",
  "a' , 'b", "a\", \"b", ") LIMIT 1 --", "x'); DROP DATABASE y; --"}

Emit(s) == \A n \in TplNames :
  CSVWrite("%1$s", <<ToJson([tpl |-> n, entry |-> TplEntry(n), toks |-> TplToks(n), inp |-> s])>>, IOEnv.CASE_FILE)

Init == inp = <<>>
Step == /\ Len(inp) < NT
        /\ IF inp = <<>> THEN Emit(<<>>) ELSE TRUE
        /\ \E c \in SigmaT : inp' = Append(inp, c) /\ Emit(inp')
Attack == /\ inp = <<>>
          /\ \E a \in Attacks : inp' = Explode(a) /\ Emit(inp')
Next == Step \/ Attack
Spec == Init /\ [][Next]_vars
=============================================================================
