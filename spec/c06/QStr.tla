-------------------------------- MODULE QStr --------------------------------
(* Strings as sequences of 1-character strings (C06).  Bytes that neither a TLA+ string nor
   JSON can hold travel under symbolic names; the harness writes the byte.               *)
EXTENDS Naturals, Sequences

RECURSIVE ConcatFrom(_, _, _)
ConcatFrom(s, i, acc) == IF i > Len(s) THEN acc ELSE ConcatFrom(s, i + 1, acc \o s[i])
Concat(s) == ConcatFrom(s, 1, "")          \* the string spelled by a sequence of characters

\* "<NUL>" = 0x00, "<FF>" = 0xFF and "<C0>" = 0xC0 (bytes that are never part of valid UTF-8)
\* What an InfluxQL text cannot express as a string value: the reader folds CR to LF, NUL is
\* its end-of-input marker, invalid UTF-8 bytes are delivered as U+FFFD.
Inexpressible == {"\r", "<NUL>", "<FF>", "<C0>"}
Expressible(s) == \A i \in 1..Len(s) : s[i] \notin Inexpressible

\* a TLC string as a sequence of its characters
Explode(str) == [i \in 1..Len(str) |-> SubSeq(str, i, i)]
=============================================================================
