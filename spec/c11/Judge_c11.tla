----------------------------- MODULE Judge_c11 -----------------------------
(* Pass V (and pass M on the logged trees) for C11.

   A record: the case of Gen_c11 - re (the expression as written, a RegexLang tree), pre,
   op, tmpl, tag, dc, cands, shape, b, e - plus
     obs |-> [pat, text, cond0, nre0, lits0, src, gomatch, tree, before,
              cond1, nre1, lits1, after, after_ast | err | panic | ...]
   where before / after are, per value of dc, the real EvalBool of the condition on every
   candidate before and after RewriteRegexConditions, gomatch is Go's MatchString per
   candidate, tree is syntax.Parse(pattern, Perl).Simplify() as the code reads it, nre* the
   number of regex operators in the condition and lits* the string literals compared with
   the tag.

   Verdict rule (P), per record:
     (1) for every candidate w and every dc: before = after;
     (2) if a regex test was replaced: every substituted literal is matched by the
         expression, and on the candidates {w : Matches(re, w)} = the literal set;
     (3) an expression with case folding, a line anchor, an unanchored part (something is
         matched that is not matched as a whole string), open-ended repetition, or more
         than 100 whole-string matches must not have been replaced.
   Classes:
     ok
     Dev_MultilineAnchorsRewritten  known: first/last sub-expression of the logged tree is
         OpBeginLine/OpEndLine, the test was replaced, and every candidate on which
         before # after contains a newline (on newline-free strings nothing changed)
     Dev_FoldedPartRewritten        known: the expression as written folds case on a part,
         the parser expanded the folding into a class (no FoldCase flag is left in the
         logged tree), the test was replaced and (1), (2) hold - the letter of (3) only
     not-equivalent | literal-set-wrong | rewritten-must-stay | condition-dropped | panic
                                    violations
     drift:matcher     RegexLang!Matches disagrees with Go's engine on a candidate: the
                       property part (or the rendering of the tree) is wrong - machinery
     drift:unusable    the case could not be rendered / parsed / logged - machinery
     drift:design      the code did not do what RegexRewrite predicts, (1)-(3) hold
     drift:design-unsound  RegexRewrite is unsound on the logged tree in an unnamed way
                       although the code was judged fine (model-only counterexample)   *)
EXTENDS RegexRewrite, Json, CSV, IOUtils

VARIABLES l, st
vars == <<l, st>>

Trace == ndJsonDeserialize(IOEnv.OBS_FILE)

V(c, s) == [class |-> c, sig |-> s]
Idx(U) == 1..Len(U)

HasNL(w) == \E k \in 1..Len(w) : w[k] = NL

\* the classes of sentence 2 of the property, read off the expression as written
MustStay(r, mI) ==
  LET U == r.cands
      full == {j \in Idx(U) : FullMatch(r.re, U[j])}
  IN  IF HasLineAnchor(r.re) THEN "line-anchor"
      ELSE IF HasOpenRepetition(r.re) THEN "open-repetition"
      ELSE IF \E j \in mI : j \notin full THEN "unanchored"
      ELSE IF Cardinality({U[j] : j \in full}) > 100 THEN "more-than-100"
      ELSE IF HasCaseFolding(r.re) THEN "case-folding"
      ELSE ""

TreeHasFold(t) == LET ns == NodeSeq(t) IN \E k \in 1..Len(ns) : Flag(ns[k], "FoldCase")

Judge(r) ==
  LET o == r.obs IN
  IF \E f \in {"harness_panic", "render_err", "err", "tree_err"} : Has(o, f)
    THEN [v |-> V("drift:unusable", "rejected"), rew |-> FALSE, model |-> FALSE, mdev |-> FALSE]
  ELSE IF Has(o, "panic") THEN [v |-> V("panic", r.op \o " " \o r.shape), rew |-> FALSE, model |-> FALSE, mdev |-> FALSE]
  ELSE IF Has(o, "cond_nil") THEN [v |-> V("condition-dropped", r.op), rew |-> FALSE, model |-> FALSE, mdev |-> FALSE]
  ELSE IF ~Has(o, "tree") \/ o.nre0 # 1 \/ o.lits0 # <<>> \/ Len(o.gomatch) # Len(r.cands)
    THEN [v |-> V("drift:unusable", "shape"), rew |-> FALSE, model |-> FALSE, mdev |-> FALSE]
  ELSE
  LET U    == r.cands
      go   == {j \in Idx(U) : o.gomatch[j] = 1}
      mI   == {j \in Idx(U) : Matches(r.re, U[j])}      \* the expression as written
      rew  == o.nre1 < o.nre0
      lits == Range(o.lits1)
      diff == {<<d, j>> \in (1..Len(o.before)) \X Idx(U) : o.before[d][j] # o.after[d][j]}
      m    == MatchExact(o.tree)
      \* the tree the code reads: evaluated whenever the design or the code replaced the test
      \* (pass M needs it), and on every third record otherwise (validation of Matches on
      \* Go-shaped trees); go itself stands in where it is not evaluated
      mT   == IF m.ok \/ rew \/ r.id % 3 = 0 THEN {j \in Idx(U) : Matches(o.tree, U[j])} ELSE go
      asDesigned == (m.ok = rew) /\ (rew => ModelLits(m) = lits)
      sound == DesignSoundGiven(o.tree, U, mT)
      mdev == m.ok /\ ~sound /\ Dev_LineAnchorsAccepted(o.tree)
      sig  == r.op \o " " \o r.shape
      stay == MustStay(r, mI)
      v ==
        IF mI # go THEN V("drift:matcher", "written " \o sig)
        ELSE IF mT # go THEN V("drift:matcher", "logged " \o sig)
        ELSE IF diff # {} THEN
          (IF rew /\ Dev_LineAnchorsAccepted(o.tree) /\ \A p \in diff : HasNL(U[p[2]])
             THEN V("Dev_MultilineAnchorsRewritten", "")
             ELSE V("not-equivalent", sig))
        ELSE IF ~rew THEN
          (IF m.ok THEN V("drift:design", "kept " \o sig) ELSE V("ok", ""))
        ELSE IF ~(\A x \in lits : Matches(r.re, x)) \/ \E j \in Idx(U) : (j \in mI) # (U[j] \in lits)
          THEN V("literal-set-wrong", sig)
        ELSE IF stay = "line-anchor" /\ Dev_LineAnchorsAccepted(o.tree)
          THEN V("Dev_MultilineAnchorsRewritten", "")
        ELSE IF stay = "case-folding" /\ ~TreeHasFold(o.tree)
          THEN V("Dev_FoldedPartRewritten", "")
        ELSE IF stay # "" THEN V("rewritten-must-stay", stay \o " " \o sig)
        ELSE IF ~asDesigned THEN V("drift:design", "rewritten " \o sig)
        ELSE IF m.ok /\ ~sound /\ ~mdev THEN V("drift:design-unsound", sig)
        ELSE V("ok", "")
  IN [v |-> v, rew |-> rew, model |-> m.ok, mdev |-> mdev]

\* non-trivial: the real code replaced the regex test, or the expression is anchored at both
\* ends (so the code had to look inside it to decide)
Anchored(t) == t.op = "Concat" /\ Len(Subs(t)) >= 2 /\ IsBegin(t.sub[1]) /\ IsEnd(t.sub[Len(t.sub)])
NonTrivial(r, j) == j.rew \/ (Has(r.obs, "tree") /\ Anchored(r.obs.tree))

Zero == [nt |-> 0, rewritten |-> 0, model_rewrites |-> 0, model_dev |-> 0]
Bump(s, r, j) == [nt |-> s.nt + (IF NonTrivial(r, j) THEN 1 ELSE 0),
                  rewritten |-> s.rewritten + (IF j.rew THEN 1 ELSE 0),
                  model_rewrites |-> s.model_rewrites + (IF j.model THEN 1 ELSE 0),
                  model_dev |-> s.model_dev + (IF j.mdev THEN 1 ELSE 0)]

\* the same text parsed and rewritten a second time in the same process (obs.after2): the property holds for that
\* condition as well - a rewrite whose result depends on the rewrites made before it (a shared table) shows here
Second(r) ==
  LET o == r.obs IN
  IF Has(o, "panic2") THEN {V("panic", "second rewrite " \o r.op)}
  ELSE IF Has(o, "after2") /\ Has(o, "before") /\ Has(o, "after") /\ o.after = o.before /\ o.after2 # o.before
       THEN {V("not-equivalent", "second rewrite of the same text " \o r.op)}
  ELSE {}

Init == l = 1 /\ st = Zero
Step == /\ l <= Len(Trace)
        /\ LET r == Trace[l] j == Judge(r) IN
             /\ IF j.v.class = "ok" THEN TRUE
                ELSE CSVWrite("%1$s", <<ToJson([id |-> r.id, class |-> j.v.class, sig |-> j.v.sig])>>, IOEnv.VERDICT_FILE)
             /\ \A v \in Second(r) : CSVWrite("%1$s", <<ToJson([id |-> r.id, class |-> v.class, sig |-> v.sig])>>, IOEnv.VERDICT_FILE)
             /\ st' = Bump(st, r, j)
        /\ l' = l + 1
Finish == /\ l = Len(Trace) + 1
          /\ CSVWrite("%1$s", <<ToJson([judged |-> Len(Trace), nontrivial |-> st.nt, rewritten |-> st.rewritten,
                                        model_rewrites |-> st.model_rewrites, model_known_dev |-> st.model_dev])>>, IOEnv.STATS_FILE)
          /\ l' = l + 1 /\ UNCHANGED st
Next == Step \/ Finish
Spec == Init /\ [][Next]_vars
\* the whole observation file was consumed: one state per record + initial + Finish
Accepted == TLCGet("stats").diameter = Len(Trace) + 2
=============================================================================
