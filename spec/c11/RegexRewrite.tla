---------------------------- MODULE RegexRewrite ----------------------------
(* Design part of C11: a transcription of ast.go matchExactRegex / matchRegex.

   It reads the SIMPLIFIED syntax tree - syntax.Parse(pattern, syntax.Perl).Simplify() -
   that the driver logs (records as in RegexLang), one CASE arm per `case syntax.OpXxx`
   of the code, in the code's order, including what the code knowingly does:
     * the first / last sub-expression of the top-level concatenation may be a LINE anchor
       as well as a text anchor (OpBeginLine / OpEndLine are accepted) - this is the named
       deviation Dev_LineAnchorsAccepted below, a genuine defect of the current tree;
     * the FoldCase test is made on every node visited, before looking at its operator;
     * in a concatenation the maxLiterals test is only made on the "long" path (both
       sides have more than one value);
     * /^$/ yields an empty value list, which the caller turns into  = ''.
   Result: [ok |-> BOOLEAN, vals |-> sequence of strings (code point sequences)].       *)
EXTENDS RegexLang

MaxLiterals == 100

Fail    == [ok |-> FALSE, vals |-> <<>>]
Ok(v)   == [ok |-> TRUE, vals |-> v]

RECURSIVE MatchRegex(_), ConcatLoop(_, _, _), AltLoop(_, _, _), ClassSize(_, _), ClassVals(_, _)

\* for i := 0; i < len(re.Rune); i += 2 { sz += hi - lo + 1 }
ClassSize(rs, k) == IF 2 * k > Len(rs) THEN 0 ELSE (rs[2 * k] - rs[2 * k - 1] + 1) + ClassSize(rs, k + 1)
\* for r := lo; r <= hi; r++ { names = append(names, string(r)) }
ClassVals(rs, k) == IF 2 * k > Len(rs) THEN <<>>
                    ELSE LET lo == rs[2 * k - 1] hi == rs[2 * k] IN
                         [j \in 1..(IF hi >= lo THEN hi - lo + 1 ELSE 0) |-> <<lo + j - 1>>] \o ClassVals(rs, k + 1)

\* for _, sub := range re.Sub[1:] { ... }
ConcatLoop(subs, k, names) ==
  IF k > Len(subs) THEN Ok(names)
  ELSE LET r == MatchRegex(subs[k]) vals == r.vals IN
       IF ~r.ok THEN Fail
       ELSE IF Len(vals) = 1 THEN ConcatLoop(subs, k + 1, [i \in 1..Len(names) |-> names[i] \o vals[1]])
       ELSE IF Len(names) = 1 THEN ConcatLoop(subs, k + 1, [i \in 1..Len(vals) |-> names[1] \o vals[i]])
       ELSE LET sz == Len(names) * Len(vals) IN
            IF sz > MaxLiterals THEN Fail
            ELSE ConcatLoop(subs, k + 1,
                   [x \in 1..sz |-> names[((x - 1) \div Len(vals)) + 1] \o vals[((x - 1) % Len(vals)) + 1]])

\* for _, sub := range re.Sub { names = append(names, vals...) }
AltLoop(subs, k, names) ==
  IF k > Len(subs) THEN (IF Len(names) > MaxLiterals THEN Fail ELSE Ok(names))
  ELSE LET r == MatchRegex(subs[k]) IN
       IF ~r.ok THEN Fail ELSE AltLoop(subs, k + 1, names \o r.vals)

MatchRegex(re) ==
  IF Flag(re, "FoldCase") THEN Fail
  ELSE CASE re.op = "Literal"   -> Ok(<<Runes(re)>>)
         [] re.op = "Capture"   -> MatchRegex(re.sub[1])
         [] re.op = "Concat"    -> LET first == MatchRegex(re.sub[1]) IN
                                   IF ~first.ok THEN Fail ELSE ConcatLoop(re.sub, 2, first.vals)
         [] re.op = "CharClass" -> IF ClassSize(Runes(re), 1) > MaxLiterals THEN Fail
                                   \* an empty class matches nothing: no literal list stands for it (before the
                                   \* repair in /repo it yielded no values, which the caller reads as the literal '')
                                   ELSE IF ClassSize(Runes(re), 1) = 0 THEN Fail
                                   ELSE Ok(ClassVals(Runes(re), 1))
         [] re.op = "Alternate" -> AltLoop(re.sub, 1, <<>>)
         [] OTHER               -> Fail

\* text anchors only (the multi-line anchors were accepted until the repair a378b00 in /repo)
IsBegin(n) == n.op = "BeginText"
IsEnd(n)   == n.op = "EndText"

MatchExact(re) ==
  IF re.op # "Concat" THEN Fail
  ELSE IF Len(Subs(re)) < 2 THEN Fail
  ELSE IF ~IsBegin(re.sub[1]) THEN Fail
  ELSE IF ~IsEnd(re.sub[Len(re.sub)]) THEN Fail
  ELSE LET inner == SubSeq(re.sub, 2, Len(re.sub) - 1) IN
       IF inner = <<>> THEN Ok(<<>>)                       \* the regex /^$/
       ELSE MatchRegex([re EXCEPT !.sub = inner])

\* what RewriteRegexConditions substitutes: no values means the single literal ''
ModelLits(r) == IF r.vals = <<>> THEN {<<>>} ELSE Range(r.vals)

\* Named deviation of the design: a LINE anchor stands where only a text anchor is sound.
Dev_LineAnchorsAccepted(re) ==
  /\ re.op = "Concat" /\ Len(Subs(re)) >= 2
  /\ (re.sub[1].op = "BeginLine" \/ re.sub[Len(re.sub)].op = "EndLine")
TextAnchored(re) ==
  /\ re.op = "Concat" /\ Len(Subs(re)) >= 2
  /\ re.sub[1].op = "BeginText" /\ re.sub[Len(re.sub)].op = "EndText"

(* Pass M: the design against the property part, on one tree and a set U of strings.
   "rewritten  =>  fully anchored with text anchors, every substituted literal is matched,
    and every string of U that the expression matches is one of the literals"          *)
DesignSound(re, U) ==
  LET r == MatchExact(re) IN
  r.ok => LET L == ModelLits(r) IN
          /\ TextAnchored(re)
          /\ \A x \in L : Matches(re, x)
          /\ \A x \in U : Matches(re, x) <=> (x \in L)
\* the same, for a sequence U whose matched positions {j : Matches(re, U[j])} are already known
DesignSoundGiven(re, U, matched) ==
  LET r == MatchExact(re) IN
  r.ok => LET L == ModelLits(r) IN
          /\ TextAnchored(re)
          /\ \A x \in L : Matches(re, x)
          /\ \A j \in 1..Len(U) : (j \in matched) <=> (U[j] \in L)
=============================================================================
