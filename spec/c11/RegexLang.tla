----------------------------- MODULE RegexLang -----------------------------
(* Property part of C11: what a regular expression denotes, over bounded strings.

   A regular expression is a syntax tree of records shaped like Go's regexp/syntax.Regexp
   (so the same operators read a tree the generator built and a tree the driver logged):

     [op |-> "Literal",      fl, rune |-> <<code points>>]         the string itself
     [op |-> "CharClass",    fl, rune |-> <<lo1, hi1, lo2, hi2, ...>>]  list of ranges
     [op |-> "AnyCharNotNL" | "AnyChar", fl]                       .  and  (?s).
     [op |-> "BeginText" | "EndText" | "BeginLine" | "EndLine", fl]    \A ^ \z $ (?m)^ (?m)$
     [op |-> "WordBoundary" | "NoWordBoundary", fl]                \b \B
     [op |-> "EmptyMatch" | "NoMatch", fl]
     [op |-> "Capture" | "Group", fl, sub |-> <<r>>]               ( ) and (?: )
     [op |-> "Quest" | "Star" | "Plus", fl, sub |-> <<r>>]         ? * +   (greedy or not)
     [op |-> "Repeat", fl, min, max, sub |-> <<r>>]                {min,max}; max = -1: open
     [op |-> "Concat" | "Alternate", fl, sub |-> <<r1, ..., rn>>]

   fl is the list of the names of the flag bits set on the node ("FoldCase", "NonGreedy",
   "OneLine", "DotNL", ...).  Only "FoldCase" changes what a node matches: multi-line mode
   and dot-all are already in the operator (BeginLine vs BeginText, AnyChar vs
   AnyCharNotNL), exactly as in Go's tree.  Strings are sequences of code points.

   Matches(re, w) is Go's Regexp.MatchString: an UNANCHORED search - some substring of w,
   at some position, matches.  MatchAt(re, w, i) is the set of end offsets j such that re
   matches w[i+1 .. j] in the context of the whole of w (anchors look at w).            *)
EXTENDS Naturals, Integers, Sequences, FiniteSets, TLC

Has(r, f) == f \in DOMAIN r
Flag(n, f) == Has(n, "fl") /\ \E k \in 1..Len(n.fl) : n.fl[k] = f
Subs(n)  == IF Has(n, "sub") THEN n.sub ELSE <<>>
Runes(n) == IF Has(n, "rune") THEN n.rune ELSE <<>>

NL == 10

\* Unicode simple case folding restricted to what can meet an ASCII letter:
\* k ~ K ~ U+212A (Kelvin sign), s ~ S ~ U+017F (long s).
Orbit(c) ==
  IF c >= 65 /\ c <= 90 THEN {c, c + 32} \cup (IF c = 75 THEN {8490} ELSE IF c = 83 THEN {383} ELSE {})
  ELSE IF c >= 97 /\ c <= 122 THEN {c, c - 32} \cup (IF c = 107 THEN {8490} ELSE IF c = 115 THEN {383} ELSE {})
  ELSE IF c = 8490 THEN {75, 107, 8490}
  ELSE IF c = 383 THEN {83, 115, 383}
  ELSE {c}
Cased(c) == Orbit(c) # {c}

InRanges(c, rs) == \E k \in 1..(Len(rs) \div 2) : rs[2 * k - 1] <= c /\ c <= rs[2 * k]
\* a class is its list of ranges, as in Go's tree: case folding has already been expanded into
\* the ranges by whoever built the node (the parser; Gen_c11!Cls), the flag adds nothing
InClass(c, n) == InRanges(c, Runes(n))
RuneEq(c, r, fold) == IF fold THEN c \in Orbit(r) ELSE c = r

IsWord(c) == (c >= 48 /\ c <= 57) \/ (c >= 65 /\ c <= 90) \/ (c >= 97 /\ c <= 122) \/ c = 95
AtWordBoundary(w, i) ==
  LET before == i >= 1 /\ IsWord(w[i])
      after  == i < Len(w) /\ IsWord(w[i + 1])
  IN  before # after

RECURSIVE MatchAt(_, _, _), CatFrom(_, _, _, _), Iter(_, _, _, _), Closure(_, _, _, _), UpTo(_, _, _, _)

StepSet(re, w, S) == UNION {MatchAt(re, w, j) : j \in S}
\* exactly k repetitions of re from the offsets in S
Iter(re, w, S, k) == IF k = 0 \/ S = {} THEN S ELSE Iter(re, w, StepSet(re, w, S), k - 1)
\* 0 .. k repetitions
UpTo(re, w, S, k) == IF k = 0 \/ S = {} THEN S ELSE S \cup UpTo(re, w, StepSet(re, w, S), k - 1)
\* any number of repetitions: offsets never decrease, so Len(w) + 1 rounds reach the fixpoint
Closure(re, w, S, n) == LET T == S \cup StepSet(re, w, S)
                        IN  IF T = S \/ n = 0 THEN T ELSE Closure(re, w, T, n - 1)
CatFrom(subs, k, w, S) == IF k > Len(subs) \/ S = {} THEN S
                          ELSE CatFrom(subs, k + 1, w, StepSet(subs[k], w, S))

MatchAt(re, w, i) ==
  LET n == Len(w) op == re.op IN
  CASE op = "Concat"       -> CatFrom(re.sub, 1, w, {i})
    [] op = "Literal" ->
         LET r == Runes(re) m == Len(r) fold == Flag(re, "FoldCase") IN
         IF i + m <= n /\ \A k \in 1..m : RuneEq(w[i + k], r[k], fold) THEN {i + m} ELSE {}
    [] op = "BeginText"    -> IF i = 0 THEN {i} ELSE {}
    [] op = "EndText"      -> IF i = n THEN {i} ELSE {}
    [] op = "CharClass"    -> IF i < n /\ InClass(w[i + 1], re) THEN {i + 1} ELSE {}
    [] op = "Alternate"    -> UNION {MatchAt(re.sub[k], w, i) : k \in 1..Len(re.sub)}
    [] op = "Capture"      -> MatchAt(re.sub[1], w, i)
    [] op = "Group"        -> MatchAt(re.sub[1], w, i)
    [] op = "BeginLine"    -> IF i = 0 THEN {i} ELSE IF w[i] = NL THEN {i} ELSE {}
    [] op = "EndLine"      -> IF i = n THEN {i} ELSE IF w[i + 1] = NL THEN {i} ELSE {}
    [] op = "Quest"        -> {i} \cup MatchAt(re.sub[1], w, i)
    [] op = "Star"         -> Closure(re.sub[1], w, {i}, n + 1)
    [] op = "Plus"         -> Closure(re.sub[1], w, MatchAt(re.sub[1], w, i), n + 1)
    [] op = "Repeat"       ->
         LET S == Iter(re.sub[1], w, {i}, re.min) IN
         IF re.max = -1 THEN Closure(re.sub[1], w, S, n + 1)
         ELSE UpTo(re.sub[1], w, S, re.max - re.min)
    [] op = "AnyCharNotNL" -> IF i < n /\ w[i + 1] # NL THEN {i + 1} ELSE {}
    [] op = "AnyChar"      -> IF i < n THEN {i + 1} ELSE {}
    [] op = "EmptyMatch"   -> {i}
    [] op = "WordBoundary"   -> IF AtWordBoundary(w, i) THEN {i} ELSE {}
    [] op = "NoWordBoundary" -> IF AtWordBoundary(w, i) THEN {} ELSE {i}
    [] op = "NoMatch"      -> {}

\* Go's MatchString: unanchored search
Matches(re, w) == \E i \in 0..Len(w) : MatchAt(re, w, i) # {}
\* re matches w as a whole string
FullMatch(re, w) == Len(w) \in MatchAt(re, w, 0)

(* ------------------------------------------------------------------------------------
   The syntactic classes the property names ("left as they are"), read off the expression
   as it was written (the generator's tree).                                            *)
RECURSIVE NodeSeq(_), NodeSeqOf(_, _)
NodeSeqOf(subs, k) == IF k > Len(subs) THEN <<>> ELSE NodeSeq(subs[k]) \o NodeSeqOf(subs, k + 1)
NodeSeq(re) == <<re>> \o NodeSeqOf(Subs(re), 1)

AnyNode(re, ops) == LET ns == NodeSeq(re) IN \E k \in 1..Len(ns) : ns[k].op \in ops

\* case folding: the fold-case flag is in force on a literal or class that contains a cased letter
CasedPoints == (65..90) \cup (97..122) \cup {383, 8490}
NodeFolds(n) == /\ n.op \in {"Literal", "CharClass"} /\ Flag(n, "FoldCase")
                /\ IF n.op = "Literal" THEN \E k \in 1..Len(Runes(n)) : Cased(Runes(n)[k])
                   ELSE \E k \in 1..(Len(Runes(n)) \div 2) :
                          \E c \in CasedPoints : Runes(n)[2 * k - 1] <= c /\ c <= Runes(n)[2 * k]
HasCaseFolding(re) == LET ns == NodeSeq(re) IN \E k \in 1..Len(ns) : NodeFolds(ns[k])
HasLineAnchor(re)  == AnyNode(re, {"BeginLine", "EndLine"})
IsOpen(n) == n.op \in {"Star", "Plus"} \/ (n.op = "Repeat" /\ n.max = -1)
HasOpenRepetition(re) == LET ns == NodeSeq(re) IN \E k \in 1..Len(ns) : IsOpen(ns[k])

Range(s) == {s[k] : k \in 1..Len(s)}
=============================================================================
