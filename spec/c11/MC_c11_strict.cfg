SPECIFICATION Spec
CONSTANTS
  AtomNames = {"a", "c3"}
  BinAtoms = {"cd"}
  UnOps = {"cap"}
  BinOps = {"alt"}
  MaxDepth = 1
  MaxCard = 260
  AnchorPairs <- AP_core
  Pres = {"", "m"}
  Shapes = {"plain"}
  Ops = {"=~"}
  Tmpls = {"host @"}
INVARIANTS ModelSound
CHECK_DEADLOCK FALSE
