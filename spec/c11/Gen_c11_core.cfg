\* the "core" part of the quick tier (checks/c11.py writes the other parts' configurations
\* from the same template): bodies of depth <= 1, six anchor pairs, with and without (?m)
SPECIFICATION Spec
CONSTANTS
  AtomNames = {"a", "ab", "Iab", "c3", "Ic2"}
  BinAtoms = {"a", "cd", "Ib", "c3"}
  UnOps = {"cap", "grp", "quest", "questng", "star", "plus", "r2", "r12", "r2o"}
  BinOps = {"cat", "alt"}
  MaxDepth = 1
  MaxCard = 260
  AnchorPairs <- AP_six
  Pres = {"", "m"}
  Shapes = {"plain"}
  Ops = {"=~", "!~"}
  Tmpls = {"host @"}
INVARIANTS ModelSoundOrKnown
CHECK_DEADLOCK FALSE
