------------------------------ MODULE Gen_c11 ------------------------------
(* Pass G (and the model-level part of pass M) for C11.

   TLC enumerates regular-expression syntax trees from the constructors - atoms, then up
   to MaxDepth applications of a unary constructor (capture, group, ? * + {m,n}, greedy or
   not) or of a binary one (concatenation / alternation with a further atom, on either
   side; nested concatenations and alternations are flattened, so three-way products
   arise) - then chooses anchors, the global flag prefix, the outer shape, the operator
   and the condition template, and emits one case: the tree (records as in RegexLang), how
   to spell it, and the candidate strings the condition is to be evaluated on.

   Candidates: every string of length <= 3 (<= 2 when the expression denotes more than 30
   strings) over the first letters of the expression, a foreign letter and newline; every
   member of the expression's own bounded language (anchors read as empty, open
   repetitions unrolled twice); and near-misses of a few members (a newline or a foreign
   letter before / behind, case swapped, doubled, truncated).

   Invariant ModelSoundOrKnown is pass M at model level: the transcribed design
   (RegexRewrite!MatchExact), applied to the tree itself, is sound against the property
   part (RegexLang!Matches) on all candidates - except for the named deviation.
   ModelSound is the same without the exception; TLC refutes it ((?m)^a$).             *)
EXTENDS RegexRewrite, Json, CSV, IOUtils

CONSTANTS AtomNames,   \* atoms a body may start from
          BinAtoms,    \* atoms that may be attached by a binary constructor
          UnOps,       \* unary constructors
          BinOps,      \* subset of {"cat", "alt"}
          MaxDepth,    \* constructor applications
          MaxCard,     \* bound on the size of the bounded language of a body
          AnchorPairs, \* set of <<begin, end>>, each in "none" "^" "A"/"z" "m^"/"m$"
          Pres,        \* global flag prefixes: "" "i" "m" "s" "im" ...
          Shapes,      \* "plain" "capall" "grpall" "inner" "altun"
          Ops,         \* "=~" "!~"
          Tmpls        \* condition templates, "@" stands for <op> /<regex>/

VARIABLES pc, body, depth, ch
vars == <<pc, body, depth, ch>>

CaseFile == IOEnv.CASE_FILE

(* ------------------------------ constructors ------------------------------ *)
F(fold) == IF fold THEN <<"FoldCase">> ELSE <<>>
Lit(s, fold) == [op |-> "Literal", fl |-> F(fold), rune |-> s]
\* case folding of a class is expanded into its ranges (rune), as Go's parser does; wr keeps
\* the ranges as written, for the renderer
Max2(a, b) == IF a > b THEN a ELSE b
Min2(a, b) == IF a < b THEN a ELSE b
Shifted(lo, hi, from, to, d) == LET l == Max2(lo, from) h == Min2(hi, to) IN IF l <= h THEN <<l + d, h + d>> ELSE <<>>
Special(lo, hi) == (IF (lo <= 107 /\ 107 <= hi) \/ (lo <= 75 /\ 75 <= hi) THEN <<8490, 8490>> ELSE <<>>)
                   \o (IF (lo <= 115 /\ 115 <= hi) \/ (lo <= 83 /\ 83 <= hi) THEN <<383, 383>> ELSE <<>>)
                   \o (IF lo <= 8490 /\ 8490 <= hi THEN <<75, 75, 107, 107>> ELSE <<>>)
                   \o (IF lo <= 383 /\ 383 <= hi THEN <<83, 83, 115, 115>> ELSE <<>>)
RECURSIVE FoldExtra(_, _)
FoldExtra(rs, k) == IF 2 * k > Len(rs) THEN <<>>
                    ELSE LET lo == rs[2 * k - 1] hi == rs[2 * k] IN
                         Shifted(lo, hi, 97, 122, -32) \o Shifted(lo, hi, 65, 90, 32) \o Special(lo, hi) \o FoldExtra(rs, k + 1)
FoldClose(rs) == rs \o FoldExtra(rs, 1)
Cls(rs, fold) == IF fold THEN [op |-> "CharClass", fl |-> F(TRUE), rune |-> FoldClose(rs), wr |-> rs]
                 ELSE [op |-> "CharClass", fl |-> <<>>, rune |-> rs]
Leaf(op) == [op |-> op, fl |-> <<>>]
Un(op, x) == [op |-> op, fl |-> <<>>, sub |-> <<x>>]
UnNG(op, x) == [op |-> op, fl |-> <<"NonGreedy">>, sub |-> <<x>>]
Rep(x, mn, mx) == [op |-> "Repeat", fl |-> <<>>, min |-> mn, max |-> mx, sub |-> <<x>>]
Nary(op, xs) == [op |-> op, fl |-> <<>>, sub |-> xs]

\* n two-rune literals with pairwise different first runes: the parser can neither factor
\* a common prefix out of them nor merge them into a class
\* (CJK ideographs: no case, so RegexLang!Orbit - ASCII letters only - is exact on them)
Wide(n) == Nary("Alternate", [k \in 1..n |-> Lit(<<19967 + k, 120>>, FALSE)])

AtomOf(a) ==
  CASE a = "a"     -> Lit(<<97>>, FALSE)
    [] a = "ab"    -> Lit(<<97, 98>>, FALSE)
    [] a = "cd"    -> Lit(<<99, 100>>, FALSE)
    [] a = "foo"   -> Lit(<<102, 111, 111>>, FALSE)
    [] a = "k"     -> Lit(<<107>>, FALSE)
    [] a = "Iab"   -> Lit(<<97, 98>>, TRUE)
    [] a = "Ib"    -> Lit(<<98>>, TRUE)
    [] a = "Ik"    -> Lit(<<107>>, TRUE)
    [] a = "I1"    -> Lit(<<49>>, TRUE)
    [] a = "nl"    -> Lit(<<10>>, FALSE)
    [] a = "dollar" -> Lit(<<36>>, FALSE)
    [] a = "c3"    -> Cls(<<97, 99>>, FALSE)
    [] a = "c2x"   -> Cls(<<97, 98, 120, 120>>, FALSE)
    [] a = "c1"    -> Cls(<<97, 97>>, FALSE)
    [] a = "Ic2"   -> Cls(<<97, 98>>, TRUE)
    [] a = "cAa"   -> Cls(<<65, 65, 97, 97>>, FALSE)
    [] a = "c2"    -> Cls(<<97, 98>>, FALSE)
    [] a = "d2"    -> Cls(<<99, 100>>, FALSE)
    [] a = "e2"    -> Cls(<<101, 102>>, FALSE)
    \* the classes that have a name of their own: \d , \w , [a-z]
    [] a = "d10"   -> Cls(<<48, 57>>, FALSE)
    [] a = "w63"   -> Cls(<<48, 57, 65, 90, 95, 95, 97, 122>>, FALSE)
    [] a = "lower" -> Cls(<<97, 122>>, FALSE)
    [] a = "sdash" -> Lit(<<115, 45>>, FALSE)
    \* characters between U+0080 and U+00FF (two bytes in UTF-8, one byte in Latin-1)
    [] a = "lat2"  -> Cls(<<232, 233>>, FALSE)
    [] a = "latdm" -> Cls(<<176, 176, 181, 181>>, FALSE)
    [] a = "lat80" -> Cls(<<126, 129>>, FALSE)
    [] a = "caf"   -> Lit(<<99, 97, 102>>, FALSE)
    [] a = "c4"    -> Cls(<<97, 100>>, FALSE)
    [] a = "c5"    -> Cls(<<97, 101>>, FALSE)
    [] a = "c10"   -> Cls(<<97, 106>>, FALSE)
    [] a = "c11"   -> Cls(<<97, 107>>, FALSE)
    [] a = "c50"   -> Cls(<<20480, 20529>>, FALSE)
    [] a = "c51"   -> Cls(<<20480, 20530>>, FALSE)
    [] a = "c100"  -> Cls(<<20480, 20579>>, FALSE)
    [] a = "c101"  -> Cls(<<20480, 20580>>, FALSE)
    [] a = "c100s" -> Cls(<<97, 122, 20480, 20553>>, FALSE)
    [] a = "c101s" -> Cls(<<97, 122, 20480, 20554>>, FALSE)
    [] a = "neg"   -> Cls(<<0, 96, 98, 1114111>>, FALSE)
    [] a = "c0"    -> Cls(<<>>, FALSE)                    \* the empty class, written [^\x00-\x{10FFFF}]: matches nothing
    [] a = "dot"   -> Leaf("AnyCharNotNL")
    [] a = "dotnl" -> Leaf("AnyChar")
    [] a = "empty" -> Leaf("EmptyMatch")
    [] a = "wb"    -> Leaf("WordBoundary")
    \* anchors INSIDE an expression ( ^a$b$ , ^a^b$ , ^^a$ , ^a$$ ): text that looks like a literal is none
    [] a = "eot"   -> Leaf("EndText")
    [] a = "bot"   -> Leaf("BeginText")
    [] a = "eol"   -> Leaf("EndLine")
    [] a = "bol"   -> Leaf("BeginLine")
    [] a = "w2"    -> Wide(2)
    [] a = "w50"   -> Wide(50)
    [] a = "w99"   -> Wide(99)
    [] a = "w100"  -> Wide(100)
    [] a = "w101"  -> Wide(101)

ApplyUn(u, x) ==
  CASE u = "cap"     -> Un("Capture", x)
    [] u = "grp"     -> Un("Group", x)
    [] u = "quest"   -> Un("Quest", x)
    [] u = "questng" -> UnNG("Quest", x)
    [] u = "star"    -> Un("Star", x)
    [] u = "starng"  -> UnNG("Star", x)
    [] u = "plus"    -> Un("Plus", x)
    [] u = "r0"      -> Rep(x, 0, 0)
    [] u = "r1"      -> Rep(x, 1, 1)
    [] u = "r2"      -> Rep(x, 2, 2)
    [] u = "r3"      -> Rep(x, 3, 3)
    [] u = "r01"     -> Rep(x, 0, 1)
    [] u = "r12"     -> Rep(x, 1, 2)
    [] u = "r23"     -> Rep(x, 2, 3)
    [] u = "r0o"     -> Rep(x, 0, -1)
    [] u = "r2o"     -> Rep(x, 2, -1)

Parts(op, x) == IF x.op = op THEN x.sub ELSE <<x>>
ApplyBin(b, x, y, side) ==
  LET op == IF b = "cat" THEN "Concat" ELSE "Alternate"
      l == IF side = "L" THEN y ELSE x
      r == IF side = "L" THEN x ELSE y
  IN  Nary(op, Parts(op, l) \o Parts(op, r))

(* ----------------- the bounded language of a tree (for candidates) ----------------- *)
SwapCase(c) == IF c >= 97 /\ c <= 122 THEN c - 32 ELSE IF c >= 65 /\ c <= 90 THEN c + 32 ELSE c
SwapAll(s) == [k \in 1..Len(s) |-> SwapCase(s[k])]
RangeSize(rs) == ClassSize(rs, 1)
ClassMembers(rs) == UNION {rs[2 * k - 1]..rs[2 * k] : k \in 1..(Len(rs) \div 2)}
ClassSample(n) == IF RangeSize(n.rune) <= 101 THEN ClassMembers(n.rune) ELSE Range(n.rune)

Cat2(A, B) == {x \o y : x \in A, y \in B}
RECURSIVE Lang(_), LangCat(_, _), Pow(_, _), PowRange(_, _, _), Card(_), CardCat(_, _), CardAlt(_, _), IPow(_, _), IPowRange(_, _, _)
Pow(L, k) == IF k = 0 THEN {<<>>} ELSE Cat2(Pow(L, k - 1), L)
PowRange(L, lo, hi) == IF lo > hi THEN {} ELSE Pow(L, lo) \cup PowRange(L, lo + 1, hi)
LangCat(subs, k) == IF k > Len(subs) THEN {<<>>} ELSE Cat2(Lang(subs[k]), LangCat(subs, k + 1))
Lang(re) ==
  LET op == re.op IN
  CASE op = "Literal" -> {re.rune} \cup (IF Flag(re, "FoldCase") THEN {SwapAll(re.rune)} ELSE {})
    [] op = "CharClass" -> {<<c>> : c \in ClassSample(re)}
    [] op = "AnyCharNotNL" -> {<<97>>, <<122>>}
    [] op = "AnyChar" -> {<<97>>, <<122>>, <<10>>}
    [] op \in {"BeginText", "EndText", "BeginLine", "EndLine", "EmptyMatch", "WordBoundary", "NoWordBoundary"} -> {<<>>}
    [] op \in {"Capture", "Group"} -> Lang(re.sub[1])
    [] op = "Quest" -> {<<>>} \cup Lang(re.sub[1])
    [] op = "Star" -> PowRange(Lang(re.sub[1]), 0, 2)
    [] op = "Plus" -> PowRange(Lang(re.sub[1]), 1, 2)
    [] op = "Repeat" -> PowRange(Lang(re.sub[1]), re.min, IF re.max = -1 THEN re.min + 1 ELSE re.max)
    [] op = "Concat" -> LangCat(re.sub, 1)
    [] op = "Alternate" -> UNION {Lang(re.sub[k]) : k \in 1..Len(re.sub)}

\* numeric upper bound of Cardinality(Lang(re)), computed without building the set
IPow(c, k) == IF k = 0 THEN 1 ELSE IF c * IPow(c, k - 1) > 100000 THEN 100000 ELSE c * IPow(c, k - 1)
IPowRange(c, lo, hi) == IF lo > hi THEN 0 ELSE IPow(c, lo) + IPowRange(c, lo + 1, hi)
CardCat(subs, k) == IF k > Len(subs) THEN 1
                    ELSE LET p == Card(subs[k]) * CardCat(subs, k + 1) IN IF p > 100000 THEN 100000 ELSE p
CardAlt(subs, k) == IF k > Len(subs) THEN 0 ELSE Card(subs[k]) + CardAlt(subs, k + 1)
Card(re) ==
  LET op == re.op IN
  CASE op = "Literal" -> IF Flag(re, "FoldCase") THEN 2 ELSE 1
    [] op = "CharClass" -> IF RangeSize(re.rune) <= 101 THEN RangeSize(re.rune) ELSE Len(re.rune)
    [] op = "AnyCharNotNL" -> 2
    [] op = "AnyChar" -> 3
    [] op \in {"Capture", "Group"} -> Card(re.sub[1])
    [] op = "Quest" -> 1 + Card(re.sub[1])
    [] op = "Star" -> IPowRange(Card(re.sub[1]), 0, 2)
    [] op = "Plus" -> IPowRange(Card(re.sub[1]), 1, 2)
    [] op = "Repeat" -> IPowRange(Card(re.sub[1]), re.min, IF re.max = -1 THEN re.min + 1 ELSE re.max)
    [] op = "Concat" -> CardCat(re.sub, 1)
    [] op = "Alternate" -> CardAlt(re.sub, 1)
    [] OTHER -> 1

(* ----------------------------- candidate strings ----------------------------- *)
Foreign == 122
RECURSIVE Letters(_, _, _), Distinct(_, _, _)
\* letters of the expression in order of appearance
NodeLetters(n) == IF n.op = "Literal" THEN n.rune
                  ELSE IF n.op = "CharClass" /\ RangeSize(n.rune) <= 101 THEN n.rune ELSE <<>>
Letters(ns, k, acc) == IF k > Len(ns) THEN acc ELSE Letters(ns, k + 1, acc \o NodeLetters(ns[k]))
\* the first n distinct usable letters of s
Distinct(s, n, acc) ==
  IF s = <<>> \/ Len(acc) = n THEN acc
  ELSE IF Head(s) \in Range(acc) \cup {Foreign, NL} THEN Distinct(Tail(s), n, acc)
  ELSE Distinct(Tail(s), n, Append(acc, Head(s)))
Alphabet(re) ==
  LET ns == NodeSeq(re)
      folded == \E k \in 1..Len(ns) : Flag(ns[k], "FoldCase")
      ls == Distinct(Letters(ns, 1, <<>>), IF folded THEN 2 ELSE 3, <<>>)
  IN  Range(ls) \cup {Foreign, NL}
      \cup (IF folded /\ ls # <<>> THEN {SwapCase(ls[1])} ELSE {})
      \cup (IF folded /\ 107 \in Range(ls) THEN {8490} ELSE {})
Base(S, n) == {<<>>} \cup {<<a>> : a \in S}
              \cup (IF n >= 2 THEN {<<a, b>> : a \in S, b \in S} ELSE {})
              \cup (IF n >= 3 THEN {<<a, b, c>> : a \in S, b \in S, c \in S} ELSE {})
RECURSIVE Pick(_, _)
Pick(S, n) == IF n = 0 \/ S = {} THEN {} ELSE LET x == CHOOSE y \in S : TRUE IN {x} \cup Pick(S \ {x}, n - 1)
Near(m) == {m \o <<NL>>, <<NL>> \o m, m \o <<Foreign>>, <<Foreign>> \o m, <<Foreign, NL>> \o m,
            m \o <<NL, Foreign>>, SwapAll(m), m \o m}
           \cup (IF m = <<>> THEN {} ELSE {SubSeq(m, 1, Len(m) - 1), SubSeq(m, 2, Len(m))})
Cands(re) ==
  LET M == Lang(re)
      S == Alphabet(re)
  IN  Base(S, IF Cardinality(M) > 30 THEN 2 ELSE 3) \cup M \cup UNION {Near(m) : m \in Pick(M, 4)}

(* ------------------------------- assembling a case ------------------------------- *)
Anchor(a) == CASE a = "^"  -> <<Leaf("BeginText")>>
               [] a = "A"  -> <<[op |-> "BeginText", fl |-> <<>>, sp |-> "A"]>>
               [] a = "m^" -> <<Leaf("BeginLine")>>
               [] a = "$"  -> <<Leaf("EndText")>>
               [] a = "z"  -> <<[op |-> "EndText", fl |-> <<>>, sp |-> "z"]>>
               [] a = "m$" -> <<Leaf("EndLine")>>
               [] a = "none" -> <<>>
Seq1(xs) == IF Len(xs) = 1 THEN xs[1] ELSE Nary("Concat", xs)
Plain(b, x, e) == Seq1(Anchor(b) \o Parts("Concat", x) \o Anchor(e))
Shape(s, b, x, e) ==
  CASE s = "plain"  -> Plain(b, x, e)
    [] s = "capall" -> Un("Capture", Plain(b, x, e))
    [] s = "grpall" -> Un("Group", Plain(b, x, e))
    [] s = "inner"  -> Seq1(Anchor(b) \o <<Un("Capture", Plain(b, x, e))>> \o Anchor(e))
    [] s = "altun"  -> Nary("Alternate", <<Plain(b, x, e), Lit(<<113>>, FALSE)>>)
    \* a top-level alternation of SEPARATELY anchored branches, one of them empty / a single atom ( ^x$|^$ , ^$|^x$ , ^x$|^q$ )
    [] s = "altempty"  -> Nary("Alternate", <<Plain(b, x, e), Seq1(Anchor(b) \o Anchor(e))>>)
    [] s = "emptyalt"  -> Nary("Alternate", <<Seq1(Anchor(b) \o Anchor(e)), Plain(b, x, e)>>)
    [] s = "altanch"   -> Nary("Alternate", <<Plain(b, x, e), Seq1(Anchor(b) \o <<Lit(<<113>>, FALSE)>> \o Anchor(e))>>)
    [] s = "trail"  -> Seq1(Anchor(b) \o Parts("Concat", x) \o Anchor(e) \o <<Un("Quest", Lit(<<NL>>, FALSE))>>)

\* what a global flag prefix does to the tree that follows it
RECURSIVE ApplyPre(_, _)
HasCh(s, c) == \E k \in 1..Len(s) : SubSeq(s, k, k) = c
ApplyPre(re, pre) ==
  LET i == HasCh(pre, "i") m == HasCh(pre, "m") s == HasCh(pre, "s")
      n1 == IF "sub" \in DOMAIN re THEN [re EXCEPT !.sub = [k \in 1..Len(re.sub) |-> ApplyPre(re.sub[k], pre)]] ELSE re
  IN  CASE re.op = "Literal" /\ i /\ ~Flag(re, "FoldCase") -> [n1 EXCEPT !.fl = Append(@, "FoldCase")]
        [] re.op = "CharClass" /\ i /\ ~Flag(re, "FoldCase") -> Cls(re.rune, TRUE)
        [] re.op = "BeginText" /\ m /\ ~Has(re, "sp") -> [n1 EXCEPT !.op = "BeginLine"]
        [] re.op = "EndText" /\ m /\ ~Has(re, "sp") -> [n1 EXCEPT !.op = "EndLine"]
        [] re.op = "AnyCharNotNL" /\ s -> [n1 EXCEPT !.op = "AnyChar"]
        [] OTHER -> n1

Tree(x, c) == ApplyPre(Shape(c.shape, c.ap[1], x, c.ap[2]), c.pre)
Case(x, c) ==
  LET t == Tree(x, c) IN
  [re |-> t, pre |-> c.pre, op |-> c.op, tmpl |-> c.tmpl, tag |-> "host", dc |-> <<"x", "y">>,
   cands |-> Cands(t), depth |-> depth, shape |-> c.shape, b |-> c.ap[1], e |-> c.ap[2]]

(* ---------------------------------- behaviours ---------------------------------- *)
NoChoice == [shape |-> "", ap |-> <<"", "">>, pre |-> "", op |-> "", tmpl |-> ""]

Init == /\ pc = "build" /\ depth = 0 /\ ch = NoChoice
        /\ body \in {AtomOf(a) : a \in AtomNames}

Unary == /\ pc = "build" /\ depth < MaxDepth
         /\ \E u \in UnOps :
              LET t == ApplyUn(u, body) IN
              /\ Card(t) <= MaxCard
              /\ body' = t
         /\ depth' = depth + 1 /\ UNCHANGED <<pc, ch>>

Binary == /\ pc = "build" /\ depth < MaxDepth
          /\ \E b \in BinOps : \E a \in BinAtoms : \E side \in {"L", "R"} :
               LET t == ApplyBin(b, body, AtomOf(a), side) IN
               /\ Card(t) <= MaxCard
               /\ body' = t
          /\ depth' = depth + 1 /\ UNCHANGED <<pc, ch>>

\* the choices are made one dimension at a time, so that every state has few successors
\* (TLC's simulator evaluates all successors of every state it passes through)
ChooseShape == /\ pc = "build"
               /\ \E s \in Shapes : ch' = [ch EXCEPT !.shape = s]
               /\ pc' = "c1" /\ UNCHANGED <<body, depth>>
ChooseAnchors == /\ pc = "c1"
                 /\ \E ap \in AnchorPairs : ch' = [ch EXCEPT !.ap = ap]
                 /\ pc' = "c2" /\ UNCHANGED <<body, depth>>
ChoosePre == /\ pc = "c2"
             /\ \E p \in Pres : /\ Card(ApplyPre(body, p)) <= MaxCard    \* (?i) doubles literals
                                /\ ch' = [ch EXCEPT !.pre = p]
             /\ pc' = "c3" /\ UNCHANGED <<body, depth>>
ChooseOp == /\ pc = "c3"
            /\ \E o \in Ops : ch' = [ch EXCEPT !.op = o]
            /\ pc' = "c4" /\ UNCHANGED <<body, depth>>
ChooseTmpl == /\ pc = "c4"
              /\ \E t \in Tmpls : ch' = [ch EXCEPT !.tmpl = t]
              /\ pc' = "emit" /\ UNCHANGED <<body, depth>>
Choose == ChooseShape \/ ChooseAnchors \/ ChoosePre \/ ChooseOp \/ ChooseTmpl

Emit == /\ pc = "emit"
        /\ CSVWrite("%1$s", <<ToJson(Case(body, ch))>>, CaseFile)
        /\ pc' = "done" /\ UNCHANGED <<body, depth, ch>>

Next == Unary \/ Binary \/ Choose \/ Emit
Spec == Init /\ [][Next]_vars

(* named anchor-pair sets for the configuration files (a .cfg cannot spell a tuple) *)
Begins == {"none", "^", "A", "m^"}
Ends   == {"none", "$", "z", "m$"}
AP_all  == Begins \X Ends
AP_core == {<<"^", "$">>, <<"A", "z">>, <<"m^", "m$">>, <<"^", "m$">>, <<"m^", "$">>, <<"none", "$">>, <<"^", "none">>, <<"none", "none">>}
AP_six  == {<<"^", "$">>, <<"A", "z">>, <<"m^", "m$">>, <<"^", "m$">>, <<"none", "$">>, <<"^", "none">>}
AP_std  == {<<"^", "$">>, <<"A", "z">>, <<"m^", "m$">>}
AP_two  == {<<"^", "$">>, <<"m^", "m$">>}
AP_one  == {<<"^", "$">>}

(* ------------------------------ pass M at model level ------------------------------ *)
RECURSIVE GoShaped(_)
\* trees the simplifier leaves as they are, apart from merging neighbours
GoShaped(re) == /\ re.op \notin {"Group", "Repeat"}
                /\ \A k \in 1..Len(Subs(re)) : GoShaped(re.sub[k])
ModelSound ==
  pc = "emit" => LET t == Tree(body, ch) IN GoShaped(t) => DesignSound(t, Cands(t))
ModelSoundOrKnown ==
  pc = "emit" => LET t == Tree(body, ch) IN
                 GoShaped(t) => (DesignSound(t, Cands(t)) \/ Dev_LineAnchorsAccepted(t))
=============================================================================
