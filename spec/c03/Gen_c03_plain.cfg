SPECIFICATION Spec
CONSTANTS
  K = 3
  MaxSpecial = 0
  OpsUsed = {"*", "/", "%", "&", "+", "-", "|", "^", "=", "!=", "<>", "<", "<=", ">", ">=", "=~", "!~", "AND", "OR"}
  SubOps = {"*"}
INVARIANTS Agree Fold ReparseStable
CHECK_DEADLOCK FALSE
