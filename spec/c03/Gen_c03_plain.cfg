SPECIFICATION Spec
CONSTANTS
  K = 3
  MaxSpecial = 0
  OpsUsed = {"*", "/", "%", "&", "+", "-", "|", "^", "=", "!=", "<>", "<", "<=", ">", ">=", "=~", "!~", "AND", "OR"}
  SubOps = {"*"}
  Nest = {1}
  Lits = {}
  Long = FALSE
INVARIANTS Agree Fold ReparseStable
CHECK_DEADLOCK FALSE
