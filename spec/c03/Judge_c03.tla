----------------------------- MODULE Judge_c03 -----------------------------
(* Pass V for C03: every recorded parse of an operator chain is judged here.
   A record: [id, want, nops, special, obs |-> [text, tree | err | panic, str, reparse | rerr]]
   Verdicts:
     ok                      obs.tree = want   and   obs.reparse = obs.tree
     wrong-grouping          the real parser grouped differently from the reference
     rejected / panic        the chain was not accepted
     Dev_UnaryMinusNoParen   re-parse differs exactly as the design predicts for a signed
                             operand standing right of a level-5 operator (known finding)
     reparse-regroup         any other change of grouping after print -> parse        *)
EXTENDS PrecOps, Json, CSV, IOUtils

VARIABLES l, nt
vars == <<l, nt>>

Trace == ndJsonDeserialize(IOEnv.OBS_FILE)
Has(r, f) == f \in DOMAIN r
\* TLC's "=" is partial: comparing a string with a record or a boolean is an evaluation error, and
\* the "Val" field of literals is polymorphic (string, boolean, record).  Projected ASTs are
\* therefore compared structurally, kinds first (total).
KindOfV(x) == LET c == SubSeq(ToString(x), 1, 1) IN IF c = "[" THEN "rec" ELSE IF c = "<" THEN "seq" ELSE "atom"
RECURSIVE SameAst(_, _)
SameAst(a, b) == LET ka == KindOfV(a) kb == KindOfV(b) IN
  IF ka # kb THEN FALSE
  ELSE IF ka = "atom" THEN ToString(a) = ToString(b)
  ELSE DOMAIN a = DOMAIN b /\ \A f \in DOMAIN a : SameAst(a[f], b[f])

\* long chains: no reference tree is carried; the observed tree is judged by its in-order reading and the local
\* characterisation of the grouping (PrecOps!LocallyGrouped)
LongVerdict(r) ==
  LET o == r.obs IN
  IF Has(o, "panic") \/ Has(o, "harness_panic") THEN [ok |-> FALSE, class |-> "panic", sig |-> "parse"]
  ELSE IF Has(o, "err") THEN [ok |-> FALSE, class |-> "rejected", sig |-> "long chain"]
  ELSE IF FlatOps(o.tree) # r.ops THEN [ok |-> FALSE, class |-> "wrong-grouping", sig |-> "long chain: operators lost or reordered, " \o ToString(Len(FlatOps(o.tree))) \o " of " \o ToString(r.nops)]
  ELSE IF ~LocallyGrouped(o.tree) THEN [ok |-> FALSE, class |-> "wrong-grouping", sig |-> "long chain"]
  ELSE IF Has(o, "rerr") THEN [ok |-> FALSE, class |-> "reparse-rejected", sig |-> "long chain"]
  ELSE IF FlatOps(o.reparse) = r.ops /\ LocallyGrouped(o.reparse) THEN [ok |-> TRUE, class |-> "ok", sig |-> ""]
  ELSE [ok |-> FALSE, class |-> "reparse-regroup", sig |-> "long chain"]

\* uniform chains: the left spine, run-length encoded by the driver as <<[k, op, n]>> (kind of the right operand, operator,
\* how many such nodes in a row from the root down), and the kind of the leftmost leaf
UniformOK(r, sp) ==
  LET ok == IF r.operand = "a" THEN "VarRef" ELSE "Call"
      tk == IF r.tail = "(a)" THEN "ParenExpr" ELSE "Call"
      Run(k, n) == [k |-> k, op |-> r.op, n |-> n]
      want == IF r.tail = "" THEN <<Run(ok, r.n - 1)>>
              ELSE IF tk = ok THEN <<Run(ok, r.n)>>
              ELSE <<Run(tk, 1), Run(ok, r.n - 1)>>
  IN sp.runs = want /\ sp.left = ok /\ sp.ops = r.n - 1 + (IF r.tail = "" THEN 0 ELSE 1)
UniformVerdict(r) ==
  LET o == r.obs IN
  IF Has(o, "panic") \/ Has(o, "harness_panic") THEN [ok |-> FALSE, class |-> "panic", sig |-> "parse"]
  ELSE IF Has(o, "err") THEN [ok |-> FALSE, class |-> "rejected", sig |-> "uniform chain of " \o ToString(r.n) \o " " \o r.operand]
  ELSE IF ~UniformOK(r, o.spine) THEN [ok |-> FALSE, class |-> "wrong-grouping", sig |-> "uniform chain of " \o ToString(r.n)]
  ELSE IF Has(o, "rerr") THEN [ok |-> FALSE, class |-> "reparse-rejected", sig |-> "uniform chain"]
  ELSE IF ~UniformOK(r, o.respine) THEN [ok |-> FALSE, class |-> "reparse-regroup", sig |-> "uniform chain of " \o ToString(r.n)]
  ELSE [ok |-> TRUE, class |-> "ok", sig |-> ""]

Verdict(r) ==
  IF Has(r, "uniform") THEN UniformVerdict(r) ELSE
  IF Has(r, "long") THEN LongVerdict(r) ELSE
  LET o == r.obs IN
  IF Has(o, "panic") \/ Has(o, "harness_panic") THEN [ok |-> FALSE, class |-> "panic", sig |-> "parse"]
  ELSE IF Has(o, "err") THEN [ok |-> FALSE, class |-> "rejected", sig |-> ""]
  ELSE IF ~SameAst(o.tree, r.want) THEN [ok |-> FALSE, class |-> "wrong-grouping",
                                      sig |-> "root " \o (IF Has(o.tree, "Op") THEN o.tree.Op ELSE o.tree.k) \o " wanted " \o (IF Has(r.want, "Op") THEN r.want.Op ELSE r.want.k)]
  ELSE IF Has(o, "rerr") THEN [ok |-> FALSE, class |-> "reparse-rejected", sig |-> ""]
  ELSE IF SameAst(o.reparse, o.tree) THEN [ok |-> TRUE, class |-> "ok", sig |-> ""]
  ELSE IF HasSignedRhsUnderL5(o.tree) /\ SameAst(o.reparse, Reparse(o.tree))
       THEN [ok |-> FALSE, class |-> "Dev_UnaryMinusNoParen", sig |-> ""]
  ELSE [ok |-> FALSE, class |-> "reparse-regroup", sig |-> ""]

\* non-trivial: at least two operators of different precedence levels, or a special operand
RECURSIVE Levels(_)
Levels(t) == IF t.k = "BinaryExpr" THEN {Prec(t.Op)} \cup Levels(t.LHS) \cup Levels(t.RHS)
             ELSE IF t.k = "ParenExpr" THEN Levels(t.Expr) ELSE {}
NonTrivial(r) == IF Has(r, "uniform") THEN TRUE ELSE IF Has(r, "long") THEN r.nops >= 2 ELSE r.special > 0 \/ (r.nops >= 2 /\ \E a, b \in Levels(r.want) : a # b)

Init == l = 1 /\ nt = 0
Step == /\ l <= Len(Trace)
        /\ LET r == Trace[l] v == Verdict(r) IN
             /\ IF v.ok THEN TRUE
                ELSE CSVWrite("%1$s", <<ToJson([id |-> r.id, class |-> v.class, sig |-> v.sig])>>, IOEnv.VERDICT_FILE)
             /\ nt' = nt + (IF NonTrivial(r) THEN 1 ELSE 0)
        /\ l' = l + 1
Finish == /\ l = Len(Trace) + 1
          /\ CSVWrite("%1$s", <<ToJson([judged |-> Len(Trace), nontrivial |-> nt])>>, IOEnv.STATS_FILE)
          /\ l' = l + 1 /\ UNCHANGED nt
Next == Step \/ Finish
Spec == Init /\ [][Next]_vars
\* the whole observation file was consumed: one state per record + initial + Finish
Accepted == TLCGet("stats").diameter = Len(Trace) + 2
=============================================================================
