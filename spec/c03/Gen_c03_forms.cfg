SPECIFICATION Spec
CONSTANTS
  K = 2
  MaxSpecial = 1
  OpsUsed = {"*", "/", "+", "=", "AND", "OR"}
  SubOps = {"*", "+", "=", "AND", "OR"}
INVARIANTS Agree Fold ReparseStable
CHECK_DEADLOCK FALSE
