SPECIFICATION Spec
CONSTANTS
  K = 2
  MaxSpecial = 1
  OpsUsed = {"*", "/", "+", "=", "AND", "OR"}
  SubOps = {"*", "+", "=", "AND", "OR"}
  Nest = {1}
  Lits = {}
  Long = FALSE
INVARIANTS Agree Fold ReparseStable
CHECK_DEADLOCK FALSE
