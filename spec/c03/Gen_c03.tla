------------------------------ MODULE Gen_c03 ------------------------------
(* Pass M + G for C03.  TLC enumerates operator chains; in every state it checks the
   design (right-spine insertion) against the reference grouping (invariant Agree), and
   the action that extends a chain emits it as one case for the real parser:
   tokens to render, the tree the property demands.                                *)
EXTENDS PrecOps, Json, CSV, IOUtils

CONSTANTS K,          \* maximal number of operators in the outer chain
          MaxSpecial, \* maximal number of operands that are not a plain reference
          OpsUsed,    \* operator spellings used in the outer chain
          SubOps,     \* operator spellings used inside parentheses
          Lits,       \* integer literals that may stand as operands ("-2" is written - 2 and parsed to one literal)
          Long,       \* TRUE: long chains - the case carries the operator sequence instead of the reference tree (judged locally)
          CallArgs,   \* TRUE: the special operands are calls whose argument is a parenthesised group: f((a + b)), f(v, (a + b))
          Nest        \* nesting depths of a parenthesised operand: 2 = ((...)) directly doubled

VARIABLES chain, tree, special
vars == <<chain, tree, special>>

CaseFile == IOEnv.CASE_FILE

SubChains == {<<>>} \cup {<<o>> : o \in SubOps} \cup {<<o1, o2>> : o1 \in SubOps, o2 \in SubOps}
Operands(i) == {[f |-> "ref", i |-> i]} \cup {[f |-> "lit", i |-> i, v |-> v] : v \in Lits}
               \cup (IF MaxSpecial = 0 THEN {} ELSE IF CallArgs THEN
                     {[f |-> g, i |-> i, sub |-> s, d |-> d] : g \in {"fpar", "fpar2"}, s \in SubChains, d \in Nest} ELSE
                     {[f |-> "neg", i |-> i], [f |-> "pos", i |-> i]}
                     \cup {[f |-> "par", i |-> i, sub |-> s, d |-> d] : s \in SubChains, d \in Nest}
                     \cup {[f |-> "npar", i |-> i, sub |-> s, d |-> d] : s \in SubChains, d \in Nest})
IsSpecial(x) == x.f \notin {"ref", "lit"}

EmitLong(c) == CSVWrite("%1$s", <<ToJson([toks |-> ChainToks(c), ops |-> [j \in 1..Len(c.items) |-> CanonOp(c.items[j].op)],
                                          nops |-> Len(c.items), special |-> 0, long |-> TRUE])>>, CaseFile)
Emit(c) == IF Long THEN EmitLong(c) ELSE CSVWrite("%1$s", <<ToJson([toks |-> ChainToks(c), want |-> RefTree(c),
                                      nops |-> Len(c.items), special |-> Len(SelectSeq(<<c.first>> \o [j \in 1..Len(c.items) |-> c.items[j].x], IsSpecial))])>>, CaseFile)

\* UNIFORM chains of thousands of operands ( a AND a AND ... ): far beyond what a JSON reader nests, so the driver reports the
\* left spine run-length encoded (harness/suite_c03.go) and the judge checks that every right operand is a leaf.  With the
\* operand now() and a last operand in parentheses: what a parser counts per call or per group must not add up.
UniformSizes == {255, 256, 257, 258, 999, 1000, 1001, 1002, 1025, 2049, 4097}
UniformStep == /\ chain.items = <<>> /\ chain.first = [f |-> "ref", i |-> 0]
               /\ \A n \in UniformSizes : \A o \in {"AND", "OR", "+", "*", "="} : \A operand \in {"a", "now()"} : \A tail \in {"", "(a)", "f(a)"} :
                    CSVWrite("%1$s", <<ToJson([uniform |-> TRUE, op |-> o, n |-> n, operand |-> operand, tail |-> tail, nops |-> n - 1, special |-> 0])>>, CaseFile)
               /\ UNCHANGED vars

Init == \E x \in Operands(0) :
          /\ chain = [first |-> x, items |-> <<>>]
          /\ tree = Atom(x, FALSE, TRUE)
          /\ special = IF IsSpecial(x) THEN 1 ELSE 0

Step == /\ Len(chain.items) < K
        /\ \E o \in OpsUsed : \E x \in Operands(Len(chain.items) + 1) :
             /\ IF IsRegexOp(o) THEN x.f = "ref" ELSE TRUE
             /\ special + (IF IsSpecial(x) THEN 1 ELSE 0) <= MaxSpecial
             /\ LET c2 == [chain EXCEPT !.items = Append(@, [op |-> o, x |-> x])] IN
                  /\ chain' = c2
                  /\ tree' = IF Long THEN tree ELSE Insert(tree, o, Atom(x, IsRegexOp(o), TRUE))
                  /\ special' = special + (IF IsSpecial(x) THEN 1 ELSE 0)
                  /\ Emit(c2)
Next == IF Long /\ K = 0 THEN UniformStep ELSE Step
Spec == Init /\ [][Next]_vars

\* M: the code-shaped insertion builds exactly the tree the property demands
Agree == tree = RefTree(chain)
\* M: the incremental tree equals the tree rebuilt from scratch (Insert is a fold)
Fold == tree = DesignTree(chain)
\* M: printing and re-parsing keeps the grouping, except for the named deviation
ReparseStable == (Reparse(tree) = tree) \/ HasSignedRhsUnderL5(tree)
\* M: the local characterisation holds of the reference tree (with only plain / literal operands no ambiguity from signs)
Local == LocallyGrouped(RefTree(chain))
=============================================================================
