------------------------------ MODULE PrecOps ------------------------------
(* C03 - operator precedence and associativity.

   Two independent descriptions of how a chain  x0 o1 x1 o2 x2 ...  groups:

   * DesignTree  - code-shaped: the loop of Parser.ParseExpr (parser.go), which
     inserts every new (operator, operand) pair by descending the right spine of
     the tree built so far while the right child is a BinaryExpr whose operator
     binds less tightly than the new operator.
   * RefTree     - the property, read literally: the root is the LAST operator of
     the LOWEST precedence level present (left associativity), recursively on both
     sides; parenthesised groups are atoms kept as ParenExpr nodes; a signed
     operand  -x  is the node  -1 * x  (parser.go: parseUnaryExpr).

   Operands:  [f |-> "ref", i]            v<i>           (or /r<i>/ after =~ !~)
              [f |-> "lit", i, v]         an integer literal; "-2" is written with a sign and is ONE literal
              [f |-> "neg", i]            -v<i>
              [f |-> "pos", i]            +v<i>
              [f |-> "par", i, sub, d]    ( p<i>_0 sub[1] p<i>_1 ... )   written with d pairs of
                                          parentheses directly around each other: d ParenExpr nodes
              [f |-> "npar", i, sub, d]   -( ... )                                  *)
EXTENDS Naturals, Integers, Sequences, TLC, Tok, Ast

\* the 19 spellings of the 18 binary operators
AllOps == <<"*", "/", "%", "&", "+", "-", "|", "^", "=", "!=", "<>", "<", "<=", ">", ">=", "=~", "!~", "AND", "OR">>
OpSet == {AllOps[i] : i \in 1..Len(AllOps)}

Prec(o) == CASE o \in {"*", "/", "%", "&"} -> 5
             [] o \in {"+", "-", "|", "^"} -> 4
             [] o \in {"=", "!=", "<>", "<", "<=", ">", ">=", "=~", "!~"} -> 3
             [] o = "AND" -> 2
             [] o = "OR" -> 1
             [] OTHER -> 0
IsRegexOp(o) == o \in {"=~", "!~"}

\* ---------------------------------------------------------------- leaves
SubName(i, j) == "p" \o ToString(i) \o "_" \o ToString(j)
VName(i) == "v" \o ToString(i)

\* code-shaped insertion (ParseExpr's inner loop). t is the tree so far.
RECURSIVE Insert(_, _, _)
Insert(t, op, rhs) ==
  IF t.k = "BinaryExpr" /\ Prec(t.Op) < Prec(op)
  THEN [t EXCEPT !.RHS = Insert(t.RHS, op, rhs)]
  ELSE Bin(CanonOp(op), t, rhs)

\* a chain is [first |-> operand, items |-> << [op, x] ... >>]
\* plain sub-chain inside parentheses: operators `sub`, operands p<i>_0 .. p<i>_n
RECURSIVE DesignSub(_, _, _, _)
DesignSub(i, sub, j, acc) ==
  IF j > Len(sub) THEN acc
  ELSE DesignSub(i, sub, j + 1,
                 Insert(acc, sub[j], IF IsRegexOp(sub[j]) THEN ReL(SubName(i, j)) ELSE Ref(SubName(i, j))))

\* reference grouping of operators s[lo..hi] over atoms a[lo-1 .. hi]
MinPrec(s, lo, hi) == CHOOSE p \in 1..5 : (\E i \in lo..hi : Prec(s[i]) = p) /\ (\A i \in lo..hi : Prec(s[i]) >= p)
LastMin(s, lo, hi) == CHOOSE i \in lo..hi : Prec(s[i]) = MinPrec(s, lo, hi)
                                            /\ \A j \in (i + 1)..hi : Prec(s[j]) > MinPrec(s, lo, hi)
RECURSIVE RefGroup(_, _, _, _)
RefGroup(s, a, lo, hi) ==
  IF lo > hi THEN a[lo]          \* atoms are indexed 1..Len(s)+1: atom lo is left of operator lo
  ELSE LET i == LastMin(s, lo, hi)
       IN Bin(CanonOp(s[i]), RefGroup(s, a, lo, i - 1), RefGroup(s, a, i + 1, hi))

SubAtoms(i, sub) == [j \in 1..(Len(sub) + 1) |->
                       IF j > 1 /\ IsRegexOp(sub[j - 1]) THEN ReL(SubName(i, j - 1)) ELSE Ref(SubName(i, j - 1))]

Signed(m, e) == Bin("*", IntL(m), e)
\* the desugared sign of an operand ( -x is the node -1 * x ): an atom of the chain, not one of its operators
IsSignedLit(t) == t.k = "BinaryExpr" /\ t.Op = "*" /\ t.LHS.k = "IntegerLiteral" /\ t.LHS.Val \in {"-1", "1"} /\ t.RHS.k \in {"VarRef", "ParenExpr"}
\* every pair of parentheses is one ParenExpr node ("parenthesised groups are kept")
RECURSIVE Wrap(_, _)
Wrap(e, d) == IF d = 0 THEN e ELSE Paren(Wrap(e, d - 1))

\* atom for an operand; `design` selects which grouping is used inside parentheses
Atom(x, afterRegex, design) ==
  LET inner == IF design THEN DesignSub(x.i, x.sub, 1, Ref(SubName(x.i, 0)))
               ELSE RefGroup(x.sub, SubAtoms(x.i, x.sub), 1, Len(x.sub))
  IN CASE afterRegex -> ReL("r" \o ToString(x.i))
       [] x.f = "ref" -> Ref(VName(x.i))
       [] x.f = "lit" -> IntL(x.v)
       [] x.f = "neg" -> Signed("-1", Ref(VName(x.i)))
       [] x.f = "pos" -> Signed("1", Ref(VName(x.i)))
       [] x.f = "par" -> Wrap(inner, x.d)
       [] x.f = "npar" -> Signed("-1", Wrap(inner, x.d))
       [] x.f = "fpar" -> Call("f", <<Wrap(inner, x.d)>>)
       [] x.f = "fpar2" -> Call("f", <<Ref(VName(x.i)), Wrap(inner, x.d)>>)

RECURSIVE DesignFrom(_, _, _)
DesignFrom(items, j, acc) ==
  IF j > Len(items) THEN acc
  ELSE DesignFrom(items, j + 1, Insert(acc, items[j].op, Atom(items[j].x, IsRegexOp(items[j].op), TRUE)))
DesignTree(c) == DesignFrom(c.items, 1, Atom(c.first, FALSE, TRUE))

RefTree(c) ==
  LET s == [j \in 1..Len(c.items) |-> c.items[j].op]
      a == [j \in 1..(Len(c.items) + 1) |->
              IF j = 1 THEN Atom(c.first, FALSE, FALSE)
              ELSE Atom(c.items[j - 1].x, IsRegexOp(c.items[j - 1].op), FALSE)]
  IN RefGroup(s, a, 1, Len(s))

\* The same grouping, characterised locally (linear to check; used for chains too long for RefGroup, and model-checked
\* against RefTree on every chain of the exhaustive parts - invariant Local of Gen_c03): a tree whose in-order reading is
\* the chain is THE tree of the property iff at every operator node a right child that is an (unparenthesised) operator
\* node binds strictly tighter, and a left child that is one binds at least as tight.
RECURSIVE LocallyGrouped(_)
LocallyGrouped(t) ==
  IF t.k # "BinaryExpr" THEN TRUE
  ELSE /\ (t.RHS.k = "BinaryExpr" /\ ~IsSignedLit(t.RHS)) => Prec(t.RHS.Op) > Prec(t.Op)
       /\ (t.LHS.k = "BinaryExpr" /\ ~IsSignedLit(t.LHS)) => Prec(t.LHS.Op) >= Prec(t.Op)
       /\ LocallyGrouped(t.LHS) /\ LocallyGrouped(t.RHS)

\* --------------------------------------------------------------- rendering
RECURSIVE SubToks(_, _, _)
SubToks(i, sub, j) ==
  IF j > Len(sub) THEN <<>>
  ELSE <<OpTok(sub[j]), IF IsRegexOp(sub[j]) THEN Re(SubName(i, j)) ELSE Id(SubName(i, j))>> \o SubToks(i, sub, j + 1)

OperandToks(x, afterRegex) ==
  LET par == <<P("(")>> \o [j \in 1..(x.d - 1) |-> PT("(")] \o <<IdT(SubName(x.i, 0))>> \o SubToks(x.i, x.sub, 1) \o [j \in 1..x.d |-> PT(")")]
  IN CASE afterRegex -> <<Re("r" \o ToString(x.i))>>
       [] x.f = "ref" -> <<Id(VName(x.i))>>
       [] x.f = "lit" -> IF SubSeq(x.v, 1, 1) = "-" THEN <<P("-"), IntT(SubSeq(x.v, 2, Len(x.v)))>> ELSE <<[t |-> "int", s |-> x.v, g |-> "L"]>>
       [] x.f = "neg" -> <<P("-"), IdT(VName(x.i))>>
       [] x.f = "pos" -> <<P("+"), IdT(VName(x.i))>>
       [] x.f = "par" -> par
       [] x.f = "npar" -> <<P("-"), [par[1] EXCEPT !.g = "T"]>> \o SubSeq(par, 2, Len(par))
       [] x.f = "fpar" -> <<Id("f"), PT("(")>> \o par \o <<PT(")")>>
       [] x.f = "fpar2" -> <<Id("f"), PT("("), IdT(VName(x.i)), PT(",")>> \o par \o <<PT(")")>>

RECURSIVE ItemToks(_, _)
ItemToks(items, j) ==
  IF j > Len(items) THEN <<>>
  ELSE <<OpTok(items[j].op)>> \o OperandToks(items[j].x, IsRegexOp(items[j].op)) \o ItemToks(items, j + 1)
ChainToks(c) == OperandToks(c.first, FALSE) \o ItemToks(c.items, 1)

\* ------------------------------------------------- print -> re-parse model
\* String() of a tree is the in-order token sequence; ParenExpr prints its parentheses,
\* a BinaryExpr prints none.  Re-parsing therefore regroups the flattened chain.
IsSignedNode(t) == t.k = "BinaryExpr" /\ t.Op = "*" /\ t.LHS.k = "IntegerLiteral"

RECURSIVE FlatOps(_), FlatAtoms(_), Reparse(_)
FlatOps(t) == IF t.k = "BinaryExpr" THEN FlatOps(t.LHS) \o <<t.Op>> \o FlatOps(t.RHS) ELSE <<>>
FlatAtoms(t) == IF t.k = "BinaryExpr" THEN FlatAtoms(t.LHS) \o FlatAtoms(t.RHS)
                ELSE IF t.k = "ParenExpr" THEN <<Paren(Reparse(t.Expr))>>
                ELSE <<t>>
RECURSIVE InsertAll(_, _, _, _)
InsertAll(ops, atoms, j, acc) ==
  IF j > Len(ops) THEN acc ELSE InsertAll(ops, atoms, j + 1, Insert(acc, ops[j], atoms[j + 1]))
\* what the design predicts for ParseExpr(t.String())
Reparse(t) == LET ops == FlatOps(t) atoms == FlatAtoms(t) IN InsertAll(ops, atoms, 1, atoms[1])

\* named deviation Dev_UnaryMinusNoParen: a desugared sign ( -1 * x ) standing as the
\* right operand of a level-5 operator prints without parentheses and regroups.
RECURSIVE HasSignedRhsUnderL5(_)
HasSignedRhsUnderL5(t) ==
  CASE t.k = "BinaryExpr" -> \/ (Prec(t.Op) = 5 /\ IsSignedNode(t.RHS) /\ t.RHS.RHS.k # "IntegerLiteral")
                             \/ HasSignedRhsUnderL5(t.LHS) \/ HasSignedRhsUnderL5(t.RHS)
    [] t.k = "ParenExpr" -> HasSignedRhsUnderL5(t.Expr)
    [] OTHER -> FALSE
=============================================================================
