------------------------------- MODULE Chars -------------------------------
(* Character classes and the keyword table of scanner.go / token.go.
   Characters are 1-character strings; "EOF" is the reader's end marker
   (rune 0 in the code). *)
EXTENDS Naturals, Sequences

EOFCH == "EOF"

LowerLetters == {"a","b","c","d","e","f","g","h","i","j","k","l","m","n","o","p","q","r","s","t","u","v","w","x","y","z"}
UpperLetters == {"A","B","C","D","E","F","G","H","I","J","K","L","M","N","O","P","Q","R","S","T","U","V","W","X","Y","Z"}
DigitChars == {"0","1","2","3","4","5","6","7","8","9"}

IsWhitespace(c) == c \in {" ", "\t", "\n"}
IsLetter(c) == c \in LowerLetters \/ c \in UpperLetters
IsDigit(c) == c \in DigitChars
IsIdentChar(c) == IsLetter(c) \/ IsDigit(c) \/ c = "_"
IsIdentFirstChar(c) == IsLetter(c) \/ c = "_"

UpperSeq == <<"A","B","C","D","E","F","G","H","I","J","K","L","M","N","O","P","Q","R","S","T","U","V","W","X","Y","Z">>
LowerSeq == <<"a","b","c","d","e","f","g","h","i","j","k","l","m","n","o","p","q","r","s","t","u","v","w","x","y","z">>
ToLowerCh(c) == IF c \in UpperLetters THEN LowerSeq[CHOOSE i \in 1..26 : UpperSeq[i] = c] ELSE c

\* token.go: keywords (keywordBeg..keywordEnd) plus AND OR TRUE FALSE, lower-cased
KeywordNames == {"ALL","ALTER","ANALYZE","ANY","AS","ASC","BEGIN","BY","CARDINALITY","CREATE","CONTINUOUS",
  "DATABASE","DATABASES","DEFAULT","DELETE","DESC","DESTINATIONS","DIAGNOSTICS","DISTINCT","DROP","DURATION",
  "END","EVERY","EXACT","EXPLAIN","FIELD","FOR","FROM","FUTURE","GRANT","GRANTS","GROUP","GROUPS","IN","INF",
  "INSERT","INTO","KEY","KEYS","KILL","LIMIT","MEASUREMENT","MEASUREMENTS","NAME","OFFSET","ON","ORDER",
  "PASSWORD","PAST","POLICY","POLICIES","PRIVILEGES","QUERIES","QUERY","READ","REPLICATION","RESAMPLE",
  "RETENTION","REVOKE","SELECT","SERIES","SET","SHOW","SHARD","SHARDS","SLIMIT","SOFFSET","STATS",
  "SUBSCRIPTION","SUBSCRIPTIONS","TAG","TO","USER","USERS","VALUES","VERBOSE","WHERE","WITH","WRITE"}
\* token.go init(): lower-case spelling -> token, for the 79 keywords plus AND OR TRUE FALSE (83 entries)
KeywordPairs == {
  <<"all","ALL">>, <<"alter","ALTER">>, <<"analyze","ANALYZE">>, <<"any","ANY">>, <<"as","AS">>, <<"asc","ASC">>,
  <<"begin","BEGIN">>, <<"by","BY">>, <<"cardinality","CARDINALITY">>, <<"continuous","CONTINUOUS">>, <<"create","CREATE">>, <<"database","DATABASE">>,
  <<"databases","DATABASES">>, <<"default","DEFAULT">>, <<"delete","DELETE">>, <<"desc","DESC">>, <<"destinations","DESTINATIONS">>, <<"diagnostics","DIAGNOSTICS">>,
  <<"distinct","DISTINCT">>, <<"drop","DROP">>, <<"duration","DURATION">>, <<"end","END">>, <<"every","EVERY">>, <<"exact","EXACT">>,
  <<"explain","EXPLAIN">>, <<"field","FIELD">>, <<"for","FOR">>, <<"from","FROM">>, <<"future","FUTURE">>, <<"grant","GRANT">>,
  <<"grants","GRANTS">>, <<"group","GROUP">>, <<"groups","GROUPS">>, <<"in","IN">>, <<"inf","INF">>, <<"insert","INSERT">>,
  <<"into","INTO">>, <<"key","KEY">>, <<"keys","KEYS">>, <<"kill","KILL">>, <<"limit","LIMIT">>, <<"measurement","MEASUREMENT">>,
  <<"measurements","MEASUREMENTS">>, <<"name","NAME">>, <<"offset","OFFSET">>, <<"on","ON">>, <<"order","ORDER">>, <<"password","PASSWORD">>,
  <<"past","PAST">>, <<"policies","POLICIES">>, <<"policy","POLICY">>, <<"privileges","PRIVILEGES">>, <<"queries","QUERIES">>, <<"query","QUERY">>,
  <<"read","READ">>, <<"replication","REPLICATION">>, <<"resample","RESAMPLE">>, <<"retention","RETENTION">>, <<"revoke","REVOKE">>, <<"select","SELECT">>,
  <<"series","SERIES">>, <<"set","SET">>, <<"shard","SHARD">>, <<"shards","SHARDS">>, <<"show","SHOW">>, <<"slimit","SLIMIT">>,
  <<"soffset","SOFFSET">>, <<"stats","STATS">>, <<"subscription","SUBSCRIPTION">>, <<"subscriptions","SUBSCRIPTIONS">>, <<"tag","TAG">>, <<"to","TO">>,
  <<"user","USER">>, <<"users","USERS">>, <<"values","VALUES">>, <<"verbose","VERBOSE">>, <<"where","WHERE">>, <<"with","WITH">>,
  <<"write","WRITE">>, <<"and","AND">>, <<"or","OR">>, <<"true","TRUE">>, <<"false","FALSE">>}
\* Lookup on an already lower-cased word (token.go: Lookup lower-cases its argument)
Lookup(lower) == IF \E p \in KeywordPairs : p[1] = lower THEN (CHOOSE p \in KeywordPairs : p[1] = lower)[2] ELSE "IDENT"
=============================================================================
