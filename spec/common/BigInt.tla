------------------------------- MODULE BigInt -------------------------------
(* Exact integers for TLC (whose own integers are 32-bit).  Values cross the JSON
   boundary as decimal strings.  Validated against Python integers on 20 000 random
   a*b+c cases (DESIGN.md section 4). *)
EXTENDS Naturals, Integers, Sequences, TLC
\* Non-negative big naturals as little-endian sequences of base-10000 limbs (no leading zero limbs; zero = <<>>).
\* Signed values: [neg |-> BOOLEAN, mag |-> limbs].
Base == 10000
DigitVal(c) == CASE c = "0" -> 0 [] c = "1" -> 1 [] c = "2" -> 2 [] c = "3" -> 3 [] c = "4" -> 4
                 [] c = "5" -> 5 [] c = "6" -> 6 [] c = "7" -> 7 [] c = "8" -> 8 [] c = "9" -> 9
RECURSIVE Small(_)      \* value of a decimal string of at most 4 digits
Small(s) == IF Len(s) = 0 THEN 0 ELSE Small(SubSeq(s, 1, Len(s) - 1)) * 10 + DigitVal(SubSeq(s, Len(s), Len(s)))
RECURSIVE Trim(_)
Trim(a) == IF Len(a) > 0 /\ a[Len(a)] = 0 THEN Trim(SubSeq(a, 1, Len(a) - 1)) ELSE a
RECURSIVE FromDecU(_)   \* decimal digit string -> limbs
FromDecU(s) == IF Len(s) = 0 THEN <<>>
               ELSE IF Len(s) <= 4 THEN <<Small(s)>>
               ELSE <<Small(SubSeq(s, Len(s) - 3, Len(s)))>> \o FromDecU(SubSeq(s, 1, Len(s) - 4))
NatFromDec(s) == Trim(FromDecU(s))
FromDec(s) == IF Len(s) > 0 /\ SubSeq(s, 1, 1) = "-" THEN [neg |-> TRUE, mag |-> NatFromDec(SubSeq(s, 2, Len(s)))]
              ELSE [neg |-> FALSE, mag |-> NatFromDec(s)]
Limb(a, i) == IF i <= Len(a) THEN a[i] ELSE 0
Max(x, y) == IF x > y THEN x ELSE y
RECURSIVE AddC(_, _, _, _)
AddC(a, b, i, carry) == IF i > Max(Len(a), Len(b)) THEN (IF carry = 0 THEN <<>> ELSE <<carry>>)
                        ELSE LET t == Limb(a, i) + Limb(b, i) + carry IN <<t % Base>> \o AddC(a, b, i + 1, t \div Base)
NatAdd(a, b) == AddC(a, b, 1, 0)
RECURSIVE CmpFrom(_, _, _)
CmpFrom(a, b, i) == IF i = 0 THEN 0 ELSE IF Limb(a, i) < Limb(b, i) THEN -1 ELSE IF Limb(a, i) > Limb(b, i) THEN 1 ELSE CmpFrom(a, b, i - 1)
NatCmp(a, b) == CmpFrom(a, b, Max(Len(a), Len(b)))
RECURSIVE SubB(_, _, _, _)   \* a >= b
SubB(a, b, i, borrow) == IF i > Len(a) THEN <<>>
                         ELSE LET t == Limb(a, i) - Limb(b, i) - borrow IN
                              IF t < 0 THEN <<t + Base>> \o SubB(a, b, i + 1, 1) ELSE <<t>> \o SubB(a, b, i + 1, 0)
NatSub(a, b) == Trim(SubB(a, b, 1, 0))
RECURSIVE MulLimb(_, _, _, _)
MulLimb(a, m, i, carry) == IF i > Len(a) THEN (IF carry = 0 THEN <<>> ELSE <<carry>>)
                           ELSE LET t == a[i] * m + carry IN <<t % Base>> \o MulLimb(a, m, i + 1, t \div Base)
RECURSIVE MulAcc(_, _, _)
MulAcc(a, b, j) == IF j > Len(b) THEN <<>>
                   ELSE NatAdd([k \in 1..(j - 1) |-> 0] \o MulLimb(a, b[j], 1, 0), MulAcc(a, b, j + 1))
NatMul(a, b) == Trim(MulAcc(a, b, 1))
Norm(x) == IF x.mag = <<>> THEN [neg |-> FALSE, mag |-> <<>>] ELSE x
Add(x, y) == Norm(IF x.neg = y.neg THEN [neg |-> x.neg, mag |-> NatAdd(x.mag, y.mag)]
             ELSE IF NatCmp(x.mag, y.mag) >= 0 THEN [neg |-> x.neg, mag |-> NatSub(x.mag, y.mag)]
             ELSE [neg |-> y.neg, mag |-> NatSub(y.mag, x.mag)])
Neg(x) == Norm([neg |-> ~x.neg, mag |-> x.mag])
Mul(x, y) == Norm([neg |-> x.neg # y.neg, mag |-> NatMul(x.mag, y.mag)])
Cmp(x, y) == IF x.neg /\ ~y.neg THEN -1 ELSE IF ~x.neg /\ y.neg THEN 1
             ELSE IF x.neg THEN NatCmp(y.mag, x.mag) ELSE NatCmp(x.mag, y.mag)
Eq(x, y) == Norm(x) = Norm(y)
MaxI64 == FromDec("9223372036854775807")
MinI64 == FromDec("-9223372036854775808")
Fits64(x) == Cmp(x, MinI64) >= 0 /\ Cmp(x, MaxI64) <= 0
\* decimal rendering
Digits == <<"0","1","2","3","4","5","6","7","8","9">>
RECURSIVE Pad4(_, _)
Pad4(n, w) == IF w = 0 THEN "" ELSE Pad4(n \div 10, w - 1) \o Digits[(n % 10) + 1]
RECURSIVE NatStr(_)
NatStr(n) == IF n < 10 THEN Digits[n + 1] ELSE NatStr(n \div 10) \o Digits[(n % 10) + 1]
RECURSIVE LimbsStr(_, _)
LimbsStr(a, i) == IF i = 0 THEN "" ELSE (IF i = Len(a) THEN NatStr(a[i]) ELSE Pad4(a[i], 4)) \o LimbsStr(a, i - 1)
ToDec(x) == IF x.mag = <<>> THEN "0" ELSE (IF x.neg THEN "-" ELSE "") \o LimbsStr(x.mag, Len(x.mag))
Zero == [neg |-> FALSE, mag |-> <<>>]
Sub(x, y) == Add(x, Neg(y))
FromNat(n) == [neg |-> FALSE, mag |-> Trim(<<n % Base, (n \div Base) % Base, n \div (Base * Base)>>)]  \* n < 10^12 does not fit TLC ints anyway; n < 2^31
MaxU64 == FromDec("18446744073709551615")
FitsU64(x) == ~x.neg /\ Cmp(x, MaxU64) <= 0
=============================================================================
