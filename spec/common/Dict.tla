-------------------------------- MODULE Dict --------------------------------
(* The source dictionary (harness/suite_dict.go): every string / character / small integer constant
   written in the non-test Go sources of the tree under check, one record [w, k] per word,
   k = "str" | "int" (integers: the constant and its two neighbours).  Generators place the words
   where a statement takes a name, a string value or a count: code that treats one particular
   value specially must spell that value in its source, so it is in this set.  The file is
   harvested by every run from /repo's current working tree (IOEnv.DICT_FILE).            *)
EXTENDS Naturals, Sequences, Json, IOUtils

DictRecs == ndJsonDeserialize(IOEnv.DICT_FILE)
DictStrs == {DictRecs[i].w : i \in {j \in DOMAIN DictRecs : DictRecs[j].k = "str"}}
DictInts == {DictRecs[i].w : i \in {j \in DOMAIN DictRecs : DictRecs[j].k = "int"}}
=============================================================================
