-------------------------------- MODULE Ast --------------------------------
(* AST records in the normal form produced by the Go projection
   (harness/project.go; DESIGN.md Appendix A): one record per node, field "k" is the
   Go type name, one field per exported struct field under its Go name, zero values
   omitted, every number a decimal string, tokens / data types / privileges by name. *)
EXTENDS Naturals, Sequences, TLC

\* optional record fragment: present only when the value is not the zero value
Opt(name, v, zero) == IF v = zero THEN <<>> ELSE [x \in {name} |-> v]
OptS(name, v) == Opt(name, v, "")
OptB(name, v) == IF v THEN [x \in {name} |-> TRUE] ELSE <<>>
OptSeq(name, v) == IF v = <<>> THEN <<>> ELSE [x \in {name} |-> v]

Ref(n)       == [k |-> "VarRef", Val |-> n]
RefT(n, ty)  == [k |-> "VarRef", Val |-> n] @@ OptS("Type", ty)
IntL(v)      == [k |-> "IntegerLiteral", Val |-> v]
UnsL(v)      == [k |-> "UnsignedLiteral", Val |-> v]
NumL(v)      == [k |-> "NumberLiteral", Val |-> v]
StrL(v)      == [k |-> "StringLiteral", Val |-> v]
BoolL(v)     == [k |-> "BooleanLiteral", Val |-> v]
DurL(v)      == [k |-> "DurationLiteral", Val |-> v]
ReL(v)       == [k |-> "RegexLiteral", Val |-> [k |-> "re", s |-> v]]
Wild(ty)     == [k |-> "Wildcard"] @@ OptS("Type", ty)
Dist(v)      == [k |-> "Distinct", Val |-> v]
Bin(op, l, r) == [k |-> "BinaryExpr", Op |-> op, LHS |-> l, RHS |-> r]
Paren(e)     == [k |-> "ParenExpr", Expr |-> e]
Call(n, args) == [k |-> "Call", Name |-> n] @@ OptSeq("Args", args)
Field(e)     == [k |-> "Field", Expr |-> e]
FieldA(e, a) == [k |-> "Field", Expr |-> e] @@ OptS("Alias", a)
Dim(e)       == [k |-> "Dimension", Expr |-> e]
Meas(db, rp, n) == [k |-> "Measurement"] @@ OptS("Database", db) @@ OptS("RetentionPolicy", rp) @@ OptS("Name", n)
MeasRe(db, rp, re) == [k |-> "Measurement", Regex |-> ReL(re)] @@ OptS("Database", db) @@ OptS("RetentionPolicy", rp)
SubQ(st)     == [k |-> "SubQuery", Statement |-> st]
SortF(n, asc) == [k |-> "SortField"] @@ OptS("Name", n) @@ OptB("Ascending", asc)

\* the token String() of an operator spelling ("<>" is a spelling of "!=")
CanonOp(o) == IF o = "<>" THEN "!=" ELSE o

\* structural size of an expression record (number of nodes)
RECURSIVE Size(_)
Size(e) == CASE e.k = "BinaryExpr" -> 1 + Size(e.LHS) + Size(e.RHS)
             [] e.k = "ParenExpr" -> 1 + Size(e.Expr)
             [] OTHER -> 1
=============================================================================
