-------------------------------- MODULE Tok --------------------------------
(* Token records exchanged with the Go renderer (DESIGN.md Appendix A).
   t : kind   kw keyword | id identifier | str string | int | num | dur | re regex
              | p punctuation/operator | bp bound parameter
   s : value (unescaped for id / str / re)
   g : class of the gap BEFORE the token: "T" tight (nothing may be inserted), "L" loose
   optional spelling fields, interpreted by the renderer only:
   c : keyword case  "u" | "l" | "m"        q : TRUE = write identifier quoted
   w : literal gap text (whitespace / comments) replacing the default single space *)
EXTENDS Naturals, Sequences

Kw(s)   == [t |-> "kw",  s |-> s, g |-> "L"]
KwT(s)  == [t |-> "kw",  s |-> s, g |-> "T"]
Id(s)   == [t |-> "id",  s |-> s, g |-> "L"]
IdT(s)  == [t |-> "id",  s |-> s, g |-> "T"]
QId(s)  == [t |-> "id",  s |-> s, g |-> "L", q |-> TRUE]
QIdT(s) == [t |-> "id",  s |-> s, g |-> "T", q |-> TRUE]
P(s)    == [t |-> "p",   s |-> s, g |-> "L"]
PT(s)   == [t |-> "p",   s |-> s, g |-> "T"]
Int(s)  == [t |-> "int", s |-> s, g |-> "L"]
IntT(s) == [t |-> "int", s |-> s, g |-> "T"]
Num(s)  == [t |-> "num", s |-> s, g |-> "L"]
NumT(s) == [t |-> "num", s |-> s, g |-> "T"]
Dur(s)  == [t |-> "dur", s |-> s, g |-> "L"]
DurT(s) == [t |-> "dur", s |-> s, g |-> "T"]
Str(s)  == [t |-> "str", s |-> s, g |-> "L"]
StrT(s) == [t |-> "str", s |-> s, g |-> "T"]
\* x: the other kind of quote is written with a backslash too ( 'say \"hi\"' , "o\'brien" ): the lexer accepts both escapes in both
StrX(s) == [t |-> "str", s |-> s, g |-> "L", x |-> TRUE]
QIdX(s) == [t |-> "id",  s |-> s, g |-> "L", q |-> TRUE, x |-> TRUE]
Re(s)   == [t |-> "re",  s |-> s, g |-> "L"]
ReT(s)  == [t |-> "re",  s |-> s, g |-> "T"]
Bp(s)   == [t |-> "bp",  s |-> s, g |-> "L"]
BpT(s)  == [t |-> "bp",  s |-> s, g |-> "T"]

\* Non-ASCII characters must not travel through TLC state variables (states spilled to TLC's
\* disk queue lose them); the renderer replaces the placeholder {MICRO} in dur tokens by U+00B5.
\* a word operator (AND / OR) is a keyword token, every other operator is punctuation
OpTok(o) == IF o \in {"AND", "OR"} THEN Kw(o) ELSE P(o)
=============================================================================
