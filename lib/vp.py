"""Shared orchestration library for the influxql TLA+ verification framework.

Everything here is plumbing: it runs TLC / Apalache / go, moves ndjson files
between them, classifies verdict records written by TLA+ judge specs against
known_findings.json, and writes evidence.  It never judges a property: every
verdict comes out of a TLA+ operator evaluated by TLC (or Apalache) on
observations recorded from the real code.

Exit codes: 0 ok / known findings only, 1 violation, 2 machinery failure.
"""
import json
import os
import re
import shutil
import subprocess
import sys
import tempfile
import time

VERIF = os.path.dirname(os.path.dirname(os.path.abspath(__file__)))
REPO = os.environ.get("VERIF_REPO", "/repo")
TLA_CP = "/opt/veriftools/tla/tla2tools.jar:/opt/veriftools/tla/CommunityModules-deps.jar"
NCPU = os.cpu_count() or 4


class Broken(Exception):
    """Machinery failure: exit 2, never a violation."""


def go_env():
    env = dict(os.environ)
    env.update(GOFLAGS="-mod=mod", GOPROXY="off", GOSUMDB="off", GOTOOLCHAIN="local",
               CGO_ENABLED=env.get("CGO_ENABLED", "0"))
    return env


class TLCResult:
    def __init__(self, out, rc, wall):
        self.out, self.rc, self.wall = out, rc, wall
        self.generated = self.distinct = 0
        m = None
        for m in re.finditer(r"(\d+) states generated, (\d+) distinct states found", out):
            pass
        if m:
            self.generated, self.distinct = int(m.group(1)), int(m.group(2))
        else:
            # simulation mode prints a different summary
            m = re.search(r"(\d+) states checked", out)
            if m:
                self.generated = self.distinct = int(m.group(1))
        self.invariant_violated = "is violated" in out
        self.ok = rc == 0 and "No error has been found" in out or (
            rc == 0 and "Finished in" in out and not self.invariant_violated and "Error:" not in out)
        # per-action coverage lines (with -coverage): "<Name line ...>: distinct:generated"
        self.coverage = {}
        for mm in re.finditer(r"^<(\w+) line \d+, col \d+ to line \d+, col \d+ of module (\w+)>: (\d+):(\d+)", out, re.M):
            self.coverage[mm.group(2) + "." + mm.group(1)] = (int(mm.group(3)), int(mm.group(4)))


class Ctx:
    def __init__(self, prop, tier, seed):
        self.prop, self.tier, self.seed = prop, tier, seed
        self.t0 = time.time()
        self.scratch = tempfile.mkdtemp(prefix="vp-%s-" % prop.lower())
        self.outdir = os.path.join(VERIF, "out", prop)
        self.states = 0
        self.transitions = 0
        self.tlc_runs = []
        self.driver = None
        self.notes = []
        self.verdicts = []          # all non-ok verdict records from judges
        self.judged = 0             # records judged (traces validated against impl)
        self.nontrivial = 0
        self.samples = []
        self.exhaustive = True
        self.coverage_extra = {}
        self.assumptions = []
        self.drift = 0
        self.rule = ""

    # ------------------------------------------------------------------ util
    def path(self, *p):
        return os.path.join(self.scratch, *p)

    def cleanup(self):
        shutil.rmtree(self.scratch, ignore_errors=True)

    def note(self, s):
        self.notes.append(s)
        print("[%s] %s  (+%.0fs)" % (self.prop, s, time.time() - self.t0), flush=True)

    @property
    def quick(self):
        return self.tier == "quick"

    # ------------------------------------------------------------------ TLA+
    def stage_specs(self, *dirs):
        """copy spec/common and the given spec sub-directories into the scratch spec dir"""
        d = self.path("spec")
        os.makedirs(d, exist_ok=True)
        for sub in ("common",) + dirs:
            src = os.path.join(VERIF, "spec", sub)
            for f in os.listdir(src):
                if f.endswith((".tla", ".cfg")):
                    shutil.copy(os.path.join(src, f), d)
        return d

    def tlc(self, module, cfg, env=None, workers=None, simulate=None, depth=None,
            timeout=900, heap="6g", fpmem="0.02", coverage=False, deadlock=False,
            expect_ok=True, extra=None, count=True, dfs=False, gc="-XX:+UseSerialGC"):
        """run TLC on spec/<module>.tla with <cfg> in the scratch spec dir"""
        d = self.path("spec")
        meta = tempfile.mkdtemp(prefix="md-", dir=self.scratch)
        # SerialGC: in this sandbox ParallelGC costs 5-15 s of system time per JVM (measured)
        # file.encoding: Java 17 in the C locale would read/write ndjson and modules as ASCII
        cmd = ["java", gc, "-Dfile.encoding=UTF-8", "-Xmx" + heap, "-Xss256m"]
        if dfs:
            cmd.append("-Dtlc2.tool.queue.IStateQueue=StateDeque")
        cmd += ["-cp", TLA_CP, "tlc2.TLC", "-metadir", meta, "-fpmem", fpmem,
                "-workers", str(workers or 1), "-config", cfg]
        if simulate:
            cmd += ["-simulate", simulate]
            if depth:
                cmd += ["-depth", str(depth)]
            cmd += ["-seed", str(self.seed)]
        if coverage:
            cmd += ["-coverage", "1"]
        if deadlock:
            cmd += ["-deadlock"]
        if extra:
            cmd += extra
        cmd.append(module + ".tla")
        e = dict(os.environ)
        e.pop("JAVA_TOOL_OPTIONS", None)
        if env:
            e.update({k: str(v) for k, v in env.items()})
        t = time.time()
        try:
            p = subprocess.run(cmd, cwd=d, env=e, stdout=subprocess.PIPE, stderr=subprocess.STDOUT,
                               timeout=timeout, text=True, errors="replace")
        except subprocess.TimeoutExpired:
            subprocess.run(["pkill", "-f", meta], check=False)
            raise Broken("TLC timeout (%ds) on %s/%s" % (timeout, module, cfg))
        finally:
            shutil.rmtree(meta, ignore_errors=True)
        r = TLCResult(p.stdout, p.returncode, time.time() - t)
        if count:
            self.states += r.distinct
            self.transitions += r.generated
        self.tlc_runs.append(dict(module=module, cfg=cfg, generated=r.generated, distinct=r.distinct,
                                  wall_s=round(r.wall, 1), rc=p.returncode))
        if expect_ok and not r.ok:
            tail = "\n".join(p.stdout.splitlines()[-40:])
            raise Broken("TLC failed on %s/%s (rc=%d):\n%s" % (module, cfg, p.returncode, tail))
        return r

    def apalache(self, module, args, timeout=600):
        d = self.path("spec")
        out = tempfile.mkdtemp(prefix="apa-", dir=self.scratch)
        cmd = ["apalache-mc", "check", "--out-dir=" + out] + args + [module + ".tla"]
        t = time.time()
        try:
            p = subprocess.run(cmd, cwd=d, stdout=subprocess.PIPE, stderr=subprocess.STDOUT,
                               timeout=timeout, text=True, errors="replace")
        except subprocess.TimeoutExpired:
            raise Broken("Apalache timeout on %s %s" % (module, args))
        self.tlc_runs.append(dict(module=module, cfg="apalache " + " ".join(args),
                                  wall_s=round(time.time() - t, 1), rc=p.returncode))
        return p.returncode, p.stdout, out

    # -------------------------------------------------------------------- Go
    def build_driver(self, race=False):
        """build the harness against REPO's working tree with -tags verif"""
        src = os.path.join(VERIF, "harness")
        dst = self.path("harness-race" if race else "harness")
        if os.path.exists(dst):
            shutil.rmtree(dst)
        shutil.copytree(src, dst)
        with open(os.path.join(dst, "go.mod"), "w") as f:
            f.write("module verifharness\n\ngo 1.21\n\nrequire github.com/influxdata/influxql v0.0.0\n\n"
                    "replace github.com/influxdata/influxql => %s\n" % REPO)
        shutil.copy(os.path.join(REPO, "go.sum"), os.path.join(dst, "go.sum"))
        exe = os.path.join(dst, "vdrive")
        cmd = ["go", "build", "-tags", "verif", "-o", exe]
        if os.environ.get("VERIF_COVERDIR"):
            # coverage survey (not part of any verdict): which statements of the package do the suites execute
            cmd[2:2] = ["-cover", "-coverpkg=github.com/influxdata/influxql,verifharness"]
        env = go_env()
        if race:
            cmd.insert(2, "-race")
            env["CGO_ENABLED"] = "1"
        cmd.append(".")
        p = subprocess.run(cmd, cwd=dst, env=env, stdout=subprocess.PIPE, stderr=subprocess.STDOUT,
                           text=True, timeout=900)
        if p.returncode != 0:
            raise Broken("go build failed:\n" + p.stdout[-4000:])
        if not race:
            self.driver = exe
        return exe

    def drive(self, suite, infile, outfile, args=None, timeout=900, exe=None, env=None):
        exe = exe or self.driver or self.build_driver()
        cmd = [exe, suite, infile or "-", outfile] + [str(a) for a in (args or [])]
        e = go_env()
        e["VERIF_SEED"] = str(self.seed)
        e["VERIF_REPO_DIR"] = REPO
        if os.environ.get("VERIF_COVERDIR"):
            e["GOCOVERDIR"] = os.environ["VERIF_COVERDIR"]
        if env:
            e.update(env)
        try:
            p = subprocess.run(cmd, stdout=subprocess.PIPE, stderr=subprocess.STDOUT, text=True,
                               timeout=timeout, env=e, errors="replace")
        except subprocess.TimeoutExpired:
            raise Broken("driver timeout: %s %s" % (suite, args))
        if p.returncode == 4 and "HANG case=" in p.stdout:
            # the watchdog recorded a case that did not return; the partial file is judged
            self.note("driver %s: %s" % (suite, p.stdout.strip().splitlines()[-1]))
            return p.stdout
        if p.returncode == 2 and "fatal error:" in p.stdout and "VERIF_SERIAL" not in e:
            # the Go runtime killed the driver (a fault or a detected concurrent map access: unrelated cases run on parallel
            # workers, and a tree under check that shares mutable state between calls can corrupt memory that way).  One
            # retry with the cases in sequence: what it observes is judged as usual; if it dies again there is no verdict.
            self.note("driver %s was killed by the Go runtime (%s); retrying with the cases in sequence" % (
                suite, next((l for l in p.stdout.splitlines() if l.startswith("fatal error:")), "fatal error")))
            env2 = dict(env or {})
            env2["VERIF_SERIAL"] = "1"
            return self.drive(suite, infile, outfile, args=args, timeout=max(timeout or 0, 3000), exe=exe, env=env2)
        if p.returncode != 0:
            raise Broken("driver %s failed rc=%d:\n%s" % (suite, p.returncode, p.stdout if len(p.stdout) <= 4000 else p.stdout[:1500] + "\n[...]\n" + p.stdout[-2500:]))
        return p.stdout

    def source_dict(self):
        """harvest the source dictionary (spec/common/Dict.tla) from the tree under check; returns the file path"""
        if getattr(self, "_dict", None):
            return self._dict
        path = self.path("dict.ndjson")
        self.drive("dict", None, path)
        n = self.count_lines(path)
        if n < 100:
            raise Broken("source dictionary: only %d words harvested from %s" % (n, REPO))
        self.note("source dictionary: %d constants harvested from the non-test sources of the tree under check" % n)
        self.coverage_extra["source_dictionary_words"] = n
        self._dict = path
        return path

    # ------------------------------------------------------------- ndjson io
    @staticmethod
    def read_ndjson(path, unwrap=True):
        out = []
        if not os.path.exists(path):
            return out
        with open(path, encoding="utf-8", errors="replace") as f:
            for line in f:
                line = line.strip()
                if not line:
                    continue
                v = json.loads(line)
                if unwrap and isinstance(v, str):
                    v = json.loads(v)
                out.append(v)
        return out

    @staticmethod
    def write_ndjson(path, recs):
        with open(path, "w", encoding="utf-8") as f:
            for r in recs:
                f.write(json.dumps(r, ensure_ascii=False, separators=(",", ":")) + "\n")

    @staticmethod
    def count_lines(path):
        if not os.path.exists(path):
            return 0
        n = 0
        with open(path, "rb") as f:
            for _ in f:
                n += 1
        return n

    # ---------------------------------------------------------------- judge
    def judge(self, module, cfg, obsfile, nrecords=None, env=None, timeout=900, heap="8g",
              chunk=None, label=None, parallel=6, suite=None):
        """run a Judge_* spec over obsfile. The spec reads IOEnv.OBS_FILE, writes one line per
        non-ok record to IOEnv.VERDICT_FILE and the number of judged / nontrivial records to
        IOEnv.STATS_FILE; acceptance (whole file consumed) is the spec's POSTCONDITION.
        Large files are judged in chunks so TLC's resident set stays bounded."""
        n = nrecords if nrecords is not None else self.count_lines(obsfile)
        if n == 0:
            raise Broken("judge %s: empty observation file %s" % (module, obsfile))
        chunk = chunk or 20000
        files = []
        if n > chunk:
            with open(obsfile, encoding="utf-8", errors="replace") as f:
                i = 0
                buf = []
                for line in f:
                    buf.append(line)
                    if len(buf) == chunk:
                        p = "%s.part%d" % (obsfile, i)
                        open(p, "w", encoding="utf-8").write("".join(buf))
                        files.append((p, len(buf)))
                        buf, i = [], i + 1
                if buf:
                    p = "%s.part%d" % (obsfile, i)
                    open(p, "w", encoding="utf-8").write("".join(buf))
                    files.append((p, len(buf)))
        else:
            files = [(obsfile, n)]
        allv = []

        def one(pc):
            p, cnt = pc
            vf = p + ".verdicts"
            sf = p + ".stats"
            for x in (vf, sf):
                if os.path.exists(x):
                    os.remove(x)
            e = {"OBS_FILE": p, "VERDICT_FILE": vf, "STATS_FILE": sf}
            if env:
                e.update(env)
            r = self.tlc(module, cfg, env=e, workers=1, timeout=timeout, heap=heap, expect_ok=False)
            if not r.ok:
                tail = "\n".join(r.out.splitlines()[-30:])
                raise Broken("judge %s/%s did not accept the observation file %s (rc=%d):\n%s"
                             % (module, cfg, p, r.rc, tail))
            st = self.read_ndjson(sf)
            if not st:
                raise Broken("judge %s wrote no stats for %s" % (module, p))
            st = st[-1]
            if int(st.get("judged", -1)) != cnt:
                raise Broken("judge %s consumed %s of %d records" % (module, st.get("judged"), cnt))
            vs = self.read_ndjson(vf)
            for v in vs:
                v["_obsfile"] = p
                v["_judge_module"], v["_judge_cfg"] = module, cfg
                if suite:
                    v["_suite"] = suite
            return cnt, st, vs

        if len(files) > 1:
            from concurrent.futures import ThreadPoolExecutor
            with ThreadPoolExecutor(max_workers=min(parallel, len(files))) as ex:
                results = list(ex.map(one, files))
        else:
            results = [one(files[0])]
        for cnt, st, vs in results:
            self.judged += cnt
            self.nontrivial += int(st.get("nontrivial", 0))
            for k, v in st.items():
                if k not in ("judged", "nontrivial") and isinstance(v, int):
                    key = (label + "." if label else "") + k
                    self.coverage_extra[key] = self.coverage_extra.get(key, 0) + v
            allv.extend(vs)
        self.verdicts.extend(allv)
        return allv


def case_finder(v):
    """default find_case: the record with the verdict's id in the observation file it came from"""
    want = v.get("id")
    with open(v["_obsfile"], encoding="utf-8", errors="replace") as f:
        for line in f:
            if not line.strip():
                continue
            r = json.loads(line)
            if r.get("id") == want:
                return r
    return None


def generic_replay(suite, judge_module, judge_cfg, specdirs, env=None):
    """replay_cmd support: re-run the one recorded case through driver and judge"""
    def replay(ctx, path):
        rec = json.load(open(path))
        case = rec.get("case")
        if not case:
            raise Broken("replay file has no case")
        if "text" not in case and isinstance(case.get("obs"), dict) and "text" in case["obs"]:
            case["text"] = case["obs"]["text"]
        case = {k: v for k, v in case.items() if k not in ("obs", "id")}
        ctx.outdir = os.path.join(ctx.outdir, "replay")
        ctx.stage_specs(*specdirs)
        ctx.build_driver()
        cf, of = ctx.path("replay.cases"), ctx.path("replay.obs")
        ctx.write_ndjson(cf, [case])
        ctx.drive(rec.get("suite", suite), cf, of)
        vs = ctx.judge(rec.get("judge_module", judge_module), rec.get("judge_cfg", judge_cfg), of, env=env)
        obs = ctx.read_ndjson(of)
        print(json.dumps(strip(obs[0]), ensure_ascii=False)[:3000])
        if not vs:
            print("replay: record is judged ok on the current tree")
            return 0
        nv, nk, kc = classify(ctx, case_finder)
        return 1 if nv else 0
    return replay


def binding_selftest(ctx, module, cfg, obsfile, corrupt, n=200, env=None, label="selftest"):
    """Demonstrate that the judge is bound to the observations: corrupt one recorded field in each of the
    first n records of an observation file and require that the judge rejects at least one of them.
    A judge that accepts corrupted observations is vacuous: machinery failure (exit 2), never a verdict."""
    recs = ctx.read_ndjson(obsfile)[:n]
    changed = []
    for r in recs:
        r2 = json.loads(json.dumps(r))
        if corrupt(r2):
            changed.append(r2)
    if not changed:
        raise Broken("binding self-test: no record could be corrupted in %s" % obsfile)
    f = obsfile + ".corrupt"
    ctx.write_ndjson(f, changed)
    before = (ctx.judged, ctx.nontrivial, list(ctx.verdicts), dict(ctx.coverage_extra))
    vs = ctx.judge(module, cfg, f, env=env, label=label)
    ctx.judged, ctx.nontrivial, ctx.verdicts, ctx.coverage_extra = before[0], before[1], before[2], before[3]
    bad = [v for v in vs if not v.get("class", "").startswith("drift:")]
    if not bad:
        raise Broken("binding self-test: %s accepted %d corrupted observation records" % (module, len(changed)))
    ctx.coverage_extra["binding_selftest"] = "%d of %d deliberately corrupted records rejected by %s" % (
        len({v.get("id") for v in bad}), len(changed), module)
    ctx.note("binding self-test: %s" % ctx.coverage_extra["binding_selftest"])


# ------------------------------------------------------------ known findings
def load_known():
    p = os.path.join(VERIF, "known_findings.json")
    if not os.path.exists(p):
        return []
    return json.load(open(p))["findings"]


def classify(ctx, find_case=None):
    """map verdict records to KNOWN-FINDING / VIOLATION lines; returns (nviol, nknown)"""
    known = {}
    for k in load_known():
        if k.get("property") == ctx.prop and k.get("status") == "known":
            known[k["class"]] = k
    seen_known = {}
    viol = {}
    drift = 0
    for v in ctx.verdicts:
        cls = v.get("class", "unclassified")
        if cls.startswith("drift:"):
            drift += 1
            continue
        if cls in known:
            seen_known.setdefault(cls, []).append(v)
        else:
            sig = (cls, v.get("sig", ""))
            viol.setdefault(sig, []).append(v)
    ctx.drift = drift
    for cls, vs in sorted(seen_known.items()):
        print("KNOWN-FINDING: property=%s %s [class=%s, %d record(s), e.g. %s]" % (
            ctx.prop, known[cls]["what"], cls, len(vs), short(vs[0])), flush=True)
    if drift:
        print("MODEL-DRIFT property=%s %d record(s) where the code left the design spec but kept the property"
              % (ctx.prop, drift), flush=True)
    nv = 0
    if viol:
        os.makedirs(ctx.outdir, exist_ok=True)
        for f in os.listdir(ctx.outdir):
            if f.startswith("violation-"):
                os.remove(os.path.join(ctx.outdir, f))
    for i, (sig, vs) in enumerate(sorted(viol.items(), key=lambda kv: str(kv[0]))):
        nv += 1
        if i >= 20:
            continue
        path = os.path.join(ctx.outdir, "violation-%d.json" % i)
        rec = dict(property=ctx.prop, **{"class": sig[0]}, sig=sig[1], count=len(vs), verdict=strip(vs[0]))
        for k in ("suite", "judge_module", "judge_cfg"):
            if vs[0].get("_" + k):
                rec[k] = vs[0]["_" + k]
        if find_case:
            try:
                rec["case"] = find_case(vs[0])
            except Exception as ex:  # pragma: no cover
                rec["case_error"] = str(ex)
        with open(path, "w") as f:
            json.dump(rec, f, indent=1, ensure_ascii=False)
        print("VIOLATION property=%s replay=%s" % (ctx.prop, path), flush=True)
        print("  class=%s sig=%s count=%d e.g. %s" % (sig[0], sig[1], len(vs), short(vs[0])), flush=True)
    return nv, len(seen_known), {c: len(v) for c, v in seen_known.items()}


def strip(v):
    return {k: x for k, x in v.items() if not k.startswith("_")}


def short(v, n=300):
    s = json.dumps(strip(v), ensure_ascii=False)
    return s if len(s) <= n else s[:n] + "..."


# ------------------------------------------------------------------ evidence
def write_evidence(ctx, level, nviol, known_counts, extra=None):
    cov = {
        "states": max(ctx.states, 0),
        "transitions": max(ctx.transitions, 0),
        "traces_validated_against_impl": ctx.judged,
        "evaluations": ctx.judged,
        "distinct_nontrivial": ctx.nontrivial,
        "rule": ctx.rule,
        "samples": ctx.samples[:5] or ["(none)"],
        "exhaustive": bool(ctx.exhaustive),
        "tlc_runs": ctx.tlc_runs,
        "known_findings_observed": known_counts,
        "model_drift_records": ctx.drift,
        "notes": ctx.notes,
    }
    cov.update(ctx.coverage_extra)
    if extra:
        cov.update(extra)
    ev = {
        "property_id": ctx.prop,
        "tier": ctx.tier,
        "seed": int(ctx.seed),
        "level": level,
        "coverage": cov,
        "assumptions": ctx.assumptions,
        "wall_s": round(time.time() - ctx.t0, 1),
        "violations": nviol,
    }
    if os.environ.get("VERIF_NO_EVIDENCE"):
        return ev      # mutation experiments (bin/seedtest) must not overwrite the evidence of the real tree
    os.makedirs(os.path.join(VERIF, "evidence"), exist_ok=True)
    with open(os.path.join(VERIF, "evidence", ctx.prop + ".json"), "w") as f:
        json.dump(ev, f, indent=1, ensure_ascii=False)
        f.write("\n")
    return ev


def main(prop, run, level="model_checking", replay=None):
    import argparse
    ap = argparse.ArgumentParser()
    ap.add_argument("--tier", default=os.environ.get("VERIF_TIER", "quick"), choices=["quick", "thorough"])
    ap.add_argument("--replay")
    ap.add_argument("--keep", action="store_true")
    a = ap.parse_args(sys.argv[2:])
    seed = int(os.environ.get("VERIF_SEED", "1") or "1")
    ctx = Ctx(prop, a.tier, seed)
    rc = 2
    try:
        if a.replay:
            if replay is None:
                raise Broken("no replay support for " + prop)
            rc = replay(ctx, a.replay)
        else:
            find_case = run(ctx)
            nv, nk, kc = classify(ctx, find_case)
            write_evidence(ctx, level, nv, kc)
            print("[%s] tier=%s seed=%d judged=%d nontrivial=%d states=%d violations=%d known=%d wall=%.0fs" % (
                prop, a.tier, seed, ctx.judged, ctx.nontrivial, ctx.states, nv, nk, time.time() - ctx.t0), flush=True)
            rc = 1 if nv else 0
    except Broken as ex:
        print("BROKEN property=%s: %s" % (prop, ex), file=sys.stderr, flush=True)
        rc = 2
    finally:
        if not a.keep:
            ctx.cleanup()
        else:
            print("scratch kept at", ctx.scratch)
    sys.exit(rc)
