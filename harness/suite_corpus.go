package main

import (
	"go/ast"
	"go/parser"
	"go/token"
	"os"
	"path/filepath"
	"strconv"

	"github.com/influxdata/influxql"
)

// repoCorpus harvests every string literal of the repository's own *_test.go files that the
// real ParseStatement accepts (about 400 statements in the spellings the maintainers wrote).
// It is a trace source only: the statements are judged by the same TLA+ judges as the
// generated ones (round trip C02, totality of operations C13).
func repoCorpus() []string {
	root := os.Getenv("VERIF_REPO_DIR")
	if root == "" {
		root = "/repo"
	}
	files, _ := filepath.Glob(filepath.Join(root, "*_test.go"))
	seen := map[string]bool{}
	var out []string
	for _, f := range files {
		fs := token.NewFileSet()
		af, err := parser.ParseFile(fs, f, nil, 0)
		if err != nil {
			continue
		}
		ast.Inspect(af, func(n ast.Node) bool {
			bl, ok := n.(*ast.BasicLit)
			if !ok || bl.Kind != token.STRING {
				return true
			}
			s, err := strconv.Unquote(bl.Value)
			if err != nil || len(s) < 6 || len(s) > 2000 || seen[s] {
				return true
			}
			seen[s] = true
			var st influxql.Statement
			var perr error
			if p := guard(func() { st, perr = influxql.ParseStatement(s) }); p == "" && perr == nil && st != nil && !isNilPtr(st) {
				out = append(out, s)
			}
			return true
		})
	}
	return out
}

func init() {
	gen := func(args []string, emit func(M)) {
		if len(args) < 1 || args[0] != "repo-corpus" {
			return
		}
		for _, s := range repoCorpus() {
			emit(M{"kind": "repo-test", "sub": "", "text": s})
		}
	}
	suites["c01"].Gen = gen
	suites["c13"].Gen = gen
}
