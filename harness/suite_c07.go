package main

import (
	"encoding/json"
	"strconv"
	"strings"
	"time"

	"github.com/influxdata/influxql"
)

// C07: statements with $name placeholders parsed with bound parameter values.  A case
// (spec/c07/Gen_c07.tla) carries the template's tokens, the bindings as descriptions of Go
// values, and up to two literal spellings of the same template: with marker literals and
// with the bound values written out.
// Everything is parsed with the real parser and recorded; spec/c07/Judge_c07.tla judges.

// c07Value builds the Go value a binding describes.
func c07Value(spec M) interface{} {
	v := str(spec["v"])
	switch str(spec["ty"]) {
	case "string":
		return v
	case "float64":
		f, _ := strconv.ParseFloat(v, 64)
		return f
	case "int64":
		n, _ := strconv.ParseInt(v, 10, 64)
		return n
	case "bool":
		return v == "true"
	case "json.Number":
		return json.Number(v)
	case "map":
		m := map[string]interface{}{}
		for _, e := range list(spec["e"]) {
			em := obj(e)
			m[str(em["k"])] = c07Value(obj(em["v"]))
		}
		return m
	case "map0":
		return map[string]interface{}{}
	// Go types BindValue does not know
	case "int":
		return 5
	case "int32":
		return int32(5)
	case "uint64":
		return uint64(5)
	case "float32":
		return float32(1.5)
	case "nil":
		return nil
	case "slice":
		return []int{1}
	case "bytes":
		return []byte("abc")
	case "influxql.StringValue":
		return influxql.StringValue("x")
	case "time.Duration":
		return 10 * time.Second
	case "struct":
		return struct{ A int }{1}
	case "*string":
		s := "x"
		return &s
	}
	return struct{ Unknown string }{str(spec["ty"])}
}

func c07ParseAliased(text string, params map[string]interface{}) M {
	o := M{}
	var q *influxql.Query
	var err error
	p := guard(func() {
		m2 := make(map[string]interface{}, len(params))
		for k, v := range params {
			m2[k] = v
		}
		ps := influxql.NewParser(strings.NewReader(text))
		ps.SetParams(m2)
		i := 0
		for k := range m2 {
			if i%2 == 0 {
				m2[k] = "CLOBBERED"
			} else {
				delete(m2, k)
			}
			i++
		}
		m2["zz_new"] = int64(7)
		q, err = ps.ParseQuery()
	})
	switch {
	case p != "":
		o["panic"] = p
	case err != nil:
		o["err"] = c06Clean(errStr(err))
	case q == nil:
		o["err"] = "(no result and no error)"
	default:
		var t interface{}
		if pp := guard(func() { t = c06Tag(project(q)) }); pp != "" {
			o["panic"] = "project: " + pp
		} else {
			o["ast"] = t
		}
	}
	return o
}

// c07Rebind: see the call site.  Records the outcome of both statements: {first: ok|err, second: ok|err|panic}.
func c07Rebind(text string, params map[string]interface{}, useNil bool) M {
	r := M{}
	p := guard(func() {
		ps := influxql.NewParser(strings.NewReader(text + " ; " + text))
		ps.SetParams(params)
		_, err1 := ps.ParseStatement()
		if err1 != nil {
			r["first"] = "err"
			return
		}
		r["first"] = "ok"
		if tok, _, _ := ps.ScanIgnoreWhitespace(); tok != influxql.SEMICOLON {
			r["first"] = "no-separator"
			return
		}
		if useNil {
			ps.SetParams(nil)
		} else {
			ps.SetParams(map[string]interface{}{})
		}
		st2, err2 := ps.ParseStatement()
		if err2 != nil {
			r["second"] = "err"
		} else if st2 != nil {
			r["second"] = "ok"
			r["second_str"] = c06Clean(st2.String())
		}
	})
	if p != "" {
		r["panic"] = p
	}
	return r
}

func init() {
	register("c07", &Suite{Run: func(c M) M {
		o := M{}
		params := map[string]interface{}{}
		for _, b := range list(c["binds"]) {
			bm := obj(b)
			params[str(bm["name"])] = c07Value(obj(bm["go"]))
		}
		noset, _ := c["noset"].(bool)
		text := render(list(c["toks"]))
		o["text"] = c06Clean(text)
		o["got"] = c06Parse("query", text, params, !noset)
		// a history on ONE parser: the template is written twice (`T ; T`); the first statement is parsed with the
		// bindings, then SetParams is called again with an empty map (even cases: nil) and the second statement is
		// parsed: no binding is left, so a template with a placeholder must now fail.
		if !noset && len(list(c["holes"])) > 0 && !strings.Contains(text, ";") { // one statement: the second copy holds the placeholder
			o["rebind"] = c07Rebind(text, params, num(c["id"])%2 == 0)
		}
		// the caller's map is the caller's: it is changed right after SetParams (a reused request map); the parse must
		// see the values that were bound
		if !noset && len(params) > 0 {
			o["alias"] = c07ParseAliased(text, params)
		}
		for _, k := range []string{"mark", "inl"} {
			if t := list(c[k]); t != nil {
				lt := render(t)
				r := c06Parse("query", lt, nil, false)
				r["text"] = c06Clean(lt)
				o[k] = r
			}
		}
		return o
	}})
}
