package main

// C14 - clones are faithful and independent; derived operations are read-only.
//
// Two suites.  Neither judges: they parse, clone, execute the steps of a history that a
// TLA+ generator wrote, and record structural snapshots and the identities of mutable
// nodes reachable from both roots.  spec/c14/Judge_c14.tla decides.
//
//	c14probe   case {sid, kind, text}                 -> obs {ok, np{pre: #paths}, eff{pre: bool}, names[]}
//	c14        case {sid, kind, text, pre, steps[]}   -> obs {steps[]}   (steps[0] is the clone step)
//
// A step of a case is {a, side, op | i}:
//	a = "mutate"   set path #i (1-based, enumerated by reflection on the CURRENT tree of that side)
//	a = "rewrite"  one of the in-place operations of c14StmtRewrites / c14ExprRewrites
//	a = "derived"  one of the operations the property calls read-only
// A recorded step is {a, side, op, so?, sc?, shared[], eff, panic?, skip?}: so / sc are the
// snapshots of the original / the clone AFTER the step and are written only when their
// SHA-256 differs from the snapshot of that side logged before (the first step always has so).
// "shared" lists the mutable nodes (pointer-to-struct nodes, slice element slots) whose
// address is reachable from both roots; *regexp.Regexp and *time.Location are values here,
// not nodes (spec/c14/CloneProps.tla, assumption A1).

import (
	"crypto/sha256"
	"encoding/hex"
	"encoding/json"
	"fmt"
	"reflect"
	"regexp"
	"sort"
	"strings"
	"time"
	_ "time/tzdata"

	"github.com/influxdata/influxql"
)

// ---------------------------------------------------------------- roots

// c14root holds one side of a history: a statement or an expression.
type c14root struct {
	S *influxql.SelectStatement
	E influxql.Expr
}

func (r *c14root) isStmt() bool { return r.S != nil }

func (r *c14root) value() interface{} {
	if r.S != nil {
		return r.S
	}
	return r.E
}

func c14parse(kind, text string) (*c14root, error) {
	if kind == "expr" {
		e, err := influxql.ParseExpr(text)
		if err != nil {
			return nil, err
		}
		return &c14root{E: e}, nil
	}
	st, err := influxql.ParseStatement(text)
	if err != nil {
		return nil, err
	}
	s, ok := st.(*influxql.SelectStatement)
	if !ok {
		return nil, fmt.Errorf("not a SELECT statement: %T", st)
	}
	return &c14root{S: s}, nil
}

func (r *c14root) clone() *c14root {
	if r.S != nil {
		return &c14root{S: r.S.Clone()}
	}
	return &c14root{E: influxql.CloneExpr(r.E)}
}

func c14snap(r *c14root) (interface{}, string) {
	s := snapshot(r.value())
	if s == nil {
		s = M{"k": "nil"}
	}
	b, _ := json.Marshal(s)
	h := sha256.Sum256(b)
	return s, hex.EncodeToString(h[:8])
}

// ---------------------------------------------------------------- identities of mutable nodes

var (
	c14regexpT = reflect.TypeOf((*regexp.Regexp)(nil))
	c14locT    = reflect.TypeOf((*time.Location)(nil))
)

// c14reach collects address -> [type, path without indices] of every mutable node reachable
// from v: pointers to non-empty structs, and every element slot (up to cap) of every slice.
func c14reach(v reflect.Value, path string, out map[uintptr][2]string, al map[uintptr][2]string) {
	switch v.Kind() {
	case reflect.Interface:
		if !v.IsNil() {
			c14reach(v.Elem(), path, out, al)
		}
	case reflect.Ptr:
		if v.IsNil() || v.Type() == c14regexpT || v.Type() == c14locT {
			return
		}
		e := v.Elem()
		if e.Kind() == reflect.Struct {
			if e.Type().Size() > 0 {
				a := v.Pointer()
				if d, seen := out[a]; seen {
					if al != nil && d[1] != path {
						al[a] = [2]string{"*" + e.Type().Name(), path}
					}
					return
				}
				out[a] = [2]string{"*" + e.Type().Name(), path}
			}
			c14reach(e, path, out, al)
		}
	case reflect.Struct:
		if v.Type() == timeT {
			return
		}
		for i := 0; i < v.NumField(); i++ {
			f := v.Type().Field(i)
			p := f.Name
			if path != "" {
				p = path + "." + f.Name
			}
			c14reach(v.Field(i), p, out, al)
		}
	case reflect.Slice:
		if v.IsNil() || v.Cap() == 0 {
			return
		}
		full := v.Slice(0, v.Cap())
		es := v.Type().Elem().Size()
		for i := 0; i < full.Len(); i++ {
			a := full.Pointer() + uintptr(i)*es
			if _, seen := out[a]; !seen {
				out[a] = [2]string{"[]" + v.Type().Elem().String(), path}
			}
		}
		for i := 0; i < v.Len(); i++ {
			c14reach(v.Index(i), path, out, al)
		}
	}
}

// (the last argument of c14reach, when set, collects the struct nodes a walk reaches a second time at ANOTHER path: a
// tree that is a DAG)
func c14shared(o, c *c14root, atClone bool) []interface{} {
	mo, mc := map[uintptr][2]string{}, map[uintptr][2]string{}
	ao, ac := map[uintptr][2]string{}, map[uintptr][2]string{}
	c14reach(reflect.ValueOf(o.value()), "", mo, ao)
	c14reach(reflect.ValueOf(c.value()), "", mc, ac)
	seen := map[string]bool{}
	var keys []string
	// right after Clone: one node standing at two places of the copy where the original has two nodes - an edit of one
	// place of the copy shows at the other (later in-place rewrites may reuse a node, that is their business)
	if atClone && len(ac) > 0 && len(ao) == 0 {
		for _, d := range ac {
			k := d[0] + " twice in the copy@" + d[1]
			if !seen[k] {
				seen[k] = true
				keys = append(keys, k)
			}
		}
	}
	for a, d := range mo {
		if _, ok := mc[a]; ok {
			k := d[0] + "@" + d[1]
			if !seen[k] {
				seen[k] = true
				keys = append(keys, k)
			}
		}
	}
	sort.Strings(keys)
	out := make([]interface{}, 0, len(keys))
	for _, k := range keys {
		i := strings.Index(k, "@")
		out = append(out, M{"t": k[:i], "p": k[i+1:]})
	}
	return out
}

// ---------------------------------------------------------------- mutation paths

type c14path struct {
	name  string // field path without indices + ":" + kind of edit, e.g. "Fields.Expr.Val:set"
	apply func()
}

var (
	c14exprT   = reflect.TypeOf((*influxql.Expr)(nil)).Elem()
	c14sourceT = reflect.TypeOf((*influxql.Source)(nil)).Elem()
	c14nilable = map[string]bool{"Condition": true, "Target": true, "Regex": true, "Location": true, "FillValue": true}
)

func c14freshStmt() *influxql.SelectStatement {
	st, err := influxql.ParseStatement(`SELECT fresh FROM fresh`)
	if err != nil {
		panic(err)
	}
	return st.(*influxql.SelectStatement)
}

// c14fresh returns a new distinguishable value assignable to a variable of type t.
func c14fresh(t reflect.Type) reflect.Value {
	switch t {
	case c14exprT:
		return reflect.ValueOf(&influxql.VarRef{Val: "fresh~"})
	case c14sourceT:
		return reflect.ValueOf(&influxql.Measurement{Name: "fresh~"})
	case c14regexpT:
		return reflect.ValueOf(regexp.MustCompile("fresh~"))
	case c14locT:
		return reflect.ValueOf(time.FixedZone("fresh~", 3600))
	}
	switch t {
	case reflect.TypeOf((*influxql.Field)(nil)):
		return reflect.ValueOf(&influxql.Field{Expr: &influxql.VarRef{Val: "fresh~"}, Alias: "fresh~"})
	case reflect.TypeOf((*influxql.Dimension)(nil)):
		return reflect.ValueOf(&influxql.Dimension{Expr: &influxql.VarRef{Val: "fresh~"}})
	case reflect.TypeOf((*influxql.SortField)(nil)):
		return reflect.ValueOf(&influxql.SortField{Name: "fresh~"})
	case reflect.TypeOf((*influxql.Target)(nil)):
		return reflect.ValueOf(&influxql.Target{Measurement: &influxql.Measurement{Name: "fresh~", IsTarget: true}})
	case reflect.TypeOf((*influxql.Measurement)(nil)):
		return reflect.ValueOf(&influxql.Measurement{Name: "fresh~"})
	case reflect.TypeOf((*influxql.RegexLiteral)(nil)):
		return reflect.ValueOf(&influxql.RegexLiteral{Val: regexp.MustCompile("fresh~")})
	case reflect.TypeOf((*influxql.SelectStatement)(nil)):
		return reflect.ValueOf(c14freshStmt())
	}
	if t.Kind() == reflect.Ptr && t.Elem().Kind() == reflect.Struct {
		return reflect.New(t.Elem())
	}
	panic("c14fresh: no fresh value for " + t.String())
}

func c14join(path, f string) string {
	if path == "" {
		return f
	}
	return path + "." + f
}

// c14paths enumerates every single edit of the tree below the addressable struct value sv.
func c14paths(sv reflect.Value, path string, out *[]c14path) {
	add := func(name, kind string, f func()) {
		*out = append(*out, c14path{name: c14join(path, name) + ":" + kind, apply: f})
	}
	for i := 0; i < sv.NumField(); i++ {
		sf := sv.Type().Field(i)
		if sf.PkgPath != "" {
			continue // unexported (groupByInterval): written only through GroupByInterval()
		}
		fv := sv.Field(i)
		name := sf.Name
		switch fv.Kind() {
		case reflect.String:
			add(name, "set", func() { fv.SetString(fv.String() + "~") })
		case reflect.Bool:
			add(name, "set", func() { fv.SetBool(!fv.Bool()) })
		case reflect.Int, reflect.Int64, reflect.Int32:
			switch fv.Type() {
			case tokT:
				add(name, "set", func() {
					if influxql.Token(fv.Int()) == influxql.FIELD {
						fv.SetInt(int64(influxql.TAG))
					} else if influxql.Token(fv.Int()) == influxql.ADD {
						fv.SetInt(int64(influxql.SUB))
					} else if sv.Type().Name() == "Wildcard" {
						fv.SetInt(int64(influxql.FIELD))
					} else {
						fv.SetInt(int64(influxql.ADD))
					}
				})
			case dtT:
				add(name, "set", func() {
					if influxql.DataType(fv.Int()) == influxql.Float {
						fv.SetInt(int64(influxql.Integer))
					} else {
						fv.SetInt(int64(influxql.Float))
					}
				})
			case fillT:
				add(name, "set", func() { fv.SetInt((fv.Int() + 1) % 5) })
			default:
				add(name, "set", func() { fv.SetInt(fv.Int() + 1) })
			}
		case reflect.Uint64:
			add(name, "set", func() { fv.SetUint(fv.Uint() + 1) })
		case reflect.Float64:
			add(name, "set", func() { fv.SetFloat(fv.Float() + 1) })
		case reflect.Struct:
			if fv.Type() == timeT {
				add(name, "set", func() { fv.Set(reflect.ValueOf(fv.Interface().(time.Time).Add(time.Nanosecond))) })
			}
		case reflect.Ptr:
			add(name, "fresh", func() { fv.Set(c14fresh(fv.Type())) })
			if !fv.IsNil() && c14nilable[name] {
				add(name, "nil", func() { fv.Set(reflect.Zero(fv.Type())) })
			}
			if !fv.IsNil() && fv.Type() != c14regexpT && fv.Type() != c14locT && fv.Elem().Kind() == reflect.Struct {
				c14paths(fv.Elem(), c14join(path, name), out)
			}
		case reflect.Interface:
			if fv.Type() == c14exprT || fv.Type() == c14sourceT {
				add(name, "fresh", func() { fv.Set(c14fresh(fv.Type())) })
			} else { // FillValue interface{}
				add(name, "fresh", func() {
					switch x := fv.Interface().(type) {
					case int64:
						fv.Set(reflect.ValueOf(x + 1))
					case float64:
						fv.Set(reflect.ValueOf(x + 1))
					default:
						fv.Set(reflect.ValueOf(int64(7)))
					}
				})
			}
			if !fv.IsNil() && c14nilable[name] {
				add(name, "nil", func() { fv.Set(reflect.Zero(fv.Type())) })
			}
			if !fv.IsNil() && fv.Elem().Kind() == reflect.Ptr && fv.Elem().Elem().Kind() == reflect.Struct {
				c14paths(fv.Elem().Elem(), c14join(path, name), out)
			}
		case reflect.Slice:
			et := fv.Type().Elem()
			if et.Kind() != reflect.Ptr && et.Kind() != reflect.Interface {
				continue
			}
			add(name, "append", func() { fv.Set(reflect.Append(fv, c14fresh(et))) })
			n := fv.Len()
			if n > 0 {
				add(name, "shift", func() { // delete element 0 the way RewriteTimeFields does: writes the backing array
					reflect.Copy(fv, fv.Slice(1, fv.Len()))
					fv.Set(fv.Slice(0, fv.Len()-1))
				})
				add(name, "trunc", func() { fv.Set(fv.Slice(0, fv.Len()-1)) })
				add(name, "nil", func() { fv.Set(reflect.Zero(fv.Type())) })
			}
			for j := 0; j < n; j++ {
				el := fv.Index(j)
				add(name, "elem", func() { el.Set(c14fresh(et)) })
				x := el
				if x.Kind() == reflect.Interface && !x.IsNil() {
					x = x.Elem()
				}
				if x.Kind() == reflect.Ptr && !x.IsNil() && x.Elem().Kind() == reflect.Struct {
					c14paths(x.Elem(), c14join(path, name), out)
				}
			}
		}
	}
}

func c14rootPaths(r *c14root) []c14path {
	var out []c14path
	if r.S != nil {
		c14paths(reflect.ValueOf(r.S).Elem(), "", &out)
		return out
	}
	if r.E != nil {
		v := reflect.ValueOf(r.E)
		if v.Kind() == reflect.Ptr && v.Elem().Kind() == reflect.Struct {
			c14paths(v.Elem(), "", &out)
		}
	}
	return out
}

// ---------------------------------------------------------------- operations

var (
	c14now   = time.Date(2020, 2, 3, 4, 5, 6, 7, time.UTC)
	c14start = time.Date(2019, 1, 1, 0, 0, 0, 0, time.UTC)
	c14end   = time.Date(2019, 1, 2, 0, 0, 0, 0, time.UTC)
	c14vals  = map[string]interface{}{"v": 2.5, "w": int64(3), "a": int64(1), "b": true, "i": int64(5),
		"host": "a", "region": "x", "s": "str", "x": 1.5, "d": 3 * time.Second, "u": uint64(7), "nilv": nil}
)

func c14valuer() influxql.Valuer {
	return influxql.MultiValuer(&influxql.NowValuer{Now: c14now}, influxql.MapValuer(c14vals))
}

// c14mapper is the schema used for RewriteFields / EvalType.
type c14mapper struct{}

var c14fields = map[string]influxql.DataType{"v": influxql.Float, "w": influxql.Integer, "s": influxql.String,
	"b": influxql.Boolean, "u": influxql.Unsigned, "a": influxql.Float, "value": influxql.Float}
var c14tags = map[string]struct{}{"host": {}, "region": {}}

func (c14mapper) FieldDimensions(m *influxql.Measurement) (map[string]influxql.DataType, map[string]struct{}, error) {
	f := map[string]influxql.DataType{}
	for k, v := range c14fields {
		f[k] = v
	}
	d := map[string]struct{}{}
	for k := range c14tags {
		d[k] = struct{}{}
	}
	return f, d, nil
}

func (c14mapper) MapType(m *influxql.Measurement, field string) influxql.DataType {
	if t, ok := c14fields[field]; ok {
		return t
	}
	if _, ok := c14tags[field]; ok {
		return influxql.Tag
	}
	return influxql.Unknown
}

// CallType makes c14mapper a CallTypeMapper (TypeValuerEval.evalCallExprType).
func (c14mapper) CallType(name string, args []influxql.DataType) (influxql.DataType, error) {
	switch name {
	case "mean", "percentile", "derivative", "moving_average":
		return influxql.Float, nil
	case "count", "elapsed":
		return influxql.Integer, nil
	case "min", "max", "sum", "first", "last", "top", "bottom", "distinct":
		if len(args) > 0 {
			return args[0], nil
		}
	}
	return influxql.Unknown, nil
}

// c14modRewriter replaces every VarRef and StringLiteral by a new node (a modifying Rewriter).
type c14modRewriter struct{}

func (c14modRewriter) Rewrite(n influxql.Node) influxql.Node {
	switch n := n.(type) {
	case *influxql.VarRef:
		return &influxql.VarRef{Val: n.Val + "~", Type: n.Type}
	case *influxql.StringLiteral:
		return &influxql.StringLiteral{Val: n.Val + "~"}
	}
	return n
}

func c14walkMutate(n influxql.Node) {
	influxql.WalkFunc(n, func(n influxql.Node) {
		switch n := n.(type) {
		case *influxql.VarRef:
			n.Type = influxql.Float
			n.Val += "~"
		case *influxql.Call:
			n.Name += "~"
		case *influxql.StringLiteral:
			n.Val += "~"
		case *influxql.IntegerLiteral:
			n.Val++
		case *influxql.NumberLiteral:
			n.Val++
		case *influxql.DurationLiteral:
			n.Val++
		case *influxql.BooleanLiteral:
			n.Val = !n.Val
		case *influxql.BinaryExpr:
			if n.Op == influxql.ADD {
				n.Op = influxql.SUB
			} else if n.Op == influxql.EQ {
				n.Op = influxql.NEQ
			}
		case *influxql.Distinct:
			n.Val += "~"
		case *influxql.Wildcard:
			n.Type = influxql.FIELD
		case *influxql.Field:
			n.Alias += "~"
		case *influxql.Measurement:
			n.Name += "~"
			n.IsTarget = !n.IsTarget
		case *influxql.SortField:
			n.Ascending = !n.Ascending
		}
	})
}

func c14exprFn(e influxql.Expr) influxql.Expr {
	switch e := e.(type) {
	case *influxql.VarRef:
		return &influxql.VarRef{Val: e.Val + "~", Type: e.Type}
	case *influxql.BinaryExpr:
		if e.Op == influxql.EQ {
			e.Op = influxql.NEQ
		}
	}
	return e
}

// c14dropFn removes constant terms: RewriteExpr then collapses the parent in place (e.LHS = nil; expr = e.RHS ...).
func c14dropFn(e influxql.Expr) influxql.Expr {
	if _, ok := e.(*influxql.BooleanLiteral); ok {
		return nil
	}
	if c, ok := e.(*influxql.Call); ok && c.Name == "now" {
		return nil
	}
	return e
}

var c14StmtRewrites = map[string]func(s *influxql.SelectStatement){
	"RewriteRegexConditions": func(s *influxql.SelectStatement) { s.RewriteRegexConditions() },
	"RewriteDistinct":        func(s *influxql.SelectStatement) { s.RewriteDistinct() },
	"RewriteTimeFields":      func(s *influxql.SelectStatement) { s.RewriteTimeFields() },
	"SetTimeRange":           func(s *influxql.SelectStatement) { _ = s.SetTimeRange(c14start, c14end) },
	"RewriteMod":             func(s *influxql.SelectStatement) { influxql.Rewrite(c14modRewriter{}, s) },
	"RewriteNop": func(s *influxql.SelectStatement) {
		influxql.RewriteFunc(s, func(n influxql.Node) influxql.Node { return n })
	},
	"RewriteExprCond": func(s *influxql.SelectStatement) { s.Condition = influxql.RewriteExpr(s.Condition, c14exprFn) },
	"RewriteExprDrop": func(s *influxql.SelectStatement) { s.Condition = influxql.RewriteExpr(s.Condition, c14dropFn) },
	"WalkMutateAll":   func(s *influxql.SelectStatement) { c14walkMutate(s) },
	"ReverseFields":   func(s *influxql.SelectStatement) { sort.Sort(sort.Reverse(s.Fields)) },
	// what the query engine does to a parsed statement before cloning it: the flags the parser never sets
	"EngineFlags": func(s *influxql.SelectStatement) {
		s.OmitTime, s.StripName, s.EmitName, s.Dedupe = true, true, "emit", true
		for _, src := range s.Sources {
			if m, ok := src.(*influxql.Measurement); ok {
				m.SystemIterator = "_series"
				break
			}
		}
	},
	// memoises into the receiver: a mutation source, not one of the property's read-only operations
	"GroupByInterval": func(s *influxql.SelectStatement) { _, _ = s.GroupByInterval() },
}

var c14ExprRewrites = map[string]func(r *c14root){
	"RewriteExpr":     func(r *c14root) { r.E = influxql.RewriteExpr(r.E, c14exprFn) },
	"RewriteExprDrop": func(r *c14root) { r.E = influxql.RewriteExpr(r.E, c14dropFn) },
	"RewriteMod":      func(r *c14root) { r.E = influxql.Rewrite(c14modRewriter{}, r.E).(influxql.Expr) },
	"RewriteNop":      func(r *c14root) { influxql.RewriteFunc(r.E, func(n influxql.Node) influxql.Node { return n }) },
	"WalkMutateAll":   func(r *c14root) { c14walkMutate(r.E) },
}

// c14use swallows results: derived operations are run for their side effects on the receiver (there should be none).
func c14use(x ...interface{}) {}

// c14differs: the result of a derived operation is structurally different from what it was computed from, i.e.
// the operation had something to do on this input and an in-place implementation would have shown in the receiver.
// This is a vacuity measure ("act" in the step record), never a verdict.
func c14differs(in, out interface{}) bool {
	a, _ := json.Marshal(snapshot(in))
	b, _ := json.Marshal(snapshot(out))
	return string(a) != string(b)
}

func c14zoneValuer(loc *time.Location) influxql.Valuer {
	if loc == nil {
		loc, _ = time.LoadLocation("America/Chicago")
	}
	return influxql.MultiValuer(&influxql.NowValuer{Now: c14now, Location: loc}, influxql.MapValuer(c14vals))
}

// c14eachStmt calls f on s and on every sub-query statement below it (they are part of the receiver's tree).
func c14eachStmt(s *influxql.SelectStatement, f func(*influxql.SelectStatement)) {
	f(s)
	for _, src := range s.Sources {
		if q, ok := src.(*influxql.SubQuery); ok && q.Statement != nil {
			c14eachStmt(q.Statement, f)
		}
	}
}

func c14condExpr(e influxql.Expr, loc *time.Location) (act bool) {
	for _, v := range []influxql.Valuer{c14valuer(), c14zoneValuer(loc), nil} {
		x, tr, err := influxql.ConditionExpr(e, v)
		c14use(err)
		if !tr.Min.IsZero() || !tr.Max.IsZero() || (e != nil && err == nil && (x == nil || c14differs(e, x))) {
			act = true
		}
	}
	return act
}

// derived operations return "act": the operation had an effect to show on this input (see c14differs)
var c14StmtDerived = map[string]func(s *influxql.SelectStatement) bool{
	"Reduce":     func(s *influxql.SelectStatement) bool { return c14differs(s, s.Reduce(c14valuer())) },
	"ReduceNil":  func(s *influxql.SelectStatement) bool { return c14differs(s, s.Reduce(nil)) },
	"ReduceZone": func(s *influxql.SelectStatement) bool { return c14differs(s, s.Reduce(c14zoneValuer(s.Location))) },
	"RewriteFields": func(s *influxql.SelectStatement) bool {
		o, err := s.RewriteFields(c14mapper{})
		return err == nil && c14differs(s, o)
	},
	"EvalCond": func(s *influxql.SelectStatement) bool {
		c14eachStmt(s, func(s *influxql.SelectStatement) {
			c14use(influxql.Eval(s.Condition, c14vals), influxql.EvalBool(s.Condition, c14vals))
			ev := influxql.ValuerEval{Valuer: c14valuer(), IntegerFloatDivision: true}
			c14use(ev.Eval(s.Condition))
			for _, f := range s.Fields {
				c14use(ev.Eval(f.Expr))
			}
		})
		return s.Condition != nil
	},
	"EvalType": func(s *influxql.SelectStatement) bool {
		c14eachStmt(s, func(s *influxql.SelectStatement) {
			tv := influxql.TypeValuerEval{TypeMapper: c14mapper{}, Sources: s.Sources}
			for _, f := range s.Fields {
				c14use(influxql.EvalType(f.Expr, s.Sources, c14mapper{}))
				t, err := tv.EvalType(f.Expr)
				c14use(t, err)
			}
			c14use(influxql.EvalType(s.Condition, s.Sources, c14mapper{}))
		})
		return true
	},
	"String": func(s *influxql.SelectStatement) bool {
		c14use(s.String(), s.Fields.String(), s.Sources.String(), s.Dimensions.String(), s.SortFields.String(), s.Target.String())
		if s.Condition != nil {
			c14use(s.Condition.String())
		}
		return true
	},
	"ColumnNames": func(s *influxql.SelectStatement) bool {
		c14eachStmt(s, func(s *influxql.SelectStatement) { c14use(s.ColumnNames()) })
		return true
	},
	"RequiredPrivileges": func(s *influxql.SelectStatement) bool {
		c14eachStmt(s, func(s *influxql.SelectStatement) {
			p, err := s.RequiredPrivileges()
			c14use(p, err)
			p, err = s.Sources.RequiredPrivileges()
			c14use(p, err)
		})
		return true
	},
	"Names": func(s *influxql.SelectStatement) bool {
		c14eachStmt(s, func(s *influxql.SelectStatement) {
			names := s.Fields.Names()
			names = append(names, s.Fields.AliasNames()...)
			for _, f := range s.Fields {
				for _, r := range influxql.ExprNames(f.Expr) {
					names = append(names, r.Val)
				}
				influxql.WalkFunc(f.Expr, func(n influxql.Node) {
					if r, ok := n.(*influxql.VarRef); ok {
						names = append(names, r.Val)
					}
				})
			}
			for _, n := range append(names, "time", "nosuch") {
				i, e := s.FieldExprByName(n)
				c14use(i, e)
			}
			for _, f := range s.Fields {
				c14use(f.Name(), influxql.ExprNames(f.Expr))
			}
			dur, tags := time.Duration(0), []string(nil)
			c14use(guard(func() { dur, tags = s.Dimensions.Normalize() }), dur, tags)
			c14use(s.TimeFieldName(), s.TimeAscending(), s.HasWildcard(), s.HasFieldWildcard(), s.HasDimensionWildcard(),
				influxql.ExprNames(s.Condition), s.Sources.Measurements(), influxql.HasTimeExpr(s.Condition))
		})
		return true
	},
	"ConditionExpr": func(s *influxql.SelectStatement) bool {
		act := false
		c14eachStmt(s, func(s *influxql.SelectStatement) { act = c14condExpr(s.Condition, s.Location) || act })
		return act
	},
}

var c14ExprDerived = map[string]func(e influxql.Expr) bool{
	"Reduce":     func(e influxql.Expr) bool { return c14differs(e, influxql.Reduce(e, c14valuer())) },
	"ReduceNil":  func(e influxql.Expr) bool { return c14differs(e, influxql.Reduce(e, nil)) },
	"ReduceZone": func(e influxql.Expr) bool { return c14differs(e, influxql.Reduce(e, c14zoneValuer(nil))) },
	"Eval": func(e influxql.Expr) bool {
		c14use(influxql.Eval(e, c14vals), influxql.EvalBool(e, c14vals))
		ev := influxql.ValuerEval{Valuer: c14valuer(), IntegerFloatDivision: true}
		c14use(ev.Eval(e), ev.EvalBool(e))
		ev2 := influxql.ValuerEval{Valuer: c14zoneValuer(nil)}
		c14use(ev2.Eval(e))
		return true
	},
	"EvalType": func(e influxql.Expr) bool {
		c14use(influxql.EvalType(e, nil, c14mapper{}))
		tv := influxql.TypeValuerEval{TypeMapper: c14mapper{}, Sources: influxql.Sources{&influxql.Measurement{Name: "m"}}}
		t, err := tv.EvalType(e)
		c14use(t, err)
		return true
	},
	"String": func(e influxql.Expr) bool { c14use(e.String()); return true },
	"Names": func(e influxql.Expr) bool {
		c14use(influxql.ExprNames(e), influxql.HasTimeExpr(e), influxql.ContainsVarRef(e))
		if b, ok := e.(*influxql.BinaryExpr); ok {
			c14use(influxql.BinaryExprName(b))
		}
		c14use((&influxql.Field{Expr: e}).Name(), influxql.Fields{&influxql.Field{Expr: e}}.Names())
		return true
	},
	"ConditionExpr": func(e influxql.Expr) bool { return c14condExpr(e, nil) },
}

// c14applyOp runs a rewrite or derived operation on r; ok=false when the name is unknown.
func c14applyOp(r *c14root, a, op string) (panicked string, act bool, ok bool) {
	var f func()
	if r.isStmt() {
		if a == "rewrite" {
			if g := c14StmtRewrites[op]; g != nil {
				f = func() { g(r.S) }
			}
		} else if g := c14StmtDerived[op]; g != nil {
			f = func() { act = g(r.S) }
		}
	} else {
		if a == "rewrite" {
			if g := c14ExprRewrites[op]; g != nil {
				f = func() { g(r) }
			}
		} else if g := c14ExprDerived[op]; g != nil {
			f = func() { act = g(r.E) }
		}
	}
	if f == nil {
		return "", false, false
	}
	p := guard(f)
	return p, act, true
}

var c14Pres = []string{"none", "GroupByInterval", "RewriteRegexConditions", "RewriteDistinct", "RewriteTimeFields", "SetTimeRange", "EngineFlags"}

// ---------------------------------------------------------------- suites

func init() {
	register("c14probe", &Suite{Run: func(c M) M {
		kind, text := str(c["kind"]), str(c["text"])
		o := M{}
		r0, err := c14parse(kind, text)
		if err != nil {
			o["ok"] = false
			o["err"] = errStr(err)
			return o
		}
		o["ok"] = true
		_, h0 := c14snap(r0)
		np, eff := M{}, M{}
		pres := c14Pres
		if kind == "expr" {
			pres = pres[:1]
		}
		for _, pre := range pres {
			r, _ := c14parse(kind, text)
			if pre != "none" {
				if p, _, _ := c14applyOp(r, "rewrite", pre); p != "" {
					np[pre] = 0
					eff[pre] = false
					continue
				}
			}
			ps := c14rootPaths(r)
			np[pre] = len(ps)
			_, h := c14snap(r)
			eff[pre] = h != h0
			if pre == "none" {
				seen := map[string]bool{}
				var names []interface{}
				for _, p := range ps {
					if !seen[p.name] {
						seen[p.name] = true
						names = append(names, p.name)
					}
				}
				o["names"] = names
				m := map[uintptr][2]string{}
				c14reach(reflect.ValueOf(r.value()), "", m, nil)
				o["nodes"] = len(m)
			}
		}
		o["np"] = np
		o["eff"] = eff
		return o
	}})

	register("c14", &Suite{Run: func(c M) M {
		kind, text, pre := str(c["kind"]), str(c["text"]), str(c["pre"])
		o := M{}
		orig, err := c14parse(kind, text)
		if err != nil {
			o["err"] = errStr(err)
			return o
		}
		if pre != "" && pre != "none" {
			p, _, ok := c14applyOp(orig, "rewrite", pre)
			if !ok {
				fatal("c14: unknown pre operation %q", pre)
			}
			if p != "" {
				o["prepanic"] = p
			}
		}
		var steps []interface{}
		var clone *c14root
		if p := guard(func() { clone = orig.clone() }); p != "" {
			o["clonepanic"] = p
			return o
		}
		so, ho := c14snap(orig)
		sc, hc := c14snap(clone)
		st := M{"a": "clone", "side": "o", "op": "Clone", "so": so, "shared": c14shared(orig, clone, true), "eff": false}
		if kind == "expr" {
			st["op"] = "CloneExpr"
		}
		if hc != ho {
			st["sc"] = sc
		}
		steps = append(steps, st)
		for _, x := range list(c["steps"]) {
			s := obj(x)
			a, side, op := str(s["a"]), str(s["side"]), str(s["op"])
			r := orig
			if side == "c" {
				r = clone
			}
			rec := M{"a": a, "side": side}
			switch a {
			case "mutate":
				ps := c14rootPaths(r)
				i := num(s["i"])
				if i < 1 || i > len(ps) {
					rec["op"] = "mutate"
					rec["skip"] = true
				} else {
					rec["op"] = ps[i-1].name
					if p := guard(ps[i-1].apply); p != "" {
						rec["panic"] = p
					}
				}
			case "rewrite", "derived":
				rec["op"] = op
				p, act, ok := c14applyOp(r, a, op)
				if !ok {
					fatal("c14: unknown %s operation %q for %s", a, op, kind)
				}
				if a == "derived" {
					rec["act"] = act
				}
				if p != "" {
					rec["panic"] = p
				}
			default:
				fatal("c14: unknown step kind %q", a)
			}
			so2, ho2 := c14snap(orig)
			sc2, hc2 := c14snap(clone)
			own := false
			if ho2 != ho {
				rec["so"] = so2
				ho = ho2
				own = own || side == "o"
			}
			if hc2 != hc {
				rec["sc"] = sc2
				hc = hc2
				own = own || side == "c"
			}
			rec["eff"] = own
			rec["shared"] = c14shared(orig, clone, false)
			steps = append(steps, rec)
		}
		o["steps"] = steps
		return o
	}})
}
