package main

import (
	"strings"
	_ "time/tzdata"

	"github.com/influxdata/influxql"
)

// c01: parse one statement, project the AST; print it and parse the print again (C02).
// Used by C01, C02 and C16 (the same observation, judged against different claims).
func c01Observe(text string) M {
	o := M{"text": text}
	var st influxql.Statement
	var err error
	if p := guard(func() { st, err = influxql.ParseStatement(text) }); p != "" {
		o["panic"] = p
		return o
	}
	if err != nil {
		o["err"] = errStr(err)
		if strings.Contains(err.Error(), "regex") {
			o["err_regex"] = true // the failure came from the regex scanner / compiler (C16 classification)
		}
		return o
	}
	o["ast"] = project(st)
	var s string
	if p := guard(func() { s = st.String() }); p != "" {
		o["spanic"] = p
		return o
	}
	o["str"] = s
	// password text is redacted on purpose; write a placeholder literal back so that the rest of the
	// printed statement can still be re-parsed (compared modulo Password).  Only the password clause of a
	// password statement is touched (its LAST "[REDACTED]": a name may spell the word too).
	switch st.(type) {
	case *influxql.CreateUserStatement, *influxql.SetPasswordUserStatement:
		if i := strings.LastIndex(s, "[REDACTED]"); i >= 0 {
			s = s[:i] + "'redacted'" + s[i+len("[REDACTED]"):]
			o["redacted"] = true
		}
	}
	var st2 influxql.Statement
	if p := guard(func() { st2, err = influxql.ParseStatement(s) }); p != "" {
		o["rpanic"] = p
		return o
	}
	if err != nil {
		o["rerr"] = errStr(err)
		return o
	}
	o["reparse"] = project(st2)
	return o
}

func init() {
	register("c01", &Suite{Run: func(c M) M {
		text := caseText(c)
		delete(c, "toks")
		return c01Observe(text)
	}})
	// c16q: a whole query (several statements) through ParseQuery
	register("c16q", &Suite{Run: func(c M) M {
		text := caseText(c)
		delete(c, "toks")
		o := M{"text": text}
		var q *influxql.Query
		var err error
		if p := guard(func() { q, err = influxql.ParseQuery(text) }); p != "" {
			o["panic"] = p
			return o
		}
		if err != nil {
			o["err"] = errStr(err)
			if strings.Contains(err.Error(), "regex") {
				o["err_regex"] = true
			}
			return o
		}
		sts := []interface{}{}
		for _, s := range q.Statements {
			sts = append(sts, project(s))
		}
		o["stmts"] = sts
		return o
	}})
}
