package main

import (
	"bytes"
	"encoding/json"
	"fmt"
	"io"
)

func bytesReader(b []byte) io.Reader { return bytes.NewReader(b) }

func str(v interface{}) string {
	switch x := v.(type) {
	case string:
		return x
	case json.Number:
		return x.String()
	case nil:
		return ""
	case bool:
		if x {
			return "true"
		}
		return "false"
	}
	return fmt.Sprint(v)
}

func num(v interface{}) int {
	switch x := v.(type) {
	case json.Number:
		n, _ := x.Int64()
		return int(n)
	case float64:
		return int(x)
	case int:
		return x
	}
	return 0
}

func list(v interface{}) []interface{} {
	if a, ok := v.([]interface{}); ok {
		return a
	}
	return nil
}

func obj(v interface{}) M {
	if m, ok := v.(map[string]interface{}); ok {
		return m
	}
	return nil
}

func errStr(err error) string {
	if err == nil {
		return ""
	}
	s := err.Error()
	if s == "" {
		return "(empty error)"
	}
	return s
}

// guard runs f and converts a panic into a string.
func guard(f func()) (panicked string) {
	defer func() {
		if r := recover(); r != nil {
			panicked = fmt.Sprint(r)
			if panicked == "" {
				panicked = "(panic)"
			}
		}
	}()
	f()
	return ""
}
