package main

import (
	"strings"
)

// Rendering of token records (spec/common/Tok.tla) to query text.  This is the only
// place where text is produced for generated cases.  It has its own escapers and does
// not call influxql.QuoteString / QuoteIdent (those are under test in C06).

func escStr(s string) string {
	var b strings.Builder
	for _, r := range s {
		switch r {
		case '\n':
			b.WriteString(`\n`)
		case '\\':
			b.WriteString(`\\`)
		case '\'':
			b.WriteString(`\'`)
		default:
			b.WriteRune(r)
		}
	}
	return b.String()
}

func escIdent(s string) string {
	var b strings.Builder
	for _, r := range s {
		switch r {
		case '\n':
			b.WriteString(`\n`)
		case '\\':
			b.WriteString(`\\`)
		case '"':
			b.WriteString(`\"`)
		default:
			b.WriteRune(r)
		}
	}
	return b.String()
}

func kwCase(s, c string) string {
	switch c {
	case "l":
		return strings.ToLower(s)
	case "m":
		var b strings.Builder
		for i, r := range s {
			if i%2 == 0 {
				b.WriteString(strings.ToLower(string(r)))
			} else {
				b.WriteString(strings.ToUpper(string(r)))
			}
		}
		return b.String()
	case "u":
		return strings.ToUpper(s)
	}
	return s
}

func renderTok(t M) string {
	s := str(t["s"])
	switch str(t["t"]) {
	case "kw":
		return kwCase(s, str(t["c"]))
	case "id":
		if q, _ := t["q"].(bool); q {
			if x, _ := t["x"].(bool); x { // spelling: the other kind of quote is written escaped as well
				return `"` + strings.Replace(escIdent(s), `'`, `\'`, -1) + `"`
			}
			return `"` + escIdent(s) + `"`
		}
		return s
	case "str":
		if x, _ := t["x"].(bool); x {
			return `'` + strings.Replace(escStr(s), `"`, `\"`, -1) + `'`
		}
		return `'` + escStr(s) + `'`
	case "re":
		return "/" + strings.Replace(s, "/", `\/`, -1) + "/"
	case "bp":
		return "$" + s
	case "dur":
		return strings.Replace(s, "{MICRO}", "µ", -1)
	}
	return s // int num dur p raw
}

// render joins token records; the gap before token i>0 is "" for g="T", the token's
// "w" text if present, a single space otherwise.
func render(toks []interface{}) string {
	var b strings.Builder
	for i, x := range toks {
		t := obj(x)
		if i > 0 {
			if w, ok := t["w"]; ok {
				b.WriteString(gapText(str(w)))
			} else if str(t["g"]) != "T" {
				b.WriteByte(' ')
			}
		}
		b.WriteString(renderTok(t))
	}
	return b.String()
}

// gapText expands the placeholders of spec/grammar/Gen_spell.tla for long runs of blanks.
func gapText(w string) string {
	switch w {
	case "{SP63}":
		return strings.Repeat(" ", 63)
	case "{SP64}":
		return strings.Repeat(" ", 64)
	case "{SP65}":
		return strings.Repeat(" ", 65)
	case "{SP130}":
		return strings.Repeat(" ", 130)
	case "{NL80}":
		return "\n" + strings.Repeat(" ", 80)
	}
	return w
}

// caseText is the text of a case: rendered from its token records, or, for replayed
// violation files (which keep only the text), the recorded text itself.
func caseText(c M) string {
	if t := list(c["toks"]); t != nil {
		return render(t)
	}
	return str(c["text"])
}
