package main

import (
	"fmt"
	"reflect"
	"regexp"
	"strconv"
	"time"

	"github.com/influxdata/influxql"
)

// Projection of AST values to JSON (DESIGN.md Appendix A).  Reflective, so a new
// non-zero exported field shows up in the projection without any change here.
//
//   - struct            -> object {"k": <Go type name>, <exported field>: ...}, zero values omitted
//   - every number      -> decimal string; literal "Val" fields and values reached through a
//                          pointer are always present, other zero numbers are omitted
//   - Token / DataType / Privilege / FillOption -> their names
//   - *regexp.Regexp    -> {"k":"re","s":pattern}; *time.Location -> {"k":"loc","name":...}
//   - time.Time         -> {"k":"time","ns":unix nanoseconds as string,"s":RFC3339Nano in UTC}
//   - FillValue         -> {"k":"int"|"float","v":...}
//
// With snapshot=true unexported fields (e.g. SelectStatement.groupByInterval) are
// included under their own names (C14 / C17).

var (
	durT   = reflect.TypeOf(time.Duration(0))
	tokT   = reflect.TypeOf(influxql.Token(0))
	dtT    = reflect.TypeOf(influxql.DataType(0))
	privT  = reflect.TypeOf(influxql.Privilege(0))
	fillT  = reflect.TypeOf(influxql.FillOption(0))
	timeT  = reflect.TypeOf(time.Time{})
	int64T = reflect.TypeOf(int64(0))
)

var fillNames = map[int64]string{0: "", 1: "none", 2: "number", 3: "previous", 4: "linear"}

func project(v interface{}) interface{} {
	if v == nil {
		return nil
	}
	return proj(reflect.ValueOf(v), false, false)
}

func snapshot(v interface{}) interface{} {
	if v == nil {
		return nil
	}
	return proj(reflect.ValueOf(v), false, true)
}

func proj(v reflect.Value, keepZero bool, snap bool) interface{} {
	switch v.Kind() {
	case reflect.Interface:
		if v.IsNil() {
			return nil
		}
		e := v.Elem()
		// FillValue interface{} holding a bare number
		switch e.Kind() {
		case reflect.Int64:
			if e.Type() == int64T {
				return M{"k": "int", "v": strconv.FormatInt(e.Int(), 10)}
			}
		case reflect.Float64:
			return M{"k": "float", "v": fmtFloat(e.Float())}
		}
		return proj(e, keepZero, snap)
	case reflect.Ptr:
		if v.IsNil() {
			return nil
		}
		if v.CanInterface() {
			switch x := v.Interface().(type) {
			case *regexp.Regexp:
				return M{"k": "re", "s": x.String()}
			case *time.Location:
				return M{"k": "loc", "name": x.String()}
			}
		} else if v.Type() == reflect.TypeOf((*regexp.Regexp)(nil)) || v.Type() == reflect.TypeOf((*time.Location)(nil)) {
			return M{"k": "opaque"}
		}
		return proj(v.Elem(), true, snap)
	case reflect.Struct:
		if v.Type() == timeT {
			if v.CanInterface() {
				t := v.Interface().(time.Time)
				if t.IsZero() && !keepZero {
					return nil
				}
				return M{"k": "time", "ns": timeNs(t), "s": t.UTC().Format(time.RFC3339Nano)}
			}
			return M{"k": "opaque"}
		}
		m := M{"k": v.Type().Name()}
		for i := 0; i < v.NumField(); i++ {
			f := v.Type().Field(i)
			if f.PkgPath != "" && !snap {
				continue
			}
			kz := f.Name == "Val"
			if p := proj(v.Field(i), kz, snap); p != nil {
				m[f.Name] = p
			}
		}
		return m
	case reflect.Slice, reflect.Array:
		if v.Len() == 0 {
			return nil
		}
		a := make([]interface{}, v.Len())
		for i := range a {
			a[i] = proj(v.Index(i), true, snap)
			if a[i] == nil {
				a[i] = M{"k": "nil"}
			}
		}
		return a
	case reflect.String:
		if v.Len() == 0 && !keepZero {
			return nil
		}
		return v.String()
	case reflect.Bool:
		if !v.Bool() && !keepZero {
			return nil
		}
		return v.Bool()
	case reflect.Int, reflect.Int64, reflect.Int32, reflect.Int16, reflect.Int8:
		n := v.Int()
		switch v.Type() {
		case tokT:
			if n == 0 {
				return nil
			}
			return influxql.Token(n).String()
		case dtT:
			if n == 0 {
				return nil
			}
			return influxql.DataType(n).String()
		case privT:
			if n == 0 && !keepZero {
				return nil
			}
			return influxql.Privilege(n).String()
		case fillT:
			if s, ok := fillNames[n]; ok {
				if s == "" {
					return nil
				}
				return s
			}
			return "fill" + strconv.FormatInt(n, 10)
		}
		if n == 0 && !keepZero {
			return nil
		}
		return strconv.FormatInt(n, 10)
	case reflect.Uint64, reflect.Uint, reflect.Uint32:
		if v.Uint() == 0 && !keepZero {
			return nil
		}
		return strconv.FormatUint(v.Uint(), 10)
	case reflect.Float64:
		if v.Float() == 0 && !keepZero {
			return nil
		}
		return fmtFloat(v.Float())
	case reflect.Map:
		if v.Len() == 0 {
			return nil
		}
		return fmt.Sprintf("?map[%d]", v.Len())
	case reflect.Func:
		if v.IsNil() {
			return nil
		}
		return "?func"
	}
	return fmt.Sprintf("?%s", v.Kind())
}

func fmtFloat(f float64) string { return strconv.FormatFloat(f, 'g', -1, 64) }

// timeNs renders the instant as nanoseconds since the epoch, exactly, also outside
// the int64 range (seconds*1e9 + nanos done in decimal).
func timeNs(t time.Time) string {
	sec := t.Unix()
	ns := int64(t.Nanosecond())
	// value = sec*1e9 + ns ; compute with big-ish arithmetic via strings when it may overflow
	const lim = 9223372035 // |sec| below this is safe
	if sec > -lim && sec < lim {
		return strconv.FormatInt(sec*1000000000+ns, 10)
	}
	// decimal: sec*1e9+ns for large |sec|
	neg := sec < 0
	if neg {
		// sec*1e9 + ns = -(|sec|*1e9 - ns)
		a := uint64(-sec)
		hi := a
		lo := uint64(0)
		if ns > 0 {
			hi = a - 1
			lo = uint64(1000000000 - ns)
		}
		return "-" + strconv.FormatUint(hi, 10) + fmt.Sprintf("%09d", lo)
	}
	return strconv.FormatUint(uint64(sec), 10) + fmt.Sprintf("%09d", ns)
}
