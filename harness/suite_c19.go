package main

import (
	"reflect"
	"strings"

	"github.com/influxdata/influxql"
)

// c19: parse one statement with ParseStatement, call RequiredPrivileges on it and on every
// SELECT it contains (outermost first, sources left to right), and record the lists.
//
//	obs.kind   Go type name of the parsed statement without "Statement"
//	obs.privs  [{Admin, Name, Privilege}]  (always present, possibly empty)   obs.err  error text
//	obs.sel    one {privs, err?} per SELECT inside a SELECT / EXPLAIN / CREATE CONTINUOUS QUERY
//
// Nothing is judged here.

func c19Privs(ep influxql.ExecutionPrivileges) []interface{} {
	out := make([]interface{}, 0, len(ep))
	for _, p := range ep {
		out = append(out, M{"Admin": p.Admin, "Name": p.Name, "Privilege": p.Privilege.String()})
	}
	return out
}

// c19Call records one RequiredPrivileges call.
func c19Call(f func() (influxql.ExecutionPrivileges, error)) M {
	o := M{"privs": []interface{}{}}
	var ep influxql.ExecutionPrivileges
	var err error
	if p := guard(func() { ep, err = f() }); p != "" {
		o["panic"] = p
		return o
	}
	o["privs"] = c19Privs(ep)
	// the list is the caller's: it may be extended (the package's own idiom for INTO) and overwritten; nothing of that
	// may show in the answer to a later question
	guard(func() {
		ep = append(ep, influxql.ExecutionPrivilege{Name: "zz_appended", Privilege: influxql.AllPrivileges})
		ep[0] = influxql.ExecutionPrivilege{Name: "zz_overwritten", Privilege: influxql.NoPrivileges}
	})
	if err != nil {
		o["err"] = errStr(err)
	}
	return o
}

// c19Selects lists a SELECT and the SELECTs of its subqueries in pre-order.
func c19Selects(s *influxql.SelectStatement, out []*influxql.SelectStatement) []*influxql.SelectStatement {
	if s == nil {
		return out
	}
	out = append(out, s)
	for _, src := range s.Sources {
		if sq, ok := src.(*influxql.SubQuery); ok {
			out = c19Selects(sq.Statement, out)
		}
	}
	return out
}

// c19Edit renames the database of every measurement of a SELECT in place: sources at any depth and INTO targets.
func c19Edit(s *influxql.SelectStatement) {
	ren := func(m *influxql.Measurement) {
		if m.Database == "" {
			m.Database = "dflt"
		} else {
			m.Database += "x"
		}
	}
	if s.Target != nil && s.Target.Measurement != nil {
		ren(s.Target.Measurement)
	}
	for _, src := range s.Sources {
		switch x := src.(type) {
		case *influxql.Measurement:
			ren(x)
		case *influxql.SubQuery:
			c19Edit(x.Statement)
		}
	}
}

func c19Kind(st influxql.Statement) string {
	t := reflect.TypeOf(st)
	for t.Kind() == reflect.Ptr {
		t = t.Elem()
	}
	return strings.TrimSuffix(t.Name(), "Statement")
}

func init() {
	register("c19", &Suite{Run: func(c M) M {
		text := caseText(c)
		o := M{"text": text}
		delete(c, "toks")
		var st influxql.Statement
		var err error
		if p := guard(func() { st, err = influxql.ParseStatement(text) }); p != "" {
			o["parse_panic"] = p
			return o
		}
		if err != nil {
			o["perr"] = errStr(err)
			return o
		}
		if st == nil {
			o["perr"] = "(nil statement)"
			return o
		}
		o["kind"] = c19Kind(st)
		top := c19Call(st.RequiredPrivileges)
		for k, v := range top {
			o[k] = v
		}
		var root *influxql.SelectStatement
		switch x := st.(type) {
		case *influxql.SelectStatement:
			root = x
		case *influxql.ExplainStatement:
			root = x.Statement
		case *influxql.CreateContinuousQueryStatement:
			root = x.Source
		}
		if root != nil {
			var sel []interface{}
			var p string
			var all []*influxql.SelectStatement
			if p = guard(func() { all = c19Selects(root, nil) }); p != "" {
				o["walk_panic"] = p
			}
			for _, s := range all {
				sel = append(sel, c19Call(s.RequiredPrivileges))
			}
			if sel == nil {
				sel = []interface{}{}
			}
			o["sel"] = sel
			// second step of a history: the statement is edited in place (every database renamed: "" -> "dflt",
			// d -> dx; sources at any depth and INTO targets) and asked again; then a CLONE taken after the first
			// question is edited and asked.  What a statement requires is a function of the statement as it is now.
			if p := guard(func() { c19Edit(root) }); p != "" {
				o["edit_panic"] = p
				return o
			}
			o["edited"] = c19Call(st.RequiredPrivileges)
			esel := []interface{}{}
			for _, s := range all {
				esel = append(esel, c19Call(s.RequiredPrivileges))
			}
			o["edited_sel"] = esel
			if st2, err2 := influxql.ParseStatement(text); err2 == nil {
				var root2 *influxql.SelectStatement
				switch x := st2.(type) {
				case *influxql.SelectStatement:
					root2 = x
				case *influxql.ExplainStatement:
					root2 = x.Statement
				case *influxql.CreateContinuousQueryStatement:
					root2 = x.Source
				}
				if root2 != nil {
					guard(func() { root2.RequiredPrivileges() })
					var cl *influxql.SelectStatement
					if p := guard(func() { cl = root2.Clone(); c19Edit(cl) }); p != "" {
						o["edit_panic"] = p
						return o
					}
					csel := []interface{}{}
					for _, s := range c19Selects(cl, nil) {
						csel = append(csel, c19Call(s.RequiredPrivileges))
					}
					o["clone_edited_sel"] = csel
				}
			}
		}
		return o
	}})
}

// c19tree: lists the keyword paths of the parser's statement dispatch tree (influxql.Language),
// one record per handler, e.g. "SHOW TAG KEY".  Used to see that the generator knows every
// statement the parser can start.
func c19Walk(t *influxql.ParseTree, prefix []string, emit func(M)) {
	if t == nil {
		return
	}
	for tok := range t.Handlers {
		emit(M{"path": strings.Join(append(append([]string{}, prefix...), tok.String()), " ")})
	}
	for tok, sub := range t.Tokens {
		c19Walk(sub, append(append([]string{}, prefix...), tok.String()), emit)
	}
}

func init() {
	register("c19tree", &Suite{
		Run: func(c M) M { return M{"path": str(c["path"])} },
		Gen: func(args []string, emit func(M)) { c19Walk(influxql.Language, nil, emit) },
	})
}
