package main

import (
	"reflect"
	"strings"

	"github.com/influxdata/influxql"
)

// c19: parse one statement with ParseStatement, call RequiredPrivileges on it and on every
// SELECT it contains (outermost first, sources left to right), and record the lists.
//
//	obs.kind   Go type name of the parsed statement without "Statement"
//	obs.privs  [{Admin, Name, Privilege}]  (always present, possibly empty)   obs.err  error text
//	obs.sel    one {privs, err?} per SELECT inside a SELECT / EXPLAIN / CREATE CONTINUOUS QUERY
//
// Nothing is judged here.

func c19Privs(ep influxql.ExecutionPrivileges) []interface{} {
	out := make([]interface{}, 0, len(ep))
	for _, p := range ep {
		out = append(out, M{"Admin": p.Admin, "Name": p.Name, "Privilege": p.Privilege.String()})
	}
	return out
}

// c19Call records one RequiredPrivileges call.
func c19Call(f func() (influxql.ExecutionPrivileges, error)) M {
	o := M{"privs": []interface{}{}}
	var ep influxql.ExecutionPrivileges
	var err error
	if p := guard(func() { ep, err = f() }); p != "" {
		o["panic"] = p
		return o
	}
	o["privs"] = c19Privs(ep)
	if err != nil {
		o["err"] = errStr(err)
	}
	return o
}

// c19Selects lists a SELECT and the SELECTs of its subqueries in pre-order.
func c19Selects(s *influxql.SelectStatement, out []*influxql.SelectStatement) []*influxql.SelectStatement {
	if s == nil {
		return out
	}
	out = append(out, s)
	for _, src := range s.Sources {
		if sq, ok := src.(*influxql.SubQuery); ok {
			out = c19Selects(sq.Statement, out)
		}
	}
	return out
}

func c19Kind(st influxql.Statement) string {
	t := reflect.TypeOf(st)
	for t.Kind() == reflect.Ptr {
		t = t.Elem()
	}
	return strings.TrimSuffix(t.Name(), "Statement")
}

func init() {
	register("c19", &Suite{Run: func(c M) M {
		text := caseText(c)
		o := M{"text": text}
		delete(c, "toks")
		var st influxql.Statement
		var err error
		if p := guard(func() { st, err = influxql.ParseStatement(text) }); p != "" {
			o["parse_panic"] = p
			return o
		}
		if err != nil {
			o["perr"] = errStr(err)
			return o
		}
		if st == nil {
			o["perr"] = "(nil statement)"
			return o
		}
		o["kind"] = c19Kind(st)
		top := c19Call(st.RequiredPrivileges)
		for k, v := range top {
			o[k] = v
		}
		var root *influxql.SelectStatement
		switch x := st.(type) {
		case *influxql.SelectStatement:
			root = x
		case *influxql.ExplainStatement:
			root = x.Statement
		case *influxql.CreateContinuousQueryStatement:
			root = x.Source
		}
		if root != nil {
			var sel []interface{}
			var p string
			var all []*influxql.SelectStatement
			if p = guard(func() { all = c19Selects(root, nil) }); p != "" {
				o["walk_panic"] = p
			}
			for _, s := range all {
				sel = append(sel, c19Call(s.RequiredPrivileges))
			}
			if sel == nil {
				sel = []interface{}{}
			}
			o["sel"] = sel
		}
		return o
	}})
}

// c19tree: lists the keyword paths of the parser's statement dispatch tree (influxql.Language),
// one record per handler, e.g. "SHOW TAG KEY".  Used to see that the generator knows every
// statement the parser can start.
func c19Walk(t *influxql.ParseTree, prefix []string, emit func(M)) {
	if t == nil {
		return
	}
	for tok := range t.Handlers {
		emit(M{"path": strings.Join(append(append([]string{}, prefix...), tok.String()), " ")})
	}
	for tok, sub := range t.Tokens {
		c19Walk(sub, append(append([]string{}, prefix...), tok.String()), emit)
	}
}

func init() {
	register("c19tree", &Suite{
		Run: func(c M) M { return M{"path": str(c["path"])} },
		Gen: func(args []string, emit func(M)) { c19Walk(influxql.Language, nil, emit) },
	})
}
