package main

import (
	"strconv"
	"time"

	"github.com/influxdata/influxql"
)

// c18: a history = an initial WHERE condition + a sequence of windows.  The statement
// `SELECT v FROM m WHERE <cond>` is parsed, SetTimeRange is called for each window in
// turn, and after every call the condition is observed through the real ConditionExpr
// (range as symbolic instants, residual truth table via EvalBool), together with its
// printed form and node count.  No verdicts here.  Instants: see suite_c10.go.

type c18Counter struct{ n int }

func (c *c18Counter) Visit(n influxql.Node) influxql.Visitor {
	c.n++
	return c
}

func c18Size(e influxql.Expr) int {
	if e == nil {
		return 0
	}
	var c c18Counter
	influxql.Walk(&c, e)
	return c.n
}

func c18Instant(m *c10Mapping, v interface{}) time.Time {
	o := obj(v)
	return m.at(num(o["k"]), num(o["d"]))
}

func init() {
	register("c18", &Suite{Run: func(c M) M {
		m := c10GetMap(false)
		var text string
		if t := list(c["toks"]); t != nil {
			text = render(c10Resolve(t, m))
		} else {
			text = str(c["text"])
		}
		o := M{"text": text, "now": strconv.FormatInt(m.now.UnixNano(), 10)}
		var stmt influxql.Statement
		var err error
		if p := guard(func() { stmt, err = influxql.ParseStatement("SELECT v FROM m WHERE " + text) }); p != "" {
			o["panic"] = p
			return o
		}
		if err != nil {
			o["perr"] = errStr(err)
			return o
		}
		sel, ok := stmt.(*influxql.SelectStatement)
		if !ok {
			o["perr"] = "not a SELECT statement"
			return o
		}
		o["size0"] = c18Size(sel.Condition)
		steps := make([]interface{}, 0, 4)
		for _, w := range list(c["wins"]) {
			win := obj(w)
			start, end := c18Instant(m, win["s"]), c18Instant(m, win["e"])
			st := M{}
			var serr error
			if p := guard(func() { serr = sel.SetTimeRange(start, end) }); p != "" {
				st["panic"] = p
				steps = append(steps, st)
				break
			}
			if serr != nil {
				st["serr"] = errStr(serr)
				steps = append(steps, st)
				break
			}
			if sel.Condition != nil {
				st["cond"] = sel.Condition.String()
			} else {
				st["cond"] = ""
			}
			st["size"] = c18Size(sel.Condition)
			c10Split(st, sel.Condition, m)
			steps = append(steps, st)
		}
		o["steps"] = steps
		return o
	}})
}
