package main

import (
	"strconv"
	"time"

	"github.com/influxdata/influxql"
)

// c18: a history = an initial WHERE condition + a sequence of windows.  The statement
// `SELECT v FROM m WHERE <cond>` is parsed, SetTimeRange is called for each window in
// turn, and after every call the condition is observed through the real ConditionExpr
// (range as symbolic instants, residual truth table via EvalBool), together with its
// printed form and node count.  No verdicts here.  Instants: see suite_c10.go.

type c18Counter struct{ n int }

func (c *c18Counter) Visit(n influxql.Node) influxql.Visitor {
	c.n++
	return c
}

func c18Size(e influxql.Expr) int {
	if e == nil {
		return 0
	}
	var c c18Counter
	influxql.Walk(&c, e)
	return c.n
}

// c18Skeleton projects a condition to its boolean skeleton: AND / OR / parentheses as they
// stand in the tree, boolean literals, and leaves read by the real code itself - a comparison
// that ConditionExpr turns entirely into a time range becomes {"n":"time","lo","hi"} (symbolic
// instants), any other leaf {"n":"nt","rt":[truth under EvalBool for the 8 valuations]}.
// The judge evaluates the skeleton's plain boolean reading; nothing is compared here.
func c18Skeleton(e influxql.Expr, m *c10Mapping) M {
	switch x := e.(type) {
	case *influxql.ParenExpr:
		return M{"n": "par", "e": c18Skeleton(x.Expr, m)}
	case *influxql.BooleanLiteral:
		return M{"n": "bool", "b": x.Val}
	case *influxql.BinaryExpr:
		if x.Op == influxql.AND || x.Op == influxql.OR {
			n := "and"
			if x.Op == influxql.OR {
				n = "or"
			}
			return M{"n": n, "l": c18Skeleton(x.LHS, m), "r": c18Skeleton(x.RHS, m)}
		}
	case nil:
		return M{"n": "bool", "b": true}
	}
	var res influxql.Expr
	var tr influxql.TimeRange
	var err error
	if p := guard(func() { res, tr, err = influxql.ConditionExpr(influxql.CloneExpr(e), m.valuer()) }); p != "" {
		return M{"n": "bad", "why": "panic: " + p}
	}
	if err != nil {
		return M{"n": "bad", "why": errStr(err)}
	}
	if res == nil {
		return M{"n": "time", "lo": m.sym(tr.Min), "hi": m.sym(tr.Max)}
	}
	rt := make([]interface{}, 0, 8)
	if p := guard(func() {
		for _, val := range c10Valuations() {
			ev := influxql.ValuerEval{Valuer: val}
			rt = append(rt, ev.EvalBool(e))
		}
	}); p != "" {
		return M{"n": "bad", "why": "panic: " + p}
	}
	return M{"n": "nt", "rt": rt}
}

func c18Instant(m *c10Mapping, v interface{}) time.Time {
	o := obj(v)
	return m.at(num(o["k"]), num(o["d"]))
}

var c18LMT = time.FixedZone("LMT", -(7*3600 + 52*60 + 58))

func init() {
	register("c18", &Suite{Run: func(c M) M {
		m := c10GetMap(false)
		if tz := str(c["tz"]); tz != "" { // a history run on a statement with tz('<zone>'), bases around the repeated hour
			m = c10GetTzMap(tz)
		}
		var text string
		if t := list(c["toks"]); t != nil {
			text = render(c10Resolve(t, m))
		} else {
			text = str(c["text"])
		}
		o := M{"text": text, "now": strconv.FormatInt(m.now.UnixNano(), 10)}
		var stmt influxql.Statement
		var err error
		tzClause := ""
		if m.tz != "" {
			tzClause = " tz('" + m.tz + "')"
			o["tz"] = m.tz
		}
		// variants of the statement around the same condition: no WHERE clause at all (for the condition `true`: the
		// statement selects everything either way), and a time column renamed by `time AS ts` + RewriteTimeFields()
		head, where := "SELECT v FROM m", " WHERE "+text
		if nw, _ := c["nowhere"].(bool); nw {
			where = ""
			o["nowhere"] = true
		}
		talias, _ := c["talias"].(bool)
		if talias {
			head = "SELECT time AS ts, v FROM m"
			o["talias"] = true
		}
		if p := guard(func() { stmt, err = influxql.ParseStatement(head + where + tzClause) }); p != "" {
			o["panic"] = p
			return o
		}
		if err != nil {
			o["perr"] = errStr(err)
			return o
		}
		sel, ok := stmt.(*influxql.SelectStatement)
		if !ok {
			o["perr"] = "not a SELECT statement"
			return o
		}
		if talias {
			if p := guard(func() { sel.RewriteTimeFields() }); p != "" {
				o["panic"] = "RewriteTimeFields: " + p
				return o
			}
		}
		o["size0"] = c18Size(sel.Condition)
		steps := make([]interface{}, 0, 4)
		var prevCopy, prevTwin *influxql.SelectStatement
		var prevStep M
		for _, w := range list(c["wins"]) {
			win := obj(w)
			start, end := c18Instant(m, win["s"]), c18Instant(m, win["e"])
			// the same instants, carried by time.Time values of another Location on every second call (a zone whose offset
			// has a seconds part: local mean time, as the tz database has it for dates before the railways)
			if len(steps)%2 == 1 {
				start, end = start.In(c18LMT), end.In(c18LMT)
			}
			st := M{}
			var serr error
			if p := guard(func() { serr = sel.SetTimeRange(start, end) }); p != "" {
				st["panic"] = p
				steps = append(steps, st)
				break
			}
			if serr != nil {
				st["serr"] = errStr(serr)
				steps = append(steps, st)
				break
			}
			if sel.Condition != nil {
				st["cond"] = sel.Condition.String()
			} else {
				st["cond"] = ""
			}
			st["size"] = c18Size(sel.Condition)
			c10Split(st, sel.Condition, m)
			// the printed condition is an observation of the statement too (and what the next
			// SetTimeRange call re-parses): skeleton of the tree and of its printed form parsed back
			if sel.Condition != nil {
				st["sk"] = c18Skeleton(sel.Condition, m)
				var back influxql.Expr
				var berr error
				text := str(st["cond"])
				if p := guard(func() { back, berr = influxql.ParseExpr(text) }); p != "" {
					st["skp"] = M{"n": "bad", "why": "panic: " + p}
				} else if berr != nil {
					st["skp"] = M{"n": "bad", "why": "parse: " + errStr(berr)}
				} else {
					st["skp"] = c18Skeleton(back, m)
				}
			}
			// a second statement: a copy taken now keeps this window when the original gets the next one (copy_later is
			// filled in at the next call), and the original keeps it when the copy gets another window
			if sel.Condition != nil {
				if prevCopy != nil && prevStep != nil && prevCopy.Condition != nil {
					prevStep["copy_later"] = prevCopy.Condition.String()
				}
				if prevTwin != nil && prevStep != nil && prevTwin.Condition != nil {
					prevStep["twin_later"] = prevTwin.Condition.String()
				}
				// a second statement parsed from the same text that is given the SAME window: it keeps it when the first
				// one gets its next window
				prevTwin = nil
				guard(func() {
					if st2, err := influxql.ParseStatement(head + where + tzClause); err == nil {
						if tw, ok := st2.(*influxql.SelectStatement); ok {
							if talias {
								tw.RewriteTimeFields()
							}
							if tw.SetTimeRange(start, end) == nil && tw.Condition != nil {
								st["twin_cond"] = tw.Condition.String()
								prevTwin = tw
							}
						}
					}
				})
				var cp, cp2 *influxql.SelectStatement
				if p := guard(func() {
					cp, cp2 = sel.Clone(), sel.Clone()
					_ = cp2.SetTimeRange(end, end.Add(time.Hour))
				}); p != "" {
					st["panic"] = "copy: " + p
					steps = append(steps, st)
					break
				}
				if cp.Condition != nil {
					st["copy_cond"] = cp.Condition.String()
				}
				st["cond_after_copy"] = sel.Condition.String()
				prevCopy, prevStep = cp, st
			}
			steps = append(steps, st)
		}
		o["steps"] = steps
		return o
	}})
}
