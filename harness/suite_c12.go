package main

import (
	"regexp"
	"sort"
	"strings"

	"github.com/influxdata/influxql"
)

// c12: wildcard expansion.  A case carries
//
//	toks     token records of one SELECT statement (rendered here, parsed by the real parser)
//	schema   [{name, fields:[{n,t}], tags:[name]}]   the schema the FieldMapper serves
//	names    the name universe (for the regex / sort-order cross checks)
//	regexes  [{re, match:[name]}]                    match sets the spec assumed
//
// and everything the spec predicts (stmt, want / wanterr), which this file never looks at.
// Recorded: the parsed statement (projection), a snapshot of the receiver (unexported fields
// included) before the first and after the last call, the projection of each of the
// c12Calls results of RewriteFields (or the error / panic text), the real regexp's match
// set of every regex over the name universe and the universe in Go's string order.
// Nothing is compared here.

const c12Calls = 8
const c12StaticCalls = 4

// c12Mapper implements influxql.FieldMapper (and CallTypeMapper) from the schema record.
// Every call builds fresh Go maps, so the randomised iteration order of Go maps is
// exercised by each of the repeated RewriteFields calls; rot varies the insertion order.
type c12Mapper struct {
	schema []interface{}
	rot    int
	static map[string]*c12cached // non-nil: a mapper that caches its maps per measurement
}

// c12Prelude are the statements run through the static mapper before the case's own statement:
// other wildcard statements over the same schema (grouping by every tag, by a wildcard, call
// wildcards).  The result of the case's statement must not depend on them.
func c12Prelude(schema []interface{}) []string {
	out := []string{}
	for _, x := range schema {
		e := obj(x)
		m := influxql.QuoteIdent(str(e["name"]))
		if i := strings.Index(str(e["name"]), ".."); i > 0 {
			m = influxql.QuoteIdent(str(e["name"])[:i], "", str(e["name"])[i+2:])
		}
		for _, t := range list(e["tags"]) {
			out = append(out, "SELECT * FROM "+m+" GROUP BY "+influxql.QuoteIdent(str(t)))
		}
		out = append(out, "SELECT * FROM "+m+" GROUP BY *", "SELECT mean(*) FROM "+m, "SELECT /./ FROM "+m+" GROUP BY /./",
			"SELECT *::field FROM "+m+" GROUP BY time(1m), *")
	}
	return out
}

// c12cached holds the maps a static mapper hands out: the same maps on every call, like a
// schema cache.  What RewriteFields does to them stays visible to every later call.
type c12cached struct {
	fields map[string]influxql.DataType
	dims   map[string]struct{}
}

func (m *c12Mapper) FieldDimensions(ms *influxql.Measurement) (map[string]influxql.DataType, map[string]struct{}, error) {
	if m.static != nil {
		skey := ms.Database + ".." + ms.Name
		if c, ok := m.static[skey]; ok {
			return c.fields, c.dims, nil
		}
		sub := &c12Mapper{schema: m.schema, rot: m.rot}
		f, d, _ := sub.FieldDimensions(ms)
		m.static[skey] = &c12cached{fields: f, dims: d}
		return f, d, nil
	}
	fields := make(map[string]influxql.DataType)
	dims := make(map[string]struct{})
	key := ms.Name
	if ms.Database != "" { // a measurement written with a database is another measurement (schema key "db..name")
		key = ms.Database + ".." + ms.Name
	}
	for _, x := range m.schema {
		e := obj(x)
		if str(e["name"]) != key {
			continue
		}
		fl := list(e["fields"])
		for i := range fl {
			f := obj(fl[(i+m.rot)%len(fl)])
			fields[str(f["n"])] = influxql.DataTypeFromString(str(f["t"]))
		}
		tl := list(e["tags"])
		for i := range tl {
			dims[str(tl[(i+m.rot)%len(tl)])] = struct{}{}
		}
	}
	return fields, dims, nil
}

// MapType: a field of that name wins over a tag of that name (the order used by the
// repository's own test mapper and by influxdb's shard mapper).
func (m *c12Mapper) MapType(ms *influxql.Measurement, field string) influxql.DataType {
	f, d, _ := m.FieldDimensions(ms)
	if t, ok := f[field]; ok {
		return t
	}
	if _, ok := d[field]; ok {
		return influxql.Tag
	}
	return influxql.Unknown
}

// CallType is deterministic and modelled in spec/c12/Wildcard.tla (CallType):
// mean -> float, count -> integer, anything else -> the type of its first argument.
func (m *c12Mapper) CallType(name string, args []influxql.DataType) (influxql.DataType, error) {
	switch name {
	case "mean":
		return influxql.Float, nil
	case "count":
		return influxql.Integer, nil
	}
	if len(args) > 0 {
		return args[0], nil
	}
	return influxql.Unknown, nil
}

// c12Half answers for one function only and knows no field; c12Stacked takes fields and tags from the schema mapper and
// all types from a MultiTypeMapper
type c12Half struct{}

func (c12Half) MapType(*influxql.Measurement, string) influxql.DataType { return influxql.Unknown }
func (c12Half) CallType(name string, args []influxql.DataType) (influxql.DataType, error) {
	if name == "mean" {
		return influxql.Float, nil
	}
	return influxql.Unknown, nil
}

type c12Stacked struct {
	m  *c12Mapper
	tm influxql.TypeMapper
}

func (s c12Stacked) FieldDimensions(ms *influxql.Measurement) (map[string]influxql.DataType, map[string]struct{}, error) {
	return s.m.FieldDimensions(ms)
}
func (s c12Stacked) MapType(ms *influxql.Measurement, field string) influxql.DataType {
	return s.tm.MapType(ms, field)
}
func (s c12Stacked) CallType(name string, args []influxql.DataType) (influxql.DataType, error) {
	return s.tm.(influxql.CallTypeMapper).CallType(name, args)
}

func c12Run(c M) M {
	text := caseText(c)
	o := M{"text": text}
	delete(c, "toks")

	// cross checks of what the spec assumed about Go strings and regexps
	names := []string{}
	for _, n := range list(c["names"]) {
		names = append(names, str(n))
	}
	sorted := append([]string{}, names...)
	sort.Strings(sorted)
	o["namesorted"] = sorted
	rm := []interface{}{}
	for _, x := range list(c["regexes"]) {
		r := obj(x)
		e := M{"re": str(r["re"])}
		re, err := regexp.Compile(str(r["re"]))
		if err != nil {
			e["err"] = errStr(err)
		} else {
			ms := []string{}
			for _, n := range sorted {
				if re.MatchString(n) {
					ms = append(ms, n)
				}
			}
			e["match"] = ms
		}
		rm = append(rm, e)
	}
	o["rematch"] = rm

	var st influxql.Statement
	var err error
	if p := guard(func() { st, err = influxql.ParseStatement(text) }); p != "" {
		o["parse_panic"] = p
		return o
	}
	if err != nil {
		o["parse_err"] = errStr(err)
		return o
	}
	sel, ok := st.(*influxql.SelectStatement)
	if !ok {
		o["parse_err"] = "not a SELECT statement"
		return o
	}
	o["parsed"] = project(sel)
	o["before"] = snapshot(sel)
	res := make([]interface{}, 0, c12Calls+c12StaticCalls)
	for k := 0; k < c12Calls; k++ {
		m := &c12Mapper{schema: list(c["schema"]), rot: k}
		var out *influxql.SelectStatement
		var rerr error
		e := M{}
		var fm influxql.FieldMapper = m
		if k%2 == 1 {
			// the same schema behind the exported combinator: a first type mapper that knows no field and only one
			// function, then the schema's own (how a server stacks a function mapper on a shard mapper)
			fm = c12Stacked{m, influxql.MultiTypeMapper(c12Half{}, m)}
		}
		if p := guard(func() { out, rerr = sel.RewriteFields(fm) }); p != "" {
			e["panic"] = p
		} else if rerr != nil {
			e["err"] = errStr(rerr)
		} else if out == nil {
			e["err"] = "(nil statement, nil error)"
		} else {
			e["stmt"] = project(out)
			e["str"] = out.String()
		}
		res = append(res, e)
	}
	// a schema cache: the same maps on every call, other statements expanded first
	sm := &c12Mapper{schema: list(c["schema"]), static: map[string]*c12cached{}}
	for _, ptext := range c12Prelude(list(c["schema"])) {
		guard(func() {
			if pst, perr := influxql.ParseStatement(ptext); perr == nil {
				if psel, ok := pst.(*influxql.SelectStatement); ok {
					psel.RewriteFields(sm)
				}
			}
		})
	}
	for k := 0; k < c12StaticCalls; k++ {
		var out *influxql.SelectStatement
		var rerr error
		e := M{}
		if p := guard(func() { out, rerr = sel.RewriteFields(sm) }); p != "" {
			e["panic"] = p
		} else if rerr != nil {
			e["err"] = errStr(rerr)
		} else if out == nil {
			e["err"] = "(nil statement, nil error)"
		} else {
			e["stmt"] = project(out)
			e["str"] = out.String()
		}
		res = append(res, e)
	}
	o["res"] = res
	o["after"] = snapshot(sel)
	return o
}

func init() {
	register("c12", &Suite{Run: c12Run})
}
