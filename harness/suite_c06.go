package main

import (
	"bufio"
	"encoding/json"
	"math/rand"
	"os"
	"sort"
	"strings"
	_ "time/tzdata" // tz('America/Chicago') must not depend on the host's zone database
	"unicode/utf8"

	"github.com/influxdata/influxql"
)

// C06: the quoting helpers against the scanner and the parser.  This file renders, calls
// the real package and records; the verdicts are computed by spec/c06/Judge_c06*.tla.

// c06Sym maps the symbolic character names of spec/c06/QStr.tla to the bytes they stand for.
var c06Sym = map[string]string{"<NUL>": "\x00", "<FF>": "\xff", "<C0>": "\xc0"}

// c06String is the Go string spelled by a case's "inp" (array of 1-character strings and
// symbolic byte names).
func c06String(c M) string {
	var b strings.Builder
	for _, x := range list(c["inp"]) {
		s := str(x)
		if r, ok := c06Sym[s]; ok {
			b.WriteString(r)
		} else {
			b.WriteString(s)
		}
	}
	return b.String()
}

// c06Chars is the inverse of c06String for strings produced by the random drivers.
func c06Chars(s string) []interface{} {
	out := []interface{}{}
	for i := 0; i < len(s); {
		r, w := utf8.DecodeRuneInString(s[i:])
		switch {
		case r == utf8.RuneError && w == 1:
			if s[i] == 0xc0 {
				out = append(out, "<C0>")
			} else {
				out = append(out, "<FF>") // the random drivers only write 0xFF and 0xC0
			}
		case r == 0:
			out = append(out, "<NUL>")
		default:
			out = append(out, string(r))
		}
		i += w
	}
	return out
}

// c06Scan scans text with the real Scanner until EOF and returns [[kind, literal], ...].
func c06Scan(text string) []interface{} {
	s := influxql.NewScanner(strings.NewReader(text))
	toks := []interface{}{}
	limit := utf8.RuneCountInString(text) + 4
	for k := 0; k < limit; k++ {
		tok, _, lit := s.Scan()
		toks = append(toks, []interface{}{tokName(tok), lit})
		if tok == influxql.EOF {
			break
		}
	}
	return toks
}

// c06Tag re-encodes the reflection projection (project.go) as a tagged tree: every node
// carries its sort in the name of its only field (spec/c06/TTree.tla), so that the TLA+
// judges can compare arbitrary trees without type errors.
func c06Tag(v interface{}) interface{} {
	switch x := v.(type) {
	case nil:
		return M{"s": ""}
	case string:
		return M{"s": x}
	case bool:
		return M{"b": x}
	case M:
		f := M{}
		for k, e := range x {
			f[k] = c06Tag(e)
		}
		return M{"r": f}
	case []interface{}:
		a := make([]interface{}, len(x))
		for i, e := range x {
			a[i] = c06Tag(e)
		}
		return M{"l": a}
	}
	return M{"s": "?" + str(v)}
}

// c06Hole writes the value into a hole with the REAL helpers.
func c06Hole(kind, s string) string {
	switch kind {
	case "str":
		return influxql.QuoteString(s)
	case "id":
		return influxql.QuoteIdent(s)
	case "id3m":
		return influxql.QuoteIdent("d", "", s)
	case "id3db":
		return influxql.QuoteIdent(s, "", "m")
	case "id3rp":
		return influxql.QuoteIdent("d", s, "m")
	}
	return "?" + kind
}

// c06Render joins token records like render(), writing hole tokens through c06Hole.
func c06Render(toks []interface{}, s string) string {
	var b strings.Builder
	for i, x := range toks {
		t := obj(x)
		if i > 0 {
			if w, ok := t["w"]; ok {
				b.WriteString(str(w))
			} else if str(t["g"]) != "T" {
				b.WriteByte(' ')
			}
		}
		if str(t["t"]) == "hole" {
			b.WriteString(c06Hole(str(t["s"]), s))
		} else {
			b.WriteString(renderTok(t))
		}
	}
	return b.String()
}

// c06Parse parses text through ParseStatement ("stmt") or ParseQuery ("query") and records an
// error message or the tagged AST.
func c06Parse(entry, text string, params map[string]interface{}, setParams bool) M {
	o := M{}
	var node interface{}
	var err error
	p := guard(func() {
		ps := influxql.NewParser(strings.NewReader(text))
		if setParams {
			ps.SetParams(params)
		}
		if entry == "query" {
			var q *influxql.Query
			q, err = ps.ParseQuery()
			if q != nil {
				node = q
			}
		} else {
			var st influxql.Statement
			st, err = ps.ParseStatement()
			if st != nil && !isNilPtr(st) {
				node = st
			}
		}
	})
	switch {
	case p != "":
		o["panic"] = p
	case err != nil:
		o["err"] = c06Clean(errStr(err))
	case node == nil:
		o["err"] = "(no result and no error)"
		o["neither"] = true
	default:
		var t interface{}
		if pp := guard(func() { t = c06Tag(project(node)) }); pp != "" {
			o["panic"] = "project: " + pp
		} else {
			o["ast"] = t
		}
	}
	return o
}

// c06Clean makes a message safe to carry (it is never judged).
func c06Clean(s string) string {
	s = strings.ToValidUTF8(s, "�")
	return strings.Replace(s, "\x00", "<NUL>", -1)
}

func c06Family1(c M) M {
	s := c06String(c)
	o := M{}
	var qs, qi, em, tp string
	var need bool
	if p := guard(func() {
		qs = influxql.QuoteString(s)
		qi = influxql.QuoteIdent(s)
		em = influxql.QuoteIdent(s, "", s)
		tp = influxql.QuoteIdent(s, s, s)
		need = influxql.IdentNeedsQuotes(s)
	}); p != "" {
		o["panic"] = p
		return o
	}
	o["qs"] = runeStrings(qs)
	o["qi"] = runeStrings(qi)
	o["need"] = need
	if p := guard(func() {
		o["qs_t"] = c06Scan(qs)
		o["qi_t"] = c06Scan(qi)
		o["em_t"] = c06Scan(em)
		o["tp_t"] = c06Scan(tp)
		o["bare_t"] = c06Scan(s)
	}); p != "" {
		o["panic"] = p
	}
	return o
}

func c06Family2(c M) M {
	s := c06String(c)
	var text string
	if p := guard(func() { text = c06Render(list(c["toks"]), s) }); p != "" {
		return M{"panic": "render: " + p}
	}
	o := c06Parse(str(c["entry"]), text, nil, false)
	o["text"] = c06Clean(text)
	return o
}

var c06Alphabet = []string{"a", "b", "s", "A", "S", "z", "_", "0", "1", "9", " ", "\t", "\n", "'", "'", "\"", "\"", "\\", "\\",
	"n", ".", ",", ";", "-", "/", "*", "(", ")", "=", "$", ":", "é", "日", "�", "µ", "K", "\x7f", "\x01",
	"\ufeff", "\u00a0", "\u2028", "\u0085", "\u200b", "\U0010ffff", "%", "%s", "\v", "\f", "\b"}
var c06Bad = []string{"\r", "\x00", "\xff", "\xc0", "\r\n"}
var c06Words = []string{"select", "FROM", "Limit", "as", "time", "true", "or", "' --", "\\'", "\\\"", "';", "\";", "/*", "*/", "--", "$p"}

func c06Random(rng *rand.Rand, expressible bool) string {
	n := 3 + rng.Intn(10)
	if rng.Intn(10) == 0 {
		n = 40 + rng.Intn(40) // a few long values
	}
	var b strings.Builder
	for i := 0; i < n; i++ {
		switch k := rng.Intn(20); {
		case k == 0:
			b.WriteString(c06Words[rng.Intn(len(c06Words))])
		case k == 1 && !expressible:
			b.WriteString(c06Bad[rng.Intn(len(c06Bad))])
		default:
			b.WriteString(c06Alphabet[rng.Intn(len(c06Alphabet))])
		}
	}
	return b.String()
}

// c06Placeholder stands for "some non-ASCII character" in the records of a rune sweep.
const c06Placeholder = "é"

func c06Subst(v interface{}, from, to string) interface{} {
	switch x := v.(type) {
	case string:
		return strings.Replace(x, from, to, -1)
	case []interface{}:
		a := make([]interface{}, len(x))
		for i, e := range x {
			a[i] = c06Subst(e, from, to)
		}
		return a
	case M:
		m := M{}
		for k, e := range x {
			m[k] = c06Subst(e, from, to)
		}
		return m
	}
	return v
}

func c06Shape(shape string, r rune) string {
	x := string(r)
	switch shape {
	case "solo":
		return x
	case "first":
		return x + "a"
	case "last":
		return "a" + x
	case "esc":
		return "a\\" + x
	case "q":
		return "'" + x + "\""
	}
	return "a" + x + "b"
}

// c06Key is a compact rendering of everything c06Family1 would record for s, with the swept character
// replaced by the placeholder: equal keys = equal observations.  (The records themselves are built by
// c06Family1, once per run.)
func c06Key(br *bufio.Reader, s, x string, sub bool) string {
	var b strings.Builder
	put := func(t string) {
		if sub {
			t = strings.Replace(t, x, c06Placeholder, -1)
		}
		b.WriteString(t)
		b.WriteByte(0)
	}
	scan := func(text string) {
		br.Reset(strings.NewReader(text)) // NewScanner wraps its reader with bufio.NewReader, which returns a *bufio.Reader as it is
		sc := influxql.NewScanner(br)
		limit := utf8.RuneCountInString(text) + 4
		for k := 0; k < limit; k++ {
			tok, _, lit := sc.Scan()
			b.WriteString(tokName(tok))
			b.WriteByte(1)
			put(lit)
			if tok == influxql.EOF {
				break
			}
		}
		b.WriteByte(2)
	}
	if p := guard(func() {
		qs, qi := influxql.QuoteString(s), influxql.QuoteIdent(s)
		put(qs)
		put(qi)
		if influxql.IdentNeedsQuotes(s) {
			b.WriteByte('T')
		} else {
			b.WriteByte('F')
		}
		scan(qs)
		scan(qi)
		scan(influxql.QuoteIdent(s, "", s))
		scan(influxql.QuoteIdent(s, s, s))
		scan(s)
	}); p != "" {
		return "panic:" + p
	}
	return b.String()
}

// c06Sweep runs the first family on the framed string for every code point of the block and
// returns one record per maximal run of code points with the same observation (non-ASCII code
// points written as the placeholder).  Nothing is judged here: the runs are what Judge_c06 reads.
func c06Sweep(c M) M {
	sw := list(c["sweep"])
	lo, hi := rune(num(sw[0])), rune(num(sw[1]))
	shape := str(c["shape"])
	type run struct {
		lo, hi rune
		n      int
		key    string
	}
	var runs []*run
	br := bufio.NewReader(strings.NewReader(""))
	for r := lo; r <= hi; r++ {
		if r >= 0xD800 && r <= 0xDFFF {
			continue // not scalar values: no Go string holds them
		}
		key := c06Key(br, c06Shape(shape, r), string(r), r >= 0x80)
		if r < 0x80 {
			key = string(r) + key // ASCII characters are never merged
		}
		if n := len(runs); n > 0 && runs[n-1].key == key {
			runs[n-1].hi = r
			runs[n-1].n++
			continue
		}
		runs = append(runs, &run{lo: r, hi: r, n: 1, key: key})
	}
	if len(runs) == 0 {
		return M{"empty": true}
	}
	// the record of a run: the observation of its first code point
	rec := func(u *run) ([]interface{}, M) {
		inp := c06Chars(c06Shape(shape, u.lo))
		o := c06Family1(M{"inp": inp})
		if u.lo >= 0x80 {
			inp = c06Subst(inp, string(u.lo), c06Placeholder).([]interface{})
			o = c06Subst(o, string(u.lo), c06Placeholder).(M)
		}
		return inp, o
	}
	inp0, out := rec(runs[0])
	c["inp"] = inp0
	out["run"] = []interface{}{int(runs[0].lo), int(runs[0].hi)} // the case keeps its whole block (replay re-runs all of it)
	out["runlen"] = runs[0].n
	rest := []interface{}{}
	for _, u := range runs[1:] {
		inp, o := rec(u)
		rest = append(rest, M{"inp": inp, "obs": o, "sweep": []interface{}{int(u.lo), int(u.hi)}, "runlen": u.n})
	}
	if len(rest) > 0 {
		out["rest"] = rest
	}
	return out
}

func init() {
	register("c06", &Suite{Run: func(c M) M {
		if _, ok := c["tpl"]; ok {
			return c06Family2(c)
		}
		if _, ok := c["sweep"]; ok {
			return c06Sweep(c)
		}
		return c06Family1(c)
	}})
	// seeded random strings:  vdrive c06 - obs fam1 N            (expressible strings, first family)
	//                         vdrive c06 - obs fam2 N <casefile>  (any strings x the templates found in casefile)
	suites["c06"].Gen = func(args []string, emit func(M)) {
		if len(args) < 2 {
			return
		}
		n := atoi(args[1])
		switch args[0] {
		case "fam1":
			rng := rand.New(rand.NewSource(seed()*7919 + 61))
			for k := 0; k < n; k++ {
				emit(M{"inp": c06Chars(c06Random(rng, true)), "rand": true})
			}
		case "fam2":
			if len(args) < 3 {
				return
			}
			tpls := c06Templates(args[2])
			rng := rand.New(rand.NewSource(seed()*7919 + 62))
			for k := 0; k < n; k++ {
				s := c06Chars(c06Random(rng, rng.Intn(3) != 0))
				for _, t := range tpls {
					emit(M{"tpl": t["tpl"], "entry": t["entry"], "toks": t["toks"], "inp": s, "rand": true})
				}
			}
		}
	}
}

// c06Templates reads the distinct templates (tpl, entry, toks) out of a TLC-generated case
// file, so that the random driver uses the templates of spec/c06/Tpl_c06.tla.
func c06Templates(path string) []M {
	f, err := os.Open(path)
	if err != nil {
		fatal("c06: %v", err)
	}
	defer f.Close()
	seen := map[string]M{}
	sc := bufio.NewScanner(f)
	sc.Buffer(make([]byte, 1<<20), 1<<26)
	for sc.Scan() {
		b := sc.Bytes()
		if len(b) == 0 {
			continue
		}
		if b[0] == '"' {
			var s string
			if json.Unmarshal(b, &s) != nil {
				continue
			}
			b = []byte(s)
		}
		var c M
		if json.Unmarshal(b, &c) != nil {
			continue
		}
		name := str(c["tpl"])
		if _, ok := seen[name]; !ok && name != "" {
			seen[name] = c
		}
	}
	names := make([]string, 0, len(seen))
	for k := range seen {
		names = append(names, k)
	}
	sort.Strings(names)
	out := make([]M, 0, len(names))
	for _, k := range names {
		out = append(out, seen[k])
	}
	return out
}
