package main

import (
	"bufio"
	"math/rand"
	"strings"
	"unicode/utf8"

	"github.com/influxdata/influxql"
)

// caseInput returns the text of a lexer case: "inp" (array of 1-rune strings), "bytes"
// (array of byte values, for invalid UTF-8) or "text".
func caseInput(c M) string {
	if a := list(c["inp"]); a != nil {
		var b strings.Builder
		for i, x := range a {
			if str(x) == "{EUR}" { // placeholder of Gen_c05b for a three-byte character; the judge reads the character
				a[i] = "€"
			}
			b.WriteString(str(a[i]))
		}
		return b.String()
	}
	if a := list(c["bytes"]); a != nil {
		b := make([]byte, len(a))
		for i, x := range a {
			b[i] = byte(num(x))
		}
		return string(b)
	}
	return caseText(c)
}

// runeOffsets returns the byte offset of every rune of text (invalid bytes are one rune
// each, as bufio.ReadRune delivers them) plus len(text).
func runeOffsets(text string) []int {
	offs := make([]int, 0, len(text)+1)
	for i := 0; i < len(text); {
		offs = append(offs, i)
		_, w := utf8.DecodeRuneInString(text[i:])
		i += w
	}
	return append(offs, len(text))
}

// meter measures how much source text the scanner has consumed, net of push-back, from
// the reader hook events.  It is a measuring instrument: it does not look at positions.
type meter struct {
	text   string
	sr     *strings.Reader
	br     *bufio.Reader
	lastC  int
	w      [3]int // source widths (bytes) of the last three raw reads, newest first
	n      int    // runes currently pushed back
	maxn   int
	steps  int
	ev     []interface{}
	budget int // panic with budgetExceeded when steps exceeds it (0 = unlimited)
	keepEv bool
	tsteps int // token-ring events
	tn     int // token ring: pushed-back tokens after the last event
	tmaxn  int
	tbad   bool // token ring discipline broken (more pushed back than ever scanned / > 3)
	tfill  int
}

type budgetExceeded struct{}

func newMeter(text string) *meter {
	m := &meter{text: text}
	m.sr = strings.NewReader(text)
	m.br = bufio.NewReaderSize(m.sr, 4096)
	return m
}

func (m *meter) rawConsumed() int { return len(m.text) - m.sr.Len() - m.br.Buffered() }

// net source bytes consumed, not counting pushed-back runes
func (m *meter) consumed() int {
	c := m.lastC
	for k := 0; k < m.n && k < 3; k++ {
		c -= m.w[k]
	}
	return c
}

func (m *meter) hook(kind string, a, b int, ch rune) {
	switch kind {
	case "rd":
		c := m.rawConsumed()
		m.w[2], m.w[1], m.w[0] = m.w[1], m.w[0], c-m.lastC
		m.lastC = c
		m.n = a
		m.steps++
		if m.keepEv {
			m.ev = append(m.ev, 8+a)
		}
	case "re":
		m.n = a
		m.steps++
		if m.keepEv {
			m.ev = append(m.ev, 16+a)
		}
	case "un":
		m.n = a
		if a > m.maxn {
			m.maxn = a
		}
		m.steps++
		if m.keepEv {
			m.ev = append(m.ev, 24+a)
		}
	case "ts":
		// a fresh token was scanned: nothing may be pushed back at that moment
		if m.tn != 0 {
			m.tbad = true
		}
		if m.tfill < 3 {
			m.tfill++
		}
		m.tn = 0
		m.tsteps++
		if m.keepEv {
			m.ev = append(m.ev, 32+a)
		}
	case "tb":
		// re-delivery: a = n after the decrement, so n before was a+1 (= previous n + unscans)
		if a+1 > m.tmaxn {
			m.tmaxn = a + 1
		}
		if a+1 > m.tfill || a+1 > 3 {
			m.tbad = true
		}
		m.tn = a
		m.tsteps++
		if m.keepEv {
			m.ev = append(m.ev, 40+a)
		}
	}
	if m.budget > 0 && m.steps+m.tsteps > m.budget {
		panic(budgetExceeded{})
	}
}

// c05Lex scans text with the real Scanner until EOF (or a token cap) and records, per
// token: kind, reported position, literal and measured source extent (in runes).
func c05Lex(text string, keepEv bool) M {
	m := newMeter(text)
	m.keepEv = keepEv
	m.budget = 64*len(text) + 4096
	offs := runeOffsets(text)
	byteToRune := map[int]int{}
	for i, o := range offs {
		byteToRune[o] = i
	}
	ri := func(b int) int {
		if r, ok := byteToRune[b]; ok {
			return r
		}
		return -1
	}
	o := M{"nrunes": len(offs) - 1}
	influxql.VerifTrace = m.hook
	defer func() { influxql.VerifTrace = nil }()
	var toks []interface{}
	p := guard(func() {
		defer func() {
			if r := recover(); r != nil {
				if _, ok := r.(budgetExceeded); ok {
					o["budget"] = true
					return
				}
				panic(r)
			}
		}()
		s := influxql.NewScanner(m.br)
		start := 0
		limit := len(offs) + 2
		for k := 0; k < limit; k++ {
			tok, pos, lit := s.Scan()
			end := m.consumed()
			toks = append(toks, M{"tok": tokName(tok), "line": pos.Line, "char": pos.Char, "lit": lit,
				"s": ri(start), "e": ri(end)})
			start = end
			if tok == influxql.EOF {
				break
			}
		}
		// EOF must be sticky: two more scans
		var after []interface{}
		for k := 0; k < 2; k++ {
			tok, pos, _ := s.Scan()
			after = append(after, M{"tok": tokName(tok), "line": pos.Line, "char": pos.Char, "e": ri(m.consumed())})
		}
		o["after"] = after
	})
	if p != "" {
		o["panic"] = p
	}
	if toks == nil {
		toks = []interface{}{}
	}
	o["toks"] = toks
	o["steps"] = m.steps
	o["maxn"] = m.maxn
	if keepEv {
		if m.ev == nil {
			m.ev = []interface{}{}
		}
		o["ev"] = m.ev
	}
	return o
}

// c05Padded: a short input with one letter marked {PAD} (spec/c05/Gen_c05b.tla).  The short input (pad = "a") is scanned
// and recorded like any other input; for every pad length k the input with a run of k letters in place of the marked one
// is scanned as well and recorded compactly (kinds, positions, extents, literal lengths).  Nothing is compared here.
func c05Padded(c M, pads []interface{}) M {
	in := list(c["inp"])
	build := func(pad string) string {
		var b strings.Builder
		for _, x := range in {
			switch str(x) {
			case "{PAD}":
				b.WriteString(pad)
			case "{EUR}":
				b.WriteString("€")
			default:
				b.WriteString(str(x))
			}
		}
		return b.String()
	}
	short := build("a")
	o := c05Lex(short, false)
	c["inp"] = runeStrings(short)
	compact := func(x M) M {
		out := M{}
		ts := []interface{}{}
		for _, t := range list(x["toks"]) {
			tm := obj(t)
			ts = append(ts, M{"tok": tm["tok"], "line": tm["line"], "char": tm["char"], "s": tm["s"], "e": tm["e"],
				"n": utf8.RuneCountInString(str(tm["lit"]))})
		}
		out["toks"] = ts
		if a, ok := x["after"]; ok {
			out["after"] = a
		}
		for _, k := range []string{"panic", "budget"} {
			if v, ok := x[k]; ok {
				out[k] = v
			}
		}
		out["maxn"] = x["maxn"]
		return out
	}
	longs := []interface{}{}
	letters := "abcdefghijklmnopqrstuvwxyz"
	for _, p := range pads {
		k := num(p)
		if k < 1 {
			continue
		}
		var b strings.Builder
		for i := 0; i < k; i++ {
			b.WriteByte(letters[i%26])
		}
		l := compact(c05Lex(build(b.String()), false))
		l["k"] = k
		longs = append(longs, l)
	}
	o["longs"] = longs
	return o
}

// runeStrings splits text into 1-rune strings the way bufio.ReadRune delivers them
// (every invalid byte is one U+FFFD).
func runeStrings(text string) []interface{} {
	out := []interface{}{}
	for i := 0; i < len(text); {
		r, w := utf8.DecodeRuneInString(text[i:])
		out = append(out, string(r))
		i += w
	}
	return out
}

var c05Snippets = []string{
	"a", "select", "FROM", "Where", "_x1", "as", "true", "AND", "or", "\"q w\"", "\"a\\\"b\"", "\"un",
	"1", "42", "3.14", ".5", "5.", "10s", "1h30m", "7µ", "1e5", "9223372036854775808",
	"'str'", "'a\\'b'", "'multi\\nline'", "'bad\\q'", "'unterminated", "''",
	"-- line comment", "/* block */", "/* multi\nline */", "/* open",
	"+", "-", "*", "/", "%", "&", "|", "^", "=", "!=", "<>", "=~", "!~", "<", "<=", ">", ">=", "!",
	"(", ")", ",", ";", ":", "::", ".", "..", "$p", "$", "$ ", "#", "é", "日本", "\x00x",
	" ", "  ", "\t", "\n", "\r", "\r\n", "\n\n", " \r\n\t",
}

func init() {
	register("c05", &Suite{Serial: true, Run: func(c M) M {
		if pads := list(c["pads"]); pads != nil {
			return c05Padded(c, pads)
		}
		text := caseInput(c)
		if list(c["inp"]) == nil {
			c["inp"] = runeStrings(text)
			delete(c, "bytes")
		}
		return c05Lex(text, false)
	}})
	// seeded random multi-line texts built from token spellings: vdrive c05 - obs N minLen maxLen
	suites["c05"].Gen = func(args []string, emit func(M)) {
		if len(args) < 3 {
			return
		}
		n, lo, hi := atoi(args[0]), atoi(args[1]), atoi(args[2])
		rng := rand.New(rand.NewSource(seed()*7919 + 5))
		for k := 0; k < n; k++ {
			want := lo + rng.Intn(hi-lo+1)
			var b strings.Builder
			cnt := 0
			for cnt < want {
				sn := c05Snippets[rng.Intn(len(c05Snippets))]
				if strings.ContainsRune(sn, 0) {
					continue // NUL is the reader's EOF marker: outside C05's domain
				}
				b.WriteString(sn)
				cnt += utf8.RuneCountInString(sn)
				if rng.Intn(3) == 0 {
					b.WriteByte(' ')
					cnt++
				}
			}
			emit(M{"inp": runeStrings(b.String()), "rand": true})
		}
	}
}

func atoi(s string) int {
	n := 0
	for _, r := range s {
		if r >= '0' && r <= '9' {
			n = n*10 + int(r-'0')
		}
	}
	return n
}

// c05err: a statement text is scanned by the real Scanner (tokens with measured extents)
// and parsed by ParseQuery; when the parse fails with a *ParseError its position, Found
// text and message are recorded next to the tokens.  The judge decides whether the quoted
// position is the line/column of the first character of the token the error names.
func init() {
	register("c05err", &Suite{Serial: true, Run: func(c M) M {
		text := caseInput(c)
		delete(c, "toks")
		if list(c["inp"]) == nil {
			c["inp"] = runeStrings(text)
			delete(c, "bytes")
		}
		o := c05Lex(text, false)
		var err error
		if p := guard(func() { _, err = influxql.ParseQuery(text) }); p != "" {
			o["parse_panic"] = p
			return o
		}
		if err == nil {
			o["parsed"] = true
			return o
		}
		o["parsed"] = false
		if pe, ok := err.(*influxql.ParseError); ok {
			e := M{"line": pe.Pos.Line, "char": pe.Pos.Char, "found": pe.Found, "msg": pe.Message, "hasfound": pe.Message == ""}
			o["perr"] = e
		} else {
			o["otherr"] = errStr(err)
		}
		return o
	}})
}
