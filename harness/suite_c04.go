package main

import (
	"encoding/json"
	"math/rand"
	"reflect"
	"strings"

	"github.com/influxdata/influxql"
)

// c04Bindings: parameter maps by name (DESIGN.md C04 (4)); the placeholder is always $p.
func c04Binding(name string) (map[string]interface{}, bool) {
	switch name {
	case "", "none":
		return nil, false
	case "empty":
		return map[string]interface{}{}, true
	case "str":
		return map[string]interface{}{"p": "hello"}, true
	case "str_kw":
		return map[string]interface{}{"p": "select"}, true
	case "str_inject":
		return map[string]interface{}{"p": "'; DROP DATABASE x; --"}, true
	case "float":
		return map[string]interface{}{"p": 1.5}, true
	case "float_huge":
		return map[string]interface{}{"p": 1e300}, true
	case "int":
		return map[string]interface{}{"p": int64(7)}, true
	case "int_min":
		return map[string]interface{}{"p": int64(-9223372036854775808)}, true
	case "bool_t":
		return map[string]interface{}{"p": true}, true
	case "bool_f":
		return map[string]interface{}{"p": false}, true
	case "dur_str":
		return map[string]interface{}{"p": map[string]interface{}{"duration": "10s"}}, true
	case "dur_bad":
		return map[string]interface{}{"p": map[string]interface{}{"duration": "xx"}}, true
	case "dur_cut_micro": // a micro sign cut in half: the lone byte 0xC2 ends the text
		return map[string]interface{}{"p": map[string]interface{}{"duration": "5\xc2"}}, true
	case "dur_micro_only":
		return map[string]interface{}{"p": map[string]interface{}{"duration": "µ"}}, true
	case "dur_digits_last":
		return map[string]interface{}{"p": map[string]interface{}{"duration": "1h5"}}, true
	case "dur_ff":
		return map[string]interface{}{"p": map[string]interface{}{"duration": "1\xffs"}}, true
	case "str_badutf8":
		return map[string]interface{}{"p": "a\xc2"}, true
	case "regex_badutf8":
		return map[string]interface{}{"p": map[string]interface{}{"regex": "a\xc2"}}, true
	case "ident_badutf8":
		return map[string]interface{}{"p": map[string]interface{}{"ident": "\xe2\x82"}}, true
	case "dur_overflow":
		return map[string]interface{}{"p": map[string]interface{}{"duration": "99999999999999999999w"}}, true
	case "dur_int":
		return map[string]interface{}{"p": map[string]interface{}{"duration": int64(1500000000)}}, true
	case "regex":
		return map[string]interface{}{"p": map[string]interface{}{"regex": "a.*"}}, true
	case "regex_bad":
		return map[string]interface{}{"p": map[string]interface{}{"regex": "("}}, true
	case "ident":
		return map[string]interface{}{"p": map[string]interface{}{"identifier": "x y"}}, true
	case "ident_kw":
		return map[string]interface{}{"p": map[string]interface{}{"ident": "from"}}, true
	case "ident_empty":
		return map[string]interface{}{"p": map[string]interface{}{"ident": ""}}, true
	case "obj_string":
		return map[string]interface{}{"p": map[string]interface{}{"string": "s"}}, true
	case "obj_float_int":
		return map[string]interface{}{"p": map[string]interface{}{"float": int64(3)}}, true
	case "obj_int":
		return map[string]interface{}{"p": map[string]interface{}{"integer": int64(3)}}, true
	case "obj_int_wrongtype":
		return map[string]interface{}{"p": map[string]interface{}{"integer": "3"}}, true
	case "json_int":
		return map[string]interface{}{"p": json.Number("42")}, true
	case "json_float":
		return map[string]interface{}{"p": json.Number("4.5")}, true
	case "json_bad":
		return map[string]interface{}{"p": json.Number("1e999999.5")}, true
	case "json_bigint":
		return map[string]interface{}{"p": json.Number("99999999999999999999")}, true
	case "obj_two":
		return map[string]interface{}{"p": map[string]interface{}{"string": "s", "regex": "r"}}, true
	case "obj_unknown":
		return map[string]interface{}{"p": map[string]interface{}{"wat": "s"}}, true
	case "unbindable":
		return map[string]interface{}{"p": []int{1}}, true
	case "nil":
		return map[string]interface{}{"p": nil}, true
	case "other_name":
		return map[string]interface{}{"q": "x"}, true
	}
	return nil, false
}

// c04Family builds the text of a scalable input family at size n (rendering only).
func c04Family(name string, n int) string {
	rep := strings.Repeat
	switch name {
	case "paren":
		return "SELECT " + rep("(", n) + "x" + rep(")", n) + " FROM m"
	case "paren_where":
		return "SELECT x FROM m WHERE " + rep("(", n) + "a = 1" + rep(")", n)
	case "call":
		return "SELECT " + rep("f(", n) + "x" + rep(")", n) + " FROM m"
	case "fill_paren": // the parser itself prints the fill argument (parseFill)
		return "SELECT mean(x) FROM m GROUP BY time(1m) fill(" + rep("(", n) + "0" + rep(")", n) + ")"
	case "time_paren": // ... and inspects the time() dimension of a continuous query
		return "CREATE CONTINUOUS QUERY q ON d BEGIN SELECT mean(x) INTO t FROM m GROUP BY time(" + rep("(", n) + "1m" + rep(")", n) + ") END"
	case "arg_paren":
		return "SELECT percentile(x, " + rep("(", n) + "90" + rep(")", n) + ") FROM m GROUP BY time(1m, " + rep("(", n) + "1s" + rep(")", n) + ")"
	case "subquery":
		return rep("SELECT x FROM (", n) + "SELECT x FROM m" + rep(")", n)
	case "neg":
		return "SELECT " + rep("-(", n) + "x" + rep(")", n) + " FROM m"
	case "fields":
		return "SELECT x" + rep(", x", n) + " FROM m"
	case "sources":
		return "SELECT x FROM m" + rep(", m", n)
	case "and_chain":
		return "SELECT x FROM m WHERE a = 1" + rep(" AND a = 1", n)
	case "or_and_chain":
		return "SELECT x FROM m WHERE a = 1" + rep(" OR a = 1 AND b > 2 + 3 * 4", n)
	case "arith_chain":
		return "SELECT x" + rep(" + x * 2", n) + " FROM m"
	case "ws_run":
		return "SELECT" + rep(" \t\n", n) + "x FROM m"
	case "comment_run":
		return "SELECT " + rep("/* c */ ", n) + "x FROM m"
	case "line_comment_run":
		return "SELECT " + rep("-- c\n", n) + "x FROM m"
	case "long_comment":
		return "SELECT /*" + rep("c*", n) + "*/ x FROM m"
	case "long_ident":
		return "SELECT " + rep("x", n) + " FROM m"
	case "long_quoted_ident":
		return "SELECT \"" + rep("x\\\"", n) + "\" FROM m"
	case "long_string":
		return "SELECT x FROM m WHERE a = '" + rep("s\\'", n) + "'"
	case "long_number":
		return "SELECT x FROM m WHERE a = " + rep("1", n)
	case "long_duration":
		return "SELECT x FROM m WHERE time > now() - " + rep("1s", n)
	case "long_regex":
		return "SELECT x FROM m WHERE a =~ /" + rep("a\\/", n) + "/"
	case "statements":
		return rep("SELECT x FROM m;", n)
	case "semicolons":
		return rep(";", n) + "SELECT x FROM m"
	case "dims":
		return "SELECT mean(x) FROM m GROUP BY time(1m)" + rep(", h", n)
	case "segments":
		return "SELECT a" + rep(".a", n) + " FROM m"
	case "taglist":
		return "SHOW TAG VALUES WITH KEY IN (a" + rep(", a", n) + ")"
	case "destinations":
		return "CREATE SUBSCRIPTION s ON d.r DESTINATIONS ALL 'x'" + rep(", 'x'", n)
	case "unterminated_string":
		return "SELECT x FROM m WHERE a = '" + rep("s", n)
	case "unterminated_comment":
		return "SELECT x /*" + rep("c", n)
	case "open_parens":
		return "SELECT " + rep("(", n)
	case "dollars":
		return "SELECT " + rep("$", n) + " FROM m"
	case "bad_bytes":
		return "SELECT " + rep("\xff", n) + " FROM m"
	case "into_dots_colon": // a target name with n dots before :MEASUREMENT (three segments are the limit)
		return "SELECT v INTO a" + rep(".", n) + ":MEASUREMENT FROM m"
	case "into_dots_regex":
		return "SELECT v INTO a.b" + rep(".", n) + "/x/ FROM m"
	case "from_dots_regex":
		return "SELECT v FROM a" + rep(".", n) + "/x/"
	case "now_calls": // many calls without arguments in one statement (nothing is nested)
		return "SELECT v FROM m WHERE time > now()" + rep(" AND time > now()", n)
	case "empty_calls_query": // ... and across the statements of one query
		return rep("SELECT v FROM m WHERE time > now(); ", n) + "SHOW DATABASES"
	}
	return ""
}

// c04Outcome parses text through one entry point under the step budget and records the
// outcome shape and, for a result, whether it can be printed, walked and cloned.
func c04Outcome(entry, text string, params map[string]interface{}, setParams bool, budgetMul int, postOps bool) M {
	m := newMeter("")
	m.budget = budgetMul*len(text) + 4096
	o := M{}
	influxql.VerifTrace = m.hook
	defer func() { influxql.VerifTrace = nil }()
	var node influxql.Node
	var err error
	budget := false
	p := guard(func() {
		defer func() {
			if r := recover(); r != nil {
				if _, ok := r.(budgetExceeded); ok {
					budget = true
					return
				}
				panic(r)
			}
		}()
		// the package-level helpers that take the text as a string are entry points of their own
		switch entry {
		case "query_s":
			var q *influxql.Query
			q, err = influxql.ParseQuery(text)
			if q != nil {
				node = q
			}
			return
		case "stmt_s":
			var s influxql.Statement
			s, err = influxql.ParseStatement(text)
			if s != nil && !isNilPtr(s) {
				node = s
			}
			return
		case "expr_s":
			var e influxql.Expr
			e, err = influxql.ParseExpr(text)
			if e != nil && !isNilPtr(e) {
				node = e
			}
			return
		}
		ps := influxql.NewParser(strings.NewReader(text))
		if setParams {
			ps.SetParams(params)
		}
		switch entry {
		case "query":
			var q *influxql.Query
			q, err = ps.ParseQuery()
			if q != nil {
				node = q
			}
		case "stmt":
			var s influxql.Statement
			s, err = ps.ParseStatement()
			if s != nil && !isNilPtr(s) { // a typed nil pointer in the interface is "no result"
				node = s
			}
		case "expr":
			var e influxql.Expr
			e, err = ps.ParseExpr()
			if e != nil && !isNilPtr(e) {
				node = e
			}
		}
	})
	influxql.VerifTrace = nil
	o["steps"] = m.steps + m.tsteps
	o["maxn"] = m.maxn
	o["tmaxn"] = m.tmaxn
	if m.tbad {
		o["tbad"] = true
	}
	switch {
	case budget:
		o["out"] = "budget"
	case p != "":
		o["out"] = "panic"
		o["msg"] = p
	case err != nil && node != nil:
		o["out"] = "both"
		o["msg"] = errStr(err)
	case err != nil:
		o["out"] = "err"
		o["msg"] = errStr(err)
	case node == nil:
		o["out"] = "neither"
	default:
		o["out"] = "ok"
		if !postOps {
			// growth records measure parsing only: String() of a left-deep chain of n operators
			// copies O(n^2) bytes, which is outside C04's "time proportional to the input" claim
			o["post"] = "ok"
			break
		}
		// a returned result can be printed and traversed (and cloned) without panicking
		post := "ok"
		if pp := guard(func() { _ = node.String() }); pp != "" {
			post = "String: " + pp
		} else if pp := guard(func() { influxql.WalkFunc(node, func(influxql.Node) {}) }); pp != "" {
			post = "Walk: " + pp
		} else if pp := guard(func() {
			switch x := node.(type) {
			case *influxql.SelectStatement:
				_ = x.Clone()
			case influxql.Expr:
				_ = influxql.CloneExpr(x)
			}
		}); pp != "" {
			post = "Clone: " + pp
		}
		o["post"] = post
	}
	return o
}

// c04Reuse: ONE parser is driven to the end of its input with ParseQuery and then asked again - ParseQuery,
// ParseStatement, ParseExpr - and a second parser is created and used in between.  Every call must return (a
// result or an error); what it returns is not recorded, only whether it panicked.
func c04Reuse(text string, params map[string]interface{}, setParams bool) M {
	o := M{"out": "ok", "post": "ok", "steps": 0, "maxn": 0, "tmaxn": 0}
	p := guard(func() {
		ps := influxql.NewParser(strings.NewReader(text))
		if setParams {
			ps.SetParams(params)
		}
		ps.ParseQuery()
		ps.ParseQuery()
		other := influxql.NewParser(strings.NewReader("SELECT v FROM m; SHOW DATABASES"))
		other.ParseStatement()
		ps.ParseStatement()
		ps.ParseExpr()
		other.ParseQuery()
		other.ParseQuery()
	})
	if p != "" {
		o["out"] = "panic"
		o["msg"] = p
	}
	return o
}

func init() {
	register("c04", &Suite{Serial: true, Run: func(c M) M {
		o := M{}
		if fam := str(c["family"]); fam != "" {
			// growth record: the same family at size L and 2L
			l := num(c["size"])
			ent := str(c["entry"])
			if ent == "" {
				ent = "query"
			}
			t1, t2 := c04Family(fam, l), c04Family(fam, 2*l)
			if t1 == "" {
				return M{"unknown_family": true}
			}
			o["len1"], o["len2"] = len(t1), len(t2)
			o["r1"] = c04Outcome(ent, t1, nil, false, 256, false)
			o["r2"] = c04Outcome(ent, t2, nil, false, 256, false)
			return o
		}
		text := caseInput(c)
		delete(c, "toks")
		if len(text) <= 200 {
			o["text"] = text
		}
		params, set := c04Binding(str(c["bind"]))
		for _, ent := range []string{"query", "stmt", "expr"} {
			o[ent] = c04Outcome(ent, text, params, set, 64, true)
		}
		o["reuse"] = c04Reuse(text, params, set)
		if !set {
			for _, ent := range []string{"query_s", "stmt_s", "expr_s"} {
				o[ent] = c04Outcome(ent, text, nil, false, 64, false)
			}
		}
		return o
	}})
	// seeded random byte strings (incl. invalid UTF-8): vdrive c04 - obs N maxLen
	suites["c04"].Gen = func(args []string, emit func(M)) {
		if len(args) < 2 {
			return
		}
		n, maxLen := atoi(args[0]), atoi(args[1])
		rng := rand.New(rand.NewSource(seed()*104729 + 11))
		frag := []string{"SELECT ", " FROM ", " WHERE ", "GROUP BY ", "time(", "'", "\"", "/", "\\", "$", "(", ")", ",", ";", ".", "::",
			"=~", "!~", "--", "/*", "*/", "\xff", "\xc3", "\xe2\x82", "\x00", "\r", "\n", "1", "9223372036854775808", "1h", "a", "*", "-", "+", "µ", " "}
		binds := []string{"none", "none", "str", "regex", "ident", "dur_str", "int", "float", "regex_bad", "unbindable"}
		for k := 0; k < n; k++ {
			var b []byte
			want := 1 + rng.Intn(maxLen)
			for len(b) < want {
				if rng.Intn(3) == 0 {
					b = append(b, byte(rng.Intn(256)))
				} else {
					b = append(b, frag[rng.Intn(len(frag))]...)
				}
			}
			bs := make([]interface{}, len(b))
			for i, x := range b {
				bs[i] = int(x)
			}
			emit(M{"part": "bytes", "bytes": bs, "bind": binds[rng.Intn(len(binds))]})
		}
	}
}

func isNilPtr(v interface{}) bool {
	rv := reflect.ValueOf(v)
	return rv.Kind() == reflect.Ptr && rv.IsNil()
}
