package main

import (
	"fmt"
	"strings"

	"github.com/influxdata/influxql"
)

// c03Spine walks the left spine of a tree from the root down and reports it run-length encoded: for every maximal run
// of BinaryExpr nodes with the same operator and the same KIND of right operand one record; plus the number of operator
// nodes on the spine and the kind of the leftmost leaf.  (A chain of thousands of operands cannot travel as a nested tree.)
func c03Spine(e influxql.Expr) M {
	kind := func(x influxql.Expr) string { return strings.TrimPrefix(fmt.Sprintf("%T", x), "*influxql.") }
	runs := []interface{}{}
	ops := 0
	var cur M
	for {
		b, ok := e.(*influxql.BinaryExpr)
		if !ok {
			break
		}
		ops++
		k, op := kind(b.RHS), b.Op.String()
		if cur != nil && cur["k"] == k && cur["op"] == op {
			cur["n"] = cur["n"].(int) + 1
		} else {
			cur = M{"k": k, "op": op, "n": 1}
			runs = append(runs, cur)
		}
		e = b.LHS
	}
	return M{"runs": runs, "ops": ops, "left": kind(e)}
}

func c03Uniform(c M) M {
	n, op, operand, tail := num(c["n"]), str(c["op"]), str(c["operand"]), str(c["tail"])
	var b strings.Builder
	for i := 0; i < n; i++ {
		if i > 0 {
			b.WriteString(" " + op + " ")
		}
		b.WriteString(operand)
	}
	if tail != "" {
		b.WriteString(" " + op + " " + tail)
	}
	text := b.String()
	o := M{"len": len(text)}
	var e influxql.Expr
	var err error
	if p := guard(func() { e, err = influxql.NewParser(strings.NewReader(text)).ParseExpr() }); p != "" {
		o["panic"] = p
		return o
	}
	if err != nil {
		o["err"] = errStr(err)
		return o
	}
	o["spine"] = c03Spine(e)
	var s string
	if p := guard(func() { s = e.String() }); p != "" {
		o["panic"] = p
		return o
	}
	var e2 influxql.Expr
	if p := guard(func() { e2, err = influxql.ParseExpr(s) }); p != "" {
		o["panic"] = p
		return o
	}
	if err != nil {
		o["rerr"] = errStr(err)
		return o
	}
	o["respine"] = c03Spine(e2)
	return o
}

// c03: parse an operator chain with ParseExpr, print it, parse the print again.
func init() {
	register("c03", &Suite{Run: func(c M) M {
		if u, _ := c["uniform"].(bool); u {
			return c03Uniform(c)
		}
		text := caseText(c)
		o := M{"text": text}
		delete(c, "toks")
		var e influxql.Expr
		var err error
		if p := guard(func() { e, err = influxql.ParseExpr(text) }); p != "" {
			o["panic"] = p
			return o
		}
		if err != nil {
			o["err"] = errStr(err)
			return o
		}
		o["tree"] = project(e)
		var s string
		if p := guard(func() { s = e.String() }); p != "" {
			o["panic"] = p
			return o
		}
		o["str"] = s
		var e2 influxql.Expr
		if p := guard(func() { e2, err = influxql.ParseExpr(s) }); p != "" {
			o["panic"] = p
			return o
		}
		if err != nil {
			o["rerr"] = errStr(err)
			return o
		}
		o["reparse"] = project(e2)
		return o
	}})
}
