package main

import (
	"github.com/influxdata/influxql"
)

// c03: parse an operator chain with ParseExpr, print it, parse the print again.
func init() {
	register("c03", &Suite{Run: func(c M) M {
		text := caseText(c)
		o := M{"text": text}
		delete(c, "toks")
		var e influxql.Expr
		var err error
		if p := guard(func() { e, err = influxql.ParseExpr(text) }); p != "" {
			o["panic"] = p
			return o
		}
		if err != nil {
			o["err"] = errStr(err)
			return o
		}
		o["tree"] = project(e)
		var s string
		if p := guard(func() { s = e.String() }); p != "" {
			o["panic"] = p
			return o
		}
		o["str"] = s
		var e2 influxql.Expr
		if p := guard(func() { e2, err = influxql.ParseExpr(s) }); p != "" {
			o["panic"] = p
			return o
		}
		if err != nil {
			o["rerr"] = errStr(err)
			return o
		}
		o["reparse"] = project(e2)
		return o
	}})
}
