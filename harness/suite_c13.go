package main

import (
	"os"
	"time"

	"github.com/influxdata/influxql"
)

// c13: run every public operation on a fresh parse of an accepted statement under
// recover and record whether it returned or panicked.  Nothing is compared here.

type c13Mapper struct {
	fields map[string]influxql.DataType
	tags   []string
	// nilUnknown: a measurement called "nosuch" and regex sources have no schema at all (nil maps),
	// as a mapper over real shards answers for a name it does not know
	nilUnknown bool
}

func (m *c13Mapper) FieldDimensions(mm *influxql.Measurement) (map[string]influxql.DataType, map[string]struct{}, error) {
	if m.nilUnknown && mm != nil && (mm.Name == "nosuch" || mm.Regex != nil) {
		return nil, nil, nil
	}
	f := map[string]influxql.DataType{}
	for k, v := range m.fields {
		f[k] = v
	}
	d := map[string]struct{}{}
	for _, t := range m.tags {
		d[t] = struct{}{}
	}
	return f, d, nil
}

func (m *c13Mapper) MapType(_ *influxql.Measurement, field string) influxql.DataType {
	if t, ok := m.fields[field]; ok {
		return t
	}
	for _, t := range m.tags {
		if t == field {
			return influxql.Tag
		}
	}
	return influxql.Unknown
}

var c13Now = time.Date(2020, 1, 2, 3, 4, 5, 6, time.UTC)

func c13Schemas() []*c13Mapper {
	return []*c13Mapper{
		{fields: map[string]influxql.DataType{}, tags: nil},
		{fields: map[string]influxql.DataType{"v": influxql.Float, "w": influxql.Integer, "s": influxql.String, "b": influxql.Boolean, "u": influxql.Unsigned},
			tags: []string{"h", "r"}},
		{fields: map[string]influxql.DataType{"v": influxql.Float, "w": influxql.Integer, "s": influxql.String}, tags: []string{"h"}, nilUnknown: true},
	}
}

// c13SelectOps lists the operations on a SELECT statement; each gets its own fresh parse.
func c13SelectOps() []struct {
	name string
	run  func(s *influxql.SelectStatement)
} {
	nowV := &influxql.NowValuer{Now: c13Now}
	mapV := influxql.MapValuer{"v": float64(1.5), "w": int64(3), "h": "a", "u": uint64(7), "b": true, "s": "x"}
	schemas := c13Schemas()
	type op = struct {
		name string
		run  func(s *influxql.SelectStatement)
	}
	ops := []op{
		{"String", func(s *influxql.SelectStatement) { _ = s.String() }},
		{"Clone", func(s *influxql.SelectStatement) { _ = s.Clone().String() }},
		{"Walk", func(s *influxql.SelectStatement) { influxql.WalkFunc(s, func(influxql.Node) {}) }},
		{"Rewrite", func(s *influxql.SelectStatement) {
			influxql.RewriteFunc(s, func(n influxql.Node) influxql.Node { return n })
		}},
		{"RewriteRegexConditions", func(s *influxql.SelectStatement) { s.RewriteRegexConditions(); _ = s.String() }},
		{"RewriteDistinct", func(s *influxql.SelectStatement) { s.RewriteDistinct(); _ = s.String() }},
		{"RewriteTimeFields", func(s *influxql.SelectStatement) { s.RewriteTimeFields(); _ = s.String() }},
		{"RewriteFields/empty", func(s *influxql.SelectStatement) {
			if r, err := s.RewriteFields(schemas[0]); err == nil {
				_ = r.String()
			}
		}},
		{"RewriteFields/schema", func(s *influxql.SelectStatement) {
			if r, err := s.RewriteFields(schemas[1]); err == nil {
				_ = r.String()
				_ = r.ColumnNames()
			}
		}},
		{"RewriteFields/nilmaps", func(s *influxql.SelectStatement) {
			if r, err := s.RewriteFields(schemas[2]); err == nil {
				_ = r.String()
			}
			_, _, _ = influxql.FieldDimensions(s.Sources, schemas[2])
			_, _, _ = influxql.FieldDimensions(s.Sources, schemas[1])
		}},
		{"Reduce/now", func(s *influxql.SelectStatement) { _ = s.Reduce(nowV).String() }},
		{"Reduce/nil", func(s *influxql.SelectStatement) { _ = s.Reduce(nil).String() }},
		{"Reduce/map", func(s *influxql.SelectStatement) { _ = s.Reduce(mapV).String() }},
		{"ReduceFields", func(s *influxql.SelectStatement) {
			for _, f := range s.Fields {
				if e := influxql.Reduce(f.Expr, nowV); e != nil {
					_ = e.String()
				}
				if e := influxql.Reduce(f.Expr, mapV); e != nil {
					_ = e.String()
				}
			}
		}},
		{"ConditionExpr", func(s *influxql.SelectStatement) {
			if e, _, err := influxql.ConditionExpr(s.Condition, nowV); err == nil && e != nil {
				_ = e.String()
			}
		}},
		{"ConditionExpr/nil", func(s *influxql.SelectStatement) { _, _, _ = influxql.ConditionExpr(s.Condition, nil) }},
		{"Eval", func(s *influxql.SelectStatement) {
			_ = influxql.Eval(s.Condition, map[string]interface{}(mapV))
			_ = influxql.EvalBool(s.Condition, map[string]interface{}(mapV))
			ev := influxql.ValuerEval{Valuer: influxql.MultiValuer(nowV, mapV), IntegerFloatDivision: true}
			_ = ev.Eval(s.Condition)
			for _, f := range s.Fields {
				_ = ev.Eval(f.Expr)
				_ = influxql.Eval(f.Expr, nil)
			}
			for _, d := range s.Dimensions {
				_ = ev.Eval(d.Expr)
			}
		}},
		{"EvalType", func(s *influxql.SelectStatement) {
			for _, f := range s.Fields {
				_ = influxql.EvalType(f.Expr, s.Sources, schemas[1])
				_ = influxql.EvalType(f.Expr, s.Sources, nil)
				tv := influxql.TypeValuerEval{TypeMapper: schemas[1], Sources: s.Sources}
				_, _ = tv.EvalType(f.Expr)
			}
			_ = influxql.EvalType(s.Condition, s.Sources, schemas[1])
		}},
		{"GroupByInterval", func(s *influxql.SelectStatement) { _, _ = s.GroupByInterval() }},
		{"GroupByOffset", func(s *influxql.SelectStatement) { _, _ = s.GroupByOffset() }},
		{"Dimensions.Normalize", func(s *influxql.SelectStatement) { _, _ = s.Dimensions.Normalize() }},
		{"ColumnNames", func(s *influxql.SelectStatement) { _ = s.ColumnNames() }},
		{"ColumnNames/omit", func(s *influxql.SelectStatement) { s.OmitTime = true; s.TimeAlias = "t"; _ = s.ColumnNames() }},
		{"FieldNames", func(s *influxql.SelectStatement) {
			_ = s.Fields.Names()
			_ = s.Fields.AliasNames()
			for _, f := range s.Fields {
				_ = f.Name()
				_, _ = s.FieldExprByName(f.Name())
			}
			_, _ = s.FieldExprByName("h")
		}},
		{"RequiredPrivileges", func(s *influxql.SelectStatement) { _, _ = s.RequiredPrivileges() }},
		{"Wildcards", func(s *influxql.SelectStatement) {
			_ = s.HasWildcard()
			_ = s.HasFieldWildcard()
			_ = s.HasDimensionWildcard()
			_ = s.TimeAscending()
			_ = s.TimeFieldName()
		}},
		{"ExprHelpers", func(s *influxql.SelectStatement) {
			_ = influxql.ExprNames(s.Condition)
			_ = influxql.HasTimeExpr(s.Condition)
			_ = influxql.ContainsVarRef(s.Condition)
			_ = influxql.ConjunctionsToExprSlice(s.Condition)
			for _, f := range s.Fields {
				_ = influxql.ExprNames(f.Expr)
				_ = influxql.IsSelector(f.Expr)
				_ = influxql.CloneExpr(f.Expr)
				_ = influxql.ContainsVarRef(f.Expr)
			}
			_ = influxql.CloneExpr(s.Condition)
			_ = s.Sources.Measurements()
			_ = s.Sources.String()
		}},
		{"SetTimeRange", func(s *influxql.SelectStatement) {
			if err := s.SetTimeRange(c13Now.Add(-time.Hour), c13Now); err == nil {
				_ = s.String()
				_, _, _ = influxql.ConditionExpr(s.Condition, nowV)
			}
		}},
		{"RewriteExpr", func(s *influxql.SelectStatement) {
			_ = influxql.RewriteExpr(influxql.CloneExpr(s.Condition), func(e influxql.Expr) influxql.Expr { return e })
		}},
		{"MarshalSources", func(s *influxql.SelectStatement) {
			allMeas := true
			for _, src := range s.Sources {
				if _, ok := src.(*influxql.Measurement); !ok {
					allMeas = false
				}
			}
			if allMeas { // MarshalBinary documents measurement-only sources
				if b, err := s.Sources.MarshalBinary(); err == nil {
					var out influxql.Sources
					_ = out.UnmarshalBinary(b)
				}
			}
		}},
	}
	return ops
}

func c13Observe(text string) M {
	o := M{"text": text}
	var st influxql.Statement
	var err error
	if p := guard(func() { st, err = influxql.ParseStatement(text) }); p != "" {
		o["parse_panic"] = p
		o["accepted"] = false
		return o
	}
	if err != nil || st == nil || isNilPtr(st) {
		o["accepted"] = false
		o["err"] = errStr(err)
		return o
	}
	o["accepted"] = true
	ops := []interface{}{}
	rec := func(name string, f func()) {
		out := "ok"
		if p := guard(f); p != "" {
			out = "panic"
			ops = append(ops, M{"op": name, "out": out, "msg": p})
			return
		}
		ops = append(ops, M{"op": name, "out": out})
	}
	fresh := func() influxql.Statement {
		s, _ := influxql.ParseStatement(text)
		return s
	}
	// operations every statement kind has
	rec("Statement.String", func() { _ = fresh().String() })
	rec("Statement.RequiredPrivileges", func() { _, _ = fresh().RequiredPrivileges() })
	rec("Statement.Walk", func() { influxql.WalkFunc(fresh(), func(influxql.Node) {}) })
	rec("Statement.Rewrite", func() { influxql.RewriteFunc(fresh(), func(n influxql.Node) influxql.Node { return n }) })
	rec("Statement.DefaultDatabase", func() {
		if d, ok := fresh().(influxql.HasDefaultDatabase); ok {
			_ = d.DefaultDatabase()
		}
	})
	sel := func(s influxql.Statement) *influxql.SelectStatement {
		switch x := s.(type) {
		case *influxql.SelectStatement:
			return x
		case *influxql.ExplainStatement:
			return x.Statement
		case *influxql.CreateContinuousQueryStatement:
			return x.Source
		}
		return nil
	}
	if sel(st) != nil {
		for _, op := range c13SelectOps() {
			op := op
			rec(op.name, func() { op.run(sel(fresh())) })
		}
		// two operations in sequence on the same object (memo first, in-place rewrites first)
		rec("seq:GroupByInterval;GroupByOffset;Clone", func() {
			s := sel(fresh())
			_, _ = s.GroupByInterval()
			_, _ = s.GroupByOffset()
			_ = s.Clone().String()
		})
		rec("seq:RewriteDistinct;RewriteRegex;RewriteFields;ColumnNames", func() {
			s := sel(fresh())
			s.RewriteDistinct()
			s.RewriteRegexConditions()
			if r, err := s.RewriteFields(c13Schemas()[1]); err == nil {
				_ = r.ColumnNames()
				_ = r.String()
			}
		})
		// the parts of a statement walked on their own (an absent INTO target is a nil *Target, an absent condition a nil Expr)
		rec("Walk/parts", func() {
			s := sel(fresh())
			f := func(influxql.Node) {}
			influxql.WalkFunc(s.Target, f)
			influxql.WalkFunc(s.Condition, f)
			influxql.WalkFunc(s.Fields, f)
			influxql.WalkFunc(s.Dimensions, f)
			influxql.WalkFunc(s.Sources, f)
			for _, x := range s.Fields {
				influxql.WalkFunc(x, f)
			}
			for _, x := range s.Sources {
				influxql.WalkFunc(x, f)
			}
			influxql.RewriteFunc(s.Target, func(n influxql.Node) influxql.Node { return n })
		})
		// a derived statement is rewritten in place, then the ORIGINAL is used again
		for _, d := range []struct {
			name string
			f    func(s *influxql.SelectStatement) *influxql.SelectStatement
		}{
			{"Reduce", func(s *influxql.SelectStatement) *influxql.SelectStatement { return s.Reduce(&influxql.NowValuer{Now: c13Now}) }},
			{"Clone", func(s *influxql.SelectStatement) *influxql.SelectStatement { return s.Clone() }},
			{"RewriteFields", func(s *influxql.SelectStatement) *influxql.SelectStatement {
				r, err := s.RewriteFields(c13Schemas()[1])
				if err != nil {
					return nil
				}
				return r
			}},
		} {
			d := d
			rec("seq:"+d.name+";in-place rewrites of the result;the original again", func() {
				s := sel(fresh())
				r := d.f(s)
				if r == nil {
					return
				}
				r.RewriteTimeFields()
				r.RewriteDistinct()
				r.RewriteRegexConditions()
				_ = r.String()
				_ = s.String()
				_ = s.ColumnNames()
				_ = s.Clone().String()
				influxql.WalkFunc(s, func(influxql.Node) {})
				_ = s.HasWildcard()
				_ = s.Fields.Names()
				_, _ = s.RequiredPrivileges()
			})
		}
		rec("seq:Reduce;ConditionExpr;Normalize", func() {
			s := sel(fresh()).Reduce(&influxql.NowValuer{Now: c13Now})
			_, _, _ = influxql.ConditionExpr(s.Condition, nil)
			_, _ = s.Dimensions.Normalize()
		})
		// closure: every operation again on the RESULT of every statement-producing operation (a reduced or
		// rewritten statement holds node kinds the parser never builds, e.g. a TimeLiteral as time() offset)
		if os.Getenv("VERIF_C13_CLOSURE") != "" {
			derive := []struct {
				name string
				f    func(s *influxql.SelectStatement) *influxql.SelectStatement
			}{
				{"Reduce/now", func(s *influxql.SelectStatement) *influxql.SelectStatement {
					return s.Reduce(&influxql.NowValuer{Now: c13Now})
				}},
				{"Reduce/map", func(s *influxql.SelectStatement) *influxql.SelectStatement {
					return s.Reduce(influxql.MapValuer{"v": float64(1.5), "w": int64(3), "h": "a", "u": uint64(7), "b": true, "s": "x"})
				}},
				{"RewriteFields/schema", func(s *influxql.SelectStatement) *influxql.SelectStatement {
					r, err := s.RewriteFields(c13Schemas()[1])
					if err != nil {
						return nil
					}
					return r
				}},
				{"InPlaceRewrites", func(s *influxql.SelectStatement) *influxql.SelectStatement {
					s.RewriteDistinct()
					s.RewriteRegexConditions()
					s.RewriteTimeFields()
					return s
				}},
				{"SetTimeRange", func(s *influxql.SelectStatement) *influxql.SelectStatement {
					if err := s.SetTimeRange(c13Now.Add(-time.Hour), c13Now); err != nil {
						return nil
					}
					return s
				}},
			}
			// ... also when the statement has been ASKED first (interval, offset, names: whatever an accessor
			// remembers must survive the derivation, or not be carried over)
			asked := func() *influxql.SelectStatement {
				s := sel(fresh())
				_, _ = s.GroupByInterval()
				_, _ = s.GroupByOffset()
				_ = s.ColumnNames()
				_ = s.String()
				return s
			}
			for _, d := range derive {
				d := d
				var ok bool
				if p := guard(func() { ok = d.f(sel(fresh())) != nil }); p != "" || !ok {
					continue // the derivation itself is judged by the first-level operations
				}
				for _, op := range c13SelectOps() {
					op := op
					rec("after:"+d.name+">"+op.name, func() { op.run(d.f(sel(fresh()))) })
				}
				if p := guard(func() { ok = d.f(asked()) != nil }); p != "" || !ok {
					if p != "" {
						ops = append(ops, M{"op": "asked>" + d.name, "out": "panic", "msg": p})
					}
					continue
				}
				for _, op := range c13SelectOps() {
					op := op
					rec("asked>"+d.name+">"+op.name, func() { op.run(d.f(asked())) })
				}
			}
		}
	}
	o["ops"] = ops
	return o
}

func init() {
	register("c13", &Suite{Run: func(c M) M {
		text := caseText(c)
		delete(c, "toks")
		delete(c, "want")
		return c13Observe(text)
	}})
}
