package main

import (
	"fmt"
	"regexp/syntax"
	"strings"

	"github.com/influxdata/influxql"
)

// c11: regex -> literal rewriting (SelectStatement.RewriteRegexConditions).
//
// A case (spec/c11/Gen_c11.tla) carries a regular-expression syntax tree "re" (records
// shaped like regexp/syntax.Regexp, see spec/c11/RegexLang.tla), the global flag prefix
// "pre", the operator "op" (=~ or !~), a condition template "tmpl" in which "@" stands for
// `<op> /<pattern>/`, the name "tag" of the variable under the regex, the values "dc" of
// the second variable to evaluate under, and the candidate strings "cands" (lists of code
// points).  The driver renders the pattern text from the tree, parses
// `SELECT v FROM m WHERE <cond>` with the real parser, evaluates the condition with the
// real ValuerEval on every candidate, calls RewriteRegexConditions, evaluates again, and
// logs: both truth vectors, Go's own MatchString per candidate, the simplified syntax tree
// of the pattern (what matchExactRegex reads), the number of regex operators before and
// after, and the string literals compared with the tag before and after.  Records only;
// nothing is compared here.

func init() {
	register("c11", &Suite{Run: c11Run})
}

type c11Amb struct{ i, m, s bool }

func c11HasFlag(n M, f string) bool {
	for _, x := range list(n["fl"]) {
		if str(x) == f {
			return true
		}
	}
	return false
}

func c11EscRune(b *strings.Builder, r rune, inClass bool) {
	switch {
	case r == '\n':
		b.WriteString(`\n`)
	case r >= '0' && r <= '9', r >= 'a' && r <= 'z', r >= 'A' && r <= 'Z', r == '_':
		b.WriteRune(r)
	case r == '/':
		b.WriteString(`\x{2f}`)
	case r > 32 && r < 127 && !inClass:
		b.WriteByte('\\')
		b.WriteRune(r)
	default:
		fmt.Fprintf(b, `\x{%x}`, r)
	}
}

// c11Flagged wraps s in a scoped flag group when the node needs a flag value that differs
// from the ambient one.
func c11Flagged(s string, flag string, want, have bool) string {
	if want == have {
		return s
	}
	if want {
		return "(?" + flag + ":" + s + ")"
	}
	return "(?-" + flag + ":" + s + ")"
}

func c11Render(n M, a c11Amb) string {
	op := str(n["op"])
	sub := list(n["sub"])
	var b strings.Builder
	switch op {
	case "Literal":
		for _, r := range list(n["rune"]) {
			c11EscRune(&b, rune(num(r)), false)
		}
		return c11Flagged(b.String(), "i", c11HasFlag(n, "FoldCase"), a.i)
	case "CharClass":
		rs := list(n["rune"])
		if wr := list(n["wr"]); len(wr) > 0 {
			rs = wr // the ranges as written; "rune" has case folding expanded
		}
		if len(rs) == 0 {
			// the empty class (matches nothing) has no direct spelling
			return c11Flagged(`[^\x00-\x{10FFFF}]`, "i", c11HasFlag(n, "FoldCase"), a.i)
		}
		b.WriteString("[")
		for k := 0; k+1 < len(rs); k += 2 {
			lo, hi := rune(num(rs[k])), rune(num(rs[k+1]))
			c11EscRune(&b, lo, true)
			if hi != lo {
				b.WriteString("-")
				c11EscRune(&b, hi, true)
			}
		}
		b.WriteString("]")
		return c11Flagged(b.String(), "i", c11HasFlag(n, "FoldCase"), a.i)
	case "AnyCharNotNL":
		return c11Flagged(".", "s", false, a.s)
	case "AnyChar":
		return c11Flagged(".", "s", true, a.s)
	case "BeginText":
		if str(n["sp"]) == "A" {
			return `\A`
		}
		return c11Flagged("^", "m", false, a.m)
	case "EndText":
		if str(n["sp"]) == "z" {
			return `\z`
		}
		return c11Flagged("$", "m", false, a.m)
	case "BeginLine":
		return c11Flagged("^", "m", true, a.m)
	case "EndLine":
		return c11Flagged("$", "m", true, a.m)
	case "WordBoundary":
		return `\b`
	case "NoWordBoundary":
		return `\B`
	case "EmptyMatch":
		return "(?:)"
	case "Capture":
		return "(" + c11Render(obj(sub[0]), a) + ")"
	case "Group":
		return "(?:" + c11Render(obj(sub[0]), a) + ")"
	case "Quest", "Star", "Plus", "Repeat":
		s := c11Atom(obj(sub[0]), a)
		switch op {
		case "Quest":
			s += "?"
		case "Star":
			s += "*"
		case "Plus":
			s += "+"
		default:
			mn, mx := num(n["min"]), num(n["max"])
			switch {
			case mx == -1:
				s += fmt.Sprintf("{%d,}", mn)
			case mx == mn:
				s += fmt.Sprintf("{%d}", mn)
			default:
				s += fmt.Sprintf("{%d,%d}", mn, mx)
			}
		}
		if c11HasFlag(n, "NonGreedy") {
			s += "?"
		}
		return s
	case "Concat":
		for _, x := range sub {
			y := obj(x)
			if str(y["op"]) == "Alternate" {
				b.WriteString("(?:" + c11Render(y, a) + ")")
			} else {
				b.WriteString(c11Render(y, a))
			}
		}
		return b.String()
	case "Alternate":
		for k, x := range sub {
			if k > 0 {
				b.WriteString("|")
			}
			b.WriteString(c11Render(obj(x), a))
		}
		return b.String()
	}
	panic("c11: cannot render op " + op)
}

// c11Atom renders n so that a repetition operator may follow it.
func c11Atom(n M, a c11Amb) string {
	s := c11Render(n, a)
	switch str(n["op"]) {
	case "Capture", "Group", "EmptyMatch":
		return s
	case "CharClass", "AnyChar", "AnyCharNotNL":
		return s // bare or already inside a flag group
	case "Literal":
		if len(list(n["rune"])) == 1 || strings.HasPrefix(s, "(?") {
			return s
		}
	}
	return "(?:" + s + ")"
}

func c11Pattern(re M, pre string) string {
	a := c11Amb{i: strings.Contains(pre, "i"), m: strings.Contains(pre, "m"), s: strings.Contains(pre, "s")}
	s := c11Render(re, a)
	if pre != "" {
		s = "(?" + pre + ")" + s
	}
	return s
}

var c11FlagNames = []struct {
	f syntax.Flags
	n string
}{
	{syntax.FoldCase, "FoldCase"}, {syntax.Literal, "Literal"}, {syntax.ClassNL, "ClassNL"},
	{syntax.DotNL, "DotNL"}, {syntax.OneLine, "OneLine"}, {syntax.NonGreedy, "NonGreedy"},
	{syntax.PerlX, "PerlX"}, {syntax.UnicodeGroups, "UnicodeGroups"}, {syntax.WasDollar, "WasDollar"},
	{syntax.Simple, "Simple"},
}

// c11Tree projects a *syntax.Regexp: operator name, names of the flag bits that are set,
// runes as code points, Min/Max of a repetition, sub-expressions.
func c11Tree(re *syntax.Regexp) M {
	n := M{"op": re.Op.String()}
	fl := []interface{}{}
	for _, x := range c11FlagNames {
		if re.Flags&x.f != 0 {
			fl = append(fl, x.n)
		}
	}
	n["fl"] = fl
	if len(re.Rune) > 0 {
		rs := make([]interface{}, len(re.Rune))
		for i, r := range re.Rune {
			rs[i] = int(r)
		}
		n["rune"] = rs
	}
	if re.Op == syntax.OpRepeat {
		n["min"], n["max"] = re.Min, re.Max
	}
	if re.Op == syntax.OpCapture {
		n["cap"] = re.Cap
	}
	if len(re.Sub) > 0 {
		ss := make([]interface{}, len(re.Sub))
		for i, s := range re.Sub {
			ss[i] = c11Tree(s)
		}
		n["sub"] = ss
	}
	return n
}

func c11Points(s string) []interface{} {
	out := []interface{}{}
	for _, r := range s {
		out = append(out, int(r))
	}
	return out
}

// c11TagLits lists, in evaluation order, the string literals compared (= or !=) with the tag.
func c11TagLits(e influxql.Expr, tag string) []interface{} {
	out := []interface{}{}
	influxql.WalkFunc(e, func(n influxql.Node) {
		be, ok := n.(*influxql.BinaryExpr)
		if !ok || (be.Op != influxql.EQ && be.Op != influxql.NEQ) {
			return
		}
		ref, ok := be.LHS.(*influxql.VarRef)
		if !ok || ref.Val != tag {
			return
		}
		if lit, ok := be.RHS.(*influxql.StringLiteral); ok {
			out = append(out, c11Points(lit.Val))
		}
	})
	return out
}

func c11Regexes(e influxql.Expr) []*influxql.RegexLiteral {
	var out []*influxql.RegexLiteral
	influxql.WalkFunc(e, func(n influxql.Node) {
		be, ok := n.(*influxql.BinaryExpr)
		if !ok || (be.Op != influxql.EQREGEX && be.Op != influxql.NEQREGEX) {
			return
		}
		if rl, ok := be.RHS.(*influxql.RegexLiteral); ok {
			out = append(out, rl)
		}
	})
	return out
}

func c11Bit(b bool) int {
	if b {
		return 1
	}
	return 0
}

func c11Run(c M) M {
	o := M{}
	var pat string
	if p := guard(func() { pat = c11Pattern(obj(c["re"]), str(c["pre"])) }); p != "" {
		o["render_err"] = p
		return o
	}
	tag := str(c["tag"])
	cond := strings.Replace(str(c["tmpl"]), "@", str(c["op"])+" /"+pat+"/", 1)
	text := "SELECT v FROM m WHERE " + cond
	o["pat"], o["text"] = pat, text

	var st influxql.Statement
	var err error
	if p := guard(func() { st, err = influxql.ParseStatement(text) }); p != "" {
		o["panic"] = "parse: " + p
		return o
	}
	if err != nil {
		o["err"] = errStr(err)
		return o
	}
	sel, ok := st.(*influxql.SelectStatement)
	if !ok || sel.Condition == nil {
		o["err"] = "not a SELECT with a condition"
		return o
	}

	words := []string{}
	for _, w := range list(c["cands"]) {
		rs := []rune{}
		for _, r := range list(w) {
			rs = append(rs, rune(num(r)))
		}
		words = append(words, string(rs))
	}
	dcs := []string{}
	for _, d := range list(c["dc"]) {
		dcs = append(dcs, str(d))
	}
	eval := func(e influxql.Expr) ([]interface{}, string) {
		out := []interface{}{}
		p := guard(func() {
			for _, d := range dcs {
				row := make([]interface{}, len(words))
				for j, w := range words {
					ev := influxql.ValuerEval{Valuer: influxql.MapValuer{tag: w, "dc": d}}
					row[j] = c11Bit(ev.EvalBool(e))
				}
				out = append(out, row)
			}
		})
		return out, p
	}

	// what the condition is before the rewrite
	regs := c11Regexes(sel.Condition)
	o["nre0"] = len(regs)
	o["cond0"] = sel.Condition.String()
	o["lits0"] = c11TagLits(sel.Condition, tag)
	if len(regs) > 0 {
		rx := regs[0].Val
		o["src"] = rx.String()
		gm := make([]interface{}, len(words))
		for j, w := range words {
			gm[j] = c11Bit(rx.MatchString(w))
		}
		o["gomatch"] = gm
		// the tree matchExactRegex reads
		if t, perr := syntax.Parse(rx.String(), syntax.Perl); perr == nil {
			o["tree"] = c11Tree(t.Simplify())
		} else {
			o["tree_err"] = errStr(perr)
		}
	}
	before, p := eval(sel.Condition)
	if p != "" {
		o["panic"] = "eval before: " + p
		return o
	}
	o["before"] = before

	if p := guard(func() { sel.RewriteRegexConditions() }); p != "" {
		o["panic"] = "RewriteRegexConditions: " + p
		return o
	}
	if sel.Condition == nil {
		o["cond_nil"] = true
		return o
	}
	o["cond1"] = sel.Condition.String()
	o["nre1"] = len(c11Regexes(sel.Condition))
	o["lits1"] = c11TagLits(sel.Condition, tag)
	o["after_ast"] = project(sel.Condition)
	after, p := eval(sel.Condition)
	if p != "" {
		o["panic"] = "eval after: " + p
		return o
	}
	o["after"] = after
	// the same text once more in the same process: what a rewrite yields must not depend on the rewrites made before it
	var st2 influxql.Statement
	if p := guard(func() { st2, err = influxql.ParseStatement(text) }); p != "" || err != nil {
		o["panic2"] = "parse: " + p + errStr(err)
		return o
	}
	if sel2, ok := st2.(*influxql.SelectStatement); ok && sel2.Condition != nil {
		if p := guard(func() { sel2.RewriteRegexConditions() }); p != "" {
			o["panic2"] = "RewriteRegexConditions: " + p
			return o
		}
		if sel2.Condition != nil {
			o["cond2"] = sel2.Condition.String()
			after2, p := eval(sel2.Condition)
			if p != "" {
				o["panic2"] = "eval: " + p
				return o
			}
			o["after2"] = after2
		}
	}
	return o
}
