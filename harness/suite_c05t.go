package main

import (
	"os"
	"strings"

	"github.com/influxdata/influxql"
)

// c05t: a text is handed to one public entry point of the parser (ParseQuery by default,
// "expr" ParseExpr, "stmt" ParseStatement, "scan" a bare Scanner loop) while the session
// tracer of tracer.go records every reader and token-ring step.  The observation is the
// session as recorded, nothing else; spec/c05/ScanTrace.tla replays and judges it.
func init() {
	register("c05t", &Suite{Serial: true, Run: func(c M) M {
		text := caseInput(c)
		delete(c, "toks")
		delete(c, "bytes")
		entry := str(c["entry"])
		if entry == "" {
			entry = os.Getenv("VERIF_ENTRY")
		}
		var sessions []map[string]interface{}
		t := newSessionTracer(func(rec map[string]interface{}) { sessions = append(sessions, rec) })
		influxql.VerifTrace = t.hook
		p := guard(func() {
			switch entry {
			case "expr":
				_, _ = influxql.ParseExpr(text)
			case "stmt":
				_, _ = influxql.ParseStatement(text)
			case "scan":
				s := influxql.NewScanner(strings.NewReader(text))
				for k := 0; k < len(text)+3; k++ {
					if tok, _, _ := s.Scan(); tok == influxql.EOF {
						break
					}
				}
			default:
				_, _ = influxql.ParseQuery(text)
			}
		})
		influxql.VerifTrace = nil
		t.flush()
		o := M{"text": text, "ev": []int{}, "toks": []interface{}{}}
		if len(sessions) > 0 {
			o = M(sessions[0])
			o["text"] = text
		}
		if p != "" {
			o["panic"] = p // C04's business; the steps up to the panic are still judged
		}
		return o
	}})
}
