package main

// Session tracer for influxql.VerifTrace.
//
// A session is the life of one Scanner (event "ns" up to the next "ns").  The tracer only
// transcribes: every reader / token-ring event becomes one small integer, every scanned
// token one [name, line, column] triple.  Nothing is checked here; the TLA+ trace
// specification spec/c05/ScanTrace.tla replays each session against the reader and
// token-ring model and decides.
//
// The same file is compiled into the repository's own test binary (package clause
// replaced, see checks/c05.py: `go test -overlay`), so that the executions of the
// repository's tests are validated as they are, not re-enacted.
//
// Event code: kind*1000 + n*100 + i*10 + c
//
//	kind 1 raw read, 2 buffered re-read, 3 unread, 4 token scanned, 5 token re-delivered
//	n, i the ring's n and i as the code reports them after the step
//	c    class of the delivered rune (raw reads only): 0 other, 1 newline, 2 end-of-input marker, 3 quote

import (
	"bufio"
	"crypto/sha256"
	"encoding/json"
	"os"

	"github.com/influxdata/influxql"
)

type traceSession struct {
	text []rune
	ev   []int
	toks [][]interface{}
	open bool
}

type sessionTracer struct {
	cur      traceSession
	seen     map[[32]byte]bool
	emit     func(rec map[string]interface{})
	sessions int // sessions seen (before de-duplication)
	events   int
	maxEv    int // sessions with more events are cut (recorded as "cut")
}

func newSessionTracer(emit func(map[string]interface{})) *sessionTracer {
	return &sessionTracer{seen: map[[32]byte]bool{}, emit: emit, maxEv: 200000}
}

func clampDigit(v int) int {
	if v < 0 {
		return 9
	}
	if v > 9 {
		return 9
	}
	return v
}

func (t *sessionTracer) hook(kind string, a, b int, ch rune) {
	if kind == "ns" {
		t.flush()
		t.cur = traceSession{open: true}
		return
	}
	if !t.cur.open {
		return // a scanner created before the tracer was installed
	}
	s := &t.cur
	if len(s.ev) >= t.maxEv {
		return
	}
	switch kind {
	case "rd":
		c := 0
		if ch == '\n' {
			c = 1
		} else if ch == 0 {
			c = 2
		} else if ch == '\'' || ch == '"' {
			c = 3
		}
		if c != 2 {
			s.text = append(s.text, ch)
		}
		s.ev = append(s.ev, 1000+clampDigit(a)*100+clampDigit(b)*10+c)
	case "re":
		s.ev = append(s.ev, 2000+clampDigit(a)*100+clampDigit(b)*10)
	case "un":
		s.ev = append(s.ev, 3000+clampDigit(a)*100+clampDigit(b)*10)
	case "ts":
		s.ev = append(s.ev, 4000+clampDigit(a)*100+clampDigit(b)*10)
	case "tp":
		s.toks = append(s.toks, []interface{}{tokName(influxql.Token(ch)), a, b})
	case "tb":
		s.ev = append(s.ev, 5000+clampDigit(a)*100+clampDigit(b)*10)
	}
}

func (t *sessionTracer) flush() {
	s := &t.cur
	if !s.open {
		return
	}
	s.open = false
	t.sessions++
	if len(s.ev) == 0 {
		return
	}
	t.events += len(s.ev)
	rec := map[string]interface{}{"text": string(s.text), "ev": s.ev, "toks": s.toks}
	if s.toks == nil {
		rec["toks"] = []interface{}{}
	}
	if len(s.ev) >= t.maxEv {
		rec["cut"] = true
	}
	b, _ := json.Marshal(rec)
	h := sha256.Sum256(b)
	if t.seen[h] {
		return
	}
	t.seen[h] = true
	t.emit(rec)
}

// traceToFile installs a tracer that writes one {"id", "obs"} line per distinct session.
// The returned function uninstalls it and closes the file.
func traceToFile(path string) (stop func()) {
	f, err := os.Create(path)
	if err != nil {
		panic(err)
	}
	w := bufio.NewWriterSize(f, 1<<20)
	enc := json.NewEncoder(w)
	enc.SetEscapeHTML(false)
	id := 0
	t := newSessionTracer(func(rec map[string]interface{}) {
		id++
		_ = enc.Encode(map[string]interface{}{"id": id, "obs": rec})
	})
	influxql.VerifTrace = t.hook
	return func() {
		influxql.VerifTrace = nil
		t.flush()
		_ = enc.Encode(map[string]interface{}{"id": id + 1, "obs": map[string]interface{}{
			"summary": true, "sessions": t.sessions, "distinct": id, "events": t.events, "text": "", "ev": []int{}, "toks": []interface{}{}}})
		w.Flush()
		f.Close()
	}
}

// tokName names a token kind.  Token.String() is empty for COMMENT, BOUNDPARAM, INTEGER
// and BADREGEX, so those are named here.
func tokName(t influxql.Token) string {
	switch t {
	case influxql.COMMENT:
		return "COMMENT"
	case influxql.BOUNDPARAM:
		return "BOUNDPARAM"
	case influxql.INTEGER:
		return "INTEGER"
	case influxql.BADREGEX:
		return "BADREGEX"
	}
	if s := t.String(); s != "" {
		return s
	}
	return "TOKEN" + itoa(int(t))
}

func itoa(n int) string {
	if n == 0 {
		return "0"
	}
	neg := n < 0
	if neg {
		n = -n
	}
	var b []byte
	for n > 0 {
		b = append([]byte{byte('0' + n%10)}, b...)
		n /= 10
	}
	if neg {
		b = append([]byte{'-'}, b...)
	}
	return string(b)
}
