package main

import (
	"strings"

	"github.com/influxdata/influxql"
)

// c15: run Sanitize on a text given as segments, parse the text with the real parser and
// print every parsed statement.  Nothing is compared here: what the parser extracted
// (statement kinds, user names, passwords), the sanitized text and the printed statements
// are recorded, as strings and as arrays of 1-character strings, for Judge_c15.tla.

// the repository's own two test inputs (sanitize_test.go); the judge reads the replacement
// text off their outputs
const (
	c15CalSet    = `set password for "admin" = 'admin'`
	c15CalCreate = `create user "admin" with password 'admin'`
)

func c15Chars(s string) []interface{} {
	out := make([]interface{}, 0, len(s))
	for _, r := range s {
		out = append(out, string(r))
	}
	return out
}

// placeholders of spec/c15/Gen_c15.tla for characters that must not travel through TLC state variables
var c15Place = strings.NewReplacer("{IDOT}", "\u0130", "{KELVIN}", "\u212a", "{ASTROKE}", "\u023a", "{LONGS}", "\u017f",
	"{NBSP}", "\u00a0", "{VT}", "\v", "{FF}", "\f", "{NEL}", "\u0085", "{LS}", "\u2028", "{IDSP}", "\u3000", "{EMSP}", "\u2003",
	"{ZWSP}", "\u200b", "{BOM}", "\ufeff")

// c15Text joins the segments; placeholders are replaced IN the case, so that the judge reads the real characters.
func c15Text(c M) string {
	var b strings.Builder
	for _, x := range list(c["segs"]) {
		sg := obj(x)
		t := c15Place.Replace(str(sg["text"]))
		sg["text"] = t
		b.WriteString(t)
	}
	return b.String()
}

func c15Run(c M) M {
	text := c15Text(c)
	o := M{"text": text}
	var san, calS, calC string
	if p := guard(func() {
		san = influxql.Sanitize(text)
		calS = influxql.Sanitize(c15CalSet)
		calC = influxql.Sanitize(c15CalCreate)
	}); p != "" {
		o["panic"] = "Sanitize: " + p
		return o
	}
	o["san"] = san
	o["sanc"] = c15Chars(san)
	o["calS"] = calS
	o["calC"] = calC

	var q *influxql.Query
	var err error
	if p := guard(func() { q, err = influxql.ParseQuery(text) }); p != "" {
		o["panic"] = "ParseQuery: " + p
		return o
	}
	if err != nil {
		o["err"] = errStr(err)
		return o
	}
	stmts := make([]interface{}, 0, len(q.Statements))
	strs := make([]interface{}, 0, len(q.Statements))
	strc := make([]interface{}, 0, len(q.Statements))
	for _, s := range q.Statements {
		switch x := s.(type) {
		case *influxql.CreateUserStatement:
			stmts = append(stmts, M{"k": "create", "name": x.Name, "pw": x.Password, "admin": x.Admin})
		case *influxql.SetPasswordUserStatement:
			stmts = append(stmts, M{"k": "setpw", "name": x.Name, "pw": x.Password})
		default:
			stmts = append(stmts, M{"k": "other"})
		}
		var out string
		if p := guard(func() { out = s.String() }); p != "" {
			o["panic"] = "String: " + p
			return o
		}
		strs = append(strs, out)
		strc = append(strc, c15Chars(out))
	}
	o["stmts"] = stmts
	o["strs"] = strs
	o["strc"] = strc
	return o
}

func init() {
	register("c15", &Suite{Run: c15Run})
}
